(** C17: the generator is equivariant under a renumbering of the registry ids.
    Resolution, IR construction and emission for a registry [r'] that answers
    [resolve r' (pi id) = option_map (rename_ty pi) (resolve r id)] (in
    particular [renumber pi r]); ids are never printed. *)
From Coq Require Import List NArith String Bool Lia Permutation.
From V Require Import Base.Strings Base.Result Model.Registry Model.Settings Model.Subst
  Model.TypePath Model.Derives Model.Generate Model.Emit Model.Equal Model.Switches Model.Renumber
  Proofs.GenProofs Proofs.TpMap Proofs.ItemsCanonical Proofs.RenumberPerm.
From V Require Import Proofs.SynKey.
Import ListNotations.
Open Scope string_scope. Open Scope list_scope.

(** ** generic helpers *)
Definition no_err {A} (x : result A) : Prop := forall e, x <> Err e.

Lemma rmap_e_no_err {A B} pi (f : A -> B) (x : result A) : no_err x -> rmap_e pi f x = rmap f x.
Proof. intros H. destruct x as [a|e|m]; try reflexivity. exfalso. exact (H e eq_refl). Qed.

Lemma mapM_no_err {A B} (f : A -> result B) l : Forall (fun x => no_err (f x)) l -> no_err (mapM f l).
Proof.
  induction 1 as [|x l Hx Hl IH]; intros e; [discriminate|].
  rewrite mapM_cons. destruct (f x) as [y|e'|m] eqn:E; cbn [bind].
  - destruct (mapM f l) as [ys|e'|m] eqn:E2; cbn [bind]; try discriminate.
    intros H; inversion H; subst. exact (IH _ eq_refl).
  - exfalso. exact (Hx e' eq_refl).
  - discriminate.
Qed.

Lemma mapM_map_same {A B} (f : A -> result B) (g : A -> A) l :
  Forall (fun x => f (g x) = f x) l -> mapM f (map g l) = mapM f l.
Proof.
  induction 1 as [|x l Hx Hl IH]; [reflexivity|].
  cbn [map]. rewrite !mapM_cons, Hx, IH. reflexivity.
Qed.

Lemma mapM_map_rmap_e {A A' B B'} pi (f1 : A -> result B) (f2 : A' -> result B')
      (g : A -> A') (h : B -> B') l :
  Forall (fun x => f2 (g x) = rmap_e pi h (f1 x)) l ->
  mapM f2 (map g l) = rmap_e pi (map h) (mapM f1 l).
Proof.
  induction 1 as [|x l Hx Hl IH]; [reflexivity|].
  cbn [map]. rewrite !mapM_cons, Hx, IH.
  destruct (f1 x) as [y|e|m]; cbn; [|reflexivity|reflexivity].
  destruct (mapM f1 l) as [ys|e|m]; reflexivity.
Qed.

Lemma find_map {A B} (f : B -> bool) (g : A -> B) l :
  find f (map g l) = option_map g (find (fun x => f (g x)) l).
Proof.
  induction l as [|x l IH]; [reflexivity|]. cbn [map find].
  destruct (f (g x)); [reflexivity|exact IH].
Qed.

Lemma find_ext {A} (f g : A -> bool) l : (forall x, f x = g x) -> find f l = find g l.
Proof. intros H. induction l as [|x l IH]; [reflexivity|]. cbn [find]. rewrite H, IH. reflexivity. Qed.

Lemma cow_match {T} (o : option string) (A B : T) :
  match o with Some "Cow" => A | _ => B end =
  if match o with Some x => String.eqb x "Cow" | None => false end then A else B.
Proof.
  destruct o as [x|]; [|reflexivity].
  destruct (String.eqb x "Cow") eqn:E.
  - apply String.eqb_eq in E. subst. reflexivity.
  - destruct x as [|[[] [] [] [] [] [] [] []] x]; try reflexivity.
    destruct x as [|[[] [] [] [] [] [] [] []] x]; try reflexivity.
    destruct x as [|[[] [] [] [] [] [] [] []] x]; try reflexivity.
    destruct x as [|a x]; [discriminate E|]. reflexivity.
Qed.

(** ** ids are never printed *)
Section Ids.
  Variable pi : N -> N.

  Lemma tpi_name_rename p : tpi_name (rename_tpi pi p) = tpi_name p.
  Proof. reflexivity. Qed.

  Lemma tuple_or_array_map_ids t :
    WellFormed.tuple_or_array (map_ids pi t) = WellFormed.tuple_or_array t.
  Proof. destruct t; reflexivity. Qed.

  Theorem tp_tokens_map_ids alloc t : tp_tokens alloc (map_ids pi t) = tp_tokens alloc t.
  Proof.
    induction t as [p|ptoks params IH|o IH|len o IH|els IH|p|i f cp IH|o st b IHo IHs]
                   using tpath_ind'; cbn [map_ids].
    - reflexivity.
    - rewrite !tp_tokens_TPath, (mapM_map_same _ _ _ IH). reflexivity.
    - rewrite !tp_tokens_TVec, IH. reflexivity.
    - rewrite !tp_tokens_TArray, IH. reflexivity.
    - rewrite !tp_tokens_TTuple, (mapM_map_same _ _ _ IH). reflexivity.
    - reflexivity.
    - rewrite !tp_tokens_TCompact, IH, tuple_or_array_map_ids. reflexivity.
    - rewrite !tp_tokens_TBitVec, IHo, IHs. reflexivity.
  Qed.

  Lemma is_compact_map_ids t : is_compact (map_ids pi t) = is_compact t.
  Proof. destruct t; reflexivity. Qed.
  Lemma is_uint_map_ids t : is_uint_up_to_u128 (map_ids pi t) = is_uint_up_to_u128 t.
  Proof. destruct t; reflexivity. Qed.

  Lemma parent_params_go l :
    (fix go (l : list tpath) := match l with [] => [] | x :: l' => parent_params x ++ go l' end) l
    = flat_map parent_params l.
  Proof. induction l as [|x l IH]; [reflexivity|]. cbn [flat_map]. rewrite <- IH. reflexivity. Qed.

  Lemma parent_params_TPath ptoks params :
    parent_params (TPath ptoks params) = flat_map parent_params params.
  Proof. rewrite <- parent_params_go. reflexivity. Qed.
  Lemma parent_params_TTuple els : parent_params (TTuple els) = flat_map parent_params els.
  Proof. rewrite <- parent_params_go. reflexivity. Qed.

  Lemma flat_map_map_Forall {A B C} (f : B -> list C) (f' : A -> list C) (g : A -> B) l :
    Forall (fun x => f (g x) = f' x) l -> flat_map f (map g l) = flat_map f' l.
  Proof. induction 1 as [|x l Hx Hl IH]; [reflexivity|]. cbn [map flat_map]. rewrite Hx, IH. reflexivity. Qed.

  Lemma flat_map_map_comm {A B C} (f : A -> list B) (g : B -> C) l :
    flat_map (fun x => map g (f x)) l = map g (flat_map f l).
  Proof. induction l as [|x l IH]; [reflexivity|]. cbn [flat_map]. rewrite IH, map_app. reflexivity. Qed.

  Lemma parent_params_map_ids t :
    parent_params (map_ids pi t) = map (rename_tpi pi) (parent_params t).
  Proof.
    induction t as [p|ptoks params IH|o IH|len o IH|els IH|p|i f cp IH|o st b IHo IHs]
                   using tpath_ind'; cbn [map_ids].
    - reflexivity.
    - rewrite !parent_params_TPath.
      rewrite (flat_map_map_Forall parent_params (fun x => map (rename_tpi pi) (parent_params x)) _ _ IH).
      apply flat_map_map_comm.
    - exact IH.
    - exact IH.
    - rewrite !parent_params_TTuple.
      rewrite (flat_map_map_Forall parent_params (fun x => map (rename_tpi pi) (parent_params x)) _ _ IH).
      apply flat_map_map_comm.
    - reflexivity.
    - exact IH.
    - cbn [parent_params]. rewrite IHo, IHs, map_app. reflexivity.
  Qed.

  (** token emission never fails with a documented error *)
  Lemma tp_tokens_no_err alloc t : no_err (tp_tokens alloc t).
  Proof.
    induction t as [p|ptoks params IH|o IH|len o IH|els IH|p|i f cp IH|o st b IHo IHs]
                   using tpath_ind'; intros e.
    - discriminate.
    - rewrite tp_tokens_TPath. pose proof (mapM_no_err _ _ IH) as Hm.
      destruct (mapM (tp_tokens alloc) params) as [ps|e'|m]; cbn [bind].
      + destruct ps; discriminate.
      + exfalso. exact (Hm e' eq_refl).
      + discriminate.
    - rewrite tp_tokens_TVec. destruct (tp_tokens alloc o) as [x|e'|m]; cbn [bind]; try discriminate.
      exfalso. exact (IH e' eq_refl).
    - rewrite tp_tokens_TArray. destruct (tp_tokens alloc o) as [x|e'|m]; cbn [bind]; try discriminate.
      exfalso. exact (IH e' eq_refl).
    - rewrite tp_tokens_TTuple. pose proof (mapM_no_err _ _ IH) as Hm.
      destruct (mapM (tp_tokens alloc) els) as [ps|e'|m]; cbn [bind]; try discriminate.
      exfalso. exact (Hm e' eq_refl).
    - cbn [tp_tokens]. destruct p; cbn; discriminate.
    - rewrite tp_tokens_TCompact. destruct (tp_tokens alloc i) as [x|e'|m]; cbn [bind].
      + destruct f; [destruct (WellFormed.tuple_or_array i)|]; cbn [andb]; discriminate.
      + exfalso. exact (IH e' eq_refl).
      + discriminate.
    - rewrite tp_tokens_TBitVec. destruct (tp_tokens alloc o) as [x|e'|m]; cbn [bind].
      + destruct (tp_tokens alloc st) as [y|e'|m]; cbn [bind]; try discriminate.
        exfalso. exact (IHs e' eq_refl).
      + exfalso. exact (IHo e' eq_refl).
      + discriminate.
  Qed.
End Ids.

(** ** resolution *)
Section Resolve.
  Variable pi : N -> N.
  Variable r r' : registry.
  Variable s : settings.
  Hypothesis Hinj : forall i j, pi i = pi j -> i = j.
  Hypothesis Hres : forall id, resolve r' (pi id) = option_map (rename_ty pi) (resolve r id).
  Hypothesis Hlen : List.length r' = List.length r.

  Lemma pi_eqb a b : N.eqb (pi a) (pi b) = N.eqb a b.
  Proof.
    destruct (N.eqb_spec a b) as [->|Hne]; [apply N.eqb_refl|].
    apply N.eqb_neq. intros H. apply Hne, Hinj, H.
  Qed.

  Lemma find_parent_rename parents id orig :
    find_parent (map (rename_tpi pi) parents) (pi id) orig =
    option_map (rename_tpi pi) (find_parent parents id orig).
  Proof.
    unfold find_parent. rewrite find_map. f_equal. apply find_ext. intros x.
    cbn [rename_tpi tpi_id tpi_orig]. rewrite pi_eqb. reflexivity.
  Qed.

  Lemma resolve_type_rename id :
    resolve_type r' (pi id) = rmap_e pi (rename_ty pi) (resolve_type r id).
  Proof. unfold resolve_type. rewrite Hres. destruct (resolve r id); reflexivity. Qed.

  Lemma param_ids_rename t : param_ids (rename_ty pi t) = map pi (param_ids t).
  Proof.
    unfold param_ids. cbn [rename_ty t_params].
    induction (t_params t) as [|p l IH]; [reflexivity|].
    cbn [map flat_map]. rewrite IH, map_app. f_equal.
    destruct p as [nm [i|]]; reflexivity.
  Qed.

  Lemma sel_map_ids (m : list (string * nat)) params :
    flat_map (fun '(id, idx) => match nth_error (map (map_ids pi) params) idx with
                                | Some p => [(id, p)] | None => [] end) m =
    map (fun x => (fst x, map_ids pi (snd x)))
        (flat_map (fun '(id, idx) => match nth_error params idx with
                                     | Some p => [(id, p)] | None => [] end) m).
  Proof.
    induction m as [|[id idx] m IH]; [reflexivity|].
    cbn [flat_map]. rewrite IH, map_app. f_equal.
    rewrite nth_error_map. destruct (nth_error params idx); reflexivity.
  Qed.

  Lemma for_path_map_ids path params :
    for_path_with_params s path (map (map_ids pi) params) =
    option_map (rmap (map_ids pi)) (for_path_with_params s path params).
  Proof.
    unfold for_path_with_params. destruct (subs_get (s_subs s) path) as [sub|]; [|reflexivity].
    cbn [option_map]. f_equal. destruct (su_map sub) as [|m]; [reflexivity|].
    rewrite sel_map_ids.
    destruct (flat_map _ m) as [|x sel]; [reflexivity|].
    set (f := fun '(id, p) => let* t := tp_tokens (alloc_tokens (s_alloc s)) p in Ok (id, t)).
    assert (Hm : mapM f (map (fun x => (fst x, map_ids pi (snd x))) (x :: sel)) = mapM f (x :: sel)).
    { apply mapM_map_same. apply Forall_forall. intros [id p] _. unfold f. cbn [fst snd].
      rewrite tp_tokens_map_ids. reflexivity. }
    cbn [map] in Hm |- *. rewrite Hm.
    destruct (mapM f (x :: sel)) as [repl|e|msg]; reflexivity.
  Qed.

  Lemma type_path_maybe_map_ids path params :
    type_path_maybe_with_substitutes s path (map (map_ids pi) params) =
    rmap (map_ids pi) (type_path_maybe_with_substitutes s path params).
  Proof.
    unfold type_path_maybe_with_substitutes. rewrite for_path_map_ids.
    destruct (for_path_with_params s path params) as [x|]; [reflexivity|].
    destruct (from_type_def_path path (s_root s) (alloc_tokens (s_alloc s))); reflexivity.
  Qed.

  Lemma from_type_def_path_no_err path root alloc : no_err (from_type_def_path path root alloc).
  Proof.
    intros e. unfold from_type_def_path. destruct path as [|a [|b l]]; [discriminate| |].
    - destruct (assoc_str (prelude_table alloc) a); discriminate.
    - destruct (forallb path_seg_okb (a :: b :: l)); discriminate.
  Qed.

  Lemma type_path_maybe_no_err path params :
    no_err (type_path_maybe_with_substitutes s path params).
  Proof.
    intros e. unfold type_path_maybe_with_substitutes, for_path_with_params.
    destruct (subs_get (s_subs s) path) as [sub|].
    - destruct (su_map sub) as [|m]; [discriminate|].
      destruct (flat_map _ m) as [|x sel]; [discriminate|].
      set (f := fun '(id, p) => let* t := tp_tokens (alloc_tokens (s_alloc s)) p in Ok (id, t)).
      assert (Hm : no_err (mapM f (x :: sel))).
      { apply mapM_no_err. apply Forall_forall. intros [id p] _ e'. unfold f.
        pose proof (tp_tokens_no_err (alloc_tokens (s_alloc s)) p) as Hp.
        destruct (tp_tokens (alloc_tokens (s_alloc s)) p) as [t|e''|msg]; cbn [bind]; try discriminate.
        exfalso. exact (Hp e'' eq_refl). }
      destruct (mapM f (x :: sel)) as [repl|e'|msg]; cbn [bind]; try discriminate.
      exfalso. exact (Hm e' eq_refl).
    - pose proof (from_type_def_path_no_err path (s_root s) (alloc_tokens (s_alloc s))) as Hp.
      destruct (from_type_def_path path (s_root s) (alloc_tokens (s_alloc s))) as [p|e'|msg];
        cbn [bind]; try discriminate.
      exfalso. exact (Hp e' eq_refl).
  Qed.

  (** one unfolding of the resolver *)
  Lemma resolve_rec_S rr fuel id is_field parents orig :
    resolve_rec rr s (S fuel) id is_field parents orig =
    match find_parent parents id orig with
    | Some p => Ok (TParam p)
    | None =>
      let* t0 := resolve_type rr id in
      let* t :=
        match path_ident (t_path t0) with
        | Some "Cow" =>
            match t_params t0 with
            | [] => Panic "index out of bounds"
            | p0 :: _ =>
                match tp_ty p0 with
                | None => Err EInvalidType
                | Some inner => resolve_type rr inner
                end
            end
        | _ => Ok t0
        end in
      let* params := mapM (fun i => resolve_rec rr s fuel i false parents None) (param_ids t) in
      match t_def t with
      | TDComposite _ | TDVariant _ => type_path_maybe_with_substitutes s (t_path t) params
      | TDPrimitive p => Ok (TPrim p)
      | TDArray len e => let* i := resolve_rec rr s fuel e false parents None in Ok (TArray len i)
      | TDSequence e => let* i := resolve_rec rr s fuel e false parents None in Ok (TVec i)
      | TDTuple es => let* l := mapM (fun i => resolve_rec rr s fuel i false parents None) es in
                      Ok (TTuple l)
      | TDCompact e =>
          let* i := resolve_rec rr s fuel e false parents None in
          match s_compact s with
          | None => Err ECompactPathNone
          | Some c => Ok (TCompact i is_field c)
          end
      | TDBitSeq store order =>
          match s_bits s with
          | None => Err EBitsPathNone
          | Some b =>
              let* o := resolve_rec rr s fuel order false parents None in
              let* st := resolve_rec rr s fuel store false parents None in
              Ok (TBitVec o st b)
          end
      end
    end.
  Proof. reflexivity. Qed.

  (** the "Cow" indirection step *)
  Definition cow_step (rr : registry) (t0 : ty) : result ty :=
    if match path_ident (t_path t0) with Some x => String.eqb x "Cow" | None => false end
    then match t_params t0 with
         | [] => Panic "index out of bounds"
         | p0 :: _ =>
             match tp_ty p0 with
             | None => Err EInvalidType
             | Some inner => resolve_type rr inner
             end
         end
    else Ok t0.

  Lemma cow_step_rename t0 :
    cow_step r' (rename_ty pi t0) = rmap_e pi (rename_ty pi) (cow_step r t0).
  Proof.
    unfold cow_step. cbn [rename_ty t_path t_params].
    destruct (match path_ident (t_path t0) with Some x => String.eqb x "Cow" | None => false end);
      [|reflexivity].
    destruct (t_params t0) as [|p0 ps]; [reflexivity|]. cbn [map].
    destruct p0 as [nm [inner|]]; cbn [rename_tparam tp_ty option_map]; [|reflexivity].
    apply resolve_type_rename.
  Qed.

  Theorem resolve_rec_equivariant : forall fuel id is_field parents orig,
    resolve_rec r' s fuel (pi id) is_field (map (rename_tpi pi) parents) orig =
    rmap_e pi (map_ids pi) (resolve_rec r s fuel id is_field parents orig).
  Proof.
    induction fuel as [|fuel IH]; intros id is_field parents orig; [reflexivity|].
    rewrite !resolve_rec_S, find_parent_rename.
    destruct (find_parent parents id orig) as [p|]; [reflexivity|]. cbn [option_map].
    rewrite resolve_type_rename.
    destruct (resolve_type r id) as [t0|e|m]; [|reflexivity|reflexivity].
    cbn [rmap_e bind]. rewrite !cow_match.
    change (if match path_ident (t_path (rename_ty pi t0)) with
               | Some x => (x =? "Cow")%string | None => false end
            then match t_params (rename_ty pi t0) with
                 | [] => Panic "index out of bounds"
                 | p0 :: _ => match tp_ty p0 with
                              | Some inner => resolve_type r' inner
                              | None => Err EInvalidType
                              end
                 end
            else Ok (rename_ty pi t0)) with (cow_step r' (rename_ty pi t0)).
    change (if match path_ident (t_path t0) with
               | Some x => (x =? "Cow")%string | None => false end
            then match t_params t0 with
                 | [] => Panic "index out of bounds"
                 | p0 :: _ => match tp_ty p0 with
                              | Some inner => resolve_type r inner
                              | None => Err EInvalidType
                              end
                 end
            else Ok t0) with (cow_step r t0).
    rewrite cow_step_rename.
    destruct (cow_step r t0) as [t|e|m]; [|reflexivity|reflexivity].
    cbn [rmap_e bind]. rewrite param_ids_rename.
    assert (HM : forall l, mapM (fun i => resolve_rec r' s fuel i false (map (rename_tpi pi) parents) None)
                                (map pi l) =
                           rmap_e pi (map (map_ids pi))
                                  (mapM (fun i => resolve_rec r s fuel i false parents None) l)).
    { intros l. apply mapM_map_rmap_e. apply Forall_forall. intros x _. apply IH. }
    rewrite HM.
    destruct (mapM (fun i => resolve_rec r s fuel i false parents None) (param_ids t))
      as [params|e|m]; [|reflexivity|reflexivity].
    cbn [rmap_e bind]. cbn [rename_ty t_def t_path].
    destruct (t_def t) as [fs|vs|e|len e|es|p|e|st o]; cbn [rename_def].
    - rewrite type_path_maybe_map_ids. symmetry. apply rmap_e_no_err, type_path_maybe_no_err.
    - rewrite type_path_maybe_map_ids. symmetry. apply rmap_e_no_err, type_path_maybe_no_err.
    - rewrite IH. destruct (resolve_rec r s fuel e false parents None); reflexivity.
    - rewrite IH. destruct (resolve_rec r s fuel e false parents None); reflexivity.
    - rewrite HM. destruct (mapM _ es); reflexivity.
    - reflexivity.
    - rewrite IH. destruct (resolve_rec r s fuel e false parents None) as [i|e'|m]; try reflexivity.
      cbn [rmap_e bind]. destruct (s_compact s); reflexivity.
    - destruct (s_bits s) as [b|]; [|reflexivity].
      rewrite !IH. destruct (resolve_rec r s fuel o false parents None) as [x|e'|m]; try reflexivity.
      cbn [rmap_e bind]. destruct (resolve_rec r s fuel st false parents None); reflexivity.
  Qed.

  Lemma fuel0_eq : fuel0 r' = fuel0 r.
  Proof. unfold fuel0. rewrite Hlen. reflexivity. Qed.

  Corollary resolve_type_path_equivariant id :
    resolve_type_path r' s (pi id) = rmap_e pi (map_ids pi) (resolve_type_path r s id).
  Proof. unfold resolve_type_path. rewrite fuel0_eq. apply (resolve_rec_equivariant _ _ _ []). Qed.

  Corollary resolve_field_type_path_equivariant id parents orig :
    resolve_field_type_path r' s (pi id) (map (rename_tpi pi) parents) orig =
    rmap_e pi (map_ids pi) (resolve_field_type_path r s id parents orig).
  Proof. unfold resolve_field_type_path. rewrite fuel0_eq. apply resolve_rec_equivariant. Qed.
End Resolve.

(** ** IR construction *)
Lemma variants_ir_eq r s params : forall l u,
  (fix go (l : list variant) (unused : list tparam_ir)
     : result (list (N * composite_ir) * list tparam_ir) :=
     match l with
     | [] => Ok ([], unused)
     | v :: l' =>
         let* vn := parse_ident (v_name v) in
         let* ku := create_composite_ir_kind r s (v_fields v) params unused in
         let* rest := go l' (snd ku) in
         Ok ((v_index v, mk_ci vn (fst ku) (docs_from_scale_info s (v_docs v))) :: fst rest,
             snd rest)
     end) l u = variants_ir r s params l u.
Proof.
  induction l as [|v l IH]; intros u; [reflexivity|].
  cbn [variants_ir]. destruct (parse_ident (v_name v)) as [vn|e|m]; [|reflexivity|reflexivity].
  cbn [bind]. destruct (create_composite_ir_kind r s (v_fields v) params u) as [ku|e|m];
    [|reflexivity|reflexivity].
  cbn [bind]. rewrite IH. reflexivity.
Qed.

Lemma create_type_ir_unfold r s t flat :
  create_type_ir r s t flat =
  if negb (is_composite_or_variant (t_def t)) then Ok None
  else
    match path_ident (t_path t) with
    | None => Panic "Structs and enums should have a name"
    | Some nm =>
      let* name := parse_ident nm in
      let* kcu :=
        match t_def t with
        | TDComposite fs =>
            let* ku := create_composite_ir_kind r s fs (params_from_scale_info (t_params t))
                                                (params_from_scale_info (t_params t)) in
            Ok (KStruct (mk_ci name (fst ku) (docs_from_scale_info s (t_docs t))),
                could_derive_as_compact (fst ku), snd ku)
        | TDVariant vs =>
            let* vu := variants_ir r s (params_from_scale_info (t_params t)) vs
                                   (params_from_scale_info (t_params t)) in
            Ok (KEnum name (docs_from_scale_info s (t_docs t)) (fst vu), false, snd vu)
        | _ => Panic "unreachable"
        end in
      let '(kind, cdac, unused) := kcu in
      let* d := resolve_derives_for_type flat t in
      Ok (Some (mk_ti (params_from_scale_info (t_params t)) unused
                      (if cdac then add_as_compact s d else d) (s_codec s) kind))
    end.
Proof.
  unfold create_type_ir. destruct (negb (is_composite_or_variant (t_def t))); [reflexivity|].
  destruct (path_ident (t_path t)) as [nm|]; [|reflexivity].
  destruct (parse_ident nm) as [name|e|m]; [|reflexivity|reflexivity]. cbn [bind].
  destruct (t_def t); try reflexivity.
  rewrite variants_ir_eq. reflexivity.
Qed.

Section IR.
  Variable pi : N -> N.
  Variable r r' : registry.
  Variable s : settings.
  Hypothesis Hinj : forall i j, pi i = pi j -> i = j.
  Hypothesis Hres : forall id, resolve r' (pi id) = option_map (rename_ty pi) (resolve r id).
  Hypothesis Hlen : List.length r' = List.length r.

  Lemma params_from_scale_info_rename ps :
    params_from_scale_info (map (rename_tparam pi) ps) =
    map (rename_tpi pi) (params_from_scale_info ps).
  Proof.
    unfold params_from_scale_info. generalize 0%N.
    induction ps as [|p ps IH]; intros i; [reflexivity|].
    cbn [map]. destruct p as [nm [id|]]; cbn [rename_tparam tp_ty tp_name option_map].
    - rewrite IH. reflexivity.
    - apply IH.
  Qed.

  Lemma tpi_eqb_rename p q : tpi_eqb (rename_tpi pi p) (rename_tpi pi q) = tpi_eqb p q.
  Proof. unfold tpi_eqb. cbn [rename_tpi tpi_id tpi_orig tpi_idx]. rewrite (pi_eqb pi Hinj). reflexivity. Qed.

  Lemma filter_map_comm {A B} (f : B -> bool) (g : A -> B) l :
    filter f (map g l) = map g (filter (fun x => f (g x)) l).
  Proof.
    induction l as [|x l IH]; [reflexivity|]. cbn [map filter].
    destruct (f (g x)); cbn [map]; rewrite IH; reflexivity.
  Qed.

  Lemma existsb_map_comm {A B} (f : B -> bool) (g : A -> B) l :
    existsb f (map g l) = existsb (fun x => f (g x)) l.
  Proof. induction l as [|x l IH]; [reflexivity|]. cbn [map existsb]. rewrite IH. reflexivity. Qed.

  Lemma filter_ext' {A} (f g : A -> bool) l : (forall x, f x = g x) -> filter f l = filter g l.
  Proof. intros H. induction l as [|x l IH]; [reflexivity|]. cbn [filter]. rewrite H, IH. reflexivity. Qed.

  Lemma existsb_ext' {A} (f g : A -> bool) l : (forall x, f x = g x) -> existsb f l = existsb g l.
  Proof. intros H. induction l as [|x l IH]; [reflexivity|]. cbn [existsb]. rewrite H, IH. reflexivity. Qed.

  Lemma mark_used_rename unused used :
    mark_used (map (rename_tpi pi) unused) (map (rename_tpi pi) used) =
    map (rename_tpi pi) (mark_used unused used).
  Proof.
    unfold mark_used. rewrite filter_map_comm. f_equal. apply filter_ext'. intros p.
    rewrite existsb_map_comm. f_equal. apply existsb_ext'. intros q. apply tpi_eqb_rename.
  Qed.

  Lemma all_named_rename fs : all_named (map (rename_field pi) fs) = all_named fs.
  Proof. induction fs as [|f fs IH]; [reflexivity|]. unfold all_named in *. cbn [map forallb]. rewrite IH. reflexivity. Qed.
  Lemma all_unnamed_rename fs : all_unnamed (map (rename_field pi) fs) = all_unnamed fs.
  Proof. induction fs as [|f fs IH]; [reflexivity|]. unfold all_unnamed in *. cbn [map forallb]. rewrite IH. reflexivity. Qed.

  Lemma field_ir_of_rename params f :
    field_ir_of r' s (map (rename_tpi pi) params) (rename_field pi f) =
    rmap_e pi (rename_fi pi) (field_ir_of r s params f).
  Proof.
    unfold field_ir_of. cbn [rename_field f_ty f_type_name].
    rewrite (resolve_field_type_path_equivariant pi r r' s Hinj Hres Hlen).
    destruct (resolve_field_type_path r s (f_ty f) params (f_type_name f)) as [p|e|m];
      [|reflexivity|reflexivity].
    cbn [rmap_e bind]. rewrite is_compact_map_ids. reflexivity.
  Qed.

  Definition rename_ku (ku : ckind * list tparam_ir) : ckind * list tparam_ir :=
    (rename_ckind pi (fst ku), map (rename_tpi pi) (snd ku)).

  Lemma create_composite_ir_kind_rename fs params unused :
    create_composite_ir_kind r' s (map (rename_field pi) fs) (map (rename_tpi pi) params)
                             (map (rename_tpi pi) unused) =
    rmap_e pi rename_ku (create_composite_ir_kind r s fs params unused).
  Proof.
    unfold create_composite_ir_kind. destruct fs as [|f0 fs0]; [reflexivity|].
    set (fs := f0 :: fs0).
    change (map (rename_field pi) (f0 :: fs0)) with (map (rename_field pi) fs).
    assert (Hne : exists a l, map (rename_field pi) fs = a :: l) by (eexists; eexists; reflexivity).
    destruct Hne as (a & l & Hne). rewrite Hne at 1. rewrite all_named_rename, all_unnamed_rename.
    destruct (negb (all_named fs || all_unnamed fs)); [reflexivity|].
    destruct (all_named fs).
    - set (F := fun (rr : registry) (ps : list tparam_ir) (f : field) =>
                  let* id := parse_ident (match f_name f with Some n => n | None => "" end) in
                  let* fi := field_ir_of rr s ps f in Ok (id, fi)).
      change (mapM _ (map (rename_field pi) fs)) with
        (mapM (F r' (map (rename_tpi pi) params)) (map (rename_field pi) fs)).
      change (mapM _ fs) with (mapM (F r params) fs).
      rewrite (mapM_map_rmap_e pi (F r params) (F r' (map (rename_tpi pi) params)) (rename_field pi)
                               (fun x => (fst x, rename_fi pi (snd x))) fs).
      + destruct (mapM (F r params) fs) as [lst|e|m]; [|reflexivity|reflexivity].
        cbn [rmap_e bind]. unfold rename_ku. cbn [fst snd rename_ckind]. do 3 f_equal.
        rewrite <- mark_used_rename. f_equal.
        rewrite (flat_map_map_Forall _ (fun x => map (rename_tpi pi) (parent_params (fi_path (snd x))))).
        * apply flat_map_map_comm.
        * apply Forall_forall. intros x _. cbn [snd rename_fi fi_path]. apply parent_params_map_ids.
      + apply Forall_forall. intros f _. unfold F. cbn [rename_field f_name].
        unfold parse_ident. destruct (ident_okb _); [|reflexivity]. cbn [bind].
        change (mk_field (f_name f) (pi (f_ty f)) (f_type_name f) (f_docs f)) with (rename_field pi f).
        rewrite field_ir_of_rename.
        destruct (field_ir_of r s params f); reflexivity.
    - rewrite (mapM_map_rmap_e pi (field_ir_of r s params)
                               (field_ir_of r' s (map (rename_tpi pi) params)) (rename_field pi)
                               (rename_fi pi) fs).
      + destruct (mapM (field_ir_of r s params) fs) as [lst|e|m]; [|reflexivity|reflexivity].
        cbn [rmap_e bind]. unfold rename_ku. cbn [fst snd rename_ckind]. do 3 f_equal.
        rewrite <- mark_used_rename. f_equal.
        rewrite (flat_map_map_Forall _ (fun x => map (rename_tpi pi) (parent_params (fi_path x)))).
        * apply flat_map_map_comm.
        * apply Forall_forall. intros x _. cbn [rename_fi fi_path]. apply parent_params_map_ids.
      + apply Forall_forall. intros f _. apply field_ir_of_rename.
  Qed.

  Lemma could_derive_rename k : could_derive_as_compact (rename_ckind pi k) = could_derive_as_compact k.
  Proof.
    destruct k as [|[|[n f] [|x l]]|[|f [|x l]]]; cbn [rename_ckind map could_derive_as_compact fst snd];
      try reflexivity; cbn [rename_fi fi_path]; apply is_uint_map_ids.
  Qed.

  Definition rename_vu (x : list (N * composite_ir) * list tparam_ir) :=
    (map (fun y => (fst y, rename_ci pi (snd y))) (fst x), map (rename_tpi pi) (snd x)).

  Lemma variants_ir_rename params : forall vs unused,
    variants_ir r' s (map (rename_tpi pi) params) (map (rename_variant pi) vs)
                (map (rename_tpi pi) unused) =
    rmap_e pi rename_vu (variants_ir r s params vs unused).
  Proof.
    induction vs as [|v vs IH]; intros unused; [reflexivity|].
    cbn [map variants_ir]. cbn [rename_variant v_name v_fields v_index v_docs].
    unfold parse_ident. destruct (ident_okb (v_name v)); [|reflexivity]. cbn [bind].
    rewrite create_composite_ir_kind_rename.
    destruct (create_composite_ir_kind r s (v_fields v) params unused) as [ku|e|m];
      [|reflexivity|reflexivity].
    cbn [rmap_e bind]. unfold rename_ku at 1. cbn [snd]. rewrite IH.
    destruct (variants_ir r s params vs (snd ku)) as [rest|e|m]; reflexivity.
  Qed.

  Lemma resolve_derives_err flat t e :
    resolve_derives_for_type flat t = Err e -> rename_err pi e = e.
  Proof.
    unfold resolve_derives_for_type.
    destruct (syn_key_cases (t_path t)) as [E|E]; rewrite E; cbn [bind];
      intros H; inversion H; reflexivity.
  Qed.

  Theorem create_type_ir_equivariant t flat :
    create_type_ir r' s (rename_ty pi t) flat =
    rmap_e pi (option_map (rename_ir pi)) (create_type_ir r s t flat).
  Proof.
    rewrite !create_type_ir_unfold.
    change (t_def (rename_ty pi t)) with (rename_def pi (t_def t)).
    change (t_path (rename_ty pi t)) with (t_path t).
    change (t_docs (rename_ty pi t)) with (t_docs t).
    change (t_params (rename_ty pi t)) with (map (rename_tparam pi) (t_params t)).
    change (resolve_derives_for_type flat (rename_ty pi t)) with (resolve_derives_for_type flat t).
    rewrite params_from_scale_info_rename.
    assert (Hc : is_composite_or_variant (rename_def pi (t_def t)) = is_composite_or_variant (t_def t))
      by (destruct (t_def t); reflexivity).
    rewrite Hc. destruct (negb (is_composite_or_variant (t_def t))); [reflexivity|].
    destruct (path_ident (t_path t)) as [nm|]; [|reflexivity].
    unfold parse_ident. destruct (ident_okb nm); [|reflexivity]. cbn [bind].
    destruct (t_def t) as [fs|vs|x|len x|es|p|x|st o]; cbn [rename_def]; try reflexivity.
    - rewrite create_composite_ir_kind_rename.
      destruct (create_composite_ir_kind r s fs _ _) as [ku|e|m]; [|reflexivity|reflexivity].
      cbn [rmap_e bind]. unfold rename_ku. cbn [fst snd]. rewrite could_derive_rename.
      destruct (resolve_derives_for_type flat t) as [d|e|m] eqn:Ed; [reflexivity| |reflexivity].
      cbn [bind rmap_e]. rewrite (resolve_derives_err _ _ _ Ed). reflexivity.
    - rewrite variants_ir_rename.
      destruct (variants_ir r s _ vs _) as [vu|e|m]; [|reflexivity|reflexivity].
      cbn [rmap_e bind]. unfold rename_vu. cbn [fst snd].
      destruct (resolve_derives_for_type flat t) as [d|e|m] eqn:Ed; [reflexivity| |reflexivity].
      cbn [bind rmap_e]. rewrite (resolve_derives_err _ _ _ Ed). reflexivity.
  Qed.
End IR.

(** ** emission: the item tokens do not depend on the ids *)
Section EmitIds.
  Variable pi : N -> N.
  Variable s : settings.

  Lemma field_tokens_rename f : field_tokens s (rename_fi pi f) = field_tokens s f.
  Proof. unfold field_tokens. cbn [rename_fi fi_path fi_boxed]. rewrite tp_tokens_map_ids. reflexivity. Qed.

  Lemma names_rename (l : list tparam_ir) :
    map (fun p => [tpi_name p]) (map (rename_tpi pi) l) = map (fun p => [tpi_name p]) l.
  Proof. rewrite map_map. apply map_ext. intros p. reflexivity. Qed.

  Lemma type_params_tokens_rename ps : type_params_tokens (map (rename_tpi pi) ps) = type_params_tokens ps.
  Proof.
    destruct ps as [|p ps]; [reflexivity|]. unfold type_params_tokens.
    change (map (rename_tpi pi) (p :: ps)) with (rename_tpi pi p :: map (rename_tpi pi) ps) at 1.
    cbv iota. rewrite names_rename. reflexivity.
  Qed.

  Lemma phantom_tokens_rename u : phantom_tokens (map (rename_tpi pi) u) = phantom_tokens u.
  Proof.
    destruct u as [|p [|q u]]; [reflexivity|reflexivity|].
    unfold phantom_tokens.
    change (map (rename_tpi pi) (p :: q :: u))
      with (rename_tpi pi p :: rename_tpi pi q :: map (rename_tpi pi) u) at 1.
    cbv iota.
    change (rename_tpi pi p :: rename_tpi pi q :: map (rename_tpi pi) u)
      with (map (rename_tpi pi) (p :: q :: u)).
    rewrite names_rename. reflexivity.
  Qed.

  Lemma struct_field_tokens_rename k ph c :
    struct_field_tokens s (rename_ckind pi k) ph c = struct_field_tokens s k ph c.
  Proof.
    destruct k as [|fs|fs]; [reflexivity| |]; unfold struct_field_tokens; cbn [rename_ckind].
    - rewrite mapM_map_same; [reflexivity|].
      apply Forall_forall. intros [name f] _. cbn [fst snd]. rewrite field_tokens_rename. reflexivity.
    - rewrite mapM_map_same; [reflexivity|].
      apply Forall_forall. intros f _. rewrite field_tokens_rename. reflexivity.
  Qed.

  Lemma enum_field_tokens_rename k c :
    enum_field_tokens s (rename_ckind pi k) c = enum_field_tokens s k c.
  Proof.
    destruct k as [|fs|fs]; [reflexivity| |]; unfold enum_field_tokens; cbn [rename_ckind].
    - rewrite mapM_map_same; [reflexivity|].
      apply Forall_forall. intros [name f] _. cbn [fst snd]. rewrite field_tokens_rename. reflexivity.
    - rewrite mapM_map_same; [reflexivity|].
      apply Forall_forall. intros f _. rewrite field_tokens_rename. reflexivity.
  Qed.

  Theorem type_ir_tokens_rename ir : type_ir_tokens s (rename_ir pi ir) = type_ir_tokens s ir.
  Proof.
    unfold type_ir_tokens. cbn [rename_ir ti_derives ti_params ti_unused ti_kind ti_codec].
    rewrite type_params_tokens_rename, phantom_tokens_rename.
    destruct (ti_kind ir) as [c|name docs vs]; cbn [rename_kind].
    - cbn [rename_ci ci_kind ci_docs ci_name]. rewrite struct_field_tokens_rename.
      destruct (ci_kind c); reflexivity.
    - rewrite mapM_map_same; [reflexivity|].
      apply Forall_forall. intros [idx c] _. cbn [fst snd rename_ci ci_kind ci_docs ci_name].
      rewrite enum_field_tokens_rename. reflexivity.
  Qed.
End EmitIds.

(** ** the renumbered registry *)
Section Renumber.
  Variable pi : N -> N.
  Variable r : registry.
  Variable s : settings.
  Hypothesis Hpi : renumbering (N.of_nat (List.length r)) pi.

  Let Hinj : forall i j, pi i = pi j -> i = j := proj1 Hpi.

  Theorem resolve_rec_renumber fuel id is_field parents orig :
    resolve_rec (renumber pi r) s fuel (pi id) is_field (map (rename_tpi pi) parents) orig =
    rmap_e pi (map_ids pi) (resolve_rec r s fuel id is_field parents orig).
  Proof. apply resolve_rec_equivariant; [exact Hinj|apply resolve_renumber; exact Hpi]. Qed.

  Theorem resolve_type_path_renumber id :
    resolve_type_path (renumber pi r) s (pi id) = rmap_e pi (map_ids pi) (resolve_type_path r s id).
  Proof.
    apply resolve_type_path_equivariant;
      [exact Hinj|apply resolve_renumber; exact Hpi|apply renumber_length].
  Qed.

  Theorem create_type_ir_renumber t flat :
    create_type_ir (renumber pi r) s (rename_ty pi t) flat =
    rmap_e pi (option_map (rename_ir pi)) (create_type_ir r s t flat).
  Proof.
    apply create_type_ir_equivariant;
      [exact Hinj|apply resolve_renumber; exact Hpi|apply renumber_length].
  Qed.

  Lemma flatten_no_recursive dr rr :
    dr_recursive dr = [] -> flatten dr rr = Ok (mk_flat (dr_default dr) (flat_of_specific (dr_specific dr))).
  Proof. intros H. unfold flatten. rewrite H. reflexivity. Qed.

  Lemma eligible_rename t : eligible s (rename_ty pi t) = eligible s t.
  Proof. reflexivity. Qed.

  (** Both generations succeed, no recursive derives, one item-eligible entry per
      path: the emitted modules are token-identical. *)
  Theorem permutation_tokens_partial teq teq' m1 m2 :
    dr_recursive (s_dreg s) = [] ->
    unique_item_paths r s ->
    generate r s teq = Ok m1 ->
    generate (renumber pi r) s teq' = Ok m2 ->
    emit_module s m1 = emit_module s m2.
  Proof.
    intros Hrec Huniq H1 H2.
    unfold generate in H1, H2.
    apply bind_ok in H1 as (u1 & _ & H1). apply bind_ok in H1 as (flat1 & Hf1 & H1).
    apply bind_ok in H2 as (u2 & _ & H2). apply bind_ok in H2 as (flat2 & Hf2 & H2).
    rewrite (flatten_no_recursive _ r Hrec) in Hf1.
    rewrite (flatten_no_recursive _ (renumber pi r) Hrec) in Hf2.
    inversion Hf1; subst flat1; clear Hf1. inversion Hf2; subst flat2; clear Hf2.
    set (flat := mk_flat (dr_default (s_dreg s)) (flat_of_specific (dr_specific (s_dreg s)))) in *.
    set (r' := renumber pi r) in *.
    pose proof (unique_item_paths_renumber pi r s Hpi Huniq) as Huniq'. fold r' in Huniq'.
    assert (S1 : items_sorted m1) by (eapply gen_loop_sorted; [apply items_sorted_nil|exact H1]).
    assert (S2 : items_sorted m2) by (eapply gen_loop_sorted; [apply items_sorted_nil|exact H2]).
    (* forward: an item of the first run is the renamed item of the second *)
    assert (K : forall p id ir, items_get m1 p = Some (id, ir) ->
                                items_get m2 p = Some (pi id, rename_ir pi ir)).
    { intros p id ir E1.
      destruct (gen_loop_keys r s teq flat r [] m1 p id ir H1 E1) as [Ha|(t & Hin & Hp & Hel & Hc)];
        [discriminate Ha|].
      assert (Hin' : In (pi id, rename_ty pi t) r').
      { apply (in_renumber pi r _ Hpi). exists (id, t). split; [exact Hin|reflexivity]. }
      assert (Hc' : create_type_ir r' s (rename_ty pi t) flat = Ok (Some (rename_ir pi ir))).
      { unfold r'. rewrite create_type_ir_renumber, Hc. reflexivity. }
      destruct (gen_loop_complete r' s teq' flat r' [] m2 H2 (pi id) (rename_ty pi t) _ Hin'
                                  (eq_trans (eligible_rename t) Hel) Hc') as ([id2 ir2] & E2).
      change (t_path (rename_ty pi t)) with (t_path t) in E2. rewrite Hp in E2.
      destruct (gen_loop_keys r' s teq' flat r' [] m2 p id2 ir2 H2 E2)
        as [Ha|(t2 & Hin2 & Hp2 & Hel2 & Hc2)]; [discriminate Ha|].
      assert (Heq : (pi id, rename_ty pi t) = (id2, t2)).
      { apply Huniq'; [exact Hin'|exact Hin2| | |].
        - apply item_entry_eligible. split; [exact Hel|].
          eapply create_type_ir_some_composite; exact Hc'.
        - apply item_entry_eligible. split; [exact Hel2|].
          eapply create_type_ir_some_composite; exact Hc2.
        - cbn [snd]. change (t_path (rename_ty pi t)) with (t_path t). congruence. }
      inversion Heq; subst id2 t2. rewrite Hc' in Hc2. inversion Hc2; subst ir2. exact E2. }
    (* backward: every path of the second run is a path of the first *)
    assert (K' : forall p id2 ir2, items_get m2 p = Some (id2, ir2) -> exists v, items_get m1 p = Some v).
    { intros p id2 ir2 E2.
      destruct (gen_loop_keys r' s teq' flat r' [] m2 p id2 ir2 H2 E2)
        as [Ha|(t2 & Hin2 & Hp2 & Hel2 & Hc2)]; [discriminate Ha|].
      apply (in_renumber pi r _ Hpi) in Hin2 as ([id t] & Hin & He).
      unfold rename_entry in He. cbn [fst snd] in He. inversion He; subst id2 t2.
      unfold r' in Hc2. rewrite create_type_ir_renumber in Hc2.
      destruct (create_type_ir r s t flat) as [[ir|]|e|msg] eqn:Hc; try discriminate Hc2.
      change (t_path (rename_ty pi t)) with (t_path t) in Hp2. rewrite <- Hp2.
      eapply (gen_loop_complete r s teq flat r [] m1 H1 id t ir Hin); [|exact Hc].
      exact Hel2. }
    apply emit_module_ext.
    apply (sorted_items_rel
             (fun v1 v2 => type_ir_tokens s (snd v1) = type_ir_tokens s (snd v2)) m1 m2 S1 S2).
    intros p. destruct (items_get m1 p) as [[id ir]|] eqn:E1.
    - rewrite (K p id ir E1). cbn [snd]. symmetry. apply type_ir_tokens_rename.
    - destruct (items_get m2 p) as [[id2 ir2]|] eqn:E2; [|exact I].
      destruct (K' p id2 ir2 E2) as (v & Hv). rewrite E1 in Hv. discriminate Hv.
  Qed.
End Renumber.
