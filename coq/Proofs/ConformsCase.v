(** C14: on a CASE of the harness, the verdict of the independent property checker [prop_conforms]
    (the token-level reader on the OBSERVED module, OBSERVED paths and OBSERVED examples) follows
    from the correspondence booleans (observed = model) and theorems about the model. *)
From Coq Require Import List NArith ZArith Bool String.
From V Require Import Base.Util Base.Strings Base.Result Model.Registry Model.Settings Model.Subst
  Model.Generate Model.Emit Model.Equal Model.Shape Model.RngWords Model.ExampleRust Model.Conforms
  Checkers.Parse Model.Unparse Corr.RunTG Corr.RunC14
  Proofs.ShapeBool Proofs.ParseMod Proofs.ConformsProofs Proofs.ConformsTokens.
Import ListNotations.
Open Scope string_scope. Open Scope list_scope.

(** the observed module / the observed paths of a C14 case are the model's *)
Definition corr_module (c : case) : bool :=
  obs_eqb tokens_eqb (obs_of (model_gen (c_reg c) (settings_of (c_spec c)))) (c_gen c).

Definition corr_model_paths (c : case) : bool :=
  list_eqb (obs_eqb tokens_eqb) (model_paths (c_reg c) (settings_of (c_spec c))) (c_paths c).

(** the hypotheses of [C14_conforms_tokens], as booleans on the case *)
Definition hyp_reader_scope (c : case) : bool :=
  let r := c_reg c in
  let s := settings_of (c_spec c) in
  match model_items r s with
  | Ok m => skeleton_consistentb r s && reader_scopeb r s m && literal_paths_plainb r s && items_plain s m
  | _ => false
  end.

Lemma tokens_eqb_sound a b : tokens_eqb a b = true -> a = b.
Proof. apply (list_eqb_sound String.eqb (fun x y => proj1 (String.eqb_eq x y))). Qed.

Lemma obs_eqb_sound (a b : obs tokens) : obs_eqb tokens_eqb a b = true -> a = b.
Proof.
  destruct a as [x|k n m|], b as [y|k' n' m'|]; cbn [obs_eqb]; intros H; try discriminate H.
  - apply tokens_eqb_sound in H. subst; reflexivity.
  - apply andb_prop in H as [H H3]. apply andb_prop in H as [H1 H2].
    apply String.eqb_eq in H1, H3.
    apply (list_eqb_sound N.eqb (fun x y => proj1 (N.eqb_eq x y))) in H2. subst; reflexivity.
  - reflexivity.
Qed.

Lemma obs_of_x_ok (x : xres tokens) t : obs_of_x x = OOk t -> x = XOk t.
Proof.
  destruct x as [a|e|msg]; cbn [obs_of_x]; intros H; try discriminate H.
  - inversion H; reflexivity.
  - destruct e as [i| | |i|e| |]; try discriminate H. destruct e; discriminate H.
Qed.

Theorem prop_conforms_of_corr (c : case) :
  hyp_reader_scope c = true -> corr_module c = true -> corr_model_paths c = true ->
  corr_example c = true -> prop_conforms c = true.
Proof.
  unfold hyp_reader_scope, corr_module, corr_model_paths, corr_example, prop_conforms, parsed_module.
  set (r := c_reg c). set (s := settings_of (c_spec c)).
  intros Hh Hm Hp Hx. unfold model_gen in Hm.
  destruct (model_items r s) as [m|e|msg] eqn:Hg; try discriminate Hh. cbn [bind] in Hm.
  apply andb_prop in Hh as [Hh Hplain]. apply andb_prop in Hh as [Hh Hlp]. apply andb_prop in Hh as [Hsk Hsc].
  apply skeleton_consistentb_sound in Hsk.
  apply obs_eqb_sound in Hm.
  apply (list_eqb_sound (obs_eqb tokens_eqb) obs_eqb_sound) in Hp.
  destruct (emit_module s m) as [toks|e|msg] eqn:He; cbn [obs_of] in Hm; rewrite <- Hm; [|destruct e; reflexivity|reflexivity].
  rewrite (emit_parses s m toks He Hplain).
  unfold for_obs in *. rewrite forallb_forall in *. intros ru Hru. specialize (Hx ru Hru).
  rewrite forallb_forall in *. intros o Ho. specialize (Hx o Ho).
  destruct (eo_out o) as [t|k n msg|] eqn:Eo; try reflexivity.
  apply obs_eqb_sound in Hx. apply obs_of_x_ok in Hx.
  rewrite <- Hp. change (ss_root (c_spec c)) with (s_root s).
  rewrite <- (emit_parses s m toks He Hplain).
  exact (conforms_tokens_full r s (types_equal r) m toks Hg Hsk Hsc Hlp Hplain He (eo_id o) (er_words ru) t Hx).
Qed.

(** non-vacuity: a case built from the registry of Proofs/ConformsExamples.v (observed = model) *)
From V Require Import Proofs.ExampleRustProofs Proofs.ConformsExamples.

Definition demo_case : case :=
  let sp := mk_sspec "types" true true AStd (Some [":"; ":"; "codec"; ":"; ":"; "Compact"]) None None [] in
  let s := settings_of sp in
  mk_case "demo" cdemo sp []
          (obs_of (model_gen cdemo s)) (model_paths cdemo s)
          [mk_erun 0 cwords
             (map (fun id => mk_eobs id (obs_of_x (example_rust cdemo s id cwords)) true true)
                  [0; 1; 2; 3; 4; 5; 6; 7; 8; 9; 10; 11; 12; 13]%N)].

Example demo_case_in_scope :
  settings_of (c_spec demo_case) = demo_settings /\
  hyp_reader_scope demo_case = true /\ corr_module demo_case = true /\
  corr_model_paths demo_case = true /\ corr_example demo_case = true /\
  hyp_ok demo_case = true /\ hyp_marker demo_case = true /\ prop_conforms demo_case = true.
Proof. vm_compute. repeat split; reflexivity. Qed.
