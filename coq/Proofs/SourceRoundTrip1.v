(** C05 on REAL registries ([RegistryOf1], Model/Program1.v: one-step identity, entries with equal
    content included): every instantiation's skeleton is the normalised source definition.
    The induction of Proofs/SourceRoundTrip.v ([resolve_src]) generalised: the id under which a
    source type is reached carries a label [w] that only has the CONTENT of the type
    ([peel1 w = peel1 (subst args c)]: through a Box the same id is looked at again, and
    [Box<Box<Foo>>] / [Box<Foo>] are different ids with one content); the parameter case uses the
    injectivity of the [ident1] labels and the coincidence-freeness on ids ([instantiation_cf1]). *)
From Coq Require Import List NArith String Bool Lia Arith.
From V Require Import Base.Util Base.Strings Base.Result Model.Registry Model.Settings Model.Subst
  Model.TypePath Model.Derives Model.Generate Model.WellFormed Model.Shape Model.Program Model.ProgramSkel
  Model.Program1 Checkers.Parse Checkers.Sem
  Proofs.GenProofs Proofs.ResolveTotal Proofs.GenTotal Proofs.ClosedProofs Proofs.SourceRoundTrip
  Proofs.RegistryOfSound Proofs.Ident1.
Import ListNotations.
Open Scope string_scope. Open Scope list_scope.

Section G1.
  Variable args : list src.
  Definition sb (x : src) : src := subst_src args x.
  Definition cs1 (x : src) : src := ident1 (subst_src args x).

  Lemma sb_app d xs : sb (SApp d xs) = SApp d (map sb xs).
  Proof. reflexivity. Qed.
  Lemma sb_tup xs : sb (STup xs) = STup (map sb xs).
  Proof. reflexivity. Qed.

  Lemma peel_not_cow : forall x,
    match unbox x with SCow _ | SParam _ => False | _ => True end -> forall y, peel1 (sb x) <> SCow y.
  Proof.
    induction x; intros H y; cbn [unbox] in H; try (unfold sb, peel1; cbn [subst_src unbox]; discriminate).
    - destruct H.
    - unfold sb, peel1. cbn [subst_src unbox]. apply IHx. exact H.
    - destruct H.
  Qed.
End G1.

Lemma nth_error_map_inv {A B} (f : A -> B) : forall l i b,
  nth_error (map f l) i = Some b -> exists a, nth_error l i = Some a /\ b = f a.
Proof.
  induction l as [|x l IH]; intros i b H; [destruct i; discriminate|].
  destruct i as [|i]; cbn [map nth_error] in *; [inversion H; eauto|auto].
Qed.

Section Core1.
  Variable defs : list sdef.
  Variable L : N -> option src.
  Variable r : registry.
  Variable s : settings.
  Variable otp : bool -> tpath.
  Hypothesis HR : RegistryOf1 defs L r.
  Hypothesis Hdefs : forall sd, In sd defs -> def_okb s sd = true.
  Hypothesis Hprel : prelude_okb s = true.
  Hypothesis Hord : order_resolves s otp.

  (** the instantiation whose entry is being turned into an item *)
  Variable sd : sdef.
  Variable args : list src.
  Variable parents : list tparam_ir.
  Hypothesis Hlen : List.length args = List.length (sd_params sd).

  Definition live1 (a : src) : Prop :=
    exists i nm, nth_error (sd_params sd) i = Some (nm, false) /\ nth_error args i = Some a.

  Hypothesis Hpar : forall p, In p parents ->
    exists i nm a, nth_error (sd_params sd) i = Some (nm, false) /\ nth_error args i = Some a /\
                   tpi_idx p = N.of_nat i /\ tpi_orig p = nm /\ L (tpi_id p) = Some (ident1 a).
  Hypothesis Hpar' : forall i nm a,
    nth_error (sd_params sd) i = Some (nm, false) -> nth_error args i = Some a ->
    exists p, In p parents /\ tpi_idx p = N.of_nat i /\ tpi_orig p = nm /\ L (tpi_id p) = Some (ident1 a).
  (** the arguments of non-skipped parameters are interned under pairwise distinct ids *)
  Hypothesis Hdist : forall i j ni nj a b,
    nth_error (sd_params sd) i = Some (ni, false) -> nth_error args i = Some a ->
    nth_error (sd_params sd) j = Some (nj, false) -> nth_error args j = Some b ->
    ident1 a = ident1 b -> i = j.

  Definition notlive1 (c : src) : Prop := forall a, live1 a -> cs1 args c <> ident1 a.

  Let F (fuel : nat) (id : N) : result tpath := resolve_rec r s fuel id false parents None.
  Let nt := src_tpath defs s otp.

  Lemma no_parent1 id w orig :
    L id = Some w -> (forall a, live1 a -> w <> ident1 a) -> find_parent parents id orig = None.
  Proof.
    intros Hl Hn. apply find_parent_none. intros p Hp E.
    destruct (Hpar p Hp) as (i & nm & a & H1 & H2 & _ & _ & H5).
    rewrite E, Hl in H5. inversion H5 as [H6]. apply (Hn a); [exists i, nm; auto|exact H6].
  Qed.

  Lemma entry1 id c : L id = Some c -> exists t, resolve r id = Some t /\ content_of1 defs L r (peel1 c) t.
  Proof. intros H. destruct HR as (H1 & _ & _). destruct (H1 _ _ H) as (_ & t & Hr & He). exists t. split; assumption. Qed.

  Lemma L_inj1 i j c : L i = Some c -> L j = Some c -> i = j.
  Proof. destruct HR as (_ & _ & H). apply H. Qed.

  Lemma resolve_prim1 fuel id isf orig p t :
    find_parent parents id orig = None -> L id = Some (SPrimT p) ->
    resolve_rec r s (S fuel) id isf parents orig = Ok t -> t = TPrim p.
  Proof.
    intros Hf Hl Hres. rewrite resolve_rec_S, Hf in Hres.
    destruct (entry1 _ _ Hl) as (t0 & Hr0 & Hb). cbn [peel1 unbox content_of1] in Hb.
    destruct (builtin_not_cow r _ _ Hb) as (Hc & Hp & Hd).
    rewrite (resolve_type_entry r _ _ Hr0) in Hres. cbn [bind] in Hres. rewrite Hc in Hres. cbn [bind] in Hres.
    rewrite Hp in Hres. cbn [mapM bind] in Hres. unfold resolve_def in Hres. rewrite Hd in Hres.
    inversion Hres; reflexivity.
  Qed.

  (** the bit-order marker (the only unlabelled entries) resolves to what the settings say *)
  Lemma resolve_order1 fuel io lsb ot t :
    L io = None -> resolve r io = Some ot -> order_marker lsb ot ->
    resolve_rec r s (S fuel) io false parents None = Ok t -> t = otp lsb.
  Proof.
    intros Hl Hr (Hp & Hps & Hd) Hres. rewrite resolve_rec_S in Hres.
    rewrite find_parent_none in Hres.
    2:{ intros p Hp' E. destruct (Hpar p Hp') as (i & nm & a & _ & _ & _ & _ & H5).
        rewrite E, Hl in H5. discriminate. }
    rewrite (resolve_type_entry r _ _ Hr) in Hres. cbn [bind] in Hres.
    assert (Hc : cow_step r ot = Ok ot). { rewrite cow_step_eq, Hp. destruct lsb; reflexivity. }
    rewrite Hc in Hres. cbn [bind] in Hres. rewrite param_ids_eq, Hps in Hres. cbn [flat_map mapM bind] in Hres.
    unfold resolve_def in Hres. rewrite Hd, Hp in Hres. fold (order_path_of lsb) in Hres.
    rewrite (Hord lsb) in Hres. inversion Hres; reflexivity.
  Qed.

  (** only the content [Cow<..>] has an entry the generator looks through *)
  Lemma entry_not_cow1 c t0 : content_of1 defs L r c t0 -> (forall y, c <> SCow y) -> cow_step r t0 = Ok t0.
  Proof.
    intros He Hc. rewrite cow_step_eq.
    assert (H : is_cow (path_ident (t_path t0)) = false); [|rewrite H; reflexivity].
    destruct c; cbn [content_of1] in He.
    - destruct He.
    - destruct He as (sd' & Hsd' & Hpath & _). rewrite Hpath.
      pose proof (Hdefs sd' (nth_error_In _ _ Hsd')) as Hok. unfold def_okb in Hok.
      apply andb_prop in Hok as [Hok Hok4]. apply andb_prop in Hok as [Hok _]. apply andb_prop in Hok as [_ Hok2].
      destruct (sd_path sd') as [|pa [|pb pl]] eqn:Epath; try discriminate Hok2.
      rewrite is_cow_last by discriminate. apply negb_true_iff in Hok4. exact Hok4.
    - destruct He as (e & (Hp & _) & _). rewrite Hp. reflexivity.
    - destruct He.
    - destruct He as (e & (Hp & _) & _). rewrite Hp. reflexivity.
    - destruct He as (e & (Hp & _) & _). rewrite Hp. reflexivity.
    - destruct He as (Hp & _). rewrite Hp. reflexivity.
    - destruct He as (e & (Hp & _) & _). rewrite Hp. reflexivity.
    - destruct He.
    - destruct He as (e & _ & Hp & _). rewrite Hp. reflexivity.
    - destruct He as (x & y & _ & _ & Hp & _). rewrite Hp. reflexivity.
    - destruct He as (ik & iv & iseq & _ & _ & _ & Hp & _). rewrite Hp. reflexivity.
    - destruct He as (e & iseq & _ & _ & Hp & _). rewrite Hp. reflexivity.
    - exfalso. eapply Hc. reflexivity.
    - destruct He as (e & _ & Hp & _). rewrite Hp. reflexivity.
    - destruct He as (ist & io & ot & (Hp & _) & _). rewrite Hp. reflexivity.
  Qed.

  (** resolved parameters of an application, position by position *)
  Lemma app_params1 fuel : forall (pl : list (string * bool)) (xs : list src) (tps : list tparam) ps,
    List.length xs = List.length pl ->
    Forall2 (param_of1 L) (combine pl (map (sb args) xs)) tps ->
    mapM (F fuel) (flat_map (fun p => match tp_ty p with Some i => [i] | None => [] end) tps) = Ok ps ->
    (forall x id t, In x (live_go xs (map snd pl)) -> L id = Some (cs1 args x) -> F fuel id = Ok t ->
                    erase_tpath t = nt false x) ->
    map erase_tpath ps = map (nt false) (live_go xs (map snd pl)).
  Proof.
    induction pl as [|[nm sk] pl IH]; intros xs tps ps Hl HF HM Hx.
    - destruct xs; [|discriminate]. cbn [map combine] in HF. inversion HF; subst.
      cbn [flat_map mapM] in HM. inversion HM; subst. reflexivity.
    - destruct xs as [|x xs]; [discriminate|]. cbn [map combine] in HF.
      inversion HF as [|pa tp l l' Hpa Hrest]; subst. destruct Hpa as [_ Hty]. cbn [fst snd] in Hty.
      cbn [List.length] in Hl. injection Hl as Hl.
      cbn [flat_map] in HM. cbn [map snd live_go].
      destruct sk.
      + rewrite Hty in HM. cbn [app] in HM. apply (IH xs l' ps Hl Hrest HM).
        intros x' id t Hin. apply Hx. cbn [map snd live_go]. exact Hin.
      + destruct Hty as (id & Hty & Hlab). rewrite Hty in HM. cbn [app mapM] in HM.
        apply bind_ok in HM as (y & Hy & HM). apply bind_ok in HM as (ys & Hys & HM).
        inversion HM; subst. cbn [map]. f_equal.
        * eapply (Hx x id y); [left; reflexivity|exact Hlab|exact Hy].
        * apply (IH xs l' ys Hl Hrest Hys). intros x' id' t Hin. apply Hx. right. exact Hin.
  Qed.

  Lemma tup_elems1 fuel : forall (xs : list src) (es : list N) l,
    Forall2 (lab1 L) es (map (sb args) xs) ->
    mapM (F fuel) es = Ok l ->
    (forall x id t, In x xs -> L id = Some (cs1 args x) -> F fuel id = Ok t -> erase_tpath t = nt false x) ->
    map erase_tpath l = map (nt false) xs.
  Proof.
    induction xs as [|x xs IH]; intros es l HF HM Hx.
    - inversion HF; subst. cbn [mapM] in HM. inversion HM; subst. reflexivity.
    - cbn [map] in HF. inversion HF as [|e c es' cs' He Hrest]; subst.
      cbn [mapM] in HM. apply bind_ok in HM as (y & Hy & HM). apply bind_ok in HM as (ys & Hys & HM).
      inversion HM; subst. cbn [map]. f_equal.
      + eapply (Hx x e y); [left; reflexivity|exact He|exact Hy].
      + apply (IH es' ys Hrest Hys). intros x' id t Hin. apply Hx. right; exact Hin.
  Qed.

  (** the core: resolving an id whose label [w] has the content of the closed instance of a source
      type [c] - and is the id of that instance when [c] is a parameter, is not the id of an
      argument otherwise - under the parameters of the instantiation, gives - up to the ids stored
      in [Param] nodes - the normalised path of [c] *)
  Lemma resolve_src1 : forall n c,
    (src_size c <= n)%nat -> no_cow_cow c = true ->
    (forall c', In c' (components_fuel n defs c) -> is_param c' = false -> notlive1 c') ->
    (forall c', In c' (components_fuel n defs c) ->
                match c' with SBox (SParam _) | SCow (SParam _) => False | _ => True end) ->
    (forall i nm, In i (src_params_fuel n defs c) -> nth_error (sd_params sd) i <> Some (nm, true)) ->
    forall fuel id isf orig t w,
    (forall i, c = SParam i ->
               orig = None \/ exists nm, nth_error (sd_params sd) i = Some (nm, false) /\ orig = Some nm) ->
    L id = Some w ->
    peel1 w = peel1 (sb args c) ->
    (forall i, c = SParam i -> w = cs1 args c) ->
    (is_param c = false -> forall a, live1 a -> w <> ident1 a) ->
    resolve_rec r s fuel id isf parents orig = Ok t ->
    erase_tpath t = nt isf c.
  Proof.
    induction n as [|n IH]; intros c Hsz Hfr Hnl Hwr Hsk fuel id isf orig t w Horig Hl Hw Hwp Hwn Hres.
    { destruct c; cbn [src_size] in Hsz; lia. }
    destruct fuel as [|fuel]; [discriminate|].
    rewrite resolve_rec_S in Hres. rewrite components_S in Hnl, Hwr. rewrite src_params_S in Hsk.
    (* recursion on a direct component, reached through its own id *)
    assert (Hsub : forall x, (src_size x <= n)%nat -> no_cow_cow x = true ->
              (forall c', In c' (components_fuel n defs x) -> In c' (components_fuel (S n) defs c)) ->
              (forall i, In i (src_params_fuel n defs x) -> In i (src_params_fuel (S n) defs c)) ->
              forall id' t',
              L id' = Some (cs1 args x) -> F fuel id' = Ok t' -> erase_tpath t' = nt false x).
    { intros x Hx1 Hx2 Hx3 Hx4 id' t' Hl' Hr'.
      apply (IH x Hx1 Hx2) with (fuel := fuel) (id := id') (orig := None) (w := cs1 args x).
      - intros c' Hc'. apply Hnl. rewrite <- components_S. apply Hx3. exact Hc'.
      - intros c' Hc'. apply Hwr. rewrite <- components_S. apply Hx3. exact Hc'.
      - intros i nm Hi. apply Hsk. rewrite <- src_params_S. apply Hx4. exact Hi.
      - intros i _. left; reflexivity.
      - exact Hl'.
      - unfold cs1, sb. apply peel1_ident1.
      - intros i _. reflexivity.
      - intros Hp. apply (Hnl x); [|exact Hp]. rewrite <- components_S. apply Hx3. apply components_self. exact Hx1.
      - exact Hr'. }
    assert (Hself : is_param c = false -> find_parent parents id orig = None).
    { intros Hp. eapply no_parent1; [exact Hl|]. exact (Hwn Hp). }
    destruct (entry1 _ _ Hl) as (t0 & Hr0 & Hent). rewrite Hw in Hent.
    destruct c as [i|d' xs|x|x|len x|xs|p|x|x|x|a b|a b|x|x|x|st lsb].
    - (* SParam *)
      clear Hself. pose proof (Hwp i eq_refl) as Ew. unfold cs1 in Ew. cbn [subst_src] in Ew.
      unfold sb in Hent. cbn [subst_src] in Hent.
      destruct (nth_error args i) as [a|] eqn:Ea.
      2:{ exfalso. rewrite (nth_overflow args) in Hent by (apply nth_error_None; exact Ea).
          cbn [peel1 unbox content_of1] in Hent. exact Hent. }
      rewrite (nth_error_nth args i _ Ea) in Ew. subst w.
      destruct (nth_error (sd_params sd) i) as [[nm sk]|] eqn:Ep.
      2:{ apply nth_error_None in Ep. assert (i < List.length args)%nat by (apply nth_error_Some; congruence). lia. }
      destruct sk. { exfalso. apply (Hsk i nm); [left; reflexivity|exact Ep]. }
      destruct (Hpar' i nm a Ep Ea) as (p & Hp & Hidx & Horg & HLp).
      assert (Hid : tpi_id p = id) by (eapply L_inj1; eauto).
      assert (Hpred : (N.eqb (tpi_id p) id &&
                       match orig with None => true | Some o => String.eqb (tpi_orig p) o end) = true).
      { rewrite Hid, N.eqb_refl. destruct (Horig i eq_refl) as [->|(nm' & Hnm' & ->)]; [reflexivity|].
        rewrite Ep in Hnm'. inversion Hnm'; subst nm'. rewrite Horg, String.eqb_refl. reflexivity. }
      destruct (find_exists (fun tp => N.eqb (tpi_id tp) id &&
                                match orig with None => true | Some o => String.eqb (tpi_orig tp) o end)
                            parents p Hp Hpred) as (q & Hq). unfold find_parent in Hres. rewrite Hq in Hres.
      inversion Hres; subst t. apply find_some in Hq as [Hqin Hqp].
      apply andb_prop in Hqp as [Hqid _]. apply N.eqb_eq in Hqid.
      destruct (Hpar q Hqin) as (j & nj & a' & Hj1 & Hj2 & Hj3 & _ & Hj5).
      rewrite Hqid, Hl in Hj5. inversion Hj5 as [Hj6].
      assert (i = j) by (eapply (Hdist i j nm nj a a'); eauto). subst j.
      cbn [erase_tpath]. unfold erase_tpi. rewrite Hj3. reflexivity.
    - (* SApp *)
      rewrite (Hself eq_refl) in Hres. rewrite sb_app in Hent. cbn [peel1 unbox content_of1] in Hent.
      destruct Hent as (sd' & Hsd' & Hpath & Hlen' & Hps & Hbody).
      rewrite (resolve_type_entry r _ _ Hr0) in Hres. cbn [bind] in Hres.
      assert (Hin' : In sd' defs) by (eapply nth_error_In; eauto).
      pose proof (Hdefs sd' Hin') as Hok. unfold def_okb in Hok.
      apply andb_prop in Hok as [Hok Hok4]. apply andb_prop in Hok as [Hok Hok3].
      apply andb_prop in Hok as [Hok1 Hok2].
      destruct (sd_path sd') as [|pa [|pb pl]] eqn:Epath; try discriminate Hok2.
      assert (Hcow : cow_step r t0 = Ok t0).
      { rewrite cow_step_eq, Hpath, is_cow_last by discriminate.
        apply negb_true_iff in Hok4. rewrite Hok4. reflexivity. }
      rewrite Hcow in Hres. cbn [bind] in Hres.
      apply bind_ok in Hres as (ps & Hmps & Hres).
      assert (Hcv : resolve_def r s fuel isf parents t0 ps =
                    type_path_maybe_with_substitutes s (t_path t0) ps).
      { unfold resolve_def. cbv zeta in Hbody. destruct (sd_body sd').
        - destruct Hbody as (fl & -> & _). reflexivity.
        - destruct Hbody as (vl & -> & _). reflexivity. }
      rewrite Hcv in Hres. unfold type_path_maybe_with_substitutes, for_path_with_params in Hres.
      rewrite Hpath in Hres.
      destruct (subs_get (s_subs s) (pa :: pb :: pl)); [discriminate Hok1|].
      unfold from_type_def_path in Hres. rewrite Hok3 in Hres. cbn [bind] in Hres.
      inversion Hres; subst t. cbn [erase_tpath].
      unfold nt. rewrite (src_tpath_app _ _ _ _ _ _ _ Hsd'), Epath. f_equal.
      rewrite map_length in Hlen'. rewrite param_ids_eq in Hmps.
      apply (app_params1 fuel (sd_params sd') xs (t_params t0) ps Hlen' Hps Hmps).
      intros x id' t' Hx Hl' Hr'.
      assert (Hxin : In x xs) by (eapply live_go_incl; eauto).
      cbn [no_cow_cow] in Hfr. rewrite forallb_forall in Hfr.
      rewrite src_size_app in Hsz. pose proof (sizes_In _ _ Hxin).
      apply (Hsub x) with (id' := id') (t' := t'); auto; try lia.
      + intros c' Hc'. rewrite components_S. right. apply in_flat_map. exists x.
        rewrite (live_args_eq _ _ _ _ Hsd'). auto.
      + intros i Hi. rewrite src_params_S. apply in_flat_map. exists x.
        rewrite (live_args_eq _ _ _ _ Hsd'). auto.
    - (* SVec *)
      rewrite (Hself eq_refl) in Hres. unfold sb in Hent. cbn [subst_src peel1 unbox content_of1] in Hent.
      destruct Hent as (e & Hb & He).
      destruct (builtin_not_cow r _ _ Hb) as (Hc & Hp & Hd).
      rewrite (resolve_type_entry r _ _ Hr0) in Hres. cbn [bind] in Hres. rewrite Hc in Hres. cbn [bind] in Hres.
      rewrite Hp in Hres. cbn [mapM bind] in Hres. unfold resolve_def in Hres. rewrite Hd in Hres.
      apply bind_ok in Hres as (i & Hi & Hres). inversion Hres; subst t. cbn [erase_tpath]. unfold nt.
      cbn [src_tpath]. f_equal. cbn [src_size] in Hsz. cbn [no_cow_cow] in Hfr.
      apply (Hsub x) with (id' := e) (t' := i); auto; try lia.
      intros c' Hc'. rewrite components_S. right. exact Hc'.
    - (* SVecDeque *)
      rewrite (Hself eq_refl) in Hres. unfold sb in Hent. cbn [subst_src peel1 unbox content_of1] in Hent.
      destruct Hent as (e & Hb & He).
      destruct (builtin_not_cow r _ _ Hb) as (Hc & Hp & Hd).
      rewrite (resolve_type_entry r _ _ Hr0) in Hres. cbn [bind] in Hres. rewrite Hc in Hres. cbn [bind] in Hres.
      rewrite Hp in Hres. cbn [mapM bind] in Hres. unfold resolve_def in Hres. rewrite Hd in Hres.
      apply bind_ok in Hres as (i & Hi & Hres). inversion Hres; subst t. cbn [erase_tpath]. unfold nt.
      cbn [src_tpath]. f_equal. cbn [src_size] in Hsz. cbn [no_cow_cow] in Hfr.
      apply (Hsub x) with (id' := e) (t' := i); auto; try lia.
      intros c' Hc'. rewrite components_S. right. exact Hc'.
    - (* SArray *)
      rewrite (Hself eq_refl) in Hres. unfold sb in Hent. cbn [subst_src peel1 unbox content_of1] in Hent.
      destruct Hent as (e & Hb & He).
      destruct (builtin_not_cow r _ _ Hb) as (Hc & Hp & Hd).
      rewrite (resolve_type_entry r _ _ Hr0) in Hres. cbn [bind] in Hres. rewrite Hc in Hres. cbn [bind] in Hres.
      rewrite Hp in Hres. cbn [mapM bind] in Hres. unfold resolve_def in Hres. rewrite Hd in Hres.
      apply bind_ok in Hres as (i & Hi & Hres). inversion Hres; subst t. cbn [erase_tpath]. unfold nt.
      cbn [src_tpath]. f_equal. cbn [src_size] in Hsz. cbn [no_cow_cow] in Hfr.
      apply (Hsub x) with (id' := e) (t' := i); auto; try lia.
      intros c' Hc'. rewrite components_S. right. exact Hc'.
    - (* STup *)
      rewrite (Hself eq_refl) in Hres. rewrite sb_tup in Hent. cbn [peel1 unbox content_of1] in Hent.
      destruct Hent as (es & Hb & Hes).
      destruct (builtin_not_cow r _ _ Hb) as (Hc & Hp & Hd).
      rewrite (resolve_type_entry r _ _ Hr0) in Hres. cbn [bind] in Hres. rewrite Hc in Hres. cbn [bind] in Hres.
      rewrite Hp in Hres. cbn [mapM bind] in Hres. unfold resolve_def in Hres. rewrite Hd in Hres.
      apply bind_ok in Hres as (l & Hml & Hres). inversion Hres; subst t. cbn [erase_tpath]. unfold nt.
      rewrite src_tpath_tup. f_equal.
      apply (tup_elems1 fuel xs es l Hes Hml).
      intros x id' t' Hxin Hl' Hr'.
      cbn [no_cow_cow] in Hfr. rewrite forallb_forall in Hfr.
      rewrite src_size_tup in Hsz. pose proof (sizes_In _ _ Hxin).
      apply (Hsub x) with (id' := id') (t' := t'); auto; try lia.
      + intros c' Hc'. rewrite components_S. right. apply in_flat_map. exists x. auto.
      + intros i Hi. rewrite src_params_S. apply in_flat_map. exists x. auto.
    - (* SPrimT *)
      rewrite (Hself eq_refl) in Hres. unfold sb in Hent. cbn [subst_src peel1 unbox content_of1] in Hent.
      destruct (builtin_not_cow r _ _ Hent) as (Hc & Hp & Hd).
      rewrite (resolve_type_entry r _ _ Hr0) in Hres. cbn [bind] in Hres. rewrite Hc in Hres. cbn [bind] in Hres.
      rewrite Hp in Hres. cbn [mapM bind] in Hres. unfold resolve_def in Hres. rewrite Hd in Hres.
      inversion Hres; subst t. reflexivity.
    - (* SCompactT *)
      rewrite (Hself eq_refl) in Hres. unfold sb in Hent. cbn [subst_src peel1 unbox content_of1] in Hent.
      destruct Hent as (e & Hb & He).
      destruct (builtin_not_cow r _ _ Hb) as (Hc & Hp & Hd).
      rewrite (resolve_type_entry r _ _ Hr0) in Hres. cbn [bind] in Hres. rewrite Hc in Hres. cbn [bind] in Hres.
      rewrite Hp in Hres. cbn [mapM bind] in Hres. unfold resolve_def in Hres. rewrite Hd in Hres.
      apply bind_ok in Hres as (i & Hi & Hres). destruct (s_compact s) as [cp|] eqn:Ecp; [|discriminate].
      inversion Hres; subst t. cbn [erase_tpath]. unfold nt.
      cbn [src_tpath]. rewrite Ecp. cbn [opt_toks]. f_equal. cbn [src_size] in Hsz. cbn [no_cow_cow] in Hfr.
      apply (Hsub x) with (id' := e) (t' := i); auto; try lia.
      intros c' Hc'. rewrite components_S. right. exact Hc'.
    - (* SBox: transparent - the same id, whose label keeps the content of [x] *)
      clear Hself Hsub Hent. rewrite <- resolve_rec_S in Hres.
      cbn [src_size] in Hsz. cbn [no_cow_cow] in Hfr.
      unfold nt. cbn [src_tpath].
      apply (IH x) with (fuel := S fuel) (id := id) (orig := orig) (w := w); auto; try lia.
      all: try (intros c' Hc'; first [apply Hnl | apply Hwr]; right; exact Hc').
      all: try (intros i -> ; exfalso; apply (Hwr (SBox (SParam i))); left; reflexivity).
      all: try (intros _; apply Hwn; reflexivity).
    - (* SOpt *)
      rewrite <- resolve_rec_S in Hres. unfold sb in Hent. cbn [subst_src peel1 unbox content_of1] in Hent.
      destruct Hent as (e & He & Hpath & Hps & Hd).
      destruct (resolve_prelude r s Hprel parents fuel id isf orig t0 "Option" (abs_path ["core"; "option"; "Option"]) t
                  (Hself eq_refl) Hr0 Hpath ltac:(cbn; tauto) ltac:(rewrite Hd; reflexivity) eq_refl Hres)
        as (ps & Hmps & ->).
      rewrite param_ids_eq, Hps in Hmps. cbn [flat_map tp_ty app] in Hmps.
      cbn [erase_tpath]. unfold nt. cbn [src_tpath]. f_equal.
      apply (tup_elems1 fuel [x] [e] ps); [constructor; [exact He|constructor]|exact Hmps|].
      intros x' id' t' [<-|[]] Hl' Hr'. cbn [src_size] in Hsz. cbn [no_cow_cow] in Hfr.
      apply (Hsub x) with (id' := id') (t' := t'); auto; try lia.
      intros c' Hc'. rewrite components_S. right. exact Hc'.
    - (* SRes *)
      rewrite <- resolve_rec_S in Hres. unfold sb in Hent. cbn [subst_src peel1 unbox content_of1] in Hent.
      destruct Hent as (ix & iy & Hix & Hiy & Hpath & Hps & Hd).
      destruct (resolve_prelude r s Hprel parents fuel id isf orig t0 "Result" (abs_path ["core"; "result"; "Result"]) t
                  (Hself eq_refl) Hr0 Hpath ltac:(cbn; tauto) ltac:(rewrite Hd; reflexivity) eq_refl Hres)
        as (ps & Hmps & ->).
      rewrite param_ids_eq, Hps in Hmps. cbn [flat_map tp_ty app] in Hmps.
      cbn [erase_tpath]. unfold nt. cbn [src_tpath]. f_equal.
      apply (tup_elems1 fuel [a; b] [ix; iy] ps);
        [constructor; [exact Hix|constructor; [exact Hiy|constructor]]|exact Hmps|].
      cbn [src_size] in Hsz. cbn [no_cow_cow] in Hfr. apply andb_prop in Hfr as [Hfa Hfb].
      intros x' id' t' [<-|[<-|[]]] Hl' Hr'.
      + apply (Hsub a) with (id' := id') (t' := t'); auto; try lia.
        * intros c' Hc'. rewrite components_S. right. apply in_or_app. left. exact Hc'.
        * intros i Hi. rewrite src_params_S. apply in_or_app. left. exact Hi.
      + apply (Hsub b) with (id' := id') (t' := t'); auto; try lia.
        * intros c' Hc'. rewrite components_S. right. apply in_or_app. right. exact Hc'.
        * intros i Hi. rewrite src_params_S. apply in_or_app. right. exact Hi.
    - (* SBTreeMap *)
      rewrite <- resolve_rec_S in Hres. unfold sb in Hent. cbn [subst_src peel1 unbox content_of1] in Hent.
      destruct Hent as (ix & iy & iseq & Hix & Hiy & _ & Hpath & Hps & Hd).
      destruct (resolve_prelude r s Hprel parents fuel id isf orig t0 "BTreeMap"
                  (alloc_tokens (s_alloc s) ++ abs_path ["collections"; "BTreeMap"]) t
                  (Hself eq_refl) Hr0 Hpath ltac:(cbn; tauto) ltac:(rewrite Hd; reflexivity) eq_refl Hres)
        as (ps & Hmps & ->).
      rewrite param_ids_eq, Hps in Hmps. cbn [flat_map tp_ty app] in Hmps.
      cbn [erase_tpath]. unfold nt. cbn [src_tpath]. f_equal.
      apply (tup_elems1 fuel [a; b] [ix; iy] ps);
        [constructor; [exact Hix|constructor; [exact Hiy|constructor]]|exact Hmps|].
      cbn [src_size] in Hsz. cbn [no_cow_cow] in Hfr. apply andb_prop in Hfr as [Hfa Hfb].
      intros x' id' t' [<-|[<-|[]]] Hl' Hr'.
      + apply (Hsub a) with (id' := id') (t' := t'); auto; try lia.
        * intros c' Hc'. rewrite components_S. right. apply in_or_app. left. exact Hc'.
        * intros i Hi. rewrite src_params_S. apply in_or_app. left. exact Hi.
      + apply (Hsub b) with (id' := id') (t' := t'); auto; try lia.
        * intros c' Hc'. rewrite components_S. right. apply in_or_app. right. exact Hc'.
        * intros i Hi. rewrite src_params_S. apply in_or_app. right. exact Hi.
    - (* SBTreeSet *)
      rewrite <- resolve_rec_S in Hres. unfold sb in Hent. cbn [subst_src peel1 unbox content_of1] in Hent.
      destruct Hent as (e & iseq & He & _ & Hpath & Hps & Hd).
      destruct (resolve_prelude r s Hprel parents fuel id isf orig t0 "BTreeSet"
                  (alloc_tokens (s_alloc s) ++ abs_path ["collections"; "BTreeSet"]) t
                  (Hself eq_refl) Hr0 Hpath ltac:(cbn; tauto) ltac:(rewrite Hd; reflexivity) eq_refl Hres)
        as (ps & Hmps & ->).
      rewrite param_ids_eq, Hps in Hmps. cbn [flat_map tp_ty app] in Hmps.
      cbn [erase_tpath]. unfold nt. cbn [src_tpath]. f_equal.
      apply (tup_elems1 fuel [x] [e] ps); [constructor; [exact He|constructor]|exact Hmps|].
      intros x' id' t' [<-|[]] Hl' Hr'. cbn [src_size] in Hsz. cbn [no_cow_cow] in Hfr.
      apply (Hsub x) with (id' := id') (t' := t'); auto; try lia.
      intros c' Hc'. rewrite components_S. right. exact Hc'.
    - (* SCow: looked through once; its argument is neither a parameter nor a Cow *)
      clear Hsub. rewrite (Hself eq_refl) in Hres. unfold sb in Hent. cbn [subst_src peel1 unbox content_of1] in Hent.
      destruct Hent as (e & He & Hpath & Hps & Hd).
      rewrite (resolve_type_entry r _ _ Hr0) in Hres. cbn [bind] in Hres.
      rewrite cow_step_eq, Hpath, Hps in Hres. cbn [path_ident last is_cow String.eqb Ascii.eqb Bool.eqb tp_ty] in Hres.
      destruct (entry1 _ _ He) as (t1 & Hr1 & Hent1).
      rewrite (resolve_type_entry r _ _ Hr1) in Hres. cbn [bind] in Hres.
      cbn [src_size] in Hsz. cbn [no_cow_cow] in Hfr. apply andb_prop in Hfr as [Hfc Hfx].
      assert (Hxin : In x (components_fuel n defs x)) by (apply components_self; lia).
      assert (Hxp : is_param x = false).
      { destruct x; try reflexivity. exfalso. apply (Hwr (SCow (SParam i))). left; reflexivity. }
      assert (Hub : match unbox x with SCow _ | SParam _ => False | _ => True end).
      { destruct (unbox x) eqn:Eu; try exact I; try discriminate Hfc.
        destruct (unbox_param defs i x n ltac:(lia) Eu) as [->|Hin]; [discriminate Hxp|].
        apply (Hwr (SBox (SParam i))). right. exact Hin. }
      rewrite peel1_ident1 in Hent1.
      assert (Hx : resolve_rec r s (S fuel) e isf parents None = Ok t).
      { rewrite resolve_rec_S.
        rewrite (no_parent1 e _ None He (Hnl x (or_intror Hxin) Hxp)).
        rewrite (resolve_type_entry r _ _ Hr1). cbn [bind].
        rewrite (entry_not_cow1 _ _ Hent1 (peel_not_cow args x Hub)). cbn [bind]. exact Hres. }
      unfold nt. cbn [src_tpath].
      apply (IH x) with (fuel := S fuel) (id := e) (orig := None) (w := cs1 args x); auto; try lia.
      all: try (intros c' Hc'; first [apply Hnl | apply Hwr]; right; exact Hc').
      all: try (unfold cs1, sb; apply peel1_ident1).
      all: try (intros _; exact (Hnl x (or_intror Hxin) Hxp)).
    - (* SRange *)
      rewrite <- resolve_rec_S in Hres. unfold sb in Hent. cbn [subst_src peel1 unbox content_of1] in Hent.
      destruct Hent as (e & He & Hpath & Hps & Hd).
      destruct (resolve_prelude r s Hprel parents fuel id isf orig t0 "Range" (abs_path ["core"; "ops"; "Range"]) t
                  (Hself eq_refl) Hr0 Hpath ltac:(cbn; tauto) ltac:(rewrite Hd; reflexivity) eq_refl Hres)
        as (ps & Hmps & ->).
      rewrite param_ids_eq, Hps in Hmps. cbn [flat_map tp_ty app] in Hmps.
      cbn [erase_tpath]. unfold nt. cbn [src_tpath]. f_equal.
      apply (tup_elems1 fuel [x] [e] ps); [constructor; [exact He|constructor]|exact Hmps|].
      intros x' id' t' [<-|[]] Hl' Hr'. cbn [src_size] in Hsz. cbn [no_cow_cow] in Hfr.
      apply (Hsub x) with (id' := id') (t' := t'); auto; try lia.
      intros c' Hc'. rewrite components_S. right. exact Hc'.
    - (* SBitVec: store primitive, order marker as the settings resolve it *)
      rewrite (Hself eq_refl) in Hres. unfold sb in Hent. cbn [subst_src peel1 unbox content_of1] in Hent.
      destruct Hent as (ist & io & ot & Hb & Hist & Hio & Hrot & Hom).
      destruct (builtin_not_cow r _ _ Hb) as (Hc & Hp & Hd).
      rewrite (resolve_type_entry r _ _ Hr0) in Hres. cbn [bind] in Hres. rewrite Hc in Hres. cbn [bind] in Hres.
      rewrite Hp in Hres. cbn [mapM bind] in Hres. unfold resolve_def in Hres. rewrite Hd in Hres.
      destruct (s_bits s) as [bp|] eqn:Eb; [|discriminate].
      apply bind_ok in Hres as (o & Ho & Hres). apply bind_ok in Hres as (st' & Hst & Hres).
      inversion Hres; subst t. destruct fuel as [|fuel]; [discriminate|].
      rewrite (resolve_order1 fuel io lsb ot o Hio Hrot Hom Ho).
      assert (Hfp : find_parent parents ist None = None).
      { apply (no_parent1 ist (SPrimT st) None Hist). apply (Hnl (SPrimT st)); [right; left; reflexivity|reflexivity]. }
      rewrite (resolve_prim1 fuel ist false None st st' Hfp Hist Hst).
      cbn [erase_tpath]. rewrite (otp_erase s otp Hord lsb). unfold nt. cbn [src_tpath]. rewrite Eb. reflexivity.
  Qed.
End Core1.

(** ** from the boolean hypotheses to the facts the core uses *)
Lemma cf1_inv defs d args :
  instantiation_cf1 defs d args = true ->
  skipped_unused defs d = true /\
  nodupb (liveL (map ident1 args) (sd_params d)) = true /\
  forall ft, In ft (def_field_types d) ->
    wrapper_on_param defs ft = false /\
    forall c, In c (components defs ft) -> is_param c = false ->
              forall a, In a (liveL (map ident1 args) (sd_params d)) -> ident1 (subst_src args c) <> a.
Proof.
  rewrite cf1_unfold. intros H. apply andb_prop in H as [H1 H]. apply andb_prop in H as [H2 H3].
  split; [exact H1|]. split; [exact H2|].
  intros ft Hft. rewrite forallb_forall in H3. specialize (H3 ft Hft).
  apply andb_prop in H3 as [H3 H4]. apply negb_true_iff in H3. split; [exact H3|].
  intros c Hc Hp a Ha E. rewrite forallb_forall in H4. specialize (H4 c Hc). rewrite Hp in H4.
  cbn [orb] in H4. apply negb_true_iff in H4.
  rewrite E in H4. rewrite (existsb_src_In _ _ Ha) in H4. discriminate.
Qed.

Lemma param_of1_of L : forall (pl : list (string * bool)) (xs : list src) tps,
  Forall2 (param_of1 L) (combine pl xs) tps -> Forall2 (param_of L) (combine pl (map ident1 xs)) tps.
Proof.
  induction pl as [|p pl IH]; intros xs tps H; [cbn [combine] in *; inversion H; constructor|].
  destruct xs as [|x xs]; [cbn [map combine] in *; inversion H; constructor|]. cbn [map combine] in *.
  inversion H as [|pa tp l l' Hpa Hrest]; subst. constructor; [|apply IH; exact Hrest].
  destruct Hpa as [Hn Hty]. split; [exact Hn|]. cbn [fst snd] in *. exact Hty.
Qed.

Section Main1.
  Variable defs : list sdef.
  Variable L : N -> option src.
  Variable r : registry.
  Variable s : settings.
  Variable otp : bool -> tpath.
  Hypothesis HR : RegistryOf1 defs L r.
  Hypothesis Hdefs : forall sd, In sd defs -> def_okb s sd = true.
  Hypothesis Hprel : prelude_okb s = true.
  Hypothesis Hord : order_resolves s otp.

  Variable d : nat.
  Variable sd : sdef.
  Variable args : list src.
  Hypothesis Hsd : nth_error defs d = Some sd.
  Hypothesis Hcf : instantiation_cf1 defs sd args = true.
  Hypothesis Hfrag : forallb (fun f => no_cow_cow (sf_ty f)) (def_sfields sd) = true.
  Hypothesis Hcompact : compact_fields_okb1 defs sd args = true.
  Hypothesis Hbox : box_names_okb defs sd = true.

  Variable t : ty.
  Hypothesis Hent : content_of1 defs L r (SApp d args) t.

  Let parents := params_from_scale_info (t_params t).
  Let pnames := map fst (sd_params sd).

  Lemma ent_inv1 :
    t_path t = sd_path sd /\ List.length args = List.length (sd_params sd) /\
    Forall2 (param_of1 L) (combine (sd_params sd) args) (t_params t) /\
    match sd_body sd with
    | SBStruct fs => exists fl, t_def t = TDComposite fl /\ Forall2 (field_of1 defs L pnames args) fs fl
    | SBEnum vs =>
        exists vl, t_def t = TDVariant vl /\
        Forall2 (fun (v : string * N * list sfield) (vr : variant) =>
                   v_name vr = fst (fst v) /\ v_index vr = snd (fst v) /\
                   Forall2 (field_of1 defs L pnames args) (snd v) (v_fields vr)) vs vl
    end.
  Proof.
    cbn [content_of1] in Hent. destruct Hent as (sd' & Hsd' & H1 & H2 & H3 & H4).
    rewrite Hsd in Hsd'. inversion Hsd'; subst sd'. auto.
  Qed.

  Lemma parents_facts1 :
    (forall p, In p parents ->
       exists i nm a, nth_error (sd_params sd) i = Some (nm, false) /\ nth_error args i = Some a /\
                      tpi_idx p = N.of_nat i /\ tpi_orig p = nm /\ L (tpi_id p) = Some (ident1 a)) /\
    (forall i nm a, nth_error (sd_params sd) i = Some (nm, false) -> nth_error args i = Some a ->
       exists p, In p parents /\ tpi_idx p = N.of_nat i /\ tpi_orig p = nm /\ L (tpi_id p) = Some (ident1 a)) /\
    map tpi_idx parents = map N.of_nat (generics_of sd).
  Proof.
    destruct ent_inv1 as (_ & Hl & Hps & _).
    assert (Hl' : List.length (map ident1 args) = List.length (sd_params sd)) by (rewrite map_length; exact Hl).
    destruct (parents_spec L (sd_params sd) (map ident1 args) (t_params t) 0 Hl' (param_of1_of L _ _ _ Hps))
      as (H1 & H2 & H3).
    unfold parents. rewrite params_from_scale_info_go. split; [|split; [|exact H3]].
    - intros p Hp. destruct (H1 p Hp) as (i & nm & a' & Hi1 & Hi2 & Hi3 & Hi4 & Hi5).
      destruct (nth_error_map_inv _ _ _ _ Hi2) as (a & Ha & ->). exists i, nm, a. auto.
    - intros i nm a Hi Ha. apply (H2 i nm (ident1 a) Hi). apply map_nth_error. exact Ha.
  Qed.

  Lemma args_dist1 : forall i j ni nj a b,
    nth_error (sd_params sd) i = Some (ni, false) -> nth_error args i = Some a ->
    nth_error (sd_params sd) j = Some (nj, false) -> nth_error args j = Some b ->
    ident1 a = ident1 b -> i = j.
  Proof.
    destruct (cf1_inv _ _ _ Hcf) as (_ & Hn & _). intros i j ni nj a b Hi Ha Hj Hb E.
    apply (nodup_dist _ _ Hn i j ni nj (ident1 a) Hi (map_nth_error ident1 _ _ Ha) Hj).
    rewrite E. apply map_nth_error. exact Hb.
  Qed.

  (** one field *)
  Lemma field_skeleton1 sf f fi :
    In sf (def_sfields sd) -> field_of1 defs L pnames args sf f ->
    field_ir_of r s parents f = Ok fi ->
    erase_fi fi = normal_field defs s otp sf.
  Proof.
    intros Hin (Hname & Hlab & Htn) Hfi. unfold lab1 in Hlab. cbv zeta in Hlab.
    destruct parents_facts1 as (Hp1 & Hp2 & _). destruct ent_inv1 as (_ & Hlen & _ & _).
    destruct (cf1_inv _ _ _ Hcf) as (Hsku & _ & Hcomp).
    assert (Hft : In (sf_ty sf) (def_field_types sd)).
    { unfold def_field_types. unfold def_sfields in Hin. destruct (sd_body sd) as [fs|vs].
      - apply in_map. exact Hin.
      - apply in_flat_map in Hin as (v & Hv & Hin). apply in_flat_map. exists v. split; [exact Hv|apply in_map; exact Hin]. }
    destruct (Hcomp _ Hft) as (Hwrap & Hnl).
    rewrite forallb_forall in Hfrag. pose proof (Hfrag sf Hin) as Hff1. cbv beta in Hff1.
    (* the hypotheses of the core for the field type *)
    assert (Hnl' : forall c', In c' (components_fuel (src_size (sf_ty sf)) defs (sf_ty sf)) ->
                   is_param c' = false -> notlive1 sd args c').
    { intros c' Hc' Hp a (i & nm & Hi1 & Hi2). apply (Hnl c' Hc' Hp).
      eapply liveL_In; [exact Hi1|apply map_nth_error; exact Hi2]. }
    assert (Hwr' : forall c', In c' (components_fuel (src_size (sf_ty sf)) defs (sf_ty sf)) ->
                   match c' with SBox (SParam _) | SCow (SParam _) => False | _ => True end).
    { intros c' Hc'.
      assert (E : (match c' with SBox (SParam _) | SCow (SParam _) => true | _ => false end) = false).
      { destruct (match c' with SBox (SParam _) | SCow (SParam _) => true | _ => false end) eqn:Em; [|reflexivity].
        unfold wrapper_on_param in Hwrap. rewrite <- Hwrap. symmetry. apply existsb_exists.
        exists c'. split; [exact Hc'|exact Em]. }
      destruct c' as [| | | | | | | |[]| | | | |[]| |]; try exact I; discriminate E. }
    assert (Hsk' : forall i nm, In i (src_params_fuel (src_size (sf_ty sf)) defs (sf_ty sf)) ->
                   nth_error (sd_params sd) i <> Some (nm, true)).
    { intros i nm Hi E. unfold skipped_unused in Hsku. rewrite forallb_forall in Hsku.
      assert (Hi' : In i (flat_map (src_params defs) (def_field_types sd))).
      { apply in_flat_map. exists (sf_ty sf). split; [exact Hft|exact Hi]. }
      specialize (Hsku i Hi'). rewrite E in Hsku. discriminate. }
    unfold field_ir_of, resolve_field_type_path in Hfi. apply bind_ok in Hfi as (p & Hp & Hfi).
    inversion Hfi; subst fi. unfold erase_fi, normal_field. cbn [fi_path fi_compact fi_boxed].
    assert (Hboxed : is_boxed_gen f = has_box (sf_ty sf) && sf_type_name sf).
    { unfold is_boxed_gen. rewrite Htn. unfold box_names_okb in Hbox. rewrite forallb_forall in Hbox.
      specialize (Hbox sf Hin). cbv zeta in Hbox. apply andb_prop in Hbox as [Hbox Harc].
      apply andb_prop in Hbox as [Hbox Hrc]. apply eqb_prop in Hbox. apply negb_true_iff in Hrc, Harc.
      fold pnames in Hbox, Hrc, Harc.
      destruct (sf_type_name sf);
        [rewrite Hbox, Hrc, Harc, !orb_false_r, andb_true_r; reflexivity|rewrite andb_false_r; reflexivity]. }
    rewrite Hboxed.
    assert (Hself : In (sf_ty sf) (components_fuel (src_size (sf_ty sf)) defs (sf_ty sf)))
      by (apply components_self; apply le_n).
    destruct (sf_compact_attr sf) eqn:Eca.
    - (* #[codec(compact)]: the field's id is Compact<closed field type> *)
      cbn [ident1] in Hlab.
      destruct (fuel0 r) as [|fuel] eqn:Ef; [discriminate|].
      rewrite resolve_rec_S in Hp.
      assert (Hnone : find_parent parents (f_ty f) (f_type_name f) = None).
      { unfold find_parent. destruct (find _ parents) as [q|] eqn:Eq; [|reflexivity]. exfalso.
        apply find_some in Eq as [Hqin Hq]. apply andb_prop in Hq as [Hq1 Hq2]. apply N.eqb_eq in Hq1.
        destruct (Hp1 q Hqin) as (j & nj & a & Hj1 & Hj2 & _ & Hj4 & Hj5).
        rewrite Hq1, Hlab in Hj5. inversion Hj5 as [Ea].
        unfold compact_fields_okb1 in Hcompact. rewrite forallb_forall in Hcompact.
        specialize (Hcompact sf Hin). rewrite Eca in Hcompact. cbn [negb orb] in Hcompact.
        rewrite forallb_forall in Hcompact.
        assert (Hc : In (a, (nj, false)) (combine args (sd_params sd))).
        { clear - Hj1 Hj2. revert j Hj1 Hj2. generalize (sd_params sd). induction args as [|x xs IH]; intros pl j H1 H2;
            [destruct j; discriminate|]. destruct pl as [|y pl]; [destruct j; discriminate|].
          destruct j; cbn [nth_error combine] in *; [inversion H1; inversion H2; left; reflexivity|right; eapply IH; eauto]. }
        specialize (Hcompact _ Hc). cbn [fst snd orb] in Hcompact.
        rewrite <- Ea, src_eqb_refl in Hcompact. cbn [negb orb] in Hcompact.
        apply andb_prop in Hcompact as [Htn1 Htn2]. rewrite Htn1 in Htn. rewrite Htn in Hq2.
        apply negb_true_iff in Htn2. rewrite Hj4 in Hq2. fold pnames in Htn2. congruence. }
      rewrite Hnone in Hp.
      destruct (entry1 defs L r HR _ _ Hlab) as (t0 & Hr0 & Hent0). cbn [peel1 unbox content_of1] in Hent0.
      destruct Hent0 as (e & Hb & He).
      destruct (builtin_not_cow r _ _ Hb) as (Hc & Hpi & Hd).
      rewrite (resolve_type_entry r _ _ Hr0) in Hp. cbn [bind] in Hp. rewrite Hc in Hp. cbn [bind] in Hp.
      rewrite Hpi in Hp. cbn [mapM bind] in Hp. unfold resolve_def in Hp. rewrite Hd in Hp.
      apply bind_ok in Hp as (i & Hi & Hp). destruct (s_compact s) as [cp|] eqn:Ecp; [|discriminate].
      inversion Hp; subst p. cbn [erase_tpath src_tpath is_compact]. rewrite Ecp. cbn [opt_toks].
      f_equal. f_equal.
      apply (resolve_src1 defs L r s otp HR Hdefs Hprel Hord sd args parents Hlen Hp1 Hp2 args_dist1
                (src_size (sf_ty sf)) (sf_ty sf) (le_n _) Hff1 Hnl' Hwr' Hsk' fuel e false None i
                (cs1 args (sf_ty sf))).
      + intros i0 _; left; reflexivity.
      + exact He.
      + unfold cs1, sb. apply peel1_ident1.
      + intros i0 _. reflexivity.
      + intros Hpm. exact (Hnl' _ Hself Hpm).
      + exact Hi.
    - (* the field's id is the closed field type *)
      assert (Ht : erase_tpath p = src_tpath defs s otp true (sf_ty sf)).
      { apply (resolve_src1 defs L r s otp HR Hdefs Hprel Hord sd args parents Hlen Hp1 Hp2 args_dist1
                  (src_size (sf_ty sf)) (sf_ty sf) (le_n _) Hff1 Hnl' Hwr' Hsk' (fuel0 r) (f_ty f) true
                  (f_type_name f) p (cs1 args (sf_ty sf))).
        - intros i Ei. rewrite Htn. destruct (sf_type_name sf); [right|left; reflexivity].
          destruct (nth_error (sd_params sd) i) as [[nm sk]|] eqn:En.
          + destruct sk.
            * exfalso. apply (Hsk' i nm); [rewrite Ei; destruct (src_size (SParam i)) eqn:Es; [discriminate Es|left; reflexivity]|exact En].
            * exists nm. split; [reflexivity|]. rewrite Ei. cbn [render]. unfold pnames.
              rewrite (nth_map_fst _ _ _ _ _ En). reflexivity.
          + exfalso. rewrite Ei in Hlab. cbn [subst_src] in Hlab.
            rewrite nth_overflow in Hlab by (apply nth_error_None in En; lia).
            destruct (entry1 defs L r HR _ _ Hlab) as (t0 & _ & []).
        - exact Hlab.
        - unfold cs1, sb. apply peel1_ident1.
        - intros i _. reflexivity.
        - intros Hpm. exact (Hnl' _ Hself Hpm).
        - exact Hp. }
      rewrite Ht, <- (is_compact_erase p), Ht. reflexivity.
  Qed.

  (** parameters and fields of the IR of an instantiation *)
  Theorem skeleton_is_source1 flat ir :
    create_type_ir r s t flat = Ok (Some ir) ->
    map tpi_idx (ti_params ir) = map N.of_nat (generics_of sd) /\
    Forall2 (fun sf fi => erase_fi fi = normal_field defs s otp sf)
            (def_sfields sd) (kind_fields (ti_kind ir)).
  Proof.
    intros Hc. destruct parents_facts1 as (_ & _ & Hidx).
    pose proof Hc as Hc'. rewrite create_type_ir_eq in Hc'.
    destruct (negb (is_composite_or_variant (t_def t))); [discriminate|]. cbv zeta in Hc'.
    destruct (path_ident (t_path t)) as [nm|]; [|discriminate].
    apply bind_ok in Hc' as (name & _ & Hc').
    apply bind_ok in Hc' as ([[kind cdac] unused] & Hk & Hc').
    apply bind_ok in Hc' as (dd & _ & Hc'). inversion Hc'; subst ir; clear Hc'. cbn [ti_params ti_kind].
    split; [exact Hidx|].
    destruct ent_inv1 as (_ & _ & _ & Hbody).
    assert (Hfs : forall fs fl lf, (forall sf, In sf fs -> In sf (def_sfields sd)) ->
              Forall2 (field_of1 defs L pnames args) fs fl ->
              Forall2 (fun f fi => field_ir_of r s parents f = Ok fi) fl lf ->
              Forall2 (fun sf fi => erase_fi fi = normal_field defs s otp sf) fs lf).
    { intros fs fl lf Hin H1 H2.
      eapply (Forall2_trans_In _ _ _ fs fl lf H1 H2). intros a b c Ha Hab Hbc.
      eapply field_skeleton1; eauto. }
    unfold def_sfields in *. destruct (sd_body sd) as [fs|vs].
    - destruct Hbody as (fl & Hdef & Hfl). rewrite Hdef in Hk.
      apply bind_ok in Hk as ([k u] & Hcc & Hk). cbn [fst snd] in Hk. inversion Hk; subst.
      cbn [kind_fields ci_kind]. apply cck_fields in Hcc.
      apply (Hfs fs fl _ (fun sf H => H) Hfl Hcc).
    - destruct Hbody as (vl & Hdef & Hvl). rewrite Hdef in Hk.
      apply bind_ok in Hk as ([l u] & Hcc & Hk). cbn [fst snd] in Hk. inversion Hk; subst.
      cbn [kind_fields]. apply variants_fields in Hcc.
      apply (Forall2_app_flat _ (fun v : string * N * list sfield => snd v)
                              (fun x : N * composite_ir => ckind_fields (ci_kind (snd x)))).
      eapply (Forall2_trans_In _ _ _ vs vl l Hvl Hcc). intros v vr x Hv (_ & _ & Hvf) Hx.
      apply (Hfs (snd v) (v_fields vr) _); [|exact Hvf|exact Hx].
      intros sf Hsf. apply in_flat_map. exists v. split; assumption.
  Qed.
End Main1.
