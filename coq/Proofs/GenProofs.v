(** Proofs about the generation loop (mod.rs:70-118): sanity pass, keep-first
    ordered map, substituted paths never defined (C02, C03, C07, C10). *)
From Coq Require Import List NArith String Bool Lia.
From V Require Import Base.Strings Base.Result Model.Registry Model.Settings Model.Subst
  Model.TypePath Model.Derives Model.Generate Model.Equal.
Import ListNotations.
Open Scope string_scope. Open Scope list_scope.

(** ** sanity pass *)
Fixpoint first_bad_from (i : N) (l : registry) : option (N * N) :=
  match l with
  | [] => None
  | (id, _) :: l' => if N.eqb id i then first_bad_from (i + 1)%N l' else Some (id, i)
  end.
(** first position whose id differs from its index: (given id, expected id) *)
Definition first_bad (r : registry) : option (N * N) := first_bad_from 0%N r.

Lemma sanity_from_spec : forall l i,
  (fix go (i : N) (l : registry) : result unit :=
     match l with
     | [] => Ok tt
     | (id, _) :: l' => if N.eqb id i then go (i + 1)%N l' else Err (EIdsInvalid id i)
     end) i l =
  match first_bad_from i l with None => Ok tt | Some (g, e) => Err (EIdsInvalid g e) end.
Proof.
  induction l as [|[id t] l IH]; intros i; cbn; auto.
  destruct (N.eqb id i); auto.
Qed.

Lemma sanity_pass_spec r :
  sanity_pass r = match first_bad r with None => Ok tt | Some (g, e) => Err (EIdsInvalid g e) end.
Proof. unfold sanity_pass, first_bad. apply sanity_from_spec. Qed.

Lemma dedup_sanity_spec r :
  sanity r = match first_bad r with None => Ok tt | Some (g, e) => Err (EIdsInvalid g e) end.
Proof. unfold sanity, first_bad. apply sanity_from_spec. Qed.

Lemma first_bad_from_consistent : forall l i,
  first_bad_from i l = None <->
  (fix go (i : N) (l : registry) : bool :=
     match l with [] => true | (id, _) :: l' => N.eqb id i && go (i + 1)%N l' end) i l = true.
Proof.
  induction l as [|[id t] l IH]; intros i; cbn; [tauto|].
  destruct (N.eqb id i); cbn; [apply IH|split; discriminate].
Qed.

Lemma first_bad_none_iff r : first_bad r = None <-> ids_consistent r = true.
Proof. unfold first_bad, ids_consistent. apply first_bad_from_consistent. Qed.

(** the mismatch is reported before anything else is looked at *)
Theorem generate_ids_invalid r s teq g e :
  first_bad r = Some (g, e) -> generate r s teq = Err (EIdsInvalid g e).
Proof. intros H. unfold generate. rewrite sanity_pass_spec, H. reflexivity. Qed.

Theorem ensure_unique_ids_invalid r g e :
  first_bad r = Some (g, e) -> ensure_unique r = Err (EIdsInvalid g e).
Proof. intros H. unfold ensure_unique. rewrite dedup_sanity_spec, H. reflexivity. Qed.

