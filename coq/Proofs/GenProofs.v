(** Proofs about the generation loop (mod.rs:70-118): sanity pass, keep-first
    ordered map, substituted paths never defined (C02, C03, C07, C10). *)
From Coq Require Import List NArith String Bool Lia.
From V Require Import Base.Strings Base.Result Model.Registry Model.Settings Model.Subst
  Model.TypePath Model.Derives Model.Generate Model.Equal.
Import ListNotations.
Open Scope string_scope. Open Scope list_scope.

(** ** sanity pass *)
Fixpoint first_bad_from (i : N) (l : registry) : option (N * N) :=
  match l with
  | [] => None
  | (id, _) :: l' => if N.eqb id i then first_bad_from (i + 1)%N l' else Some (id, i)
  end.
(** first position whose id differs from its index: (given id, expected id) *)
Definition first_bad (r : registry) : option (N * N) := first_bad_from 0%N r.

Lemma sanity_from_spec : forall l i,
  (fix go (i : N) (l : registry) : result unit :=
     match l with
     | [] => Ok tt
     | (id, _) :: l' => if N.eqb id i then go (i + 1)%N l' else Err (EIdsInvalid id i)
     end) i l =
  match first_bad_from i l with None => Ok tt | Some (g, e) => Err (EIdsInvalid g e) end.
Proof.
  induction l as [|[id t] l IH]; intros i; cbn; auto.
  destruct (N.eqb id i); auto.
Qed.

Lemma sanity_pass_spec r :
  sanity_pass r = match first_bad r with None => Ok tt | Some (g, e) => Err (EIdsInvalid g e) end.
Proof. unfold sanity_pass, first_bad. apply sanity_from_spec. Qed.

Lemma dedup_sanity_spec r :
  sanity r = match first_bad r with None => Ok tt | Some (g, e) => Err (EIdsInvalid g e) end.
Proof. unfold sanity, first_bad. apply sanity_from_spec. Qed.

Lemma first_bad_from_consistent : forall l i,
  first_bad_from i l = None <->
  (fix go (i : N) (l : registry) : bool :=
     match l with [] => true | (id, _) :: l' => N.eqb id i && go (i + 1)%N l' end) i l = true.
Proof.
  induction l as [|[id t] l IH]; intros i; cbn; [tauto|].
  destruct (N.eqb id i); cbn; [apply IH|split; discriminate].
Qed.

Lemma first_bad_none_iff r : first_bad r = None <-> ids_consistent r = true.
Proof. unfold first_bad, ids_consistent. apply first_bad_from_consistent. Qed.

(** the mismatch is reported before anything else is looked at *)
Theorem generate_ids_invalid r s teq g e :
  first_bad r = Some (g, e) -> generate r s teq = Err (EIdsInvalid g e).
Proof. intros H. unfold generate. rewrite sanity_pass_spec, H. reflexivity. Qed.

Theorem ensure_unique_ids_invalid r g e :
  first_bad r = Some (g, e) -> ensure_unique r = Err (EIdsInvalid g e).
Proof. intros H. unfold ensure_unique. rewrite dedup_sanity_spec, H. reflexivity. Qed.


(** ** the ordered map *)
Lemma path_eqb_sym a b : path_eqb a b = path_eqb b a.
Proof.
  destruct (path_eqb a b) eqn:E1, (path_eqb b a) eqn:E2; auto.
  - apply path_eqb_eq in E1; subst. rewrite path_eqb_refl in E2; discriminate.
  - apply path_eqb_eq in E2; subst. rewrite path_eqb_refl in E1; discriminate.
Qed.

Lemma items_get_insert_absent : forall (m : items) p v q,
  items_get m p = None ->
  items_get (items_insert m p v) q = if path_eqb p q then Some v else items_get m q.
Proof.
  induction m as [|[k v'] m IH]; intros p v q Hn; cbn [items_insert items_get].
  - destruct (path_eqb p q); reflexivity.
  - cbn [items_get] in Hn. destruct (path_eqb k p) eqn:Ekp; [discriminate|].
    destruct (path_compare p k) eqn:C.
    + apply path_compare_eq in C; subst. rewrite path_eqb_refl in Ekp; discriminate.
    + cbn [items_get]. destruct (path_eqb p q); reflexivity.
    + cbn [items_get]. destruct (path_eqb k q) eqn:Ekq.
      * destruct (path_eqb p q) eqn:Epq; auto.
        apply path_eqb_eq in Ekq, Epq; subst. rewrite path_eqb_refl in Ekp; discriminate.
      * apply IH; assumption.
Qed.

Section Loop.
  Variable r : registry.
  Variable s : settings.
  Variable teq : N -> N -> result bool.
  Variable flat : flat_registry.

  (** what the loop does with one entry, given the current map *)
  Inductive action :=
  | Skip                         (* substituted, prelude / builtin, or not a struct/enum *)
  | Insert (ir : type_ir)
  | Keep (other : N)             (* path occupied, judged equal *).

  Definition eligible (t : ty) : bool :=
    negb (subs_contains (s_subs s) (t_path t)) &&
    match namespace (t_path t) with [] => false | _ => true end.

  (** one unfolding of the loop, as an equation *)
  Lemma gen_loop_cons id t l acc :
    gen_loop r s teq flat ((id, t) :: l) acc =
    if subs_contains (s_subs s) (t_path t) then gen_loop r s teq flat l acc
    else match namespace (t_path t) with
         | [] => gen_loop r s teq flat l acc
         | ns =>
             let* o := create_type_ir r s t flat in
             match o with
             | None => gen_loop r s teq flat l acc
             | Some ir =>
                 if forallb ident_lexb ns then
                   match items_get acc (t_path t) with
                   | None => gen_loop r s teq flat l (items_insert acc (t_path t) (id, ir))
                   | Some (other, _) =>
                       let* eq := teq id other in
                       if eq then gen_loop r s teq flat l acc
                       else Err (EDuplicatePath (join "::" (t_path t)))
                   end
                 else Panic "Ident::new: not an identifier"
             end
         end.
  Proof. reflexivity. Qed.

  (** keep-first: an occupied path is never overwritten *)
  Lemma gen_loop_keeps : forall l acc m p v,
    gen_loop r s teq flat l acc = Ok m -> items_get acc p = Some v -> items_get m p = Some v.
  Proof.
    induction l as [|[id t] l IH]; intros acc m p v H Hg.
    - cbn in H. inversion H; subst; assumption.
    - rewrite gen_loop_cons in H.
      destruct (subs_contains (s_subs s) (t_path t)); [eapply IH; eauto|].
      destruct (namespace (t_path t)) as [|n0 ns]; [eapply IH; eauto|].
      destruct (create_type_ir r s t flat) as [[ir|]|e|msg]; cbn [bind] in H; try discriminate;
        [|eapply IH; eauto].
      destruct (forallb ident_lexb (n0 :: ns)); [|discriminate].
      destruct (items_get acc (t_path t)) as [[other ir']|] eqn:G.
      + destruct (teq id other) as [[|]|e|msg]; cbn [bind] in H; try discriminate.
        eapply IH; eauto.
      + eapply IH; [exact H|].
        rewrite items_get_insert_absent by assumption.
        destruct (path_eqb (t_path t) p) eqn:E; [|assumption].
        apply path_eqb_eq in E; subst. congruence.
  Qed.

  (** C07: a substituted path is never defined *)
  Lemma gen_loop_no_subst : forall l acc m,
    gen_loop r s teq flat l acc = Ok m ->
    (forall p v, items_get acc p = Some v -> subs_contains (s_subs s) p = false) ->
    forall p v, items_get m p = Some v -> subs_contains (s_subs s) p = false.
  Proof.
    induction l as [|[id t] l IH]; intros acc m H Hacc p v Hm.
    - cbn in H. inversion H; subst. eapply Hacc; eauto.
    - rewrite gen_loop_cons in H.
      destruct (subs_contains (s_subs s) (t_path t)) eqn:Sub; [eapply IH; eauto|].
      destruct (namespace (t_path t)) as [|n0 ns]; [eapply IH; eauto|].
      destruct (create_type_ir r s t flat) as [[ir|]|e|msg]; cbn [bind] in H; try discriminate;
        [|eapply IH; eauto].
      destruct (forallb ident_lexb (n0 :: ns)); [|discriminate].
      destruct (items_get acc (t_path t)) as [[other ir']|] eqn:G.
      + destruct (teq id other) as [[|]|e|msg]; cbn [bind] in H; try discriminate.
        eapply IH; eauto.
      + eapply IH; [exact H| |exact Hm].
        intros p' v' Hp'. rewrite items_get_insert_absent in Hp' by assumption.
        destruct (path_eqb (t_path t) p') eqn:E; [|eapply Hacc; eauto].
        apply path_eqb_eq in E; subst. assumption.
  Qed.

  (** every key of the result is the path of an entry the loop made an item of *)
  Lemma gen_loop_keys : forall l acc m p id ir,
    gen_loop r s teq flat l acc = Ok m -> items_get m p = Some (id, ir) ->
    items_get acc p = Some (id, ir) \/
    exists t, In (id, t) l /\ t_path t = p /\ eligible t = true /\
              create_type_ir r s t flat = Ok (Some ir).
  Proof.
    induction l as [|[id0 t] l IH]; intros acc m p id ir H Hm.
    - cbn in H. inversion H; subst. left; assumption.
    - rewrite gen_loop_cons in H.
      assert (Hrec : forall acc', gen_loop r s teq flat l acc' = Ok m ->
                (items_get acc' p = Some (id, ir) \/
                 exists t0, In (id, t0) l /\ t_path t0 = p /\ eligible t0 = true /\
                            create_type_ir r s t0 flat = Ok (Some ir))).
      { intros acc' H'. eapply IH; eauto. }
      assert (Hlift : forall (P : Prop), (items_get acc p = Some (id, ir) \/
                 exists t0, In (id, t0) l /\ t_path t0 = p /\ eligible t0 = true /\
                            create_type_ir r s t0 flat = Ok (Some ir)) ->
                items_get acc p = Some (id, ir) \/
                exists t0, In (id, t0) ((id0, t) :: l) /\ t_path t0 = p /\ eligible t0 = true /\
                           create_type_ir r s t0 flat = Ok (Some ir)).
      { intros _ [Ha|(t0 & Hin & Hr)]; [left; assumption|right; exists t0; split; [right; assumption|assumption]]. }
      destruct (subs_contains (s_subs s) (t_path t)) eqn:Sub; [apply (Hlift True), Hrec; assumption|].
      destruct (namespace (t_path t)) as [|n0 ns] eqn:Ns; [apply (Hlift True), Hrec; assumption|].
      destruct (create_type_ir r s t flat) as [[ir0|]|e|msg] eqn:Cti; cbn [bind] in H; try discriminate;
        [|apply (Hlift True), Hrec; assumption].
      destruct (forallb ident_lexb (n0 :: ns)); [|discriminate].
      destruct (items_get acc (t_path t)) as [[other ir']|] eqn:G.
      + destruct (teq id0 other) as [[|]|e|msg]; cbn [bind] in H; try discriminate.
        apply (Hlift True), Hrec; assumption.
      + destruct (Hrec _ H) as [Ha|Hex]; [|apply (Hlift True); right; assumption].
        rewrite items_get_insert_absent in Ha by assumption.
        destruct (path_eqb (t_path t) p) eqn:E; [|left; assumption].
        apply path_eqb_eq in E. inversion Ha; subst.
        right. exists t. split; [left; reflexivity|]. split; [reflexivity|]. split; [|assumption].
        unfold eligible. rewrite Sub, Ns. reflexivity.
  Qed.
End Loop.

Theorem generate_never_defines_substituted r s teq m p v :
  generate r s teq = Ok m -> items_get m p = Some v -> subs_contains (s_subs s) p = false.
Proof.
  unfold generate. intros H Hm.
  apply bind_ok in H as (u & _ & H). apply bind_ok in H as (flat & _ & H).
  eapply gen_loop_no_subst; eauto. cbn. discriminate.
Qed.

Theorem generate_items_come_from_entries r s teq m p id ir :
  generate r s teq = Ok m -> items_get m p = Some (id, ir) ->
  exists t flat, In (id, t) r /\ t_path t = p /\ eligible s t = true /\
                 flatten (s_dreg s) r = Ok flat /\ create_type_ir r s t flat = Ok (Some ir).
Proof.
  unfold generate. intros H Hm.
  apply bind_ok in H as (u & _ & H). apply bind_ok in H as (flat & Hf & H).
  destruct (gen_loop_keys r s teq flat r [] m p id ir H Hm) as [Ha|(t & Hin & Hp & He & Hc)].
  - cbn in Ha. discriminate.
  - exists t, flat. auto.
Qed.

(** ** small facts used by several properties *)
Section Small.
  Variable r : registry.
  Variable s : settings.

  (** C07: a rule without generics hands the resolved arguments through *)
  Lemma for_path_passthrough path params sub :
    subs_get (s_subs s) path = Some sub -> su_map sub = PassThrough ->
    for_path_with_params s path params = Some (Ok (TPath (print_spath (su_path sub)) params)).
  Proof. intros H1 H2. unfold for_path_with_params. rewrite H1, H2. reflexivity. Qed.

  (** C07: every struct/enum reference goes through the substitute lookup *)
  Lemma maybe_subst_substituted path params sub :
    subs_get (s_subs s) path = Some sub ->
    exists x, for_path_with_params s path params = Some x /\
              type_path_maybe_with_substitutes s path params = x.
  Proof.
    intros H. unfold type_path_maybe_with_substitutes, for_path_with_params. rewrite H.
    eexists; split; reflexivity.
  Qed.

  (** C09: the docs switch *)
  Lemma docs_switch docs :
    docs_from_scale_info s docs = if s_docs s then docs else [].
  Proof. reflexivity. Qed.

  (** C18 / C08: derives of a standalone struct *)
  Lemma upcast_derives c :
    ti_derives (upcast_composite s c) =
    if could_derive_as_compact (ci_kind c) then add_as_compact s (dr_default (s_dreg s))
    else dr_default (s_dreg s).
  Proof. unfold upcast_composite. destruct (could_derive_as_compact (ci_kind c)); reflexivity. Qed.

  Lemma upcast_shape c :
    ti_params (upcast_composite s c) = [] /\ ti_unused (upcast_composite s c) = [] /\
    ti_kind (upcast_composite s c) = KStruct c /\ ti_codec (upcast_composite s c) = s_codec s.
  Proof. unfold upcast_composite. repeat split. Qed.

  Lemma mark_used_nil used : mark_used [] used = [].
  Proof. reflexivity. Qed.

  (** with no declared parameters the composite kind does not depend on the parameter state *)
  Lemma composite_kind_no_params fs k u :
    create_composite_ir_kind r s fs [] [] = Ok (k, u) -> u = [].
  Proof.
    unfold create_composite_ir_kind. destruct fs as [|f fs]; [intros H; inversion H; reflexivity|].
    destruct (negb (all_named (f :: fs) || all_unnamed (f :: fs))); [discriminate|].
    destruct (all_named (f :: fs)).
    - intros H. apply bind_ok in H as (l & _ & H). inversion H; reflexivity.
    - intros H. apply bind_ok in H as (l & _ & H). inversion H; reflexivity.
  Qed.
End Small.

(** C18: for a type without (non-skipped) parameters the struct body inside its item is
    literally what [create_composite_ir_kind] gives for the field list with empty parameters *)
Theorem struct_item_fields_standalone r s t flat ir fs :
  params_from_scale_info (t_params t) = [] -> t_def t = TDComposite fs ->
  create_type_ir r s t flat = Ok (Some ir) ->
  exists c, ti_kind ir = KStruct c /\ create_composite_ir_kind r s fs [] [] = Ok (ci_kind c, []) /\
            ti_params ir = [] /\ ti_unused ir = [].
Proof.
  intros Hp Hd H. unfold create_type_ir in H. rewrite Hd, Hp in H. cbn [is_composite_or_variant negb] in H.
  destruct (path_ident (t_path t)) as [nm|]; [|discriminate].
  apply bind_ok in H as (name & _ & H).
  apply bind_ok in H as ([[kind cdac] unused] & Hk & H).
  apply bind_ok in Hk as ([k u] & Hc & Hk). cbn [fst snd] in Hk.
  pose proof (composite_kind_no_params r s fs k u Hc) as Hu.
  inversion Hk; subst; clear Hk.
  apply bind_ok in H as (d & _ & H). inversion H; subst; clear H. cbn [ti_kind ti_params ti_unused].
  eexists; split; [reflexivity|]. cbn [ci_kind]. auto.
Qed.
