(** C05: the normalised type path of a source type, read as a parsed type, is [src_pty] of the
    source type; the fields of the IR of an instantiation read as [field_pty] of the source
    fields. *)
From Coq Require Import List NArith String Bool Lia Arith.
From V Require Import Base.Util Base.Strings Base.Result Model.Registry Model.Settings Model.Subst
  Model.TypePath Model.Derives Model.Generate Model.WellFormed Model.Shape Model.Program Model.ProgramSkel
  Checkers.Parse Checkers.Sem
  Proofs.FidelityBase Proofs.SourceRoundTrip Proofs.SourceSkeleton.
Import ListNotations.
Open Scope string_scope. Open Scope list_scope.

Lemma toks_to_segs_flat : forall l, segs_ok l = true -> toks_to_segs (flat_map (fun s => [":"; ":"; s]) l) = l.
Proof.
  induction l as [|a l IH]; intros H; [reflexivity|]. cbn [segs_ok forallb] in H. apply andb_prop in H as [Ha Hl].
  cbn [flat_map app]. cbn [toks_to_segs]. apply negb_true_iff in Ha.
  change (toks_to_segs (a :: flat_map (fun s => [":"; ":"; s]) l) = a :: l).
  assert (E : forall r, toks_to_segs (a :: r) = a :: toks_to_segs r).
  { intros r. cbn [toks_to_segs]. destruct a as [|c a']; [reflexivity|].
    destruct (String.eqb (String c a') ":") eqn:E; [discriminate|].
    destruct c as [[] [] [] [] [] [] [] []]; try reflexivity. destruct a'; [discriminate E|reflexivity]. }
  rewrite E, (IH Hl). reflexivity.
Qed.

Lemma toks_to_segs_abs l : segs_ok l = true -> toks_to_segs (abs_path l) = l.
Proof. apply toks_to_segs_flat. Qed.

Lemma toks_to_segs_rel a l : segs_ok (a :: l) = true -> toks_to_segs (rel_path (a :: l)) = a :: l.
Proof.
  intros H. cbn [rel_path]. cbn [segs_ok forallb] in H. apply andb_prop in H as [Ha Hl]. apply negb_true_iff in Ha.
  assert (E : forall r, toks_to_segs (a :: r) = a :: toks_to_segs r).
  { intros r. cbn [toks_to_segs]. destruct a as [|c a']; [reflexivity|].
    destruct c as [[] [] [] [] [] [] [] []]; try reflexivity. destruct a'; [discriminate Ha|reflexivity]. }
  rewrite E, (toks_to_segs_flat l Hl). reflexivity.
Qed.

Lemma toks_leading_cons x r : String.eqb x ":" = false -> toks_leading (x :: r) = false.
Proof.
  intros H. unfold toks_leading. destruct x as [|c x']; [reflexivity|].
  destruct c as [[] [] [] [] [] [] [] []]; try reflexivity. destruct x'; [discriminate H|reflexivity].
Qed.

Lemma toks_pty_abs l args : segs_ok l = true -> l <> [] -> toks_pty (abs_path l) args = abs_p l args.
Proof.
  intros H Hl. unfold toks_pty, abs_p. rewrite (toks_to_segs_abs l H).
  destruct l as [|a l']; [congruence|]. reflexivity.
Qed.

Lemma segs_ok_app a b : segs_ok (a ++ b) = segs_ok a && segs_ok b.
Proof. unfold segs_ok. apply forallb_app. Qed.

Lemma abs_path_app a b : abs_path (a ++ b) = abs_path a ++ abs_path b.
Proof. unfold abs_path. apply flat_map_app. Qed.

Lemma tpath_pty_TPath alloc toks ps : tpath_pty alloc (TPath toks ps) = toks_pty toks (map (tpath_pty alloc) ps).
Proof. reflexivity. Qed.

Lemma tpath_pty_TTuple alloc ps : tpath_pty alloc (TTuple ps) = PTuple (map (tpath_pty alloc) ps).
Proof. reflexivity. Qed.

Lemma tpath_pty_erase alloc t : tpath_pty alloc (erase_tpath t) = tpath_pty alloc t.
Proof.
  induction t as [p|ptoks params IH|o IH|len o IH|els IH|p|i f cp IH|o st b IHo IHs] using tpath_ind';
    cbn [erase_tpath].
  - reflexivity.
  - rewrite !tpath_pty_TPath, map_map. f_equal. apply map_ext_Forall. exact IH.
  - cbn [tpath_pty]. rewrite IH. reflexivity.
  - cbn [tpath_pty]. rewrite IH. reflexivity.
  - rewrite !tpath_pty_TTuple, map_map. f_equal. apply map_ext_Forall. exact IH.
  - reflexivity.
  - cbn [tpath_pty]. rewrite IH. reflexivity.
  - cbn [tpath_pty]. rewrite IHo, IHs. reflexivity.
Qed.

Section Reading.
  Variable defs : list sdef.
  Variable s : settings.
  Variable otp : bool -> tpath.
  Hypothesis Hrender : render_okb s defs = true.

  Let alloc := alloc_segs s.
  Let cpt := segs_lead_of (opt_toks (s_compact s)).
  Let bts := segs_lead_of (opt_toks (s_bits s)).
  Let ord := fun lsb : bool => tpath_pty alloc (otp lsb).
  Let sp := src_pty defs (s_root s) alloc cpt bts ord.
  Let tp := fun t => tpath_pty alloc (src_tpath defs s otp false t).

  Lemma render_facts :
    alloc_tokens (s_alloc s) = abs_path alloc /\ segs_ok alloc = true /\ String.eqb (s_root s) ":" = false /\
    forall d, In d defs -> segs_ok (sd_path d) = true.
  Proof.
    unfold render_okb in Hrender. apply andb_prop in Hrender as [H H4]. apply andb_prop in H as [H H3].
    apply andb_prop in H as [H1 H2]. apply negb_true_iff in H3.
    apply (list_eqb_sound String.eqb) in H1; [|intros x y; apply String.eqb_eq].
    rewrite forallb_forall in H4. auto.
  Qed.

  Lemma alloc_toks_pty l args : segs_ok l = true -> l <> [] ->
    toks_pty (alloc_tokens (s_alloc s) ++ abs_path l) args = abs_p (alloc ++ l) args.
  Proof.
    intros Hl Hne. destruct render_facts as (Ha & Hs & _). rewrite Ha, <- abs_path_app.
    apply toks_pty_abs; [rewrite segs_ok_app, Hs, Hl; reflexivity|].
    destruct alloc; [exact Hne|discriminate].
  Qed.

  Lemma src_pty_app d xs :
    sp (SApp d xs) =
    let p := match nth_error defs d with Some sd => sd_path sd | None => [] end in
    PPath false (map (fun x => (x, [])) (s_root s :: removelast p) ++ [(last p "", map sp (live_args defs d xs))]).
  Proof.
    rewrite live_args_go. unfold sp. cbn [src_pty]. cbv zeta. f_equal. f_equal. f_equal. f_equal.
    generalize (match nth_error defs d with Some sd => map snd (sd_params sd) | None => [] end).
    induction xs as [|x xs IH]; intros sk; [destruct sk; reflexivity|].
    destruct sk as [|[|] sk]; cbn [live_go map]; rewrite ?IH; reflexivity.
  Qed.

  Lemma src_pty_tup xs : sp (STup xs) = PTuple (map sp xs).
  Proof.
    reflexivity.
  Qed.

  (** WP1(c): the normalised path of a source type reads as [src_pty] of the source type *)
  Lemma tpath_pty_src_n : forall n t, (src_size t <= n)%nat -> apps_okb defs t = true -> tp t = sp t.
  Proof.
    destruct render_facts as (Ha & Hs & Hroot & Hdefs).
    induction n as [|n IH]; intros t Hsz Hok; [destruct t; cbn [src_size] in Hsz; lia|].
    assert (Hlist : forall l, (sizes l <= n)%nat -> forallb (apps_okb defs) l = true ->
              map (tpath_pty alloc) (map (src_tpath defs s otp false) l) = map sp l).
    { intros l Hl Hf. rewrite map_map. apply map_ext_in. intros x Hx. rewrite forallb_forall in Hf.
      apply (IH x); [pose proof (sizes_In _ _ Hx); lia|auto]. }
    unfold tp.
    destruct t as [i|d' xs|x|x|len x|xs|p|x|x|x|a b|a b|x|x|x|st lsb]; cbn [src_size] in Hsz; cbn [apps_okb] in Hok.
    - reflexivity.
    - apply andb_prop in Hok as [Hd Hxs]. rewrite src_tpath_app', tpath_pty_TPath, src_pty_app. cbv zeta.
      destruct (nth_error defs d') as [sd|] eqn:Esd; [|discriminate].
      destruct (sd_path sd) as [|pa pl] eqn:Ep; [discriminate|].
      assert (Hseg : segs_ok (s_root s :: pa :: pl) = true).
      { change (segs_ok (s_root s :: pa :: pl)) with (negb (String.eqb (s_root s) ":") && segs_ok (pa :: pl)).
        rewrite Hroot. cbn [negb andb]. rewrite <- Ep.
        apply (Hdefs sd). eapply nth_error_In; eauto. }
      unfold toks_pty. rewrite (toks_to_segs_rel _ _ Hseg).
      cbn [rel_path]. rewrite (toks_leading_cons _ _ Hroot).
      change (removelast (s_root s :: pa :: pl)) with (s_root s :: removelast (pa :: pl)).
      change (last (s_root s :: pa :: pl) "") with (last (pa :: pl) "").
      f_equal. f_equal. f_equal. f_equal.
      rewrite map_map. apply map_ext_in. intros x Hx. apply live_args_incl in Hx.
      rewrite forallb_forall in Hxs. change (S (sizes xs) <= S n)%nat in Hsz.
      apply (IH x); [pose proof (sizes_In _ _ Hx); lia|auto].
    - cbn [src_tpath tpath_pty]. fold (tp x). rewrite (IH x) by (lia || assumption). reflexivity.
    - cbn [src_tpath tpath_pty]. fold (tp x). rewrite (IH x) by (lia || assumption). reflexivity.
    - cbn [src_tpath tpath_pty]. fold (tp x). rewrite (IH x) by (lia || assumption). reflexivity.
    - rewrite src_tpath_tup, tpath_pty_TTuple, src_pty_tup. f_equal. change (S (sizes xs) <= S n)%nat in Hsz.
      apply Hlist; [lia|exact Hok].
    - reflexivity.
    - cbn [src_tpath tpath_pty]. fold (tp x). rewrite (IH x) by (lia || assumption). reflexivity.
    - cbn [src_tpath]. fold (tp x). rewrite (IH x) by (lia || assumption). reflexivity.
    - cbn [src_tpath]. rewrite tpath_pty_TPath. cbn [map]. fold (tp x). rewrite (IH x) by (lia || assumption).
      rewrite toks_pty_abs by (reflexivity || discriminate). reflexivity.
    - apply andb_prop in Hok as [Hoa Hob].
      cbn [src_tpath]. rewrite tpath_pty_TPath. cbn [map]. fold (tp a). fold (tp b).
      rewrite (IH a), (IH b) by (lia || assumption).
      rewrite toks_pty_abs by (reflexivity || discriminate). reflexivity.
    - apply andb_prop in Hok as [Hoa Hob].
      cbn [src_tpath]. rewrite tpath_pty_TPath. cbn [map]. fold (tp a). fold (tp b).
      rewrite (IH a), (IH b) by (lia || assumption).
      rewrite alloc_toks_pty by (reflexivity || discriminate). reflexivity.
    - cbn [src_tpath]. rewrite tpath_pty_TPath. cbn [map]. fold (tp x). rewrite (IH x) by (lia || assumption).
      rewrite alloc_toks_pty by (reflexivity || discriminate). reflexivity.
    - cbn [src_tpath]. fold (tp x). rewrite (IH x) by (lia || assumption). reflexivity.
    - cbn [src_tpath]. rewrite tpath_pty_TPath. cbn [map]. fold (tp x). rewrite (IH x) by (lia || assumption).
      rewrite toks_pty_abs by (reflexivity || discriminate). reflexivity.
    - reflexivity.
  Qed.

  Theorem tpath_pty_src t : apps_okb defs t = true ->
    tpath_pty alloc (src_tpath defs s otp false t) = sp t.
  Proof. intros H. apply (tpath_pty_src_n (src_size t) t (le_n _) H). Qed.

  (** at field level [is_field] only matters when a compact is reached through Box / Cow *)
  Lemma src_tpath_isf : forall t, match peel t with SCompactT _ => False | _ => True end ->
    src_tpath defs s otp true t = src_tpath defs s otp false t.
  Proof.
    induction t; intros H; cbn [peel] in H; try reflexivity.
    - destruct H.
    - cbn [src_tpath]. apply IHt. exact H.
    - cbn [src_tpath]. apply IHt. exact H.
  Qed.

  Lemma apps_okb_compact t : apps_okb defs (SCompactT t) = apps_okb defs t.
  Proof. reflexivity. Qed.

  (** a normalised field reads as [field_pty] of the source field *)
  Theorem field_reading (f : sfield) :
    apps_okb defs (sf_ty f) = true -> field_conv_okb f = true ->
    fi_pty alloc (normal_field defs s otp f) = field_pty defs (s_root s) alloc cpt bts ord f.
  Proof.
    intros Hok Hconv. unfold fi_pty, normal_field, field_pty. cbn [fi_path fi_boxed].
    fold sp.
    assert (E : tpath_pty alloc (src_tpath defs s otp true (if sf_compact_attr f then SCompactT (sf_ty f) else sf_ty f)) =
                match sf_ty f with
                | SCompactT t => sp t
                | SCow (SCompactT t) => sp t
                | t => sp t
                end); [|rewrite E; reflexivity].
    unfold field_conv_okb in Hconv. apply andb_prop in Hconv as [Hconv _]. unfold field_conv_core in Hconv.
    destruct (sf_compact_attr f) eqn:Eca.
    - (* attribute: the inner type is the field type *)
      cbn [src_tpath tpath_pty]. rewrite (tpath_pty_src _ Hok).
      destruct (sf_ty f) as [| | | | | | | | | | | | |x| |]; try reflexivity; try discriminate Hconv.
      destruct x; try reflexivity; discriminate Hconv.
    - destruct (sf_ty f) as [i|d' xs|x|x|len x|xs|p|x|x|x|a b|a b|x|x|x|st lsb] eqn:Ety;
        try (rewrite src_tpath_isf by (cbn [peel]; exact I); apply tpath_pty_src; exact Hok).
      + cbn [src_tpath tpath_pty]. apply tpath_pty_src. exact Hok.
      + rewrite src_tpath_isf; [apply tpath_pty_src; exact Hok|].
        cbn [peel] in Hconv |- *. destruct (peel x); try exact I; discriminate Hconv.
      + destruct x as [i|d' xs|x|x|len x|xs|p|x|x|x|a b|a b|x|x|x|st lsb];
          try (rewrite src_tpath_isf by (cbn [peel]; exact I); apply tpath_pty_src; exact Hok).
        * cbn [src_tpath tpath_pty]. apply tpath_pty_src. exact Hok.
        * rewrite src_tpath_isf; [apply tpath_pty_src; exact Hok|].
          cbn [peel] in Hconv |- *. destruct (peel x); try exact I; discriminate Hconv.
        * rewrite src_tpath_isf; [apply tpath_pty_src; exact Hok|].
          cbn [peel] in Hconv |- *. destruct (peel x); try exact I; discriminate Hconv.
  Qed.
End Reading.

Lemma Forall2_impl_In {A B} (R R' : A -> B -> Prop) la lb :
  (forall a b, In a la -> R a b -> R' a b) -> Forall2 R la lb -> Forall2 R' la lb.
Proof.
  intros H H2. induction H2 as [|a b la lb Hab _ IH]; constructor.
  - apply H; [left; reflexivity|exact Hab].
  - apply IH. intros a' b' Ha'. apply H. right; exact Ha'.
Qed.

Lemma fi_pty_erase alloc fi : fi_pty alloc (erase_fi fi) = fi_pty alloc fi.
Proof. unfold fi_pty, erase_fi. cbn [fi_path fi_boxed]. rewrite tpath_pty_erase. reflexivity. Qed.

(** the fields of the IR of an instantiation, read as parsed types, are [field_pty] of the source fields *)
Theorem fields_read_as_source defs L r s (otp : bool -> tpath) :
  RegistryOf defs L r -> (forall sd, In sd defs -> def_okb s sd = true) ->
  prelude_okb s = true -> order_resolves s otp -> render_okb s defs = true ->
  forall d sd args, nth_error defs d = Some sd ->
  instantiation_cf defs sd args = true -> map canon args = args ->
  forallb (fun f => no_cow_cow (sf_ty f)) (def_sfields sd) = true ->
  compact_fields_okb defs sd args = true -> box_names_okb defs sd = true ->
  forallb (fun f => apps_okb defs (sf_ty f) && field_conv_okb f) (def_sfields sd) = true ->
  forall t, entry_of defs L r (SApp d args) t ->
  forall flat ir, create_type_ir r s t flat = Ok (Some ir) ->
  Forall2 (fun sf fi =>
             fi_pty (alloc_segs s) fi =
             field_pty defs (s_root s) (alloc_segs s) (segs_lead_of (opt_toks (s_compact s)))
                       (segs_lead_of (opt_toks (s_bits s))) (fun lsb => tpath_pty (alloc_segs s) (otp lsb)) sf)
          (def_sfields sd) (kind_fields (ti_kind ir)).
Proof.
  intros HR Hdefs Hprel Hord Hrender d sd args Hsd Hcf Hcan Hfrag Hco Hbox Hconv t Hent flat ir Hc.
  destruct (skeleton_is_source defs L r s otp HR Hdefs Hprel Hord d sd args Hsd Hcf Hcan Hfrag Hco Hbox t Hent flat ir Hc)
    as (_ & Hfields).
  rewrite forallb_forall in Hconv.
  eapply Forall2_impl_In; [|exact Hfields]. intros sf fi Hin H. cbv beta in H.
  destruct (andb_prop _ _ (Hconv sf Hin)) as [Ha Hb].
  rewrite <- fi_pty_erase, H. apply field_reading; assumption.
Qed.
