(** C17 for same-path families and recursive derives.

    1. the item tokens are a function of the id-erased IR, the docs and the derive TOKENS;
    2. what [create_type_ir] puts into docs and derives;
    3. [collect_ids] commutes with a renumbering (exactly: the traversal order is the same);
    4. set semantics of [flatten] and its invariance under renumbering;
    5. [permutation_tokens]: renumbering leaves the emitted module token-identical for
       skeleton- and docs-consistent registries, recursive derives included. *)
From Coq Require Import List NArith String Bool Lia Permutation.
From V Require Import Base.Util Base.Strings Base.Result Model.Registry Model.Settings Model.Subst
  Model.TypePath Model.Derives Model.Generate Model.Emit Model.Equal Model.Shape Model.Switches
  Model.Renumber Model.Families
  Proofs.GenProofs Proofs.TpMap Proofs.ItemsCanonical Proofs.RenumberPerm Proofs.SortDedup
  Proofs.FidelityGen Proofs.ShapeBool Proofs.GenTotal Proofs.Equivariance.
Import ListNotations.
Open Scope string_scope. Open Scope list_scope.

(** ** 1. tokens of an item from its erased IR, docs and derive tokens *)
Lemma tp_tokens_erase alloc t : tp_tokens alloc (erase_tpath t) = tp_tokens alloc t.
Proof.
  induction t as [p|ptoks params IH|o IH|len o IH|els IH|p|i f cp IH|o st b IHo IHs]
                 using tpath_ind'; cbn [erase_tpath].
  - reflexivity.
  - rewrite !tp_tokens_TPath, (mapM_map_same _ _ _ IH). reflexivity.
  - rewrite !tp_tokens_TVec, IH. reflexivity.
  - rewrite !tp_tokens_TArray, IH. reflexivity.
  - rewrite !tp_tokens_TTuple, (mapM_map_same _ _ _ IH). reflexivity.
  - reflexivity.
  - rewrite !tp_tokens_TCompact, IH. reflexivity.
  - rewrite !tp_tokens_TBitVec, IHo, IHs. reflexivity.
Qed.

Lemma is_uint_erase t : is_uint_up_to_u128 (erase_tpath t) = is_uint_up_to_u128 t.
Proof. destruct t; reflexivity. Qed.

Lemma could_derive_erase k : could_derive_as_compact (erase_ckind k) = could_derive_as_compact k.
Proof.
  destruct k as [|[|[n f] [|]]|[|f [|]]]; try reflexivity;
    cbn [erase_ckind map could_derive_as_compact snd erase_fi fi_path]; apply is_uint_erase.
Qed.

Section EraseTokens.
  Variable s : settings.

  Lemma field_tokens_erase f : field_tokens s (erase_fi f) = field_tokens s f.
  Proof. unfold field_tokens. cbn [erase_fi fi_path fi_boxed]. rewrite tp_tokens_erase. reflexivity. Qed.

  Lemma names_erase (l : list tparam_ir) :
    map (fun p => [tpi_name p]) (map erase_tpi l) = map (fun p => [tpi_name p]) l.
  Proof. rewrite map_map. apply map_ext. intros p. reflexivity. Qed.

  Lemma type_params_tokens_erase ps : type_params_tokens (map erase_tpi ps) = type_params_tokens ps.
  Proof.
    destruct ps as [|p ps]; [reflexivity|]. unfold type_params_tokens.
    change (map erase_tpi (p :: ps)) with (erase_tpi p :: map erase_tpi ps) at 1.
    cbv iota. rewrite names_erase. reflexivity.
  Qed.

  Lemma phantom_tokens_erase u : phantom_tokens (map erase_tpi u) = phantom_tokens u.
  Proof.
    destruct u as [|p [|q u]]; [reflexivity|reflexivity|].
    unfold phantom_tokens.
    change (map erase_tpi (p :: q :: u)) with (erase_tpi p :: erase_tpi q :: map erase_tpi u) at 1.
    cbv iota.
    change (erase_tpi p :: erase_tpi q :: map erase_tpi u) with (map erase_tpi (p :: q :: u)).
    rewrite names_erase. reflexivity.
  Qed.

  Lemma struct_field_tokens_erase k ph c :
    struct_field_tokens s (erase_ckind k) ph c = struct_field_tokens s k ph c.
  Proof.
    destruct k as [|fs|fs]; [reflexivity| |]; unfold struct_field_tokens; cbn [erase_ckind].
    - rewrite mapM_map_same; [reflexivity|].
      apply Forall_forall. intros [name f] _. cbn [fst snd]. rewrite field_tokens_erase. reflexivity.
    - rewrite mapM_map_same; [reflexivity|].
      apply Forall_forall. intros f _. rewrite field_tokens_erase. reflexivity.
  Qed.

  Lemma enum_field_tokens_erase k c :
    enum_field_tokens s (erase_ckind k) c = enum_field_tokens s k c.
  Proof.
    destruct k as [|fs|fs]; [reflexivity| |]; unfold enum_field_tokens; cbn [erase_ckind].
    - rewrite mapM_map_same; [reflexivity|].
      apply Forall_forall. intros [name f] _. cbn [fst snd]. rewrite field_tokens_erase. reflexivity.
    - rewrite mapM_map_same; [reflexivity|].
      apply Forall_forall. intros f _. rewrite field_tokens_erase. reflexivity.
  Qed.

  Definition semi_of (k : ckind) : tokens :=
    match k with CNoFields | CUnnamed _ => [";"] | CNamed _ => [] end.
  Lemma semi_of_erase k : semi_of (erase_ckind k) = semi_of k.
  Proof. destruct k; reflexivity. Qed.

  Lemma maps_Forall2 {A B C} (E : A -> B) (D : A -> C) : forall la lb,
    map E la = map E lb -> map D la = map D lb ->
    Forall2 (fun x y => E x = E y /\ D x = D y) la lb.
  Proof.
    induction la as [|a la IH]; intros [|b lb] H1 H2; cbn [map] in *; try discriminate; constructor.
    - inversion H1; inversion H2; auto.
    - inversion H1; inversion H2; auto.
  Qed.

  (** the item tokens are determined by the erased IR, the docs and the derive tokens *)
  Theorem type_ir_tokens_skel a b :
    erase_ids a = erase_ids b -> ir_docs a = ir_docs b ->
    derives_tokens (ti_derives a) = derives_tokens (ti_derives b) ->
    type_ir_tokens s a = type_ir_tokens s b.
  Proof.
    destruct a as [pa ua da ca ka], b as [pb ub db cb kb].
    unfold erase_ids, ir_docs. cbn [ti_params ti_unused ti_derives ti_codec ti_kind].
    intros He Hd Hdt. inversion He as [[Hp Hu Hc Hk]]. subst cb. clear He.
    unfold type_ir_tokens. cbn [ti_params ti_unused ti_derives ti_codec ti_kind].
    rewrite Hdt.
    rewrite <- (type_params_tokens_erase pa), <- (type_params_tokens_erase pb), Hp.
    rewrite <- (phantom_tokens_erase ua), <- (phantom_tokens_erase ub), Hu.
    destruct ka as [c1|n1 d1 v1], kb as [c2|n2 d2 v2]; cbn [erase_kind] in Hk; try discriminate.
    - inversion Hk as [[Hn Hkk]]. inversion Hd as [Hdocs].
      change (match ci_kind c1 with CNoFields | CUnnamed _ => [";"] | CNamed _ => [] end)
        with (semi_of (ci_kind c1)).
      change (match ci_kind c2 with CNoFields | CUnnamed _ => [";"] | CNamed _ => [] end)
        with (semi_of (ci_kind c2)).
      rewrite <- (struct_field_tokens_erase (ci_kind c1)), <- (struct_field_tokens_erase (ci_kind c2)).
      rewrite <- (semi_of_erase (ci_kind c1)), <- (semi_of_erase (ci_kind c2)).
      rewrite Hkk, Hn, Hdocs. reflexivity.
    - inversion Hk as [[Hn Hv]]. inversion Hd as [[Hdocs Hvd]]. subst n2 d2.
      rewrite (mapM_Forall2_ext
                 (fun x y : N * composite_ir =>
                    (fst x, erase_ci (snd x)) = (fst y, erase_ci (snd y)) /\
                    ci_docs (snd x) = ci_docs (snd y))
                 _ (fun '(idx, c) =>
                      let* fields := enum_field_tokens s (ci_kind c) ca in
                      Ok ((if ca then codec_index idx else []) ++
                          doc_tokens (ci_docs c) ++ [ci_name c] ++ fields ++ [","])) v1 v2).
      + reflexivity.
      + intros [i1 x1] [i2 x2] [H1 H2]. cbn [fst snd] in H1, H2.
        inversion H1 as [[Hi Hn Hkk]]. subst i2.
        rewrite <- (enum_field_tokens_erase (ci_kind x1)), <- (enum_field_tokens_erase (ci_kind x2)).
        rewrite Hkk, Hn, H2. reflexivity.
      + apply maps_Forall2; assumption.
  Qed.
End EraseTokens.

(** ** 2. what [create_type_ir] records as docs and derives *)
Definition docs_spec (s : settings) (t : ty) : list string * list (list string) :=
  (docs_from_scale_info s (fst (entry_docs t)), map (docs_from_scale_info s) (snd (entry_docs t))).

Definition cdac_of (k : kind_ir) : bool :=
  match k with KStruct c => could_derive_as_compact (ci_kind c) | KEnum _ _ _ => false end.

Definition item_derives (s : settings) (flat : flat_registry) (key : string) (cdac : bool) : derives :=
  if cdac then add_as_compact s (resolve_derives flat key) else resolve_derives flat key.

Lemma variants_ir_docs r s params : forall vs u l u',
  Switches.variants_ir r s params vs u = Ok (l, u') ->
  map (fun x => ci_docs (snd x)) l = map (fun v => docs_from_scale_info s (v_docs v)) vs.
Proof.
  induction vs as [|v vs IH]; intros u l u' H; cbn [Switches.variants_ir] in H.
  - inversion H; subst. reflexivity.
  - apply bind_ok in H as (vn & _ & H). apply bind_ok in H as (ku & _ & H).
    apply bind_ok in H as ([l0 u0] & Hrest & H). inversion H; subst. cbn [map fst snd ci_docs].
    f_equal. eapply IH; exact Hrest.
Qed.

Lemma create_type_ir_facts r s t flat ir :
  create_type_ir r s t flat = Ok (Some ir) ->
  ir_docs ir = docs_spec s t /\
  exists key, syn_type_path_key (t_path t) = Ok key /\
              ti_derives ir = item_derives s flat key (cdac_of (ti_kind ir)).
Proof.
  rewrite Equivariance.create_type_ir_unfold.
  destruct (negb (is_composite_or_variant (t_def t))); [discriminate|].
  destruct (path_ident (t_path t)) as [nm|]; [|discriminate].
  intros H. apply bind_ok in H as (name & _ & H).
  apply bind_ok in H as ([[kind cdac] unused] & Hk & H).
  apply bind_ok in H as (d & Hd & H). inversion H; subst ir; clear H.
  unfold resolve_derives_for_type in Hd. apply bind_ok in Hd as (key & Hkey & Hd).
  inversion Hd; subst d; clear Hd.
  unfold ir_docs, docs_spec, entry_docs. cbn [ti_kind ti_derives fst snd].
  destruct (t_def t) as [fs|vs| | | | | |]; try discriminate.
  - apply bind_ok in Hk as (ku & _ & Hk). inversion Hk; subst. cbn [ci_docs map cdac_of ci_kind].
    split; [reflexivity|]. exists key. split; [exact Hkey|reflexivity].
  - apply bind_ok in Hk as ([l u] & Hv & Hk). inversion Hk; subst. cbn [fst cdac_of].
    split.
    + f_equal. rewrite (variants_ir_docs _ _ _ _ _ _ _ Hv), map_map. reflexivity.
    + exists key. split; [exact Hkey|reflexivity].
Qed.

Lemma cdac_of_erase k : cdac_of (erase_kind k) = cdac_of k.
Proof.
  destruct k as [c|n d vs]; [|reflexivity]. cbn [erase_kind cdac_of erase_ci ci_kind].
  apply could_derive_erase.
Qed.

(** ** 3. [collect_ids] commutes with a renumbering *)
Section Collect.
  Variable pi : N -> N.
  Variable r r' : registry.
  Hypothesis Hinj : forall i j, pi i = pi j -> i = j.
  Hypothesis Hres : forall id, resolve r' (pi id) = option_map (rename_ty pi) (resolve r id).

  Lemma mem_N_map_pi id vis : mem_N (pi id) (map pi vis) = mem_N id vis.
  Proof.
    unfold mem_N. induction vis as [|v vis IH]; [reflexivity|]. cbn [map existsb]. rewrite IH.
    f_equal. destruct (N.eqb_spec id v) as [->|Hne]; [apply N.eqb_refl|].
    apply N.eqb_neq. intros E. apply Hne. apply Hinj; exact E.
  Qed.

  Lemma def_ids_rename d : def_ids (rename_def pi d) = map pi (def_ids d).
  Proof.
    destruct d as [fs|vs|e|len e|ts|p|e|a b]; cbn [rename_def def_ids map]; try reflexivity.
    - rewrite !map_map. reflexivity.
    - induction vs as [|v vs IH]; [reflexivity|]. cbn [map flat_map]. rewrite IH, map_app.
      f_equal. cbn [rename_variant v_fields]. rewrite !map_map. reflexivity.
  Qed.

  Lemma param_ids_rename' t : param_ids (rename_ty pi t) = map pi (param_ids t).
  Proof.
    unfold param_ids, rename_ty. cbn [t_params].
    induction (t_params t) as [|p ps IH]; [reflexivity|]. cbn [map flat_map]. rewrite IH, map_app.
    f_equal. destruct p as [n [i|]]; reflexivity.
  Qed.

  Lemma collect_children_rename t : collect_children (rename_ty pi t) = map pi (collect_children t).
  Proof.
    unfold collect_children. rewrite param_ids_rename', map_app. f_equal.
    change (t_def (rename_ty pi t)) with (rename_def pi (t_def t)).
    destruct (t_def t) as [fs|vs|e|len e|ts|p|e|a b];
      try (cbn [rename_def]; rewrite <- def_ids_rename; reflexivity).
    reflexivity.
  Qed.

  Lemma rmap_bind {A B C} (f : B -> C) (x : result A) (g : A -> result B) :
    rmap f (bind x g) = bind x (fun a => rmap f (g a)).
  Proof. destruct x; reflexivity. Qed.

  Theorem collect_ids_equivariant : forall fuel id vis,
    collect_ids fuel r' (pi id) (map pi vis) = rmap (map pi) (collect_ids fuel r id vis).
  Proof.
    induction fuel as [|fuel IH]; intros id vis; [reflexivity|].
    rewrite !collect_ids_S, mem_N_map_pi, Hres.
    destruct (mem_N id vis); [reflexivity|].
    destruct (resolve r id) as [t|]; cbn [option_map]; [|reflexivity].
    rewrite collect_children_rename.
    change (pi id :: map pi vis) with (map pi (id :: vis)).
    generalize (id :: vis) as v. generalize (collect_children t) as l.
    induction l as [|c l IHl]; intros v; cbn [map collect_list]; [reflexivity|].
    rewrite IH. destruct (collect_ids fuel r c v) as [v'|e|m]; cbn [rmap bind]; try reflexivity.
    apply IHl.
  Qed.

  Theorem collect_type_ids_equivariant id :
    List.length r' = List.length r ->
    collect_type_ids r' (pi id) = rmap (map pi) (collect_type_ids r id).
  Proof.
    intros Hlen. unfold collect_type_ids. rewrite Hlen.
    exact (collect_ids_equivariant (S (List.length r)) id []).
  Qed.
End Collect.

(** ** 4. set semantics of [flatten] *)
Definition key_opt (t : ty) : option string :=
  match t_path t with [] => None | p => Some (path_key p) end.

Definition sget (m : list (string * derives)) (k : string) : derives :=
  match smap_get m k with Some d => d | None => derives_empty end.

Lemma syn_type_path_key_ok p k : syn_type_path_key p = Ok k -> k = path_key p.
Proof.
  unfold syn_type_path_key. destruct p as [|a p]; [discriminate|].
  destruct (forallb ident_okb (a :: p)); [|discriminate]. intros H; inversion H; reflexivity.
Qed.

Lemma flatten_keys_eq r keys :
  mapM flatten_key r = Ok keys -> keys = map (fun e => (fst e, key_opt (snd e))) r.
Proof.
  revert keys. induction r as [|[id t] r IH]; intros keys H.
  - inversion H; reflexivity.
  - rewrite mapM_cons in H. apply bind_ok in H as (y & Hy & H). apply bind_ok in H as (ys & Hys & H).
    inversion H; subst keys; clear H. cbn [map fst snd]. f_equal; [|apply IH; exact Hys].
    unfold flatten_key in Hy. unfold key_opt. destruct (t_path t) as [|a p].
    + inversion Hy; reflexivity.
    + apply bind_ok in Hy as (k & Hk & Hy). inversion Hy; subst y.
      rewrite (syn_type_path_key_ok _ _ Hk). reflexivity.
Qed.

Section FlatSem.
  Variable proj : derives -> list kt.
  Hypothesis proj_union : forall a b, proj (derives_union a b) = proj a ++ proj b.
  Hypothesis proj_empty : proj derives_empty = [].

  Lemma smap_extend_get m k d k' x :
    In x (proj (sget (smap_extend m k d) k')) <->
    In x (proj (sget m k')) \/ (k = k' /\ In x (proj d)).
  Proof.
    unfold sget. induction m as [|[k0 d0] m IH]; cbn [smap_extend smap_get].
    - destruct (String.eqb_spec k k') as [->|Hne].
      + rewrite proj_empty. cbn [In]. tauto.
      + rewrite proj_empty. cbn [In]. tauto.
    - destruct (String.eqb_spec k0 k) as [->|Hne]; cbn [smap_get].
      + destruct (String.eqb_spec k k') as [->|Hne'].
        * rewrite proj_union, in_app_iff. tauto.
        * tauto.
      + destruct (String.eqb_spec k0 k') as [->|Hne'].
        * split; [tauto|]. intros [H|[E _]]; [exact H|]. congruence.
        * exact IH.
  Qed.

  Lemma fold_extend_get (key_of : N -> option string) : forall acc m k x,
    In x (proj (sget (fold_left (fun m '(id, d) =>
                                   match key_of id with
                                   | Some k => smap_extend m k d
                                   | None => m
                                   end) acc m) k)) <->
    In x (proj (sget m k)) \/
    exists i d, In (i, d) acc /\ key_of i = Some k /\ In x (proj d).
  Proof.
    induction acc as [|[i0 d0] acc IH]; intros m k x; cbn [fold_left].
    - split; [tauto|]. intros [H|(i & d & [] & _)]. exact H.
    - rewrite IH. destruct (key_of i0) as [k0|] eqn:Ek.
      + rewrite smap_extend_get. split.
        * intros [[H|[E H]]|(i & d & Hin & Hk & Hx)].
          -- left; exact H.
          -- subst k0. right. exists i0, d0. split; [left; reflexivity|]. split; assumption.
          -- right. exists i, d. split; [right; exact Hin|]. split; assumption.
        * intros [H|(i & d & [E|Hin] & Hk & Hx)].
          -- left; left; exact H.
          -- inversion E; subst i d. left; right. split; [congruence|exact Hx].
          -- right. exists i, d. split; [exact Hin|]. split; assumption.
      + split.
        * intros [H|(i & d & Hin & Hk & Hx)]; [left; exact H|].
          right. exists i, d. split; [right; exact Hin|]. split; assumption.
        * intros [H|(i & d & [E|Hin] & Hk & Hx)]; [left; exact H| |].
          -- inversion E; subst i d. congruence.
          -- right. exists i, d. split; [exact Hin|]. split; assumption.
  Qed.

  Lemma resolve_derives_in f k x :
    In x (proj (resolve_derives f k)) <->
    In x (proj (fl_default f)) \/ In x (proj (sget (fl_specific f) k)).
  Proof.
    unfold resolve_derives, sget. destruct (smap_get (fl_specific f) k) as [d|].
    - rewrite proj_union, in_app_iff. tauto.
    - rewrite proj_empty. cbn [In]. tauto.
  Qed.

  Lemma flatten_go_in dr r : forall keys acc acc',
    flatten_go dr r keys acc = Ok acc' ->
    forall i d, In (i, d) acc' <->
      In (i, d) acc \/
      exists root kr ids, In (root, Some kr) keys /\ kmap_get (dr_recursive dr) kr = Some d /\
                          collect_type_ids r root = Ok ids /\ In i ids.
  Proof.
    induction keys as [|[id [k|]] keys IH]; intros acc acc' H i d; cbn [flatten_go] in H.
    - inversion H; subst. split; [tauto|]. intros [H0|(root & kr & ids & [] & _)]. exact H0.
    - destruct (kmap_get (dr_recursive dr) k) as [d0|] eqn:Ek.
      + apply bind_ok in H as (ids0 & Hc & H). rewrite (IH _ _ H i d). rewrite in_app_iff, in_map_iff.
        split.
        * intros [[H0|(i1 & E & Hi1)]|(root & kr & ids & Hin & Hk & Hcc & Hi)].
          -- left; exact H0.
          -- inversion E; subst i1 d0. right. exists id, k, ids0.
             split; [left; reflexivity|]. split; [exact Ek|]. split; assumption.
          -- right. exists root, kr, ids. split; [right; exact Hin|]. split; [exact Hk|]. split; assumption.
        * intros [H0|(root & kr & ids & [E|Hin] & Hk & Hcc & Hi)].
          -- left; left; exact H0.
          -- inversion E; subst root kr. left; right. exists i.
             assert (d0 = d) by congruence. assert (ids0 = ids) by congruence. subst. split; [reflexivity|exact Hi].
          -- right. exists root, kr, ids. split; [exact Hin|]. split; [exact Hk|]. split; assumption.
      + rewrite (IH _ _ H i d). split.
        * intros [H0|(root & kr & ids & Hin & Hk & Hcc & Hi)]; [left; exact H0|].
          right. exists root, kr, ids. split; [right; exact Hin|]. split; [exact Hk|]. split; assumption.
        * intros [H0|(root & kr & ids & [E|Hin] & Hk & Hcc & Hi)]; [left; exact H0| |].
          -- inversion E; subst root kr. congruence.
          -- right. exists root, kr, ids. split; [exact Hin|]. split; [exact Hk|]. split; assumption.
    - rewrite (IH _ _ H i d). split.
      + intros [H0|(root & kr & ids & Hin & Hk & Hcc & Hi)]; [left; exact H0|].
        right. exists root, kr, ids. split; [right; exact Hin|]. split; [exact Hk|]. split; assumption.
      + intros [H0|(root & kr & ids & [E|Hin] & Hk & Hcc & Hi)]; [left; exact H0| |].
        * inversion E.
        * right. exists root, kr, ids. split; [exact Hin|]. split; [exact Hk|]. split; assumption.
  Qed.

  (** the derives a path receives from the recursive rules: some root entry whose path has a
      recursive rule [d] reaches an entry with key [k] *)
  Definition rec_in (r : registry) (rec : kmap) (k : string) (x : kt) : Prop :=
    exists root troot kr d ids i ti,
      In (root, troot) r /\ key_opt troot = Some kr /\ kmap_get rec kr = Some d /\
      collect_type_ids r root = Ok ids /\ In i ids /\
      In (i, ti) r /\ key_opt ti = Some k /\ In x (proj d).

  Lemma find_id_entry (r : registry) id t :
    ids_consistent r = true -> In (id, t) r ->
    find (fun e : N * option string => N.eqb (fst e) id)
         (map (fun e : N * ty => (fst e, key_opt (snd e))) r) = Some (id, key_opt t).
  Proof.
    intros Hc Hin. pose proof (ids_consistent_In r id t Hc Hin) as Hres.
    assert (G : forall l : registry, (forall e, In e l -> In e r) -> In (id, t) l ->
              find (fun e : N * option string => N.eqb (fst e) id)
                   (map (fun e : N * ty => (fst e, key_opt (snd e))) l) = Some (id, key_opt t)).
    { induction l as [|[i0 t0] l IH]; intros Hsub Hl; [destruct Hl|]. cbn [map find fst snd].
      destruct (N.eqb_spec i0 id) as [->|Hne].
      - pose proof (ids_consistent_In r id t0 Hc (Hsub _ (or_introl eq_refl))) as Hres0.
        assert (t0 = t) by congruence. subst t0. reflexivity.
      - destruct Hl as [E|Hl]; [inversion E; congruence|].
        apply IH; [|exact Hl]. intros e He. apply Hsub. right; exact He. }
    apply G; [auto|exact Hin].
  Qed.

  Lemma find_id_some (r : registry) id i' ko :
    find (fun e : N * option string => N.eqb (fst e) id)
         (map (fun e : N * ty => (fst e, key_opt (snd e))) r) = Some (i', ko) ->
    i' = id /\ exists t, In (id, t) r /\ ko = key_opt t.
  Proof.
    intros H. apply find_some in H as [Hin Heq]. cbn [fst] in Heq. apply N.eqb_eq in Heq. subst i'.
    split; [reflexivity|]. apply in_map_iff in Hin as ([i0 t0] & E & Hin). cbn [fst snd] in E.
    inversion E; subst. exists t0. split; [exact Hin|reflexivity].
  Qed.

  Theorem flatten_sem dr r flat :
    ids_consistent r = true -> flatten dr r = Ok flat ->
    forall k x,
      In x (proj (resolve_derives flat k)) <->
      In x (proj (dr_default dr)) \/ In x (proj (sget (flat_of_specific (dr_specific dr)) k)) \/
      rec_in r (dr_recursive dr) k x.
  Proof.
    intros Hc Hf k x. rewrite flatten_eq in Hf. rewrite resolve_derives_in.
    destruct (dr_recursive dr) as [|x0 rec0] eqn:Erec.
    - inversion Hf; subst flat. cbn [fl_default fl_specific]. split; [tauto|].
      intros [H|[H|(root & troot & kr & d & ids & i & ti & _ & _ & Hk & _)]]; [tauto|tauto|].
      cbn in Hk. discriminate.
    - rewrite <- Erec in *. clear Erec x0 rec0.
      apply bind_ok in Hf as (keys & Hkeys & Hf). apply bind_ok in Hf as (acc & Hacc & Hf).
      inversion Hf; subst flat; clear Hf. cbn [fl_default fl_specific].
      apply flatten_keys_eq in Hkeys. subst keys.
      rewrite fold_extend_get.
      assert (Hrec : (exists i d, In (i, d) acc /\
                        match find (fun e : N * option string => N.eqb (fst e) i)
                                   (map (fun e : N * ty => (fst e, key_opt (snd e))) r) with
                        | Some (_, k0) => k0 | None => None end = Some k /\ In x (proj d)) <->
                     rec_in r (dr_recursive dr) k x).
      { split.
        - intros (i & d & Hin & Hk & Hx).
          apply (flatten_go_in dr r _ _ _ Hacc) in Hin as [[]|(root & kr & ids & Hroot & Hkr & Hcc & Hi)].
          apply in_map_iff in Hroot as ([root0 troot] & E & Hroot). cbn [fst snd] in E.
          inversion E; subst root0.
          destruct (find _ _) as [[i' ko]|] eqn:F; [|discriminate]. subst ko.
          apply find_id_some in F as (_ & ti & Hti & Hko).
          exists root, troot, kr, d, ids, i, ti. repeat split; auto.
        - intros (root & troot & kr & d & ids & i & ti & Hroot & Hkr & Hd & Hcc & Hi & Hti & Hk & Hx).
          exists i, d. split; [|split; [|exact Hx]].
          + apply (flatten_go_in dr r _ _ _ Hacc). right. exists root, kr, ids.
            split; [|split; [exact Hd|split; assumption]].
            apply in_map_iff. exists (root, troot). cbn [fst snd]. split; [rewrite Hkr; reflexivity|exact Hroot].
          + rewrite (find_id_entry r i ti Hc Hti). exact Hk. }
      rewrite Hrec. tauto.
  Qed.

  (** every derive a type can receive is one of the settings' derives *)
  Lemma kmap_get_in (m : kmap) k d : kmap_get m k = Some d -> exists k', In (k', d) m.
  Proof.
    induction m as [|[k0 d0] m IH]; cbn [kmap_get]; [discriminate|].
    destruct (String.eqb (k_key k0) k).
    - intros H; inversion H; subst. exists k0. left; reflexivity.
    - intros H. destruct (IH H) as (k' & Hin). exists k'. right; exact Hin.
  Qed.

  Lemma smap_get_flat_in (m : kmap) k d :
    smap_get (flat_of_specific m) k = Some d -> exists k', In (k', d) m.
  Proof.
    induction m as [|[k0 d0] m IH]; cbn [flat_of_specific map smap_get]; [discriminate|].
    destruct (String.eqb (k_key k0) k).
    - intros H; inversion H; subst. exists k0. left; reflexivity.
    - intros H. destruct (IH H) as (k' & Hin). exists k'. right; exact Hin.
  Qed.

  Lemma in_kmap_all (m : kmap) k d x : In (k, d) m -> In x (proj d) -> In x (kmap_all proj m).
  Proof.
    intros Hin Hx. unfold kmap_all. apply in_flat_map. exists (k, d). split; [exact Hin|exact Hx].
  Qed.

  Lemma flatten_sub s r flat k x :
    ids_consistent r = true -> flatten (s_dreg s) r = Ok flat ->
    In x (proj (resolve_derives flat k)) -> In x (all_of proj s).
  Proof.
    intros Hc Hf Hx. apply (flatten_sem _ _ _ Hc Hf) in Hx. unfold all_of. rewrite !in_app_iff.
    destruct Hx as [H|[H|(root & troot & kr & d & ids & i & ti & _ & _ & Hk & _ & _ & _ & _ & Hx)]].
    - left; exact H.
    - right; left. unfold sget in H.
      destruct (smap_get (flat_of_specific (dr_specific (s_dreg s))) k) as [d|] eqn:E.
      + destruct (smap_get_flat_in _ _ _ E) as (k' & Hin). eapply in_kmap_all; eauto.
      + rewrite proj_empty in H. destruct H.
    - right; right. destruct (kmap_get_in _ _ _ Hk) as (k' & Hin). eapply in_kmap_all; eauto.
  Qed.
End FlatSem.
