(** C17 for same-path families and recursive derives.

    1. the item tokens are a function of the id-erased IR, the docs and the derive TOKENS;
    2. what [create_type_ir] puts into docs and derives;
    3. [collect_ids] commutes with a renumbering (exactly: the traversal order is the same);
    4. set semantics of [flatten] and its invariance under renumbering;
    5. [permutation_tokens]: renumbering leaves the emitted module token-identical for
       skeleton- and docs-consistent registries, recursive derives included. *)
From Coq Require Import List NArith String Bool Lia Permutation.
From V Require Import Base.Util Base.Strings Base.Result Model.Registry Model.Settings Model.Subst
  Model.TypePath Model.Derives Model.Generate Model.Emit Model.Equal Model.Shape Model.Switches
  Model.Renumber Model.Families
  Proofs.GenProofs Proofs.TpMap Proofs.ItemsCanonical Proofs.RenumberPerm Proofs.SortDedup
  Proofs.FidelityGen Proofs.ShapeBool Proofs.GenTotal Proofs.Equivariance.
From V Require Import Proofs.SynKey.
Import ListNotations.
Open Scope string_scope. Open Scope list_scope.

(** ** 1. tokens of an item from its erased IR, docs and derive tokens *)
Lemma tuple_or_array_erase t :
  WellFormed.tuple_or_array (erase_tpath t) = WellFormed.tuple_or_array t.
Proof. destruct t; reflexivity. Qed.

Lemma tp_tokens_erase alloc t : tp_tokens alloc (erase_tpath t) = tp_tokens alloc t.
Proof.
  induction t as [p|ptoks params IH|o IH|len o IH|els IH|p|i f cp IH|o st b IHo IHs]
                 using tpath_ind'; cbn [erase_tpath].
  - reflexivity.
  - rewrite !tp_tokens_TPath, (mapM_map_same _ _ _ IH). reflexivity.
  - rewrite !tp_tokens_TVec, IH. reflexivity.
  - rewrite !tp_tokens_TArray, IH. reflexivity.
  - rewrite !tp_tokens_TTuple, (mapM_map_same _ _ _ IH). reflexivity.
  - reflexivity.
  - rewrite !tp_tokens_TCompact, IH, tuple_or_array_erase. reflexivity.
  - rewrite !tp_tokens_TBitVec, IHo, IHs. reflexivity.
Qed.

Lemma is_uint_erase t : is_uint_up_to_u128 (erase_tpath t) = is_uint_up_to_u128 t.
Proof. destruct t; reflexivity. Qed.

Lemma could_derive_erase k : could_derive_as_compact (erase_ckind k) = could_derive_as_compact k.
Proof.
  destruct k as [|[|[n f] [|]]|[|f [|]]]; try reflexivity;
    cbn [erase_ckind map could_derive_as_compact snd erase_fi fi_path]; apply is_uint_erase.
Qed.

Section EraseTokens.
  Variable s : settings.

  Lemma field_tokens_erase f : field_tokens s (erase_fi f) = field_tokens s f.
  Proof. unfold field_tokens. cbn [erase_fi fi_path fi_boxed]. rewrite tp_tokens_erase. reflexivity. Qed.

  Lemma names_erase (l : list tparam_ir) :
    map (fun p => [tpi_name p]) (map erase_tpi l) = map (fun p => [tpi_name p]) l.
  Proof. rewrite map_map. apply map_ext. intros p. reflexivity. Qed.

  Lemma type_params_tokens_erase ps : type_params_tokens (map erase_tpi ps) = type_params_tokens ps.
  Proof.
    destruct ps as [|p ps]; [reflexivity|]. unfold type_params_tokens.
    change (map erase_tpi (p :: ps)) with (erase_tpi p :: map erase_tpi ps) at 1.
    cbv iota. rewrite names_erase. reflexivity.
  Qed.

  Lemma phantom_tokens_erase u : phantom_tokens (map erase_tpi u) = phantom_tokens u.
  Proof.
    destruct u as [|p [|q u]]; [reflexivity|reflexivity|].
    unfold phantom_tokens.
    change (map erase_tpi (p :: q :: u)) with (erase_tpi p :: erase_tpi q :: map erase_tpi u) at 1.
    cbv iota.
    change (erase_tpi p :: erase_tpi q :: map erase_tpi u) with (map erase_tpi (p :: q :: u)).
    rewrite names_erase. reflexivity.
  Qed.

  Lemma struct_field_tokens_erase k ph c :
    struct_field_tokens s (erase_ckind k) ph c = struct_field_tokens s k ph c.
  Proof.
    destruct k as [|fs|fs]; [reflexivity| |]; unfold struct_field_tokens; cbn [erase_ckind].
    - rewrite mapM_map_same; [reflexivity|].
      apply Forall_forall. intros [name f] _. cbn [fst snd]. rewrite field_tokens_erase. reflexivity.
    - rewrite mapM_map_same; [reflexivity|].
      apply Forall_forall. intros f _. rewrite field_tokens_erase. reflexivity.
  Qed.

  Lemma enum_field_tokens_erase k c :
    enum_field_tokens s (erase_ckind k) c = enum_field_tokens s k c.
  Proof.
    destruct k as [|fs|fs]; [reflexivity| |]; unfold enum_field_tokens; cbn [erase_ckind].
    - rewrite mapM_map_same; [reflexivity|].
      apply Forall_forall. intros [name f] _. cbn [fst snd]. rewrite field_tokens_erase. reflexivity.
    - rewrite mapM_map_same; [reflexivity|].
      apply Forall_forall. intros f _. rewrite field_tokens_erase. reflexivity.
  Qed.

  Definition semi_of (k : ckind) : tokens :=
    match k with CNoFields | CUnnamed _ => [";"] | CNamed _ => [] end.
  Lemma semi_of_erase k : semi_of (erase_ckind k) = semi_of k.
  Proof. destruct k; reflexivity. Qed.

  Lemma maps_Forall2 {A B C} (E : A -> B) (D : A -> C) : forall la lb,
    map E la = map E lb -> map D la = map D lb ->
    Forall2 (fun x y => E x = E y /\ D x = D y) la lb.
  Proof.
    induction la as [|a la IH]; intros [|b lb] H1 H2; cbn [map] in *; try discriminate; constructor.
    - inversion H1; inversion H2; auto.
    - inversion H1; inversion H2; auto.
  Qed.

  (** the item tokens are determined by the erased IR, the docs and the derive tokens *)
  Theorem type_ir_tokens_skel a b :
    erase_ids a = erase_ids b -> ir_docs a = ir_docs b ->
    derives_tokens (ti_derives a) = derives_tokens (ti_derives b) ->
    type_ir_tokens s a = type_ir_tokens s b.
  Proof.
    destruct a as [pa ua da ca ka], b as [pb ub db cb kb].
    unfold erase_ids, ir_docs. cbn [ti_params ti_unused ti_derives ti_codec ti_kind].
    intros He Hd Hdt. inversion He as [[Hp Hu Hc Hk]]. subst cb. clear He.
    unfold type_ir_tokens. cbn [ti_params ti_unused ti_derives ti_codec ti_kind].
    rewrite Hdt.
    rewrite <- (type_params_tokens_erase pa), <- (type_params_tokens_erase pb), Hp.
    rewrite <- (phantom_tokens_erase ua), <- (phantom_tokens_erase ub), Hu.
    destruct ka as [c1|n1 d1 v1], kb as [c2|n2 d2 v2]; cbn [erase_kind] in Hk; try discriminate.
    - inversion Hk as [[Hn Hkk]]. inversion Hd as [Hdocs].
      change (match ci_kind c1 with CNoFields | CUnnamed _ => [";"] | CNamed _ => [] end)
        with (semi_of (ci_kind c1)).
      change (match ci_kind c2 with CNoFields | CUnnamed _ => [";"] | CNamed _ => [] end)
        with (semi_of (ci_kind c2)).
      rewrite <- (struct_field_tokens_erase (ci_kind c1)), <- (struct_field_tokens_erase (ci_kind c2)).
      rewrite <- (semi_of_erase (ci_kind c1)), <- (semi_of_erase (ci_kind c2)).
      rewrite Hkk, Hn, Hdocs. reflexivity.
    - inversion Hk as [[Hn Hv]]. inversion Hd as [[Hdocs Hvd]]. subst n2 d2.
      rewrite (mapM_Forall2_ext
                 (fun x y : N * composite_ir =>
                    (fst x, erase_ci (snd x)) = (fst y, erase_ci (snd y)) /\
                    ci_docs (snd x) = ci_docs (snd y))
                 _ (fun '(idx, c) =>
                      let* fields := enum_field_tokens s (ci_kind c) ca in
                      Ok ((if ca then codec_index idx else []) ++
                          doc_tokens (ci_docs c) ++ [ci_name c] ++ fields ++ [","])) v1 v2).
      + reflexivity.
      + intros [i1 x1] [i2 x2] [H1 H2]. cbn [fst snd] in H1, H2.
        inversion H1 as [[Hi Hn Hkk]]. subst i2.
        rewrite <- (enum_field_tokens_erase (ci_kind x1)), <- (enum_field_tokens_erase (ci_kind x2)).
        rewrite Hkk, Hn, H2. reflexivity.
      + apply maps_Forall2; assumption.
  Qed.
End EraseTokens.

(** ** 2. what [create_type_ir] records as docs and derives *)
Definition docs_spec (s : settings) (t : ty) : list string * list (list string) :=
  (docs_from_scale_info s (fst (entry_docs t)), map (docs_from_scale_info s) (snd (entry_docs t))).

Definition cdac_of (k : kind_ir) : bool :=
  match k with KStruct c => could_derive_as_compact (ci_kind c) | KEnum _ _ _ => false end.

Definition item_derives (s : settings) (flat : flat_registry) (key : string) (cdac : bool) : derives :=
  if cdac then add_as_compact s (resolve_derives flat key) else resolve_derives flat key.

Lemma variants_ir_docs r s params : forall vs u l u',
  Switches.variants_ir r s params vs u = Ok (l, u') ->
  map (fun x => ci_docs (snd x)) l = map (fun v => docs_from_scale_info s (v_docs v)) vs.
Proof.
  induction vs as [|v vs IH]; intros u l u' H; cbn [Switches.variants_ir] in H.
  - inversion H; subst. reflexivity.
  - apply bind_ok in H as (vn & _ & H). apply bind_ok in H as (ku & _ & H).
    apply bind_ok in H as ([l0 u0] & Hrest & H). inversion H; subst. cbn [map fst snd ci_docs].
    f_equal. eapply IH; exact Hrest.
Qed.

Lemma create_type_ir_facts r s t flat ir :
  create_type_ir r s t flat = Ok (Some ir) ->
  ir_docs ir = docs_spec s t /\
  exists key, syn_type_path_key (t_path t) = Ok key /\
              ti_derives ir = item_derives s flat key (cdac_of (ti_kind ir)).
Proof.
  rewrite Equivariance.create_type_ir_unfold.
  destruct (negb (is_composite_or_variant (t_def t))); [discriminate|].
  destruct (path_ident (t_path t)) as [nm|]; [|discriminate].
  intros H. apply bind_ok in H as (name & _ & H).
  apply bind_ok in H as ([[kind cdac] unused] & Hk & H).
  apply bind_ok in H as (d & Hd & H). inversion H; subst ir; clear H.
  unfold resolve_derives_for_type in Hd. apply bind_ok in Hd as (key & Hkey & Hd).
  inversion Hd; subst d; clear Hd.
  unfold ir_docs, docs_spec, entry_docs. cbn [ti_kind ti_derives fst snd].
  destruct (t_def t) as [fs|vs| | | | | |]; try discriminate.
  - apply bind_ok in Hk as (ku & _ & Hk). inversion Hk; subst. cbn [ci_docs map cdac_of ci_kind].
    split; [reflexivity|]. exists key. split; [exact Hkey|reflexivity].
  - apply bind_ok in Hk as ([l u] & Hv & Hk). inversion Hk; subst. cbn [fst cdac_of].
    split.
    + f_equal. rewrite (variants_ir_docs _ _ _ _ _ _ _ Hv), map_map. reflexivity.
    + exists key. split; [exact Hkey|reflexivity].
Qed.

Lemma cdac_of_erase k : cdac_of (erase_kind k) = cdac_of k.
Proof.
  destruct k as [c|n d vs]; [|reflexivity]. cbn [erase_kind cdac_of erase_ci ci_kind].
  apply could_derive_erase.
Qed.

(** ** 3. [collect_ids] commutes with a renumbering *)
Section Collect.
  Variable pi : N -> N.
  Variable r r' : registry.
  Hypothesis Hinj : forall i j, pi i = pi j -> i = j.
  Hypothesis Hres : forall id, resolve r' (pi id) = option_map (rename_ty pi) (resolve r id).

  Lemma mem_N_map_pi id vis : mem_N (pi id) (map pi vis) = mem_N id vis.
  Proof.
    unfold mem_N. induction vis as [|v vis IH]; [reflexivity|]. cbn [map existsb]. rewrite IH.
    f_equal. destruct (N.eqb_spec id v) as [->|Hne]; [apply N.eqb_refl|].
    apply N.eqb_neq. intros E. apply Hne. apply Hinj; exact E.
  Qed.

  Lemma def_ids_rename d : def_ids (rename_def pi d) = map pi (def_ids d).
  Proof.
    destruct d as [fs|vs|e|len e|ts|p|e|a b]; cbn [rename_def def_ids map]; try reflexivity.
    - rewrite !map_map. reflexivity.
    - induction vs as [|v vs IH]; [reflexivity|]. cbn [map flat_map]. rewrite IH, map_app.
      f_equal. cbn [rename_variant v_fields]. rewrite !map_map. reflexivity.
  Qed.

  Lemma param_ids_rename' t : param_ids (rename_ty pi t) = map pi (param_ids t).
  Proof.
    unfold param_ids, rename_ty. cbn [t_params].
    induction (t_params t) as [|p ps IH]; [reflexivity|]. cbn [map flat_map]. rewrite IH, map_app.
    f_equal. destruct p as [n [i|]]; reflexivity.
  Qed.

  Lemma collect_children_rename t : collect_children (rename_ty pi t) = map pi (collect_children t).
  Proof.
    unfold collect_children. rewrite param_ids_rename', map_app. f_equal.
    change (t_def (rename_ty pi t)) with (rename_def pi (t_def t)).
    destruct (t_def t) as [fs|vs|e|len e|ts|p|e|a b];
      try (cbn [rename_def]; rewrite <- def_ids_rename; reflexivity).
    reflexivity.
  Qed.

  Lemma rmap_bind {A B C} (f : B -> C) (x : result A) (g : A -> result B) :
    rmap f (bind x g) = bind x (fun a => rmap f (g a)).
  Proof. destruct x; reflexivity. Qed.

  Theorem collect_ids_equivariant : forall fuel id vis,
    collect_ids fuel r' (pi id) (map pi vis) = rmap (map pi) (collect_ids fuel r id vis).
  Proof.
    induction fuel as [|fuel IH]; intros id vis; [reflexivity|].
    rewrite !collect_ids_S, mem_N_map_pi, Hres.
    destruct (mem_N id vis); [reflexivity|].
    destruct (resolve r id) as [t|]; cbn [option_map]; [|reflexivity].
    rewrite collect_children_rename.
    change (pi id :: map pi vis) with (map pi (id :: vis)).
    generalize (id :: vis) as v. generalize (collect_children t) as l.
    induction l as [|c l IHl]; intros v; cbn [map collect_list]; [reflexivity|].
    rewrite IH. destruct (collect_ids fuel r c v) as [v'|e|m]; cbn [rmap bind]; try reflexivity.
    apply IHl.
  Qed.

  Theorem collect_type_ids_equivariant id :
    List.length r' = List.length r ->
    collect_type_ids r' (pi id) = rmap (map pi) (collect_type_ids r id).
  Proof.
    intros Hlen. unfold collect_type_ids. rewrite Hlen.
    exact (collect_ids_equivariant (S (List.length r)) id []).
  Qed.
End Collect.

(** ** 4. set semantics of [flatten] *)
Definition key_opt (t : ty) : option string :=
  match t_path t with [] => None | p => Some (path_key p) end.

Definition sget (m : list (string * derives)) (k : string) : derives :=
  match smap_get m k with Some d => d | None => derives_empty end.

Lemma syn_type_path_key_ok p k : syn_type_path_key p = Ok k -> k = path_key p.
Proof. intros H. exact (proj2 (syn_key_ok_eq p k H)). Qed.

Lemma flatten_keys_eq r keys :
  mapM flatten_key r = Ok keys -> keys = map (fun e => (fst e, key_opt (snd e))) r.
Proof.
  revert keys. induction r as [|[id t] r IH]; intros keys H.
  - inversion H; reflexivity.
  - rewrite mapM_cons in H. apply bind_ok in H as (y & Hy & H). apply bind_ok in H as (ys & Hys & H).
    inversion H; subst keys; clear H. cbn [map fst snd]. f_equal; [|apply IH; exact Hys].
    unfold flatten_key in Hy. unfold key_opt. destruct (t_path t) as [|a p].
    + inversion Hy; reflexivity.
    + apply bind_ok in Hy as (k & Hk & Hy). inversion Hy; subst y.
      rewrite (syn_type_path_key_ok _ _ Hk). reflexivity.
Qed.

Section FlatSem.
  Variable proj : derives -> list kt.
  Hypothesis proj_union : forall a b, proj (derives_union a b) = proj a ++ proj b.
  Hypothesis proj_empty : proj derives_empty = [].

  Lemma smap_extend_get m k d k' x :
    In x (proj (sget (smap_extend m k d) k')) <->
    In x (proj (sget m k')) \/ (k = k' /\ In x (proj d)).
  Proof.
    unfold sget. induction m as [|[k0 d0] m IH]; cbn [smap_extend smap_get].
    - destruct (String.eqb_spec k k') as [->|Hne].
      + rewrite proj_empty. cbn [In]. tauto.
      + rewrite proj_empty. cbn [In]. tauto.
    - destruct (String.eqb_spec k0 k) as [->|Hne]; cbn [smap_get].
      + destruct (String.eqb_spec k k') as [->|Hne'].
        * rewrite proj_union, in_app_iff. tauto.
        * tauto.
      + destruct (String.eqb_spec k0 k') as [->|Hne'].
        * split; [tauto|]. intros [H|[E _]]; [exact H|]. congruence.
        * exact IH.
  Qed.

  Lemma fold_extend_get (key_of : N -> option string) : forall acc m k x,
    In x (proj (sget (fold_left (fun m '(id, d) =>
                                   match key_of id with
                                   | Some k => smap_extend m k d
                                   | None => m
                                   end) acc m) k)) <->
    In x (proj (sget m k)) \/
    exists i d, In (i, d) acc /\ key_of i = Some k /\ In x (proj d).
  Proof.
    induction acc as [|[i0 d0] acc IH]; intros m k x; cbn [fold_left].
    - split; [tauto|]. intros [H|(i & d & [] & _)]. exact H.
    - rewrite IH. destruct (key_of i0) as [k0|] eqn:Ek.
      + rewrite smap_extend_get. split.
        * intros [[H|[E H]]|(i & d & Hin & Hk & Hx)].
          -- left; exact H.
          -- subst k0. right. exists i0, d0. split; [left; reflexivity|]. split; assumption.
          -- right. exists i, d. split; [right; exact Hin|]. split; assumption.
        * intros [H|(i & d & [E|Hin] & Hk & Hx)].
          -- left; left; exact H.
          -- inversion E; subst i d. left; right. split; [congruence|exact Hx].
          -- right. exists i, d. split; [exact Hin|]. split; assumption.
      + split.
        * intros [H|(i & d & Hin & Hk & Hx)]; [left; exact H|].
          right. exists i, d. split; [right; exact Hin|]. split; assumption.
        * intros [H|(i & d & [E|Hin] & Hk & Hx)]; [left; exact H| |].
          -- inversion E; subst i d. congruence.
          -- right. exists i, d. split; [exact Hin|]. split; assumption.
  Qed.

  Lemma resolve_derives_in f k x :
    In x (proj (resolve_derives f k)) <->
    In x (proj (fl_default f)) \/ In x (proj (sget (fl_specific f) k)).
  Proof.
    unfold resolve_derives, sget. destruct (smap_get (fl_specific f) k) as [d|].
    - rewrite proj_union, in_app_iff. tauto.
    - rewrite proj_empty. cbn [In]. tauto.
  Qed.

  Lemma flatten_go_in dr r : forall keys acc acc',
    flatten_go dr r keys acc = Ok acc' ->
    forall i d, In (i, d) acc' <->
      In (i, d) acc \/
      exists root kr ids, In (root, Some kr) keys /\ kmap_get (dr_recursive dr) kr = Some d /\
                          collect_type_ids r root = Ok ids /\ In i ids.
  Proof.
    induction keys as [|[id [k|]] keys IH]; intros acc acc' H i d; cbn [flatten_go] in H.
    - inversion H; subst. split; [tauto|]. intros [H0|(root & kr & ids & [] & _)]. exact H0.
    - destruct (kmap_get (dr_recursive dr) k) as [d0|] eqn:Ek.
      + apply bind_ok in H as (ids0 & Hc & H). rewrite (IH _ _ H i d). rewrite in_app_iff, in_map_iff.
        split.
        * intros [[H0|(i1 & E & Hi1)]|(root & kr & ids & Hin & Hk & Hcc & Hi)].
          -- left; exact H0.
          -- inversion E; subst i1 d0. right. exists id, k, ids0.
             split; [left; reflexivity|]. split; [exact Ek|]. split; assumption.
          -- right. exists root, kr, ids. split; [right; exact Hin|]. split; [exact Hk|]. split; assumption.
        * intros [H0|(root & kr & ids & [E|Hin] & Hk & Hcc & Hi)].
          -- left; left; exact H0.
          -- inversion E; subst root kr. left; right. exists i.
             assert (d0 = d) by congruence. assert (ids0 = ids) by congruence. subst. split; [reflexivity|exact Hi].
          -- right. exists root, kr, ids. split; [exact Hin|]. split; [exact Hk|]. split; assumption.
      + rewrite (IH _ _ H i d). split.
        * intros [H0|(root & kr & ids & Hin & Hk & Hcc & Hi)]; [left; exact H0|].
          right. exists root, kr, ids. split; [right; exact Hin|]. split; [exact Hk|]. split; assumption.
        * intros [H0|(root & kr & ids & [E|Hin] & Hk & Hcc & Hi)]; [left; exact H0| |].
          -- inversion E; subst root kr. congruence.
          -- right. exists root, kr, ids. split; [exact Hin|]. split; [exact Hk|]. split; assumption.
    - rewrite (IH _ _ H i d). split.
      + intros [H0|(root & kr & ids & Hin & Hk & Hcc & Hi)]; [left; exact H0|].
        right. exists root, kr, ids. split; [right; exact Hin|]. split; [exact Hk|]. split; assumption.
      + intros [H0|(root & kr & ids & [E|Hin] & Hk & Hcc & Hi)]; [left; exact H0| |].
        * inversion E.
        * right. exists root, kr, ids. split; [exact Hin|]. split; [exact Hk|]. split; assumption.
  Qed.

  (** the derives a path receives from the recursive rules: some root entry whose path has a
      recursive rule [d] reaches an entry with key [k] *)
  Definition rec_in (r : registry) (rec : kmap) (k : string) (x : kt) : Prop :=
    exists root troot kr d ids i ti,
      In (root, troot) r /\ key_opt troot = Some kr /\ kmap_get rec kr = Some d /\
      collect_type_ids r root = Ok ids /\ In i ids /\
      In (i, ti) r /\ key_opt ti = Some k /\ In x (proj d).

  Lemma find_id_entry (r : registry) id t :
    ids_consistent r = true -> In (id, t) r ->
    find (fun e : N * option string => N.eqb (fst e) id)
         (map (fun e : N * ty => (fst e, key_opt (snd e))) r) = Some (id, key_opt t).
  Proof.
    intros Hc Hin. pose proof (ids_consistent_In r id t Hc Hin) as Hres.
    assert (G : forall l : registry, (forall e, In e l -> In e r) -> In (id, t) l ->
              find (fun e : N * option string => N.eqb (fst e) id)
                   (map (fun e : N * ty => (fst e, key_opt (snd e))) l) = Some (id, key_opt t)).
    { induction l as [|[i0 t0] l IH]; intros Hsub Hl; [destruct Hl|]. cbn [map find fst snd].
      destruct (N.eqb_spec i0 id) as [->|Hne].
      - pose proof (ids_consistent_In r id t0 Hc (Hsub _ (or_introl eq_refl))) as Hres0.
        assert (t0 = t) by congruence. subst t0. reflexivity.
      - destruct Hl as [E|Hl]; [inversion E; congruence|].
        apply IH; [|exact Hl]. intros e He. apply Hsub. right; exact He. }
    apply G; [auto|exact Hin].
  Qed.

  Lemma find_id_some (r : registry) id i' ko :
    find (fun e : N * option string => N.eqb (fst e) id)
         (map (fun e : N * ty => (fst e, key_opt (snd e))) r) = Some (i', ko) ->
    i' = id /\ exists t, In (id, t) r /\ ko = key_opt t.
  Proof.
    intros H. apply find_some in H as [Hin Heq]. cbn [fst] in Heq. apply N.eqb_eq in Heq. subst i'.
    split; [reflexivity|]. apply in_map_iff in Hin as ([i0 t0] & E & Hin). cbn [fst snd] in E.
    inversion E; subst. exists t0. split; [exact Hin|reflexivity].
  Qed.

  Theorem flatten_sem dr r flat :
    ids_consistent r = true -> flatten dr r = Ok flat ->
    forall k x,
      In x (proj (resolve_derives flat k)) <->
      In x (proj (dr_default dr)) \/ In x (proj (sget (flat_of_specific (dr_specific dr)) k)) \/
      rec_in r (dr_recursive dr) k x.
  Proof.
    intros Hc Hf k x. rewrite flatten_eq in Hf. rewrite resolve_derives_in.
    destruct (dr_recursive dr) as [|x0 rec0] eqn:Erec.
    - inversion Hf; subst flat. cbn [fl_default fl_specific]. split; [tauto|].
      intros [H|[H|(root & troot & kr & d & ids & i & ti & _ & _ & Hk & _)]]; [tauto|tauto|].
      cbn in Hk. discriminate.
    - rewrite <- Erec in *. clear Erec x0 rec0.
      apply bind_ok in Hf as (keys & Hkeys & Hf). apply bind_ok in Hf as (acc & Hacc & Hf).
      inversion Hf; subst flat; clear Hf. cbn [fl_default fl_specific].
      apply flatten_keys_eq in Hkeys. subst keys.
      rewrite fold_extend_get.
      assert (Hrec : (exists i d, In (i, d) acc /\
                        match find (fun e : N * option string => N.eqb (fst e) i)
                                   (map (fun e : N * ty => (fst e, key_opt (snd e))) r) with
                        | Some (_, k0) => k0 | None => None end = Some k /\ In x (proj d)) <->
                     rec_in r (dr_recursive dr) k x).
      { split.
        - intros (i & d & Hin & Hk & Hx).
          apply (flatten_go_in dr r _ _ _ Hacc) in Hin as [[]|(root & kr & ids & Hroot & Hkr & Hcc & Hi)].
          apply in_map_iff in Hroot as ([root0 troot] & E & Hroot). cbn [fst snd] in E.
          inversion E; subst root0.
          destruct (find _ _) as [[i' ko]|] eqn:F; [|discriminate]. subst ko.
          apply find_id_some in F as (_ & ti & Hti & Hko).
          exists root, troot, kr, d, ids, i, ti. repeat split; auto.
        - intros (root & troot & kr & d & ids & i & ti & Hroot & Hkr & Hd & Hcc & Hi & Hti & Hk & Hx).
          exists i, d. split; [|split; [|exact Hx]].
          + apply (flatten_go_in dr r _ _ _ Hacc). right. exists root, kr, ids.
            split; [|split; [exact Hd|split; assumption]].
            apply in_map_iff. exists (root, troot). cbn [fst snd]. split; [rewrite Hkr; reflexivity|exact Hroot].
          + rewrite (find_id_entry r i ti Hc Hti). exact Hk. }
      rewrite Hrec. tauto.
  Qed.

  (** every derive a type can receive is one of the settings' derives *)
  Lemma kmap_get_in (m : kmap) k d : kmap_get m k = Some d -> exists k', In (k', d) m.
  Proof.
    induction m as [|[k0 d0] m IH]; cbn [kmap_get]; [discriminate|].
    destruct (String.eqb (k_key k0) k).
    - intros H; inversion H; subst. exists k0. left; reflexivity.
    - intros H. destruct (IH H) as (k' & Hin). exists k'. right; exact Hin.
  Qed.

  Lemma smap_get_flat_in (m : kmap) k d :
    smap_get (flat_of_specific m) k = Some d -> exists k', In (k', d) m.
  Proof.
    induction m as [|[k0 d0] m IH]; cbn [flat_of_specific map smap_get]; [discriminate|].
    destruct (String.eqb (k_key k0) k).
    - intros H; inversion H; subst. exists k0. left; reflexivity.
    - intros H. destruct (IH H) as (k' & Hin). exists k'. right; exact Hin.
  Qed.

  Lemma in_kmap_all (m : kmap) k d x : In (k, d) m -> In x (proj d) -> In x (kmap_all proj m).
  Proof.
    intros Hin Hx. unfold kmap_all. apply in_flat_map. exists (k, d). split; [exact Hin|exact Hx].
  Qed.

  Lemma flatten_sub s r flat k x :
    ids_consistent r = true -> flatten (s_dreg s) r = Ok flat ->
    In x (proj (resolve_derives flat k)) -> In x (all_of proj s).
  Proof.
    intros Hc Hf Hx. apply (flatten_sem _ _ _ Hc Hf) in Hx. unfold all_of. rewrite !in_app_iff.
    destruct Hx as [H|[H|(root & troot & kr & d & ids & i & ti & _ & _ & Hk & _ & _ & _ & _ & Hx)]].
    - left; exact H.
    - right; left. unfold sget in H.
      destruct (smap_get (flat_of_specific (dr_specific (s_dreg s))) k) as [d|] eqn:E.
      + destruct (smap_get_flat_in _ _ _ E) as (k' & Hin). eapply in_kmap_all; eauto.
      + rewrite proj_empty in H. destruct H.
    - right; right. destruct (kmap_get_in _ _ _ Hk) as (k' & Hin). eapply in_kmap_all; eauto.
  Qed.
End FlatSem.

(** ** 5. the theorem *)
Lemma in_item_derives s flat key c x :
  In x (d_derives (item_derives s flat key c)) <->
  In x (d_derives (resolve_derives flat key)) \/ (c = true /\ s_compact_as s = Some x).
Proof.
  unfold item_derives, add_as_compact. destruct c.
  - destruct (s_compact_as s) as [k|]; cbn [d_derives].
    + rewrite in_app_iff. cbn [In]. split.
      * intros [H|[E|[]]]; [left; exact H|right; split; congruence].
      * intros [H|[_ E]]; [left; exact H|right; left; congruence].
    + split; [tauto|]. intros [H|[_ E]]; [exact H|discriminate].
  - split; [tauto|]. intros [H|[E _]]; [exact H|discriminate].
Qed.

Lemma attrs_item_derives s flat key c :
  d_attrs (item_derives s flat key c) = d_attrs (resolve_derives flat key).
Proof.
  unfold item_derives, add_as_compact. destruct c; [|reflexivity].
  destruct (s_compact_as s); reflexivity.
Qed.

Lemma all_nil_eq (l1 l2 : list (list string)) :
  List.length l1 = List.length l2 -> Forall (eq []) l1 -> Forall (eq []) l2 -> l1 = l2.
Proof.
  revert l2. induction l1 as [|a l1 IH]; intros [|b l2] Hlen H1 H2; try discriminate; [reflexivity|].
  inversion H1; inversion H2; subst. f_equal. apply IH; auto.
Qed.

Lemma ir_docs_length a b :
  erase_ids a = erase_ids b -> List.length (snd (ir_docs a)) = List.length (snd (ir_docs b)).
Proof.
  intros H.
  assert (Hk : erase_kind (ti_kind a) = erase_kind (ti_kind b)).
  { change (ti_kind (erase_ids a) = ti_kind (erase_ids b)). rewrite H. reflexivity. }
  unfold ir_docs.
  destruct (ti_kind a) as [c1|n1 d1 v1], (ti_kind b) as [c2|n2 d2 v2]; cbn [erase_kind] in Hk;
    try discriminate; [reflexivity|].
  inversion Hk as [[Hn Hv]]. cbn [snd]. rewrite !map_length.
  rewrite <- (map_length (fun x => (fst x, erase_ci (snd x))) v1), Hv. apply map_length.
Qed.

Lemma docs_spec_off s t :
  s_docs s = false -> fst (docs_spec s t) = [] /\ Forall (eq []) (snd (docs_spec s t)).
Proof.
  intros H. unfold docs_spec, docs_from_scale_info. rewrite H. cbn [fst snd]. split; [reflexivity|].
  apply Forall_forall. intros x Hx. apply in_map_iff in Hx as (y & E & _). exact E.
Qed.

Section Main.
  Variable pi : N -> N.
  Variable r : registry.
  Variable s : settings.
  Hypothesis Hpi : renumbering (N.of_nat (List.length r)) pi.

  Let Hinj : forall i j, pi i = pi j -> i = j := proj1 Hpi.
  Let r' := renumber pi r.

  Lemma collect_type_ids_renumber id :
    collect_type_ids r' (pi id) = rmap (map pi) (collect_type_ids r id).
  Proof.
    apply collect_type_ids_equivariant;
      [exact Hinj|apply resolve_renumber; exact Hpi|apply renumber_length].
  Qed.

  Lemma rec_in_renumber proj rec k x : rec_in proj r' rec k x <-> rec_in proj r rec k x.
  Proof.
    split.
    - intros (root' & troot' & kr & d & ids' & i' & ti' & Hroot & Hkr & Hd & Hcc & Hi & Hti & Hk & Hx).
      apply (in_renumber pi r _ Hpi) in Hroot as ([root troot] & Hroot & E).
      unfold rename_entry in E. cbn [fst snd] in E. inversion E; subst root' troot'; clear E.
      rewrite collect_type_ids_renumber in Hcc.
      destruct (collect_type_ids r root) as [ids|e|m] eqn:Ec; try discriminate.
      cbn [rmap bind] in Hcc. inversion Hcc; subst ids'; clear Hcc.
      apply in_map_iff in Hi as (i & E & Hi). subst i'.
      apply (in_renumber pi r _ Hpi) in Hti as ([i2 ti] & Hti & E).
      unfold rename_entry in E. cbn [fst snd] in E. inversion E as [[Ei Et]]; subst ti'.
      apply Hinj in Ei. subst i2.
      exists root, troot, kr, d, ids, i, ti. repeat split; auto.
    - intros (root & troot & kr & d & ids & i & ti & Hroot & Hkr & Hd & Hcc & Hi & Hti & Hk & Hx).
      exists (pi root), (rename_ty pi troot), kr, d, (map pi ids), (pi i), (rename_ty pi ti).
      split; [apply (in_renumber pi r _ Hpi); exists (root, troot); split; [exact Hroot|reflexivity]|].
      split; [exact Hkr|]. split; [exact Hd|].
      split; [rewrite collect_type_ids_renumber, Hcc; reflexivity|].
      split; [apply in_map; exact Hi|].
      split; [apply (in_renumber pi r _ Hpi); exists (i, ti); split; [exact Hti|reflexivity]|].
      split; [exact Hk|exact Hx].
  Qed.

  Lemma union_d a b : d_derives (derives_union a b) = d_derives a ++ d_derives b.
  Proof. reflexivity. Qed.
  Lemma union_a a b : d_attrs (derives_union a b) = d_attrs a ++ d_attrs b.
  Proof. reflexivity. Qed.

  (** the derive TOKENS of a path are the same in both runs *)
  Lemma item_derives_tokens flat1 flat2 key c :
    derives_functional s -> ids_consistent r = true -> ids_consistent r' = true ->
    flatten (s_dreg s) r = Ok flat1 -> flatten (s_dreg s) r' = Ok flat2 ->
    derives_tokens (item_derives s flat1 key c) = derives_tokens (item_derives s flat2 key c).
  Proof.
    intros [Fd Fa] Hc Hc' Hf1 Hf2.
    assert (Sd : forall x, In x (d_derives (resolve_derives flat1 key)) <->
                           In x (d_derives (resolve_derives flat2 key))).
    { intros x. rewrite (flatten_sem d_derives union_d eq_refl _ _ _ Hc Hf1),
                        (flatten_sem d_derives union_d eq_refl _ _ _ Hc' Hf2).
      fold r'. rewrite rec_in_renumber. reflexivity. }
    assert (Sa : forall x, In x (d_attrs (resolve_derives flat1 key)) <->
                           In x (d_attrs (resolve_derives flat2 key))).
    { intros x. rewrite (flatten_sem d_attrs union_a eq_refl _ _ _ Hc Hf1),
                        (flatten_sem d_attrs union_a eq_refl _ _ _ Hc' Hf2).
      fold r'. rewrite rec_in_renumber. reflexivity. }
    assert (Subd : forall rr flat, ids_consistent rr = true -> flatten (s_dreg s) rr = Ok flat ->
              forall x, In x (d_derives (item_derives s flat key c)) -> In x (all_derives s)).
    { intros rr flat Hcr Hfr x Hx. apply in_item_derives in Hx. unfold all_derives. apply in_or_app.
      destruct Hx as [Hx|[_ Hx]].
      - left. exact (flatten_sub d_derives union_d eq_refl s rr flat key x Hcr Hfr Hx).
      - right. rewrite Hx. left; reflexivity. }
    assert (Suba : forall rr flat, ids_consistent rr = true -> flatten (s_dreg s) rr = Ok flat ->
              forall x, In x (d_attrs (item_derives s flat key c)) -> In x (all_attrs s)).
    { intros rr flat Hcr Hfr x Hx. rewrite attrs_item_derives in Hx.
      exact (flatten_sub d_attrs union_a eq_refl s rr flat key x Hcr Hfr Hx). }
    apply derives_tokens_canonical.
    - eapply key_functional_sub; [|exact Fd]. intros x Hx. apply in_app_or in Hx as [Hx|Hx].
      + exact (Subd r flat1 Hc Hf1 x Hx).
      + exact (Subd r' flat2 Hc' Hf2 x Hx).
    - eapply key_functional_sub; [|exact Fa]. intros x Hx. apply in_app_or in Hx as [Hx|Hx].
      + exact (Suba r flat1 Hc Hf1 x Hx).
      + exact (Suba r' flat2 Hc' Hf2 x Hx).
    - intros x. rewrite !in_item_derives, Sd. reflexivity.
    - intros x. rewrite !attrs_item_derives. apply Sa.
  Qed.

  Lemma eligible_item s0 t flat ir :
    eligible s0 t = true -> create_type_ir r s0 t flat = Ok (Some ir) -> item_eligible s0 t = true.
  Proof.
    intros He Hc. unfold item_eligible. rewrite (create_type_ir_some_cv _ _ _ _ _ Hc).
    unfold eligible in He. apply andb_prop in He as [H1 H2]. rewrite H1, H2. reflexivity.
  Qed.

  (** two item-eligible entries of one path give the same item tokens, whatever the flat
      derive registries of the two runs *)
  Lemma family_tokens flat1 flat2 id1 t1 ir1 id2 t2 ir2 :
    skeleton_consistent r s -> docs_consistent r s -> derives_functional s ->
    ids_consistent r = true -> ids_consistent r' = true ->
    flatten (s_dreg s) r = Ok flat1 -> flatten (s_dreg s) r' = Ok flat2 ->
    In (id1, t1) r -> In (id2, t2) r -> t_path t1 = t_path t2 ->
    eligible s t1 = true -> eligible s t2 = true ->
    create_type_ir r s t1 flat1 = Ok (Some ir1) ->
    create_type_ir r s t2 flat2 = Ok (Some ir2) ->
    type_ir_tokens s ir1 = type_ir_tokens s ir2.
  Proof.
    intros Hsk Hdc Hdf Hc Hc' Hf1 Hf2 Hin1 Hin2 Hp He1 He2 C1 C2.
    pose proof (eligible_item s t1 flat1 ir1 He1 C1) as Hi1.
    pose proof (eligible_item s t2 flat2 ir2 He2 C2) as Hi2.
    destruct (find_exists (fun e => path_eqb (t_path (snd e)) (t_path t1) && item_eligible s (snd e))
                          r (id1, t1) Hin1) as ([id0 X0] & Hfind).
    { cbn [snd]. rewrite path_eqb_refl, Hi1. reflexivity. }
    change (first_eligible r s (t_path t1) = Some (id0, X0)) in Hfind.
    pose proof Hfind as Hfind2. rewrite Hp in Hfind2.
    pose proof (Hsk id1 t1 id0 X0 Hin1 Hi1 Hfind) as S1.
    pose proof (Hsk id2 t2 id0 X0 Hin2 Hi2 Hfind2) as S2.
    rewrite (skeleton_of _ _ _ _ _ C1) in S1. rewrite (skeleton_of _ _ _ _ _ C2) in S2.
    assert (He : erase_ids ir1 = erase_ids ir2) by congruence.
    destruct (create_type_ir_facts _ _ _ _ _ C1) as (D1 & key1 & K1 & Dv1).
    destruct (create_type_ir_facts _ _ _ _ _ C2) as (D2 & key2 & K2 & Dv2).
    rewrite <- Hp in K2. assert (key2 = key1) by congruence. subst key2.
    apply type_ir_tokens_skel.
    - exact He.
    - rewrite D1, D2. destruct (s_docs s) eqn:Ed.
      + unfold docs_spec. rewrite (Hdc Ed id1 t1 id0 X0 Hin1 Hi1 Hfind).
        rewrite (Hdc Ed id2 t2 id0 X0 Hin2 Hi2 Hfind2). reflexivity.
      + destruct (docs_spec_off s t1 Ed) as [A1 B1]. destruct (docs_spec_off s t2 Ed) as [A2 B2].
        pose proof (ir_docs_length _ _ He) as Hl. rewrite D1, D2 in Hl.
        destruct (docs_spec s t1) as [a1 b1], (docs_spec s t2) as [a2 b2]. cbn [fst snd] in *.
        subst a1 a2. f_equal. apply all_nil_eq; assumption.
    - rewrite Dv1, Dv2.
      assert (Ek : cdac_of (ti_kind ir1) = cdac_of (ti_kind ir2)).
      { rewrite <- (cdac_of_erase (ti_kind ir1)), <- (cdac_of_erase (ti_kind ir2)).
        change (erase_kind (ti_kind ir1)) with (ti_kind (erase_ids ir1)).
        change (erase_kind (ti_kind ir2)) with (ti_kind (erase_ids ir2)). rewrite He. reflexivity. }
      rewrite Ek. apply item_derives_tokens; assumption.
  Qed.

  (** Renumbering leaves the module token-identical: same-path families and recursive
      derives included. *)
  Lemma permutation_items teq teq' m1 m2 :
    skeleton_consistent r s -> docs_consistent r s -> derives_functional s ->
    generate r s teq = Ok m1 ->
    generate r' s teq' = Ok m2 ->
    (forall p id ir, items_get m1 p = Some (id, ir) ->
       exists id2 ir2, items_get m2 p = Some (id2, ir2) /\
                       type_ir_tokens s ir = type_ir_tokens s ir2) /\
    (forall p id2 ir2, items_get m2 p = Some (id2, ir2) -> exists v, items_get m1 p = Some v).
  Proof.
    intros Hsk Hdc Hdf G1 G2.
    assert (Hc : ids_consistent r = true).
    { apply first_bad_none_iff. eapply generate_sanity; exact G1. }
    assert (Hc' : ids_consistent r' = true).
    { apply first_bad_none_iff. eapply generate_sanity; exact G2. }
    pose proof G1 as H1. pose proof G2 as H2. unfold generate in H1, H2.
    apply bind_ok in H1 as (u1 & _ & H1). apply bind_ok in H1 as (flat1 & Hf1 & H1).
    apply bind_ok in H2 as (u2 & _ & H2). apply bind_ok in H2 as (flat2 & Hf2 & H2).
    assert (S1 : items_sorted m1) by (eapply gen_loop_sorted; [apply items_sorted_nil|exact H1]).
    assert (S2 : items_sorted m2) by (eapply gen_loop_sorted; [apply items_sorted_nil|exact H2]).
    (* forward *)
    assert (K : forall p id ir, items_get m1 p = Some (id, ir) ->
              exists id2 ir2, items_get m2 p = Some (id2, ir2) /\
                              type_ir_tokens s ir = type_ir_tokens s ir2).
    { intros p id ir E1.
      destruct (gen_loop_keys r s teq flat1 r [] m1 p id ir H1 E1) as [Ha|(t & Hin & Hp & Hel & Hcr)];
        [discriminate Ha|].
      destruct (create_type_ir_flat r s t flat1 flat2 ir Hcr) as (irb & Hcb & _).
      assert (Hin' : In (pi id, rename_ty pi t) r').
      { apply (in_renumber pi r _ Hpi). exists (id, t). split; [exact Hin|reflexivity]. }
      assert (Hc2 : create_type_ir r' s (rename_ty pi t) flat2 = Ok (Some (rename_ir pi irb))).
      { unfold r'. rewrite (create_type_ir_renumber pi r s Hpi), Hcb. reflexivity. }
      destruct (gen_loop_complete r' s teq' flat2 r' [] m2 H2 (pi id) (rename_ty pi t) _ Hin'
                                  (eq_trans (eligible_rename pi s t) Hel) Hc2) as ([id2 ir2] & E2).
      change (t_path (rename_ty pi t)) with (t_path t) in E2. rewrite Hp in E2.
      exists id2, ir2. split; [exact E2|].
      destruct (gen_loop_keys r' s teq' flat2 r' [] m2 p id2 ir2 H2 E2)
        as [Ha|(t2' & Hin2 & Hp2 & Hel2 & Hcr2)]; [discriminate Ha|].
      apply (in_renumber pi r _ Hpi) in Hin2 as ([i2 t2] & Hin2 & E).
      unfold rename_entry in E. cbn [fst snd] in E. inversion E; subst id2 t2'; clear E.
      unfold r' in Hcr2. rewrite (create_type_ir_renumber pi r s Hpi) in Hcr2.
      destruct (create_type_ir r s t2 flat2) as [[ir2b|]|e|msg] eqn:Hcr2b; try discriminate Hcr2.
      cbn [rmap_e option_map] in Hcr2. inversion Hcr2; subst ir2; clear Hcr2.
      rewrite type_ir_tokens_rename.
      change (t_path (rename_ty pi t2)) with (t_path t2) in Hp2.
      eapply (family_tokens flat1 flat2 id t ir i2 t2 ir2b); eauto. congruence. }
    (* backward *)
    assert (K' : forall p id2 ir2, items_get m2 p = Some (id2, ir2) -> exists v, items_get m1 p = Some v).
    { intros p id2 ir2 E2.
      destruct (gen_loop_keys r' s teq' flat2 r' [] m2 p id2 ir2 H2 E2)
        as [Ha|(t2' & Hin2 & Hp2 & Hel2 & Hcr2)]; [discriminate Ha|].
      apply (in_renumber pi r _ Hpi) in Hin2 as ([i2 t2] & Hin2 & E).
      unfold rename_entry in E. cbn [fst snd] in E. inversion E; subst id2 t2'; clear E.
      unfold r' in Hcr2. rewrite (create_type_ir_renumber pi r s Hpi) in Hcr2.
      destruct (create_type_ir r s t2 flat2) as [[ir2b|]|e|msg] eqn:Hcr2b; try discriminate Hcr2.
      destruct (create_type_ir_flat r s t2 flat2 flat1 ir2b Hcr2b) as (ira & Hca & _).
      change (t_path (rename_ty pi t2)) with (t_path t2) in Hp2. rewrite <- Hp2.
      eapply (gen_loop_complete r s teq flat1 r [] m1 H1 i2 t2 ira Hin2); [|exact Hca].
      exact Hel2. }
    split; assumption.
  Qed.

  Theorem permutation_tokens teq teq' m1 m2 :
    skeleton_consistent r s -> docs_consistent r s -> derives_functional s ->
    generate r s teq = Ok m1 ->
    generate r' s teq' = Ok m2 ->
    emit_module s m1 = emit_module s m2.
  Proof.
    intros Hsk Hdc Hdf G1 G2.
    destruct (permutation_items teq teq' m1 m2 Hsk Hdc Hdf G1 G2) as [K K'].
    pose proof G1 as H1. pose proof G2 as H2. unfold generate in H1, H2.
    apply bind_ok in H1 as (u1 & _ & H1). apply bind_ok in H1 as (flat1 & Hf1 & H1).
    apply bind_ok in H2 as (u2 & _ & H2). apply bind_ok in H2 as (flat2 & Hf2 & H2).
    assert (S1 : items_sorted m1) by (eapply gen_loop_sorted; [apply items_sorted_nil|exact H1]).
    assert (S2 : items_sorted m2) by (eapply gen_loop_sorted; [apply items_sorted_nil|exact H2]).
    apply emit_module_ext.
    apply (sorted_items_rel
             (fun v1 v2 => type_ir_tokens s (snd v1) = type_ir_tokens s (snd v2)) m1 m2 S1 S2).
    intros p. destruct (items_get m1 p) as [[id ir]|] eqn:E1.
    - destruct (K p id ir E1) as (id2 & ir2 & E2 & Ht). rewrite E2. cbn [snd]. exact Ht.
    - destruct (items_get m2 p) as [[id2 ir2]|] eqn:E2; [|exact I].
      destruct (K' p id2 ir2 E2) as (v & Hv). rewrite E1 in Hv. discriminate Hv.
  Qed.
End Main.

(** ** the boolean hypotheses evaluated on concrete inputs *)
Lemma strs_list_eqb_sound (a b : list (list string)) :
  list_eqb (list_eqb String.eqb) a b = true -> a = b.
Proof. apply list_eqb_sound. exact strs_eqb_sound. Qed.

Theorem docs_consistentb_sound r s : docs_consistentb r s = true -> docs_consistent r s.
Proof.
  unfold docs_consistentb, docs_consistent. intros H Hd id X id0 X0 Hin He Hfirst.
  rewrite Hd in H. cbn [negb orb] in H. rewrite forallb_forall in H.
  specialize (H (id, X) Hin). cbn [snd] in H. rewrite He, Hfirst in H. cbn [snd] in H.
  unfold entry_docs_eqb in H. apply andb_prop in H as [H1 H2].
  apply strs_eqb_sound in H1. apply strs_list_eqb_sound in H2.
  destruct (entry_docs X) as [a b], (entry_docs X0) as [a0 b0]. cbn [fst snd] in *. congruence.
Qed.

Lemma kt_eqb_sound x y : kt_eqb x y = true -> x = y.
Proof.
  destruct x as [k1 t1], y as [k2 t2]. unfold kt_eqb. cbn [fst snd]. intros H.
  apply andb_prop in H as [H1 H2]. apply String.eqb_eq in H1. apply strs_eqb_sound in H2. congruence.
Qed.

Lemma kt_functionalb_sound l : kt_functionalb l = true -> kt_functional l.
Proof.
  unfold kt_functionalb, kt_functional. intros H x y Hx Hy E.
  rewrite forallb_forall in H. specialize (H x Hx). rewrite forallb_forall in H. specialize (H y Hy).
  rewrite E, String.eqb_refl in H. cbn [negb orb] in H. apply kt_eqb_sound; exact H.
Qed.

Theorem derives_functionalb_sound s : derives_functionalb s = true -> derives_functional s.
Proof.
  unfold derives_functionalb, derives_functional. intros H. apply andb_prop in H as [H1 H2].
  split; apply kt_functionalb_sound; assumption.
Qed.

Theorem permutation_tokens_b pi r s teq teq' m1 m2 :
  renumbering (N.of_nat (List.length r)) pi ->
  skeleton_consistentb r s = true -> docs_consistentb r s = true -> derives_functionalb s = true ->
  generate r s teq = Ok m1 -> generate (renumber pi r) s teq' = Ok m2 ->
  emit_module s m1 = emit_module s m2.
Proof.
  intros Hpi H1 H2 H3. apply (permutation_tokens pi r s Hpi).
  - apply skeleton_consistentb_sound; exact H1.
  - apply docs_consistentb_sound; exact H2.
  - apply derives_functionalb_sound; exact H3.
Qed.
