(** C02, indirection clause (partial): under [bv_ranked r s rank] the by-value containment
    graph of the generated items ([item_edge], Model/Sized.v) has a rank function on item paths
    that strictly decreases along every edge; hence it has no cycle. *)
From Coq Require Import List NArith String Bool Lia.
From V Require Import Base.Util Base.Strings Base.Result Model.Registry Model.Settings Model.Subst
  Model.TypePath Model.Derives Model.Generate Model.Emit Model.Equal Model.WellFormed Model.Sized
  Proofs.GenProofs Proofs.ResolveTotal Proofs.GenTotal Proofs.FidelityGen Proofs.ClosedProofs.
Import ListNotations.
Open Scope string_scope. Open Scope list_scope. Open Scope nat_scope.

(** ** a decreasing rank excludes cycles *)
Lemma walk_rank {A} (E : A -> A -> Prop) (rk : A -> nat) :
  (forall a b, E a b -> rk b < rk a) -> forall n a b, walk E n a b -> rk b < rk a.
Proof.
  intros H. induction n as [|n IH]; intros a b W; cbn [walk] in W; [auto|].
  destruct W as (c & Hac & W). specialize (H _ _ Hac). specialize (IH _ _ W). lia.
Qed.

Lemma walk_acyclic {A} (E : A -> A -> Prop) (rk : A -> nat) :
  (forall a b, E a b -> rk b < rk a) -> forall n a, ~ walk E n a a.
Proof. intros H n a W. pose proof (walk_rank E rk H n a a W). lia. Qed.

Lemma rel_path_tail_inj : forall a b : list string,
  flat_map (fun s => [":"; ":"; s]) a = flat_map (fun s => [":"; ":"; s]) b -> a = b.
Proof.
  induction a as [|x a IH]; intros [|y b] H; cbn in H; try discriminate; [reflexivity|].
  inversion H; subst. f_equal. apply IH. assumption.
Qed.

Lemma rel_path_inj root a b : rel_path (root :: a) = rel_path (root :: b) -> a = b.
Proof. cbn [rel_path]. intros H. inversion H. apply rel_path_tail_inj. assumption. Qed.

Lemma is_cow_name_eq o : is_cow_name o = ResolveTotal.is_cow o.
Proof. reflexivity. Qed.

Section Sized.
  Variable r : registry.
  Variable s : settings.
  Variable rank : N -> nat.
  Hypothesis Hfresh : root_fresh s.
  Hypothesis Hrank : bv_ranked r s rank.

  (** every rooted by-value node of [t] is the path of a struct / enum entry of rank [<= bound] *)
  Definition node_bv (bound : nat) (t : tpath) : Prop :=
    forall ptoks params, In (TPath ptoks params) (bv_subpaths t) ->
    hd_error ptoks = Some (s_root s) ->
    exists id' t', resolve r id' = Some t' /\ ptoks = rel_path (s_root s :: t_path t') /\
                   is_composite_or_variant (t_def t') = true /\ rank id' <= bound.

  Lemma node_bv_mono b b' t : b <= b' -> node_bv b t -> node_bv b' t.
  Proof.
    intros Hle H ptoks params Hin Hh. destruct (H ptoks params Hin Hh) as (id' & t' & A & B & C & D).
    exists id', t'. repeat split; try assumption. lia.
  Qed.

  Lemma node_bv_path bound toks ps :
    (hd_error toks = Some (s_root s) ->
     exists id' t', resolve r id' = Some t' /\ toks = rel_path (s_root s :: t_path t') /\
                    is_composite_or_variant (t_def t') = true /\ rank id' <= bound) ->
    (transparent_toksb toks = true -> forall x, In x ps -> node_bv bound x) ->
    node_bv bound (TPath toks ps).
  Proof.
    intros Hself Hch pt pp Hin Hh. cbn [bv_subpaths] in Hin. destruct Hin as [E|Hin].
    - inversion E; subst. auto.
    - destruct (transparent_toksb toks); [|destruct Hin].
      apply in_flat_map in Hin as (x & Hx & Hin). exact (Hch eq_refl x Hx pt pp Hin Hh).
  Qed.

  Lemma node_bv_flat bound es : (forall x, In x es -> node_bv bound x) ->
    forall ptoks params, In (TPath ptoks params) (flat_map bv_subpaths es) ->
    hd_error ptoks = Some (s_root s) ->
    exists id' t', resolve r id' = Some t' /\ ptoks = rel_path (s_root s :: t_path t') /\
                   is_composite_or_variant (t_def t') = true /\ rank id' <= bound.
  Proof.
    intros H pt pp Hin Hh. apply in_flat_map in Hin as (x & Hx & Hin). exact (H x Hx pt pp Hin Hh).
  Qed.

  Lemma maybe_subst_bv id t params x :
    resolve r id = Some t -> is_composite_or_variant (t_def t) = true ->
    (forall y, In y params -> exists c, In c (param_ids t) /\ node_bv (rank c) y) ->
    type_path_maybe_with_substitutes s (t_path t) params = Ok x -> node_bv (rank id) x.
  Proof.
    destruct Hfresh as (Hcolon & Halloc & Hsubs).
    destruct Hrank as (_ & _ & K3 & _ & _).
    intros Hr Hcv Hps. unfold type_path_maybe_with_substitutes, for_path_with_params.
    assert (Hparams : path_transparent s (t_path t) = true -> forall y, In y params -> node_bv (rank id) y).
    { intros Ht y Hy. destruct (Hps y Hy) as (c & Hc & Hn).
      apply (node_bv_mono (rank c)); [|exact Hn]. exact (K3 id t c Hr Hcv Ht Hc). }
    destruct (subs_get (s_subs s) (t_path t)) as [sub|] eqn:Esub.
    - assert (Htr : path_transparent s (t_path t) = true) by (unfold path_transparent; rewrite Esub; reflexivity).
      destruct (subs_get_In _ _ _ Esub) as (k & Hk). pose proof (Hsubs _ _ Hk) as Hhead.
      destruct (su_map sub) as [|m].
      + intros E. inversion E; subst. apply node_bv_path; [|intros _; exact (Hparams Htr)].
        rewrite print_spath_head. intros Hh. contradiction.
      + match goal with
        | |- match ?sel with [] => _ | _ => _ end = _ -> _ => destruct sel as [|y0 sel']
        end.
        * intros E. inversion E; subst. apply node_bv_path; [|intros _ y []].
          rewrite print_spath_head. intros Hh. contradiction.
        * intros E. apply bind_ok in E as (repl & _ & E). inversion E; subst.
          apply node_bv_path; [|intros _ y []].
          rewrite print_spath_head, replace_spath_head. intros Hh. contradiction.
    - intros E. apply bind_ok in E as (toks & Ht & E). inversion E; subst.
      apply node_bv_path.
      + intros Hh. unfold from_type_def_path in Ht.
        destruct (t_path t) as [|a [|b l]] eqn:Ep; [discriminate| |].
        * destruct (assoc_str (prelude_table (alloc_tokens (s_alloc s))) a) as [toks'|] eqn:Ea; [|discriminate].
          inversion Ht; subst. exfalso. exact (prelude_head _ _ _ _ Hcolon Halloc Ea Hh).
        * destruct (forallb path_seg_okb (a :: b :: l)); [|discriminate]. inversion Ht; subst.
          exists id, t. rewrite Ep. repeat split; try assumption. lia.
      + intros Htt. apply Hparams. unfold path_transparent. rewrite Esub, Ht. exact Htt.
  Qed.

  Lemma cow_step_rank id t0 t :
    resolve r id = Some t0 -> cow_step r t0 = Ok t ->
    exists id', resolve r id' = Some t /\ rank id' <= rank id.
  Proof.
    destruct Hrank as (K1 & _). intros Hr. rewrite cow_step_eq.
    destruct (is_cow (path_ident (t_path t0))) eqn:Ec.
    - destruct (t_params t0) as [|p0 ps] eqn:Ep; [discriminate|].
      destruct (tp_ty p0) as [inner|] eqn:Ei; [|discriminate].
      unfold resolve_type. destruct (resolve r inner) as [t'|] eqn:E; [|discriminate].
      intros H. inversion H; subst. exists inner. split; [exact E|].
      exact (K1 id t0 p0 ps inner Hr Ec Ep Ei).
    - intros H. inversion H; subst. exists id. split; [exact Hr|lia].
  Qed.

  Lemma resolve_rec_bv : forall fuel id is_field parents orig t,
    resolve_rec r s fuel id is_field parents orig = Ok t -> node_bv (rank id) t.
  Proof.
    destruct Hrank as (_ & K2 & _).
    induction fuel as [|fuel IH]; intros id is_field parents orig t H; [discriminate|].
    rewrite resolve_rec_S in H.
    destruct (find_parent parents id orig) as [p|].
    { inversion H; subst. intros pt ps []. }
    apply bind_ok in H as (t0 & Ht0 & H). apply bind_ok in H as (t1 & Hcs & H).
    apply bind_ok in H as (params & Hps & H).
    unfold resolve_type in Ht0. destruct (resolve r id) as [t0'|] eqn:Er; [|discriminate].
    inversion Ht0; subst t0'. destruct (cow_step_rank _ _ _ Er Hcs) as (id1 & Hr1 & Hle).
    apply (node_bv_mono (rank id1)); [exact Hle|].
    assert (Hparams : forall y, In y params -> exists c, In c (param_ids t1) /\ node_bv (rank c) y).
    { intros y Hy. destruct (mapM_ok_In _ _ _ _ Hps Hy) as (c & Hc & Hcy). exists c. split; [exact Hc|].
      eapply IH; eauto. }
    pose proof (K2 id1 t1) as K2'.
    unfold resolve_def in H.
    destruct (t_def t1) as [fs|vs|e|len e|es|p|e|store order] eqn:Ed; cbn iota beta in K2'.
    - eapply maybe_subst_bv; eauto. rewrite Ed. reflexivity.
    - eapply maybe_subst_bv; eauto. rewrite Ed. reflexivity.
    - apply bind_ok in H as (i & Hi & H). inversion H; subst. intros pt ps [].
    - apply bind_ok in H as (i & Hi & H). inversion H; subst.
      change (node_bv (rank id1) i).
      apply (node_bv_mono (rank e)); [apply K2'; [exact Hr1|left; reflexivity]|].
      eapply IH; eauto.
    - apply bind_ok in H as (l & Hl & H). inversion H; subst.
      intros pt ps Hin Hh. cbn [bv_subpaths] in Hin. revert pt ps Hin Hh. apply node_bv_flat.
      intros x Hx. destruct (mapM_ok_In _ _ _ _ Hl Hx) as (c & Hc & Hcx).
      apply (node_bv_mono (rank c)); [apply K2'; [exact Hr1|exact Hc]|]. eapply IH; eauto.
    - inversion H; subst. intros pt ps [].
    - apply bind_ok in H as (i & Hi & H). destruct (s_compact s) as [c|]; [|discriminate].
      inversion H; subst. change (node_bv (rank id1) i).
      apply (node_bv_mono (rank e)); [apply K2'; [exact Hr1|left; reflexivity]|]. eapply IH; eauto.
    - destruct (s_bits s) as [b|]; [|discriminate].
      apply bind_ok in H as (o & Ho & H). apply bind_ok in H as (st & Hst & H). inversion H; subst.
      intros pt ps [].
  Qed.

  (** fields of an item: the [Box] flag is the registry's, the by-value nodes are bounded by the
      rank of the field's type id *)
  Definition field_bv (fs : list field) (fi : field_ir) : Prop :=
    exists f0, In f0 fs /\ fi_boxed fi = is_boxed_gen f0 /\ node_bv (rank (f_ty f0)) (fi_path fi).

  Lemma field_ir_of_bv params f fi : field_ir_of r s params f = Ok fi -> field_bv [f] fi.
  Proof.
    unfold field_ir_of, resolve_field_type_path. intros H. apply bind_ok in H as (p & Hp & H).
    inversion H; subst. exists f. split; [left; reflexivity|]. split; [reflexivity|].
    cbn [fi_path]. eapply resolve_rec_bv; eauto.
  Qed.

  Lemma field_bv_incl fs fs' fi : (forall f, In f fs -> In f fs') -> field_bv fs fi -> field_bv fs' fi.
  Proof. intros Hi (f0 & Hin & A & B). exists f0. split; [apply Hi; exact Hin|]. split; assumption. Qed.

  Lemma cck_bv fs params unused k u :
    create_composite_ir_kind r s fs params unused = Ok (k, u) ->
    forall f, In f (ckind_fields k) -> field_bv fs f.
  Proof.
    unfold create_composite_ir_kind. intros H f Hf.
    destruct fs as [|f0 fs0]; [inversion H; subst; destruct Hf|].
    destruct (negb (all_named (f0 :: fs0) || all_unnamed (f0 :: fs0))); [discriminate|].
    destruct (all_named (f0 :: fs0)).
    - apply bind_ok in H as (l & Hl & H). inversion H; subst. cbn [ckind_fields] in Hf.
      apply in_map_iff in Hf as (x & <- & Hx). destruct (mapM_ok_In _ _ _ _ Hl Hx) as (f1 & Hin1 & Hf1).
      apply bind_ok in Hf1 as (nm & _ & Hf1). apply bind_ok in Hf1 as (fi & Hfi & Hf1).
      inversion Hf1; subst. cbn [snd]. apply (field_bv_incl [f1]); [intros g [<-|[]]; exact Hin1|].
      eapply field_ir_of_bv; eauto.
    - apply bind_ok in H as (l & Hl & H). inversion H; subst. cbn [ckind_fields] in Hf.
      destruct (mapM_ok_In _ _ _ _ Hl Hf) as (f1 & Hin1 & Hf1).
      apply (field_bv_incl [f1]); [intros g [<-|[]]; exact Hin1|]. eapply field_ir_of_bv; eauto.
  Qed.

  Lemma variants_ir_bv params : forall vs unused l u,
    GenTotal.variants_ir r s params vs unused = Ok (l, u) ->
    forall f, In f (flat_map (fun v => ckind_fields (ci_kind (snd v))) l) ->
    field_bv (flat_map v_fields vs) f.
  Proof.
    induction vs as [|v vs IH]; intros unused l u H f Hf.
    - cbn in H. inversion H; subst. destruct Hf.
    - rewrite GenTotal.variants_ir_cons in H. apply bind_ok in H as (vn & _ & H).
      apply bind_ok in H as ([k u1] & Hk & H). apply bind_ok in H as ([l' u'] & Hrest & H).
      cbn [fst snd] in *. inversion H; subst. cbn [flat_map snd ci_kind] in Hf.
      apply in_app_or in Hf as [Hf|Hf].
      + apply (field_bv_incl (v_fields v)); [intros g Hg; apply in_or_app; left; exact Hg|].
        eapply cck_bv; eauto.
      + apply (field_bv_incl (flat_map v_fields vs)); [intros g Hg; apply in_or_app; right; exact Hg|].
        eapply IH; eauto.
  Qed.

  Lemma create_type_ir_bv t flat ir :
    create_type_ir r s t flat = Ok (Some ir) ->
    forall f, In f (kind_fields (ti_kind ir)) -> field_bv (def_fields (t_def t)) f.
  Proof.
    intros H. rewrite GenTotal.create_type_ir_eq in H.
    destruct (negb (is_composite_or_variant (t_def t))); [discriminate|]. cbv zeta in H.
    destruct (path_ident (t_path t)) as [nm|]; [|discriminate].
    apply bind_ok in H as (name & _ & H).
    apply bind_ok in H as ([[kind cdac] unused] & Hk & H).
    apply bind_ok in H as (d & _ & H). inversion H; subst; clear H. cbn [ti_kind].
    destruct (t_def t) as [fs|vs| | | | | | ]; try discriminate.
    - apply bind_ok in Hk as ([k u] & Hc & Hk). cbn [fst snd] in Hk. inversion Hk; subst.
      cbn [kind_fields ci_kind def_fields]. eapply cck_bv; eauto.
    - apply bind_ok in Hk as ([l u] & Hc & Hk). cbn [fst snd] in Hk. inversion Hk; subst.
      cbn [kind_fields def_fields]. eapply variants_ir_bv; eauto.
  Qed.

  (** the rank of an item path: the rank of the first struct / enum entry carrying it *)
  Definition rank_path (p : list string) : nat :=
    match find (fun e : N * ty => path_eqb (t_path (snd e)) p && is_composite_or_variant (t_def (snd e))) r with
    | Some e => rank (fst e)
    | None => 0
    end.

  Lemma rank_path_entry id t :
    ids_consistent r = true -> resolve r id = Some t -> is_composite_or_variant (t_def t) = true ->
    rank_path (t_path t) = rank id.
  Proof.
    destruct Hrank as (_ & _ & _ & _ & K5). intros Hc Hr Hcv. unfold rank_path.
    destruct (ResolveTotal.resolve_In _ _ _ Hr) as (i & Hin).
    destruct (find (fun e : N * ty => path_eqb (t_path (snd e)) (t_path t) &&
                                      is_composite_or_variant (t_def (snd e))) r) as [[id0 t0]|] eqn:F.
    - apply find_some in F as [Hin0 H0]. cbn [fst snd] in *. apply andb_prop in H0 as [Hp0 Hcv0].
      apply path_eqb_eq in Hp0.
      exact (K5 id0 t0 id t (ids_consistent_In r id0 t0 Hc Hin0) Hr Hcv0 Hcv Hp0).
    - exfalso. pose proof (find_none _ _ F (i, t) Hin) as Hn. cbn [snd] in Hn.
      rewrite path_eqb_refl, Hcv in Hn. discriminate Hn.
  Qed.

  Theorem sized_rank teq m :
    generate r s teq = Ok m ->
    forall pa pb, item_edge s m pa pb -> rank_path pb < rank_path pa.
  Proof.
    destruct Hrank as (_ & _ & _ & K4 & _).
    intros Hg pa pb (id & ir & f & params & Hm & Hf & Hbox & Hnode).
    assert (Hc : ids_consistent r = true).
    { apply first_bad_none_iff. eapply generate_sanity; exact Hg. }
    destruct (generate_items_come_from_entries _ _ _ _ _ _ _ Hg Hm) as (t & flat & Hin & Hp & _ & _ & Hcti).
    pose proof (ids_consistent_In r id t Hc Hin) as Hr.
    pose proof (create_type_ir_some_cv _ _ _ _ _ Hcti) as Hcv.
    destruct (create_type_ir_bv _ _ _ Hcti f Hf) as (f0 & Hf0 & Hb & Hn).
    assert (Hh : hd_error (rel_path (s_root s :: pb)) = Some (s_root s)) by reflexivity.
    destruct (Hn _ _ Hnode Hh) as (id' & t' & Hr' & Ep & Hcv' & Hle).
    apply rel_path_inj in Ep. subst pb pa.
    rewrite (rank_path_entry id' t' Hc Hr' Hcv'), (rank_path_entry id t Hc Hr Hcv).
    rewrite Hbox in Hb. symmetry in Hb. pose proof (K4 id t f0 Hr Hf0 Hb). lia.
  Qed.

  Theorem sized_acyclic teq m :
    generate r s teq = Ok m -> forall n p, ~ walk (item_edge s m) n p p.
  Proof.
    intros Hg. apply (walk_acyclic (item_edge s m) rank_path). intros a b. apply (sized_rank teq m Hg).
  Qed.
End Sized.
