(** C13, "every struct or enum reachable from the id is written out in full at
    least once": proved on the model for EVERY registry and id on which the
    description succeeds (no well-formedness needed), on the text itself.

    Method: every policy function returns the trace of the [resolve] calls it
    made (a chain through the intermediate caches) and the text of every call
    is a substring of its own text.  Along a chain four facts are invariant:
    the cache only grows; no id becomes "in progress" that was not already;
    every completed id has all its children in the cache; an id that enters
    the cache during a call is written out (prefix, name, definition) inside
    the text of that call. *)
From Coq Require Import List NArith String Bool Ascii Lia.
From V Require Import Base.Util Base.Result Base.Strings Model.Registry Model.Format
  Model.Describe Proofs.DescribeProofs.
Import ListNotations.
Open Scope string_scope.

(** ** substrings *)
Definition infix (x s : string) : Prop := exists a b, s = a ++ x ++ b.

Lemma sapp_assoc (a b c : string) : (a ++ b) ++ c = a ++ b ++ c.
Proof. induction a as [|ch a IH]; cbn; [reflexivity|]. rewrite IH. reflexivity. Qed.

Lemma sapp_nil_r (a : string) : a ++ "" = a.
Proof. induction a as [|ch a IH]; cbn; [reflexivity|]. rewrite IH. reflexivity. Qed.

Lemma infix_refl s : infix s s.
Proof. exists "", "". cbn. rewrite sapp_nil_r. reflexivity. Qed.

Lemma infix_app_l x a b : infix x a -> infix x (a ++ b).
Proof.
  intros (p & q & ->). exists p, (q ++ b). rewrite !sapp_assoc. reflexivity.
Qed.

Lemma infix_app_r x a b : infix x b -> infix x (a ++ b).
Proof.
  intros (p & q & ->). exists (a ++ p), q. rewrite !sapp_assoc. reflexivity.
Qed.

Lemma infix_trans x y z : infix x y -> infix y z -> infix x z.
Proof.
  intros Hxy (p & q & ->). apply infix_app_r. apply infix_app_l. exact Hxy.
Qed.

Lemma infix_nil x : infix "" x.
Proof. exists "", x. reflexivity. Qed.

Lemma sapp_eq_nil a b : a ++ b = "" -> a = "" /\ b = "".
Proof. destruct a; cbn; intros H; [auto|discriminate]. Qed.

Lemma infix_empty x : infix x "" -> x = "".
Proof.
  intros (a & b & H). symmetry in H. apply sapp_eq_nil in H as [_ H].
  apply sapp_eq_nil in H as [H _]. exact H.
Qed.

Lemma infix_join sep d ds : In d ds -> infix d (join sep ds).
Proof.
  unfold join. induction ds as [|x ds IH]; intros H; [destruct H|].
  cbn [concat]. destruct H as [->|H].
  - destruct ds; [apply infix_refl|]. apply infix_app_l, infix_refl.
  - destruct ds as [|y ds']; [destruct H|].
    apply infix_app_r, infix_app_r. apply IH. exact H.
Qed.

Lemma infix_tuple_text d ds : In d ds -> infix d (tuple_text ds).
Proof.
  intros H. unfold tuple_text.
  assert (G : infix d ("(" ++ join "," ds ++ ")")).
  { apply infix_app_r, infix_app_l, infix_join; exact H. }
  destruct ds as [|x [|y ds']]; try exact G.
  destruct H as [->|[]]. apply infix_app_r, infix_app_l, infix_refl.
Qed.

Lemma infix_cons x c s : infix x s -> infix x (String c s).
Proof. intros (p & q & ->). exists (String c p), q. reflexivity. Qed.

(** [x] occurs syntactically in a concatenation *)
Ltac infix_tac :=
  match goal with
  | |- infix ?d ?d => apply infix_refl
  | H : infix ?d ?x |- infix ?d ?x => exact H
  | |- infix ?d (String _ _) => apply infix_cons; infix_tac
  | |- infix ?d (?d ++ _) => apply infix_app_l, infix_refl
  | |- infix ?d (join _ _ ++ _) => apply infix_app_l, infix_join; assumption
  | |- infix ?d (join _ _) => apply infix_join; assumption
  | |- infix ?d (_ ++ _) => apply infix_app_r; infix_tac
  end.

(** ** traces of [resolve] calls *)
Section Trace.
  Variable rec : cache -> N -> result (string * cache).

  Inductive chain : cache -> list (N * string) -> cache -> Prop :=
  | chain_nil c : chain c [] c
  | chain_cons c ch s c1 tr c' :
      rec c ch = Ok (s, c1) -> chain c1 tr c' -> chain c ((ch, s) :: tr) c'.

  Lemma chain_app c tr1 c1 tr2 c2 : chain c tr1 c1 -> chain c1 tr2 c2 -> chain c (tr1 ++ tr2)%list c2.
  Proof. induction 1; intros H2; cbn; [exact H2|]. econstructor; eauto. Qed.

  Lemma chain_one c ch s c' : rec c ch = Ok (s, c') -> chain c [(ch, s)] c'.
  Proof. intros H. econstructor; [exact H|constructor]. Qed.

  (** every call text is a substring of [s] *)
  Definition tr_in (s : string) (tr : list (N * string)) : Prop :=
    Forall (fun y => infix (snd y) s) tr.

  Lemma tr_in_mono s s' tr : infix s s' -> tr_in s tr -> tr_in s' tr.
  Proof.
    intros H. unfold tr_in. apply Forall_impl. intros y Hy. eapply infix_trans; eassumption.
  Qed.

  Lemma mapS_chain {A} (f : cache -> A -> result (string * cache)) (G : A -> N -> Prop) :
    (forall c x s c', f c x = Ok (s, c') ->
       exists tr, chain c tr c' /\ (forall ch, G x ch -> In ch (map fst tr)) /\ tr_in s tr) ->
    forall l c ds c', mapS f c l = Ok (ds, c') ->
      exists tr, chain c tr c'
                 /\ (forall x ch, In x l -> G x ch -> In ch (map fst tr))
                 /\ Forall (fun y => exists d, In d ds /\ infix (snd y) d) tr.
  Proof.
    intros Hf. induction l as [|x l IH]; intros c ds c' H; cbn [mapS] in H.
    - inversion H; subst. exists []. split; [constructor|]. split; [intros ? ? []|constructor].
    - apply bind_ok in H as ([d c1] & E1 & H). apply bind_ok in H as ([ds' c2] & E2 & H).
      inversion H; subst ds c'. clear H.
      destruct (Hf _ _ _ _ E1) as (tr1 & C1 & G1 & I1).
      destruct (IH _ _ _ E2) as (tr2 & C2 & G2 & I2).
      exists (tr1 ++ tr2)%list. split; [eapply chain_app; eauto|]. split.
      + intros y ch [->|Hy] Hg; rewrite map_app; apply in_or_app; [left; eauto|right; eauto].
      + apply Forall_app. split.
        * eapply Forall_impl; [|exact I1]. intros y Hy. exists d. split; [left; reflexivity|exact Hy].
        * eapply Forall_impl; [|exact I2]. intros y (d' & Hd & Hy). exists d'.
          split; [right; exact Hd|exact Hy].
  Qed.

  Lemma field_desc_chain c f s c' :
    field_desc rec c f = Ok (s, c') ->
    exists tr, chain c tr c' /\ (forall ch, ch = f_ty f -> In ch (map fst tr)) /\ tr_in s tr.
  Proof.
    unfold field_desc. intros H. apply bind_ok in H as ([d c1] & E & H).
    injection H as Hs Hc. subst s c'.
    exists [(f_ty f, d)]. split; [apply chain_one; exact E|]. split.
    - intros ch ->. left; reflexivity.
    - constructor; [|constructor]. cbn [snd].
      destruct (f_name f); destruct (is_boxed f); infix_tac.
  Qed.

  Lemma paren_unit J : "(" ++ J ++ ")" = "()" -> J = "".
  Proof.
    cbn. intros H. inversion H as [H1]. destruct J as [|a J]; [reflexivity|].
    cbn in H1. inversion H1 as [[Ha H2]]. destruct J; discriminate.
  Qed.

  Lemma fields_desc_chain c fs s c' :
    fields_desc rec c fs = Ok (s, c') ->
    exists tr, chain c tr c' /\ (forall f, In f fs -> In (f_ty f) (map fst tr)) /\ tr_in s tr
               /\ (s = "()" -> Forall (fun y => snd y = "") tr).
  Proof.
    unfold fields_desc. destruct fs as [|f0 fs0] eqn:Efs.
    - intros H. inversion H; subst. exists []. split; [constructor|]. split; [intros ? []|].
      split; constructor.
    - rewrite <- Efs. clear Efs f0 fs0.
      assert (Hm : forall ds c1, mapS (field_desc rec) c fs = Ok (ds, c1) ->
                exists tr, chain c tr c1 /\ (forall f, In f fs -> In (f_ty f) (map fst tr))
                           /\ Forall (fun y => exists d, In d ds /\ infix (snd y) d) tr).
      { intros ds c1 E.
        destruct (mapS_chain (field_desc rec) (fun f ch => ch = f_ty f)
                    (fun c x s c' H => field_desc_chain c x s c' H) fs c ds c1 E)
          as (tr & C & G & I).
        exists tr. split; [exact C|]. split; [|exact I]. intros f Hf. eapply G; eauto. }
      intros H.
      destruct (all_named fs && negb (all_unnamed fs)).
      + apply bind_ok in H as ([ds c1] & E & H). injection H as Hs Hc. subst s c'.
        destruct (Hm _ _ E) as (tr & C & G & I). exists tr. split; [exact C|]. split; [exact G|].
        split; [|cbn; discriminate].
        eapply Forall_impl; [|exact I]. intros y (d & Hd & Hy). eapply infix_trans; [exact Hy|].
        infix_tac.
      + destruct (negb (all_named fs) && all_unnamed fs); [|discriminate].
        apply bind_ok in H as ([ds c1] & E & H). injection H as Hs Hc. subst s c'.
        destruct (Hm _ _ E) as (tr & C & G & I). exists tr. split; [exact C|]. split; [exact G|].
        split.
        * eapply Forall_impl; [|exact I]. intros y (d & Hd & Hy). eapply infix_trans; [exact Hy|].
          infix_tac.
        * intros Hu. apply paren_unit in Hu.
          eapply Forall_impl; [|exact I]. intros y (d & Hd & Hy).
          assert (d = "") as ->.
          { apply infix_empty. rewrite <- Hu. apply infix_join; exact Hd. }
          apply infix_empty; exact Hy.
  Qed.

  Lemma variant_desc_chain c v s c' :
    variant_desc rec c v = Ok (s, c') ->
    exists tr, chain c tr c'
               /\ (forall ch, (exists f, In f (v_fields v) /\ ch = f_ty f) -> In ch (map fst tr))
               /\ tr_in s tr.
  Proof.
    unfold variant_desc. intros H. apply bind_ok in H as ([fsd c1] & E & H).
    injection H as Hs Hc. subst s c'.
    destruct (fields_desc_chain _ _ _ _ E) as (tr & C & G & I & U).
    exists tr. split; [exact C|]. split.
    - intros ch (f & Hf & ->). apply G; exact Hf.
    - destruct (String.eqb_spec fsd "()") as [->|_].
      + eapply Forall_impl; [|exact (U eq_refl)]. intros y ->. apply infix_nil.
      + eapply tr_in_mono; [|exact I]. infix_tac.
  Qed.

  Lemma rec_chain c ch s c' :
    rec c ch = Ok (s, c') ->
    exists tr, chain c tr c' /\ (forall x, x = ch -> In x (map fst tr)) /\ tr_in s tr.
  Proof.
    intros H. exists [(ch, s)]. split; [apply chain_one; exact H|]. split.
    - intros x ->. left; reflexivity.
    - constructor; [apply infix_refl|constructor].
  Qed.

  Lemma typedef_desc_chain c d s c' :
    typedef_desc rec c d = Ok (s, c') ->
    exists tr, chain c tr c' /\ (forall ch, In ch (def_ids d) -> In ch (map fst tr)) /\ tr_in s tr.
  Proof.
    destruct d as [fs|vs|e|len e|ts|p|e|store order]; cbn [typedef_desc def_ids]; intros H.
    - destruct (fields_desc_chain _ _ _ _ H) as (tr & C & G & I & _).
      exists tr. split; [exact C|]. split; [|exact I].
      intros ch Hch. apply in_map_iff in Hch as (f & <- & Hf). apply G; exact Hf.
    - apply bind_ok in H as ([ds c1] & E & H). injection H as Hs Hc. subst s c'.
      destruct (mapS_chain (variant_desc rec)
                  (fun v ch => exists f, In f (v_fields v) /\ ch = f_ty f)
                  (fun c x s c' H => variant_desc_chain c x s c' H) vs c ds c1 E)
        as (tr & C & G & I).
      exists tr. split; [exact C|]. split.
      + intros ch Hch. apply in_flat_map in Hch as (v & Hv & Hch).
        apply in_map_iff in Hch as (f & <- & Hf). eapply G; eauto.
      + eapply Forall_impl; [|exact I]. intros y (d & Hd & Hy). eapply infix_trans; [exact Hy|].
        infix_tac.
    - apply bind_ok in H as ([d c1] & E & H). injection H as Hs Hc. subst s c'.
      exists [(e, d)]. split; [apply chain_one; exact E|]. split.
      + intros ch [<-|[]]. left; reflexivity.
      + constructor; [|constructor]. cbn [snd]. infix_tac.
    - apply bind_ok in H as ([d c1] & E & H). injection H as Hs Hc. subst s c'.
      exists [(e, d)]. split; [apply chain_one; exact E|]. split.
      + intros ch [<-|[]]. left; reflexivity.
      + constructor; [|constructor]. cbn [snd]. infix_tac.
    - apply bind_ok in H as ([ds c1] & E & H). injection H as Hs Hc. subst s c'.
      destruct (mapS_chain rec (fun x ch => ch = x)
                  (fun c x s c' H => rec_chain c x s c' H) ts c ds c1 E) as (tr & C & G & I).
      exists tr. split; [exact C|]. split.
      + intros ch Hch. eapply G; eauto.
      + eapply Forall_impl; [|exact I]. intros y (d & Hd & Hy). eapply infix_trans; [exact Hy|].
        apply infix_tuple_text; exact Hd.
    - inversion H; subst. exists []. split; [constructor|]. split; [intros ? []|constructor].
    - apply bind_ok in H as ([d c1] & E & H). injection H as Hs Hc. subst s c'.
      exists [(e, d)]. split; [apply chain_one; exact E|]. split.
      + intros ch [<-|[]]. left; reflexivity.
      + constructor; [|constructor]. cbn [snd]. infix_tac.
    - apply bind_ok in H as ([o c1] & E1 & H). apply bind_ok in H as ([st c2] & E2 & H).
      injection H as Hs Hc. subst s c'.
      exists [(order, o); (store, st)]. split.
      + econstructor; [exact E1|]. apply chain_one; exact E2.
      + split.
        * intros ch [<-|[<-|[]]]; cbn; auto.
        * constructor; [|constructor; [|constructor]]; cbn [snd].
          -- infix_tac.
          -- infix_tac.
  Qed.
End Trace.

(** ** the invariant of [Transformer::resolve] *)
Section Invariant.
  Variable r : registry.
  Variable nf : nat.

  (** [j] is written out in full inside [s]: prefix, name with generic
      arguments, and a description of its definition *)
  Definition expanded (j : N) (s : string) : Prop :=
    exists t nm body f c1 c2,
      resolve r j = Some t /\
      (if is_named t then tname r nf t else Ok "") = Ok nm /\
      typedef_desc (dresolve r nf f) c1 (t_def t) = Ok (body, c2) /\
      infix (def_prefix (t_def t) ++ nm ++ body) s.

  Lemma expanded_mono j s s' : infix s s' -> expanded j s -> expanded j s'.
  Proof.
    intros H (t & nm & body & f & c1 & c2 & A & B & C & D).
    exists t, nm, body, f, c1, c2. repeat split; try assumption. eapply infix_trans; eassumption.
  Qed.

  Definition shrinks_ip (c c' : cache) : Prop :=
    forall j, cache_get c' j = Some CRec -> cache_get c j = Some CRec.
  Definition closed_done (c : cache) : Prop :=
    forall j s t, cache_get c j = Some (CDone s) -> resolve r j = Some t ->
      forall ch, In ch (def_ids (t_def t)) -> cache_mem c ch = true.
  Definition newly (c c' : cache) (j : N) : Prop :=
    cache_mem c j = false /\ cache_mem c' j = true.

  Definition call_inv (c : cache) (id : N) (s : string) (c' : cache) : Prop :=
    cache_mem c' id = true /\ ext c c' /\ shrinks_ip c c' /\
    (closed_done c -> closed_done c') /\
    (forall j, newly c c' j -> expanded j s).

  Lemma cache_get_put c id v j :
    cache_get (cache_put c id v) j = if N.eqb id j then Some v else cache_get c j.
  Proof. reflexivity. Qed.

  Lemma chain_inv rec :
    (forall c ch s c', rec c ch = Ok (s, c') -> call_inv c ch s c') ->
    forall c tr c', chain rec c tr c' ->
      ext c c' /\ shrinks_ip c c' /\ (closed_done c -> closed_done c') /\
      (forall y, In y tr -> cache_mem c' (fst y) = true) /\
      (forall j, newly c c' j -> exists y, In y tr /\ expanded j (snd y)).
  Proof.
    intros Hrec. induction 1 as [c|c ch s c1 tr c' E Hc IH].
    - split; [apply ext_refl|]. split; [intros j H; exact H|]. split; [auto|].
      split; [intros ? []|]. intros j [A B]. congruence.
    - destruct (Hrec _ _ _ _ E) as (M1 & X1 & S1 & D1 & N1).
      destruct IH as (X2 & S2 & D2 & M2 & N2).
      split; [eapply ext_trans; eassumption|].
      split; [intros j Hj; apply S1, S2, Hj|].
      split; [auto|].
      split.
      + intros y [<-|Hy]; [apply X2; exact M1|apply M2; exact Hy].
      + intros j [A B]. destruct (cache_mem c1 j) eqn:Ej.
        * exists (ch, s). split; [left; reflexivity|]. apply N1. split; assumption.
        * destruct (N2 j (conj Ej B)) as (y & Hy & Ey). exists y. split; [right; exact Hy|exact Ey].
  Qed.

  Lemma dresolve_inv : forall fuel c id s c',
    dresolve r nf fuel c id = Ok (s, c') -> call_inv c id s c'.
  Proof.
    induction fuel as [|f IH]; intros c id s c' H; cbn [dresolve] in H; [discriminate|].
    destruct (resolve r id) as [t|] eqn:Hr; [|discriminate].
    (* returning without touching the cache *)
    assert (Hsame : cache_mem c id = true -> c' = c -> call_inv c id s c').
    { intros Hm ->. split; [exact Hm|]. split; [apply ext_refl|]. split; [intros j Hj; exact Hj|].
      split; [auto|]. intros j [A B]. congruence. }
    (* expansion *)
    assert (Hexp : (let* (d, c1) := ty_desc (tname r nf) (dresolve r nf f) (cache_put c id CRec) t in
                    Ok (d, cache_put c1 id (CDone d))) = Ok (s, c') ->
                   cache_get c id <> Some (CDone s) \/ True -> call_inv c id s c').
    { intros E _. apply bind_ok in E as ([d c1] & E & E'). injection E' as Ed Ec. subst d c'.
      unfold ty_desc in E. apply bind_ok in E as (nm & Enm & E).
      apply bind_ok in E as ([body c2] & Eb & E). injection E as Es Ec. subst c2.
      set (c0 := cache_put c id CRec) in *.
      destruct (typedef_desc_chain _ _ _ _ _ Eb) as (tr & C & G & I).
      destruct (chain_inv _ IH _ _ _ C) as (X & S & D & M & Nw).
      assert (Hbody : infix body s).
      { rewrite <- Es. infix_tac. }
      split; [rewrite cache_mem_put, N.eqb_refl; reflexivity|].
      split.
      { eapply ext_trans; [apply ext_put|]. eapply ext_trans; [exact X|apply ext_put]. }
      split.
      { intros j Hj. rewrite cache_get_put in Hj. destruct (N.eqb id j) eqn:Eij; [discriminate|].
        apply S in Hj. unfold c0 in Hj. rewrite cache_get_put, Eij in Hj. exact Hj. }
      split.
      { intros Dc.
        assert (D0 : closed_done c0).
        { intros j sj tj Hg Hrj ch Hch. unfold c0 in Hg. rewrite cache_get_put in Hg.
          destruct (N.eqb id j); [discriminate|].
          unfold c0. apply ext_put. eapply Dc; eassumption. }
        specialize (D D0).
        intros j sj tj Hg Hrj ch Hch. rewrite cache_get_put in Hg.
        apply ext_put.
        destruct (N.eqb_spec id j) as [<-|Hne].
        - rewrite Hr in Hrj. inversion Hrj; subst tj.
          apply G in Hch. apply in_map_iff in Hch as (y & <- & Hy). apply M; exact Hy.
        - eapply D; eassumption. }
      intros j [A B].
      destruct (N.eqb_spec id j) as [<-|Hne].
      - exists t, nm, body, f, c0, c1. repeat split; try assumption.
        rewrite Es. apply infix_refl.
      - assert (B1 : cache_mem c1 j = true).
        { rewrite cache_mem_put in B. apply N.eqb_neq in Hne. rewrite Hne in B. exact B. }
        assert (A0 : cache_mem c0 j = false).
        { unfold c0. rewrite cache_mem_put. apply N.eqb_neq in Hne. rewrite Hne. exact A. }
        destruct (Nw j (conj A0 B1)) as (y & Hy & Ey).
        eapply expanded_mono; [|exact Ey].
        eapply infix_trans; [|exact Hbody].
        unfold tr_in in I. rewrite Forall_forall in I. apply I; exact Hy. }
    assert (Hmem : forall e, cache_get c id = Some e -> cache_mem c id = true).
    { intros e He. unfold cache_mem. rewrite He. reflexivity. }
    destruct (cache_get c id) as [[|s0]|] eqn:Eg.
    - destruct (is_named t).
      + apply bind_ok in H as (nm & _ & H). inversion H; subst. apply Hsame; eauto.
      + apply Hexp; auto.
    - destruct (is_named t).
      + apply bind_ok in H as (nm & _ & H). inversion H; subst. apply Hsame; eauto.
      + inversion H; subst. apply Hsame; eauto.
    - apply Hexp; auto.
  Qed.
End Invariant.

(** ** reachability through fields, variants' fields and element types *)
Inductive reach (r : registry) (id : N) : N -> Prop :=
| reach_refl : reach r id id
| reach_step i t ch :
    reach r id i -> resolve r i = Some t -> In ch (def_ids (t_def t)) -> reach r id ch.

Theorem describe_expanded r id s :
  describe r id = Ok s ->
  forall j, reach r id j -> expanded r (name_fuel r) j s.
Proof.
  unfold describe, describe_with. intros H.
  apply bind_ok in H as ([d c'] & E & H). inversion H; subst d. clear H.
  destruct (dresolve_inv r (name_fuel r) _ _ _ _ _ E) as (M & X & S & D & Nw).
  assert (Dc : closed_done r c').
  { apply D. intros j sj tj Hg. discriminate. }
  assert (Hdom : forall j, reach r id j -> cache_mem c' j = true).
  { induction 1 as [|i t ch Hi IH Hr Hch]; [exact M|].
    unfold cache_mem in IH. destruct (cache_get c' i) as [[|si]|] eqn:Eg; try discriminate.
    - apply S in Eg. discriminate.
    - eapply Dc; eassumption. }
  intros j Hj. apply Nw. split; [reflexivity|apply Hdom; exact Hj].
Qed.

(** non-vacuity on the cyclic example registry: B (id 2) and Option<A> (id 3)
    are reachable from A (id 0), which is reachable from itself through them *)
Example ex_reach : reach ex_registry 0 2 /\ reach ex_registry 0 3 /\ reach ex_registry 3 3.
Proof.
  assert (R1 : reach ex_registry 0 1).
  { eapply reach_step; [apply reach_refl|reflexivity|cbn; auto]. }
  assert (R2 : reach ex_registry 0 2).
  { eapply reach_step; [exact R1|reflexivity|cbn; auto]. }
  split; [exact R2|]. split.
  - eapply reach_step; [exact R2|reflexivity|cbn; auto].
  - assert (R30 : reach ex_registry 3 0).
    { eapply reach_step; [apply reach_refl|reflexivity|cbn; auto]. }
    assert (R31 : reach ex_registry 3 1).
    { eapply reach_step; [exact R30|reflexivity|cbn; auto]. }
    assert (R32 : reach ex_registry 3 2).
    { eapply reach_step; [exact R31|reflexivity|cbn; auto]. }
    eapply reach_step; [exact R32|reflexivity|cbn; auto].
Qed.
