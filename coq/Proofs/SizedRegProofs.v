(** C02, indirection clause from a decidable condition on the registry.

    1. [item_edge_iff]: on a registry that generates, the by-value graph of the generated items
       ([item_edge], Model/Sized.v) is exactly the by-value graph of the registry
       ([reg_bv_edge], Model/SizedReg.v): [item_edge_reg] and [reg_edge_item].
    2. [by_value_acyclicb_rank]: when the boolean [by_value_acyclicb] holds, the computed rank
       [bv_rank_of] strictly decreases along every registry edge; [by_value_acyclicb_iff]: the
       boolean holds exactly when the registry graph has no cycle (Proofs/RankGraph.v).
    3. [sized]: hence the generated items have no by-value cycle; [sized_iff]: and the boolean
       fails exactly when they have one. *)
From Coq Require Import List NArith String Bool Lia.
From V Require Import Base.Util Base.Strings Base.Result Model.Registry Model.Settings Model.Subst
  Model.TypePath Model.Derives Model.Generate Model.Emit Model.Equal Model.WellFormed Model.Shape Model.Sized
  Model.SizedReg
  Proofs.GenProofs Proofs.ResolveTotal Proofs.GenTotal Proofs.FidelityGen Proofs.ClosedProofs
  Proofs.SizedProofs Proofs.RankGraph.
From V Require Proofs.ShapeBool.
Import ListNotations.
Open Scope string_scope. Open Scope list_scope. Open Scope nat_scope.

(** ** the registry graph as rows, and the rank check on it (Proofs/RankGraph.v) *)
Lemma reg_bv_edge_graph r s pa pb : reg_bv_edge r s pa pb <-> graph_edge (bv_graph r s) pa pb.
Proof.
  split.
  - intros (id & t & Efe & Hs). destruct (first_eligible_some _ _ _ _ _ Efe) as (Hin & Hp & Hel).
    exists (entry_succs r s t). split; [|exact Hs].
    unfold bv_graph. apply in_flat_map. exists (id, t). split; [exact Hin|].
    cbn [snd]. rewrite Hel, Hp, Efe. left. reflexivity.
  - intros (succs & Hin & Hpb). unfold bv_graph in Hin.
    apply in_flat_map in Hin as ([id t] & Hin & Hrow).
    cbn [snd] in Hrow. destruct (item_eligible s t); [|destruct Hrow].
    destruct (first_eligible r s (t_path t)) as [[id0 t0]|] eqn:Efe; [|destruct Hrow].
    destruct Hrow as [E|[]]. inversion E; subst. exists id0, t0. auto.
Qed.

Lemma walk_mono {A} (E E' : A -> A -> Prop) :
  (forall a b, E a b -> E' a b) -> forall n a b, walk E n a b -> walk E' n a b.
Proof.
  intros H. induction n as [|n IH]; intros a b W; cbn [walk] in *; [auto|].
  destruct W as (c & Hac & W). exists c. split; [auto|]. apply IH. exact W.
Qed.

Theorem rank_okb_reg r s rk :
  rank_okb (bv_graph r s) rk = true ->
  forall pa pb, reg_bv_edge r s pa pb -> rk pb < rk pa.
Proof.
  intros H pa pb He. apply (rank_okb_sound _ _ H). apply reg_bv_edge_graph. exact He.
Qed.

Theorem by_value_acyclicb_rank r s :
  by_value_acyclicb r s = true ->
  forall pa pb, reg_bv_edge r s pa pb -> bv_rank_of r s pb < bv_rank_of r s pa.
Proof. unfold by_value_acyclicb, bv_rank_of. cbv zeta. apply rank_okb_reg. Qed.

(** the boolean decides acyclicity of the registry's by-value graph *)
Theorem by_value_acyclicb_iff r s :
  by_value_acyclicb r s = true <-> (forall n p, ~ walk (reg_bv_edge r s) n p p).
Proof.
  split.
  - intros H. apply (walk_acyclic (reg_bv_edge r s) (bv_rank_of r s)).
    exact (by_value_acyclicb_rank r s H).
  - intros Hac. unfold by_value_acyclicb, bv_rank_table. cbv zeta. apply rank_okb_complete.
    intros n p W. apply (Hac n p). revert W. apply walk_mono.
    intros a b. apply reg_bv_edge_graph.
Qed.

(** a failing check exhibits a cycle of the registry graph *)
Theorem by_value_acyclicb_false_cycle r s :
  by_value_acyclicb r s = false -> exists n p, walk (reg_bv_edge r s) n p p.
Proof.
  unfold by_value_acyclicb, bv_rank_table. cbv zeta. intros H.
  destruct (rank_okb_false_cycle _ H) as (n & c & W). exists n, c. revert W. apply walk_mono.
  intros a b. apply reg_bv_edge_graph.
Qed.

(** ** item edges are registry edges *)
Section SizedReg.
  Variable r : registry.
  Variable s : settings.
  Hypothesis Hfresh : root_fresh s.

  (** every rooted by-value node of [t] is [root :: p] for a path [p] of the list [L] *)
  Definition node_in (L : list (list string)) (t : tpath) : Prop :=
    forall ptoks params, In (TPath ptoks params) (bv_subpaths t) ->
    hd_error ptoks = Some (s_root s) ->
    exists p, ptoks = rel_path (s_root s :: p) /\ In p L.

  Lemma node_in_incl L L' t : (forall p, In p L -> In p L') -> node_in L t -> node_in L' t.
  Proof.
    intros Hi H ptoks params Hin Hh. destruct (H ptoks params Hin Hh) as (p & A & B).
    exists p. split; [exact A|]. apply Hi. exact B.
  Qed.

  Lemma node_in_path L toks ps :
    (hd_error toks = Some (s_root s) -> exists p, toks = rel_path (s_root s :: p) /\ In p L) ->
    (transparent_toksb toks = true -> forall x, In x ps -> node_in L x) ->
    node_in L (TPath toks ps).
  Proof.
    intros Hself Hch pt pp Hin Hh. cbn [bv_subpaths] in Hin. destruct Hin as [E|Hin].
    - inversion E; subst. auto.
    - destruct (transparent_toksb toks); [|destruct Hin].
      apply in_flat_map in Hin as (x & Hx & Hin). exact (Hch eq_refl x Hx pt pp Hin Hh).
  Qed.

  Lemma node_in_flat L es : (forall x, In x es -> node_in L x) ->
    forall ptoks params, In (TPath ptoks params) (flat_map bv_subpaths es) ->
    hd_error ptoks = Some (s_root s) ->
    exists p, ptoks = rel_path (s_root s :: p) /\ In p L.
  Proof.
    intros H pt pp Hin Hh. apply in_flat_map in Hin as (x & Hx & Hin). exact (H x Hx pt pp Hin Hh).
  Qed.

  Lemma maybe_subst_targets t params L x :
    (args_by_value s (t_path t) = true -> forall y, In y params -> node_in L y) ->
    (item_node s t = true -> In (t_path t) L) ->
    type_path_maybe_with_substitutes s (t_path t) params = Ok x -> node_in L x.
  Proof.
    destruct Hfresh as (Hcolon & Halloc & Hsubs).
    intros Hparams Hself. unfold type_path_maybe_with_substitutes, for_path_with_params.
    destruct (subs_get (s_subs s) (t_path t)) as [sub|] eqn:Esub.
    - destruct (subs_get_In _ _ _ Esub) as (k & Hk). pose proof (Hsubs _ _ Hk) as Hhead.
      destruct (su_map sub) as [|m] eqn:Em.
      + intros E. inversion E; subst. apply node_in_path.
        * rewrite print_spath_head. intros Hh. contradiction.
        * intros Htt. apply Hparams. unfold args_by_value. rewrite Esub, Em. exact Htt.
      + match goal with
        | |- match ?sel with [] => _ | _ => _ end = _ -> _ => destruct sel as [|y0 sel']
        end.
        * intros E. inversion E; subst. apply node_in_path; [|intros _ y []].
          rewrite print_spath_head. intros Hh. contradiction.
        * intros E. apply bind_ok in E as (repl & _ & E). inversion E; subst.
          apply node_in_path; [|intros _ y []].
          rewrite print_spath_head, replace_spath_head. intros Hh. contradiction.
    - intros E. apply bind_ok in E as (toks & Ht & E). inversion E; subst.
      apply node_in_path.
      + intros Hh. unfold from_type_def_path in Ht.
        destruct (t_path t) as [|a [|b l]] eqn:Ep; [discriminate| |].
        * destruct (assoc_str (prelude_table (alloc_tokens (s_alloc s))) a) as [toks'|] eqn:Ea;
            [|discriminate].
          inversion Ht; subst. exfalso. exact (prelude_head _ _ _ _ Hcolon Halloc Ea Hh).
        * destruct (forallb path_seg_okb (a :: b :: l)); [|discriminate]. inversion Ht; subst.
          exists (a :: b :: l). split; [reflexivity|]. apply Hself.
          unfold item_node. rewrite Ep, Esub. reflexivity.
      + intros Htt. apply Hparams. unfold args_by_value. rewrite Esub, Ht. exact Htt.
  Qed.

  Lemma cow_step_through t0 t : cow_step r t0 = Ok t -> cow_through r t0 = Some t.
  Proof.
    rewrite cow_step_eq. unfold cow_through.
    change (is_cow_name (path_ident (t_path t0))) with (is_cow (path_ident (t_path t0))).
    destruct (is_cow (path_ident (t_path t0))).
    - destruct (t_params t0) as [|p0 ps]; [discriminate|].
      destruct (tp_ty p0) as [inner|]; [|discriminate].
      unfold resolve_type. destruct (resolve r inner) as [t'|]; [|discriminate].
      intros H. inversion H; subst. reflexivity.
    - intros H. inversion H; subst. reflexivity.
  Qed.

  Lemma resolve_rec_targets : forall fuel id is_field parents orig t,
    resolve_rec r s fuel id is_field parents orig = Ok t ->
    node_in (bv_targets r s fuel parents orig id) t.
  Proof.
    induction fuel as [|fuel IH]; intros id is_field parents orig t H; [discriminate|].
    rewrite resolve_rec_S in H. cbn [bv_targets].
    destruct (find_parent parents id orig) as [p|].
    { inversion H; subst. intros pt ps []. }
    apply bind_ok in H as (t0 & Ht0 & H). apply bind_ok in H as (t1 & Hcs & H).
    apply bind_ok in H as (params & Hps & H).
    unfold resolve_type in Ht0. destruct (resolve r id) as [t0'|] eqn:Er; [|discriminate].
    inversion Ht0; subst t0'. rewrite (cow_step_through _ _ Hcs).
    assert (Hparams : forall y, In y params ->
              exists c, In c (param_ids t1) /\ node_in (bv_targets r s fuel parents None c) y).
    { intros y Hy. destruct (mapM_ok_In _ _ _ _ Hps Hy) as (c & Hc & Hcy). exists c.
      split; [exact Hc|]. eapply IH; eauto. }
    unfold resolve_def in H.
    assert (Hcv : forall L,
      (args_by_value s (t_path t1) = true ->
       forall c, In c (param_ids t1) -> forall p, In p (bv_targets r s fuel parents None c) -> In p L) ->
      (item_node s t1 = true -> In (t_path t1) L) ->
      type_path_maybe_with_substitutes s (t_path t1) params = Ok t -> node_in L t).
    { intros L HL Hself. apply maybe_subst_targets; [|exact Hself].
      intros Htr y Hy. destruct (Hparams y Hy) as (c & Hc & Hn).
      apply (node_in_incl (bv_targets r s fuel parents None c)); [|exact Hn]. exact (HL Htr c Hc). }
    assert (HcvL : type_path_maybe_with_substitutes s (t_path t1) params = Ok t ->
      node_in ((if item_node s t1 then [t_path t1] else []) ++
               (if args_by_value s (t_path t1)
                then flat_map (bv_targets r s fuel parents None) (param_ids t1) else [])) t).
    { apply Hcv.
      - intros Htr c Hc p Hp. apply in_or_app. right. rewrite Htr. apply in_flat_map.
        exists c. split; assumption.
      - intros Hit. apply in_or_app. left. rewrite Hit. left. reflexivity. }
    destruct (t_def t1) as [fs|vs|e|len e|es|p|e|store order] eqn:Ed.
    - exact (HcvL H).
    - exact (HcvL H).
    - apply bind_ok in H as (i & Hi & H). inversion H; subst. intros pt ps [].
    - apply bind_ok in H as (i & Hi & H). inversion H; subst.
      change (node_in (bv_targets r s fuel parents None e) i). eapply IH; eauto.
    - apply bind_ok in H as (l & Hl & H). inversion H; subst.
      intros pt ps Hin Hh. cbn [bv_subpaths] in Hin. revert pt ps Hin Hh. apply node_in_flat.
      intros x Hx. destruct (mapM_ok_In _ _ _ _ Hl Hx) as (c & Hc & Hcx).
      apply (node_in_incl (bv_targets r s fuel parents None c)).
      + intros p Hp. apply in_flat_map. exists c. split; assumption.
      + eapply IH; eauto.
    - inversion H; subst. intros pt ps [].
    - apply bind_ok in H as (i & Hi & H). destruct (s_compact s) as [c|]; [|discriminate].
      inversion H; subst. change (node_in (bv_targets r s fuel parents None e) i). eapply IH; eauto.
    - destruct (s_bits s) as [b|]; [|discriminate].
      apply bind_ok in H as (o & Ho & H). apply bind_ok in H as (st & Hst & H). inversion H; subst.
      intros pt ps [].
  Qed.

  (** fields of an item: the [Box] flag is the registry's, the rooted by-value nodes are among
      the registry-level targets of the field *)
  Definition field_tg (params : list tparam_ir) (fs : list field) (fi : field_ir) : Prop :=
    exists f0, In f0 fs /\ fi_boxed fi = is_boxed_gen f0 /\
               node_in (bv_targets r s (fuel0 r) params (f_type_name f0) (f_ty f0)) (fi_path fi).

  Lemma field_ir_of_tg params f fi : field_ir_of r s params f = Ok fi -> field_tg params [f] fi.
  Proof.
    unfold field_ir_of, resolve_field_type_path. intros H. apply bind_ok in H as (p & Hp & H).
    inversion H; subst. exists f. split; [left; reflexivity|]. split; [reflexivity|].
    cbn [fi_path]. eapply resolve_rec_targets; eauto.
  Qed.

  Lemma field_tg_incl params fs fs' fi :
    (forall f, In f fs -> In f fs') -> field_tg params fs fi -> field_tg params fs' fi.
  Proof. intros Hi (f0 & Hin & A & B). exists f0. split; [apply Hi; exact Hin|]. split; assumption. Qed.

  Lemma cck_tg fs params unused k u :
    create_composite_ir_kind r s fs params unused = Ok (k, u) ->
    forall f, In f (ckind_fields k) -> field_tg params fs f.
  Proof.
    unfold create_composite_ir_kind. intros H f Hf.
    destruct fs as [|f0 fs0]; [inversion H; subst; destruct Hf|].
    destruct (negb (all_named (f0 :: fs0) || all_unnamed (f0 :: fs0))); [discriminate|].
    destruct (all_named (f0 :: fs0)).
    - apply bind_ok in H as (l & Hl & H). inversion H; subst. cbn [ckind_fields] in Hf.
      apply in_map_iff in Hf as (x & <- & Hx). destruct (mapM_ok_In _ _ _ _ Hl Hx) as (f1 & Hin1 & Hf1).
      apply bind_ok in Hf1 as (nm & _ & Hf1). apply bind_ok in Hf1 as (fi & Hfi & Hf1).
      inversion Hf1; subst. cbn [snd]. apply (field_tg_incl params [f1]); [intros g [<-|[]]; exact Hin1|].
      eapply field_ir_of_tg; eauto.
    - apply bind_ok in H as (l & Hl & H). inversion H; subst. cbn [ckind_fields] in Hf.
      destruct (mapM_ok_In _ _ _ _ Hl Hf) as (f1 & Hin1 & Hf1).
      apply (field_tg_incl params [f1]); [intros g [<-|[]]; exact Hin1|]. eapply field_ir_of_tg; eauto.
  Qed.

  Lemma variants_ir_tg params : forall vs unused l u,
    GenTotal.variants_ir r s params vs unused = Ok (l, u) ->
    forall f, In f (flat_map (fun v => ckind_fields (ci_kind (snd v))) l) ->
    field_tg params (flat_map v_fields vs) f.
  Proof.
    induction vs as [|v vs IH]; intros unused l u H f Hf.
    - cbn in H. inversion H; subst. destruct Hf.
    - rewrite GenTotal.variants_ir_cons in H. apply bind_ok in H as (vn & _ & H).
      apply bind_ok in H as ([k u1] & Hk & H). apply bind_ok in H as ([l' u'] & Hrest & H).
      cbn [fst snd] in *. inversion H; subst. cbn [flat_map snd ci_kind] in Hf.
      apply in_app_or in Hf as [Hf|Hf].
      + apply (field_tg_incl params (v_fields v)); [intros g Hg; apply in_or_app; left; exact Hg|].
        eapply cck_tg; eauto.
      + apply (field_tg_incl params (flat_map v_fields vs)); [intros g Hg; apply in_or_app; right; exact Hg|].
        eapply IH; eauto.
  Qed.

  Lemma create_type_ir_tg t flat ir :
    create_type_ir r s t flat = Ok (Some ir) ->
    forall f, In f (kind_fields (ti_kind ir)) ->
    field_tg (params_from_scale_info (t_params t)) (def_fields (t_def t)) f.
  Proof.
    intros H. rewrite GenTotal.create_type_ir_eq in H.
    destruct (negb (is_composite_or_variant (t_def t))); [discriminate|]. cbv zeta in H.
    destruct (path_ident (t_path t)) as [nm|]; [|discriminate].
    apply bind_ok in H as (name & _ & H).
    apply bind_ok in H as ([[kind cdac] unused] & Hk & H).
    apply bind_ok in H as (d & _ & H). inversion H; subst; clear H. cbn [ti_kind].
    destruct (t_def t) as [fs|vs| | | | | | ]; try discriminate.
    - apply bind_ok in Hk as ([k u] & Hc & Hk). cbn [fst snd] in Hk. inversion Hk; subst.
      cbn [kind_fields ci_kind def_fields]. eapply cck_tg; eauto.
    - apply bind_ok in Hk as ([l u] & Hc & Hk). cbn [fst snd] in Hk. inversion Hk; subst.
      cbn [kind_fields def_fields]. eapply variants_ir_tg; eauto.
  Qed.

  Theorem item_edge_reg teq m :
    generate r s teq = Ok m -> forall pa pb, item_edge s m pa pb -> reg_bv_edge r s pa pb.
  Proof.
    intros Hg pa pb (id & ir & f & params & Hm & Hf & Hbox & Hnode).
    unfold generate in Hg. apply bind_ok in Hg as (u & _ & Hg). apply bind_ok in Hg as (flat & Hfl & Hg).
    pose proof (gen_loop_first r s teq flat r [] m Hg pa) as Hfirst. cbn [items_get] in Hfirst.
    rewrite Hm in Hfirst. unfold first_item in Hfirst.
    destruct (first_eligible r s pa) as [[id0 t]|] eqn:Efe; [|discriminate].
    destruct (create_type_ir r s t flat) as [[ir0|]|e|msg] eqn:Hcti; try discriminate.
    inversion Hfirst; subst id0 ir0.
    destruct (create_type_ir_tg _ _ _ Hcti f Hf) as (f0 & Hf0 & Hb & Hn).
    assert (Hh : hd_error (rel_path (s_root s :: pb)) = Some (s_root s)) by reflexivity.
    destruct (Hn _ _ Hnode Hh) as (p & Ep & Hp').
    apply rel_path_inj in Ep. subst p.
    exists id, t. split; [exact Efe|].
    unfold entry_succs. apply in_flat_map. exists f0. split; [exact Hf0|].
    rewrite <- Hb, Hbox. exact Hp'.
  Qed.

  (** ** the converse: every registry-level target is a rooted by-value node *)
  Definition node_of (t : tpath) (p : list string) : Prop :=
    exists params, In (TPath (rel_path (s_root s :: p)) params) (bv_subpaths t).

  Lemma maybe_subst_conv t params x p :
    type_path_maybe_with_substitutes s (t_path t) params = Ok x ->
    (item_node s t = true /\ p = t_path t) \/
    (args_by_value s (t_path t) = true /\ exists y, In y params /\ node_of y p) ->
    node_of x p.
  Proof.
    unfold type_path_maybe_with_substitutes, for_path_with_params, item_node, args_by_value.
    destruct (subs_get (s_subs s) (t_path t)) as [sub|] eqn:Esub.
    - destruct (su_map sub) as [|m] eqn:Em.
      + intros E [[H _]|(Htr & y & Hy & (pp & Hn))]; [discriminate|]. inversion E; subst.
        exists pp. cbn [bv_subpaths]. right. rewrite Htr. apply in_flat_map. exists y. split; assumption.
      + intros _ [[H _]|[H _]]; discriminate.
    - intros E. apply bind_ok in E as (toks & Ht & E). inversion E; subst.
      intros [[Hit ->]|(Htr & y & Hy & (pp & Hn))].
      + exists params. cbn [bv_subpaths]. left. f_equal. unfold from_type_def_path in Ht.
        destruct (t_path t) as [|a [|b l]]; try discriminate.
        destruct (forallb path_seg_okb (a :: b :: l)); [|discriminate]. inversion Ht. reflexivity.
      + rewrite Ht in Htr. exists pp. cbn [bv_subpaths]. right. rewrite Htr.
        apply in_flat_map. exists y. split; assumption.
  Qed.

  Lemma mapM_ok_fwd {A B} (f : A -> result B) : forall l ys x,
    mapM f l = Ok ys -> In x l -> exists y, In y ys /\ f x = Ok y.
  Proof.
    induction l as [|a l IH]; intros ys x H Hx; [destruct Hx|].
    cbn [mapM] in H. apply bind_ok in H as (y0 & Hy0 & H). apply bind_ok in H as (ys' & Hys & H).
    inversion H; subst. destruct Hx as [<-|Hx].
    - exists y0. split; [left; reflexivity|exact Hy0].
    - destruct (IH _ _ Hys Hx) as (y & Hy & Hf). exists y. split; [right; exact Hy|exact Hf].
  Qed.

  Lemma resolve_rec_targets_conv : forall fuel id is_field parents orig t,
    resolve_rec r s fuel id is_field parents orig = Ok t ->
    forall p, In p (bv_targets r s fuel parents orig id) -> node_of t p.
  Proof.
    induction fuel as [|fuel IH]; intros id is_field parents orig t H p Hp; [discriminate|].
    rewrite resolve_rec_S in H. cbn [bv_targets] in Hp.
    destruct (find_parent parents id orig) as [q|]; [destruct Hp|].
    apply bind_ok in H as (t0 & Ht0 & H). apply bind_ok in H as (t1 & Hcs & H).
    apply bind_ok in H as (params & Hps & H).
    unfold resolve_type in Ht0. destruct (resolve r id) as [t0'|] eqn:Er; [|discriminate].
    inversion Ht0; subst t0'. rewrite (cow_step_through _ _ Hcs) in Hp.
    unfold resolve_def in H.
    assert (Hcv : type_path_maybe_with_substitutes s (t_path t1) params = Ok t ->
      In p ((if item_node s t1 then [t_path t1] else []) ++
            (if args_by_value s (t_path t1)
             then flat_map (bv_targets r s fuel parents None) (param_ids t1) else [])) ->
      node_of t p).
    { intros Hm Hin. apply (maybe_subst_conv t1 params t p Hm).
      apply in_app_or in Hin as [Hin|Hin].
      - left. destruct (item_node s t1); [|destruct Hin]. destruct Hin as [<-|[]]. split; reflexivity.
      - right. destruct (args_by_value s (t_path t1)); [|destruct Hin]. split; [reflexivity|].
        apply in_flat_map in Hin as (c & Hc & Hin).
        destruct (mapM_ok_fwd _ _ _ _ Hps Hc) as (y & Hy & Hry). exists y. split; [exact Hy|].
        exact (IH _ _ _ _ _ Hry p Hin). }
    destruct (t_def t1) as [fs|vs|e|len e|es|pr|e|store order] eqn:Ed.
    - exact (Hcv H Hp).
    - exact (Hcv H Hp).
    - destruct Hp.
    - apply bind_ok in H as (i & Hi & H). inversion H; subst.
      destruct (IH _ _ _ _ _ Hi p Hp) as (pp & Hn). exists pp. exact Hn.
    - apply bind_ok in H as (l & Hl & H). inversion H; subst.
      apply in_flat_map in Hp as (c & Hc & Hp).
      destruct (mapM_ok_fwd _ _ _ _ Hl Hc) as (y & Hy & Hry).
      destruct (IH _ _ _ _ _ Hry p Hp) as (pp & Hn). exists pp. cbn [bv_subpaths].
      apply in_flat_map. exists y. split; assumption.
    - destruct Hp.
    - apply bind_ok in H as (i & Hi & H). destruct (s_compact s) as [c|]; [|discriminate].
      inversion H; subst. destruct (IH _ _ _ _ _ Hi p Hp) as (pp & Hn). exists pp. exact Hn.
    - destruct Hp.
  Qed.

  (** every field of the entry yields a field of the item *)
  Definition field_of (params : list tparam_ir) (f0 : field) (fi : field_ir) : Prop :=
    fi_boxed fi = is_boxed_gen f0 /\
    resolve_rec r s (fuel0 r) (f_ty f0) true params (f_type_name f0) = Ok (fi_path fi).

  Lemma field_ir_of_fwd params f fi : field_ir_of r s params f = Ok fi -> field_of params f fi.
  Proof.
    unfold field_ir_of, resolve_field_type_path. intros H. apply bind_ok in H as (p & Hp & H).
    inversion H; subst. split; [reflexivity|exact Hp].
  Qed.

  Lemma cck_fwd fs params unused k u :
    create_composite_ir_kind r s fs params unused = Ok (k, u) ->
    forall f0, In f0 fs -> exists fi, In fi (ckind_fields k) /\ field_of params f0 fi.
  Proof.
    unfold create_composite_ir_kind. intros H f0 Hf0.
    destruct fs as [|f1 fs0]; [destruct Hf0|].
    destruct (negb (all_named (f1 :: fs0) || all_unnamed (f1 :: fs0))); [discriminate|].
    destruct (all_named (f1 :: fs0)).
    - apply bind_ok in H as (l & Hl & H). inversion H; subst. cbn [ckind_fields].
      destruct (mapM_ok_fwd _ _ _ _ Hl Hf0) as ([nm fi] & Hin & Hy).
      apply bind_ok in Hy as (nm' & _ & Hy). apply bind_ok in Hy as (fi' & Hfi & Hy).
      inversion Hy; subst. exists fi. split; [|apply field_ir_of_fwd; exact Hfi].
      apply in_map_iff. exists (nm, fi). split; [reflexivity|exact Hin].
    - apply bind_ok in H as (l & Hl & H). inversion H; subst. cbn [ckind_fields].
      destruct (mapM_ok_fwd _ _ _ _ Hl Hf0) as (fi & Hin & Hy).
      exists fi. split; [exact Hin|apply field_ir_of_fwd; exact Hy].
  Qed.

  Lemma variants_ir_fwd params : forall vs unused l u,
    GenTotal.variants_ir r s params vs unused = Ok (l, u) ->
    forall f0, In f0 (flat_map v_fields vs) ->
    exists fi, In fi (flat_map (fun v => ckind_fields (ci_kind (snd v))) l) /\ field_of params f0 fi.
  Proof.
    induction vs as [|v vs IH]; intros unused l u H f0 Hf0; [destruct Hf0|].
    rewrite GenTotal.variants_ir_cons in H. apply bind_ok in H as (vn & _ & H).
    apply bind_ok in H as ([k u1] & Hk & H). apply bind_ok in H as ([l' u'] & Hrest & H).
    cbn [fst snd] in *. inversion H; subst. cbn [flat_map snd ci_kind] in *.
    apply in_app_or in Hf0 as [Hf0|Hf0].
    - destruct (cck_fwd _ _ _ _ _ Hk f0 Hf0) as (fi & Hin & Hfo). exists fi.
      split; [apply in_or_app; left; exact Hin|exact Hfo].
    - destruct (IH _ _ _ Hrest f0 Hf0) as (fi & Hin & Hfo). exists fi.
      split; [apply in_or_app; right; exact Hin|exact Hfo].
  Qed.

  Lemma create_type_ir_fwd t flat ir :
    create_type_ir r s t flat = Ok (Some ir) ->
    forall f0, In f0 (def_fields (t_def t)) ->
    exists fi, In fi (kind_fields (ti_kind ir)) /\ field_of (params_from_scale_info (t_params t)) f0 fi.
  Proof.
    intros H. rewrite GenTotal.create_type_ir_eq in H.
    destruct (negb (is_composite_or_variant (t_def t))); [discriminate|]. cbv zeta in H.
    destruct (path_ident (t_path t)) as [nm|]; [|discriminate].
    apply bind_ok in H as (name & _ & H).
    apply bind_ok in H as ([[kind cdac] unused] & Hk & H).
    apply bind_ok in H as (d & _ & H). inversion H; subst; clear H. cbn [ti_kind].
    destruct (t_def t) as [fs|vs| | | | | | ]; try discriminate.
    - apply bind_ok in Hk as ([k u] & Hc & Hk). cbn [fst snd] in Hk. inversion Hk; subst.
      cbn [kind_fields ci_kind def_fields]. eapply cck_fwd; eauto.
    - apply bind_ok in Hk as ([l u] & Hc & Hk). cbn [fst snd] in Hk. inversion Hk; subst.
      cbn [kind_fields def_fields]. eapply variants_ir_fwd; eauto.
  Qed.

  Theorem reg_edge_item teq m :
    generate r s teq = Ok m -> forall pa pb, reg_bv_edge r s pa pb -> item_edge s m pa pb.
  Proof.
    intros Hg pa pb (id & t & Efe & Hs).
    unfold generate in Hg. apply bind_ok in Hg as (u & _ & Hg). apply bind_ok in Hg as (flat & Hfl & Hg).
    destruct (first_eligible_some _ _ _ _ _ Efe) as (Hin & Hp & Hel).
    destruct (gen_loop_all_ok r s teq flat r [] m Hg id t Hin Hel) as (ir & Hcti).
    assert (Hm : items_get m pa = Some (id, ir)).
    { rewrite (gen_loop_first r s teq flat r [] m Hg pa). cbn [items_get]. unfold first_item.
      rewrite Efe, Hcti. reflexivity. }
    unfold entry_succs in Hs. apply in_flat_map in Hs as (f0 & Hf0 & Hs).
    destruct (is_boxed_gen f0) eqn:Hb; [destruct Hs|].
    destruct (create_type_ir_fwd _ _ _ Hcti f0 Hf0) as (fi & Hfi & Hbx & Hres).
    destruct (resolve_rec_targets_conv _ _ _ _ _ _ Hres pb Hs) as (params & Hnode).
    exists id, ir, fi, params. split; [exact Hm|]. split; [exact Hfi|].
    split; [rewrite Hbx; exact Hb|exact Hnode].
  Qed.

  (** the by-value graph of the generated items IS the by-value graph of the registry *)
  Theorem item_edge_iff teq m :
    generate r s teq = Ok m -> forall pa pb, item_edge s m pa pb <-> reg_bv_edge r s pa pb.
  Proof.
    intros Hg pa pb. split; [apply (item_edge_reg teq m Hg)|apply (reg_edge_item teq m Hg)].
  Qed.

  Theorem sized_rank_reg teq m :
    by_value_acyclicb r s = true -> generate r s teq = Ok m ->
    forall pa pb, item_edge s m pa pb -> bv_rank_of r s pb < bv_rank_of r s pa.
  Proof.
    intros Hb Hg pa pb He. apply (by_value_acyclicb_rank r s Hb). exact (item_edge_reg teq m Hg pa pb He).
  Qed.

  Theorem sized teq m :
    by_value_acyclicb r s = true -> generate r s teq = Ok m ->
    forall n p, ~ walk (item_edge s m) n p p.
  Proof.
    intros Hb Hg. apply (walk_acyclic (item_edge s m) (bv_rank_of r s)).
    intros a b. apply (sized_rank_reg teq m Hb Hg).
  Qed.

  (** on a registry that generates, the boolean holds exactly when the generated items have no
      by-value cycle *)
  Theorem sized_iff teq m :
    generate r s teq = Ok m ->
    (by_value_acyclicb r s = true <-> forall n p, ~ walk (item_edge s m) n p p).
  Proof.
    intros Hg. rewrite by_value_acyclicb_iff. split; intros H n p W; apply (H n p); revert W;
      apply walk_mono; intros a b; apply (item_edge_iff teq m Hg).
  Qed.

  (** .. and when the boolean fails they have one, explicitly *)
  Theorem unsized_witness teq m :
    generate r s teq = Ok m -> by_value_acyclicb r s = false ->
    exists n p, walk (item_edge s m) n p p.
  Proof.
    intros Hg Hb. destruct (by_value_acyclicb_false_cycle r s Hb) as (n & p & W).
    exists n, p. revert W. apply walk_mono. intros a b. apply (item_edge_iff teq m Hg).
  Qed.
End SizedReg.

(** the statements in the argument order of Properties/C02.v *)
Theorem sized_rank_pinned :
  forall r s, root_fresh s -> by_value_acyclicb r s = true ->
  forall teq m, generate r s teq = Ok m ->
  forall pa pb, item_edge s m pa pb -> bv_rank_of r s pb < bv_rank_of r s pa.
Proof. intros r s Hf Hb teq m Hg. exact (sized_rank_reg r s Hf teq m Hb Hg). Qed.

Theorem sized_pinned :
  forall r s, root_fresh s -> by_value_acyclicb r s = true ->
  forall teq m, generate r s teq = Ok m ->
  forall n p, ~ walk (item_edge s m) n p p.
Proof. intros r s Hf Hb teq m Hg. exact (sized r s Hf teq m Hb Hg). Qed.

Theorem item_edges_exact :
  forall r s, root_fresh s -> forall teq m, generate r s teq = Ok m ->
  forall pa pb, item_edge s m pa pb <-> reg_bv_edge r s pa pb.
Proof. exact item_edge_iff. Qed.

Theorem unsized_witness_pinned :
  forall r s, root_fresh s -> forall teq m, generate r s teq = Ok m ->
  by_value_acyclicb r s = false -> exists n p, walk (item_edge s m) n p p.
Proof. exact unsized_witness. Qed.

Theorem sized_iff_pinned :
  forall r s, root_fresh s -> forall teq m, generate r s teq = Ok m ->
  (by_value_acyclicb r s = true <-> forall n p, ~ walk (item_edge s m) n p p).
Proof. exact sized_iff. Qed.

(** the hypothesis of [C02_sized_partial] implies the boolean on every registry that generates:
    [C02_sized] covers every case [C02_sized_partial] covers *)
Theorem ranked_implies_boolean :
  forall r s rank, root_fresh s -> bv_ranked r s rank ->
  forall teq m, generate r s teq = Ok m -> by_value_acyclicb r s = true.
Proof.
  intros r s rank Hf Hr teq m Hg. apply (sized_iff r s Hf teq m Hg).
  exact (sized_acyclic r s rank Hf Hr teq m Hg).
Qed.

(** the boolean of Model/Shape.v decides the [root_fresh] used here *)
Lemma root_freshb_fresh s : Shape.root_freshb s = true -> root_fresh s.
Proof.
  intros H. destruct (ShapeBool.root_freshb_sound s H) as (A & _ & B & C).
  split; [exact A|]. split; [exact B|].
  intros k sub Hin. rewrite <- print_spath_head. exact (C k sub Hin).
Qed.

(** from decidable conditions only ([wf_regb], [supportedb]: Model/WellFormed.v, the run-time
    hypothesis of C10_total_wf; [root_freshb]: Model/Shape.v): generation reports a duplicate
    path, or it yields a module whose items are free of by-value cycles exactly when the boolean
    holds *)
Theorem sized_wf :
  forall r s, wf_regb r = true -> supportedb r s = true -> Shape.root_freshb s = true ->
  (exists p, generate r s (types_equal r) = Err (EDuplicatePath p)) \/
  (exists m, generate r s (types_equal r) = Ok m /\
             (by_value_acyclicb r s = true <-> forall n p, ~ walk (item_edge s m) n p p)).
Proof.
  intros r s Hw Hs Hf. apply root_freshb_fresh in Hf.
  destruct (generate_total_wf r s Hw Hs) as [(m & Hg & _)|Hdup].
  - right. exists m. split; [exact Hg|]. exact (sized_iff r s Hf (types_equal r) m Hg).
  - left. exact Hdup.
Qed.
