(** C09 at the IR level: the items map [generate r s teq] depends on [s_docs]
    only through the doc lists and on [s_codec] only through [ti_codec];
    plus the shape of the emitted enum / field tokens. *)
From Coq Require Import List NArith String Bool Lia.
From V Require Import Base.Strings Base.Result Model.Registry Model.Settings Model.Subst
  Model.TypePath Model.Derives Model.Generate Model.Emit Model.Equal Model.Switches
  Proofs.GenProofs Proofs.TpMap.
Import ListNotations.
Open Scope string_scope. Open Scope list_scope.

(** ** 1. transport of an item transformation through the generation loop *)
Lemma items_get_map_items f : forall (m : items) p,
  items_get (map_items f m) p = option_map (fun v => (fst v, f (snd v))) (items_get m p).
Proof.
  induction m as [|[k [id ir]] m IH]; intros p; [reflexivity|].
  unfold map_items in *. cbn [map fst snd items_get].
  destruct (path_eqb k p); [reflexivity|]. apply IH.
Qed.

Lemma items_insert_map_items f : forall (m : items) p id ir,
  items_insert (map_items f m) p (id, f ir) = map_items f (items_insert m p (id, ir)).
Proof.
  induction m as [|[k [id0 ir0]] m IH]; intros p id ir; [reflexivity|].
  unfold map_items in *. cbn [map fst snd items_insert].
  destruct (path_compare p k); cbn [map fst snd]; try reflexivity.
  rewrite IH. reflexivity.
Qed.

Lemma gen_loop_nil r s teq flat acc : gen_loop r s teq flat [] acc = Ok acc.
Proof. reflexivity. Qed.

Lemma gen_loop_transport r s s' teq flat (f : type_ir -> type_ir) :
  s_subs s' = s_subs s ->
  (forall t, create_type_ir r s' t flat = rmap (option_map f) (create_type_ir r s t flat)) ->
  forall l acc,
    gen_loop r s' teq flat l (map_items f acc) = rmap (map_items f) (gen_loop r s teq flat l acc).
Proof.
  intros Hsubs Hc. induction l as [|[id t] l IH]; intros acc.
  - rewrite !gen_loop_nil. reflexivity.
  - rewrite !gen_loop_cons. rewrite Hsubs.
    destruct (subs_contains (s_subs s) (t_path t)); [apply IH|].
    destruct (namespace (t_path t)) as [|n0 ns]; [apply IH|].
    rewrite Hc.
    destruct (create_type_ir r s t flat) as [[ir|]|e|msg]; rewrite ?rmap_ok;
      cbn [bind option_map]; try reflexivity; [|apply IH].
    destruct (forallb ident_lexb (n0 :: ns)); [|reflexivity].
    rewrite items_get_map_items.
    destruct (items_get acc (t_path t)) as [[other ir']|]; cbn [option_map fst snd].
    + destruct (teq id other) as [[|]|e|msg]; cbn [bind]; try reflexivity. apply IH.
    + rewrite <- IH. rewrite items_insert_map_items. reflexivity.
Qed.

Lemma generate_unfold r s teq :
  generate r s teq =
  let* _ := sanity_pass r in
  let* flat := flatten (s_dreg s) r in
  gen_loop r s teq flat r [].
Proof. reflexivity. Qed.

Lemma generate_transport r s s' teq (f : type_ir -> type_ir) :
  s_subs s' = s_subs s -> s_dreg s' = s_dreg s ->
  (forall t flat, create_type_ir r s' t flat = rmap (option_map f) (create_type_ir r s t flat)) ->
  generate r s' teq = rmap (map_items f) (generate r s teq).
Proof.
  intros Hsubs Hdreg Hc. rewrite !generate_unfold. rewrite Hdreg.
  rewrite rmap_bind. apply bind_ext; intros u.
  rewrite rmap_bind. apply bind_ext; intros flat.
  change (@nil (list string * (N * type_ir))) with (map_items f []) at 1.
  apply gen_loop_transport; [exact Hsubs|]. intros t. apply Hc.
Qed.

(** ** 2. unfolding of [create_type_ir] with the named variant loop *)
Lemma variants_ir_nil r s params u : variants_ir r s params [] u = Ok ([], u).
Proof. reflexivity. Qed.

Lemma variants_ir_cons r s params v l u :
  variants_ir r s params (v :: l) u =
  let* vn := parse_ident (v_name v) in
  let* ku := create_composite_ir_kind r s (v_fields v) params u in
  let* rest := variants_ir r s params l (snd ku) in
  Ok ((v_index v, mk_ci vn (fst ku) (docs_from_scale_info s (v_docs v))) :: fst rest, snd rest).
Proof. reflexivity. Qed.

Lemma variants_ir_fix r s params : forall l u,
  (fix go (l : list variant) (unused : list tparam_ir)
     : result (list (N * composite_ir) * list tparam_ir) :=
     match l with
     | [] => Ok ([], unused)
     | v :: l' =>
         let* vn := parse_ident (v_name v) in
         let* ku := create_composite_ir_kind r s (v_fields v) params unused in
         let* rest := go l' (snd ku) in
         Ok ((v_index v, mk_ci vn (fst ku) (docs_from_scale_info s (v_docs v))) :: fst rest,
             snd rest)
     end) l u = variants_ir r s params l u.
Proof.
  induction l as [|v l IH]; intros u; [reflexivity|].
  rewrite variants_ir_cons.
  apply bind_ext; intros vn. apply bind_ext; intros ku. rewrite IH. reflexivity.
Qed.

Lemma create_type_ir_eq r s t flat :
  create_type_ir r s t flat =
  if negb (is_composite_or_variant (t_def t)) then Ok None
  else
    match path_ident (t_path t) with
    | None => Panic "Structs and enums should have a name"
    | Some nm =>
      let* name := parse_ident nm in
      let* kcu :=
        match t_def t with
        | TDComposite fs =>
            let* ku := create_composite_ir_kind r s fs (params_from_scale_info (t_params t))
                                                (params_from_scale_info (t_params t)) in
            Ok (KStruct (mk_ci name (fst ku) (docs_from_scale_info s (t_docs t))),
                could_derive_as_compact (fst ku), snd ku)
        | TDVariant vs =>
            let* vu := variants_ir r s (params_from_scale_info (t_params t)) vs
                                   (params_from_scale_info (t_params t)) in
            Ok (KEnum name (docs_from_scale_info s (t_docs t)) (fst vu), false, snd vu)
        | _ => Panic "unreachable"
        end in
      let '(kind, cdac, unused) := kcu in
      let* d := resolve_derives_for_type flat t in
      Ok (Some (mk_ti (params_from_scale_info (t_params t)) unused
                      (if cdac then add_as_compact s d else d) (s_codec s) kind))
    end.
Proof.
  unfold create_type_ir. cbv zeta.
  destruct (negb (is_composite_or_variant (t_def t))); [reflexivity|].
  destruct (path_ident (t_path t)) as [nm|]; [|reflexivity].
  apply bind_ext; intros name.
  destruct (t_def t); try reflexivity.
  rewrite variants_ir_fix. reflexivity.
Qed.

(** decomposition of a successful [create_type_ir] *)
Lemma create_type_ir_ok r s t flat ir :
  create_type_ir r s t flat = Ok (Some ir) ->
  exists name kind cdac unused d,
    (match t_def t with
     | TDComposite fs =>
         let* ku := create_composite_ir_kind r s fs (params_from_scale_info (t_params t))
                                             (params_from_scale_info (t_params t)) in
         Ok (KStruct (mk_ci name (fst ku) (docs_from_scale_info s (t_docs t))),
             could_derive_as_compact (fst ku), snd ku)
     | TDVariant vs =>
         let* vu := variants_ir r s (params_from_scale_info (t_params t)) vs
                                (params_from_scale_info (t_params t)) in
         Ok (KEnum name (docs_from_scale_info s (t_docs t)) (fst vu), false, snd vu)
     | _ => Panic "unreachable"
     end) = Ok (kind, cdac, unused) /\
    ir = mk_ti (params_from_scale_info (t_params t)) unused
               (if cdac then add_as_compact s d else d) (s_codec s) kind.
Proof.
  intros H. rewrite create_type_ir_eq in H.
  destruct (negb (is_composite_or_variant (t_def t))); [discriminate|].
  destruct (path_ident (t_path t)) as [nm|]; [|discriminate].
  apply bind_ok in H as (name & _ & H).
  apply bind_ok in H as ([[kind cdac] unused] & Hk & H).
  apply bind_ok in H as (d & _ & H).
  exists name, kind, cdac, unused, d. split; [exact Hk|].
  inversion H; reflexivity.
Qed.

(** ** 3. the docs switch *)
Lemma cck_docs r s b fs params unused :
  create_composite_ir_kind r (set_docs b s) fs params unused =
  create_composite_ir_kind r s fs params unused.
Proof. reflexivity. Qed.

Lemma add_as_compact_docs s b d : add_as_compact (set_docs b s) d = add_as_compact s d.
Proof. reflexivity. Qed.

Lemma resolve_rec_docs r s b fuel id isf parents orig :
  resolve_rec r (set_docs b s) fuel id isf parents orig = resolve_rec r s fuel id isf parents orig.
Proof. reflexivity. Qed.

Lemma variants_ir_strip_docs r s params : forall l u,
  variants_ir r (set_docs false s) params l u =
  rmap (fun x => (map (fun y => (fst y, strip_docs_ci (snd y))) (fst x), snd x))
       (variants_ir r s params l u).
Proof.
  induction l as [|v l IH]; intros u; [reflexivity|].
  rewrite !variants_ir_cons.
  rewrite rmap_bind. apply bind_ext; intros vn.
  rewrite rmap_bind. rewrite cck_docs. apply bind_ext; intros ku.
  rewrite IH. rewrite bind_rmap, rmap_bind. apply bind_ext; intros rest.
  reflexivity.
Qed.

Lemma create_type_ir_docs_off r s t flat :
  create_type_ir r (set_docs false s) t flat =
  rmap (option_map strip_docs_ir) (create_type_ir r s t flat).
Proof.
  rewrite !create_type_ir_eq.
  destruct (negb (is_composite_or_variant (t_def t))); [reflexivity|].
  destruct (path_ident (t_path t)) as [nm|]; [|reflexivity].
  rewrite rmap_bind. apply bind_ext; intros name.
  destruct (t_def t) as [fs|vs| | | | | |]; try reflexivity.
  - rewrite cck_docs.
    destruct (create_composite_ir_kind r s fs _ _) as [[k u]|e|m]; cbn [bind fst snd];
      [|reflexivity|reflexivity].
    destruct (resolve_derives_for_type flat t) as [d|e|m]; reflexivity.
  - rewrite variants_ir_strip_docs. rewrite bind_rmap.
    destruct (variants_ir r s _ vs _) as [[cs u]|e|m]; cbn [bind fst snd];
      [|reflexivity|reflexivity].
    destruct (resolve_derives_for_type flat t) as [d|e|m]; reflexivity.
Qed.

Theorem C09_docs_orthogonal_ir r s teq :
  generate r (set_docs false s) teq = rmap (map_items strip_docs_ir) (generate r s teq).
Proof.
  apply generate_transport; [reflexivity|reflexivity|].
  intros t flat. apply create_type_ir_docs_off.
Qed.

Lemma set_docs_id s : s_docs s = false -> set_docs false s = s.
Proof. destruct s. cbn. intros ->. reflexivity. Qed.

Lemma strip_docs_ir_empty ir : ir_docs_empty (strip_docs_ir ir) = true.
Proof.
  unfold ir_docs_empty, strip_docs_ir. cbn [ti_kind].
  destruct (ti_kind ir) as [c|name docs vs]; [reflexivity|].
  cbn [strip_docs_kind kind_docs_empty andb].
  induction vs as [|x vs IH]; [reflexivity|].
  cbn [map forallb snd strip_docs_ci ci_docs andb]. exact IH.
Qed.

Lemma create_type_ir_docs_empty r s t flat ir :
  s_docs s = false -> create_type_ir r s t flat = Ok (Some ir) -> ir_docs_empty ir = true.
Proof.
  intros Hd H. pose proof (create_type_ir_docs_off r s t flat) as E.
  rewrite (set_docs_id s Hd), H in E. rewrite rmap_ok in E. cbn [option_map] in E.
  inversion E as [E']. rewrite E'. apply strip_docs_ir_empty.
Qed.

Lemma parse_ident_ok x y : parse_ident x = Ok y -> y = x.
Proof. unfold parse_ident. destruct (ident_okb x); intros H; inversion H; reflexivity. Qed.

Lemma variants_ir_shape r s params : forall l u cs u',
  variants_ir r s params l u = Ok (cs, u') ->
  map fst cs = map v_index l /\
  map (fun x => ci_name (snd x)) cs = map v_name l /\
  map (fun x => ci_docs (snd x)) cs = map (fun v => docs_from_scale_info s (v_docs v)) l.
Proof.
  induction l as [|v l IH]; intros u cs u' H.
  - rewrite variants_ir_nil in H. inversion H; subst. repeat split.
  - rewrite variants_ir_cons in H.
    apply bind_ok in H as (vn & Hvn & H).
    apply bind_ok in H as (ku & _ & H).
    apply bind_ok in H as ([cs' u''] & Hrest & H).
    cbn [fst snd] in H. inversion H; subst.
    apply parse_ident_ok in Hvn. subst vn.
    destruct (IH _ _ _ Hrest) as (A & B & C).
    cbn [map fst snd ci_name ci_docs]. rewrite A, B, C. repeat split.
Qed.

Lemma docs_on s docs : s_docs s = true -> docs_from_scale_info s docs = docs.
Proof. unfold docs_from_scale_info. intros ->. reflexivity. Qed.

Lemma create_type_ir_docs_exact r s t flat ir :
  s_docs s = true -> create_type_ir r s t flat = Ok (Some ir) ->
  (forall fs, t_def t = TDComposite fs ->
     exists c, ti_kind ir = KStruct c /\ ci_docs c = t_docs t) /\
  (forall vs, t_def t = TDVariant vs ->
     exists name cs, ti_kind ir = KEnum name (t_docs t) cs /\
       map (fun x => ci_docs (snd x)) cs = map v_docs vs /\
       map fst cs = map v_index vs /\
       map (fun x => ci_name (snd x)) cs = map v_name vs).
Proof.
  intros Hd H. apply create_type_ir_ok in H as (name & kind & cdac & unused & d & Hk & ->).
  cbn [ti_kind]. split.
  - intros fs Hdef. rewrite Hdef in Hk.
    apply bind_ok in Hk as (ku & _ & Hk). inversion Hk; subst.
    eexists; split; [reflexivity|]. cbn [ci_docs]. apply docs_on; exact Hd.
  - intros vs Hdef. rewrite Hdef in Hk.
    apply bind_ok in Hk as ([cs u] & Hv & Hk). cbn [fst snd] in Hk. inversion Hk; subst.
    apply variants_ir_shape in Hv as (A & B & C).
    exists name, cs. rewrite (docs_on s _ Hd). split; [reflexivity|].
    split; [|split; assumption].
    rewrite C. apply map_ext. intros v. apply docs_on; exact Hd.
Qed.

(** ** 4. the codec switch *)
Lemma cck_codec r s b fs params unused :
  create_composite_ir_kind r (set_codec b s) fs params unused =
  create_composite_ir_kind r s fs params unused.
Proof. reflexivity. Qed.

Lemma variants_ir_codec r s b params : forall l u,
  variants_ir r (set_codec b s) params l u = variants_ir r s params l u.
Proof.
  induction l as [|v l IH]; intros u; [reflexivity|].
  rewrite !variants_ir_cons.
  apply bind_ext; intros vn. rewrite cck_codec. apply bind_ext; intros ku.
  rewrite IH. reflexivity.
Qed.

Lemma create_type_ir_codec r s b t flat :
  create_type_ir r (set_codec b s) t flat =
  rmap (option_map (set_codec_ir b)) (create_type_ir r s t flat).
Proof.
  rewrite !create_type_ir_eq.
  destruct (negb (is_composite_or_variant (t_def t))); [reflexivity|].
  destruct (path_ident (t_path t)) as [nm|]; [|reflexivity].
  rewrite rmap_bind. apply bind_ext; intros name.
  destruct (t_def t) as [fs|vs| | | | | |]; try reflexivity.
  - rewrite cck_codec.
    destruct (create_composite_ir_kind r s fs _ _) as [[k u]|e|m]; cbn [bind fst snd];
      [|reflexivity|reflexivity].
    destruct (resolve_derives_for_type flat t) as [d|e|m]; reflexivity.
  - rewrite variants_ir_codec.
    destruct (variants_ir r s _ vs _) as [[cs u]|e|m]; cbn [bind fst snd];
      [|reflexivity|reflexivity].
    destruct (resolve_derives_for_type flat t) as [d|e|m]; reflexivity.
Qed.

Theorem C09_codec_orthogonal_ir r s b teq :
  generate r (set_codec b s) teq = rmap (map_items (set_codec_ir b)) (generate r s teq).
Proof.
  apply generate_transport; [reflexivity|reflexivity|].
  intros t flat. apply create_type_ir_codec.
Qed.

Lemma create_type_ir_codec_flag r s t flat ir :
  create_type_ir r s t flat = Ok (Some ir) -> ti_codec ir = s_codec s.
Proof.
  intros H. apply create_type_ir_ok in H as (name & kind & cdac & unused & d & _ & ->).
  reflexivity.
Qed.

Lemma items_insert_Forall (Q : list string * (N * type_ir) -> Prop) : forall (m : items) p v,
  Forall Q m -> Q (p, v) -> Forall Q (items_insert m p v).
Proof.
  induction m as [|[k v'] m IH]; intros p v Hm Hq; cbn [items_insert].
  - constructor; [exact Hq|constructor].
  - destruct (path_compare p k).
    + exact Hm.
    + constructor; [exact Hq|exact Hm].
    + inversion Hm as [|? ? Hk Hm']; subst. constructor; [exact Hk|]. apply IH; assumption.
Qed.

(** an invariant of the items produced by the loop *)
Lemma gen_loop_Forall r s teq flat (P : type_ir -> Prop) :
  (forall t ir, create_type_ir r s t flat = Ok (Some ir) -> P ir) ->
  forall l acc m,
    Forall (fun e => P (snd (snd e))) acc ->
    gen_loop r s teq flat l acc = Ok m ->
    Forall (fun e => P (snd (snd e))) m.
Proof.
  intros HP. induction l as [|[id t] l IH]; intros acc m Hacc H.
  - rewrite gen_loop_nil in H. inversion H; subst; exact Hacc.
  - rewrite gen_loop_cons in H.
    destruct (subs_contains (s_subs s) (t_path t)); [eapply IH; eauto|].
    destruct (namespace (t_path t)) as [|n0 ns]; [eapply IH; eauto|].
    destruct (create_type_ir r s t flat) as [[ir|]|e|msg] eqn:Cti; cbn [bind] in H;
      try discriminate; [|eapply IH; eauto].
    destruct (forallb ident_lexb (n0 :: ns)); [|discriminate].
    destruct (items_get acc (t_path t)) as [[other ir']|] eqn:G.
    + destruct (teq id other) as [[|]|e|msg]; cbn [bind] in H; try discriminate.
      eapply IH; eauto.
    + eapply IH; [|exact H]. apply items_insert_Forall; [exact Hacc|].
      cbn [snd]. eapply HP; exact Cti.
Qed.

Theorem generate_item_ok r s teq m :
  generate r s teq = Ok m ->
  Forall (fun e => item_ok (s_docs s) (s_codec s) (snd (snd e))) m.
Proof.
  intros H. rewrite generate_unfold in H.
  apply bind_ok in H as (u & _ & H). apply bind_ok in H as (flat & _ & H).
  eapply (gen_loop_Forall r s teq flat (item_ok (s_docs s) (s_codec s))); [|constructor|exact H].
  intros t ir Hc. split.
  - intros Hd. eapply create_type_ir_docs_empty; eauto.
  - intros Hcd. rewrite (create_type_ir_codec_flag _ _ _ _ _ Hc). exact Hcd.
Qed.

(** ** 5. shape of the emitted tokens *)
Lemma Forall2_imp {A B} (R1 R2 : A -> B -> Prop) l1 l2 :
  (forall a b, R1 a b -> R2 a b) -> Forall2 R1 l1 l2 -> Forall2 R2 l1 l2.
Proof.
  intros HR H. induction H as [|a b l1 l2 Hab _ IH]; constructor; [apply HR; exact Hab|exact IH].
Qed.

Lemma compact_attr_of_true f : fi_compact f = true -> compact_attr_of true f = compact_attr.
Proof. unfold compact_attr_of. intros ->. reflexivity. Qed.

Lemma type_ir_tokens_enum_decomp s ir name docs vs toks :
  ti_kind ir = KEnum name docs vs -> type_ir_tokens s ir = Ok toks ->
  exists (bodies : list tokens) ignore,
    Forall2 (fun (v : N * composite_ir) body =>
               exists fields,
                 enum_field_tokens s (ci_kind (snd v)) (ti_codec ir) = Ok fields /\
                 body = (if ti_codec ir then codec_index (fst v) else []) ++
                        doc_tokens (ci_docs (snd v)) ++ [ci_name (snd v)] ++ fields ++ [","])
            vs bodies /\
    toks = derives_tokens (ti_derives ir) ++ doc_tokens docs ++ ["pub"; "enum"; name] ++
           type_params_tokens (ti_params ir) ++ ["{"] ++ List.concat bodies ++ ignore ++ ["}"].
Proof.
  intros Hk H. unfold type_ir_tokens in H. rewrite Hk in H.
  apply bind_ok in H as (l & Hl & H). inversion H; subst toks; clear H.
  exists l. eexists. split; [|reflexivity].
  apply mapM_ok_Forall2 in Hl. eapply Forall2_imp; [|exact Hl].
  intros [idx c] body Hb. cbn beta iota in Hb.
  apply bind_ok in Hb as (fields & Hf & Hb). inversion Hb; subst body.
  exists fields. split; [exact Hf|reflexivity].
Qed.

Lemma enum_field_tokens_named_decomp s fs codec fields :
  enum_field_tokens s (CNamed fs) codec = Ok fields ->
  exists parts,
    Forall2 (fun (x : string * field_ir) part =>
               exists t, field_tokens s (snd x) = Ok t /\
                         part = compact_attr_of codec (snd x) ++ [fst x; ":"] ++ t ++ [","])
            fs parts /\
    fields = ["{"] ++ List.concat parts ++ ["}"].
Proof.
  intros H. cbn [enum_field_tokens] in H.
  apply bind_ok in H as (l & Hl & H). inversion H; subst fields; clear H.
  exists l. split; [|reflexivity].
  apply mapM_ok_Forall2 in Hl. eapply Forall2_imp; [|exact Hl].
  intros [nm f] part Hb. cbn beta iota in Hb.
  apply bind_ok in Hb as (t & Ht & Hb). inversion Hb; subst part.
  exists t. split; [exact Ht|reflexivity].
Qed.

Lemma enum_field_tokens_unnamed_decomp s fs codec fields :
  enum_field_tokens s (CUnnamed fs) codec = Ok fields ->
  exists parts,
    Forall2 (fun (x : field_ir) part =>
               exists t, field_tokens s x = Ok t /\
                         part = compact_attr_of codec x ++ t ++ [","])
            fs parts /\
    fields = ["("] ++ List.concat parts ++ [")"].
Proof.
  intros H. cbn [enum_field_tokens] in H.
  apply bind_ok in H as (l & Hl & H). inversion H; subst fields; clear H.
  exists l. split; [|reflexivity].
  apply mapM_ok_Forall2 in Hl. eapply Forall2_imp; [|exact Hl].
  intros f part Hb. cbn beta in Hb.
  apply bind_ok in Hb as (t & Ht & Hb). inversion Hb; subst part.
  exists t. split; [exact Ht|reflexivity].
Qed.

Lemma struct_field_tokens_named_decomp s fs phantom codec fields :
  struct_field_tokens s (CNamed fs) phantom codec = Ok fields ->
  exists parts marker,
    Forall2 (fun (x : string * field_ir) part =>
               exists t, field_tokens s (snd x) = Ok t /\
                         part = compact_attr_of codec (snd x) ++ ["pub"; fst x; ":"] ++ t ++ [","])
            fs parts /\
    fields = ["{"] ++ List.concat parts ++ marker ++ ["}"].
Proof.
  intros H. cbn [struct_field_tokens] in H.
  apply bind_ok in H as (l & Hl & H). inversion H; subst fields; clear H.
  exists l. eexists. split; [|reflexivity].
  apply mapM_ok_Forall2 in Hl. eapply Forall2_imp; [|exact Hl].
  intros [nm f] part Hb. cbn beta iota in Hb.
  apply bind_ok in Hb as (t & Ht & Hb). inversion Hb; subst part.
  exists t. split; [exact Ht|reflexivity].
Qed.

Lemma struct_field_tokens_unnamed_decomp s fs phantom codec fields :
  struct_field_tokens s (CUnnamed fs) phantom codec = Ok fields ->
  exists parts marker,
    Forall2 (fun (x : field_ir) part =>
               exists t, field_tokens s x = Ok t /\
                         part = compact_attr_of codec x ++ ["pub"] ++ t ++ [","])
            fs parts /\
    fields = ["("] ++ List.concat parts ++ marker ++ [")"].
Proof.
  intros H. cbn [struct_field_tokens] in H.
  apply bind_ok in H as (l & Hl & H). inversion H; subst fields; clear H.
  exists l. eexists. split; [|reflexivity].
  apply mapM_ok_Forall2 in Hl. eapply Forall2_imp; [|exact Hl].
  intros f part Hb. cbn beta in Hb.
  apply bind_ok in Hb as (t & Ht & Hb). inversion Hb; subst part.
  exists t. split; [exact Ht|reflexivity].
Qed.
