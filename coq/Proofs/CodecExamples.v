(** The codec of Model/Codec.v run on real bytes with the concrete instance, on the small
    registry of Model/CodecExample.v (struct with a u8, a compact u32, a Vec<u16>, an enum
    field and an Option<u16>): the hypotheses of the C01 / C18 byte-level theorems hold on
    it, real bytes decode with the registry reading and with the generated type to the
    same value, and re-encode to the same bytes. *)
From Coq Require Import List NArith String Bool.
From V Require Import Base.Util Base.Strings Base.Result Model.Registry Model.Settings Model.Subst
  Model.TypePath Model.Derives Model.Generate Model.Equal Model.Shape Model.Codec
  Model.CodecInstance Model.CodecExample
  Proofs.GenProofs Proofs.FidelityBase Proofs.ShapeBool Proofs.Fidelity Proofs.FidelityGen
  Proofs.CodecProofs Proofs.CodecInstanceProofs.
Import ListNotations.
Open Scope string_scope. Open Scope list_scope. Open Scope N_scope.

(** the primitive instance on its own *)
Example cx_compact_modes :
  map compact_enc [0; 1; 63; 64; 300; 16383; 16384; 70000; 1073741823; 1073741824] =
  [Some [0]; Some [4]; Some [252]; Some [1; 1]; Some [177; 4]; Some [253; 255];
   Some [2; 0; 1; 0]; Some [194; 69; 4; 0]; Some [254; 255; 255; 255]; None].
Proof. vm_compute. reflexivity. Qed.

(** non-canonical compact encodings (64 in the one-byte range written in two-byte mode...)
    and out-of-range bytes are rejected *)
Example cx_compact_rejects :
  map compact_dec [[1; 0]; [253; 0]; [2; 0; 0; 0]; [3; 1; 2; 3; 4]; [300]; [1]; []] =
  [None; None; None; None; None; None; None].
Proof. vm_compute. reflexivity. Qed.

Example cx_prims :
  i_pdec PU16 [2; 1; 9] = Some (258, [9]) /\ i_penc PU16 258 = Some [2; 1] /\
  i_pdec PU32 [1; 0; 0; 1] = Some (16777217, []) /\ i_penc PU32 16777217 = Some [1; 0; 0; 1] /\
  i_pdec PBool [2] = None /\ i_pdec PBool [1] = Some (1, []) /\ i_penc PU8 256 = None.
Proof. vm_compute. repeat split; reflexivity. Qed.

(** ** the example registry satisfies the hypotheses of the theorems *)
Example cx_generate_ok :
  generate cx_reg cx_settings (types_equal cx_reg) = Ok cx_items /\
  map fst cx_items = [["a"; "E"]; ["a"; "S"]].
Proof. vm_compute. split; reflexivity. Qed.

Example cx_skeleton_consistent : skeleton_consistent cx_reg cx_settings.
Proof. apply skeleton_consistentb_sound. vm_compute. reflexivity. Qed.

Example cx_root_fresh : root_fresh cx_settings.
Proof. apply root_freshb_sound. vm_compute. reflexivity. Qed.

Example cx_resolve_struct :
  resolve_type_path cx_reg cx_settings 7 = Ok (cx_path 7) /\
  cx_path 7 = TPath ["types"; ":"; ":"; "a"; ":"; ":"; "S"] [].
Proof. vm_compute. split; reflexivity. Qed.

(** ** real bytes *)

(** the registry reading of the struct, unfolded completely (depth 4) *)
Example cx_shape :
  shape_reg cx_reg cx_settings 4 7 =
  SStruct
    [(Some "a", false, SPrim PU8);
     (Some "b", false, SCompact (SPrim PU32));
     (Some "c", false, SSeq (SPrim PU16));
     (Some "d", false,
      SEnum [("A", 0, []); ("B", 2, [(None, false, SPrim PU8)]);
             ("C", 5, [(Some "x", false, SCompact (SPrim PU32)); (Some "y", false, SPrim PBool)])]);
     (Some "o", false,
      SOpaque [":"; ":"; "core"; ":"; ":"; "option"; ":"; ":"; "Option"] [SPrim PU16])].
Proof. vm_compute. reflexivity. Qed.

(** the 17 bytes decode with the registry reading ... *)
Example cx_decode_reg :
  decode iprims (shape_reg cx_reg cx_settings 4 7) cx_bytes = Some (cx_value, []).
Proof. vm_compute. reflexivity. Qed.

(** ... with the generated type, to the same value, consuming all input ... *)
Example cx_decode_rust :
  decode iprims (shape_rust cx_items cx_settings 4 (cx_path 7)) cx_bytes = Some (cx_value, []).
Proof. vm_compute. reflexivity. Qed.

(** ... and re-encode to the same bytes *)
Example cx_encode_rust :
  encode iprims (shape_rust cx_items cx_settings 4 (cx_path 7)) cx_value = Some cx_bytes.
Proof. vm_compute. reflexivity. Qed.

(** the same three facts, not computed but obtained from the theorem (whose hypotheses are
    therefore satisfiable, with the concrete primitive codecs) *)
Example cx_by_theorem :
  decode iprims (shape_rust cx_items cx_settings 4 (cx_path 7)) cx_bytes = Some (cx_value, []) /\
  encode iprims (shape_rust cx_items cx_settings 4 (cx_path 7)) cx_value = Some cx_bytes.
Proof.
  exact (generate_decode iprims cx_reg cx_settings _ cx_items iprims_ok cx_skeleton_consistent
           cx_root_fresh (proj1 cx_generate_ok) 7 (cx_path 7) 4%nat cx_bytes cx_value
           (proj1 cx_resolve_struct) cx_decode_reg).
Qed.

(** trailing input is handed back; at a greater depth nothing changes; at an insufficient
    depth ([SCut] is hit), on truncated input, on an unknown variant index (1) and on a
    bad bool nothing decodes *)
Example cx_more :
  decode iprims (shape_reg cx_reg cx_settings 4 7) (cx_bytes ++ [9; 9]) = Some (cx_value, [9; 9]) /\
  decode iprims (shape_rust cx_items cx_settings 9 (cx_path 7)) cx_bytes = Some (cx_value, []) /\
  decode iprims (shape_reg cx_reg cx_settings 2 7) cx_bytes = None /\
  decode iprims (shape_reg cx_reg cx_settings 4 7) (removelast cx_bytes) = None /\
  decode iprims (shape_reg cx_reg cx_settings 4 5) [1; 0] = None /\
  decode iprims (shape_reg cx_reg cx_settings 4 5) [5; 4; 2] = None /\
  decode iprims (shape_reg cx_reg cx_settings 4 5) [2; 200; 77] = Some (VEnum 2 [VPrim 200], [77]).
Proof. vm_compute. repeat split; reflexivity. Qed.

(** ** C18 on bytes: the standalone struct built from the fields of variant C *)
Example cx_standalone_shape :
  item_shape cx_items cx_settings 3 cx_standalone [] =
  SStruct [(Some "x", false, SCompact (SPrim PU32)); (Some "y", false, SPrim PBool)].
Proof. vm_compute. reflexivity. Qed.

Example cx_payload_bytes :
  encode iprims (item_shape cx_items cx_settings 3 cx_standalone [])
         (VStruct [VPrim 70000; VPrim 1]) = Some cx_payload /\
  encode iprims (shape_rust cx_items cx_settings 4 (cx_path 5))
         (VEnum 5 [VPrim 70000; VPrim 1]) = Some (5 :: cx_payload) /\
  decode iprims (item_shape cx_items cx_settings 3 cx_standalone []) cx_payload =
  Some (VStruct [VPrim 70000; VPrim 1], []) /\
  decode iprims (shape_rust cx_items cx_settings 4 (cx_path 5)) (5 :: cx_payload) =
  Some (VEnum 5 [VPrim 70000; VPrim 1], []).
Proof. vm_compute. repeat split; reflexivity. Qed.

(** a bit sequence and a compact struct wrapper, on shapes directly *)
Example cx_bits_and_wrapper :
  decode iprims (SBits (SPrim PU8) (SStruct [])) [40; 255; 3; 7] = Some (VBits (10, [255; 3]), [7]) /\
  encode iprims (SBits (SPrim PU8) (SStruct [])) (VBits (10, [255; 3])) = Some [40; 255; 3] /\
  decode iprims (SBits (SPrim PU8) SCut) [40; 255; 3; 7] = None /\
  decode iprims (SCompact (SStruct [(None, false, SPrim PU32)])) [177; 4] =
  Some (VStruct [VPrim 300], []) /\
  encode iprims (SCompact (SStruct [(None, false, SPrim PU32)])) (VStruct [VPrim 300]) =
  Some [177; 4] /\
  decode iprims (SArr 3 (SPrim PU8)) [1; 2; 3; 4] = Some (VSeq [VPrim 1; VPrim 2; VPrim 3], [4]) /\
  encode iprims (SArr 3 (SPrim PU8)) (VSeq [VPrim 1; VPrim 2]) = None /\
  decode iprims (STuple [SPrim PU8; SPrim PBool]) [9; 0] = Some (VTuple [VPrim 9; VPrim 0], []) /\
  decode iprims (SCompact (STuple [])) [9] = Some (VTuple [], [9]) /\
  decode iprims (SCompact (SSeq (SPrim PU8))) [0] = None.
Proof. vm_compute. repeat split; reflexivity. Qed.

(** the same relation for EVERY field-value list, from the theorem (its hypotheses are
    satisfiable): the generated enum [types::a::E] at index 5 = index byte + standalone struct *)
Example cx_standalone_kind :
  exists k u,
    create_composite_ir_kind cx_reg cx_settings (v_fields (nth 2 cx_variants (mk_variant "" [] 0 [])))
                             [] [] = Ok (k, u) /\
    cx_standalone = upcast_composite cx_settings (mk_ci "C" k []).
Proof. vm_compute. eexists. eexists. split; reflexivity. Qed.

Example cx_payload_by_theorem :
  forall vals,
    encode iprims (shape_rust cx_items cx_settings 4 (cx_path 5)) (VEnum 5 vals) =
    match encode iprims (item_shape cx_items cx_settings 3 cx_standalone []) (VStruct vals) with
    | Some e => Some (5 :: e)
    | None => None
    end.
Proof.
  destruct cx_standalone_kind as (k & u & Hk & ->).
  refine (proj1 (standalone_payload_named iprims cx_reg cx_settings _ cx_items
                   cx_skeleton_consistent cx_root_fresh (proj1 cx_generate_ok)
                   5 (mk_ty ["a"; "E"] [] (TDVariant cx_variants) []) (cx_path 5) cx_variants
                   (nth 2 cx_variants (mk_variant "" [] 0 [])) k u "C" [] 3%nat
                   eq_refl eq_refl _ _ eq_refl _ _ Hk)).
  - vm_compute. discriminate.
  - vm_compute. reflexivity.
  - vm_compute. right. right. left. reflexivity.
  - vm_compute. repeat constructor; cbn [In]; intuition discriminate.
Qed.
