(** Basic facts for the fidelity proofs (C01 / C03 / C18): unfolding equations of the
    model, the Cow case split, induction on [tpath], substitution vs. id erasure,
    reading a path expression back ([find_item]). *)
From Coq Require Import List NArith String Bool Lia.
From V Require Import Base.Util Base.Strings Base.Result Model.Registry Model.Settings Model.Subst
  Model.TypePath Model.Derives Model.Generate Model.Equal Model.Shape Proofs.GenProofs.
Import ListNotations.
Open Scope string_scope. Open Scope list_scope.

(** ** lists *)
Lemma map_Forall2_eq {A B C} (f : B -> C) (g : A -> C) (la : list A) (lb : list B) :
  Forall2 (fun a b => f b = g a) la lb -> map f lb = map g la.
Proof. induction 1 as [|a b la lb H _ IH]; cbn [map]; [reflexivity|]. rewrite H, IH. reflexivity. Qed.

Lemma Forall2_impl_In {A B} (P Q : A -> B -> Prop) la lb :
  Forall2 P la lb -> (forall a b, In a la -> P a b -> Q a b) -> Forall2 Q la lb.
Proof.
  induction 1 as [|a b la lb H _ IH]; intros HPQ; constructor.
  - apply HPQ; [left; reflexivity|assumption].
  - apply IH. intros a' b' Hin. apply HPQ. right; assumption.
Qed.

Lemma Forall2_map_l {A B C} (f : A -> B) (R : B -> C -> Prop) l l' :
  Forall2 R (map f l) l' -> Forall2 (fun a c => R (f a) c) l l'.
Proof.
  revert l'. induction l as [|x l IH]; intros l' H; cbn [map] in H; inversion H; subst; constructor; auto.
Qed.

(** ** induction on [tpath] (nested lists) *)
Section TpathInd.
  Variable P : tpath -> Prop.
  Hypothesis HParam : forall p, P (TParam p).
  Hypothesis HPath : forall ptoks params, Forall P params -> P (TPath ptoks params).
  Hypothesis HVec : forall t, P t -> P (TVec t).
  Hypothesis HArray : forall len t, P t -> P (TArray len t).
  Hypothesis HTuple : forall els, Forall P els -> P (TTuple els).
  Hypothesis HPrim : forall p, P (TPrim p).
  Hypothesis HCompact : forall t f c, P t -> P (TCompact t f c).
  Hypothesis HBitVec : forall o st b, P o -> P st -> P (TBitVec o st b).

  Fixpoint tpath_ind' (t : tpath) : P t :=
    match t with
    | TParam p => HParam p
    | TPath ptoks params =>
        HPath ptoks params
          ((fix go (l : list tpath) : Forall P l :=
              match l with
              | [] => Forall_nil P
              | x :: l' => Forall_cons x (tpath_ind' x) (go l')
              end) params)
    | TVec t => HVec t (tpath_ind' t)
    | TArray len t => HArray len t (tpath_ind' t)
    | TTuple els =>
        HTuple els
          ((fix go (l : list tpath) : Forall P l :=
              match l with
              | [] => Forall_nil P
              | x :: l' => Forall_cons x (tpath_ind' x) (go l')
              end) els)
    | TPrim p => HPrim p
    | TCompact t f c => HCompact t f c (tpath_ind' t)
    | TBitVec o st b => HBitVec o st b (tpath_ind' o) (tpath_ind' st)
    end.
End TpathInd.

Lemma map_ext_Forall {A B} (f g : A -> B) l : Forall (fun x => f x = g x) l -> map f l = map g l.
Proof. induction 1 as [|x l H _ IH]; cbn [map]; [reflexivity|]. rewrite H, IH. reflexivity. Qed.

(** substitution only looks at positions: it commutes with id erasure *)
Definition erase_sigma (sg : sigma) : sigma := map (fun x => (fst x, erase_tpath (snd x))) sg.

Lemma sigma_get_erase sg i :
  sigma_get (erase_sigma sg) i = option_map erase_tpath (sigma_get sg i).
Proof.
  induction sg as [|[j a] sg IH]; cbn [erase_sigma map sigma_get fst snd]; [reflexivity|].
  destruct (N.eqb j i); [reflexivity|exact IH].
Qed.

Lemma subst_erase sg t :
  subst_tpath (erase_sigma sg) (erase_tpath t) = erase_tpath (subst_tpath sg t).
Proof.
  induction t using tpath_ind'; cbn [erase_tpath subst_tpath erase_tpi tpi_idx]; try congruence.
  - rewrite sigma_get_erase. destruct (sigma_get sg (tpi_idx p)); reflexivity.
  - rewrite !map_map. f_equal. apply map_ext_Forall. assumption.
  - rewrite !map_map. f_equal. apply map_ext_Forall. assumption.
Qed.

Lemma erase_idem t : erase_tpath (erase_tpath t) = erase_tpath t.
Proof.
  induction t using tpath_ind'; cbn [erase_tpath]; try congruence.
  - reflexivity.
  - rewrite map_map. f_equal. apply map_ext_Forall. assumption.
  - rewrite map_map. f_equal. apply map_ext_Forall. assumption.
Qed.

Lemma subst_nil t : subst_tpath [] t = t.
Proof.
  induction t using tpath_ind'; cbn [subst_tpath sigma_get]; try congruence.
  - f_equal. rewrite <- (map_id params) at 2. apply map_ext_Forall. assumption.
  - f_equal. rewrite <- (map_id els) at 2. apply map_ext_Forall. assumption.
Qed.

(** ** the Cow case split *)
Definition is_cow (p : list string) : bool := cow_case p true false.

Lemma cow_case_if {A} p (a b : A) : cow_case p a b = if is_cow p then a else b.
Proof.
  unfold is_cow, cow_case. destruct (path_ident p) as [x|]; [|reflexivity].
  repeat match goal with
         | |- context [match ?x with _ => _ end] =>
             match type of x with
             | string => destruct x
             | Ascii.ascii => destruct x
             | bool => destruct x
             end
         end; reflexivity.
Qed.

(** ** unfolding equations of the model *)
Lemma resolve_rec_S r s fuel' id is_field parents orig :
  resolve_rec r s (S fuel') id is_field parents orig =
  match find_parent parents id orig with
  | Some p => Ok (TParam p)
  | None =>
    let* t0 := resolve_type r id in
    let* t :=
      cow_case (t_path t0)
        (match t_params t0 with
         | [] => Panic "index out of bounds"
         | p0 :: _ =>
             match tp_ty p0 with
             | None => Err EInvalidType
             | Some inner => resolve_type r inner
             end
         end)
        (Ok t0) in
    let* params := mapM (fun i => resolve_rec r s fuel' i false parents None) (param_ids t) in
    match t_def t with
    | TDComposite _ | TDVariant _ => type_path_maybe_with_substitutes s (t_path t) params
    | TDPrimitive p => Ok (TPrim p)
    | TDArray len e => let* i := resolve_rec r s fuel' e false parents None in Ok (TArray len i)
    | TDSequence e => let* i := resolve_rec r s fuel' e false parents None in Ok (TVec i)
    | TDTuple es => let* l := mapM (fun i => resolve_rec r s fuel' i false parents None) es in
                    Ok (TTuple l)
    | TDCompact e =>
        let* i := resolve_rec r s fuel' e false parents None in
        match s_compact s with
        | None => Err ECompactPathNone
        | Some c => Ok (TCompact i is_field c)
        end
    | TDBitSeq store order =>
        match s_bits s with
        | None => Err EBitsPathNone
        | Some b =>
            let* o := resolve_rec r s fuel' order false parents None in
            let* st := resolve_rec r s fuel' store false parents None in
            Ok (TBitVec o st b)
        end
    end
  end.
Proof. reflexivity. Qed.

Lemma resolve_type_ok r id t : resolve_type r id = Ok t -> resolve r id = Some t.
Proof. unfold resolve_type. destruct (resolve r id); intros H; inversion H; reflexivity. Qed.

(** the type whose definition the generator goes on with is the registry's [entry_body] *)
Lemma entry_body_spec r id t0 t :
  resolve_type r id = Ok t0 ->
  cow_case (t_path t0)
    (match t_params t0 with
     | [] => Panic "index out of bounds"
     | p0 :: _ =>
         match tp_ty p0 with
         | None => Err EInvalidType
         | Some inner => resolve_type r inner
         end
     end) (Ok t0) = Ok t ->
  entry_body r id = Some t /\ exists id', resolve r id' = Some t.
Proof.
  intros H0 H. apply resolve_type_ok in H0. unfold entry_body. rewrite H0.
  rewrite cow_case_if in H. rewrite cow_case_if. destruct (is_cow (t_path t0)).
  - destruct (t_params t0) as [|p0 ps]; [discriminate|].
    destruct (tp_ty p0) as [inner|]; [|discriminate].
    apply resolve_type_ok in H. split; [assumption|]. exists inner; assumption.
  - inversion H; subst. split; [reflexivity|]. exists id; assumption.
Qed.

(** ** parameters *)
Definition params_go :=
  fix go (i : N) (l : list tparam) : list tparam_ir :=
    match l with
    | [] => []
    | p :: l' =>
        match tp_ty p with
        | Some id => mk_tpi id (tp_name p) i :: go (i + 1)%N l'
        | None => go (i + 1)%N l'
        end
    end.

Lemma params_from_scale_info_eq ps : params_from_scale_info ps = params_go 0%N ps.
Proof. reflexivity. Qed.

Lemma params_go_ids : forall l i,
  map tpi_id (params_go i l) =
  flat_map (fun p => match tp_ty p with Some i => [i] | None => [] end) l.
Proof.
  induction l as [|p l IH]; intros i; cbn [params_go flat_map]; [reflexivity|].
  destruct (tp_ty p); cbn [map app tpi_id]; rewrite IH; reflexivity.
Qed.

Lemma param_ids_params t : param_ids t = map tpi_id (params_from_scale_info (t_params t)).
Proof. unfold param_ids. rewrite params_from_scale_info_eq, params_go_ids. reflexivity. Qed.

Lemma params_go_lower : forall l i p, In p (params_go i l) -> (i <= tpi_idx p)%N.
Proof.
  induction l as [|q l IH]; intros i p Hin; cbn [params_go] in Hin; [contradiction|].
  destruct (tp_ty q).
  - destruct Hin as [<-|Hin]; [cbn; lia|]. apply IH in Hin. lia.
  - apply IH in Hin. lia.
Qed.

Lemma params_go_nodup : forall l i, NoDup (map tpi_idx (params_go i l)).
Proof.
  induction l as [|q l IH]; intros i; cbn [params_go]; [constructor|].
  destruct (tp_ty q); [|apply IH].
  cbn [map tpi_idx]. constructor; [|apply IH].
  intros Hin. apply in_map_iff in Hin as (p & Hp & Hin). apply params_go_lower in Hin. lia.
Qed.

Lemma params_nodup ps : NoDup (map tpi_idx (params_from_scale_info ps)).
Proof. rewrite params_from_scale_info_eq. apply params_go_nodup. Qed.

(** looking a declared parameter up in the substitution built from the actual arguments *)
Lemma sigma_get_combine {R : tparam_ir -> tpath -> Prop} (f : tpath -> tpath) :
  forall P params, Forall2 R P params -> NoDup (map tpi_idx P) ->
  forall p, In p P ->
  exists a, sigma_get (mk_sigma P (map f params)) (tpi_idx p) = Some (f a) /\ R p a.
Proof.
  unfold mk_sigma. induction 1 as [|q a P params Hqa _ IH]; intros Hnd p Hin; [contradiction|].
  cbn [map combine sigma_get]. inversion Hnd as [|x l Hnotin Hnd']; subst.
  destruct Hin as [->|Hin].
  - rewrite N.eqb_refl. exists a. auto.
  - destruct (N.eqb (tpi_idx q) (tpi_idx p)) eqn:E.
    + apply N.eqb_eq in E. exfalso. apply Hnotin. rewrite E. apply in_map. assumption.
    + apply IH; assumption.
Qed.

(** ** reading a path expression back *)
Lemma toks_eqb_eq a b : toks_eqb a b = true <-> a = b.
Proof.
  unfold toks_eqb. split.
  - apply list_eqb_sound. intros x y. apply String.eqb_eq.
  - intros ->. apply list_eqb_refl. apply String.eqb_refl.
Qed.

Lemma flat_colons_inj : forall a b : list string,
  flat_map (fun s => [":"; ":"; s]) a = flat_map (fun s => [":"; ":"; s]) b -> a = b.
Proof.
  induction a as [|x a IH]; destruct b as [|y b]; cbn [flat_map app]; intros H; try discriminate; auto.
  inversion H; subst. f_equal. auto.
Qed.

Lemma rel_path_root_inj root a b : rel_path (root :: a) = rel_path (root :: b) -> a = b.
Proof. cbn [rel_path]. intros H. inversion H. apply flat_colons_inj; assumption. Qed.

Lemma find_item_get (m : items) s p :
  find_item m s (rel_path (s_root s :: p)) =
  match items_get m p with Some (_, ir) => Some ir | None => None end.
Proof.
  unfold find_item. induction m as [|[k [i ir]] m IH]; cbn [find items_get fst]; [reflexivity|].
  destruct (path_eqb k p) eqn:E.
  - apply path_eqb_eq in E; subst. replace (toks_eqb _ _) with true; [reflexivity|].
    symmetry. apply toks_eqb_eq. reflexivity.
  - replace (toks_eqb (rel_path (s_root s :: p)) (rel_path (s_root s :: k))) with false; [exact IH|].
    symmetry. destruct (toks_eqb _ _) eqn:E2; [|reflexivity].
    apply toks_eqb_eq, rel_path_root_inj in E2; subst. rewrite path_eqb_refl in E. discriminate.
Qed.

Lemma find_item_none (m : items) s ptoks :
  hd_error ptoks <> Some (s_root s) -> find_item m s ptoks = None.
Proof.
  intros H. unfold find_item.
  replace (find _ m) with (@None (list string * (N * type_ir))); [reflexivity|].
  symmetry. induction m as [|e m IH]; cbn [find]; [reflexivity|].
  destruct (toks_eqb ptoks (rel_path (s_root s :: fst e))) eqn:E; [|exact IH].
  apply toks_eqb_eq in E. subst. cbn in H. congruence.
Qed.

Lemma subs_get_In : forall (sb : substitutes) p sub, subs_get sb p = Some sub -> exists k, In (k, sub) sb.
Proof.
  induction sb as [|[k v] sb IH]; cbn [subs_get]; intros p sub H; [discriminate|].
  destruct (path_eqb k p).
  - inversion H; subst. exists k. left; reflexivity.
  - apply IH in H as (k' & Hin). exists k'. right; assumption.
Qed.

Lemma assoc_str_In {A} : forall (l : list (string * A)) k v, assoc_str l k = Some v -> In (k, v) l.
Proof.
  induction l as [|[k' v'] l IH]; cbn [assoc_str]; intros k v H; [discriminate|].
  destruct (String.eqb k k') eqn:E.
  - apply String.eqb_eq in E. inversion H; subst. left; reflexivity.
  - right. apply IH; assumption.
Qed.

(** every prelude path starts with the alloc path or with a leading [::] *)
Lemma prelude_hd alloc root ident tk :
  root <> ":" -> hd_error alloc <> Some root ->
  assoc_str (prelude_table alloc) ident = Some tk -> hd_error tk <> Some root.
Proof.
  intros Hc Ha H. apply assoc_str_In in H.
  assert (Hal : forall l, hd_error (alloc ++ ":" :: l) <> Some root).
  { intros l. destruct alloc as [|a al]; [cbn; congruence|exact Ha]. }
  assert (Hab : forall l, hd_error (":" :: l) <> Some root) by (intros; cbn; congruence).
  unfold prelude_table in H. cbn [In] in H.
  repeat (destruct H as [H|H]; [injection H as _ <-; first [apply Hab | apply Hal]|]).
  contradiction.
Qed.

(** ** the Rust-side reading and id erasure *)
Section RustErase.
  Variable m : items.
  Variable s : settings.

  Lemma field_shapes_ext sh1 sh2 k :
    (forall fp, sh1 fp = sh2 fp) -> field_shapes sh1 k = field_shapes sh2 k.
  Proof.
    intros H. destruct k as [|fs|fs]; cbn [field_shapes]; [reflexivity| |];
      apply map_ext; intros x; rewrite H; reflexivity.
  Qed.

  Lemma kind_shape_ext sh1 sh2 k :
    (forall fp, sh1 fp = sh2 fp) -> kind_shape sh1 k = kind_shape sh2 k.
  Proof.
    intros H. destruct k as [c|nm docs vs]; cbn [kind_shape].
    - f_equal. apply field_shapes_ext; assumption.
    - f_equal. apply map_ext. intros x. f_equal. apply field_shapes_ext; assumption.
  Qed.

  Lemma field_shapes_erase sh k :
    (forall fp, sh (erase_tpath fp) = sh fp) -> field_shapes sh (erase_ckind k) = field_shapes sh k.
  Proof.
    intros H. destruct k as [|fs|fs]; cbn [field_shapes erase_ckind]; [reflexivity| |];
      rewrite map_map; apply map_ext; intros x; cbn [fst snd erase_fi fi_path fi_boxed];
      rewrite H; reflexivity.
  Qed.

  Lemma kind_shape_erase sh k :
    (forall fp, sh (erase_tpath fp) = sh fp) -> kind_shape sh (erase_kind k) = kind_shape sh k.
  Proof.
    intros H. destruct k as [c|nm docs vs]; cbn [kind_shape erase_kind erase_ci ci_kind].
    - f_equal. apply field_shapes_erase; assumption.
    - f_equal. rewrite map_map. apply map_ext. intros x. cbn [fst snd erase_ci ci_kind ci_name].
      f_equal. apply field_shapes_erase; assumption.
  Qed.

  Lemma mk_sigma_erase P args : mk_sigma P (map erase_tpath args) = erase_sigma (mk_sigma P args).
  Proof.
    unfold mk_sigma, erase_sigma. generalize (map tpi_idx P) as ks. intros ks. revert args.
    induction ks as [|k ks IH]; intros args; [reflexivity|].
    destruct args as [|a args]; cbn [map combine fst snd]; [reflexivity|]. rewrite IH. reflexivity.
  Qed.

  Lemma erase_sigma_idem sg : erase_sigma (erase_sigma sg) = erase_sigma sg.
  Proof.
    unfold erase_sigma. rewrite map_map. apply map_ext. intros x. cbn [fst snd].
    rewrite erase_idem. reflexivity.
  Qed.

  Lemma shape_rust_erase : forall n t, shape_rust m s n (erase_tpath t) = shape_rust m s n t.
  Proof.
    induction n as [|n IH]; intros t; [reflexivity|].
    destruct t as [p|ptoks params|t|len t|els|p|t f c|o st b]; cbn [erase_tpath shape_rust];
      try (rewrite ?IH; reflexivity).
    - destruct (find_item m s ptoks) as [ir|].
      + unfold item_shape_with. apply kind_shape_ext. intros fp.
        rewrite mk_sigma_erase.
        rewrite <- (IH (subst_tpath (erase_sigma _) fp)), <- subst_erase, erase_sigma_idem.
        rewrite subst_erase. apply IH.
      + f_equal. rewrite map_map. apply map_ext. intros x. apply IH.
    - f_equal. rewrite map_map. apply map_ext. intros x. apply IH.
  Qed.

  Lemma subst_erase_shape n sg fp :
    shape_rust m s n (subst_tpath sg (erase_tpath fp)) = shape_rust m s n (subst_tpath sg fp).
  Proof.
    rewrite <- (shape_rust_erase n (subst_tpath sg (erase_tpath fp))).
    rewrite <- subst_erase, erase_idem, subst_erase. apply shape_rust_erase.
  Qed.

  (** items that differ only in the ids stored in their parameters have the same shape *)
  Lemma item_shape_erase n ir args :
    item_shape_with (shape_rust m s n) (erase_ids ir) args = item_shape_with (shape_rust m s n) ir args.
  Proof.
    unfold item_shape_with. cbn [erase_ids ti_params ti_kind].
    replace (mk_sigma (map erase_tpi (ti_params ir)) args) with (mk_sigma (ti_params ir) args).
    - apply (kind_shape_erase (fun fp => shape_rust m s n (subst_tpath _ fp))).
      intros fp. apply subst_erase_shape.
    - unfold mk_sigma. rewrite map_map. reflexivity.
  Qed.

  Lemma item_shape_erase_eq n ir ir' args :
    erase_ids ir = erase_ids ir' ->
    item_shape_with (shape_rust m s n) ir args = item_shape_with (shape_rust m s n) ir' args.
  Proof. intros H. rewrite <- (item_shape_erase n ir), <- (item_shape_erase n ir'), H. reflexivity. Qed.
End RustErase.

(** ** the head of a substitute target is not touched by the parameter replacement *)
Definition print_segs :=
  fix go (l : list (string * pargs)) (first : bool) : tokens :=
    match l with
    | [] => []
    | (id, a) :: l' => (if first then [] else colon2) ++ id :: print_pargs a ++ go l' false
    end.

Definition repl_segs (params : list (string * tokens)) :=
  fix go (l : list (string * pargs)) : list (string * pargs) :=
    match l with
    | [] => []
    | (id, a) :: l' => (id, replace_pargs params a) :: go l'
    end.

Lemma print_spath_eq p :
  print_spath p = (if sp_leading p then colon2 else []) ++ print_segs (sp_segs p) true.
Proof. reflexivity. Qed.

Lemma replace_spath_eq params p :
  replace_spath params p = mk_spath (sp_leading p) (repl_segs params (sp_segs p)).
Proof. reflexivity. Qed.

Lemma until_lt_app a x y : until_lt x = until_lt y -> until_lt (a ++ x) = until_lt (a ++ y).
Proof.
  intros H. induction a as [|c a IH]; cbn [app until_lt]; [assumption|].
  destruct (String.eqb c "<"); [reflexivity|]. rewrite IH. reflexivity.
Qed.

Lemma print_pargs_angle args : exists rest, print_pargs (AAngle args) = "<" :: rest.
Proof. eexists. reflexivity. Qed.

Lemma until_lt_repl_segs params : forall l first,
  until_lt (print_segs (repl_segs params l) first) = until_lt (print_segs l first).
Proof.
  induction l as [|[id a] l IH]; intros first; [reflexivity|].
  cbn [repl_segs print_segs]. fold (repl_segs params). fold print_segs.
  apply until_lt_app. apply (until_lt_app [id]).
  destruct a as [|args|toks].
  - cbn [replace_pargs]. apply (until_lt_app (print_pargs ANone)). apply IH.
  - cbn [replace_pargs].
    destruct (print_pargs_angle args) as (r1 & ->).
    match goal with |- context [print_pargs (AAngle ?x)] => destruct (print_pargs_angle x) as (r2 & ->) end.
    reflexivity.
  - cbn [replace_pargs]. apply (until_lt_app (print_pargs (AParen toks))). apply IH.
Qed.

Lemma until_lt_replace params p :
  until_lt (print_spath (replace_spath params p)) = until_lt (print_spath p).
Proof.
  rewrite replace_spath_eq, !print_spath_eq. cbn [sp_leading sp_segs].
  apply until_lt_app. apply until_lt_repl_segs.
Qed.

Lemma until_lt_hd x y root :
  root <> "<" -> until_lt x = until_lt y -> hd_error y <> Some root -> hd_error x <> Some root.
Proof.
  intros Hr H Hy Hx. destruct x as [|a x]; [discriminate|]. cbn in Hx. inversion Hx; subst a.
  cbn [until_lt] in H. destruct (String.eqb root "<") eqn:E; [apply String.eqb_eq in E; contradiction|].
  destruct y as [|b y]; [discriminate|]. cbn [until_lt] in H.
  destruct (String.eqb b "<"); [discriminate|]. inversion H; subst. apply Hy. reflexivity.
Qed.

Lemma is_cow_true p : is_cow p = true -> path_ident p = Some "Cow".
Proof.
  unfold is_cow, cow_case. destruct (path_ident p) as [x|]; [|discriminate].
  repeat match goal with
         | |- context [match ?x with _ => _ end] =>
             match type of x with
             | string => destruct x
             | Ascii.ascii => destruct x
             | bool => destruct x
             end
         end; intros H; try discriminate H; reflexivity.
Qed.

Lemma is_cow_false p : path_ident p <> Some "Cow" -> is_cow p = false.
Proof. intros H. destruct (is_cow p) eqn:E; [|reflexivity]. apply is_cow_true in E. contradiction. Qed.
