(** C14: the fuelled boolean [Model.Conforms.copy_ty] ("the type generated for an id is [Copy]")
    against its fuel-free reading as an inductive predicate on the registry.

    [copy_type r id] (inductive): the entry is a primitive other than [str]; an array (any length)
    whose element is [copy_type]; a tuple all of whose members are; a Compact entry whose inner type
    is.  Nothing else.

    - [copy_ty_sound]   : [copy_ty r fuel id = true -> copy_type r id] for every fuel;
    - [copy_ty_fuel]    : [copy_ty r n id = true -> copy_tyb r id = true]: the fuel of [copy_tyb]
                          (number of entries + 1) is adequate -- whatever some fuel accepts it accepts
                          (a successful descent never visits an id twice on one branch: a repeated
                          id would need a strictly smaller successful fuel, ad infinitum);
    - [copy_tyb_iff]    : [copy_tyb r id = true <-> copy_type r id].
    "Out of fuel = false" therefore never refuses a type that is [Copy] by the inductive reading;
    entries on a cycle of array / tuple / compact edges are not [copy_type] (no finite derivation). *)
From Coq Require Import List NArith Bool Lia FinFun Wf_nat Arith.
From V Require Import Base.Util Model.Registry Model.ExampleRust Model.Conforms.
Import ListNotations.
Open Scope list_scope.

Section CopyTy.
  Variable r : registry.

  Inductive copy_type : N -> Prop :=
  | ct_prim id t p :
      lookup r id = Some t -> t_def t = TDPrimitive p -> p <> PStr -> copy_type id
  | ct_array id t n e :
      lookup r id = Some t -> t_def t = TDArray n e -> copy_type e -> copy_type id
  | ct_tuple id t l :
      lookup r id = Some t -> t_def t = TDTuple l -> (forall c, In c l -> copy_type c) -> copy_type id
  | ct_compact id t e :
      lookup r id = Some t -> t_def t = TDCompact e -> copy_type e -> copy_type id.

  (** the ids a copy verdict depends on; [None]: never copy *)
  Definition kids (t : ty) : option (list N) :=
    match t_def t with
    | TDPrimitive p => match p with PStr => None | _ => Some [] end
    | TDArray _ e => Some [e]
    | TDTuple l => Some l
    | TDCompact e => Some [e]
    | _ => None
    end.

  Lemma copy_S fuel id :
    copy_ty r (S fuel) id =
    match lookup r id with
    | Some t => match kids t with Some l => forallb (copy_ty r fuel) l | None => false end
    | None => false
    end.
  Proof.
    cbn [copy_ty]. destruct (lookup r id) as [t|]; [|reflexivity]. unfold kids.
    destruct (t_def t) as [fs|vs|e|n e|l|p|e|bs bo]; try reflexivity.
    - cbn [forallb]. rewrite andb_true_r. reflexivity.
    - destruct p; reflexivity.
    - cbn [forallb]. rewrite andb_true_r. reflexivity.
  Qed.

  Lemma kids_copy id t l :
    lookup r id = Some t -> kids t = Some l -> (forall c, In c l -> copy_type c) -> copy_type id.
  Proof.
    intros L K H. unfold kids in K. destruct (t_def t) as [fs|vs|e|n e|l0|p|e|bs bo] eqn:D; try discriminate K.
    - inversion K; subst l. eapply ct_array; [exact L|exact D|]. apply H. left. reflexivity.
    - inversion K; subst l0. eapply ct_tuple; [exact L|exact D|exact H].
    - eapply ct_prim; [exact L|exact D|]. intros ->. discriminate K.
    - inversion K; subst l. eapply ct_compact; [exact L|exact D|]. apply H. left. reflexivity.
  Qed.

  Theorem copy_ty_sound : forall fuel id, copy_ty r fuel id = true -> copy_type id.
  Proof.
    induction fuel as [|fuel IH]; intros id H; [discriminate H|].
    rewrite copy_S in H. destruct (lookup r id) as [t|] eqn:L; [|discriminate H].
    destruct (kids t) as [l|] eqn:K; [|discriminate H].
    apply (kids_copy id t l L K). intros c Hc. apply IH.
    rewrite forallb_forall in H. apply H. exact Hc.
  Qed.

  Lemma copy_ty_mono : forall f f' id, (f <= f')%nat -> copy_ty r f id = true -> copy_ty r f' id = true.
  Proof.
    induction f as [|f IH]; intros f' id Hle H; [discriminate H|].
    destruct f' as [|f']; [lia|]. rewrite copy_S in *.
    destruct (lookup r id) as [t|]; [|discriminate H]. destruct (kids t) as [l|]; [|discriminate H].
    rewrite forallb_forall in *. intros c Hc. apply (IH f' c); [lia|apply H; exact Hc].
  Qed.

  Lemma copy_type_some_fuel id : copy_type id -> exists f, copy_ty r f id = true.
  Proof.
    induction 1 as [id t p L D Hp|id t n e L D _ [f IH]|id t l L D _ IH|id t e L D _ [f IH]].
    - exists 1%nat. cbn [copy_ty]. rewrite L, D. destruct p; try reflexivity. exfalso. apply Hp. reflexivity.
    - exists (S f). cbn [copy_ty]. rewrite L, D. exact IH.
    - assert (K : exists f, forallb (copy_ty r f) l = true).
      { clear L D. induction l as [|c l IHl]; [exists 0%nat; reflexivity|].
        destruct (IH c (or_introl eq_refl)) as [f1 H1].
        destruct IHl as [f2 H2]; [intros c' Hc'; apply IH; right; exact Hc'|].
        exists (Nat.max f1 f2). cbn [forallb].
        rewrite (copy_ty_mono f1 (Nat.max f1 f2) c ltac:(lia) H1). cbn [andb].
        rewrite forallb_forall in *. intros c' Hc'. apply (copy_ty_mono f2); [lia|apply H2; exact Hc']. }
      destruct K as [f K]. exists (S f). cbn [copy_ty]. rewrite L, D. exact K.
    - exists (S f). cbn [copy_ty]. rewrite L, D. exact IH.
  Qed.

  (** ** the fuel [S (length r)] is adequate *)
  Let len := List.length r.

  Lemma lookup_lt id t : lookup r id = Some t -> (N.to_nat id < len)%nat.
  Proof.
    unfold lookup. destruct (id <? N.of_nat (List.length r))%N eqn:E; [|discriminate].
    intros _. apply N.ltb_lt in E. unfold len. lia.
  Qed.

  Lemma bounded_nodup_length (vis : list N) :
    NoDup vis -> (forall v, In v vis -> (N.to_nat v < len)%nat) -> (List.length vis <= len)%nat.
  Proof.
    intros Hnd Hb.
    assert (Hn : NoDup (map N.to_nat vis)).
    { apply FinFun.Injective_map_NoDup; [|exact Hnd]. intros a b Hab. apply N2Nat.inj. exact Hab. }
    assert (Hi : incl (map N.to_nat vis) (seq 0 len)).
    { intros x Hx. apply in_map_iff in Hx as (v & <- & Hv). apply in_seq. specialize (Hb v Hv). lia. }
    pose proof (NoDup_incl_length Hn Hi) as Hl. rewrite map_length, seq_length in Hl. exact Hl.
  Qed.

  (** [vis]: the ids on the branch above [id]; the success of each of them at fuel [k] needs the
      success of [id] at a smaller fuel *)
  Lemma copy_bound : forall n id (vis : list N),
    copy_ty r n id = true ->
    NoDup vis -> (forall v, In v vis -> (N.to_nat v < len)%nat) ->
    (forall v, In v vis -> forall k, copy_ty r k v = true -> exists j, (j < k)%nat /\ copy_ty r j id = true) ->
    copy_ty r (S len - List.length vis) id = true.
  Proof.
    induction n as [|n IH]; intros id vis H Hnd Hb Hreach; [discriminate H|].
    assert (Hnot : ~ In id vis).
    { intros Hin.
      assert (Hnone : forall k, copy_ty r k id = false).
      { induction k as [k IHk] using lt_wf_ind.
        destruct (copy_ty r k id) eqn:E; [|reflexivity].
        destruct (Hreach id Hin k E) as (j & Hj & Ej). rewrite (IHk j Hj) in Ej. discriminate Ej. }
      rewrite Hnone in H. discriminate H. }
    rewrite copy_S in H. destruct (lookup r id) as [t|] eqn:L; [|discriminate H].
    destruct (kids t) as [l|] eqn:K; [|discriminate H].
    pose proof (lookup_lt id t L) as Hid.
    assert (Hnd' : NoDup (id :: vis)) by (constructor; assumption).
    assert (Hb' : forall v, In v (id :: vis) -> (N.to_nat v < len)%nat).
    { intros v [<-|Hv]; [exact Hid|apply Hb; exact Hv]. }
    pose proof (bounded_nodup_length (id :: vis) Hnd' Hb') as Hlen'. cbn [List.length] in Hlen'.
    replace (S len - List.length vis)%nat with (S (len - List.length vis)) by lia.
    rewrite copy_S, L, K. rewrite forallb_forall in *. intros c Hc. specialize (H c Hc).
    replace (len - List.length vis)%nat with (S len - List.length (id :: vis))%nat by (cbn [List.length]; lia).
    assert (Hidk : forall k, copy_ty r k id = true -> exists j, (j < k)%nat /\ copy_ty r j c = true).
    { intros [|k] Ek; [discriminate Ek|]. exists k. split; [lia|].
      rewrite copy_S, L, K in Ek. rewrite forallb_forall in Ek. apply Ek. exact Hc. }
    apply (IH c (id :: vis) H Hnd' Hb').
    intros v Hv k Ek. destruct Hv as [<-|Hv]; [apply Hidk; exact Ek|].
    destruct (Hreach v Hv k Ek) as (j & Hj & Ej). destruct (Hidk j Ej) as (j' & Hj' & Ej').
    exists j'. split; [lia|exact Ej'].
  Qed.

  Theorem copy_ty_fuel n id : copy_ty r n id = true -> copy_tyb r id = true.
  Proof.
    intros H. pose proof (copy_bound n id [] H (NoDup_nil _)) as K. cbn [List.length] in K.
    rewrite Nat.sub_0_r in K. unfold copy_tyb. apply K; intros v [].
  Qed.

  Theorem copy_tyb_iff id : copy_tyb r id = true <-> copy_type id.
  Proof.
    split.
    - unfold copy_tyb. apply copy_ty_sound.
    - intros H. destruct (copy_type_some_fuel id H) as [f Hf]. exact (copy_ty_fuel f id Hf).
  Qed.
End CopyTy.
