(** The hypotheses of the C05 / C04 theorems evaluated on concrete programs. *)
From Coq Require Import List NArith String Bool.
From V Require Import Base.Result Model.Registry Model.Settings Model.Subst Model.TypePath Model.Generate
  Model.Equal Model.Shape Model.Program Model.ProgramSkel Model.ProgramTeq Model.ProgramExamples
  Proofs.SourceRoundTrip Proofs.RegistryOfSound.
Import ListNotations.
Open Scope string_scope. Open Scope N_scope.

Lemma ex6_RegistryOf : RegistryOf ex6_defs (label_at ex6_labels) ex6_reg.
Proof. apply registry_ofb_sound; vm_compute; reflexivity. Qed.

Lemma ex6_settings_ok :
  prelude_okb ex6_s = true /\ order_resolves ex6_s ex6_otp /\ render_okb ex6_s ex6_defs = true.
Proof.
  split; [vm_compute; reflexivity|]. split; [apply order_resolvesb_sound; vm_compute; reflexivity|vm_compute; reflexivity].
Qed.

Lemma ex6_hypotheses :
  (forall sd, In sd ex6_defs -> def_okb ex6_s sd = true) /\
  nth_error ex6_defs 0 = Some ex6_sd /\
  forallb (fun f => no_cow_cow (sf_ty f)) (def_sfields ex6_sd) = true /\ box_names_okb ex6_defs ex6_sd = true /\
  forallb (fun f => apps_okb ex6_defs (sf_ty f) && field_conv_okb f) (def_sfields ex6_sd) = true /\
  instantiation_cf ex6_defs ex6_sd [SPrimT PU16] = true /\ instantiation_cf ex6_defs ex6_sd [SPrimT PBool] = true /\
  compact_fields_okb ex6_defs ex6_sd [SPrimT PU16] = true /\ compact_fields_okb ex6_defs ex6_sd [SPrimT PBool] = true /\
  (exists ir, create_type_ir ex6_reg ex6_s (ex6_bar 1 2 3 10) flat0 = Ok (Some ir) /\
              erase_ids ir = ir_of_source ex6_defs ex6_s ex6_otp ex6_sd) /\
  (exists ir, create_type_ir ex6_reg ex6_s (ex6_bar 12 13 14 18) flat0 = Ok (Some ir) /\
              erase_ids ir = ir_of_source ex6_defs ex6_s ex6_otp ex6_sd) /\
  skeleton_consistentb ex6_reg ex6_s = true /\
  is_ok (generate ex6_reg ex6_s (types_equal ex6_reg)) = true.
Proof.
  split.
  { intros sd [<-|[]]. vm_compute. reflexivity. }
  repeat split; try (vm_compute; reflexivity).
  - eexists. split; vm_compute; reflexivity.
  - eexists. split; vm_compute; reflexivity.
Qed.

Lemma ex7_RegistryOf : RegistryOf ex7_defs (label_at ex7_labels) ex7_reg.
Proof. apply registry_ofb_sound; vm_compute; reflexivity. Qed.

Lemma ex7_hypotheses :
  nth_error ex7_defs 0 = Some ex7_sd /\ teq_program_okb ex7_sd = true /\
  instantiation_cf ex7_defs ex7_sd [SPrimT PU16] = true /\ instantiation_cf ex7_defs ex7_sd [SPrimT PBool] = true /\
  label_at ex7_labels 0 = Some (SApp 0 [SPrimT PU16]) /\ label_at ex7_labels 10 = Some (SApp 0 [SPrimT PBool]) /\
  types_equal_res ex7_reg 0 10 = Ok true.
Proof. repeat split; vm_compute; reflexivity. Qed.

Lemma f19_RegistryOf : RegistryOf f19_defs (label_at f19_labels) f19_reg.
Proof. apply registry_ofb_sound; vm_compute; reflexivity. Qed.

Lemma f19_facts :
  instantiation_cf f19_defs (nth 0 f19_defs pe_default) [SPrimT PU8; SVec (SPrimT PU8)] = true /\
  instantiation_cf f19_defs (nth 0 f19_defs pe_default) [SPrimT PU16; SVec (SPrimT PU16)] = true /\
  instantiation_cf f19_defs (nth 1 f19_defs pe_default) [SPrimT PU8] = true /\
  instantiation_cf f19_defs (nth 1 f19_defs pe_default) [SPrimT PU16] = true /\
  skeleton_consistentb f19_reg f19_s = true /\
  types_equal_res f19_reg 0 4 = Ok false /\
  generate f19_reg f19_s (types_equal f19_reg) = Err (EDuplicatePath "a::D").
Proof. repeat split; vm_compute; reflexivity. Qed.

Lemma f19b_RegistryOf : RegistryOf f19b_defs (label_at f19b_labels) f19b_reg.
Proof. apply registry_ofb_sound; vm_compute; reflexivity. Qed.

Lemma f19b_facts :
  instantiation_cf f19b_defs (nth 0 f19b_defs pe_default) f19b_args1 = true /\
  instantiation_cf f19b_defs (nth 0 f19b_defs pe_default) f19b_args2 = true /\
  skeleton_consistentb f19b_reg f19_s = true /\
  types_equal_res f19b_reg 0 7 = Ok false /\ types_equal_res f19b_reg 7 0 = Ok false /\
  generate f19b_reg f19_s (types_equal f19b_reg) = Err (EDuplicatePath "a::D").
Proof. repeat split; vm_compute; reflexivity. Qed.
