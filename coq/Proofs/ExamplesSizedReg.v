(** C02, indirection clause: the decidable condition [by_value_acyclicb] (Model/SizedReg.v) on
    concrete registries.
    - it HOLDS on recursive registries whose recursion goes through [Box] / [Vec] / [Rc] / a heap
      collection (so the hypothesis of [C02_sized] is satisfiable on recursive inputs);
    - it FAILS on [struct Bad { x: Option<Bad> }] and relatives, and there the model really
      emits a by-value cycle ([walk (item_edge ..)] witness): on these inputs the condition is
      necessary;
    - the rank hypothesis [bv_ranked] of [C02_sized_partial] is NOT satisfiable on a registry with
      two instantiations of [Option] in a chain (it asks for equal ranks of all entries with the
      path [Option]), while [by_value_acyclicb] holds there;
    - the run-time checker [sizedb] (Checkers/Sem.v) on the parse of the emitted module agrees
      with [by_value_acyclicb] on all of them, except on the one registry that has a cycle only
      after instantiating a generic parameter (parameters are opaque in [item_edge] and in
      [by_value_acyclicb]; [sizedb] sees through them). *)
From Coq Require Import List NArith String Bool Lia.
From V Require Import Base.Util Base.Strings Base.Result Model.Registry Model.Settings Model.Subst
  Model.TypePath Model.Derives Model.Generate Model.Emit Model.Equal Model.WellFormed Model.Sized
  Model.SizedReg Model.ExamplesTG
  Checkers.Parse Checkers.Sem Corr.CheckTG
  Proofs.GenProofs Proofs.ClosedProofs Proofs.SizedProofs Proofs.SizedRegProofs.
From V Require Proofs.WfExample.
Import ListNotations.
Open Scope string_scope. Open Scope list_scope. Open Scope N_scope.

Definition sz_u (ty : N) (tn : string) : field := mk_field None ty (Some tn) [].
Definition sz_f (n : string) (ty : N) (tn : string) : field := mk_field (Some n) ty (Some tn) [].
Definition sz_option (arg : N) : ty :=
  mk_ty ["Option"] [mk_tparam "T" (Some arg)]
        (TDVariant [mk_variant "None" [] 0 []; mk_variant "Some" [sz_u arg "T"] 1 []]) [].

(** enum List { Nil, Cons(u8, Box<List>) }   struct Tree { kids: Vec<Tree> }
    struct N { next: Option<Rc<N>> }   struct M { m: BTreeMap<u8, M> } *)
Definition sz_reg_ok : registry :=
  [ (0, mk_ty [] [] (TDPrimitive PU8) []);
    (1, mk_ty ["m"; "List"] []
              (TDVariant [mk_variant "Nil" [] 0 [];
                          mk_variant "Cons" [sz_u 0 "u8"; sz_u 1 "Box<List>"] 1 []]) []);
    (2, mk_ty [] [] (TDSequence 3) []);
    (3, mk_ty ["m"; "Tree"] [] (TDComposite [sz_f "kids" 2 "Vec<Tree>"]) []);
    (4, mk_ty ["m"; "N"] [] (TDComposite [sz_f "next" 5 "Option<Rc<N>>"]) []);
    (5, sz_option 4);
    (6, mk_ty ["m"; "M"] [] (TDComposite [sz_f "m" 7 "BTreeMap<u8, M>"]) []);
    (7, mk_ty ["BTreeMap"] [mk_tparam "K" (Some 0); mk_tparam "V" (Some 6)]
              (TDComposite [sz_u 9 "Vec<(K, V)>"]) []);
    (8, mk_ty [] [] (TDTuple [0; 6]) []);
    (9, mk_ty [] [] (TDSequence 8) []) ].

(** struct Bad { x: Option<Bad> } *)
Definition sz_reg_bad : registry :=
  [ (0, mk_ty ["m"; "Bad"] [] (TDComposite [sz_f "x" 1 "Option<Bad>"]) []);
    (1, sz_option 0) ].

(** struct Node((u8, [Node; 2])) : through a tuple and an array *)
Definition sz_reg_bad_tuple : registry :=
  [ (0, mk_ty [] [] (TDPrimitive PU8) []);
    (1, mk_ty ["m"; "Node"] [] (TDComposite [sz_u 2 "(u8, [Node; 2])"]) []);
    (2, mk_ty [] [] (TDTuple [0; 3]) []);
    (3, mk_ty [] [] (TDArray 2 1) []) ].

(** enum A { X(B) }  struct B { a: A } : mutual *)
Definition sz_reg_bad_mutual : registry :=
  [ (0, mk_ty ["m"; "A"] [] (TDVariant [mk_variant "X" [sz_u 1 "B"] 0 []]) []);
    (1, mk_ty ["m"; "B"] [] (TDComposite [sz_f "a" 0 "A"]) []) ].

(** struct C { c: Cow<'static, C> } : the resolver prints [Cow<T>] as [T] *)
Definition sz_reg_bad_cow : registry :=
  [ (0, mk_ty ["m"; "C"] [] (TDComposite [sz_f "c" 1 "Cow<'static, C>"]) []);
    (1, mk_ty ["Cow"] [mk_tparam "T" (Some 0)] (TDComposite [sz_u 0 "T"]) []) ].

(** struct A { x: Option<B> }  struct B { y: Option<u8> } : no recursion at all *)
Definition sz_reg_chain : registry :=
  [ (0, mk_ty [] [] (TDPrimitive PU8) []);
    (1, mk_ty ["m"; "A"] [] (TDComposite [sz_f "x" 3 "Option<B>"]) []);
    (2, mk_ty ["m"; "B"] [] (TDComposite [sz_f "y" 4 "Option<u8>"]) []);
    (3, sz_option 2);
    (4, sz_option 0) ].

(** struct W<T> { x: T }  struct A { w: W<B> }  struct B { w: W<u8> } : two instantiations of a
    generated generic item in a chain *)
Definition sz_wrap (arg : N) : ty :=
  mk_ty ["m"; "W"] [mk_tparam "T" (Some arg)] (TDComposite [sz_f "x" arg "T"]) [].
Definition sz_reg_generic : registry :=
  [ (0, mk_ty [] [] (TDPrimitive PU8) []);
    (1, mk_ty ["m"; "A"] [] (TDComposite [sz_f "w" 3 "W<B>"]) []);
    (2, mk_ty ["m"; "B"] [] (TDComposite [sz_f "w" 4 "W<u8>"]) []);
    (3, sz_wrap 2);
    (4, sz_wrap 0) ].

(** struct Holder<T> { v: T }  struct B { a: Holder<B> } : a cycle only after instantiation *)
Definition sz_reg_inst : registry :=
  [ (0, mk_ty ["m"; "B"] [] (TDComposite [sz_f "a" 1 "Holder<B>"]) []);
    (1, mk_ty ["m"; "Holder"] [mk_tparam "T" (Some 0)] (TDComposite [sz_f "v" 0 "T"]) []) ].

(** ** the condition, evaluated *)
Example sz_acyclic_true :
  by_value_acyclicb sz_reg_ok ex_set = true /\
  by_value_acyclicb sz_reg_chain ex_set = true /\
  by_value_acyclicb sz_reg_generic ex_set = true /\
  by_value_acyclicb ex_reg ex_set = true /\
  by_value_acyclicb ex_reg1 ex_set = true /\
  by_value_acyclicb WfExample.ex_reg WfExample.ex_set = true.
Proof. repeat split; vm_compute; reflexivity. Qed.

Example sz_acyclic_false :
  by_value_acyclicb sz_reg_bad ex_set = false /\
  by_value_acyclicb sz_reg_bad_tuple ex_set = false /\
  by_value_acyclicb sz_reg_bad_mutual ex_set = false /\
  by_value_acyclicb sz_reg_bad_cow ex_set = false.
Proof. repeat split; vm_compute; reflexivity. Qed.

(** the graph and the computed rank on the first registry *)
Example sz_graph_ok :
  bv_graph sz_reg_ok ex_set =
    [(["m"; "List"], []); (["m"; "Tree"], []); (["m"; "N"], []); (["m"; "M"], [])] /\
  bv_graph sz_reg_chain ex_set = [(["m"; "A"], [["m"; "B"]]); (["m"; "B"], [])] /\
  bv_rank_of sz_reg_chain ex_set ["m"; "A"] = 1%nat /\
  bv_graph sz_reg_bad ex_set = [(["m"; "Bad"], [["m"; "Bad"]])].
Proof. repeat split; vm_compute; reflexivity. Qed.

(** ** the hypothesis of [C02_sized] is satisfiable on a recursive registry, and generation
    succeeds there: the theorem applies *)
Example sz_root_fresh : root_fresh ex_set.
Proof. split; [discriminate|]. split; [cbn; discriminate|]. intros k sub []. Qed.

Example sz_ok_generates :
  exists m, generate sz_reg_ok ex_set (types_equal sz_reg_ok) = Ok m /\
            map fst m = [["m"; "List"]; ["m"; "M"]; ["m"; "N"]; ["m"; "Tree"]].
Proof. vm_compute. eexists. split; reflexivity. Qed.

Example sz_ok_by_theorem :
  forall m, generate sz_reg_ok ex_set (types_equal sz_reg_ok) = Ok m ->
  forall n p, ~ walk (item_edge ex_set m) n p p.
Proof.
  intros m Hg. apply (sized sz_reg_ok ex_set sz_root_fresh (types_equal sz_reg_ok) m); [|exact Hg].
  vm_compute. reflexivity.
Qed.

(** ** where the condition fails the model emits a by-value cycle *)
Example sz_bad_cycle :
  exists m, generate sz_reg_bad ex_set (types_equal sz_reg_bad) = Ok m /\
            walk (item_edge ex_set m) 0 ["m"; "Bad"] ["m"; "Bad"].
Proof.
  eexists. split; [vm_compute; reflexivity|].
  cbn [walk]. unfold item_edge.
  eexists _, _, _, _. split; [vm_compute; reflexivity|].
  split; [vm_compute; left; reflexivity|]. split; [reflexivity|].
  vm_compute. right. left. reflexivity.
Qed.

Example sz_bad_mutual_cycle :
  exists m, generate sz_reg_bad_mutual ex_set (types_equal sz_reg_bad_mutual) = Ok m /\
            walk (item_edge ex_set m) 1 ["m"; "A"] ["m"; "A"].
Proof.
  eexists. split; [vm_compute; reflexivity|].
  cbn [walk]. exists ["m"; "B"]. split; unfold item_edge.
  - eexists _, _, _, _. split; [vm_compute; reflexivity|].
    split; [vm_compute; left; reflexivity|]. split; [reflexivity|]. vm_compute. left. reflexivity.
  - eexists _, _, _, _. split; [vm_compute; reflexivity|].
    split; [vm_compute; left; reflexivity|]. split; [reflexivity|]. vm_compute. left. reflexivity.
Qed.

(** ** [bv_ranked] (the hypothesis of [C02_sized_partial]) is not satisfiable on the chain
    registry: its last clause forces the two [Option] entries to the same rank *)
Example sz_chain_not_ranked : forall rank, ~ bv_ranked sz_reg_chain ex_set rank.
Proof.
  intros rank (_ & _ & _ & K4 & K5).
  assert (H31 : (rank 3%N < rank 1%N)%nat).
  { apply (K4 1 (mk_ty ["m"; "A"] [] (TDComposite [sz_f "x" 3 "Option<B>"]) []) (sz_f "x" 3 "Option<B>"));
      [reflexivity|left; reflexivity|reflexivity]. }
  assert (H23 : (rank 2%N < rank 3%N)%nat).
  { apply (K4 3 (sz_option 2) (sz_u 2 "T")); [reflexivity|left; reflexivity|reflexivity]. }
  assert (H42 : (rank 4%N < rank 2%N)%nat).
  { apply (K4 2 (mk_ty ["m"; "B"] [] (TDComposite [sz_f "y" 4 "Option<u8>"]) []) (sz_f "y" 4 "Option<u8>"));
      [reflexivity|left; reflexivity|reflexivity]. }
  assert (H34 : rank 3 = rank 4).
  { apply (K5 3 (sz_option 2) 4 (sz_option 0)); reflexivity. }
  lia.
Qed.

(** ** the run-time checker on the parse of the emitted module *)
Definition sizedb_emitted (r : registry) (s : settings) : option bool :=
  match generate r s (types_equal r) with
  | Ok m =>
      match emit_module s m with
      | Ok toks =>
          match parse_module toks with
          | Some pm => Some (sizedb (s_root s) (fe_alloc (fenv_of s)) (fe_compact (fenv_of s)) true pm)
          | None => None
          end
      | _ => None
      end
  | _ => None
  end.

Definition sized_agree (r : registry) (s : settings) : bool :=
  match sizedb_emitted r s with
  | Some b => Bool.eqb b (by_value_acyclicb r s)
  | None => false
  end.

Example sz_checker_agrees :
  forallb (fun r => sized_agree r ex_set)
          [sz_reg_ok; sz_reg_chain; sz_reg_generic; ex_reg; ex_reg1;
           sz_reg_bad; sz_reg_bad_tuple; sz_reg_bad_mutual; sz_reg_bad_cow] = true /\
  sized_agree WfExample.ex_reg WfExample.ex_set = true.
Proof. split; vm_compute; reflexivity. Qed.

(** the documented gap: parameters are opaque in [item_edge] / [by_value_acyclicb]; the run-time
    checker follows exposed generic arguments *)
Example sz_instantiation_gap :
  by_value_acyclicb sz_reg_inst ex_set = true /\ sizedb_emitted sz_reg_inst ex_set = Some false.
Proof. split; vm_compute; reflexivity. Qed.

(** ** the decidable hypotheses of [C02_sized_wf] hold on the recursive registry, and on the one
    where the boolean fails: there the theorem says that the generated items have a by-value cycle *)
Example sz_wf_hyps :
  wf_regb sz_reg_ok = true /\ supportedb sz_reg_ok ex_set = true /\
  wf_regb sz_reg_bad = true /\ supportedb sz_reg_bad ex_set = true /\
  Shape.root_freshb ex_set = true.
Proof. repeat split; vm_compute; reflexivity. Qed.

Example sz_bad_by_theorem :
  exists m, generate sz_reg_bad ex_set (types_equal sz_reg_bad) = Ok m /\
            ~ (forall n p, ~ walk (item_edge ex_set m) n p p).
Proof.
  destruct sz_wf_hyps as (_ & _ & Hw & Hs & Hf).
  destruct (sized_wf sz_reg_bad ex_set Hw Hs Hf) as [(p & Hd)|(m & Hg & Hiff)].
  - exfalso. vm_compute in Hd. discriminate Hd.
  - exists m. split; [exact Hg|]. intros Hac. apply Hiff in Hac. vm_compute in Hac. discriminate Hac.
Qed.

(** ** the chain through the run-time checker ([C02_sizedb_emitted_acyclic]) on the recursive
    registry: its hypotheses hold, the checker accepts the parse of the emitted tokens, hence (by
    the theorem, not by evaluating the boolean) the registry condition holds *)
From V Require Import Model.Unparse Model.UnparseClosed Model.Shape Proofs.ShapeBool Proofs.ParseClosed
  Proofs.SizedbItems Proofs.SizedbEmitted.

Example sz_compact_seen : compact_wrapper_seen ex_set.
Proof.
  intros c Hc. cbn in Hc. inversion Hc; subst c. exists true, ["parity"; "Compact"].
  split; [vm_compute; reflexivity|]. split; [vm_compute; reflexivity|].
  split; [intros _; vm_compute; reflexivity|discriminate].
Qed.

Example sz_chain_hyps :
  skeleton_consistentb sz_reg_ok ex_set = true /\
  (exists m toks, generate sz_reg_ok ex_set (types_equal sz_reg_ok) = Ok m /\
                  emit_module ex_set m = Ok toks /\ items_plain ex_set m = true /\
                  prefix_freeb (map fst m) = true) /\
  sizedb_emitted sz_reg_ok ex_set = Some true.
Proof.
  split; [vm_compute; reflexivity|]. split; [|vm_compute; reflexivity].
  eexists _, _. split; [vm_compute; reflexivity|]. split; [vm_compute; reflexivity|].
  split; vm_compute; reflexivity.
Qed.

Example sz_chain_by_theorem : by_value_acyclicb sz_reg_ok ex_set = true.
Proof.
  destruct sz_chain_hyps as (Hsk & (m & toks & Hg & He & Hp & Hpf) & Hs).
  destruct (sizedb_emitted_acyclic sz_reg_ok ex_set (types_equal sz_reg_ok) m toks) as (pm & Hpm & Himp).
  - exact sz_root_fresh.
  - reflexivity.
  - split; intros c Hc; cbn in Hc; inversion Hc; subst; reflexivity.
  - apply skeleton_consistentb_sound. exact Hsk.
  - exact Hg.
  - exact He.
  - exact Hp.
  - apply prefix_freeb_sound. exact Hpf.
  - exact sz_compact_seen.
  - apply Himp. unfold sizedb_emitted in Hs. rewrite Hg, He, Hpm in Hs. injection Hs as Hb.
    exact Hb.
Qed.

(** ** DESIGN 3.1 clause 9 as a boolean ([mono_acyclicb], Model/SizedMono.v: the monomorphic
    by-value graph on ids, generic parameters NOT cut).  It agrees with the run-time checker on
    every example registry, including the one with a cycle only after instantiation, where
    [by_value_acyclicb] holds. *)
From V Require Import Model.SizedMono.

Definition mono_agree (r : registry) (s : settings) : bool :=
  match sizedb_emitted r s with
  | Some b => Bool.eqb b (mono_acyclicb r s)
  | None => false
  end.

Example sz_mono_agrees :
  forallb (fun r => mono_agree r ex_set)
          [sz_reg_ok; sz_reg_chain; sz_reg_generic; ex_reg; ex_reg1;
           sz_reg_bad; sz_reg_bad_tuple; sz_reg_bad_mutual; sz_reg_bad_cow; sz_reg_inst] = true /\
  mono_agree WfExample.ex_reg WfExample.ex_set = true /\
  mono_acyclicb sz_reg_inst ex_set = false /\ by_value_acyclicb sz_reg_inst ex_set = true.
Proof. repeat split; vm_compute; reflexivity. Qed.
