(** Path resolution treats tokens opaquely: it commutes with a token renaming
    [phi] that fixes the generator's literals, the registry's path segments and
    the tokens of the substitute targets (used by C09: Proofs/Frames.v). *)
From Coq Require Import List NArith String Bool Lia.
From V Require Import Base.Strings Base.Result Model.Registry Model.Settings Model.Subst
  Model.TypePath Model.Derives Model.Generate Model.Emit Model.Switches.
Import ListNotations.
Open Scope string_scope. Open Scope list_scope.

(** * Part 1: parameter replacement in user paths (Model/Subst.v) *)

Definition map_params (phi : string -> string) (ps : list (string * tokens))
  : list (string * tokens) := map (fun x => (fst x, map phi (snd x))) ps.

Lemma assoc_str_map_params phi ps k :
  assoc_str (map_params phi ps) k = option_map (map phi) (assoc_str ps k).
Proof.
  induction ps as [|[k' v] ps IH]; [reflexivity|].
  cbn [map_params map fst snd assoc_str].
  destruct (String.eqb k k'); [reflexivity|]. exact IH.
Qed.

Lemma sm_map_fixed (phi : string -> string) (l : list string) :
  (forall x, In x l -> phi x = x) -> map phi l = l.
Proof.
  induction l as [|a l IH]; intros H; [reflexivity|].
  cbn [map]. rewrite (H a) by (left; reflexivity).
  rewrite IH; [reflexivity|]. intros x Hx. apply H. right; exact Hx.
Qed.

(** ** mutual induction on [gtype] / [pargs] / [garg] with [Forall] *)
Section GInd.
  Variable P : gtype -> Prop.
  Variable Q : pargs -> Prop.
  Variable R : garg -> Prop.
  Hypothesis HPath : forall q lead segs,
      Forall (fun x => Q (snd x)) segs -> P (GTPath q lead segs).
  Hypothesis HTOther : forall toks, P (GTOther toks).
  Hypothesis HNone : Q ANone.
  Hypothesis HAngle : forall args, Forall R args -> Q (AAngle args).
  Hypothesis HParen : forall toks, Q (AParen toks).
  Hypothesis HType : forall t, P t -> R (GType t).
  Hypothesis HGOther : forall toks, R (GOther toks).

  Fixpoint sm_gtype_ind (t : gtype) : P t :=
    match t as t0 return P t0 with
    | GTPath q lead segs =>
        HPath q lead segs
          ((fix go (l : list (string * pargs)) : Forall (fun x => Q (snd x)) l :=
              match l with
              | [] => Forall_nil _
              | x :: l' =>
                  Forall_cons x
                    (match x as x0 return Q (snd x0) with (_, a) => sm_pargs_ind a end)
                    (go l')
              end) segs)
    | GTOther toks => HTOther toks
    end
  with sm_pargs_ind (a : pargs) : Q a :=
    match a as a0 return Q a0 with
    | ANone => HNone
    | AAngle args =>
        HAngle args
          ((fix go (l : list garg) : Forall R l :=
              match l with
              | [] => Forall_nil _
              | g :: l' => Forall_cons g (sm_garg_ind g) (go l')
              end) args)
    | AParen toks => HParen toks
    end
  with sm_garg_ind (g : garg) : R g :=
    match g as g0 return R g0 with
    | GType t => HType t (sm_gtype_ind t)
    | GOther toks => HGOther toks
    end.

  Lemma sm_g_ind : (forall t, P t) /\ (forall a, Q a) /\ (forall g, R g).
  Proof. exact (conj sm_gtype_ind (conj sm_pargs_ind sm_garg_ind)). Qed.
End GInd.

(** ** the local list fixpoints as named functions *)
Fixpoint print_segs (l : list (string * pargs)) (first : bool) : tokens :=
  match l with
  | [] => []
  | (id, a) :: l' => (if first then [] else colon2) ++ id :: print_pargs a ++ print_segs l' false
  end.

Fixpoint print_gargs (l : list garg) (first : bool) : tokens :=
  match l with
  | [] => []
  | g :: l' => (if first then [] else [","]) ++ print_garg g ++ print_gargs l' false
  end.

Definition rsegs (ps : list (string * tokens)) (l : list (string * pargs))
  : list (string * pargs) := map (fun x => (fst x, replace_pargs ps (snd x))) l.

Lemma print_gtype_path q lead segs :
  print_gtype (GTPath q lead segs) = (if lead then colon2 else []) ++ print_segs segs true.
Proof. reflexivity. Qed.

Lemma print_pargs_angle args :
  print_pargs (AAngle args) = "<" :: print_gargs args true ++ [">"].
Proof. reflexivity. Qed.

Lemma replace_gtype_path ps q lead segs :
  replace_gtype_segs ps (GTPath q lead segs) = GTPath q lead (rsegs ps segs).
Proof.
  cbn [replace_gtype_segs]. f_equal.
  induction segs as [|[id a] l IH]; [reflexivity|].
  cbn [rsegs map fst snd]. f_equal. exact IH.
Qed.

Lemma replace_pargs_angle ps args :
  replace_pargs ps (AAngle args) = AAngle (map (replace_garg ps) args).
Proof.
  reflexivity.
Qed.

Lemma replace_garg_path ps q lead segs :
  replace_garg ps (GType (GTPath q lead segs)) =
  match match get_ident (GTPath q lead segs) with
        | Some id => assoc_str ps id
        | None => None
        end with
  | Some repl => GType (GTOther repl)
  | None => GType (replace_gtype_segs ps (GTPath q lead segs))
  end.
Proof. reflexivity. Qed.

Section ReplaceMap.
  Variable phi : string -> string.
  Variable ps : list (string * tokens).
  Hypothesis Hlt : phi "<" = "<".
  Hypothesis Hgt : phi ">" = ">".
  Hypothesis Hcm : phi "," = ",".
  Hypothesis Hcl : phi ":" = ":".

  Let fixes (l : tokens) : Prop := forall x, In x l -> phi x = x.

  Lemma sm_colon2 : map phi colon2 = colon2.
  Proof. unfold colon2. cbn [map]. rewrite Hcl. reflexivity. Qed.

  Lemma sm_print_segs_map l :
    Forall (fun x => fixes (print_pargs (snd x)) ->
                     print_pargs (replace_pargs (map_params phi ps) (snd x)) =
                     map phi (print_pargs (replace_pargs ps (snd x)))) l ->
    forall first, fixes (print_segs l first) ->
    print_segs (rsegs (map_params phi ps) l) first = map phi (print_segs (rsegs ps l) first).
  Proof.
    induction 1 as [|[id a] l Hx Hl IH]; intros first Hf; [reflexivity|].
    cbn [rsegs map fst snd print_segs] in *.
    fold (rsegs (map_params phi ps) l). fold (rsegs ps l).
    assert (Hid : phi id = id).
    { apply Hf. apply in_or_app. right. left. reflexivity. }
    assert (Ha : fixes (print_pargs a)).
    { intros x Hin. apply Hf. apply in_or_app. right. right.
      apply in_or_app. left. exact Hin. }
    assert (Hr : fixes (print_segs l false)).
    { intros x Hin. apply Hf. apply in_or_app. right. right.
      apply in_or_app. right. exact Hin. }
    rewrite map_app. cbn [map]. rewrite map_app.
    rewrite Hid, (Hx Ha), (IH false Hr).
    f_equal. destruct first; [reflexivity|]. symmetry. exact sm_colon2.
  Qed.

  Lemma sm_print_gargs_map l :
    Forall (fun g => fixes (print_garg g) ->
                     print_garg (replace_garg (map_params phi ps) g) =
                     map phi (print_garg (replace_garg ps g))) l ->
    forall first, fixes (print_gargs l first) ->
    print_gargs (map (replace_garg (map_params phi ps)) l) first =
    map phi (print_gargs (map (replace_garg ps) l) first).
  Proof.
    induction 1 as [|g l Hx Hl IH]; intros first Hf; [reflexivity|].
    cbn [map print_gargs] in *.
    assert (Ha : fixes (print_garg g)).
    { intros x Hin. apply Hf. apply in_or_app. right.
      apply in_or_app. left. exact Hin. }
    assert (Hr : fixes (print_gargs l false)).
    { intros x Hin. apply Hf. apply in_or_app. right.
      apply in_or_app. right. exact Hin. }
    rewrite !map_app. rewrite (Hx Ha), (IH false Hr).
    f_equal. destruct first; [reflexivity|]. cbn [map]. rewrite Hcm. reflexivity.
  Qed.

  Lemma sm_print_replace_all :
    (forall t, fixes (print_gtype t) ->
               print_gtype (replace_gtype_segs (map_params phi ps) t) =
               map phi (print_gtype (replace_gtype_segs ps t))) /\
    (forall a, fixes (print_pargs a) ->
               print_pargs (replace_pargs (map_params phi ps) a) =
               map phi (print_pargs (replace_pargs ps a))) /\
    (forall g, fixes (print_garg g) ->
               print_garg (replace_garg (map_params phi ps) g) =
               map phi (print_garg (replace_garg ps g))).
  Proof.
    apply sm_g_ind.
    - (* GTPath *)
      intros q lead segs HF Hf.
      rewrite !replace_gtype_path, !print_gtype_path.
      rewrite print_gtype_path in Hf.
      rewrite map_app. f_equal.
      + destruct lead; [|reflexivity]. symmetry. exact sm_colon2.
      + apply sm_print_segs_map; [exact HF|].
        intros x Hin. apply Hf. apply in_or_app. right. exact Hin.
    - (* GTOther *)
      intros toks Hf. cbn [replace_gtype_segs print_gtype] in *.
      symmetry. apply sm_map_fixed. exact Hf.
    - (* ANone *)
      intros _. reflexivity.
    - (* AAngle *)
      intros args HF Hf.
      rewrite !replace_pargs_angle, !print_pargs_angle.
      rewrite print_pargs_angle in Hf.
      cbn [map]. rewrite map_app. cbn [map]. rewrite Hlt, Hgt. f_equal. f_equal.
      apply sm_print_gargs_map; [exact HF|].
      intros x Hin. apply Hf. right. apply in_or_app. left. exact Hin.
    - (* AParen *)
      intros toks Hf. cbn [replace_pargs print_pargs] in *.
      symmetry. apply sm_map_fixed. exact Hf.
    - (* GType *)
      intros t IHt Hf. destruct t as [q lead segs|toks].
      + rewrite !replace_garg_path.
        destruct (get_ident (GTPath q lead segs)) as [id|].
        * rewrite assoc_str_map_params.
          destruct (assoc_str ps id) as [repl|]; cbn [option_map].
          -- reflexivity.
          -- cbn [print_garg]. apply IHt. exact Hf.
        * cbn [print_garg]. apply IHt. exact Hf.
      + cbn [replace_garg print_garg print_gtype] in *.
        symmetry. apply sm_map_fixed. exact Hf.
    - (* GOther *)
      intros toks Hf. cbn [replace_garg print_garg] in *.
      symmetry. apply sm_map_fixed. exact Hf.
  Qed.
End ReplaceMap.

Lemma print_replace_gtype_map phi ps t :
  phi "<" = "<" -> phi ">" = ">" -> phi "," = "," -> phi ":" = ":" ->
  (forall x, In x (print_gtype t) -> phi x = x) ->
  print_gtype (replace_gtype_segs (map_params phi ps) t) =
  map phi (print_gtype (replace_gtype_segs ps t)).
Proof.
  intros Hlt Hgt Hcm Hcl Hf.
  exact (proj1 (sm_print_replace_all phi ps Hlt Hgt Hcm Hcl) t Hf).
Qed.

Lemma print_replace_pargs_map phi ps a :
  phi "<" = "<" -> phi ">" = ">" -> phi "," = "," -> phi ":" = ":" ->
  (forall x, In x (print_pargs a) -> phi x = x) ->
  print_pargs (replace_pargs (map_params phi ps) a) =
  map phi (print_pargs (replace_pargs ps a)).
Proof.
  intros Hlt Hgt Hcm Hcl Hf.
  exact (proj1 (proj2 (sm_print_replace_all phi ps Hlt Hgt Hcm Hcl)) a Hf).
Qed.

Lemma print_replace_garg_map phi ps g :
  phi "<" = "<" -> phi ">" = ">" -> phi "," = "," -> phi ":" = ":" ->
  (forall x, In x (print_garg g) -> phi x = x) ->
  print_garg (replace_garg (map_params phi ps) g) =
  map phi (print_garg (replace_garg ps g)).
Proof.
  intros Hlt Hgt Hcm Hcl Hf.
  exact (proj2 (proj2 (sm_print_replace_all phi ps Hlt Hgt Hcm Hcl)) g Hf).
Qed.

Lemma print_spath_replace_eq ps sp :
  print_spath (replace_spath ps sp) =
  print_gtype (replace_gtype_segs ps (GTPath false (sp_leading sp) (sp_segs sp))).
Proof.
  unfold print_spath, replace_spath, replace_segs.
  rewrite !replace_gtype_path. reflexivity.
Qed.

Lemma print_replace_spath_map phi ps sp :
  phi "<" = "<" -> phi ">" = ">" -> phi "," = "," -> phi ":" = ":" ->
  (forall x, In x (print_spath sp) -> phi x = x) ->
  print_spath (replace_spath (map_params phi ps) sp) =
  map phi (print_spath (replace_spath ps sp)).
Proof.
  intros Hlt Hgt Hcm Hcl Hf.
  rewrite !print_spath_replace_eq.
  apply print_replace_gtype_map; assumption.
Qed.

Lemma print_spath_fixed phi sp :
  (forall x, In x (print_spath sp) -> phi x = x) -> map phi (print_spath sp) = print_spath sp.
Proof. apply sm_map_fixed. Qed.
