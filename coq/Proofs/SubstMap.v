(** Path resolution treats tokens opaquely: it commutes with a token renaming
    [phi] that fixes the generator's literals, the registry's path segments and
    the tokens of the substitute targets (used by C09: Proofs/Frames.v). *)
From Coq Require Import List NArith String Bool Lia.
From V Require Import Base.Strings Base.Result Model.Registry Model.Settings Model.Subst
  Model.TypePath Model.Derives Model.Generate Model.Emit Model.Switches Model.Inputs.
From V Require Import Proofs.TpMap.
Import ListNotations.
Open Scope string_scope. Open Scope list_scope.

(** * Part 1: parameter replacement in user paths (Model/Subst.v) *)

Definition map_params (phi : string -> string) (ps : list (string * tokens))
  : list (string * tokens) := map (fun x => (fst x, map phi (snd x))) ps.

Lemma assoc_str_map_params phi ps k :
  assoc_str (map_params phi ps) k = option_map (map phi) (assoc_str ps k).
Proof.
  induction ps as [|[k' v] ps IH]; [reflexivity|].
  cbn [map_params map fst snd assoc_str].
  destruct (String.eqb k k'); [reflexivity|]. exact IH.
Qed.

Lemma sm_map_fixed (phi : string -> string) (l : list string) :
  (forall x, In x l -> phi x = x) -> map phi l = l.
Proof.
  induction l as [|a l IH]; intros H; [reflexivity|].
  cbn [map]. rewrite (H a) by (left; reflexivity).
  rewrite IH; [reflexivity|]. intros x Hx. apply H. right; exact Hx.
Qed.

(** ** mutual induction on [gtype] / [pargs] / [garg] with [Forall] *)
Section GInd.
  Variable P : gtype -> Prop.
  Variable Q : pargs -> Prop.
  Variable R : garg -> Prop.
  Hypothesis HPath : forall q lead segs,
      Forall (fun x => Q (snd x)) segs -> P (GTPath q lead segs).
  Hypothesis HTOther : forall toks, P (GTOther toks).
  Hypothesis HNone : Q ANone.
  Hypothesis HAngle : forall args, Forall R args -> Q (AAngle args).
  Hypothesis HParen : forall toks, Q (AParen toks).
  Hypothesis HType : forall t, P t -> R (GType t).
  Hypothesis HGOther : forall toks, R (GOther toks).

  Fixpoint sm_gtype_ind (t : gtype) : P t :=
    match t as t0 return P t0 with
    | GTPath q lead segs =>
        HPath q lead segs
          ((fix go (l : list (string * pargs)) : Forall (fun x => Q (snd x)) l :=
              match l with
              | [] => Forall_nil _
              | x :: l' =>
                  Forall_cons x
                    (match x as x0 return Q (snd x0) with (_, a) => sm_pargs_ind a end)
                    (go l')
              end) segs)
    | GTOther toks => HTOther toks
    end
  with sm_pargs_ind (a : pargs) : Q a :=
    match a as a0 return Q a0 with
    | ANone => HNone
    | AAngle args =>
        HAngle args
          ((fix go (l : list garg) : Forall R l :=
              match l with
              | [] => Forall_nil _
              | g :: l' => Forall_cons g (sm_garg_ind g) (go l')
              end) args)
    | AParen toks => HParen toks
    end
  with sm_garg_ind (g : garg) : R g :=
    match g as g0 return R g0 with
    | GType t => HType t (sm_gtype_ind t)
    | GOther toks => HGOther toks
    end.

  Lemma sm_g_ind : (forall t, P t) /\ (forall a, Q a) /\ (forall g, R g).
  Proof. exact (conj sm_gtype_ind (conj sm_pargs_ind sm_garg_ind)). Qed.
End GInd.

(** ** the local list fixpoints as named functions *)
Fixpoint print_segs (l : list (string * pargs)) (first : bool) : tokens :=
  match l with
  | [] => []
  | (id, a) :: l' => (if first then [] else colon2) ++ id :: print_pargs a ++ print_segs l' false
  end.

Fixpoint print_gargs (l : list garg) (first : bool) : tokens :=
  match l with
  | [] => []
  | g :: l' => (if first then [] else [","]) ++ print_garg g ++ print_gargs l' false
  end.

Definition rsegs (ps : list (string * tokens)) (l : list (string * pargs))
  : list (string * pargs) := map (fun x => (fst x, replace_pargs ps (snd x))) l.

Lemma print_gtype_path q lead segs :
  print_gtype (GTPath q lead segs) = (if lead then colon2 else []) ++ print_segs segs true.
Proof. reflexivity. Qed.

Lemma print_pargs_angle args :
  print_pargs (AAngle args) = "<" :: print_gargs args true ++ [">"].
Proof. reflexivity. Qed.

Lemma replace_gtype_path ps q lead segs :
  replace_gtype_segs ps (GTPath q lead segs) = GTPath q lead (rsegs ps segs).
Proof.
  cbn [replace_gtype_segs]. f_equal.
  induction segs as [|[id a] l IH]; [reflexivity|].
  cbn [rsegs map fst snd]. f_equal. exact IH.
Qed.

Lemma replace_pargs_angle ps args :
  replace_pargs ps (AAngle args) = AAngle (map (replace_garg ps) args).
Proof.
  reflexivity.
Qed.

Lemma replace_garg_path ps q lead segs :
  replace_garg ps (GType (GTPath q lead segs)) =
  match match get_ident (GTPath q lead segs) with
        | Some id => assoc_str ps id
        | None => None
        end with
  | Some repl => GType (GTOther repl)
  | None => GType (replace_gtype_segs ps (GTPath q lead segs))
  end.
Proof. reflexivity. Qed.

Section ReplaceMap.
  Variable phi : string -> string.
  Variable ps : list (string * tokens).
  Hypothesis Hlt : phi "<" = "<".
  Hypothesis Hgt : phi ">" = ">".
  Hypothesis Hcm : phi "," = ",".
  Hypothesis Hcl : phi ":" = ":".

  Let fixes (l : tokens) : Prop := forall x, In x l -> phi x = x.

  Lemma sm_colon2 : map phi colon2 = colon2.
  Proof. unfold colon2. cbn [map]. rewrite Hcl. reflexivity. Qed.

  Lemma sm_print_segs_map l :
    Forall (fun x => fixes (print_pargs (snd x)) ->
                     print_pargs (replace_pargs (map_params phi ps) (snd x)) =
                     map phi (print_pargs (replace_pargs ps (snd x)))) l ->
    forall first, fixes (print_segs l first) ->
    print_segs (rsegs (map_params phi ps) l) first = map phi (print_segs (rsegs ps l) first).
  Proof.
    induction 1 as [|[id a] l Hx Hl IH]; intros first Hf; [reflexivity|].
    cbn [rsegs map fst snd print_segs] in *.
    fold (rsegs (map_params phi ps) l). fold (rsegs ps l).
    assert (Hid : phi id = id).
    { apply Hf. apply in_or_app. right. left. reflexivity. }
    assert (Ha : fixes (print_pargs a)).
    { intros x Hin. apply Hf. apply in_or_app. right. right.
      apply in_or_app. left. exact Hin. }
    assert (Hr : fixes (print_segs l false)).
    { intros x Hin. apply Hf. apply in_or_app. right. right.
      apply in_or_app. right. exact Hin. }
    rewrite map_app. cbn [map]. rewrite map_app.
    rewrite Hid, (Hx Ha), (IH false Hr).
    f_equal. destruct first; [reflexivity|]. symmetry. exact sm_colon2.
  Qed.

  Lemma sm_print_gargs_map l :
    Forall (fun g => fixes (print_garg g) ->
                     print_garg (replace_garg (map_params phi ps) g) =
                     map phi (print_garg (replace_garg ps g))) l ->
    forall first, fixes (print_gargs l first) ->
    print_gargs (map (replace_garg (map_params phi ps)) l) first =
    map phi (print_gargs (map (replace_garg ps) l) first).
  Proof.
    induction 1 as [|g l Hx Hl IH]; intros first Hf; [reflexivity|].
    cbn [map print_gargs] in *.
    assert (Ha : fixes (print_garg g)).
    { intros x Hin. apply Hf. apply in_or_app. right.
      apply in_or_app. left. exact Hin. }
    assert (Hr : fixes (print_gargs l false)).
    { intros x Hin. apply Hf. apply in_or_app. right.
      apply in_or_app. right. exact Hin. }
    rewrite !map_app. rewrite (Hx Ha), (IH false Hr).
    f_equal. destruct first; [reflexivity|]. cbn [map]. rewrite Hcm. reflexivity.
  Qed.

  Lemma sm_print_replace_all :
    (forall t, fixes (print_gtype t) ->
               print_gtype (replace_gtype_segs (map_params phi ps) t) =
               map phi (print_gtype (replace_gtype_segs ps t))) /\
    (forall a, fixes (print_pargs a) ->
               print_pargs (replace_pargs (map_params phi ps) a) =
               map phi (print_pargs (replace_pargs ps a))) /\
    (forall g, fixes (print_garg g) ->
               print_garg (replace_garg (map_params phi ps) g) =
               map phi (print_garg (replace_garg ps g))).
  Proof.
    apply sm_g_ind.
    - (* GTPath *)
      intros q lead segs HF Hf.
      rewrite !replace_gtype_path, !print_gtype_path.
      rewrite print_gtype_path in Hf.
      rewrite map_app. f_equal.
      + destruct lead; [|reflexivity]. symmetry. exact sm_colon2.
      + apply sm_print_segs_map; [exact HF|].
        intros x Hin. apply Hf. apply in_or_app. right. exact Hin.
    - (* GTOther *)
      intros toks Hf. cbn [replace_gtype_segs print_gtype] in *.
      symmetry. apply sm_map_fixed. exact Hf.
    - (* ANone *)
      intros _. reflexivity.
    - (* AAngle *)
      intros args HF Hf.
      rewrite !replace_pargs_angle, !print_pargs_angle.
      rewrite print_pargs_angle in Hf.
      cbn [map]. rewrite map_app. cbn [map]. rewrite Hlt, Hgt. f_equal. f_equal.
      apply sm_print_gargs_map; [exact HF|].
      intros x Hin. apply Hf. right. apply in_or_app. left. exact Hin.
    - (* AParen *)
      intros toks Hf. cbn [replace_pargs print_pargs] in *.
      symmetry. apply sm_map_fixed. exact Hf.
    - (* GType *)
      intros t IHt Hf. destruct t as [q lead segs|toks].
      + rewrite !replace_garg_path.
        destruct (get_ident (GTPath q lead segs)) as [id|].
        * rewrite assoc_str_map_params.
          destruct (assoc_str ps id) as [repl|]; cbn [option_map].
          -- reflexivity.
          -- cbn [print_garg]. apply IHt. exact Hf.
        * cbn [print_garg]. apply IHt. exact Hf.
      + cbn [replace_garg print_garg print_gtype] in *.
        symmetry. apply sm_map_fixed. exact Hf.
    - (* GOther *)
      intros toks Hf. cbn [replace_garg print_garg] in *.
      symmetry. apply sm_map_fixed. exact Hf.
  Qed.
End ReplaceMap.

Lemma print_replace_gtype_map phi ps t :
  phi "<" = "<" -> phi ">" = ">" -> phi "," = "," -> phi ":" = ":" ->
  (forall x, In x (print_gtype t) -> phi x = x) ->
  print_gtype (replace_gtype_segs (map_params phi ps) t) =
  map phi (print_gtype (replace_gtype_segs ps t)).
Proof.
  intros Hlt Hgt Hcm Hcl Hf.
  exact (proj1 (sm_print_replace_all phi ps Hlt Hgt Hcm Hcl) t Hf).
Qed.

Lemma print_replace_pargs_map phi ps a :
  phi "<" = "<" -> phi ">" = ">" -> phi "," = "," -> phi ":" = ":" ->
  (forall x, In x (print_pargs a) -> phi x = x) ->
  print_pargs (replace_pargs (map_params phi ps) a) =
  map phi (print_pargs (replace_pargs ps a)).
Proof.
  intros Hlt Hgt Hcm Hcl Hf.
  exact (proj1 (proj2 (sm_print_replace_all phi ps Hlt Hgt Hcm Hcl)) a Hf).
Qed.

Lemma print_replace_garg_map phi ps g :
  phi "<" = "<" -> phi ">" = ">" -> phi "," = "," -> phi ":" = ":" ->
  (forall x, In x (print_garg g) -> phi x = x) ->
  print_garg (replace_garg (map_params phi ps) g) =
  map phi (print_garg (replace_garg ps g)).
Proof.
  intros Hlt Hgt Hcm Hcl Hf.
  exact (proj2 (proj2 (sm_print_replace_all phi ps Hlt Hgt Hcm Hcl)) g Hf).
Qed.

Lemma print_spath_replace_eq ps sp :
  print_spath (replace_spath ps sp) =
  print_gtype (replace_gtype_segs ps (GTPath false (sp_leading sp) (sp_segs sp))).
Proof.
  unfold print_spath, replace_spath, replace_segs.
  rewrite !replace_gtype_path. reflexivity.
Qed.

Lemma print_replace_spath_map phi ps sp :
  phi "<" = "<" -> phi ">" = ">" -> phi "," = "," -> phi ":" = ":" ->
  (forall x, In x (print_spath sp) -> phi x = x) ->
  print_spath (replace_spath (map_params phi ps) sp) =
  map phi (print_spath (replace_spath ps sp)).
Proof.
  intros Hlt Hgt Hcm Hcl Hf.
  rewrite !print_spath_replace_eq.
  apply print_replace_gtype_map; assumption.
Qed.

Lemma print_spath_fixed phi sp :
  (forall x, In x (print_spath sp) -> phi x = x) -> map phi (print_spath sp) = print_spath sp.
Proof. apply sm_map_fixed. Qed.

(** * Part 2: path resolution commutes with the renaming *)

(** ** small helpers (own copies, prefix [sm_]) *)
Lemma sm_lit phi w :
  phi_ok phi false false -> existsb (String.eqb w) base_lits = true -> phi w = w.
Proof.
  intros H E. apply H. left. unfold lits_of. apply in_or_app. left.
  apply existsb_exists in E as (x & Hx & E). apply String.eqb_eq in E. subst x. exact Hx.
Qed.

Lemma sm_lit_lt phi : phi_ok phi false false -> phi "<" = "<".
Proof. intros H. apply sm_lit; [exact H|reflexivity]. Qed.
Lemma sm_lit_gt phi : phi_ok phi false false -> phi ">" = ">".
Proof. intros H. apply sm_lit; [exact H|reflexivity]. Qed.
Lemma sm_lit_comma phi : phi_ok phi false false -> phi "," = ",".
Proof. intros H. apply sm_lit; [exact H|reflexivity]. Qed.
Lemma sm_lit_colon phi : phi_ok phi false false -> phi ":" = ":".
Proof. intros H. apply sm_lit; [exact H|reflexivity]. Qed.

Lemma sm_colon_segs_fixed (phi : string -> string) (l : list string) :
  phi ":" = ":" -> (forall x, In x l -> phi x = x) ->
  map phi (flat_map (fun s => [":"; ":"; s]) l) = flat_map (fun s => [":"; ":"; s]) l.
Proof.
  intros Hc. induction l as [|a l IH]; intros H; [reflexivity|].
  cbn [flat_map app map]. rewrite Hc, (H a) by (left; reflexivity).
  rewrite IH; [reflexivity|]. intros x Hx. apply H. right; exact Hx.
Qed.

Lemma sm_abs_path_lits phi segs :
  phi_ok phi false false ->
  forallb (fun w => existsb (String.eqb w) base_lits) segs = true ->
  map phi (abs_path segs) = abs_path segs.
Proof.
  intros H E. unfold abs_path. apply sm_colon_segs_fixed; [apply sm_lit_colon; exact H|].
  intros x Hx. rewrite forallb_forall in E. apply sm_lit; [exact H|]. apply E; exact Hx.
Qed.

Lemma sm_prelude_table_map phi a :
  phi_ok phi false false -> prelude_table (map phi a) = map_params phi (prelude_table a).
Proof.
  intros H. unfold prelude_table, map_params. cbn [map fst snd].
  rewrite ?map_app.
  rewrite !(sm_abs_path_lits phi _ H) by reflexivity.
  reflexivity.
Qed.

Lemma sm_rel_path_cons (phi : string -> string) (x : string) (l : list string) :
  phi ":" = ":" -> (forall y, In y l -> phi y = y) ->
  map phi (rel_path (x :: l)) = rel_path (phi x :: l).
Proof.
  intros Hc H. cbn [rel_path map]. rewrite sm_colon_segs_fixed by assumption. reflexivity.
Qed.

Lemma sm_mapM_rmap {A B B'} (f1 : A -> result B) (f2 : A -> result B') (h : B -> B') l :
  (forall x, f2 x = rmap h (f1 x)) -> mapM f2 l = rmap (map h) (mapM f1 l).
Proof.
  intros H. induction l as [|x l IH]; [reflexivity|].
  cbn [mapM]. rewrite H, IH.
  destruct (f1 x) as [y|e|m]; cbn [rmap bind]; try reflexivity.
  destruct (mapM f1 l) as [ys|e|m]; reflexivity.
Qed.

Lemma sm_subs_get_in (s : substitutes) p v : subs_get s p = Some v -> exists k, In (k, v) s.
Proof.
  induction s as [|[k v'] s IH]; cbn [subs_get]; intros H; [discriminate|].
  destruct (path_eqb k p).
  - inversion H; subst v'. exists k. left; reflexivity.
  - destruct (IH H) as [k' Hk]. exists k'. right; exact Hk.
Qed.

Lemma sm_match_map_nil {A B C} (g : A -> B) (l : list A) (a b : C) :
  match map g l with [] => a | _ :: _ => b end = match l with [] => a | _ :: _ => b end.
Proof. destruct l; reflexivity. Qed.

(** ** [from_type_def_path] *)
Lemma from_type_def_path_map phi r s1 s2 path :
  resolve_frame phi r s1 s2 ->
  (forall seg, In seg path -> phi seg = seg) ->
  from_type_def_path path (s_root s2) (alloc_tokens (s_alloc s2)) =
  rmap (map phi) (from_type_def_path path (s_root s1) (alloc_tokens (s_alloc s1))).
Proof.
  intros (Hok & Hsubs & Hroot & Halloc & Hcomp & Hbits & Hreg & Hsub) Hpath.
  rewrite Hroot, Halloc.
  destruct path as [|a [|b l]].
  - reflexivity.
  - unfold from_type_def_path.
    rewrite sm_prelude_table_map by exact Hok. rewrite assoc_str_map_params.
    destruct (assoc_str (prelude_table (alloc_tokens (s_alloc s1))) a); reflexivity.
  - unfold from_type_def_path.
    destruct (forallb path_seg_okb (a :: b :: l)); [|reflexivity].
    cbn [rmap bind]. f_equal. symmetry.
    apply sm_rel_path_cons; [apply sm_lit_colon; exact Hok|exact Hpath].
Qed.

(** ** [for_path_with_params] *)
Definition sm_sel (params : list tpath) (m : list (string * nat)) : list (string * tpath) :=
  flat_map (fun '(id, idx) =>
              match nth_error params idx with
              | Some p => [(id, p)] | None => [] end) m.

Lemma sm_sel_map (f : tpath -> tpath) params m :
  sm_sel (map f params) m = map (fun x => (fst x, f (snd x))) (sm_sel params m).
Proof.
  unfold sm_sel. induction m as [|[id idx] m IH]; [reflexivity|].
  cbn [flat_map]. rewrite map_app, IH. f_equal.
  rewrite nth_error_map. destruct (nth_error params idx); reflexivity.
Qed.

Definition sm_tok_pair (alloc : tokens) (x : string * tpath) : result (string * tokens) :=
  let '(id, p) := x in let* t := tp_tokens alloc p in Ok (id, t).

Lemma sm_repl_map phi alloc sel :
  phi_ok phi false false ->
  mapM (sm_tok_pair (map phi alloc)) (map (fun x => (fst x, map_tpath phi (snd x))) sel) =
  rmap (map_params phi) (mapM (sm_tok_pair alloc) sel).
Proof.
  intros Hok. induction sel as [|[id p] sel IH]; [reflexivity|].
  cbn [map mapM fst snd]. rewrite IH.
  change (sm_tok_pair (map phi alloc) (id, map_tpath phi p))
    with (let* t := tp_tokens (map phi alloc) (map_tpath phi p) in Ok (id, t)).
  change (sm_tok_pair alloc (id, p)) with (let* t := tp_tokens alloc p in Ok (id, t)).
  rewrite (tp_tokens_map phi false false alloc p Hok).
  destruct (tp_tokens alloc p) as [t|e|m]; cbn [rmap bind]; try reflexivity.
  destruct (mapM _ sel) as [ys|e|m]; reflexivity.
Qed.

Lemma for_path_with_params_eq s path params :
  for_path_with_params s path params =
  match subs_get (s_subs s) path with
  | None => None
  | Some sub =>
      Some
        match su_map sub with
        | PassThrough => Ok (TPath (print_spath (su_path sub)) params)
        | Specified m =>
            match sm_sel params m with
            | [] => Ok (TPath (print_spath (su_path sub)) [])
            | _ :: _ =>
                let* repl := mapM (sm_tok_pair (alloc_tokens (s_alloc s))) (sm_sel params m) in
                Ok (TPath (print_spath (replace_spath repl (su_path sub))) [])
            end
        end
  end.
Proof. reflexivity. Qed.

Lemma for_path_with_params_map phi r s1 s2 path params :
  resolve_frame phi r s1 s2 ->
  for_path_with_params s2 path (map (map_tpath phi) params) =
  option_map (rmap (map_tpath phi)) (for_path_with_params s1 path params).
Proof.
  intros (Hok & Hsubs & Hroot & Halloc & Hcomp & Hbits & Hreg & Hsub).
  rewrite !for_path_with_params_eq. rewrite Hsubs, Halloc.
  destruct (subs_get (s_subs s1) path) as [sub|] eqn:G; [|reflexivity].
  cbn [option_map]. f_equal.
  destruct (sm_subs_get_in _ _ _ G) as [k Hk].
  assert (Hfix : forall x, In x (print_spath (su_path sub)) -> phi x = x).
  { intros x Hx. exact (Hsub k sub x Hk Hx). }
  destruct (su_map sub) as [|m].
  - cbn [rmap bind map_tpath]. rewrite print_spath_fixed by exact Hfix. reflexivity.
  - rewrite sm_sel_map, sm_match_map_nil.
    destruct (sm_sel params m) as [|x sel].
    + cbn [rmap bind map_tpath map]. rewrite print_spath_fixed by exact Hfix. reflexivity.
    + rewrite sm_repl_map by exact Hok.
      destruct (mapM (sm_tok_pair (alloc_tokens (s_alloc s1))) (x :: sel)) as [repl|e|msg];
        cbn [rmap bind map_tpath map]; try reflexivity.
      rewrite print_replace_spath_map;
        [reflexivity|apply sm_lit_lt|apply sm_lit_gt|apply sm_lit_comma|apply sm_lit_colon|];
        assumption.
Qed.

(** ** [type_path_maybe_with_substitutes] *)
Lemma type_path_maybe_with_substitutes_map phi r s1 s2 path params :
  resolve_frame phi r s1 s2 ->
  (forall seg, In seg path -> phi seg = seg) ->
  type_path_maybe_with_substitutes s2 path (map (map_tpath phi) params) =
  rmap (map_tpath phi) (type_path_maybe_with_substitutes s1 path params).
Proof.
  intros HF Hpath. unfold type_path_maybe_with_substitutes.
  rewrite (for_path_with_params_map phi r s1 s2 path params HF).
  destruct (for_path_with_params s1 path params) as [x|]; cbn [option_map]; [reflexivity|].
  rewrite (from_type_def_path_map phi r s1 s2 path HF Hpath).
  destruct (from_type_def_path path (s_root s1) (alloc_tokens (s_alloc s1))); reflexivity.
Qed.

(** ** [resolve_rec] *)
Lemma resolve_rec_S r s fuel id is_field parents orig :
  resolve_rec r s (S fuel) id is_field parents orig =
  match find_parent parents id orig with
  | Some p => Ok (TParam p)
  | None =>
    let* t0 := resolve_type r id in
    let* t :=
      match path_ident (t_path t0) with
      | Some "Cow" =>
          match t_params t0 with
          | [] => Panic "index out of bounds"
          | p0 :: _ =>
              match tp_ty p0 with
              | None => Err EInvalidType
              | Some inner => resolve_type r inner
              end
          end
      | _ => Ok t0
      end in
    let* params := mapM (fun i => resolve_rec r s fuel i false parents None) (param_ids t) in
    match t_def t with
    | TDComposite _ | TDVariant _ => type_path_maybe_with_substitutes s (t_path t) params
    | TDPrimitive p => Ok (TPrim p)
    | TDArray len e => let* i := resolve_rec r s fuel e false parents None in Ok (TArray len i)
    | TDSequence e => let* i := resolve_rec r s fuel e false parents None in Ok (TVec i)
    | TDTuple es => let* l := mapM (fun i => resolve_rec r s fuel i false parents None) es in
                    Ok (TTuple l)
    | TDCompact e =>
        let* i := resolve_rec r s fuel e false parents None in
        match s_compact s with
        | None => Err ECompactPathNone
        | Some c => Ok (TCompact i is_field c)
        end
    | TDBitSeq store order =>
        match s_bits s with
        | None => Err EBitsPathNone
        | Some b =>
            let* o := resolve_rec r s fuel order false parents None in
            let* st := resolve_rec r s fuel store false parents None in
            Ok (TBitVec o st b)
        end
    end
  end.
Proof. reflexivity. Qed.

Lemma sm_resolve_type_in r id t : resolve_type r id = Ok t -> exists idx, In (idx, t) r.
Proof.
  unfold resolve_type, resolve. intros H.
  destruct (nth_error r (N.to_nat id)) as [[idx t']|] eqn:E; [|discriminate].
  inversion H; subst t'. exists idx. eapply nth_error_In; exact E.
Qed.

Lemma sm_cow_match {A} (P : A -> Prop) (o : option string) (a b : A) :
  P a -> P b -> P (match o with Some "Cow" => a | _ => b end).
Proof.
  intros Ha Hb. destruct o as [s|]; [|exact Hb].
  destruct s as [|c s]; [exact Hb|].
  destruct c as [[] [] [] [] [] [] [] []]; try exact Hb.
  destruct s as [|c s]; [exact Hb|].
  destruct c as [[] [] [] [] [] [] [] []]; try exact Hb.
  destruct s as [|c s]; [exact Hb|].
  destruct c as [[] [] [] [] [] [] [] []]; try exact Hb.
  destruct s as [|c s]; [exact Ha|exact Hb].
Qed.

Theorem resolve_rec_map phi r s1 s2 :
  resolve_frame phi r s1 s2 ->
  forall fuel id is_field parents orig,
    resolve_rec r s2 fuel id is_field parents orig =
    rmap (map_tpath phi) (resolve_rec r s1 fuel id is_field parents orig).
Proof.
  intros HF.
  pose proof HF as (Hok & Hsubs & Hroot & Halloc & Hcomp & Hbits & Hreg & Hsub).
  induction fuel as [|fuel IH]; intros id is_field parents orig; [reflexivity|].
  rewrite !resolve_rec_S.
  destruct (find_parent parents id orig) as [p|]; [reflexivity|].
  destruct (resolve_type r id) as [t0|e|msg] eqn:RT; cbn [bind rmap]; try reflexivity.
  match goal with
  | |- bind ?E _ = _ =>
      assert (HE : forall t, E = Ok t -> exists idx, In (idx, t) r);
      [|destruct E as [t|e|msg]; cbn [bind rmap]; try reflexivity]
  end.
  { apply (sm_cow_match (fun x => forall t, x = Ok t -> exists idx, In (idx, t) r)).
    - intros t Ht. destruct (t_params t0) as [|p0 ps]; [discriminate|].
      destruct (tp_ty p0) as [inner|]; [|discriminate].
      eapply sm_resolve_type_in; exact Ht.
    - intros t Ht. inversion Ht; subst t. eapply sm_resolve_type_in; exact RT. }
  destruct (HE t eq_refl) as [idx Hin].
  assert (Hpath : forall seg, In seg (t_path t) -> phi seg = seg).
  { intros seg Hseg. exact (Hreg (idx, t) seg Hin Hseg). }
  rewrite (sm_mapM_rmap (fun i => resolve_rec r s1 fuel i false parents None)
                        (fun i => resolve_rec r s2 fuel i false parents None)
                        (map_tpath phi) (param_ids t))
    by (intros x; apply IH).
  destruct (mapM (fun i => resolve_rec r s1 fuel i false parents None) (param_ids t))
    as [params|e|msg]; cbn [bind rmap]; try reflexivity.
  destruct (t_def t) as [fs|vs|e|len e|es|p|e|store order].
  - apply (type_path_maybe_with_substitutes_map phi r s1 s2 _ _ HF Hpath).
  - apply (type_path_maybe_with_substitutes_map phi r s1 s2 _ _ HF Hpath).
  - rewrite IH. destruct (resolve_rec r s1 fuel e false parents None); reflexivity.
  - rewrite IH. destruct (resolve_rec r s1 fuel e false parents None); reflexivity.
  - rewrite (sm_mapM_rmap (fun i => resolve_rec r s1 fuel i false parents None)
                          (fun i => resolve_rec r s2 fuel i false parents None)
                          (map_tpath phi) es)
      by (intros x; apply IH).
    destruct (mapM (fun i => resolve_rec r s1 fuel i false parents None) es); reflexivity.
  - reflexivity.
  - rewrite IH, Hcomp.
    destruct (resolve_rec r s1 fuel e false parents None); cbn [bind rmap]; try reflexivity.
    destruct (s_compact s1); reflexivity.
  - rewrite Hbits. destruct (s_bits s1) as [b|]; cbn [option_map]; [|reflexivity].
    rewrite !IH.
    destruct (resolve_rec r s1 fuel order false parents None); cbn [bind rmap]; try reflexivity.
    destruct (resolve_rec r s1 fuel store false parents None); reflexivity.
Qed.

Corollary resolve_type_path_map phi r s1 s2 id :
  resolve_frame phi r s1 s2 ->
  resolve_type_path r s2 id = rmap (map_tpath phi) (resolve_type_path r s1 id).
Proof. intros HF. unfold resolve_type_path. apply resolve_rec_map; exact HF. Qed.

Corollary resolve_field_type_path_map phi r s1 s2 id parents orig :
  resolve_frame phi r s1 s2 ->
  resolve_field_type_path r s2 id parents orig =
  rmap (map_tpath phi) (resolve_field_type_path r s1 id parents orig).
Proof. intros HF. unfold resolve_field_type_path. apply resolve_rec_map; exact HF. Qed.

(** * Part 3: a token foreign to the inputs does not occur in a resolved path *)

Lemma sm_rename_other w w' x : x <> w -> rename_tok w w' x = x.
Proof.
  intros H. unfold rename_tok. destruct (String.eqb x w) eqn:E; [|reflexivity].
  apply String.eqb_eq in E. contradiction.
Qed.

Lemma sm_rename_self w w' : rename_tok w w' w = w'.
Proof. unfold rename_tok. rewrite String.eqb_refl. reflexivity. Qed.

Lemma sm_map_rename_notin w w' l : ~ In w l -> map (rename_tok w w') l = l.
Proof.
  intros H. apply sm_map_fixed. intros x Hx. apply sm_rename_other.
  intros E. subst x. contradiction.
Qed.

Lemma sm_map_eq_fixed (phi : string -> string) l :
  l = map phi l -> forall x, In x l -> phi x = x.
Proof.
  induction l as [|a l IH]; intros E x Hx; [destruct Hx|].
  cbn [map] in E. inversion E as [[Ea El]].
  destruct Hx as [Hx|Hx].
  - subst x. symmetry. exact Ea.
  - apply IH; assumption.
Qed.

Definition sm_fresh (w : string) : string := if String.eqb w "a" then "b" else "a".

Lemma sm_fresh_neq w : sm_fresh w <> w.
Proof.
  unfold sm_fresh. destruct (String.eqb w "a") eqn:E.
  - apply String.eqb_eq in E. subst w. discriminate.
  - apply String.eqb_neq in E. congruence.
Qed.

(** the one-token renaming of a token foreign to all inputs is a frame of [s] with itself *)
Lemma resolve_frame_rename r s w w' :
  ~ gen_lit false false w ->
  ~ In w (alloc_tokens (s_alloc s)) ->
  w <> s_root s ->
  (forall e, In e r -> ~ In w (t_path (snd e))) ->
  (forall k v, In (k, v) (s_subs s) -> ~ In w (print_spath (su_path v))) ->
  ~ In w (match s_compact s with Some c => c | None => [] end) ->
  ~ In w (match s_bits s with Some c => c | None => [] end) ->
  resolve_frame (rename_tok w w') r s s.
Proof.
  intros Hlit Halloc Hroot Hreg Hsub Hcomp Hbits.
  unfold resolve_frame. repeat split.
  - intros x Hx. apply sm_rename_other. intros E. subst x. contradiction.
  - symmetry. apply sm_rename_other. intros E. apply Hroot. symmetry. exact E.
  - symmetry. apply sm_map_rename_notin. exact Halloc.
  - destruct (s_compact s) as [c|]; [|reflexivity]. cbn [option_map].
    rewrite sm_map_rename_notin by exact Hcomp. reflexivity.
  - destruct (s_bits s) as [c|]; [|reflexivity]. cbn [option_map].
    rewrite sm_map_rename_notin by exact Hbits. reflexivity.
  - intros e seg He Hseg. apply sm_rename_other. intros E. subst seg.
    exact (Hreg e He Hseg).
  - intros k v x Hk Hx. apply sm_rename_other. intros E. subst x.
    exact (Hsub k v Hk Hx).
Qed.

Lemma sm_resolve_rec_tokens_from r s fuel id is_field parents orig toks t w :
  resolve_rec r s fuel id is_field parents orig = Ok t ->
  tp_tokens (alloc_tokens (s_alloc s)) t = Ok toks ->
  ~ gen_lit false false w ->
  ~ In w (alloc_tokens (s_alloc s)) ->
  w <> s_root s ->
  (forall e, In e r -> ~ In w (t_path (snd e))) ->
  (forall k v, In (k, v) (s_subs s) -> ~ In w (print_spath (su_path v))) ->
  ~ In w (match s_compact s with Some c => c | None => [] end) ->
  ~ In w (match s_bits s with Some c => c | None => [] end) ->
  ~ In w toks.
Proof.
  intros Hres Htoks Hlit Halloc Hroot Hreg Hsub Hcomp Hbits Hin.
  pose (phi := rename_tok w (sm_fresh w)).
  assert (HF : resolve_frame phi r s s).
  { apply resolve_frame_rename; assumption. }
  pose proof (resolve_rec_map phi r s s HF fuel id is_field parents orig) as E.
  rewrite Hres in E. cbn [rmap bind] in E. inversion E as [Et].
  destruct HF as (Hok & _).
  pose proof (tp_tokens_map phi false false (alloc_tokens (s_alloc s)) t Hok) as T.
  rewrite <- Et in T.
  unfold phi in T at 1. rewrite sm_map_rename_notin in T by exact Halloc.
  rewrite Htoks in T. cbn [rmap bind] in T. inversion T as [Etoks].
  pose proof (sm_map_eq_fixed phi toks Etoks w Hin) as Hw.
  unfold phi in Hw. rewrite sm_rename_self in Hw.
  exact (sm_fresh_neq w Hw).
Qed.

Theorem resolve_tokens_from r s id toks t w :
  resolve_type_path r s id = Ok t ->
  tp_tokens (alloc_tokens (s_alloc s)) t = Ok toks ->
  ~ gen_lit false false w ->
  ~ In w (alloc_tokens (s_alloc s)) ->
  w <> s_root s ->
  (forall e, In e r -> ~ In w (t_path (snd e))) ->
  (forall k v, In (k, v) (s_subs s) -> ~ In w (print_spath (su_path v))) ->
  ~ In w (match s_compact s with Some c => c | None => [] end) ->
  ~ In w (match s_bits s with Some c => c | None => [] end) ->
  ~ In w toks.
Proof. unfold resolve_type_path. apply sm_resolve_rec_tokens_from. Qed.

Theorem resolve_field_tokens_from r s id parents orig toks t w :
  resolve_field_type_path r s id parents orig = Ok t ->
  tp_tokens (alloc_tokens (s_alloc s)) t = Ok toks ->
  ~ gen_lit false false w ->
  ~ In w (alloc_tokens (s_alloc s)) ->
  w <> s_root s ->
  (forall e, In e r -> ~ In w (t_path (snd e))) ->
  (forall k v, In (k, v) (s_subs s) -> ~ In w (print_spath (su_path v))) ->
  ~ In w (match s_compact s with Some c => c | None => [] end) ->
  ~ In w (match s_bits s with Some c => c | None => [] end) ->
  ~ In w toks.
Proof. unfold resolve_field_type_path. apply sm_resolve_rec_tokens_from. Qed.
