(** The longest-path rank of Model/SizedReg.v ([rank_step], [rank_iter], [rank_okb]) decides
    acyclicity of a graph given by rows [(node, successors)]:
    - soundness ([rank_okb_sound]): a rank that passes the check strictly decreases along every
      edge, so no walk returns to its start;
    - completeness ([rank_okb_complete]): on a graph without cycles the table computed by
      [length g] rounds passes the check.  (If round [k + 1] still raises the value of a node,
      a walk of [k + 1] edges starts there; [length g + 1] sources of edges among [length g] rows
      repeat one, which is a cycle.) *)
From Coq Require Import List NArith String Bool Lia.
From V Require Import Base.Util Base.Strings Model.Sized Model.SizedReg.
Import ListNotations.
Open Scope string_scope. Open Scope list_scope. Open Scope nat_scope.

Definition graph := list (list string * list (list string)).

Definition graph_edge (g : graph) (p q : list string) : Prop :=
  exists succs, In (p, succs) g /\ In q succs.

Lemma rank_okb_sound g rk :
  rank_okb g rk = true -> forall p q, graph_edge g p q -> rk q < rk p.
Proof.
  unfold rank_okb. intros H p q (succs & Hin & Hq).
  rewrite forallb_forall in H. specialize (H _ Hin). cbn [fst snd] in H.
  rewrite forallb_forall in H. specialize (H _ Hq). apply PeanoNat.Nat.ltb_lt in H. exact H.
Qed.

(** ** the table *)
Lemma tab_get_cons e tab p :
  tab_get (e :: tab) p = if path_eqb (fst e) p then Nat.max (snd e) (tab_get tab p) else tab_get tab p.
Proof. reflexivity. Qed.

Lemma tab_get_ge tab p v : In (p, v) tab -> v <= tab_get tab p.
Proof.
  induction tab as [|e tab IH]; intros Hin; [destruct Hin|].
  rewrite tab_get_cons. destruct Hin as [->|Hin].
  - cbn [fst snd]. rewrite path_eqb_refl. apply PeanoNat.Nat.le_max_l.
  - specialize (IH Hin). destruct (path_eqb (fst e) p); [|exact IH].
    pose proof (PeanoNat.Nat.le_max_r (snd e) (tab_get tab p)). lia.
Qed.

Lemma tab_get_witness tab p : tab_get tab p = 0 \/ In (p, tab_get tab p) tab.
Proof.
  induction tab as [|e tab IH]; [left; reflexivity|].
  rewrite tab_get_cons. destruct (path_eqb (fst e) p) eqn:Ep.
  - apply path_eqb_eq in Ep.
    destruct (PeanoNat.Nat.max_spec (snd e) (tab_get tab p)) as [[_ ->]|[_ ->]].
    + destruct IH as [IH|IH]; [left; exact IH|right; right; exact IH].
    + right. left. destruct e as [k v]. cbn [fst snd] in *. subst k. reflexivity.
  - destruct IH as [IH|IH]; [left; exact IH|right; right; exact IH].
Qed.

Definition succ_rank (tab : rank_table) (succs : list (list string)) : nat :=
  fold_right (fun q acc => Nat.max (S (tab_get tab q)) acc) 0 succs.

Lemma rank_step_eq g tab : rank_step g tab = map (fun e => (fst e, succ_rank tab (snd e))) g.
Proof. reflexivity. Qed.

Lemma succ_rank_ge tab succs q : In q succs -> S (tab_get tab q) <= succ_rank tab succs.
Proof.
  induction succs as [|x succs IH]; intros Hin; [destruct Hin|].
  cbn [succ_rank fold_right]. fold (succ_rank tab succs). destruct Hin as [->|Hin].
  - apply PeanoNat.Nat.le_max_l.
  - specialize (IH Hin). pose proof (PeanoNat.Nat.le_max_r (S (tab_get tab x)) (succ_rank tab succs)). lia.
Qed.

Lemma succ_rank_witness tab succs :
  succ_rank tab succs = 0 \/ exists q, In q succs /\ succ_rank tab succs = S (tab_get tab q).
Proof.
  induction succs as [|x succs IH]; [left; reflexivity|].
  cbn [succ_rank fold_right]. fold (succ_rank tab succs).
  destruct (PeanoNat.Nat.max_spec (S (tab_get tab x)) (succ_rank tab succs)) as [[Hlt ->]|[_ ->]].
  - destruct IH as [IH|(q & Hq & IH)]; [lia|]. right. exists q. split; [right; exact Hq|exact IH].
  - right. exists x. split; [left; reflexivity|reflexivity].
Qed.

Lemma step_ge g tab p q : graph_edge g p q -> S (tab_get tab q) <= tab_get (rank_step g tab) p.
Proof.
  intros (succs & Hin & Hq). pose proof (succ_rank_ge tab succs q Hq) as H1.
  assert (H2 : In (p, succ_rank tab succs) (rank_step g tab)).
  { rewrite rank_step_eq. apply in_map_iff. exists (p, succs). split; [reflexivity|exact Hin]. }
  pose proof (tab_get_ge _ _ _ H2). lia.
Qed.

Lemma step_witness g tab p :
  tab_get (rank_step g tab) p = 0 \/
  exists q, graph_edge g p q /\ tab_get (rank_step g tab) p = S (tab_get tab q).
Proof.
  destruct (tab_get_witness (rank_step g tab) p) as [H|H]; [left; exact H|].
  rewrite rank_step_eq in H at 2. apply in_map_iff in H as ([k succs] & E & Hin).
  cbn [fst snd] in E. assert (Ek : k = p) by congruence.
  assert (Ev : tab_get (rank_step g tab) p = succ_rank tab succs) by congruence. subst k. clear E.
  rewrite Ev.
  destruct (succ_rank_witness tab succs) as [H0|(q & Hq & Hv)].
  - left. exact H0.
  - right. exists q. split; [exists succs; split; assumption|]. exact Hv.
Qed.

Lemma rank_iter_step g : forall n tab, rank_iter n g (rank_step g tab) = rank_step g (rank_iter n g tab).
Proof.
  induction n as [|n IH]; intros tab; [reflexivity|].
  cbn [rank_iter]. rewrite IH. reflexivity.
Qed.

Lemma rank_iter_S g n : rank_iter (S n) g [] = rank_step g (rank_iter n g []).
Proof. cbn [rank_iter]. apply rank_iter_step. Qed.

(** ** walks with their intermediate nodes: [a -> l1 -> l2 -> .. -> z] *)
Fixpoint schain (E : list string -> list string -> Prop) (a : list string) (l : list (list string))
         (z : list string) : Prop :=
  match l with
  | [] => E a z
  | c :: l' => E a c /\ schain E c l' z
  end.

Lemma schain_walk E : forall l a z, schain E a l z -> walk E (List.length l) a z.
Proof.
  induction l as [|c l IH]; intros a z H; cbn [schain List.length walk] in *; [exact H|].
  destruct H as [Hac H]. exists c. split; [exact Hac|]. apply IH. exact H.
Qed.

Lemma schain_suffix E : forall l1 x c l2 z, schain E x (l1 ++ c :: l2) z -> schain E c l2 z.
Proof.
  induction l1 as [|y l1 IH]; intros x c l2 z H; cbn [app schain] in H.
  - exact (proj2 H).
  - exact (IH _ _ _ _ (proj2 H)).
Qed.

Lemma schain_prefix E : forall l2 a c l3 z, schain E a (l2 ++ c :: l3) z -> schain E a l2 c.
Proof.
  induction l2 as [|y l2 IH]; intros a c l3 z H; cbn [app schain] in *.
  - exact (proj1 H).
  - split; [exact (proj1 H)|]. exact (IH _ _ _ _ (proj2 H)).
Qed.

Lemma schain_sources g : forall l a z, schain (graph_edge g) a l z ->
  forall x, In x (a :: l) -> In x (map fst g).
Proof.
  assert (Hsrc : forall a c, graph_edge g a c -> In a (map fst g)).
  { intros a c (succs & Hin & _). apply in_map_iff. exists (a, succs). split; [reflexivity|exact Hin]. }
  induction l as [|c l IH]; intros a z H x Hx; cbn [schain] in H.
  - destruct Hx as [<-|[]]. exact (Hsrc _ _ H).
  - destruct H as [Hac H]. destruct Hx as [<-|Hx]; [exact (Hsrc _ _ Hac)|].
    exact (IH _ _ H x Hx).
Qed.

Lemma repeat_split {A} (dec : forall x y : A, {x = y} + {x <> y}) : forall l : list A,
  ~ NoDup l -> exists a l1 l2 l3, l = l1 ++ a :: l2 ++ a :: l3.
Proof.
  induction l as [|a l IH]; intros Hnd; [exfalso; apply Hnd; constructor|].
  destruct (in_dec dec a l) as [Hin|Hnin].
  - destruct (in_split _ _ Hin) as (l2 & l3 & ->). exists a, [], l2, l3. reflexivity.
  - assert (Hnd' : ~ NoDup l) by (intros H; apply Hnd; constructor; assumption).
    destruct (IH Hnd') as (b & l1 & l2 & l3 & ->). exists b, (a :: l1), l2, l3. reflexivity.
Qed.

Lemma schain_repeat_cycle E a l z :
  schain E a l z -> ~ NoDup (a :: l) -> exists n c, walk E n c c.
Proof.
  intros H Hnd.
  destruct (repeat_split (list_eq_dec string_dec) _ Hnd) as (c & l1 & l2 & l3 & El).
  assert (Hc : schain E c (l2 ++ c :: l3) z).
  { destruct l1 as [|y l1]; cbn [app] in El; inversion El; subst.
    - exact H.
    - exact (schain_suffix E _ _ _ _ _ H). }
  exists (List.length l2), c. apply schain_walk. exact (schain_prefix E _ _ _ _ _ Hc).
Qed.

(** a value still rising in round [k + 1] comes with a walk of [k + 1] edges *)
Lemma rising_chain g : forall k p,
  tab_get (rank_iter k g []) p < tab_get (rank_iter (S k) g []) p ->
  exists l z, List.length l = k /\ schain (graph_edge g) p l z.
Proof.
  induction k as [|k IH]; intros p H.
  - rewrite rank_iter_S in H. destruct (step_witness g (rank_iter 0 g []) p) as [H0|(q & He & _)]; [lia|].
    exists [], q. split; [reflexivity|exact He].
  - rewrite (rank_iter_S g (S k)) in H.
    destruct (step_witness g (rank_iter (S k) g []) p) as [H0|(q & He & Hv)]; [lia|].
    pose proof (step_ge g (rank_iter k g []) p q He) as Hge. rewrite <- rank_iter_S in Hge.
    assert (Hq : tab_get (rank_iter k g []) q < tab_get (rank_iter (S k) g []) q) by lia.
    destruct (IH q Hq) as (l & z & Hl & Hc).
    exists (q :: l), z. split; [cbn [List.length]; lia|]. split; assumption.
Qed.

Theorem rank_okb_complete g :
  (forall n p, ~ walk (graph_edge g) n p p) ->
  rank_okb g (tab_get (rank_iter (List.length g) g [])) = true.
Proof.
  intros Hac. unfold rank_okb. apply forallb_forall. intros [p succs] Hin.
  apply forallb_forall. intros q Hq. cbn [fst snd]. apply PeanoNat.Nat.ltb_lt.
  assert (He : graph_edge g p q) by (exists succs; split; assumption).
  pose proof (step_ge g (rank_iter (List.length g) g []) p q He) as Hge.
  rewrite <- rank_iter_S in Hge.
  destruct (PeanoNat.Nat.le_gt_cases (tab_get (rank_iter (S (List.length g)) g []) p)
                                     (tab_get (rank_iter (List.length g) g []) p)) as [Hle|Hgt]; [lia|].
  exfalso. destruct (rising_chain g _ _ Hgt) as (l & z & Hl & Hc).
  assert (Hnd : ~ NoDup (p :: l)).
  { intros Hnd. pose proof (NoDup_incl_length Hnd (schain_sources g l p z Hc)) as Hlen.
    rewrite map_length in Hlen. cbn [List.length] in Hlen. lia. }
  destruct (schain_repeat_cycle _ _ _ _ Hc Hnd) as (n & c & W). exact (Hac n c W).
Qed.

Theorem rank_okb_acyclic g rk : rank_okb g rk = true -> forall n p, ~ walk (graph_edge g) n p p.
Proof.
  intros H n p W.
  assert (Hr : forall m a b, walk (graph_edge g) m a b -> rk b < rk a).
  { induction m as [|m IH]; intros a b Wab; cbn [walk] in Wab.
    - exact (rank_okb_sound g rk H _ _ Wab).
    - destruct Wab as (c & Hac & Wcb). pose proof (rank_okb_sound g rk H _ _ Hac).
      specialize (IH _ _ Wcb). lia. }
  specialize (Hr n p p W). lia.
Qed.

(** the constructive form of completeness: a failing check exhibits a cycle *)
Lemma forallb_false_ex {A} (f : A -> bool) : forall l, forallb f l = false -> exists x, In x l /\ f x = false.
Proof.
  induction l as [|a l IH]; cbn [forallb]; intros H; [discriminate|].
  destruct (f a) eqn:Fa.
  - destruct (IH H) as (x & Hx & Hf). exists x. split; [right; exact Hx|exact Hf].
  - exists a. split; [left; reflexivity|exact Fa].
Qed.

Theorem rank_okb_false_cycle g :
  rank_okb g (tab_get (rank_iter (List.length g) g [])) = false ->
  exists n c, walk (graph_edge g) n c c.
Proof.
  unfold rank_okb. intros H. apply forallb_false_ex in H as ([p succs] & Hin & H).
  apply forallb_false_ex in H as (q & Hq & H). cbn [fst snd] in H.
  apply PeanoNat.Nat.ltb_ge in H.
  assert (He : graph_edge g p q) by (exists succs; split; assumption).
  pose proof (step_ge g (rank_iter (List.length g) g []) p q He) as Hge.
  rewrite <- rank_iter_S in Hge.
  assert (Hgt : tab_get (rank_iter (List.length g) g []) p < tab_get (rank_iter (S (List.length g)) g []) p)
    by lia.
  destruct (rising_chain g _ _ Hgt) as (l & z & Hl & Hc).
  assert (Hnd : ~ NoDup (p :: l)).
  { intros Hnd. pose proof (NoDup_incl_length Hnd (schain_sources g l p z Hc)) as Hlen.
    rewrite map_length in Hlen. cbn [List.length] in Hlen. lia. }
  exact (schain_repeat_cycle _ _ _ _ Hc Hnd).
Qed.
