(** C10, the missing-id clause globally: in a registry that is well-formed except for references
    to ONE id [m] outside it ([resolvable_but], Model/MissingId.v), path resolution answers
    [Err (ETypeNotFound m)] exactly when its descent reaches such a reference ([reaches_missing])
    and [Ok] otherwise - never a panic, fuel exhaustion or another error.  Since every failure that
    can occur is the same one, the order of the descent does not matter. *)
From Coq Require Import List NArith String Ascii Bool Lia Arith.
From V Require Import Base.Strings Base.Result Model.Registry Model.Settings Model.Subst
  Model.TypePath Model.Derives Model.Generate Model.WellFormed Model.MissingId
  Proofs.ResolveTotal.
Import ListNotations.
Open Scope string_scope. Open Scope list_scope.

(** ** generic facts *)
Lemma forall_or_exists {A} (P Q : A -> Prop) l :
  (forall x, In x l -> P x \/ Q x) -> (exists x, In x l /\ P x) \/ (forall x, In x l -> Q x).
Proof.
  induction l as [|a l IH]; intros H; [right; intros x []|].
  destruct (H a (or_introl eq_refl)) as [Pa|Qa]; [left; exists a; split; [left; reflexivity|exact Pa]|].
  destruct IH as [(x & Hx & Px)|Hq]; [intros x Hx; apply H; right; exact Hx| |].
  - left. exists x. split; [right; exact Hx|exact Px].
  - right. intros x [<-|Hx]; [exact Qa|apply Hq; exact Hx].
Qed.

Lemma mapM_err_or_ok {A B} (f : A -> result B) e l :
  (forall x, In x l -> f x = Err e \/ exists y, f x = Ok y) ->
  (mapM f l = Err e /\ exists x, In x l /\ f x = Err e) \/
  (exists ys, mapM f l = Ok ys /\ forall x, In x l -> exists y, f x = Ok y).
Proof.
  induction l as [|a l IH]; intros H; cbn [mapM].
  - right. exists []. split; [reflexivity|intros x []].
  - destruct (H a (or_introl eq_refl)) as [Ea|(y & Ey)].
    + left. rewrite Ea. split; [reflexivity|]. exists a. split; [left; reflexivity|exact Ea].
    + rewrite Ey. cbn [bind].
      destruct IH as [(El & x & Hx & Ex)|(ys & El & Hok)]; [intros x Hx; apply H; right; exact Hx| |].
      * left. rewrite El. split; [reflexivity|]. exists x. split; [right; exact Hx|exact Ex].
      * right. rewrite El. cbn [bind]. exists (y :: ys). split; [reflexivity|].
        intros x [<-|Hx]; [eauto|apply Hok; exact Hx].
Qed.

Lemma resolve_none_not_in_reg r id : resolve r id = None -> ~ in_reg r id.
Proof. intros H Hin. destruct (resolve_in_reg r id Hin) as (t & Ht). congruence. Qed.

Lemma cow_inner_eq t0 :
  cow_inner t0 =
  if is_cow (path_ident (t_path t0)) then
    match t_params t0 with p0 :: _ => tp_ty p0 | [] => None end
  else None.
Proof. unfold cow_inner. apply cow_match. Qed.

Lemma cow_target_eq' r t0 :
  cow_target r t0 =
  if is_cow (path_ident (t_path t0)) then
    match t_params t0 with
    | [] => None
    | p0 :: _ => match tp_ty p0 with None => None | Some inner => resolve r inner end
    end
  else Some t0.
Proof. unfold cow_target. apply cow_match. Qed.

(** the two look-through functions agree *)
Lemma cow_inner_target r t0 x : cow_inner t0 = Some x -> cow_target r t0 = resolve r x.
Proof.
  rewrite cow_inner_eq, cow_target_eq'. destruct (is_cow (path_ident (t_path t0))); [|discriminate].
  destruct (t_params t0) as [|p0 ps]; [discriminate|]. intros ->. reflexivity.
Qed.

Lemma cow_inner_none_target r t0 : cow_inner t0 = None -> is_cow (path_ident (t_path t0)) = false ->
  cow_target r t0 = Some t0.
Proof. intros _ H. rewrite cow_target_eq', H. reflexivity. Qed.

Section Missing.
  Variable r : registry.
  Variable s : settings.
  Variable rank : N -> nat.
  Variable m : N.
  Hypothesis Hres : resolvable_but r s rank m.

  Lemma ref_cases id t c :
    resolve r id = Some t -> In c (param_ids t ++ def_ids (t_def t)) ->
    (exists tc, resolve r c = Some tc) \/ (c = m /\ resolve r c = None).
  Proof.
    destruct Hres as (Hm & Hcl & _). intros Ht Hc.
    destruct (Hcl _ _ _ Ht Hc) as [Hin| ->].
    - left. apply resolve_in_reg. exact Hin.
    - right. split; [reflexivity|]. destruct (resolve r m) as [tm|] eqn:E; [|reflexivity].
      exfalso. apply Hm. eapply resolve_some_in_reg; exact E.
  Qed.

  Lemma unresolved_is_m id t c :
    resolve r id = Some t -> In c (param_ids t ++ def_ids (t_def t)) -> resolve r c = None -> c = m.
  Proof.
    intros Ht Hc Hn. destruct (ref_cases _ _ _ Ht Hc) as [(tc & Htc)|[E _]]; [congruence|exact E].
  Qed.

  (** the outcome of one call, in both directions at once *)
  Definition outcome (fuel : nat) (id : N) (is_field : bool) (parents : list tparam_ir)
             (orig : option string) : Prop :=
    (resolve_rec r s fuel id is_field parents orig = Err (ETypeNotFound m) /\
     reaches_missing r parents id orig m) \/
    (exists t, resolve_rec r s fuel id is_field parents orig = Ok t /\ tokenizable t = true /\
               forall m', ~ reaches_missing r parents id orig m').

  Lemma resolve_rec_missing : forall fuel id is_field parents orig,
    (in_reg r id \/ id = m) -> rank id < fuel -> outcome fuel id is_field parents orig.
  Proof.
    destruct Hres as (Hm & Hcl & (Hrk & _) & Hent & (Hcomp & Hbits) & Hci).
    induction fuel as [|fuel IH]; intros id is_field parents orig Hid Hlt; [lia|].
    unfold outcome. rewrite resolve_rec_S.
    destruct (find_parent parents id orig) as [p|] eqn:Efp.
    { right. exists (TParam p). split; [reflexivity|]. split; [reflexivity|].
      intros m' H. inversion H; congruence. }
    unfold resolve_type.
    destruct (resolve r id) as [t0|] eqn:Et0; cbn [bind].
    2:{ left. assert (id = m).
        { destruct Hid as [Hin|E]; [|exact E]. destruct (resolve_in_reg r id Hin) as (t & Ht). congruence. }
        subst id. split; [reflexivity|]. apply RM_here; assumption. }
    (* the Cow look-through *)
    pose proof (Hent _ _ Et0) as He0. unfold resolvable_entryb in He0.
    apply andb_prop in He0 as [He0 _]. apply andb_prop in He0 as [Hcow0 _].
    rewrite cow_okb_eq in Hcow0. rewrite cow_step_eq.
    assert (Hlook :
      (exists inner, cow_inner t0 = Some inner /\ resolve r inner = None /\ inner = m /\
                     (if is_cow (path_ident (t_path t0)) then
                        match t_params t0 with
                        | [] => Panic "index out of bounds"
                        | p0 :: _ => match tp_ty p0 with
                                     | None => Err EInvalidType
                                     | Some inner => resolve_type r inner
                                     end
                        end
                      else Ok t0) = Err (ETypeNotFound m)) \/
      (exists t id', (if is_cow (path_ident (t_path t0)) then
                        match t_params t0 with
                        | [] => Panic "index out of bounds"
                        | p0 :: _ => match tp_ty p0 with
                                     | None => Err EInvalidType
                                     | Some inner => resolve_type r inner
                                     end
                        end
                      else Ok t0) = Ok t /\
                     cow_target r t0 = Some t /\ resolve r id' = Some t /\ rank id' <= rank id /\
                     forall x, cow_inner t0 = Some x -> resolve r x = Some t)).
    { rewrite cow_inner_eq, cow_target_eq'.
      destruct (is_cow (path_ident (t_path t0))).
      - unfold first_param_typed in Hcow0.
        destruct (t_params t0) as [|p0 ps] eqn:Ep; [discriminate|].
        destruct (tp_ty p0) as [inner|] eqn:Ei; [|discriminate].
        assert (Hin : In inner (param_ids t0)).
        { unfold param_ids. rewrite Ep. cbn [flat_map]. rewrite Ei. left; reflexivity. }
        assert (Hin' : In inner (param_ids t0 ++ def_ids (t_def t0))) by (apply in_or_app; left; exact Hin).
        unfold resolve_type.
        destruct (resolve r inner) as [t|] eqn:Er.
        + right. exists t, inner. split; [reflexivity|]. split; [reflexivity|]. split; [exact Er|].
          split.
          * apply Nat.lt_le_incl. eapply Hrk; [exact Et0|]. unfold nonfield_ids. apply in_or_app; left; exact Hin.
          * intros x Hx. inversion Hx; subst. exact Er.
        + left. pose proof (unresolved_is_m _ _ _ Et0 Hin' Er) as ->.
          exists m. repeat split; assumption || reflexivity.
      - right. exists t0, id. split; [reflexivity|]. split; [reflexivity|]. split; [exact Et0|].
        split; [apply Nat.le_refl|]. intros x Hx. discriminate. }
    destruct Hlook as [(inner & Hci1 & Hci2 & -> & Ecs)|(t & id' & Ecs & Hct & Ht & Hle & Hinner)].
    { left. rewrite Ecs. cbn [bind]. split; [reflexivity|]. eapply RM_cow; eassumption. }
    rewrite Ecs. cbn [bind]. clear Ecs.
    (* the children of the looked-through entry *)
    assert (Hch : forall c, In c (nonfield_ids t) -> outcome fuel c false parents None).
    { intros c Hc. apply IH.
      - destruct Hres as (_ & Hcl' & _).
        eapply Hcl'; [exact Ht|]. apply nonfield_ids_incl; exact Hc.
      - pose proof (Hrk _ _ _ Ht Hc) as Hr1. lia. }
    assert (Hch' : forall c, In c (nonfield_ids t) ->
               resolve_rec r s fuel c false parents None = Err (ETypeNotFound m) \/
               exists y, resolve_rec r s fuel c false parents None = Ok y).
    { intros c Hc. destruct (Hch c Hc) as [(E & _)|(y & E & _)]; [left; exact E|right; eauto]. }
    assert (Hnot : (forall c, In c (nonfield_ids t) -> forall m', ~ reaches_missing r parents c None m') ->
                   forall m', ~ reaches_missing r parents id orig m').
    { intros Hall m' H. inversion H as [? ? _ Hn|? ? t0' ? _ Ht0' Hc1 Hc2|? ? t0' t' c ? _ Ht0' Hct' Hc Hrc]; subst.
      - congruence.
      - rewrite Et0 in Ht0'. inversion Ht0'; subst t0'. rewrite (Hinner _ Hc1) in Hc2. discriminate.
      - rewrite Et0 in Ht0'. inversion Ht0'; subst t0'. rewrite Hct in Hct'. inversion Hct'; subst t'.
        exact (Hall c Hc m' Hrc). }
    destruct (forall_or_exists
                (fun c => resolve_rec r s fuel c false parents None = Err (ETypeNotFound m) /\
                          reaches_missing r parents c None m)
                (fun c => exists y, resolve_rec r s fuel c false parents None = Ok y /\ tokenizable y = true /\
                                    forall m', ~ reaches_missing r parents c None m')
                (nonfield_ids t) Hch) as [(c0 & Hc0 & Ec0 & Rc0)|Hall].
    - (* some child fails: every failure is the same one *)
      left. split; [|eapply RM_child; eassumption].
      assert (Hps : forall c, In c (param_ids t) -> In c (nonfield_ids t))
        by (intros c Hc; unfold nonfield_ids; apply in_or_app; left; exact Hc).
      destruct (mapM_err_or_ok (fun i => resolve_rec r s fuel i false parents None) (ETypeNotFound m)
                               (param_ids t)) as [(Eps & _)|(params & Eps & Hokps)].
      { intros c Hc. apply Hch'. apply Hps; exact Hc. }
      { rewrite Eps. reflexivity. }
      rewrite Eps. cbn [bind].
      assert (Hc0d : In c0 (match t_def t with TDComposite _ | TDVariant _ => [] | d => def_ids d end)).
      { unfold nonfield_ids in Hc0. apply in_app_or in Hc0 as [Hc0|Hc0]; [|exact Hc0].
        destruct (Hokps c0 Hc0) as (y & Ey). congruence. }
      assert (Hd : forall c, In c (match t_def t with TDComposite _ | TDVariant _ => [] | d => def_ids d end) ->
                 In c (nonfield_ids t))
        by (intros c Hc; unfold nonfield_ids; apply in_or_app; right; exact Hc).
      unfold resolve_def.
      destruct (t_def t) as [fs|vs|e|len e|es|p|e|store order] eqn:Ed; cbn [def_ids] in Hc0d, Hd;
        try (destruct Hc0d; fail).
      + destruct Hc0d as [<-|[]]. rewrite Ec0. reflexivity.
      + destruct Hc0d as [<-|[]]. rewrite Ec0. reflexivity.
      + destruct (mapM_err_or_ok (fun i => resolve_rec r s fuel i false parents None) (ETypeNotFound m) es)
          as [(Ees & _)|(l & _ & Hokes)].
        { intros c Hc. apply Hch'. apply Hd; exact Hc. }
        * rewrite Ees. reflexivity.
        * destruct (Hokes c0 Hc0d) as (y & Ey). congruence.
      + destruct Hc0d as [<-|[]]. rewrite Ec0. reflexivity.
      + pose proof (Hbits _ _ _ _ Ht Ed) as Hb. destruct (s_bits s) as [b|]; [|contradiction].
        destruct (Hch' order) as [Eo|(o & Eo)]; [apply Hd; right; left; reflexivity| |].
        * rewrite Eo. reflexivity.
        * rewrite Eo. cbn [bind].
          destruct Hc0d as [<-|[<-|[]]]; [rewrite Ec0; reflexivity|congruence].
    - (* no child fails: as in the closed case *)
      right.
      destruct (mapM_total (fun i => resolve_rec r s fuel i false parents None)
                           (fun x => tokenizable x = true) (param_ids t)) as (params & Hps & Pps).
      { intros c Hc. destruct (Hall c) as (y & Ey & Py & _); [unfold nonfield_ids; apply in_or_app; left; exact Hc|].
        eauto. }
      rewrite Hps. cbn [bind].
      pose proof (Hent _ _ Ht) as He. unfold resolvable_entryb in He.
      apply andb_prop in He as [He H256]. apply andb_prop in He as [_ Hpath].
      assert (Hd : forall c, In c (match t_def t with
                                   | TDComposite _ | TDVariant _ => []
                                   | d => def_ids d
                                   end) ->
                exists x, resolve_rec r s fuel c false parents None = Ok x /\ tokenizable x = true).
      { intros c Hc. destruct (Hall c) as (y & Ey & Py & _); [unfold nonfield_ids; apply in_or_app; right; exact Hc|].
        eauto. }
      assert (Hnr : forall m', ~ reaches_missing r parents id orig m').
      { apply Hnot. intros c Hc. destruct (Hall c Hc) as (_ & _ & _ & Hn). exact Hn. }
      assert (Fin : forall x, (exists t1, x = Ok t1 /\ tokenizable t1 = true) ->
                exists t1, x = Ok t1 /\ tokenizable t1 = true /\
                           forall m', ~ reaches_missing r parents id orig m').
      { intros x (t1 & E1 & P1). exists t1. auto. }
      apply Fin. unfold resolve_def. unfold no256_defb in H256.
      destruct (t_def t) as [fs|vs|e|len e|es|p|e|store order] eqn:Ed.
      + apply maybe_subst_total; [|exact Pps]. apply path_okb_cond; [exact Hpath|]. rewrite Ed. reflexivity.
      + apply maybe_subst_total; [|exact Pps]. apply path_okb_cond; [exact Hpath|]. rewrite Ed. reflexivity.
      + destruct (Hd e) as (x & Hx & Px); [left; reflexivity|]. rewrite Hx. cbn [bind].
        eexists; split; [reflexivity|exact Px].
      + destruct (Hd e) as (x & Hx & Px); [left; reflexivity|]. rewrite Hx. cbn [bind].
        eexists; split; [reflexivity|exact Px].
      + destruct (mapM_total (fun i => resolve_rec r s fuel i false parents None)
                             (fun x => tokenizable x = true) es) as (l & Hl & Pl).
        { intros c Hc. apply Hd. exact Hc. }
        rewrite Hl. cbn [bind]. eexists; split; [reflexivity|]. cbn [tokenizable]. apply forallb_Forall. exact Pl.
      + eexists; split; [reflexivity|]. cbn [tokenizable]. exact H256.
      + destruct (Hd e) as (x & Hx & Px); [left; reflexivity|]. rewrite Hx. cbn [bind].
        pose proof (Hcomp _ _ _ Ht Ed) as Hc. destruct (s_compact s) as [c|]; [|contradiction].
        eexists; split; [reflexivity|]. cbn [tokenizable]. rewrite Px. cbn [andb].
        destruct is_field; [|reflexivity]. cbn [andb].
        destruct (tuple_or_array x) eqn:Etx; [|reflexivity]. exfalso.
        destruct (resolve_rec_shape _ _ _ _ _ _ _ _ Hx Etx) as (u0 & u & Hu0 & Hu & Hdu).
        pose proof (Hci _ _ Ht) as Hk. unfold compact_inner_ok_at in Hk.
        rewrite Ed, Hu0, Hu, Hdu in Hk. discriminate.
      + pose proof (Hbits _ _ _ _ Ht Ed) as Hb. destruct (s_bits s) as [b|]; [|contradiction].
        destruct (Hd order) as (x & Hx & Px); [right; left; reflexivity|].
        destruct (Hd store) as (y & Hy & Py); [left; reflexivity|].
        rewrite Hx. cbn [bind]. rewrite Hy. cbn [bind].
        eexists; split; [reflexivity|]. cbn [tokenizable]. rewrite Px, Py. reflexivity.
  Qed.

  (** with the fuel the model starts from, at every site: any parents, recorded name, field or not *)
  Lemma outcome_fuel0 id is_field parents orig :
    (in_reg r id \/ id = m) -> outcome (fuel0 r) id is_field parents orig.
  Proof.
    intros Hid. destruct Hid as [Hin| ->].
    - apply resolve_rec_missing; [left; exact Hin|].
      destruct Hres as (_ & _ & (_ & Hb) & _). pose proof (Hb _ Hin). unfold fuel0. lia.
    - (* the missing id itself: no descent *)
      unfold outcome, fuel0. rewrite resolve_rec_S.
      assert (Hn : resolve r m = None).
      { destruct (resolve r m) as [tm|] eqn:E; [|reflexivity]. exfalso.
        destruct Hres as (Hm & _). apply Hm. eapply resolve_some_in_reg; exact E. }
      destruct (find_parent parents m orig) as [p|] eqn:Efp.
      + right. exists (TParam p). split; [reflexivity|]. split; [reflexivity|].
        intros m' H. inversion H; congruence.
      + left. unfold resolve_type. rewrite Hn. cbn [bind]. split; [reflexivity|].
        apply RM_here; assumption.
  Qed.

  Theorem missing_id_resolve_rec id is_field parents orig :
    (in_reg r id \/ id = m) ->
    (reaches_missing r parents id orig m ->
     resolve_rec r s (fuel0 r) id is_field parents orig = Err (ETypeNotFound m)) /\
    (~ reaches_missing r parents id orig m ->
     exists t, resolve_rec r s (fuel0 r) id is_field parents orig = Ok t /\
               exists toks, tp_tokens (alloc_tokens (s_alloc s)) t = Ok toks).
  Proof.
    intros Hid. pose proof (outcome_fuel0 id is_field parents orig Hid) as Hout.
    destruct Hout as [(E & R)|(t & E & Pt & Hn)].
    - split; [intros _; exact E|intros Hc; contradiction].
    - split; [intros Hc; exfalso; exact (Hn m Hc)|].
      intros _. exists t. split; [exact E|]. apply tp_tokens_ok. exact Pt.
  Qed.

  (** the pinned form: [resolve_type_path] (no parents, no recorded name) *)
  Theorem missing_id_resolve id :
    (in_reg r id \/ id = m) ->
    (reaches_missing r [] id None m -> resolve_type_path r s id = Err (ETypeNotFound m)) /\
    (~ reaches_missing r [] id None m ->
     exists t, resolve_type_path r s id = Ok t /\
               exists toks, tp_tokens (alloc_tokens (s_alloc s)) t = Ok toks).
  Proof. intros Hid. exact (missing_id_resolve_rec id false [] None Hid). Qed.

  (** only [m] can be reached *)
  Lemma reaches_missing_is_m parents : forall id orig m',
    (in_reg r id \/ id = m) -> reaches_missing r parents id orig m' -> m' = m.
  Proof.
    intros id orig m' Hid H. revert Hid.
    induction H as [id orig _ Hn|id orig t0 m' _ Ht0 Hc1 Hc2|id orig t0 t c m' _ Ht0 Hct Hc _ IH]; intros Hid.
    - destruct Hid as [Hin|E]; [|exact E]. destruct (resolve_in_reg r id Hin) as (t & Ht). congruence.
    - apply (unresolved_is_m id t0 m' Ht0); [|exact Hc2].
      apply in_or_app; left. rewrite cow_inner_eq in Hc1.
      destruct (is_cow (path_ident (t_path t0))); [|discriminate].
      unfold param_ids. destruct (t_params t0) as [|p0 ps]; [discriminate|].
      cbn [flat_map]. rewrite Hc1. left; reflexivity.
    - apply IH.
      assert (Hsrc : exists id', resolve r id' = Some t).
      { rewrite cow_target_eq' in Hct. destruct (is_cow (path_ident (t_path t0))).
        - destruct (t_params t0) as [|p0 ps]; [discriminate|].
          destruct (tp_ty p0) as [inner|]; [|discriminate]. eauto.
        - inversion Hct; subst. eauto. }
      destruct Hsrc as (id' & Hid').
      destruct Hres as (_ & Hcl & _). eapply Hcl; [exact Hid'|]. apply nonfield_ids_incl; exact Hc.
  Qed.
End Missing.
