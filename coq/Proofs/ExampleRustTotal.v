(** C14: the hypothesis [tg_total] of [example_total] (the two calls of rust_value.rs into the
    type generator neither panic nor run out of fuel) is DERIVED from the class the typegen
    totality theorems (C10) are stated on; so are the two other hypotheses (ranked element
    edges, lexical names).  Result: [example_total_generable] / [example_total_wf], the
    unconditional form of C14_total. *)
From Coq Require Import List NArith ZArith Bool String Lia.
From V Require Import Base.Util Base.Strings Base.Result Model.Registry Model.Settings Model.Subst
  Model.TypePath Model.Derives Model.Generate Model.WellFormed Model.RngWords Model.ExampleRust
  Proofs.ResolveTotal Proofs.GenTotal Proofs.ExampleRustProofs.
Import ListNotations.

Lemma lookup_resolve r id t : lookup r id = Some t -> resolve r id = Some t.
Proof.
  unfold lookup. destruct (id <? N.of_nat (List.length r))%N; [auto|discriminate].
Qed.

Lemma lookup_in_reg r id t : lookup r id = Some t -> in_reg r id.
Proof.
  unfold lookup, in_reg. destruct (id <? N.of_nat (List.length r))%N eqn:E; [|discriminate].
  intros _. apply N.ltb_lt; exact E.
Qed.

(** ** the type generator is total on the entries of a generable registry *)
Lemma path_omit_generics_ok r s rank :
  resolvable r s rank -> forall id, in_reg r id -> exists toks, path_omit_generics r s id = Ok toks.
Proof.
  intros Hres id Hin.
  destruct (resolve_total r s rank Hres id Hin [] None false) as (t & Ht & toks & Htoks).
  unfold path_omit_generics, resolve_type_path. rewrite Ht. cbn [bind]. rewrite Htoks. cbn [bind].
  eexists; reflexivity.
Qed.

Lemma has_unused_type_params_ok r s rank :
  generable r s rank -> forall id t, resolve r id = Some t ->
  exists b, has_unused_type_params r s t = Ok b.
Proof.
  intros Hgen id t Ht.
  destruct (create_type_ir_total_pinned r s rank Hgen id t (mk_flat derives_empty []) Ht) as (o & Ho & _).
  unfold has_unused_type_params. rewrite Ho. cbn [bind]. eexists; reflexivity.
Qed.

Theorem tg_total_generable r s rank : generable r s rank -> tg_total r s.
Proof.
  intros Hgen id t Hl _. pose proof Hgen as (_ & Hres & _). split.
  - destruct (path_omit_generics_ok r s rank Hres id (lookup_in_reg r id t Hl)) as (toks & E).
    rewrite E. exact I.
  - destruct (has_unused_type_params_ok r s rank Hgen id t (lookup_resolve r id t Hl)) as (b & E).
    rewrite E. exact I.
Qed.

(** ** the element edges are ranked *)
Lemma elem_children_nonfield t c : In c (elem_children (t_def t)) -> In c (nonfield_ids t).
Proof.
  unfold nonfield_ids. intros H. apply in_or_app. right.
  destruct (t_def t); cbn [elem_children def_ids] in *; try exact H; destruct H.
Qed.

Theorem ranked_generable r s rank :
  generable r s rank -> ExampleRustProofs.ranked r rank.
Proof.
  intros (_ & (_ & (Hdec & Hbound) & _) & _) id t Hl. split.
  - pose proof (Hbound id (lookup_in_reg r id t Hl)). lia.
  - apply Forall_forall. intros c Hc.
    exact (Hdec id t c (lookup_resolve r id t Hl) (elem_children_nonfield t c Hc)).
Qed.

(** ** names are lexical identifiers *)
Lemma fields_okb_lex fs : fields_okb fs = true -> fields_lex fs.
Proof.
  unfold fields_okb, field_names_okb. intros H. apply andb_prop in H as [_ H].
  rewrite forallb_forall in H. intros f n Hf Hn. specialize (H f Hf). rewrite Hn in H.
  apply ident_okb_lexb; exact H.
Qed.

Theorem names_lex_generable r s rank : generable r s rank -> names_lex r.
Proof.
  intros (_ & _ & Hitem & _) id t Hl. specialize (Hitem id t (lookup_resolve r id t Hl)).
  unfold item_entryb in Hitem.
  destruct (t_def t) as [fs|vs| | | | | |] eqn:Hd; try exact I.
  - apply andb_prop in Hitem as [_ H]. cbn [def_fields_okb] in H. apply fields_okb_lex; exact H.
  - apply andb_prop in Hitem as [_ H]. cbn [def_fields_okb] in H. rewrite forallb_forall in H.
    intros v Hv. specialize (H v Hv). apply andb_prop in H as [H1 H2]. split.
    + apply ident_okb_lexb; exact H1.
    + apply fields_okb_lex; exact H2.
Qed.

(** ** C14_total *)
Theorem example_total_generable r s rank :
  generable r s rank ->
  forall id ws,
    match example_rust r s id ws with
    | XPanic _ => False
    | XErr XOutOfFuel => False
    | _ => True
    end.
Proof.
  intros Hgen. apply (example_total r s rank).
  - exact (ranked_generable r s rank Hgen).
  - exact (names_lex_generable r s rank Hgen).
  - exact (tg_total_generable r s rank Hgen).
Qed.

Theorem example_total_wf r s :
  wf_regb r = true -> supportedb r s = true ->
  forall id ws,
    match example_rust r s id ws with
    | XPanic _ => False
    | XErr XOutOfFuel => False
    | _ => True
    end.
Proof.
  intros Hw Hs. destruct (wf_generable r s Hw Hs) as (rank & Hgen).
  exact (example_total_generable r s rank Hgen).
Qed.

(** the hypotheses are satisfiable: the demo registry of Proofs/ExampleRustProofs.v (a struct
    recursive through a Vec field, a generic unit struct with an unused parameter, an enum, an
    array of tuples, an explicit compact field) is well-formed, and both an error and an [XOk]
    outcome occur on it *)
Example demo_wf : wf_regb demo_registry = true /\ supportedb demo_registry demo_settings = true.
Proof. vm_compute. split; reflexivity. Qed.

Lemma wf_hypotheses_satisfiable :
  exists (r : registry) (s : settings),
    wf_regb r = true /\ supportedb r s = true /\
    (exists id ws e, example_rust r s id ws = XErr e) /\
    (exists id ws t, example_rust r s id ws = XOk t).
Proof.
  exists demo_registry, demo_settings. destruct demo_wf as [H1 H2].
  split; [exact H1|]. split; [exact H2|]. split.
  - exists 0%N, [7; 8; 9]%N, (XRecursive 1). exact demo_recursive_is_error.
  - eexists 3%N, []%N, _. exact demo_marker.
Qed.
