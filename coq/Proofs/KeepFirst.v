(** C03: structure of the generation loop - keep the first entry of a path, compare every
    later one with it, fail with the duplicate-path error at the first comparison that
    says "different".  [comparisons] is read off the registry and the settings alone. *)
From Coq Require Import List NArith String Bool Lia.
From V Require Import Base.Util Base.Strings Base.Result Model.Registry Model.Settings Model.Subst
  Model.TypePath Model.Derives Model.Generate Model.Equal Model.Shape Proofs.GenProofs
  Proofs.FidelityBase Proofs.Fidelity Proofs.FidelityGen.
Import ListNotations.
Open Scope string_scope. Open Scope list_scope.

(** (id of the entry, id of the first earlier item-eligible entry with its path, path) *)
Definition cmp := (N * N * list string)%type.

Fixpoint cmps (s : settings) (pre l : registry) : list cmp :=
  match l with
  | [] => []
  | (id, X) :: l' =>
      (if item_eligible s X then
         match first_eligible pre s (t_path X) with
         | Some (id0, _) => [(id, id0, t_path X)]
         | None => []
         end
       else []) ++ cmps s (pre ++ [(id, X)]) l'
  end.

(** the comparisons the loop performs, in order *)
Definition comparisons (r : registry) (s : settings) : list cmp := cmps s [] r.

Fixpoint run_cmps (teq : N -> N -> result bool) (l : list cmp) : result unit :=
  match l with
  | [] => Ok tt
  | (id, id0, p) :: l' =>
      let* eq := teq id id0 in
      if eq then run_cmps teq l' else Err (EDuplicatePath (join "::" p))
  end.

Lemma find_app {A} (f : A -> bool) a b :
  find f (a ++ b) = match find f a with Some x => Some x | None => find f b end.
Proof. induction a as [|x a IH]; cbn [app find]; [reflexivity|]. destruct (f x); auto. Qed.

Lemma create_type_ir_not_cv r s t flat :
  is_composite_or_variant (t_def t) = false -> create_type_ir r s t flat = Ok None.
Proof. intros H. unfold create_type_ir. rewrite H. reflexivity. Qed.

Section Keep.
  Variable r : registry.
  Variable s : settings.
  Variable teq : N -> N -> result bool.
  Variable flat : flat_registry.

  (** "no other error": every item-eligible entry yields an IR and a lexical module path *)
  Definition all_ok (l : registry) : Prop :=
    forall id X, In (id, X) l -> item_eligible s X = true ->
      (exists ir, create_type_ir r s X flat = Ok (Some ir)) /\
      forallb ident_lexb (namespace (t_path X)) = true.

  Definition inv (pre : registry) (acc : items) : Prop :=
    forall p, option_map fst (items_get acc p) =
              option_map (fun e : N * ty => fst e) (first_eligible pre s p).

  Lemma first_eligible_snoc_skip pre id X p :
    item_eligible s X = false -> first_eligible (pre ++ [(id, X)]) s p = first_eligible pre s p.
  Proof.
    intros H. unfold first_eligible. rewrite find_app. cbn [find snd]. rewrite H, andb_false_r.
    destruct (find _ pre); reflexivity.
  Qed.

  Lemma first_eligible_snoc pre id X p :
    first_eligible (pre ++ [(id, X)]) s p =
    match first_eligible pre s p with
    | Some e => Some e
    | None => if path_eqb (t_path X) p && item_eligible s X then Some (id, X) else None
    end.
  Proof. unfold first_eligible. rewrite find_app. cbn [find snd]. reflexivity. Qed.

  Lemma gen_loop_cmps : forall l pre acc,
    inv pre acc -> all_ok l ->
    rmap (fun _ => tt) (gen_loop r s teq flat l acc) = run_cmps teq (cmps s pre l).
  Proof.
    induction l as [|[id X] l IH]; intros pre acc Hinv Hok; [reflexivity|].
    assert (Hok' : all_ok l) by (intros i Y Hin Hel; apply (Hok i Y); [right; assumption|assumption]).
    rewrite gen_loop_cons. cbn [cmps].
    destruct (item_eligible s X) eqn:He.
    - destruct (Hok id X (or_introl eq_refl) He) as ((ir & Hir) & Hlex).
      unfold item_eligible in He. apply andb_prop in He as [He Hns]. apply andb_prop in He as [Hcv Hsub].
      apply negb_true_iff in Hsub. rewrite Hsub.
      destruct (namespace (t_path X)) as [|n0 ns] eqn:Ns; [discriminate|].
      rewrite Hir. cbn [bind]. rewrite Hlex.
      assert (He : item_eligible s X = true)
        by (unfold item_eligible; rewrite Hcv, Hsub, Ns; reflexivity).
      pose proof (Hinv (t_path X)) as Hp.
      destruct (first_eligible pre s (t_path X)) as [[id0 X0]|] eqn:Hfirst.
      + destruct (items_get acc (t_path X)) as [[other ir']|]; [|discriminate].
        cbn in Hp. inversion Hp; subst other. cbn [app run_cmps].
        destruct (teq id id0) as [[|]|e|msg]; cbn [bind rmap]; try reflexivity.
        apply IH; [|assumption].
        intros p. rewrite first_eligible_snoc. rewrite Hinv.
        destruct (first_eligible pre s p) eqn:E; [reflexivity|].
        destruct (path_eqb (t_path X) p) eqn:Ep; [|reflexivity].
        apply path_eqb_eq in Ep; subst p. congruence.
      + destruct (items_get acc (t_path X)) as [[other ir']|] eqn:G; [discriminate|].
        cbn [app]. apply IH; [|assumption].
        intros p. rewrite first_eligible_snoc, items_get_insert_absent by assumption.
        rewrite He, andb_true_r.
        destruct (path_eqb (t_path X) p) eqn:Ep.
        * apply path_eqb_eq in Ep; subst p. rewrite Hfirst. reflexivity.
        * rewrite Hinv. destruct (first_eligible pre s p); reflexivity.
    - cbn [app].
      assert (Hinv' : inv (pre ++ [(id, X)]) acc)
        by (intros p; rewrite first_eligible_snoc_skip by assumption; apply Hinv).
      destruct (subs_contains (s_subs s) (t_path X)) eqn:Hsub; [apply IH; assumption|].
      destruct (namespace (t_path X)) as [|n0 ns] eqn:Ns; [apply IH; assumption|].
      assert (Hcv : is_composite_or_variant (t_def X) = false).
      { unfold item_eligible in He. rewrite Hsub, Ns in He. cbn [negb] in He.
        rewrite !andb_true_r in He. assumption. }
      rewrite (create_type_ir_not_cv r s X flat Hcv). cbn [bind]. apply IH; assumption.
  Qed.
End Keep.

(** the outcome of generation is the outcome of running the comparisons in order *)
Theorem generate_keep_first_or_error r s teq flat :
  sanity_pass r = Ok tt -> flatten (s_dreg s) r = Ok flat -> all_ok r s flat r ->
  rmap (fun _ => tt) (generate r s teq) = run_cmps teq (comparisons r s).
Proof.
  intros Hs Hf Hok. unfold generate. rewrite Hs, Hf. cbn [bind].
  apply gen_loop_cmps; [|assumption]. intros p. reflexivity.
Qed.

Lemma run_cmps_ok_iff teq l :
  run_cmps teq l = Ok tt <-> Forall (fun c : cmp => teq (fst (fst c)) (snd (fst c)) = Ok true) l.
Proof.
  induction l as [|[[id id0] p] l IH]; cbn [run_cmps]; [split; [constructor|reflexivity]|].
  split.
  - intros H. apply bind_ok in H as (eq & Heq & H). destruct eq; [|discriminate].
    constructor; [exact Heq|]. apply IH. assumption.
  - intros H. inversion H as [|c l' Hc Hl]; subst. cbn [fst snd] in Hc. rewrite Hc. cbn [bind].
    apply IH. assumption.
Qed.

Lemma run_cmps_dup teq c1 id id0 p c2 :
  Forall (fun c : cmp => teq (fst (fst c)) (snd (fst c)) = Ok true) c1 ->
  teq id id0 = Ok false ->
  run_cmps teq (c1 ++ (id, id0, p) :: c2) = Err (EDuplicatePath (join "::" p)).
Proof.
  induction 1 as [|[[i i0] q] c1 Hc _ IH]; intros Hf; cbn [app run_cmps].
  - rewrite Hf. reflexivity.
  - cbn [fst snd] in Hc. rewrite Hc. cbn [bind]. apply IH. assumption.
Qed.

Lemma rmap_ok_iff {A} (x : result A) : (exists a, x = Ok a) <-> rmap (fun _ => tt) x = Ok tt.
Proof.
  destruct x as [a|e|msg]; unfold rmap; cbn [bind]; split; intros H; try discriminate; eauto;
    destruct H as (a' & H); discriminate.
Qed.

Lemma rmap_err {A} (x : result A) e : x = Err e <-> rmap (fun _ => tt) x = Err e.
Proof.
  destruct x as [a|e0|msg]; unfold rmap; cbn [bind]; split; intros H; try discriminate; congruence.
Qed.

(** success iff every later member of a same-path family is judged equal to the first *)
Theorem generate_ok_iff r s teq flat :
  sanity_pass r = Ok tt -> flatten (s_dreg s) r = Ok flat -> all_ok r s flat r ->
  ((exists m, generate r s teq = Ok m) <->
   Forall (fun c : cmp => teq (fst (fst c)) (snd (fst c)) = Ok true) (comparisons r s)).
Proof.
  intros Hs Hf Hok. rewrite rmap_ok_iff, (generate_keep_first_or_error r s teq flat Hs Hf Hok).
  apply run_cmps_ok_iff.
Qed.

(** the duplicate-path error names the path of the first comparison that fails *)
Theorem generate_duplicate_path r s teq flat c1 id id0 p c2 :
  sanity_pass r = Ok tt -> flatten (s_dreg s) r = Ok flat -> all_ok r s flat r ->
  comparisons r s = c1 ++ (id, id0, p) :: c2 ->
  Forall (fun c : cmp => teq (fst (fst c)) (snd (fst c)) = Ok true) c1 ->
  teq id id0 = Ok false ->
  generate r s teq = Err (EDuplicatePath (join "::" p)).
Proof.
  intros Hs Hf Hok Hc H1 H2. apply rmap_err.
  rewrite (generate_keep_first_or_error r s teq flat Hs Hf Hok), Hc. apply run_cmps_dup; assumption.
Qed.
