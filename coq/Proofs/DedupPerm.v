(** C17, WP1b: the partition computed by [ensure_unique_type_paths] is invariant under a
    renumbering of the registry whenever [types_equal] is an equivalence relation on every
    same-path family ([teq_equiv_on_families], Model/DedupPerm.v).

    Structure:
    - [build_groups] succeeds under the hypothesis (every comparison it makes is inside a family);
    - two members of a family are in one group iff [types_equal] judges them equal
      ([same_group_iff_equal]): the groups are the equivalence classes, whatever the order;
    - a family is split into >= 2 groups iff it contains two members judged different;
    - both characterisations are transported along the renumbering by
      [types_equal_res_renumber] (Proofs/TeqEquivariance.v);
    - [ensure_unique] renames exactly the members of split families and gives two members of a
      family one path iff they are in one group ([ensure_unique_minimal],
      [ensure_unique_same_group_iff], Proofs/DedupGroups.v). *)
From Coq Require Import List NArith String Bool Lia Sorted Permutation Arith.
From V Require Import Base.Strings Base.Result Model.Registry Model.Derives Model.Equal
  Model.DedupSpec Model.Renumber Model.ExamplesTG Model.DedupPerm
  Proofs.GenProofs Proofs.DedupProofs Proofs.OrderFree Proofs.DedupGroups Proofs.RenumberPerm
  Proofs.RenumberList Proofs.TeqEquivariance.
Import ListNotations.
Open Scope list_scope.

(** ** list facts *)
Lemma in_two_split {A} (a b : A) l :
  In a l -> In b l ->
  a = b \/ (exists l1 l2, l = l1 ++ b :: l2 /\ In a l1) \/ (exists l1 l2, l = l1 ++ a :: l2 /\ In b l1).
Proof.
  induction l as [|x l IH]; intros Ha Hb; [destruct Ha|].
  destruct Ha as [<-|Ha], Hb as [<-|Hb].
  - left; reflexivity.
  - right; left. apply in_split in Hb as (l1 & l2 & ->).
    exists (x :: l1), l2. split; [reflexivity|left; reflexivity].
  - right; right. apply in_split in Ha as (l1 & l2 & ->).
    exists (x :: l1), l2. split; [reflexivity|left; reflexivity].
  - destruct (IH Ha Hb) as [E|[(l1 & l2 & -> & H)|(l1 & l2 & -> & H)]].
    + left; exact E.
    + right; left. exists (x :: l1), l2. split; [reflexivity|right; exact H].
    + right; right. exists (x :: l1), l2. split; [reflexivity|right; exact H].
Qed.

Lemma group_member_cases (g : list N) i : In i g -> i = group_first g \/ In i (tl g).
Proof. destruct g as [|x g]; [intros []|]. intros [<-|H]; [left; reflexivity|right; exact H]. Qed.

(** ** totality of the grouping loop *)
Lemma add_to_groups_total r i : forall gs,
  Forall (fun g => g <> []) gs ->
  (forall g, In g gs -> exists b, types_equal_res r i (group_first g) = Ok b) ->
  exists gs', add_to_groups r i gs = Ok gs'.
Proof.
  induction gs as [|g gs IH]; intros Hne Hcmp; cbn [add_to_groups]; [eexists; reflexivity|].
  inversion Hne as [|? ? Hg Hne']; subst.
  destruct g as [|other g']; [congruence|].
  destruct (Hcmp (other :: g') (or_introl eq_refl)) as (b & Hb). cbn [group_first hd] in Hb.
  rewrite Hb. cbn [bind]. destruct b; [eexists; reflexivity|].
  destruct (IH Hne') as (gs' & Hgs'). { intros g Hin. apply Hcmp. right; exact Hin. }
  rewrite Hgs'. cbn [bind]. eexists; reflexivity.
Qed.

Lemma groups_add_total r p i : forall m,
  (forall gs, In (p, gs) m ->
     Forall (fun g => g <> []) gs /\
     forall g, In g gs -> exists b, types_equal_res r i (group_first g) = Ok b) ->
  exists m', groups_add r m p i = Ok m'.
Proof.
  induction m as [|[k gs] m IH]; intros H; cbn [groups_add]; [eexists; reflexivity|].
  destruct (path_eqb k p) eqn:E.
  - apply path_eqb_eq in E. subst k.
    destruct (H gs (or_introl eq_refl)) as (Hne & Hcmp).
    destruct (add_to_groups_total r i gs Hne Hcmp) as (gs' & Hgs'). rewrite Hgs'. cbn [bind].
    eexists; reflexivity.
  - destruct IH as (m' & Hm'). { intros gs0 Hin. apply H. right; exact Hin. }
    rewrite Hm'. cbn [bind]. eexists; reflexivity.
Qed.

Lemma build_go_total r : teq_equiv_on_families r -> forall l idx m,
  (forall n, nth_error l n = nth_error r (N.to_nat idx + n)) ->
  map_ok r idx m -> exists m', build_go r idx l m = Ok m'.
Proof.
  intros Heq. induction l as [|[id t] l IH]; intros idx m Hl Hm; cbn [build_go]; [eexists; reflexivity|].
  assert (Hat : entry_at r idx (t_path t)).
  { exists (id, t). split; [|reflexivity].
    specialize (Hl O). rewrite Nat.add_0_r in Hl. rewrite <- Hl. reflexivity. }
  assert (Hl' : forall n, nth_error l n = nth_error r (N.to_nat (idx + 1) + n)).
  { intros n. specialize (Hl (S n)). cbn [nth_error] in Hl. rewrite Hl. f_equal. lia. }
  destruct (namespace (t_path t)) as [|n0 ns] eqn:Ens.
  - apply IH; [exact Hl'|]. apply map_ok_skip; [|exact Hm].
    intros p Hp. rewrite (entry_at_fun _ _ _ _ Hp Hat). exact Ens.
  - assert (Hns : namespace (t_path t) <> []) by (rewrite Ens; discriminate).
    destruct (groups_add_total r (t_path t) idx m) as (m1 & Hm1).
    { intros gs Hin. destruct Hm as (_ & H2 & _ & _ & H5 & _).
      rewrite Forall_forall in H2. destruct (H2 _ Hin) as (_ & G2 & _). cbn [snd] in G2.
      split; [exact G2|]. intros g Hg.
      assert (Hfirst : entry_at r (group_first g) (t_path t)).
      { apply (H5 (t_path t) gs g); [exact Hin|exact Hg|].
        apply group_first_in. rewrite Forall_forall in G2. apply G2; exact Hg. }
      exact (proj1 (Heq _ _ _ Hat Hfirst Hns)). }
    rewrite Hm1. cbn [bind]. apply IH; [exact Hl'|].
    eapply map_ok_add; [exact Hat|exact Hns|exact Hm|exact Hm1].
Qed.

Theorem build_groups_total r : teq_equiv_on_families r -> exists m, build_groups r = Ok m.
Proof.
  intros Heq. rewrite build_groups_unfold.
  apply build_go_total; [exact Heq| |apply map_ok_nil]. intros n. reflexivity.
Qed.

(** ** the groups are the equivalence classes *)
Section Classes.
  Variable r : registry.
  Variable m : groups.
  Hypothesis Hm : build_groups r = Ok m.
  Hypothesis Heq : teq_equiv_on_families r.

  Lemma member_equal_first p gs g i :
    In (p, gs) m -> In g gs -> In i g -> types_equal_res r i (group_first g) = Ok true.
  Proof.
    intros Hin Hg Hi. destruct (dedup_groups _ _ Hm) as (_ & _ & _ & _ & _ & H6 & _).
    destruct (group_member_cases g i Hi) as [->|Ht]; [apply types_equal_res_refl|].
    exact (H6 p gs g i Hin Hg Ht).
  Qed.

  Lemma first_entry_at p gs g : In (p, gs) m -> In g gs -> entry_at r (group_first g) p.
  Proof.
    intros Hin Hg. destruct (dedup_groups _ _ Hm) as (_ & H2 & _ & _ & H5 & _).
    destruct (H2 p gs Hin) as (_ & Hne). rewrite Forall_forall in Hne.
    apply (H5 p gs g); [exact Hin|exact Hg|]. apply group_first_in. apply Hne; exact Hg.
  Qed.

  Lemma in_map_namespaced p gs : In (p, gs) m -> namespace p <> [].
  Proof.
    intros Hin. destruct (dedup_groups _ _ Hm) as (_ & H2 & _ & H4 & H5 & _).
    destruct (H2 p gs Hin) as (Hgs & Hne). destruct gs as [|g gs']; [congruence|].
    inversion Hne as [|? ? Hg _]; subst.
    assert (Hi : In (group_first g) (all_members m)).
    { apply in_all_members. exists p, (g :: gs'), g. split; [exact Hin|]. split; [left; reflexivity|].
      apply group_first_in; exact Hg. }
    apply H4 in Hi as (q & Hq & Hn).
    assert (Hp : entry_at r (group_first g) p).
    { apply (H5 p (g :: gs') g); [exact Hin|left; reflexivity|apply group_first_in; exact Hg]. }
    rewrite (entry_at_fun _ _ _ _ Hp Hq). exact Hn.
  Qed.

  Theorem same_group_iff_equal p gs i j :
    In (p, gs) m -> entry_at r i p -> entry_at r j p ->
    ((exists g, In g gs /\ In i g /\ In j g) <-> types_equal_res r i j = Ok true).
  Proof.
    intros Hin Hi Hj. pose proof (in_map_namespaced p gs Hin) as Hns.
    destruct (dedup_groups _ _ Hm) as (H1 & _ & _ & _ & H5 & _ & H7 & _).
    split.
    - intros (g & Hg & Hig & Hjg).
      pose proof (first_entry_at p gs g Hin Hg) as Hf.
      pose proof (member_equal_first p gs g i Hin Hg Hig) as Ei.
      pose proof (member_equal_first p gs g j Hin Hg Hjg) as Ej.
      destruct (Heq p j (group_first g) Hj Hf Hns) as (_ & Hsym & _).
      destruct (Heq p i (group_first g) Hi Hf Hns) as (_ & _ & Htr).
      apply (Htr j Hj Ei). apply Hsym. exact Ej.
    - intros E.
      destruct (dedup_member _ _ i p Hm Hi Hns) as (gsi & gi & Hini & Hgi & Higi).
      destruct (dedup_member _ _ j p Hm Hj Hns) as (gsj & gj & Hinj & Hgj & Hjgj).
      assert (gsi = gs) by (eapply groups_functional; eassumption).
      assert (gsj = gs) by (eapply groups_functional; eassumption). subst gsi gsj.
      destruct (in_two_split gi gj gs Hgi Hgj) as [->|[(l1 & l2 & Egs & Hb)|(l1 & l2 & Egs & Hb)]].
      + exists gj. auto.
      + (* gi before gj: j is different from the first of gi *)
        exfalso.
        pose proof (H7 p gs l1 gj l2 gi j Hin Egs Hb Hjgj) as Ef.
        pose proof (first_entry_at p gs gi Hin Hgi) as Hf.
        pose proof (member_equal_first p gs gi i Hin Hgi Higi) as Ei.
        destruct (Heq p i j Hi Hj Hns) as (_ & Hsym & _).
        destruct (Heq p j i Hj Hi Hns) as (_ & _ & Htr).
        rewrite (Htr (group_first gi) Hf (Hsym E) Ei) in Ef. discriminate.
      + exfalso.
        pose proof (H7 p gs l1 gi l2 gj i Hin Egs Hb Higi) as Ef.
        pose proof (first_entry_at p gs gj Hin Hgj) as Hf.
        pose proof (member_equal_first p gs gj j Hin Hgj Hjgj) as Ej.
        destruct (Heq p i j Hi Hj Hns) as (_ & _ & Htr).
        rewrite (Htr (group_first gj) Hf E Ej) in Ef. discriminate.
  Qed.

  Theorem split_iff_fam_split p gs :
    In (p, gs) m -> ((2 <= List.length gs)%nat <-> fam_split r p).
  Proof.
    intros Hin. pose proof (in_map_namespaced p gs Hin) as Hns.
    rewrite (dedup_split_iff r m p gs Hm Hin).
    destruct (dedup_groups _ _ Hm) as (_ & H2 & _).
    destruct (H2 p gs Hin) as (Hgs & _).
    assert (Hf : entry_at r (group_first (hd [] gs)) p).
    { destruct gs as [|g gs']; [congruence|]. apply (first_entry_at p (g :: gs') g Hin). left; reflexivity. }
    split.
    - intros (j & Hj & E). exists j, (group_first (hd [] gs)). auto.
    - intros (j & k & Hj & Hk & E).
      destruct (Heq p j _ Hj Hf Hns) as ((bj & Ej) & _ & Htr).
      destruct bj; [|exists j; auto].
      destruct (Heq p k _ Hk Hf Hns) as ((bk & Ek) & Hsym & _).
      destruct bk; [|exists k; auto].
      rewrite (Htr k Hk Ej (Hsym Ek)) in E. discriminate.
  Qed.
End Classes.

(** ** transport along a renumbering *)
Section Transport.
  Variable pi : N -> N.
  Variable r : registry.
  Hypothesis Hpi : renumbering (N.of_nat (List.length r)) pi.
  Let r' := renumber pi r.

  Lemma entry_at_renumber i p : entry_at r' (pi i) p <-> entry_at r i p.
  Proof.
    pose proof Hpi as (Hinj & Hrng & Hsur). split.
    - intros H. pose proof (entry_at_bound _ _ _ H) as Hb. unfold r' in Hb. rewrite renumber_length in Hb.
      apply Hrng in Hb.
      destruct (nth_error r (N.to_nat i)) as [e|] eqn:E.
      + pose proof (nth_error_renumber pi r i e Hpi E) as E'.
        destruct H as (e' & He' & Hp). unfold r' in He'. rewrite E' in He'. inversion He'; subst e'.
        exists e. split; [exact E|exact Hp].
      + apply nth_error_None in E. lia.
    - intros (e & He & Hp). exists (rename_entry pi e). split; [|exact Hp].
      apply nth_error_renumber; assumption.
  Qed.

  Lemma entry_at_renumber_inv i' p :
    entry_at r' i' p -> exists i, i' = pi i /\ entry_at r i p.
  Proof.
    intros H. pose proof (entry_at_bound _ _ _ H) as Hb. unfold r' in Hb. rewrite renumber_length in Hb.
    destruct Hpi as (_ & _ & Hsur). destruct (Hsur i' Hb) as (i & <-).
    exists i. split; [reflexivity|]. apply entry_at_renumber. exact H.
  Qed.

  Theorem teq_equiv_renumber : teq_equiv_on_families r -> teq_equiv_on_families r'.
  Proof.
    intros Heq p i' j' Hi' Hj' Hns.
    destruct (entry_at_renumber_inv _ _ Hi') as (i & -> & Hi).
    destruct (entry_at_renumber_inv _ _ Hj') as (j & -> & Hj).
    unfold r'. rewrite !(types_equal_res_renumber pi r Hpi).
    destruct (Heq p i j Hi Hj Hns) as (H1 & H2 & H3).
    split; [exact H1|]. split; [exact H2|].
    intros k' Hk'. destruct (entry_at_renumber_inv _ _ Hk') as (k & -> & Hk).
    rewrite !(types_equal_res_renumber pi r Hpi). apply H3. exact Hk.
  Qed.

  Lemma fam_split_renumber p : fam_split r' p <-> fam_split r p.
  Proof.
    split.
    - intros (j' & k' & Hj' & Hk' & E).
      destruct (entry_at_renumber_inv _ _ Hj') as (j & -> & Hj).
      destruct (entry_at_renumber_inv _ _ Hk') as (k & -> & Hk).
      unfold r' in E. rewrite (types_equal_res_renumber pi r Hpi) in E. exists j, k. auto.
    - intros (j & k & Hj & Hk & E). exists (pi j), (pi k).
      split; [apply entry_at_renumber; exact Hj|]. split; [apply entry_at_renumber; exact Hk|].
      unfold r'. rewrite (types_equal_res_renumber pi r Hpi). exact E.
  Qed.

  Lemma ids_consistent_renumber_inv : ids_consistent r' = true -> ids_consistent r = true.
  Proof.
    intros Hc. rewrite ids_consistent_iff in Hc. apply ids_consistent_iff. intros i e He.
    assert (He' : nth_error r (N.to_nat (N.of_nat i)) = Some e) by (rewrite Nat2N.id; exact He).
    pose proof (nth_error_renumber pi r (N.of_nat i) e Hpi He') as E'.
    pose proof (Hc _ _ E') as Hf. unfold rename_entry in Hf. cbn [fst] in Hf.
    rewrite N2Nat.id in Hf. apply (proj1 Hpi). exact Hf.
  Qed.
End Transport.

(** ** outcome of [ensure_unique] under the hypothesis *)
Lemma ensure_unique_outcome r :
  teq_equiv_on_families r ->
  (ids_consistent r = true /\ exists r1, ensure_unique r = Ok r1) \/
  (ids_consistent r = false /\ exists g e, ensure_unique r = Err (EIdsInvalid g e)).
Proof.
  intros Heq. destruct (first_bad r) as [[g e]|] eqn:Fb.
  - right. split.
    + destruct (ids_consistent r) eqn:E; [|reflexivity].
      apply first_bad_none_iff in E. congruence.
    + exists g, e. apply ensure_unique_ids_invalid. exact Fb.
  - left. split; [apply first_bad_none_iff; exact Fb|].
    destruct (build_groups_total r Heq) as (m & Hm).
    rewrite ensure_unique_unfold, dedup_sanity_spec, Fb. cbn [bind]. rewrite Hm. cbn [bind].
    eexists; reflexivity.
Qed.

(** ** the three clauses *)
Section Main.
  Variable pi : N -> N.
  Variable r : registry.
  Hypothesis Hpi : renumbering (N.of_nat (List.length r)) pi.
  Hypothesis Heq : teq_equiv_on_families r.
  Let r' := renumber pi r.

  (** clause 1: same outcome kind *)
  Theorem dedup_same_outcome :
    (exists r1 r2, ensure_unique r = Ok r1 /\ ensure_unique r' = Ok r2) \/
    (exists g e g' e', ensure_unique r = Err (EIdsInvalid g e) /\
                       ensure_unique r' = Err (EIdsInvalid g' e')).
  Proof.
    pose proof (teq_equiv_renumber pi r Hpi Heq) as Heq'. fold r' in Heq'.
    destruct (ensure_unique_outcome r Heq) as [(Hc & r1 & H1)|(Hc & g & e & H1)];
      destruct (ensure_unique_outcome r' Heq') as [(Hc' & r2 & H2)|(Hc' & g' & e' & H2)].
    - left. eauto.
    - pose proof (renumber_ids_consistent pi r Hpi Hc) as X. fold r' in X. congruence.
    - pose proof (ids_consistent_renumber_inv pi r Hpi Hc') as X. congruence.
    - right. exists g, e, g', e'. auto.
  Qed.

  Variables r1 r2 : registry.
  Hypothesis H1 : ensure_unique r = Ok r1.
  Hypothesis H2 : ensure_unique r' = Ok r2.

  (** clause 2: renamed iff renamed *)
  Theorem dedup_renamed_iff i e e1 e2 :
    nth_error r (N.to_nat i) = Some e ->
    nth_error r1 (N.to_nat i) = Some e1 ->
    nth_error r2 (N.to_nat (pi i)) = Some e2 ->
    (t_path (snd e1) <> t_path (snd e) <-> t_path (snd e2) <> t_path (snd e)).
  Proof.
    intros He He1 He2.
    pose proof (teq_equiv_renumber pi r Hpi Heq) as Heq'. fold r' in Heq'.
    destruct (ensure_unique_minimal r r1 H1) as (m & Hm & Hmin).
    destruct (ensure_unique_minimal r' r2 H2) as (m' & Hm' & Hmin').
    pose proof (nth_error_renumber pi r i e Hpi He) as He'. fold r' in He'.
    rewrite (Hmin _ _ _ He He1).
    pose proof (Hmin' _ _ _ He' He2) as X. unfold rename_entry in X. cbn [snd] in X.
    change (t_path (rename_ty pi (snd e))) with (t_path (snd e)) in X. rewrite X. clear X.
    assert (Hat : entry_at r i (t_path (snd e))) by (exists e; auto).
    assert (Hat' : entry_at r' (pi i) (t_path (snd e))) by (apply entry_at_renumber; assumption).
    split; intros (Hns & gs & Hin & Hlen); (split; [exact Hns|]).
    - destruct (dedup_member _ _ _ _ Hm' Hat' Hns) as (gs' & g' & Hin' & _).
      exists gs'. split; [exact Hin'|].
      apply (split_iff_fam_split r' m' Hm' Heq' _ _ Hin'). apply fam_split_renumber; [exact Hpi|].
      apply (split_iff_fam_split r m Hm Heq _ _ Hin). exact Hlen.
    - destruct (dedup_member _ _ _ _ Hm Hat Hns) as (gs0 & g0 & Hin0 & _).
      exists gs0. split; [exact Hin0|].
      apply (split_iff_fam_split r m Hm Heq _ _ Hin0). apply (fam_split_renumber pi r Hpi).
      apply (split_iff_fam_split r' m' Hm' Heq' _ _ Hin). exact Hlen.
  Qed.

  (** clause 3: same partition of every family (entries with one original path) *)
  Theorem dedup_same_partition i j ei ej ei1 ej1 ei2 ej2 :
    nth_error r (N.to_nat i) = Some ei -> nth_error r (N.to_nat j) = Some ej ->
    nth_error r1 (N.to_nat i) = Some ei1 -> nth_error r1 (N.to_nat j) = Some ej1 ->
    nth_error r2 (N.to_nat (pi i)) = Some ei2 -> nth_error r2 (N.to_nat (pi j)) = Some ej2 ->
    t_path (snd ei) = t_path (snd ej) ->
    (t_path (snd ei1) = t_path (snd ej1) <-> t_path (snd ei2) = t_path (snd ej2)).
  Proof.
    intros Hei Hej Hei1 Hej1 Hei2 Hej2 Hp.
    pose proof (teq_equiv_renumber pi r Hpi Heq) as Heq'. fold r' in Heq'.
    pose proof (nth_error_renumber pi r i ei Hpi Hei) as Hei'. fold r' in Hei'.
    pose proof (nth_error_renumber pi r j ej Hpi Hej) as Hej'. fold r' in Hej'.
    assert (Hati : entry_at r i (t_path (snd ei))) by (exists ei; auto).
    assert (Hatj : entry_at r j (t_path (snd ei))) by (exists ej; auto).
    assert (Hati' : entry_at r' (pi i) (t_path (snd ei))) by (apply entry_at_renumber; assumption).
    assert (Hatj' : entry_at r' (pi j) (t_path (snd ei))) by (apply entry_at_renumber; assumption).
    destruct (namespace (t_path (snd ei))) as [|n0 ns] eqn:Ens.
    - (* no namespace: nothing is renamed on either side *)
      destruct (ensure_unique_path r r1 H1) as (m & _ & Hc).
      destruct (ensure_unique_path r' r2 H2) as (m' & _ & Hc').
      assert (U : forall n e e', nth_error r n = Some e -> nth_error r1 n = Some e' ->
                                 namespace (t_path (snd e)) = [] -> t_path (snd e') = t_path (snd e)).
      { intros n e e' A B C. destruct (Hc n e e' A B) as [[_ X]|[X _]]; [exact X|congruence]. }
      assert (U' : forall n e e', nth_error r' n = Some e -> nth_error r2 n = Some e' ->
                                  namespace (t_path (snd e)) = [] -> t_path (snd e') = t_path (snd e)).
      { intros n e e' A B C. destruct (Hc' n e e' A B) as [[_ X]|[X _]]; [exact X|congruence]. }
      rewrite (U _ _ _ Hei Hei1 Ens), (U _ _ _ Hej Hej1) by (rewrite <- Hp; exact Ens).
      rewrite (U' _ _ _ Hei' Hei2 Ens), (U' _ _ _ Hej' Hej2) by (cbn; rewrite <- Hp; exact Ens).
      cbn. tauto.
    - assert (Hns : namespace (t_path (snd ei)) <> []) by (rewrite Ens; discriminate).
      destruct (ensure_unique_same_group_iff r r1 H1) as (m & Hm & Hsg).
      destruct (ensure_unique_same_group_iff r' r2 H2) as (m' & Hm' & Hsg').
      rewrite (Hsg _ _ _ _ _ _ Hei Hej Hei1 Hej1 Hp Hns).
      assert (Hp' : t_path (snd (rename_entry pi ei)) = t_path (snd (rename_entry pi ej))) by exact Hp.
      rewrite (Hsg' _ _ _ _ _ _ Hei' Hej' Hei2 Hej2 Hp' Hns).
      rewrite !N2Nat.id. change (t_path (snd (rename_entry pi ei))) with (t_path (snd ei)).
      destruct (dedup_member _ _ _ _ Hm Hati Hns) as (gs0 & g0 & Hin0 & _).
      destruct (dedup_member _ _ _ _ Hm' Hati' Hns) as (gs0' & g0' & Hin0' & _).
      transitivity (types_equal_res r i j = Ok true).
      + split.
        * intros (gs & g & Hin & Hg & Hig & Hjg).
          apply (same_group_iff_equal r m Hm Heq _ gs i j Hin Hati Hatj). exists g. auto.
        * intros E. exists gs0.
          destruct (proj2 (same_group_iff_equal r m Hm Heq _ gs0 i j Hin0 Hati Hatj) E) as (g & Hg & Hig & Hjg).
          exists g. auto.
      + rewrite <- (types_equal_res_renumber pi r Hpi i j). fold r'. split.
        * intros E. exists gs0'.
          destruct (proj2 (same_group_iff_equal r' m' Hm' Heq' _ gs0' _ _ Hin0' Hati' Hatj') E) as (g & Hg & Hig & Hjg).
          exists g. auto.
        * intros (gs & g & Hin & Hg & Hig & Hjg).
          apply (same_group_iff_equal r' m' Hm' Heq' _ gs _ _ Hin Hati' Hatj'). exists g. auto.
  Qed.
End Main.

(** ** soundness of the boolean hypothesis *)
Lemma in_combine_seqN {A} (l : list A) : forall k i x,
  nth_error l i = Some x -> In (N.of_nat (k + i), x) (combine (map N.of_nat (seq k (List.length l))) l).
Proof.
  induction l as [|a l IH]; intros k i x H; [destruct i; discriminate|].
  cbn [List.length seq map combine]. destruct i as [|i].
  - inversion H; subst. left. rewrite Nat.add_0_r. reflexivity.
  - right. replace (k + S i)%nat with (S k + i)%nat by lia. apply IH. exact H.
Qed.

Lemma in_fam_positions r i p :
  entry_at r i p -> namespace p <> [] -> In (i, p) (fam_positions r).
Proof.
  intros (e & He & Hp) Hns. unfold fam_positions. apply filter_In. split.
  - unfold seqN.
    assert (L : List.length r = List.length (map (fun e0 : N * ty => t_path (snd e0)) r))
      by (rewrite map_length; reflexivity).
    rewrite L.
    replace i with (N.of_nat (0 + N.to_nat i)) by lia.
    apply in_combine_seqN. rewrite nth_error_map, He. cbn [option_map]. rewrite Hp. reflexivity.
  - cbn [snd]. destruct (namespace p); [congruence|reflexivity].
Qed.

Lemma is_ok_true_eq x : is_ok_true x = true <-> x = Ok true.
Proof. destruct x as [[|]| |]; cbn; split; congruence. Qed.

Theorem teq_equiv_on_familiesb_sound r :
  teq_equiv_on_familiesb r = true -> teq_equiv_on_families r.
Proof.
  unfold teq_equiv_on_familiesb. intros H p i j Hi Hj Hns.
  rewrite forallb_forall in H. pose proof (H _ (in_fam_positions r i p Hi Hns)) as Hij.
  rewrite forallb_forall in Hij. specialize (Hij _ (in_fam_positions r j p Hj Hns)).
  cbn [fst snd] in Hij. rewrite path_eqb_refl in Hij.
  destruct (types_equal_res r i j) as [[|]|e|msg] eqn:E; try discriminate.
  - apply andb_prop in Hij as [Hs Ht]. split; [eauto|]. split.
    + intros _. apply is_ok_true_eq. exact Hs.
    + intros k Hk _ Ejk. rewrite forallb_forall in Ht.
      specialize (Ht _ (in_fam_positions r k p Hk Hns)). cbn [fst snd] in Ht.
      rewrite path_eqb_refl in Ht. rewrite Ejk in Ht. cbn [is_ok_true implb] in Ht.
      apply is_ok_true_eq. exact Ht.
  - split; [eauto|]. split; intros; discriminate.
Qed.

(** ** the pinned form *)
Theorem dedup_partition_invariant pi r :
  renumbering (N.of_nat (List.length r)) pi ->
  teq_equiv_on_familiesb r = true ->
  (* the hypothesis carries over to the renumbered registry *)
  teq_equiv_on_families (renumber pi r) /\
  (* same outcome kind *)
  ((exists r1 r2, ensure_unique r = Ok r1 /\ ensure_unique (renumber pi r) = Ok r2) \/
   (exists g e g' e', ensure_unique r = Err (EIdsInvalid g e) /\
                      ensure_unique (renumber pi r) = Err (EIdsInvalid g' e'))) /\
  forall r1 r2, ensure_unique r = Ok r1 -> ensure_unique (renumber pi r) = Ok r2 ->
    forall i ei ei1 ei2,
      nth_error r (N.to_nat i) = Some ei ->
      nth_error r1 (N.to_nat i) = Some ei1 ->
      nth_error r2 (N.to_nat (pi i)) = Some ei2 ->
      (* renamed iff renamed *)
      (t_path (snd ei1) <> t_path (snd ei) <-> t_path (snd ei2) <> t_path (snd ei)) /\
      (* same partition of every family *)
      forall j ej ej1 ej2,
        nth_error r (N.to_nat j) = Some ej ->
        nth_error r1 (N.to_nat j) = Some ej1 ->
        nth_error r2 (N.to_nat (pi j)) = Some ej2 ->
        t_path (snd ei) = t_path (snd ej) ->
        (t_path (snd ei1) = t_path (snd ej1) <-> t_path (snd ei2) = t_path (snd ej2)).
Proof.
  intros Hpi Hb. pose proof (teq_equiv_on_familiesb_sound r Hb) as Heq.
  split; [apply teq_equiv_renumber; assumption|].
  split; [apply dedup_same_outcome; assumption|].
  intros r1 r2 H1 H2 i ei ei1 ei2 Hei Hei1 Hei2. split.
  - eapply dedup_renamed_iff; eassumption.
  - intros j ej ej1 ej2 Hej Hej1 Hej2 Hp.
    eapply (dedup_same_partition pi r Hpi Heq r1 r2 H1 H2 i j); eassumption.
Qed.

(** ** examples *)
Example dedup_perm_renumbering : renumbering (N.of_nat (List.length dedup_example_reg)) dedup_perm.
Proof. exact (renumbering_of_list dedup_perm_list eq_refl). Qed.

(** non-vacuity: the family a::Foo of [dedup_example_reg] is split into {0, 3} and {2}; the
    hypothesis holds; under the renumbering the SAME entries are renamed and the same pairs share
    a path, while the digits are exchanged (Foo1 / Foo2): the digit is not invariant *)
Example dedup_partition_example :
  exists pi r,
    renumbering (N.of_nat (List.length r)) pi /\ teq_equiv_on_familiesb r = true /\
    (exists i, pi i <> i) /\
    new_paths r =
      Ok [["a"; "Foo1"]; ["b"; "Bar"]; ["a"; "Foo2"]; ["a"; "Foo1"]; ["Foo"]; []; []]%string /\
    new_paths (renumber pi r) =
      Ok [["a"; "Foo1"]; ["b"; "Bar"]; ["a"; "Foo2"]; ["a"; "Foo2"]; ["Foo"]; []; []]%string.
Proof.
  exists dedup_perm, dedup_example_reg.
  split; [exact dedup_perm_renumbering|]. split; [vm_compute; reflexivity|].
  split; [exists 0%N; vm_compute; discriminate|]. split; vm_compute; reflexivity.
Qed.

Example f3_split_perm_renumbering : renumbering (N.of_nat (List.length f3_split_reg)) f3_split_perm.
Proof. exact (renumbering_of_list f3_split_perm_list eq_refl). Qed.

(** the hypothesis is needed: on the F3 witness (not transitive) the pass splits the family in the
    original order (a::F1, a::F1, a::F2) and leaves it alone when the instantiation at u16 comes
    first - renamed in one registry, not renamed in the other *)
Example dedup_hypothesis_needed :
  exists pi r,
    renumbering (N.of_nat (List.length r)) pi /\ teq_equiv_on_familiesb r = false /\
    types_equal_res r 0 3 = Ok true /\ types_equal_res r 3 4 = Ok true /\
    types_equal_res r 0 4 = Ok false /\
    new_paths r = Ok [["a"; "F1"]; []; []; ["a"; "F1"]; ["a"; "F2"]]%string /\
    new_paths (renumber pi r) = Ok [["a"; "F"]; []; []; ["a"; "F"]; ["a"; "F"]]%string.
Proof.
  exists f3_split_perm, f3_split_reg.
  split; [exact f3_split_perm_renumbering|]. repeat split; vm_compute; reflexivity.
Qed.
