(** The concrete little-endian / compact instance of Model/CodecInstance.v satisfies the
    hypotheses [prims_ok] and [prims_mono] that the codec theorems quantify over: the
    hypotheses are satisfiable. *)
From Coq Require Import List NArith String Bool Lia.
From V Require Import Base.Strings Model.Registry Model.Settings Model.Shape Model.Codec
  Model.CodecInstance.
Import ListNotations.
Open Scope list_scope. Open Scope N_scope.

Lemma le_dec_S k x b' :
  le_dec (S k) (x :: b') =
  if x <? 256 then
    match le_dec k b' with Some (v, r) => Some (x + 256 * v, r) | None => None end
  else None.
Proof. reflexivity. Qed.

Lemma le_enc_S k v :
  le_enc (S k) v =
  match le_enc k (v / 256) with Some bs => Some (v mod 256 :: bs) | None => None end.
Proof. reflexivity. Qed.

Lemma le_rt k : rt (le_dec k) (le_enc k).
Proof.
  induction k as [|k IH]; intros b v rest H.
  - inversion H; subst. exists []. split; reflexivity.
  - destruct b as [|x b']; [discriminate|]. rewrite le_dec_S in H.
    destruct (N.ltb_spec x 256) as [Hx|Hx]; [|discriminate].
    destruct (le_dec k b') as [[v' r]|] eqn:E; [|discriminate].
    remember (x + 256 * v') as w eqn:Hw. injection H as Hv Hr. subst v rest.
    destruct (IH _ _ _ E) as (bs & Hs & Hb). rewrite le_enc_S.
    rewrite <- (N.div_unique w 256 v' x) by lia.
    rewrite <- (N.mod_unique w 256 v' x) by lia.
    rewrite Hs. exists (x :: bs). split; [reflexivity|]. cbn [app]. rewrite Hb. reflexivity.
Qed.

Lemma le_dec_bound : forall k b v r, le_dec k b = Some (v, r) -> v < 256 ^ N.of_nat k.
Proof.
  induction k as [|k IH]; intros b v r H.
  - inversion H; subst. cbn. lia.
  - destruct b as [|x b']; [discriminate|]. rewrite le_dec_S in H.
    destruct (N.ltb_spec x 256) as [Hx|Hx]; [|discriminate].
    destruct (le_dec k b') as [[v' r']|] eqn:E; [|discriminate].
    remember (x + 256 * v') as w eqn:Hw. injection H as Hv Hr. subst v r.
    specialize (IH _ _ _ E). rewrite Nat2N.inj_succ, N.pow_succ_r'.
    remember (256 ^ N.of_nat k) as M. lia.
Qed.

Lemma i_prim_rt p : rt (i_pdec p) (i_penc p).
Proof.
  intros b v rest H. unfold i_pdec in H. unfold i_penc.
  destruct (prim_width p) as [k|]; [|discriminate].
  destruct (le_dec k b) as [[w r]|] eqn:E; [|discriminate].
  pose proof (le_rt k _ _ _ E) as Hle.
  destruct p; try (inversion H; subst; exact Hle).
  destruct (w <? 2) eqn:Ew; [|discriminate]. inversion H; subst. rewrite Ew. exact Hle.
Qed.

Lemma div4_mod4 w m : w mod 4 = m -> w = 4 * (w / 4) + m.
Proof. intros <-. apply N.div_mod. lia. Qed.

Lemma compact_rt : rt compact_dec compact_enc.
Proof.
  intros b v rest H. unfold compact_dec in H.
  destruct (le_dec 1 b) as [[w1 r1]|] eqn:E1; [|discriminate].
  destruct (w1 mod 4 =? 0) eqn:M0.
  - inversion H; subst. apply N.eqb_eq in M0.
    pose proof (le_dec_bound 1 _ _ _ E1) as B. change (256 ^ N.of_nat 1) with 256 in B.
    pose proof (div4_mod4 _ _ M0) as D. remember (w1 / 4) as q.
    unfold compact_enc. destruct (N.ltb_spec q 64); [|lia].
    replace (4 * q) with w1 by lia. exact (le_rt 1 _ _ _ E1).
  - destruct (w1 mod 4 =? 1).
    + destruct (le_dec 2 b) as [[w2 r2]|] eqn:E2; [|discriminate].
      destruct ((w2 mod 4 =? 1) && (64 <=? w2 / 4)) eqn:C; [|discriminate].
      inversion H; subst. apply andb_prop in C as [C1 C2].
      apply N.eqb_eq in C1. apply N.leb_le in C2.
      pose proof (le_dec_bound 2 _ _ _ E2) as B. change (256 ^ N.of_nat 2) with 65536 in B.
      pose proof (div4_mod4 _ _ C1) as D. remember (w2 / 4) as q.
      unfold compact_enc. destruct (N.ltb_spec q 64); [lia|].
      destruct (N.ltb_spec q 16384); [|lia].
      replace (4 * q + 1) with w2 by lia. exact (le_rt 2 _ _ _ E2).
    + destruct (w1 mod 4 =? 2); [|discriminate].
      destruct (le_dec 4 b) as [[w4 r4]|] eqn:E4; [|discriminate].
      destruct ((w4 mod 4 =? 2) && (16384 <=? w4 / 4)) eqn:C; [|discriminate].
      inversion H; subst. apply andb_prop in C as [C1 C2].
      apply N.eqb_eq in C1. apply N.leb_le in C2.
      pose proof (le_dec_bound 4 _ _ _ E4) as B. change (256 ^ N.of_nat 4) with 4294967296 in B.
      pose proof (div4_mod4 _ _ C1) as D. remember (w4 / 4) as q.
      unfold compact_enc. destruct (N.ltb_spec q 64); [lia|].
      destruct (N.ltb_spec q 16384); [lia|].
      destruct (N.ltb_spec q 1073741824); [|lia].
      replace (4 * q + 2) with w4 by lia. exact (le_rt 4 _ _ _ E4).
Qed.

Lemma i_compact_rt p : rt (i_cdec p) (i_cenc p).
Proof.
  intros b v rest H. unfold i_cdec in H. unfold i_cenc.
  destruct (compact_bound p) as [bound|]; [|discriminate].
  destruct (compact_dec b) as [[w r]|] eqn:E; [|discriminate].
  destruct (w <? bound) eqn:Ew; [|discriminate]. inversion H; subst. rewrite Ew.
  exact (compact_rt _ _ _ E).
Qed.

Lemma take_bytes_spec : forall k b l r,
  take_bytes k b = Some (l, r) -> l ++ r = b /\ List.length l = k.
Proof.
  induction k as [|k IH]; intros b l r H; cbn [take_bytes] in H.
  - inversion H; subst. split; reflexivity.
  - destruct b as [|x b']; [discriminate|].
    destruct (take_bytes k b') as [[l' r']|] eqn:E; [|discriminate]. inversion H; subst.
    destruct (IH _ _ _ E) as [Ha Hl]. cbn [app List.length]. rewrite Ha, Hl. split; reflexivity.
Qed.

Lemma i_bits_rt st or : rt (i_bdec st or) (i_benc st or).
Proof.
  intros b v rest H. unfold i_bdec in H. unfold i_benc.
  destruct st as [p| | | | | | | | |]; try discriminate. destruct p; try discriminate.
  destruct (i_cdec PU32 b) as [[n r]|] eqn:Ec; [|discriminate].
  destruct (take_bytes (N.to_nat ((n + 7) / 8)) r) as [[l r']|] eqn:Et; [|discriminate].
  inversion H; subst. cbn [fst snd].
  destruct (take_bytes_spec _ _ _ _ Et) as [Ha Hl].
  rewrite Hl, N2Nat.id, N.eqb_refl.
  destruct (i_compact_rt PU32 _ _ _ Ec) as (bs & Hs & Hb). rewrite Hs.
  exists (bs ++ l). split; [reflexivity|]. rewrite <- app_assoc, Ha. exact Hb.
Qed.

Lemma i_opaque_rt c head (ds : list (dec ival)) (es : list (enc ival)) :
  Forall2 rt ds es -> rt (i_odec c head ds) (i_oenc c head es).
Proof.
  intros H2 b v rest H. unfold i_odec in H. unfold i_oenc.
  destruct (negb c && is_option head); [|discriminate].
  destruct H2 as [|d e ds es Hde H2]; [discriminate|].
  destruct H2 as [|d2 e2 ds es _ _]; [|discriminate].
  destruct b as [|x r]; [discriminate|].
  destruct x as [|[q|q|]]; try discriminate.
  - inversion H; subst. exists [0]. split; reflexivity.
  - destruct (d r) as [[y r']|] eqn:Ed; [|discriminate]. inversion H; subst.
    destruct (Hde _ _ _ Ed) as (bs & Hs & Hb). rewrite Hs.
    exists (1 :: bs). split; [reflexivity|]. cbn [app]. rewrite Hb. reflexivity.
Qed.

Theorem iprims_ok : prims_ok iprims.
Proof.
  constructor.
  - exact i_prim_rt.
  - exact i_compact_rt.
  - exact (i_compact_rt PU32).
  - exact i_bits_rt.
  - exact i_opaque_rt.
Qed.

Theorem iprims_mono : prims_mono iprims.
Proof.
  intros c head ds ds' H2 b x H. cbn [odec iprims] in *. unfold i_odec in *.
  destruct (negb c && is_option head); [|discriminate].
  destruct H2 as [|d d' ds ds' Hd H2]; [discriminate|].
  destruct H2 as [|d2 d2' ds ds' _ _]; [|discriminate].
  destruct b as [|y r]; [discriminate|].
  destruct y as [|[q|q|]]; try discriminate.
  - exact H.
  - destruct (d r) as [[z r']|] eqn:Ed; [|discriminate]. rewrite (Hd _ _ Ed). exact H.
Qed.

(** ** the converse direction: the instance's encodings are self-delimiting *)
Lemma le_tr k : tr (le_enc k) (le_dec k).
Proof.
  induction k as [|k IH]; intros v bs rest H.
  - cbn [le_enc] in H. destruct (N.eqb_spec v 0) as [->|]; [|discriminate].
    assert (bs = []) by congruence. subst bs. reflexivity.
  - rewrite le_enc_S in H. destruct (le_enc k (v / 256)) as [bs'|] eqn:E; [|discriminate].
    assert (Hb : bs = v mod 256 :: bs') by congruence. subst bs. cbn [app]. rewrite le_dec_S.
    destruct (N.ltb_spec (v mod 256) 256) as [_|Hge];
      [|pose proof (N.mod_lt v 256 ltac:(lia)); lia].
    rewrite (IH _ _ rest E). f_equal. f_equal.
    rewrite N.add_comm. symmetry. apply N.div_mod. lia.
Qed.

Lemma i_prim_tr p : tr (i_penc p) (i_pdec p).
Proof.
  intros v bs rest H. unfold i_penc in H. unfold i_pdec.
  destruct (prim_width p) as [k|]; [|discriminate].
  destruct p; try (rewrite (le_tr k _ _ rest H); reflexivity).
  destruct (v <? 2) eqn:Ev; [|discriminate]. rewrite (le_tr k _ _ rest H), Ev. reflexivity.
Qed.

Lemma le_dec_first k b w r :
  le_dec (S k) b = Some (w, r) -> exists r1, le_dec 1 b = Some (w mod 256, r1).
Proof.
  intros H. destruct b as [|x b']; [discriminate|]. rewrite le_dec_S in H. rewrite le_dec_S.
  destruct (N.ltb_spec x 256) as [Hx|Hx]; [|discriminate].
  destruct (le_dec k b') as [[v' r']|] eqn:E; [|discriminate].
  remember (x + 256 * v') as w' eqn:Hw. assert (w = w') by congruence. subst w'.
  exists b'. cbn [le_dec]. rewrite N.mul_0_r, N.add_0_r.
  rewrite <- (N.mod_unique w 256 v' x) by lia. reflexivity.
Qed.

Lemma mod256_mod4 w : (w mod 256) mod 4 = w mod 4.
Proof.
  change 256 with (4 * 64). rewrite N.mod_mul_r by lia.
  rewrite (N.mul_comm 4), N.mod_add by lia. apply N.mod_mod. lia.
Qed.

Lemma mul4_add_mod v m : m < 4 -> (4 * v + m) mod 4 = m /\ (4 * v + m) / 4 = v.
Proof.
  intros Hm. split.
  - symmetry. apply (N.mod_unique _ 4 v m); lia.
  - symmetry. apply (N.div_unique _ 4 v m); lia.
Qed.

Lemma compact_tr : tr compact_enc compact_dec.
Proof.
  intros v bs rest H. unfold compact_enc in H. unfold compact_dec.
  destruct (N.ltb_spec v 64) as [H64|H64].
  - destruct (mul4_add_mod v 0 ltac:(lia)) as [Hm Hd]. rewrite N.add_0_r in Hm, Hd.
    remember (4 * v) as w eqn:Hw.
    rewrite (le_tr 1 _ _ rest H). rewrite Hm, Hd. reflexivity.
  - destruct (N.ltb_spec v 16384) as [H14|H14].
    + destruct (mul4_add_mod v 1 ltac:(lia)) as [Hm Hd]. remember (4 * v + 1) as w eqn:Hw.
      pose proof (le_tr 2 _ _ rest H) as E2.
      destruct (le_dec_first _ _ _ _ E2) as (r1 & E1). rewrite E1, mod256_mod4, Hm.
      change (1 =? 0) with false. change (1 =? 1) with true. cbn iota.
      rewrite E2, Hm, Hd. change (1 =? 1) with true.
      destruct (N.leb_spec 64 v); [reflexivity|lia].
    + destruct (N.ltb_spec v 1073741824) as [H30|H30]; [|discriminate].
      destruct (mul4_add_mod v 2 ltac:(lia)) as [Hm Hd]. remember (4 * v + 2) as w eqn:Hw.
      pose proof (le_tr 4 _ _ rest H) as E4.
      destruct (le_dec_first _ _ _ _ E4) as (r1 & E1). rewrite E1, mod256_mod4, Hm.
      change (2 =? 0) with false. change (2 =? 1) with false. change (2 =? 2) with true.
      cbn iota. rewrite E4, Hm, Hd. change (2 =? 2) with true.
      destruct (N.leb_spec 16384 v); [reflexivity|lia].
Qed.

Lemma i_compact_tr p : tr (i_cenc p) (i_cdec p).
Proof.
  intros v bs rest H. unfold i_cenc in H. unfold i_cdec.
  destruct (compact_bound p) as [bound|]; [|discriminate].
  destruct (v <? bound) eqn:Ev; [|discriminate].
  rewrite (compact_tr _ _ rest H), Ev. reflexivity.
Qed.

Lemma take_bytes_app : forall l rest, take_bytes (List.length l) (l ++ rest) = Some (l, rest).
Proof.
  induction l as [|x l IH]; intros rest; [reflexivity|].
  cbn [List.length app take_bytes]. rewrite IH. reflexivity.
Qed.

Lemma i_bits_tr st or : tr (i_benc st or) (i_bdec st or).
Proof.
  intros v bs rest H. unfold i_benc in H. unfold i_bdec.
  destruct st as [p| | | | | | | | |]; try discriminate. destruct p; try discriminate.
  destruct v as [n l]. cbn [fst snd] in H.
  destruct (N.eqb_spec (N.of_nat (List.length l)) ((n + 7) / 8)) as [El|El]; [|discriminate].
  destruct (i_cenc PU32 n) as [c|] eqn:Ec; [|discriminate].
  assert (bs = c ++ l) by congruence. subst bs. rewrite <- app_assoc.
  rewrite (i_compact_tr PU32 _ _ (l ++ rest) Ec). rewrite <- El, Nat2N.id, take_bytes_app.
  reflexivity.
Qed.

Lemma i_opaque_tr c head (es : list (enc ival)) (ds : list (dec ival)) :
  Forall2 tr es ds -> tr (i_oenc c head es) (i_odec c head ds).
Proof.
  intros H2 v bs rest H. unfold i_oenc in H. unfold i_odec.
  destruct (negb c && is_option head); [|discriminate].
  destruct H2 as [|e d es ds Hed H2]; [discriminate|].
  destruct H2 as [|e2 d2 es ds _ _]; [|discriminate].
  destruct v as [x|l|l|l|i l|x|x]; try discriminate.
  destruct i as [|[q|q|]]; try discriminate.
  - destruct l as [|x l]; [|discriminate]. assert (bs = [0]) by congruence. subst bs. reflexivity.
  - destruct l as [|x [|x2 l]]; try discriminate.
    destruct (e x) as [bs'|] eqn:Ee; [|discriminate].
    assert (bs = 1 :: bs') by congruence. subst bs. cbn [app].
    rewrite (Hed _ _ rest Ee). reflexivity.
Qed.

Theorem iprims_rev : prims_rev iprims.
Proof.
  constructor.
  - exact i_prim_tr.
  - exact i_compact_tr.
  - exact (i_compact_tr PU32).
  - exact i_bits_tr.
  - exact i_opaque_tr.
Qed.
