(** The concrete little-endian / compact instance of Model/CodecInstance.v satisfies the
    hypotheses [prims_ok] and [prims_mono] that the codec theorems quantify over: the
    hypotheses are satisfiable. *)
From Coq Require Import List NArith String Bool Lia.
From V Require Import Base.Strings Model.Registry Model.Settings Model.Shape Model.Codec
  Model.CodecInstance.
Import ListNotations.
Open Scope list_scope. Open Scope N_scope.

Lemma le_dec_S k x b' :
  le_dec (S k) (x :: b') =
  if x <? 256 then
    match le_dec k b' with Some (v, r) => Some (x + 256 * v, r) | None => None end
  else None.
Proof. reflexivity. Qed.

Lemma le_enc_S k v :
  le_enc (S k) v =
  match le_enc k (v / 256) with Some bs => Some (v mod 256 :: bs) | None => None end.
Proof. reflexivity. Qed.

Lemma le_rt k : rt (le_dec k) (le_enc k).
Proof.
  induction k as [|k IH]; intros b v rest H.
  - inversion H; subst. exists []. split; reflexivity.
  - destruct b as [|x b']; [discriminate|]. rewrite le_dec_S in H.
    destruct (N.ltb_spec x 256) as [Hx|Hx]; [|discriminate].
    destruct (le_dec k b') as [[v' r]|] eqn:E; [|discriminate].
    remember (x + 256 * v') as w eqn:Hw. injection H as Hv Hr. subst v rest.
    destruct (IH _ _ _ E) as (bs & Hs & Hb). rewrite le_enc_S.
    rewrite <- (N.div_unique w 256 v' x) by lia.
    rewrite <- (N.mod_unique w 256 v' x) by lia.
    rewrite Hs. exists (x :: bs). split; [reflexivity|]. cbn [app]. rewrite Hb. reflexivity.
Qed.

Lemma le_dec_bound : forall k b v r, le_dec k b = Some (v, r) -> v < 256 ^ N.of_nat k.
Proof.
  induction k as [|k IH]; intros b v r H.
  - inversion H; subst. cbn. lia.
  - destruct b as [|x b']; [discriminate|]. rewrite le_dec_S in H.
    destruct (N.ltb_spec x 256) as [Hx|Hx]; [|discriminate].
    destruct (le_dec k b') as [[v' r']|] eqn:E; [|discriminate].
    remember (x + 256 * v') as w eqn:Hw. injection H as Hv Hr. subst v r.
    specialize (IH _ _ _ E). rewrite Nat2N.inj_succ, N.pow_succ_r'.
    remember (256 ^ N.of_nat k) as M. lia.
Qed.

Lemma i_prim_rt p : rt (i_pdec p) (i_penc p).
Proof.
  intros b v rest H. unfold i_pdec in H. unfold i_penc.
  destruct (prim_width p) as [k|]; [|discriminate].
  destruct (le_dec k b) as [[w r]|] eqn:E; [|discriminate].
  pose proof (le_rt k _ _ _ E) as Hle.
  destruct p; try (inversion H; subst; exact Hle).
  destruct (w <? 2) eqn:Ew; [|discriminate]. inversion H; subst. rewrite Ew. exact Hle.
Qed.

Lemma div4_mod4 w m : w mod 4 = m -> w = 4 * (w / 4) + m.
Proof. intros <-. apply N.div_mod. lia. Qed.

Lemma compact_rt : rt compact_dec compact_enc.
Proof.
  intros b v rest H. unfold compact_dec in H.
  destruct (le_dec 1 b) as [[w1 r1]|] eqn:E1; [|discriminate].
  destruct (w1 mod 4 =? 0) eqn:M0.
  - inversion H; subst. apply N.eqb_eq in M0.
    pose proof (le_dec_bound 1 _ _ _ E1) as B. change (256 ^ N.of_nat 1) with 256 in B.
    pose proof (div4_mod4 _ _ M0) as D. remember (w1 / 4) as q.
    unfold compact_enc. destruct (N.ltb_spec q 64); [|lia].
    replace (4 * q) with w1 by lia. exact (le_rt 1 _ _ _ E1).
  - destruct (w1 mod 4 =? 1).
    + destruct (le_dec 2 b) as [[w2 r2]|] eqn:E2; [|discriminate].
      destruct ((w2 mod 4 =? 1) && (64 <=? w2 / 4)) eqn:C; [|discriminate].
      inversion H; subst. apply andb_prop in C as [C1 C2].
      apply N.eqb_eq in C1. apply N.leb_le in C2.
      pose proof (le_dec_bound 2 _ _ _ E2) as B. change (256 ^ N.of_nat 2) with 65536 in B.
      pose proof (div4_mod4 _ _ C1) as D. remember (w2 / 4) as q.
      unfold compact_enc. destruct (N.ltb_spec q 64); [lia|].
      destruct (N.ltb_spec q 16384); [|lia].
      replace (4 * q + 1) with w2 by lia. exact (le_rt 2 _ _ _ E2).
    + destruct (w1 mod 4 =? 2); [|discriminate].
      destruct (le_dec 4 b) as [[w4 r4]|] eqn:E4; [|discriminate].
      destruct ((w4 mod 4 =? 2) && (16384 <=? w4 / 4)) eqn:C; [|discriminate].
      inversion H; subst. apply andb_prop in C as [C1 C2].
      apply N.eqb_eq in C1. apply N.leb_le in C2.
      pose proof (le_dec_bound 4 _ _ _ E4) as B. change (256 ^ N.of_nat 4) with 4294967296 in B.
      pose proof (div4_mod4 _ _ C1) as D. remember (w4 / 4) as q.
      unfold compact_enc. destruct (N.ltb_spec q 64); [lia|].
      destruct (N.ltb_spec q 16384); [lia|].
      destruct (N.ltb_spec q 1073741824); [|lia].
      replace (4 * q + 2) with w4 by lia. exact (le_rt 4 _ _ _ E4).
Qed.

Lemma i_compact_rt p : rt (i_cdec p) (i_cenc p).
Proof.
  intros b v rest H. unfold i_cdec in H. unfold i_cenc.
  destruct (compact_bound p) as [bound|]; [|discriminate].
  destruct (compact_dec b) as [[w r]|] eqn:E; [|discriminate].
  destruct (w <? bound) eqn:Ew; [|discriminate]. inversion H; subst. rewrite Ew.
  exact (compact_rt _ _ _ E).
Qed.

Lemma take_bytes_spec : forall k b l r,
  take_bytes k b = Some (l, r) -> l ++ r = b /\ List.length l = k.
Proof.
  induction k as [|k IH]; intros b l r H; cbn [take_bytes] in H.
  - inversion H; subst. split; reflexivity.
  - destruct b as [|x b']; [discriminate|].
    destruct (take_bytes k b') as [[l' r']|] eqn:E; [|discriminate]. inversion H; subst.
    destruct (IH _ _ _ E) as [Ha Hl]. cbn [app List.length]. rewrite Ha, Hl. split; reflexivity.
Qed.

Lemma i_bits_rt st or : rt (i_bdec st or) (i_benc st or).
Proof.
  intros b v rest H. unfold i_bdec in H. unfold i_benc.
  destruct st as [p| | | | | | | | |]; try discriminate. destruct p; try discriminate.
  destruct (i_cdec PU32 b) as [[n r]|] eqn:Ec; [|discriminate].
  destruct (take_bytes (N.to_nat ((n + 7) / 8)) r) as [[l r']|] eqn:Et; [|discriminate].
  inversion H; subst. cbn [fst snd].
  destruct (take_bytes_spec _ _ _ _ Et) as [Ha Hl].
  rewrite Hl, N2Nat.id, N.eqb_refl.
  destruct (i_compact_rt PU32 _ _ _ Ec) as (bs & Hs & Hb). rewrite Hs.
  exists (bs ++ l). split; [reflexivity|]. rewrite <- app_assoc, Ha. exact Hb.
Qed.

Lemma i_opaque_rt head (ds : list (dec ival)) (es : list (enc ival)) :
  Forall2 rt ds es -> rt (i_odec head ds) (i_oenc head es).
Proof.
  intros H2 b v rest H. unfold i_odec in H. unfold i_oenc.
  destruct (is_option head); [|discriminate].
  destruct H2 as [|d e ds es Hde H2]; [discriminate|].
  destruct H2 as [|d2 e2 ds es _ _]; [|discriminate].
  destruct b as [|x r]; [discriminate|].
  destruct x as [|[q|q|]]; try discriminate.
  - inversion H; subst. exists [0]. split; reflexivity.
  - destruct (d r) as [[y r']|] eqn:Ed; [|discriminate]. inversion H; subst.
    destruct (Hde _ _ _ Ed) as (bs & Hs & Hb). rewrite Hs.
    exists (1 :: bs). split; [reflexivity|]. cbn [app]. rewrite Hb. reflexivity.
Qed.

Theorem iprims_ok : prims_ok iprims.
Proof.
  constructor.
  - exact i_prim_rt.
  - exact i_compact_rt.
  - exact (i_compact_rt PU32).
  - exact i_bits_rt.
  - exact i_opaque_rt.
Qed.

Theorem iprims_mono : prims_mono iprims.
Proof.
  intros head ds ds' H2 b x H. cbn [odec iprims] in *. unfold i_odec in *.
  destruct (is_option head); [|discriminate].
  destruct H2 as [|d d' ds ds' Hd H2]; [discriminate|].
  destruct H2 as [|d2 d2' ds ds' _ _]; [|discriminate].
  destruct b as [|y r]; [discriminate|].
  destruct y as [|[q|q|]]; try discriminate.
  - exact H.
  - destruct (d r) as [[z r']|] eqn:Ed; [|discriminate]. rewrite (Hd _ _ Ed). exact H.
Qed.
