(** The groups map of [ensure_unique_type_paths] (utils.rs:29-90) characterised:
    C03 [dedup_groups] and the C04 clauses minimal / renamed_path / same_group. *)
From Coq Require Import String Ascii List Arith NArith Bool Lia Sorted Permutation DecimalString DecimalN.
From V Require Import Base.Strings Base.Result Model.Registry Model.Derives Model.Equal
  Model.DedupSpec Proofs.GenProofs Proofs.CollectProofs Proofs.DedupProofs Proofs.OrderFree.
Import ListNotations.
Open Scope string_scope. Open Scope list_scope.

(** ** generic list facts *)
Lemma FOP_app {A} (R : A -> A -> Prop) l1 l2 :
  ForallOrdPairs R (l1 ++ l2) <->
  ForallOrdPairs R l1 /\ ForallOrdPairs R l2 /\ (forall x y, In x l1 -> In y l2 -> R x y).
Proof.
  induction l1 as [|a l1 IH]; cbn [app].
  - split.
    + intros H. split; [constructor|]. split; [exact H|intros x y []].
    + intros (_ & H & _); exact H.
  - split.
    + intros H. inversion H as [|? ? Ha Hl]; subst. apply IH in Hl as (H1 & H2 & H3).
      apply Forall_app in Ha as [Ha1 Ha2].
      split; [constructor; assumption|]. split; [assumption|].
      intros x y [<-|Hx] Hy; [rewrite Forall_forall in Ha2; apply Ha2; exact Hy|apply H3; assumption].
    + intros (H1 & H2 & H3). inversion H1 as [|? ? Ha Hl]; subst. constructor.
      * apply Forall_app; split; [exact Ha|]. rewrite Forall_forall. intros y Hy.
        apply H3; [left; reflexivity|exact Hy].
      * apply IH. split; [exact Hl|]. split; [exact H2|].
        intros x y Hx Hy. apply H3; [right; exact Hx|exact Hy].
Qed.

Lemma FOP_StronglySorted {A} (R : A -> A -> Prop) l : ForallOrdPairs R l <-> StronglySorted R l.
Proof.
  induction l as [|a l IH]; split; intros H; try constructor.
  - inversion H; subst. apply IH; assumption.
  - inversion H; subst; assumption.
  - inversion H; subst; assumption.
  - inversion H; subst. apply IH; assumption.
Qed.

Lemma FOP_map {A B} (f : A -> B) (R : B -> B -> Prop) l :
  ForallOrdPairs (fun x y => R (f x) (f y)) l <-> ForallOrdPairs R (map f l).
Proof.
  induction l as [|a l IH]; cbn [map]; split; intros H; try constructor.
  - inversion H as [|? ? Ha Hl]; subst. rewrite Forall_map. exact Ha.
  - inversion H; subst. apply IH; assumption.
  - inversion H as [|? ? Ha Hl]; subst. rewrite Forall_map in Ha. exact Ha.
  - inversion H; subst. apply IH; assumption.
Qed.

(** replacing one element by one related to the others in the same way *)
Lemma FOP_replace {A} (R : A -> A -> Prop) l1 x x' l2 :
  ForallOrdPairs R (l1 ++ x :: l2) ->
  (forall y, In y l1 -> R y x -> R y x') ->
  (forall y, In y l2 -> R x y -> R x' y) ->
  ForallOrdPairs R (l1 ++ x' :: l2).
Proof.
  intros H Hl Hr. apply FOP_app in H as (H1 & H2 & H3). apply FOP_app.
  inversion H2 as [|? ? Ha Hb]; subst.
  split; [exact H1|]. split.
  - constructor; [|exact Hb]. rewrite Forall_forall in *. intros y Hy. apply Hr; [exact Hy|apply Ha; exact Hy].
  - intros a b Ha1 [<-|Hb2].
    + apply Hl; [exact Ha1|]. apply H3; [exact Ha1|left; reflexivity].
    + apply H3; [exact Ha1|right; exact Hb2].
Qed.

Lemma FOP_before {A} (R : A -> A -> Prop) l1 x l2 y :
  ForallOrdPairs R (l1 ++ x :: l2) -> In y l1 -> R y x.
Proof.
  intros H Hy. apply FOP_app in H as (_ & _ & H3). apply H3; [exact Hy|left; reflexivity].
Qed.

Lemma FOP_lt_bound (g : list N) i :
  ForallOrdPairs N.lt g -> (forall j, In j g -> (j < i)%N) -> ForallOrdPairs N.lt (g ++ [i]).
Proof.
  intros H Hb. apply FOP_app. split; [exact H|]. split; [constructor; constructor|].
  intros x y Hx [<-|[]]. apply Hb; exact Hx.
Qed.

(** ** decimal suffixes are non-empty and injective *)
Lemma N_to_string_inj a b : N_to_string a = N_to_string b -> a = b.
Proof.
  unfold N_to_string. intros H.
  apply DecimalN.Unsigned.to_uint_inj.
  pose proof (NilEmpty.usu (N.to_uint a)) as Ha. pose proof (NilEmpty.usu (N.to_uint b)) as Hb.
  rewrite H in Ha. rewrite Ha in Hb. inversion Hb; reflexivity.
Qed.

Lemma N_to_string_nonempty n : N_to_string n <> "".
Proof.
  unfold N_to_string. intros H.
  pose proof (NilEmpty.usu (N.to_uint n)) as Hu. rewrite H in Hu. cbn in Hu.
  inversion Hu as [E].
  pose proof (DecimalN.Unsigned.of_to n) as Hn. rewrite <- E in Hn. cbn in Hn. subst n.
  cbn in E. discriminate.
Qed.

Lemma append_inj_r s a b : String.append s a = String.append s b -> a = b.
Proof. induction s as [|c s IH]; cbn; intros H; [exact H|]. inversion H. apply IH; assumption. Qed.

Lemma append_self_empty s a : String.append s a = s -> a = "".
Proof. induction s as [|c s IH]; cbn; intros H; [exact H|]. inversion H. apply IH; assumption. Qed.

Lemma rename_last_inj p a b : rename_last p a = rename_last p b -> a = b.
Proof.
  unfold rename_last. intros H. apply app_inv_head in H. inversion H as [E].
  apply append_inj_r in E. apply N_to_string_inj; exact E.
Qed.

Lemma rename_last_changes p n : p <> [] -> rename_last p n <> p.
Proof.
  intros Hp H. unfold rename_last in H.
  rewrite (app_removelast_last "" Hp) in H at 3.
  apply app_inv_head in H. inversion H as [E].
  apply append_self_empty in E. exact (N_to_string_nonempty n E).
Qed.

Lemma namespace_nonempty p : namespace p <> [] -> p <> [].
Proof. intros H E; subst; apply H; reflexivity. Qed.

(** ** [add_to_groups]: where the index goes, and why *)
Lemma add_to_groups_decomp r i : forall gs gs',
  add_to_groups r i gs = Ok gs' ->
  (exists gs1 g gs2, gs = gs1 ++ g :: gs2 /\ gs' = gs1 ++ (g ++ [i]) :: gs2 /\ g <> [] /\
      types_equal_res r i (group_first g) = Ok true /\
      forall g0, In g0 gs1 -> types_equal_res r i (group_first g0) = Ok false) \/
  (gs' = gs ++ [[i]] /\ forall g0, In g0 gs -> types_equal_res r i (group_first g0) = Ok false).
Proof.
  induction gs as [|g gs IH]; intros gs' H; cbn [add_to_groups] in H.
  - inversion H; subst. right. split; [reflexivity|intros g0 []].
  - destruct g as [|other g']; [discriminate|].
    apply bind_ok in H as (e & He & H). destruct e.
    + inversion H; subst. left. exists [], (other :: g'), gs. cbn [app].
      split; [reflexivity|]. split; [reflexivity|]. split; [discriminate|].
      split; [exact He|intros g0 []].
    + apply bind_ok in H as (gs'' & Ha & H). inversion H; subst.
      destruct (IH _ Ha) as [(gs1 & g & gs2 & E1 & E2 & Hne & Ht & Hf)|[E Hf]].
      * left. exists ((other :: g') :: gs1), g, gs2. subst. cbn [app].
        split; [reflexivity|]. split; [reflexivity|]. split; [exact Hne|]. split; [exact Ht|].
        intros g0 [<-|Hin]; [exact He|apply Hf; exact Hin].
      * right. subst. split; [reflexivity|]. intros g0 [<-|Hin]; [exact He|apply Hf; exact Hin].
Qed.

Lemma group_first_snoc g i : g <> [] -> group_first (g ++ [i]) = group_first g.
Proof. destruct g; [congruence|reflexivity]. Qed.

Lemma tl_snoc (g : list N) i : g <> [] -> tl (g ++ [i]) = tl g ++ [i].
Proof. destruct g; [congruence|reflexivity]. Qed.

Lemma group_first_in g : g <> [] -> In (group_first g) g.
Proof. destruct g; [congruence|left; reflexivity]. Qed.

Lemma add_to_groups_perm r i gs gs' :
  add_to_groups r i gs = Ok gs' -> Permutation (concat gs') (i :: concat gs).
Proof.
  intros H. destruct (add_to_groups_decomp _ _ _ _ H) as [(gs1 & g & gs2 & -> & -> & _)|[-> _]].
  - rewrite !concat_app. cbn [concat]. rewrite <- app_assoc. cbn [app].
    rewrite !app_assoc. apply Permutation_sym.
    rewrite <- (app_assoc (concat gs1) g (concat gs2)).
    rewrite app_assoc. apply Permutation_middle.
  - rewrite concat_app. cbn [concat]. rewrite app_nil_r. apply Permutation_sym, Permutation_cons_append.
Qed.

Lemma add_to_groups_first r i gs gs' :
  gs <> [] -> Forall (fun g => g <> []) gs -> add_to_groups r i gs = Ok gs' ->
  group_first (hd [] gs') = group_first (hd [] gs).
Proof.
  intros Hne Hall H. destruct gs as [|g gs]; [congruence|]. cbn [add_to_groups] in H.
  destruct g as [|other g']; [discriminate|].
  apply bind_ok in H as (e & He & H). destruct e.
  - inversion H; subst. reflexivity.
  - apply bind_ok in H as (gs'' & _ & H). inversion H; subst. reflexivity.
Qed.

Lemma groups_ok_mono r b b' gs : (b <= b')%N -> groups_ok r b gs -> groups_ok r b' gs.
Proof.
  intros Hb (H1 & H2 & H3 & H4 & H5 & H6 & H7).
  repeat (split; [assumption|]). split; [|repeat (split; [assumption|]); assumption].
  intros g i Hg Hi. specialize (H3 g i Hg Hi). lia.
Qed.

Lemma groups_ok_single r i : groups_ok r (i + 1) [[i]].
Proof.
  split; [discriminate|]. split; [constructor; [discriminate|constructor]|].
  split; [intros g j [<-|[]] [<-|[]]; lia|].
  split; [intros g j [<-|[]] []|].
  split; [constructor; constructor|].
  split; [constructor; [constructor; constructor|constructor]|].
  constructor; constructor.
Qed.

Lemma add_to_groups_ok r i gs gs' :
  groups_ok r i gs -> add_to_groups r i gs = Ok gs' -> groups_ok r (i + 1) gs'.
Proof.
  intros (H1 & H2 & H3 & H4 & H5 & H6 & H7) H.
  destruct (add_to_groups_decomp _ _ _ _ H) as [(gs1 & g & gs2 & -> & -> & Hne & Ht & Hf)|[-> Hf]].
  - apply Forall_app in H2 as [H2a H2b]. inversion H2b as [|? ? H2g H2c]; subst.
    apply Forall_app in H6 as [H6a H6b]. inversion H6b as [|? ? H6g H6c]; subst.
    assert (I1 : forall g1, In g1 gs1 -> In g1 (gs1 ++ g :: gs2)) by (intros; apply in_or_app; left; assumption).
    assert (I2 : forall g1, In g1 gs2 -> In g1 (gs1 ++ g :: gs2)) by (intros; apply in_or_app; right; right; assumption).
    assert (I0 : In g (gs1 ++ g :: gs2)) by (apply in_or_app; right; left; reflexivity).
    assert (Hgb : forall j, In j g -> (j < i)%N).
    { intros j Hj. apply (H3 g j); [exact I0|exact Hj]. }
    split; [destruct gs1; discriminate|].
    split.
    { apply Forall_app; split; [exact H2a|]. constructor; [destruct g; discriminate|exact H2c]. }
    split.
    { intros g1 j Hg1 Hj. apply in_app_or in Hg1 as [Hg1|[<-|Hg1]].
      - specialize (H3 g1 j (I1 _ Hg1) Hj). lia.
      - apply in_app_or in Hj as [Hj|[<-|[]]]; [specialize (Hgb j Hj)|]; lia.
      - specialize (H3 g1 j (I2 _ Hg1) Hj). lia. }
    split.
    { intros g1 j Hg1 Hj. apply in_app_or in Hg1 as [Hg1|[<-|Hg1]].
      - apply (H4 g1 j); [exact (I1 _ Hg1)|exact Hj].
      - rewrite group_first_snoc by exact Hne. rewrite tl_snoc in Hj by exact Hne.
        apply in_app_or in Hj as [Hj|[<-|[]]]; [|exact Ht].
        apply (H4 g j); [exact I0|exact Hj].
      - apply (H4 g1 j); [exact (I2 _ Hg1)|exact Hj]. }
    split.
    { eapply FOP_replace; [exact H5| |].
      - intros y Hy Hyx j Hj. apply in_app_or in Hj as [Hj|[<-|[]]]; [apply Hyx; exact Hj|apply Hf; exact Hy].
      - intros y Hy Hxy j Hj. rewrite group_first_snoc by exact Hne. apply Hxy; exact Hj. }
    split.
    { apply Forall_app; split; [exact H6a|]. constructor; [|exact H6c].
      apply FOP_lt_bound; [exact H6g|exact Hgb]. }
    eapply FOP_replace; [exact H7| |].
    + intros y Hy Hyx. rewrite group_first_snoc by exact Hne. exact Hyx.
    + intros y Hy Hxy. rewrite group_first_snoc by exact Hne. exact Hxy.
  - split; [destruct gs; discriminate|].
    split; [apply Forall_app; split; [exact H2|constructor; [discriminate|constructor]]|].
    split.
    { intros g1 j Hg1 Hj. apply in_app_or in Hg1 as [Hg1|[<-|[]]].
      - specialize (H3 g1 j Hg1 Hj). lia.
      - destruct Hj as [<-|[]]. lia. }
    split.
    { intros g1 j Hg1 Hj. apply in_app_or in Hg1 as [Hg1|[<-|[]]]; [apply H4; assumption|destruct Hj]. }
    split.
    { apply FOP_app. split; [exact H5|]. split; [constructor; constructor|].
      intros x y Hx [<-|[]] j [<-|[]]. apply Hf; exact Hx. }
    split.
    { apply Forall_app; split; [exact H6|]. constructor; [constructor; constructor|constructor]. }
    apply FOP_app. split; [exact H7|]. split; [constructor; constructor|].
    intros x y Hx [<-|[]]. cbn [group_first hd].
    apply (H3 x); [exact Hx|]. apply group_first_in. rewrite Forall_forall in H2. apply H2; exact Hx.
Qed.

(** ** [groups_add] *)
Lemma groups_add_decomp r i p : forall m m',
  groups_add r m p i = Ok m' ->
  (exists m1 gs gs' m2, m = m1 ++ (p, gs) :: m2 /\ m' = m1 ++ (p, gs') :: m2 /\
                        add_to_groups r i gs = Ok gs') \/
  (~ In p (map fst m) /\ m' = m ++ [(p, [[i]])]).
Proof.
  induction m as [|[k0 gs0] m IH]; intros m' H; cbn [groups_add] in H.
  - inversion H; subst. right. split; [intros []|reflexivity].
  - destruct (path_eqb k0 p) eqn:E.
    + apply path_eqb_eq in E; subst k0. apply bind_ok in H as (gs1 & Ha & H). inversion H; subst.
      left. exists [], gs0, gs1, m. cbn [app]. split; [reflexivity|]. split; [reflexivity|exact Ha].
    + apply bind_ok in H as (m1 & Ha & H). inversion H; subst.
      destruct (IH _ Ha) as [(ma & gs & gs' & mb & -> & -> & Hadd)|[Hn ->]].
      * left. exists ((k0, gs0) :: ma), gs, gs', mb. cbn [app].
        split; [reflexivity|]. split; [reflexivity|exact Hadd].
      * right. split; [|reflexivity]. cbn [map fst].
        intros [Hp|Hp]; [subst; rewrite path_eqb_refl in E; discriminate|contradiction].
Qed.

Lemma all_members_app m1 m2 : all_members (m1 ++ m2) = all_members m1 ++ all_members m2.
Proof. unfold all_members. rewrite map_app, concat_app. reflexivity. Qed.

Lemma all_members_cons p gs m : all_members ((p, gs) :: m) = concat gs ++ all_members m.
Proof. reflexivity. Qed.

Lemma in_all_members m i :
  In i (all_members m) <-> exists p gs g, In (p, gs) m /\ In g gs /\ In i g.
Proof.
  unfold all_members. rewrite in_concat. split.
  - intros (l & Hl & Hi). apply in_map_iff in Hl as ([p gs] & <- & Hin). cbn [snd] in Hi.
    apply in_concat in Hi as (g & Hg & Hi). exists p, gs, g. auto.
  - intros (p & gs & g & Hin & Hg & Hi). exists (concat gs). split.
    + apply in_map_iff. exists (p, gs). split; [reflexivity|exact Hin].
    + apply in_concat. exists g. auto.
Qed.

Lemma groups_add_perm r i p m m' :
  groups_add r m p i = Ok m' -> Permutation (all_members m') (i :: all_members m).
Proof.
  intros H. destruct (groups_add_decomp _ _ _ _ _ H) as [(m1 & gs & gs' & m2 & -> & -> & Ha)|[_ ->]].
  - rewrite !all_members_app, !all_members_cons.
    apply Permutation_trans with (all_members m1 ++ (i :: concat gs) ++ all_members m2).
    + apply Permutation_app_head, Permutation_app_tail, add_to_groups_perm with (r := r); exact Ha.
    + cbn [app]. apply Permutation_sym, Permutation_middle.
  - rewrite all_members_app. change (all_members [(p, [[i]])]) with [i].
    apply Permutation_sym, Permutation_cons_append.
Qed.

Lemma entry_at_fun r i p q : entry_at r i p -> entry_at r i q -> p = q.
Proof. intros (e & H1 & <-) (e' & H2 & <-). rewrite H1 in H2. inversion H2; reflexivity. Qed.

Lemma map_ok_skip r i m :
  (forall p, entry_at r i p -> namespace p = []) -> map_ok r i m -> map_ok r (i + 1) m.
Proof.
  intros Hi (H1 & H2 & H3 & H4 & H5 & H6).
  split; [exact H1|]. split.
  { eapply Forall_impl; [|exact H2]. intros e. apply groups_ok_mono. lia. }
  split; [exact H3|]. split; [|split; assumption].
  intros j. rewrite H4. split.
  - intros (Hj & Hp). split; [lia|exact Hp].
  - intros (Hj & p & Hp & Hn). split; [|exists p; auto].
    assert (j <> i) by (intros ->; apply Hn, Hi, Hp). lia.
Qed.

Lemma map_ok_add r i p m m' :
  entry_at r i p -> namespace p <> [] -> map_ok r i m -> groups_add r m p i = Ok m' ->
  map_ok r (i + 1) m'.
Proof.
  intros Hp Hns (H1 & H2 & H3 & H4 & H5 & H6) H.
  pose proof (groups_add_perm _ _ _ _ _ H) as HP.
  assert (Hnew : ~ In i (all_members m)).
  { intros Hin. apply H4 in Hin as (Hlt & _). lia. }
  assert (C3 : NoDup (all_members m')).
  { eapply Permutation_NoDup; [apply Permutation_sym; exact HP|]. constructor; assumption. }
  assert (C4 : forall j, In j (all_members m') <->
                         (j < i + 1)%N /\ exists q, entry_at r j q /\ namespace q <> []).
  { intros j. split.
    - intros Hj. apply (Permutation_in _ HP) in Hj as [<-|Hj].
      + split; [lia|]. exists p; auto.
      + apply H4 in Hj as (Hlt & Hq). split; [lia|exact Hq].
    - intros (Hlt & Hq). apply (Permutation_in _ (Permutation_sym HP)).
      destruct (N.eq_dec j i) as [->|Hne]; [left; reflexivity|].
      right. apply H4. split; [lia|exact Hq]. }
  destruct (groups_add_decomp _ _ _ _ _ H) as [(m1 & gs & gs' & m2 & -> & -> & Ha)|[Hn ->]].
  - apply Forall_app in H2 as [H2a H2b]. inversion H2b as [|? ? H2g H2c]; subst. cbn [snd] in H2g.
    split; [rewrite map_app in *; exact H1|].
    split.
    { apply Forall_app; split.
      - eapply Forall_impl; [|exact H2a]. intros e. apply groups_ok_mono. lia.
      - constructor; [cbn [snd]; eapply add_to_groups_ok; eassumption|].
        eapply Forall_impl; [|exact H2c]. intros e. apply groups_ok_mono. lia. }
    split; [exact C3|]. split; [exact C4|]. split.
    { intros q gs0 g j Hin Hg Hj. apply in_app_or in Hin as [Hin|[E|Hin]].
      - apply (H5 q gs0 g j); [apply in_or_app; left; exact Hin|exact Hg|exact Hj].
      - inversion E; subst q gs0.
        destruct (add_to_groups_members _ _ _ _ Ha g j Hg Hj) as [->|(g1 & Hg1 & Hj1)]; [exact Hp|].
        apply (H5 p gs g1 j); [apply in_or_app; right; left; reflexivity|exact Hg1|exact Hj1].
      - apply (H5 q gs0 g j); [apply in_or_app; right; right; exact Hin|exact Hg|exact Hj]. }
    assert (Ef : entry_first (p, gs') = entry_first (p, gs)).
    { unfold entry_first; cbn [snd]. destruct H2g as (G1 & G2 & _).
      eapply add_to_groups_first; eassumption. }
    eapply FOP_replace; [exact H6| |].
    + intros y _ Hy. rewrite Ef. exact Hy.
    + intros y _ Hy. rewrite Ef. exact Hy.
  - split.
    { rewrite map_app. cbn [map fst]. eapply Permutation_NoDup; [apply Permutation_cons_append|].
      constructor; assumption. }
    split.
    { apply Forall_app; split.
      - eapply Forall_impl; [|exact H2]. intros e. apply groups_ok_mono. lia.
      - constructor; [cbn [snd]; apply groups_ok_single|constructor]. }
    split; [exact C3|]. split; [exact C4|]. split.
    { intros q gs0 g j Hin Hg Hj. apply in_app_or in Hin as [Hin|[E|[]]].
      - apply (H5 q gs0 g j); assumption.
      - inversion E; subst q gs0. destruct Hg as [<-|[]]. destruct Hj as [<-|[]]. exact Hp. }
    apply FOP_app. split; [exact H6|]. split; [constructor; constructor|].
    intros x y Hx [<-|[]]. unfold entry_first at 2. cbn [snd hd group_first].
    rewrite Forall_forall in H2. destruct (H2 x Hx) as (G1 & G2 & G3 & _).
    destruct x as [q gsx]. cbn [snd] in *. unfold entry_first; cbn [snd].
    destruct gsx as [|g0 gsx]; [congruence|]. cbn [hd].
    apply (G3 g0); [left; reflexivity|]. apply group_first_in.
    inversion G2; subst; assumption.
Qed.

Lemma build_go_ok r : forall l idx m m',
  (forall n, nth_error l n = nth_error r (N.to_nat idx + n)) ->
  map_ok r idx m -> build_go r idx l m = Ok m' ->
  map_ok r (idx + N.of_nat (List.length l)) m'.
Proof.
  induction l as [|[id t] l IH]; intros idx m m' Hl Hm H; cbn [build_go] in H.
  - inversion H; subst. cbn [List.length]. replace (idx + N.of_nat 0)%N with idx by lia. exact Hm.
  - assert (Hat : entry_at r idx (t_path t)).
    { exists (id, t). split; [|reflexivity].
      specialize (Hl O). rewrite Nat.add_0_r in Hl. rewrite <- Hl. reflexivity. }
    assert (Hl' : forall n, nth_error l n = nth_error r (N.to_nat (idx + 1) + n)).
    { intros n. specialize (Hl (S n)). cbn [nth_error] in Hl. rewrite Hl. f_equal. lia. }
    replace (idx + N.of_nat (List.length ((id, t) :: l)))%N
      with (idx + 1 + N.of_nat (List.length l))%N by (cbn [List.length]; lia).
    destruct (namespace (t_path t)) as [|n0 ns] eqn:Ens.
    + eapply IH; [exact Hl'| |exact H]. apply map_ok_skip; [|exact Hm].
      intros p Hp. rewrite (entry_at_fun _ _ _ _ Hp Hat). exact Ens.
    + apply bind_ok in H as (m1 & Ha & H). eapply IH; [exact Hl'| |exact H].
      eapply map_ok_add; [exact Hat| |exact Hm|exact Ha]. rewrite Ens; discriminate.
Qed.

Lemma map_ok_nil r : map_ok r 0 [].
Proof.
  split; [constructor|]. split; [constructor|]. split; [constructor|].
  split; [|split; [intros ? ? ? ? []|constructor]].
  intros i. split; [intros []|intros (Hlt & _); lia].
Qed.

Theorem build_groups_map_ok r m :
  build_groups r = Ok m -> map_ok r (N.of_nat (List.length r)) m.
Proof.
  rewrite build_groups_unfold. intros H.
  change (N.of_nat (List.length r)) with (0 + N.of_nat (List.length r))%N.
  eapply build_go_ok; [|apply map_ok_nil|exact H]. intros n. reflexivity.
Qed.

Lemma entry_at_bound r i p : entry_at r i p -> (i < N.of_nat (List.length r))%N.
Proof.
  intros (e & He & _). assert (N.to_nat i < List.length r)%nat by (apply nth_error_Some; congruence). lia.
Qed.

(** ** C03 [dedup_groups], spelled out *)
Theorem dedup_groups r m :
  build_groups r = Ok m ->
  NoDup (map fst m) /\
  (forall p gs, In (p, gs) m -> gs <> [] /\ Forall (fun g => g <> []) gs) /\
  NoDup (all_members m) /\
  (forall i, In i (all_members m) <-> exists p, entry_at r i p /\ namespace p <> []) /\
  (forall p gs g i, In (p, gs) m -> In g gs -> In i g -> entry_at r i p) /\
  (forall p gs g i, In (p, gs) m -> In g gs -> In i (tl g) ->
                    types_equal_res r i (group_first g) = Ok true) /\
  (forall p gs gs1 g gs2 g0 i, In (p, gs) m -> gs = gs1 ++ g :: gs2 -> In g0 gs1 -> In i g ->
                               types_equal_res r i (group_first g0) = Ok false) /\
  (forall p gs, In (p, gs) m ->
                Forall (StronglySorted N.lt) gs /\ StronglySorted N.lt (map group_first gs)) /\
  StronglySorted N.lt (map entry_first m).
Proof.
  intros H. destruct (build_groups_map_ok _ _ H) as (H1 & H2 & H3 & H4 & H5 & H6).
  rewrite Forall_forall in H2.
  split; [exact H1|]. split.
  { intros p gs Hin. destruct (H2 _ Hin) as (G1 & G2 & _). auto. }
  split; [exact H3|]. split.
  { intros i. rewrite H4. split; [intros (_ & Hq); exact Hq|].
    intros (p & Hp & Hn). split; [eapply entry_at_bound; exact Hp|exists p; auto]. }
  split; [exact H5|]. split.
  { intros p gs g i Hin. destruct (H2 _ Hin) as (_ & _ & _ & G4 & _). apply G4. }
  split.
  { intros p gs gs1 g gs2 g0 i Hin -> Hg0 Hi. destruct (H2 _ Hin) as (_ & _ & _ & _ & G5 & _).
    cbn [snd] in G5. exact (FOP_before _ _ _ _ _ G5 Hg0 i Hi). }
  split.
  { intros p gs Hin. destruct (H2 _ Hin) as (_ & _ & _ & _ & _ & G6 & G7). cbn [snd] in *. split.
    - eapply Forall_impl; [|exact G6]. intros g. apply FOP_StronglySorted.
    - apply FOP_StronglySorted. apply (proj1 (FOP_map group_first N.lt gs)). exact G7. }
  apply FOP_StronglySorted. apply (proj1 (FOP_map entry_first N.lt m)). exact H6.
Qed.

(** every namespaced position is listed under its own path (existence half of (i)) *)
Corollary dedup_member r m i p :
  build_groups r = Ok m -> entry_at r i p -> namespace p <> [] ->
  exists gs g, In (p, gs) m /\ In g gs /\ In i g.
Proof.
  intros H Hp Hn. destruct (dedup_groups _ _ H) as (_ & _ & _ & H4 & H5 & _).
  assert (Hi : In i (all_members m)) by (apply H4; exists p; auto).
  apply in_all_members in Hi as (q & gs & g & Hin & Hg & Hi).
  rewrite (entry_at_fun _ _ _ _ Hp (H5 _ _ _ _ Hin Hg Hi)). exists gs, g. auto.
Qed.

Lemma NoDup_app_inv {A} (l1 l2 : list A) :
  NoDup (l1 ++ l2) -> NoDup l1 /\ NoDup l2 /\ forall x, In x l1 -> In x l2 -> False.
Proof.
  induction l1 as [|a l1 IH]; cbn [app]; intros H.
  - split; [constructor|]. split; [exact H|intros x []].
  - inversion H as [|? ? Hn ND]; subst. destruct (IH ND) as (N1 & N2 & N3).
    split; [constructor; [intros Hin; apply Hn, in_or_app; left; exact Hin|exact N1]|].
    split; [exact N2|]. intros x [<-|Hx] Hx2; [apply Hn, in_or_app; right; exact Hx2|eapply N3; eauto].
Qed.

(** ... and in one group only: two groups listing [i] are the same group of the same path *)
Lemma NoDup_concat_unique {A} (ll : list (list A)) :
  NoDup (concat ll) -> forall a b la lb x,
    nth_error ll a = Some la -> nth_error ll b = Some lb -> In x la -> In x lb -> a = b.
Proof.
  induction ll as [|l ll IH]; intros ND a b la lb x Ha Hb Hxa Hxb; [destruct a; discriminate|].
  cbn [concat] in ND. destruct (NoDup_app_inv _ _ ND) as (_ & ND2 & Hd).
  assert (Hdis : forall y lc c, nth_error ll c = Some lc -> In y l -> In y lc -> False).
  { intros y lc c Hc Hy Hyc. apply nth_error_In in Hc.
    apply (Hd y Hy). apply in_concat; exists lc; auto. }
  destruct a as [|a], b as [|b]; cbn [nth_error] in Ha, Hb.
  - reflexivity.
  - inversion Ha; subst. exfalso. eapply Hdis; eauto.
  - inversion Hb; subst. exfalso. eapply Hdis; eauto.
  - f_equal. eapply IH; eauto.
Qed.

(** ** consequences for [suffix_for] on the map built by [build_groups] *)
Lemma find_group_index i gs n : find_group i gs n = group_index i gs n.
Proof. revert n; induction gs as [|g gs IH]; intros n; cbn; [reflexivity|]. destruct (mem_N i g); auto. Qed.

Lemma group_index_some_in i : forall gs n k,
  group_index i gs n = Some k ->
  exists g, nth_error gs (N.to_nat (k - n)) = Some g /\ In i g /\ (n <= k)%N.
Proof.
  induction gs as [|g gs IH]; intros n k; cbn [group_index]; [discriminate|].
  destruct (mem_N i g) eqn:M.
  - intros E; inversion E; subst. exists g. replace (N.to_nat (k - k)) with O by lia.
    split; [reflexivity|]. split; [apply mem_N_In; exact M|lia].
  - intros E. destruct (IH _ _ E) as (g' & Hn & Hi & Hle). exists g'.
    replace (N.to_nat (k - n)) with (S (N.to_nat (k - (n + 1)))) by lia.
    split; [exact Hn|]. split; [exact Hi|lia].
Qed.

Lemma group_index_in i : forall gs n g, In g gs -> In i g -> exists k, group_index i gs n = Some k.
Proof.
  induction gs as [|g0 gs IH]; intros n g Hg Hi; [destruct Hg|]. cbn [group_index].
  destruct (mem_N i g0) eqn:M; [eexists; reflexivity|].
  destruct Hg as [->|Hg]; [apply mem_N_In in Hi; congruence|]. eapply IH; eauto.
Qed.

Lemma entry_suffix_index i gs : (2 <= List.length gs)%nat -> entry_suffix i gs = group_index i gs 1%N.
Proof.
  destruct gs as [|g1 [|g2 gs]]; cbn [List.length]; try lia. intros _.
  unfold entry_suffix. apply find_group_index.
Qed.

Lemma entry_suffix_short i gs : (List.length gs < 2)%nat -> entry_suffix i gs = None.
Proof. destruct gs as [|g1 [|g2 gs]]; cbn [List.length]; try lia; reflexivity. Qed.

(** the suffix of position [i] is decided by the groups of its own path alone *)
Theorem suffix_for_own r m i p gs :
  build_groups r = Ok m -> entry_at r i p -> In (p, gs) m ->
  suffix_for m i = entry_suffix i gs.
Proof.
  intros H Hp Hin. destruct (build_groups_inv _ _ H) as [ND Hown].
  assert (Hu : forall e, In e m -> entry_suffix i (snd e) <> None -> e = (p, gs)).
  { intros [q gsq] He Hne. cbn [snd] in Hne.
    destruct (entry_suffix i gsq) as [n|] eqn:E; [|congruence].
    apply entry_suffix_some_occurs in E as (g & Hg & Hi).
    pose proof (Hown _ _ _ _ He Hg Hi) as Hq.
    assert (q = p) by (eapply entry_at_fun; [exact Hq|exact Hp]). subst q.
    f_equal. eapply nodup_keys_functional; eauto. }
  destruct (entry_suffix i gs) as [n|] eqn:E.
  - rewrite <- E. apply (suffix_for_local m i) with (e := (p, gs)); [|exact Hin|cbn [snd]; congruence].
    intros e1 e2 n1 n2 H1 H2 E1 E2.
    rewrite (Hu e1 H1) in E1 by congruence. rewrite (Hu e2 H2) in E2 by congruence. congruence.
  - apply suffix_for_none. intros e He. destruct (entry_suffix i (snd e)) eqn:E'; [|reflexivity].
    rewrite (Hu e He) in E' by congruence. cbn [snd] in E'. congruence.
Qed.

Theorem suffix_for_unlisted r m i :
  build_groups r = Ok m -> (forall p, entry_at r i p -> namespace p = []) -> suffix_for m i = None.
Proof.
  intros H Hi. destruct (dedup_groups _ _ H) as (_ & _ & _ & H4 & _).
  apply suffix_for_none. intros [q gsq] He. cbn [snd].
  destruct (entry_suffix i gsq) as [n|] eqn:E; [|reflexivity]. exfalso.
  apply entry_suffix_some_occurs in E as (g & Hg & Hig).
  assert (Hm : In i (all_members m)) by (apply in_all_members; exists q, gsq, g; auto).
  apply H4 in Hm as (p & Hp & Hn). apply Hn, Hi, Hp.
Qed.

(** ** the renaming pass, position by position *)
Lemma rename_go_nth m : forall l idx n e,
  nth_error l n = Some e ->
  nth_error (rename_go m idx l) n =
  Some (fst e, match suffix_for m (idx + N.of_nat n) with
               | Some k => mk_ty (rename_last (t_path (snd e)) k) (t_params (snd e)) (t_def (snd e)) (t_docs (snd e))
               | None => snd e
               end).
Proof.
  induction l as [|[id t] l IH]; intros idx n e Hn; [destruct n; discriminate|].
  cbn [rename_go]. destruct n as [|n]; cbn [nth_error] in *.
  - inversion Hn; subst. replace (idx + N.of_nat 0)%N with idx by lia. reflexivity.
  - rewrite (IH _ _ _ Hn). replace (idx + 1 + N.of_nat n)%N with (idx + N.of_nat (S n))%N by lia. reflexivity.
Qed.

Lemma ensure_unique_nth r r' :
  ensure_unique r = Ok r' ->
  exists m, build_groups r = Ok m /\
    forall n e, nth_error r n = Some e ->
      nth_error r' n =
      Some (fst e, match suffix_for m (N.of_nat n) with
                   | Some k => mk_ty (rename_last (t_path (snd e)) k) (t_params (snd e)) (t_def (snd e)) (t_docs (snd e))
                   | None => snd e
                   end).
Proof.
  rewrite OrderFree.ensure_unique_unfold. intros H.
  apply bind_ok in H as (u & _ & H). apply bind_ok in H as (m & Hm & H). inversion H; subst.
  exists m. split; [exact Hm|]. intros n e Hn. rewrite (rename_go_nth m r 0%N n e Hn). reflexivity.
Qed.

Lemma entry_at_nat r n e : nth_error r n = Some e -> entry_at r (N.of_nat n) (t_path (snd e)).
Proof. intros H. exists e. rewrite Nat2N.id. auto. Qed.

(** the new path of every position, by cases *)
Theorem ensure_unique_path r r' :
  ensure_unique r = Ok r' ->
  exists m, build_groups r = Ok m /\
    forall n e e', nth_error r n = Some e -> nth_error r' n = Some e' ->
      (namespace (t_path (snd e)) = [] /\ t_path (snd e') = t_path (snd e)) \/
      (namespace (t_path (snd e)) <> [] /\
       exists gs, In (t_path (snd e), gs) m /\
         ((List.length gs < 2)%nat /\ t_path (snd e') = t_path (snd e) \/
          (2 <= List.length gs)%nat /\
          exists k, group_index (N.of_nat n) gs 1%N = Some k /\
                    t_path (snd e') = rename_last (t_path (snd e)) k)).
Proof.
  intros H. destruct (ensure_unique_nth _ _ H) as (m & Hm & Hnth). exists m. split; [exact Hm|].
  intros n e e' He He'. rewrite (Hnth _ _ He) in He'. inversion He' as [E]; clear He'.
  pose proof (entry_at_nat _ _ _ He) as Hat.
  destruct (namespace (t_path (snd e))) as [|n0 ns] eqn:Ens.
  - left. split; [reflexivity|]. cbn [snd].
    rewrite (suffix_for_unlisted r m (N.of_nat n) Hm); [reflexivity|].
    intros p Hp. rewrite (entry_at_fun _ _ _ _ Hp Hat). exact Ens.
  - right. split; [discriminate|].
    assert (Hns : namespace (t_path (snd e)) <> []) by (rewrite Ens; discriminate).
    destruct (dedup_member _ _ _ _ Hm Hat Hns) as (gs & g & Hin & Hg & Hi).
    exists gs. split; [exact Hin|]. cbn [snd].
    rewrite (suffix_for_own _ _ _ _ _ Hm Hat Hin).
    destruct (Nat.lt_ge_cases (List.length gs) 2) as [Hlt|Hge].
    + left. split; [exact Hlt|]. rewrite entry_suffix_short by exact Hlt. reflexivity.
    + right. split; [exact Hge|]. rewrite entry_suffix_index by exact Hge.
      destruct (group_index_in _ gs 1%N g Hg Hi) as (k & Hk). exists k. rewrite Hk. split; reflexivity.
Qed.

Lemma groups_functional r m p gs1 gs2 :
  build_groups r = Ok m -> In (p, gs1) m -> In (p, gs2) m -> gs1 = gs2.
Proof.
  intros H. destruct (build_groups_inv _ _ H) as [ND _]. apply nodup_keys_functional; exact ND.
Qed.

(** C04 [minimal] *)
Theorem ensure_unique_minimal r r' :
  ensure_unique r = Ok r' ->
  exists m, build_groups r = Ok m /\
    forall n e e', nth_error r n = Some e -> nth_error r' n = Some e' ->
      (t_path (snd e') <> t_path (snd e) <->
       namespace (t_path (snd e)) <> [] /\
       exists gs, In (t_path (snd e), gs) m /\ (2 <= List.length gs)%nat).
Proof.
  intros H. destruct (ensure_unique_path _ _ H) as (m & Hm & Hp). exists m. split; [exact Hm|].
  intros n e e' He He'.
  destruct (Hp _ _ _ He He') as [[Hn Heq]|(Hn & gs & Hin & [[Hlt Heq]|(Hge & k & Hk & Heq)])].
  - split; [congruence|]. intros (Hn' & _). congruence.
  - split; [congruence|]. intros (_ & gs' & Hin' & Hge).
    rewrite (groups_functional _ _ _ _ _ Hm Hin' Hin) in Hge. lia.
  - split.
    + intros _. split; [exact Hn|]. exists gs. auto.
    + intros _. rewrite Heq. apply rename_last_changes. apply namespace_nonempty; exact Hn.
Qed.

(** C04 [renamed_path] *)
Theorem ensure_unique_renamed_path r r' :
  ensure_unique r = Ok r' ->
  exists m, build_groups r = Ok m /\
    forall n e e' gs, nth_error r n = Some e -> nth_error r' n = Some e' ->
      namespace (t_path (snd e)) <> [] -> In (t_path (snd e), gs) m -> (2 <= List.length gs)%nat ->
      exists k, group_index (N.of_nat n) gs 1%N = Some k /\
                t_path (snd e') = rename_last (t_path (snd e)) k.
Proof.
  intros H. destruct (ensure_unique_path _ _ H) as (m & Hm & Hp). exists m. split; [exact Hm|].
  intros n e e' gs He He' Hn Hin Hge.
  destruct (Hp _ _ _ He He') as [[Hn' _]|(_ & gs' & Hin' & [[Hlt _]|(_ & k & Hk & Heq)])].
  - congruence.
  - rewrite (groups_functional _ _ _ _ _ Hm Hin' Hin) in Hlt. lia.
  - rewrite (groups_functional _ _ _ _ _ Hm Hin' Hin) in Hk. exists k. auto.
Qed.

(** C04 [same_group] : entries that shared a namespaced path share one afterwards iff they
    are in the same group *)
Theorem ensure_unique_same_group_iff r r' :
  ensure_unique r = Ok r' ->
  exists m, build_groups r = Ok m /\
    forall i j ei ej ei' ej',
      nth_error r i = Some ei -> nth_error r j = Some ej ->
      nth_error r' i = Some ei' -> nth_error r' j = Some ej' ->
      t_path (snd ei) = t_path (snd ej) -> namespace (t_path (snd ei)) <> [] ->
      (t_path (snd ei') = t_path (snd ej') <->
       exists gs g, In (t_path (snd ei), gs) m /\ In g gs /\ In (N.of_nat i) g /\ In (N.of_nat j) g).
Proof.
  intros H. destruct (ensure_unique_path _ _ H) as (m & Hm & Hp). exists m. split; [exact Hm|].
  intros i j ei ej ei' ej' Hi Hj Hi' Hj' Hsame Hn.
  pose proof (entry_at_nat _ _ _ Hi) as Hati. pose proof (entry_at_nat _ _ _ Hj) as Hatj.
  assert (Hnj : namespace (t_path (snd ej)) <> []) by (rewrite <- Hsame; exact Hn).
  destruct (dedup_groups _ _ Hm) as (D1 & D2 & D3 & D4 & D5 & _).
  destruct (Hp _ _ _ Hi Hi') as [[Hn' _]|(_ & gs & Hin & Ci)]; [congruence|].
  destruct (Hp _ _ _ Hj Hj') as [[Hn' _]|(_ & gsj & Hinj & Cj)]; [congruence|].
  rewrite <- Hsame in Hinj, Cj. rewrite (groups_functional _ _ _ _ _ Hm Hinj Hin) in Cj. clear gsj Hinj.
  destruct (dedup_member _ _ _ _ Hm Hati Hn) as (gs1 & gi & Hin1 & Hgi & Hii).
  rewrite (groups_functional _ _ _ _ _ Hm Hin1 Hin) in Hgi. clear gs1 Hin1.
  destruct (dedup_member _ _ _ _ Hm Hatj Hnj) as (gs2 & gj & Hin2 & Hgj & Hjj).
  rewrite <- Hsame in Hin2. rewrite (groups_functional _ _ _ _ _ Hm Hin2 Hin) in Hgj. clear gs2 Hin2.
  (* two groups of this map sharing a member are the same list position, hence equal *)
  assert (Huniq : forall g g' x, In g gs -> In g' gs -> In x g -> In x g' -> g = g').
  { intros g g' x Hg Hg' Hx Hx'.
    assert (ND : NoDup (concat gs)).
    { apply in_split in Hin as (m1 & m2 & ->). rewrite all_members_app, all_members_cons in D3.
      apply NoDup_app_inv in D3 as (_ & D3 & _). apply NoDup_app_inv in D3 as (D3 & _). exact D3. }
    apply In_nth_error in Hg as (a & Ha). apply In_nth_error in Hg' as (b & Hb).
    assert (a = b) by (eapply NoDup_concat_unique; eauto). subst b. congruence. }
  destruct Ci as [[Hlti Ei]|(Hgei & ki & Hki & Ei)], Cj as [[Hltj Ej]|(Hgej & kj & Hkj & Ej)]; try lia.
  - (* a single group *)
    split; [|intros _; congruence]. intros _.
    exists gs, gi. split; [exact Hin|]. split; [exact Hgi|]. split; [exact Hii|].
    destruct gs as [|g0 [|g1 gs]]; cbn [List.length] in Hlti; try lia.
    + destruct Hgi.
    + destruct Hgi as [<-|[]]. destruct Hgj as [<-|[]]. exact Hjj.
  - split.
    + intros E. rewrite Ei, Ej in E. apply rename_last_inj in E. subst kj.
      apply group_index_some_in in Hki as (g & Hg & Hgi' & _).
      apply group_index_some_in in Hkj as (g' & Hg' & Hgj' & _).
      rewrite Hg in Hg'. inversion Hg'; subst g'.
      exists gs, g. split; [exact Hin|]. split; [eapply nth_error_In; exact Hg|]. auto.
    + intros (gs' & g & Hin' & Hg & Hig & Hjg).
      rewrite (groups_functional _ _ _ _ _ Hm Hin' Hin) in Hg. clear gs' Hin'.
      rewrite Ei, Ej. f_equal.
      (* both indices are found in the same (first) group containing them *)
      assert (G : forall gs0 n0, (forall g1 g2 x, In g1 gs0 -> In g2 gs0 -> In x g1 -> In x g2 -> g1 = g2) ->
                  In g gs0 -> forall a b, group_index (N.of_nat i) gs0 n0 = Some a ->
                  group_index (N.of_nat j) gs0 n0 = Some b -> a = b).
      { clear - Hig Hjg. induction gs0 as [|g0 gs0 IH]; intros n0 Hu Hg a b; [destruct Hg|].
        cbn [group_index]. destruct (mem_N (N.of_nat i) g0) eqn:Mi, (mem_N (N.of_nat j) g0) eqn:Mj.
        - congruence.
        - intros _ _. exfalso. apply mem_N_In in Mi.
          assert (g0 = g) by (apply (Hu g0 g (N.of_nat i)); [left; reflexivity|exact Hg|exact Mi|exact Hig]).
          subst g0. apply mem_N_In in Hjg. congruence.
        - intros _ _. exfalso. apply mem_N_In in Mj.
          assert (g0 = g) by (apply (Hu g0 g (N.of_nat j)); [left; reflexivity|exact Hg|exact Mj|exact Hjg]).
          subst g0. apply mem_N_In in Hig. congruence.
        - destruct Hg as [->|Hg]; [apply mem_N_In in Hig; congruence|].
          apply IH; [|exact Hg]. intros g1 g2 x H1 H2. apply Hu; right; assumption. }
      eapply (G gs 1%N Huniq Hg); eassumption.
Qed.

Corollary ensure_unique_same_group_same_path r r' m i j ei ej ei' ej' gs g :
  ensure_unique r = Ok r' -> build_groups r = Ok m ->
  nth_error r i = Some ei -> nth_error r j = Some ej ->
  nth_error r' i = Some ei' -> nth_error r' j = Some ej' ->
  In (t_path (snd ei), gs) m -> In g gs -> In (N.of_nat i) g -> In (N.of_nat j) g ->
  t_path (snd ei') = t_path (snd ej').
Proof.
  intros H Hm Hi Hj Hi' Hj' Hin Hg Hig Hjg.
  destruct (ensure_unique_same_group_iff _ _ H) as (m' & Hm' & Hiff).
  rewrite Hm in Hm'. inversion Hm'; subst m'.
  destruct (dedup_groups _ _ Hm) as (_ & _ & _ & D4 & D5 & _).
  pose proof (entry_at_nat _ _ _ Hi) as Hati. pose proof (entry_at_nat _ _ _ Hj) as Hatj.
  assert (Hsame : t_path (snd ei) = t_path (snd ej)).
  { eapply entry_at_fun; [|exact Hatj]. exact (D5 _ _ _ _ Hin Hg Hjg). }
  assert (Hn : namespace (t_path (snd ei)) <> []).
  { assert (Hmem : In (N.of_nat i) (all_members m)) by (apply in_all_members; exists (t_path (snd ei)), gs, g; auto).
    apply D4 in Hmem as (p & Hp & Hn). rewrite (entry_at_fun _ _ _ _ Hati Hp). exact Hn. }
  apply (Hiff i j ei ej ei' ej' Hi Hj Hi' Hj' Hsame Hn). exists gs, g. auto.
Qed.

Corollary ensure_unique_groups_separated r r' m i j ei ej ei' ej' gs gi gj :
  ensure_unique r = Ok r' -> build_groups r = Ok m ->
  nth_error r i = Some ei -> nth_error r j = Some ej ->
  nth_error r' i = Some ei' -> nth_error r' j = Some ej' ->
  In (t_path (snd ei), gs) m -> In gi gs -> In gj gs -> In (N.of_nat i) gi -> In (N.of_nat j) gj ->
  gi <> gj -> t_path (snd ei') <> t_path (snd ej').
Proof.
  intros H Hm Hi Hj Hi' Hj' Hin Hgi Hgj Hii Hjj Hne E.
  destruct (ensure_unique_same_group_iff _ _ H) as (m' & Hm' & Hiff).
  rewrite Hm in Hm'. inversion Hm'; subst m'.
  destruct (dedup_groups _ _ Hm) as (_ & _ & D3 & D4 & D5 & _).
  pose proof (entry_at_nat _ _ _ Hi) as Hati. pose proof (entry_at_nat _ _ _ Hj) as Hatj.
  assert (Hsame : t_path (snd ei) = t_path (snd ej)).
  { eapply entry_at_fun; [|exact Hatj]. exact (D5 _ _ _ _ Hin Hgj Hjj). }
  assert (Hn : namespace (t_path (snd ei)) <> []).
  { assert (Hmem : In (N.of_nat i) (all_members m)) by (apply in_all_members; exists (t_path (snd ei)), gs, gi; auto).
    apply D4 in Hmem as (p & Hp & Hn). rewrite (entry_at_fun _ _ _ _ Hati Hp). exact Hn. }
  apply (Hiff i j ei ej ei' ej' Hi Hj Hi' Hj' Hsame Hn) in E as (gs' & g & Hin' & Hg & Hig & Hjg).
  rewrite (groups_functional _ _ _ _ _ Hm Hin' Hin) in Hg. clear gs' Hin'.
  assert (ND : NoDup (concat gs)).
  { apply in_split in Hin as (m1 & m2 & ->). rewrite all_members_app, all_members_cons in D3.
    apply NoDup_app_inv in D3 as (_ & D3 & _). apply NoDup_app_inv in D3 as (D3 & _). exact D3. }
  apply Hne.
  apply In_nth_error in Hg as (c & Hc). apply In_nth_error in Hgi as (a & Ha).
  apply In_nth_error in Hgj as (b & Hb).
  assert (a = c) by (eapply NoDup_concat_unique; eauto).
  assert (b = c) by (eapply NoDup_concat_unique; eauto). subst. congruence.
Qed.

(** ** the split of a family in terms of the comparison alone *)
Lemma types_equal_res_refl r a : types_equal_res r a a = Ok true.
Proof. unfold types_equal_res. cbn [teq]. rewrite N.eqb_refl. reflexivity. Qed.

Lemma SS_lt_hd_least (g : list N) i : StronglySorted N.lt g -> In i g -> (group_first g <= i)%N.
Proof.
  intros H Hi. destruct g as [|x g]; [destruct Hi|]. cbn [group_first hd].
  destruct Hi as [<-|Hi]; [lia|]. inversion H as [|? ? _ Hall]; subst.
  rewrite Forall_forall in Hall. specialize (Hall i Hi). lia.
Qed.

(** the member every group is compared with first -- the first member of the first group -- is
    the least position carrying the path *)
Theorem dedup_first_least r m p gs i :
  build_groups r = Ok m -> In (p, gs) m -> entry_at r i p ->
  (group_first (hd [] gs) <= i)%N.
Proof.
  intros H Hin Hi. destruct (dedup_groups _ _ H) as (_ & D2 & _ & D4 & D5 & _ & _ & D8 & _).
  destruct (D2 _ _ Hin) as [Hne Hall]. destruct (D8 _ _ Hin) as [S1 S2].
  assert (Hns : namespace p <> []).
  { destruct gs as [|g0 gs0]; [congruence|]. inversion Hall as [|? ? Hg0 _]; subst.
    destruct g0 as [|j g0]; [congruence|].
    assert (Hm : In j (all_members m)).
    { apply in_all_members. exists p, ((j :: g0) :: gs0), (j :: g0).
      split; [exact Hin|]. split; left; reflexivity. }
    apply D4 in Hm as (q & Hq & Hn).
    assert (Hj : entry_at r j p) by (apply (D5 p ((j :: g0) :: gs0) (j :: g0) j Hin); left; reflexivity).
    rewrite (entry_at_fun _ _ _ _ Hj Hq). exact Hn. }
  destruct (dedup_member _ _ _ _ H Hi Hns) as (gs' & g & Hin' & Hg & Hig).
  rewrite (groups_functional _ _ _ _ _ H Hin' Hin) in Hg. clear gs' Hin'.
  rewrite Forall_forall in S1. pose proof (SS_lt_hd_least g i (S1 g Hg) Hig) as L1.
  destruct gs as [|g0 gs0]; [destruct Hg|]. cbn [hd].
  destruct Hg as [->|Hg]; [exact L1|].
  cbn [map] in S2. inversion S2 as [|? ? _ Hall2]; subst. rewrite Forall_forall in Hall2.
  specialize (Hall2 (group_first g) (in_map group_first gs0 g Hg)). lia.
Qed.

(** a family is split into two or more groups iff some position carrying the path is judged
    different from the first one *)
Theorem dedup_split_iff r m p gs :
  build_groups r = Ok m -> In (p, gs) m ->
  ((2 <= List.length gs)%nat <->
   exists j, entry_at r j p /\ types_equal_res r j (group_first (hd [] gs)) = Ok false).
Proof.
  intros H Hin. destruct (dedup_groups _ _ H) as (_ & D2 & _ & D4 & D5 & D6 & D7 & _).
  destruct (D2 _ _ Hin) as [Hne Hall]. split.
  - intros Hl. destruct gs as [|g1 [|g2 gs0]]; cbn [List.length] in Hl; try lia. cbn [hd].
    inversion Hall as [|? ? _ Hall']; subst. inversion Hall' as [|? ? Hg2 _]; subst.
    exists (group_first g2). split.
    + apply (D5 p (g1 :: g2 :: gs0) g2); [exact Hin|right; left; reflexivity|apply group_first_in; exact Hg2].
    + apply (D7 p (g1 :: g2 :: gs0) [g1] g2 gs0 g1); [exact Hin|reflexivity|left; reflexivity|].
      apply group_first_in; exact Hg2.
  - intros (j & Hj & Hf).
    destruct (Nat.lt_ge_cases (List.length gs) 2) as [Hlt|Hge]; [exfalso|exact Hge].
    destruct gs as [|g1 [|g2 gs0]]; cbn [List.length] in Hlt; try lia; [congruence|]. cbn [hd] in Hf.
    assert (Hns : namespace p <> []).
    { inversion Hall as [|? ? Hg1 _]; subst. destruct g1 as [|i g1]; [congruence|].
      assert (Hm : In i (all_members m)).
      { apply in_all_members. exists p, [i :: g1], (i :: g1). split; [exact Hin|]. split; left; reflexivity. }
      apply D4 in Hm as (q & Hq & Hn).
      assert (Hi : entry_at r i p) by (apply (D5 p [i :: g1] (i :: g1) i Hin); left; reflexivity).
      rewrite (entry_at_fun _ _ _ _ Hi Hq). exact Hn. }
    destruct (dedup_member _ _ _ _ H Hj Hns) as (gs' & g & Hin' & Hg & Hjg).
    rewrite (groups_functional _ _ _ _ _ H Hin' Hin) in Hg. destruct Hg as [<-|[]].
    destruct g1 as [|f g1]; [destruct Hjg|]. cbn [group_first hd] in Hf. destruct Hjg as [<-|Hjg].
    + rewrite types_equal_res_refl in Hf. discriminate.
    + pose proof (D6 p [f :: g1] (f :: g1) j Hin (or_introl eq_refl) Hjg) as Ht.
      cbn [group_first hd] in Ht. rewrite Ht in Hf. discriminate.
Qed.

(** ** non-vacuity *)
Example dedup_example_groups :
  build_groups dedup_example_reg =
  Ok [ (["a"; "Foo"], [[0; 3]; [2]]%N); (["b"; "Bar"], [[1]]%N) ].
Proof. vm_compute. reflexivity. Qed.

Example dedup_example_paths :
  rmap (map (fun e => t_path (snd e))) (ensure_unique dedup_example_reg) =
  Ok [ ["a"; "Foo1"]; ["b"; "Bar"]; ["a"; "Foo2"]; ["a"; "Foo1"]; ["Foo"]; []; [] ].
Proof. vm_compute. reflexivity. Qed.
