(** C05: every instantiation's skeleton is the normalised source definition (fragment). *)
From Coq Require Import List NArith String Bool Lia Arith.
From V Require Import Base.Util Base.Strings Base.Result Model.Registry Model.Settings Model.Subst
  Model.TypePath Model.Derives Model.Generate Model.WellFormed Model.Shape Model.Program Model.ProgramSkel
  Checkers.Parse Checkers.Sem
  Proofs.GenProofs Proofs.ResolveTotal Proofs.GenTotal Proofs.ClosedProofs.
Import ListNotations.
Open Scope string_scope. Open Scope list_scope.

(** ** the local list fixpoints of Model/Program.v as named functions *)
Fixpoint live_go (l : list src) (sk : list bool) : list src :=
  match l, sk with
  | x :: l', false :: sk' => x :: live_go l' sk'
  | _ :: l', true :: sk' => live_go l' sk'
  | x :: l', [] => x :: live_go l' []
  | [], _ => []
  end.

Fixpoint sizes (l : list src) : nat :=
  match l with [] => O | x :: l' => (src_size x + sizes l')%nat end.

Lemma live_args_eq defs d sd xs :
  nth_error defs d = Some sd -> live_args defs d xs = live_go xs (map snd (sd_params sd)).
Proof.
  intros H. unfold live_args. rewrite H. generalize (map snd (sd_params sd)).
  induction xs as [|x xs IH]; intros sk; [destruct sk; reflexivity|].
  destruct sk as [|[|] sk]; cbn; rewrite ?IH; reflexivity.
Qed.

Lemma live_go_incl : forall xs sk x, In x (live_go xs sk) -> In x xs.
Proof.
  induction xs as [|y xs IH]; intros sk x H; [destruct sk; destruct H|].
  destruct sk as [|[|] sk]; cbn [live_go] in H.
  - destruct H as [E|H]; [left; exact E|right; eapply IH; eauto].
  - right; eapply IH; eauto.
  - destruct H as [E|H]; [left; exact E|right; eapply IH; eauto].
Qed.

Lemma src_size_app d xs : src_size (SApp d xs) = S (sizes xs).
Proof. reflexivity. Qed.
Lemma src_size_tup xs : src_size (STup xs) = S (sizes xs).
Proof. reflexivity. Qed.
Lemma sizes_In x xs : In x xs -> (src_size x <= sizes xs)%nat.
Proof.
  induction xs as [|y xs IH]; intros H; [destruct H|]. cbn [sizes].
  destruct H as [->|H]; [lia|]. specialize (IH H). lia.
Qed.

Section G.
  Variable args : list src.
  Definition cs (x : src) : src := canon (subst_src args x).

  Lemma cs_app d xs : cs (SApp d xs) = SApp d (map cs xs).
  Proof.
    unfold cs. cbn [subst_src canon]. f_equal.
    induction xs as [|x xs IH]; [reflexivity|]. cbn [map]. rewrite <- IH. reflexivity.
  Qed.
  Lemma cs_tup xs : cs (STup xs) = STup (map cs xs).
  Proof.
    unfold cs. cbn [subst_src canon]. f_equal.
    induction xs as [|x xs IH]; [reflexivity|]. cbn [map]. rewrite <- IH. reflexivity.
  Qed.
End G.

Lemma src_tpath_app defs s otp isf d sd xs :
  nth_error defs d = Some sd ->
  src_tpath defs s otp isf (SApp d xs) =
  TPath (rel_path (s_root s :: sd_path sd))
        (map (src_tpath defs s otp false) (live_go xs (map snd (sd_params sd)))).
Proof.
  intros H. cbn [src_tpath]. rewrite H. f_equal. generalize (map snd (sd_params sd)).
  induction xs as [|x xs IH]; intros sk; [destruct sk; reflexivity|].
  destruct sk as [|[|] sk]; cbn [live_go map]; rewrite ?IH; reflexivity.
Qed.

Lemma src_tpath_tup defs s otp isf xs :
  src_tpath defs s otp isf (STup xs) = TTuple (map (src_tpath defs s otp false) xs).
Proof.
  reflexivity.
Qed.

Lemma components_S n defs t :
  components_fuel (S n) defs t =
  t :: match t with
       | SApp d xs => flat_map (components_fuel n defs) (live_args defs d xs)
       | STup ts => flat_map (components_fuel n defs) ts
       | SVec x | SVecDeque x | SArray _ x | SCompactT x | SBox x | SOpt x | SBTreeSet x | SCow x | SRange x =>
           components_fuel n defs x
       | SRes a b | SBTreeMap a b => components_fuel n defs a ++ components_fuel n defs b
       | SBitVec st _ => [SPrimT st]
       | _ => []
       end.
Proof. reflexivity. Qed.

Lemma src_params_S n defs t :
  src_params_fuel (S n) defs t =
  match t with
  | SParam i => [i]
  | SApp d args => flat_map (src_params_fuel n defs) (live_args defs d args)
  | STup ts => flat_map (src_params_fuel n defs) ts
  | SVec t | SVecDeque t | SArray _ t | SCompactT t | SBox t | SOpt t | SBTreeSet t | SCow t | SRange t =>
      src_params_fuel n defs t
  | SRes a b | SBTreeMap a b => src_params_fuel n defs a ++ src_params_fuel n defs b
  | SPrimT _ | SBitVec _ _ => []
  end.
Proof. reflexivity. Qed.

Lemma find_parent_none parents id orig :
  (forall p, In p parents -> tpi_id p <> id) -> find_parent parents id orig = None.
Proof.
  intros H. unfold find_parent.
  destruct (find _ parents) as [q|] eqn:E; [|reflexivity].
  apply find_some in E as [Hin Hq]. apply andb_prop in Hq as [Hq _]. apply N.eqb_eq in Hq.
  exfalso. exact (H q Hin Hq).
Qed.

Lemma find_exists {A} (f : A -> bool) l x : In x l -> f x = true -> exists y, find f l = Some y.
Proof.
  induction l as [|a l IH]; intros Hin Hf; [contradiction|]. cbn [find].
  destruct (f a) eqn:E; [eauto|]. destruct Hin as [->|Hin]; [congruence|auto].
Qed.

Lemma is_cow_last p : p <> [] -> is_cow (path_ident p) = String.eqb (last p "") "Cow".
Proof. destruct p; [congruence|reflexivity]. Qed.

Lemma param_ids_eq t :
  param_ids t = flat_map (fun p => match tp_ty p with Some i => [i] | None => [] end) (t_params t).
Proof. reflexivity. Qed.


(** a path resolved without generic arguments is a bare path *)
Lemma tpmws_shape s p t : type_path_maybe_with_substitutes s p [] = Ok t -> exists toks, t = TPath toks [].
Proof.
  unfold type_path_maybe_with_substitutes, for_path_with_params. intros H.
  destruct (subs_get (s_subs s) p) as [sub|].
  - destruct (su_map sub) as [|m].
    + inversion H. eauto.
    + set (sel := flat_map _ m) in H.
      assert (E : sel = []).
      { subst sel. clear H. induction m as [|[id idx] m IH]; [reflexivity|]. cbn [flat_map].
        destruct idx; cbn [nth_error app]; exact IH. }
      rewrite E in H. inversion H. eauto.
  - apply bind_ok in H as (q & _ & H). inversion H. eauto.
Qed.

Lemma cs_not_cow args : forall x,
  match unbox x with SCow _ | SParam _ => False | _ => True end -> forall y, cs args x <> SCow y.
Proof.
  induction x; intros H y; cbn [unbox] in H; try (unfold cs; cbn [subst_src canon]; discriminate).
  - destruct H.
  - unfold cs. cbn [subst_src canon]. apply IHx. exact H.
  - destruct H.
Qed.

Lemma components_self defs x n : (src_size x <= n)%nat -> In x (components_fuel n defs x).
Proof.
  intros H. destruct n as [|n]; [destruct x; cbn [src_size] in H; lia|].
  rewrite components_S. left; reflexivity.
Qed.

Lemma unbox_param defs i : forall x k, (src_size x <= k)%nat -> unbox x = SParam i ->
  x = SParam i \/ In (SBox (SParam i)) (components_fuel k defs x).
Proof.
  induction x; intros k Hs H; cbn [unbox] in H; try discriminate.
  - left. exact H.
  - right. destruct k as [|k]; [cbn [src_size] in Hs; lia|]. rewrite components_S. cbn [src_size] in Hs.
    destruct (IHx k ltac:(lia) H) as [->|Hin]; [left; reflexivity|right; exact Hin].
Qed.

Section Core.
  Variable defs : list sdef.
  Variable L : N -> option src.
  Variable r : registry.
  Variable s : settings.
  Variable otp : bool -> tpath.
  Hypothesis HR : RegistryOf defs L r.
  Hypothesis Hdefs : forall sd, In sd defs -> def_okb s sd = true.
  Hypothesis Hprel : prelude_okb s = true.
  Hypothesis Hord : order_resolves s otp.

  (** the instantiation whose entry is being turned into an item *)
  Variable sd : sdef.
  Variable args : list src.
  Variable parents : list tparam_ir.
  Hypothesis Hlen : List.length args = List.length (sd_params sd).
  Hypothesis Hcanon : forall a, In a args -> canon a = a.

  Definition live (a : src) : Prop :=
    exists i nm, nth_error (sd_params sd) i = Some (nm, false) /\ nth_error args i = Some a.

  Hypothesis Hpar : forall p, In p parents ->
    exists i nm a, nth_error (sd_params sd) i = Some (nm, false) /\ nth_error args i = Some a /\
                   tpi_idx p = N.of_nat i /\ tpi_orig p = nm /\ L (tpi_id p) = Some a.
  Hypothesis Hpar' : forall i nm a,
    nth_error (sd_params sd) i = Some (nm, false) -> nth_error args i = Some a ->
    exists p, In p parents /\ tpi_idx p = N.of_nat i /\ tpi_orig p = nm /\ L (tpi_id p) = Some a.
  Hypothesis Hdist : forall i j ni nj a,
    nth_error (sd_params sd) i = Some (ni, false) -> nth_error args i = Some a ->
    nth_error (sd_params sd) j = Some (nj, false) -> nth_error args j = Some a -> i = j.

  Definition notlive (c : src) : Prop := forall a, live a -> cs args c <> a.

  Let F (fuel : nat) (id : N) : result tpath := resolve_rec r s fuel id false parents None.
  Let nt := src_tpath defs s otp.

  Lemma no_parent id c orig :
    L id = Some (cs args c) -> notlive c -> find_parent parents id orig = None.
  Proof.
    intros Hl Hn. apply find_parent_none. intros p Hp E.
    destruct (Hpar p Hp) as (i & nm & a & H1 & H2 & _ & _ & H5).
    rewrite E, Hl in H5. inversion H5 as [H6]. apply (Hn a); [exists i, nm; auto|exact H6].
  Qed.

  Lemma entry id c : L id = Some c -> exists t, resolve r id = Some t /\ entry_of defs L r c t.
  Proof. destruct HR as (H & _ & _). apply H. Qed.

  Lemma L_inj i j c : L i = Some c -> L j = Some c -> i = j.
  Proof. destruct HR as (_ & _ & H). apply H. Qed.

  Lemma resolve_type_entry id t : resolve r id = Some t -> resolve_type r id = Ok t.
  Proof. unfold resolve_type. intros ->. reflexivity. Qed.

  Lemma builtin_not_cow t d : builtin t d -> cow_step r t = Ok t /\ param_ids t = [] /\ t_def t = d.
  Proof.
    intros (Hp & Hps & Hd). rewrite cow_step_eq, Hp. cbn [path_ident is_cow].
    rewrite param_ids_eq, Hps. auto.
  Qed.

  Lemma prelude_sub nm : In nm prelude_names -> subs_get (s_subs s) [nm] = None.
  Proof.
    intros H. unfold prelude_okb in Hprel. rewrite forallb_forall in Hprel. specialize (Hprel nm H).
    destruct (subs_get (s_subs s) [nm]); [discriminate|reflexivity].
  Qed.

  Lemma otp_erase lsb : erase_tpath (otp lsb) = otp lsb.
  Proof. destruct (tpmws_shape _ _ _ (Hord lsb)) as (toks & ->). reflexivity. Qed.

  (** a prelude entry [Option / Result / BTreeMap / BTreeSet / Range]: its table path applied to
      its resolved parameters *)
  Lemma resolve_prelude fuel id isf orig t0 nm toks t :
    find_parent parents id orig = None ->
    resolve r id = Some t0 -> t_path t0 = [nm] -> In nm prelude_names ->
    is_composite_or_variant (t_def t0) = true ->
    assoc_str (prelude_table (alloc_tokens (s_alloc s))) nm = Some toks ->
    resolve_rec r s (S fuel) id isf parents orig = Ok t ->
    exists ps, mapM (F fuel) (param_ids t0) = Ok ps /\ t = TPath toks ps.
  Proof.
    intros Hf Hr Hp Hin Hcv Ha Hres. rewrite resolve_rec_S, Hf in Hres.
    rewrite (resolve_type_entry _ _ Hr) in Hres. cbn [bind] in Hres.
    assert (Hc : cow_step r t0 = Ok t0).
    { rewrite cow_step_eq, Hp. cbn [path_ident last is_cow].
      destruct Hin as [<-|[<-|[<-|[<-|[<-|[]]]]]]; reflexivity. }
    rewrite Hc in Hres. cbn [bind] in Hres. apply bind_ok in Hres as (ps & Hps & Hres).
    exists ps. split; [exact Hps|].
    assert (Hcv' : resolve_def r s fuel isf parents t0 ps = type_path_maybe_with_substitutes s (t_path t0) ps).
    { unfold resolve_def. destruct (t_def t0); try discriminate Hcv; reflexivity. }
    rewrite Hcv' in Hres. unfold type_path_maybe_with_substitutes, for_path_with_params in Hres.
    rewrite Hp, (prelude_sub nm Hin) in Hres. unfold from_type_def_path in Hres. rewrite Ha in Hres.
    cbn [bind] in Hres. inversion Hres. reflexivity.
  Qed.

  Lemma resolve_prim fuel id isf orig p t :
    find_parent parents id orig = None -> L id = Some (SPrimT p) ->
    resolve_rec r s (S fuel) id isf parents orig = Ok t -> t = TPrim p.
  Proof.
    intros Hf Hl Hres. rewrite resolve_rec_S, Hf in Hres.
    destruct (entry _ _ Hl) as (t0 & Hr0 & Hb). destruct (builtin_not_cow _ _ Hb) as (Hc & Hp & Hd).
    rewrite (resolve_type_entry _ _ Hr0) in Hres. cbn [bind] in Hres. rewrite Hc in Hres. cbn [bind] in Hres.
    rewrite Hp in Hres. cbn [mapM bind] in Hres. unfold resolve_def in Hres. rewrite Hd in Hres.
    inversion Hres; reflexivity.
  Qed.

  (** the bit-order marker (the only unlabelled entries) resolves to what the settings say *)
  Lemma resolve_order fuel io lsb ot t :
    L io = None -> resolve r io = Some ot -> order_marker lsb ot ->
    resolve_rec r s (S fuel) io false parents None = Ok t -> t = otp lsb.
  Proof.
    intros Hl Hr (Hp & Hps & Hd) Hres. rewrite resolve_rec_S in Hres.
    rewrite find_parent_none in Hres.
    2:{ intros p Hp' E. destruct (Hpar p Hp') as (i & nm & a & _ & _ & _ & _ & H5).
        rewrite E, Hl in H5. discriminate. }
    rewrite (resolve_type_entry _ _ Hr) in Hres. cbn [bind] in Hres.
    assert (Hc : cow_step r ot = Ok ot). { rewrite cow_step_eq, Hp. destruct lsb; reflexivity. }
    rewrite Hc in Hres. cbn [bind] in Hres. rewrite param_ids_eq, Hps in Hres. cbn [flat_map mapM bind] in Hres.
    unfold resolve_def in Hres. rewrite Hd, Hp in Hres. fold (order_path_of lsb) in Hres.
    rewrite (Hord lsb) in Hres. inversion Hres; reflexivity.
  Qed.

  (** only the label [Cow<..>] has an entry the generator looks through *)
  Lemma entry_not_cow c t0 : entry_of defs L r c t0 -> (forall y, c <> SCow y) -> cow_step r t0 = Ok t0.
  Proof.
    intros He Hc. rewrite cow_step_eq.
    assert (H : is_cow (path_ident (t_path t0)) = false); [|rewrite H; reflexivity].
    destruct c; cbn [entry_of] in He.
    - destruct He.
    - destruct He as (sd' & Hsd' & Hpath & _). rewrite Hpath.
      pose proof (Hdefs sd' (nth_error_In _ _ Hsd')) as Hok. unfold def_okb in Hok.
      apply andb_prop in Hok as [Hok Hok4]. apply andb_prop in Hok as [Hok _]. apply andb_prop in Hok as [_ Hok2].
      destruct (sd_path sd') as [|pa [|pb pl]] eqn:Epath; try discriminate Hok2.
      rewrite is_cow_last by discriminate. apply negb_true_iff in Hok4. exact Hok4.
    - destruct He as (e & (Hp & _) & _). rewrite Hp. reflexivity.
    - destruct He.
    - destruct He as (e & (Hp & _) & _). rewrite Hp. reflexivity.
    - destruct He as (e & (Hp & _) & _). rewrite Hp. reflexivity.
    - destruct He as (Hp & _). rewrite Hp. reflexivity.
    - destruct He as (e & (Hp & _) & _). rewrite Hp. reflexivity.
    - destruct He.
    - destruct He as (e & _ & Hp & _). rewrite Hp. reflexivity.
    - destruct He as (x & y & _ & _ & Hp & _). rewrite Hp. reflexivity.
    - destruct He as (ik & iv & iseq & _ & _ & _ & Hp & _). rewrite Hp. reflexivity.
    - destruct He as (e & iseq & _ & _ & Hp & _). rewrite Hp. reflexivity.
    - exfalso. eapply Hc. reflexivity.
    - destruct He as (e & _ & Hp & _). rewrite Hp. reflexivity.
    - destruct He as (ist & io & ot & (Hp & _) & _). rewrite Hp. reflexivity.
  Qed.

  (** resolved parameters of an application, position by position *)
  Lemma app_params fuel : forall (pl : list (string * bool)) (xs : list src) (tps : list tparam) ps,
    List.length xs = List.length pl ->
    Forall2 (param_of L) (combine pl (map (cs args) xs)) tps ->
    mapM (F fuel) (flat_map (fun p => match tp_ty p with Some i => [i] | None => [] end) tps) = Ok ps ->
    (forall x id t, In x (live_go xs (map snd pl)) -> L id = Some (cs args x) -> F fuel id = Ok t ->
                    erase_tpath t = nt false x) ->
    map erase_tpath ps = map (nt false) (live_go xs (map snd pl)).
  Proof.
    induction pl as [|[nm sk] pl IH]; intros xs tps ps Hl HF HM Hx.
    - destruct xs; [|discriminate]. cbn [map combine] in HF. inversion HF; subst.
      cbn [flat_map mapM] in HM. inversion HM; subst. reflexivity.
    - destruct xs as [|x xs]; [discriminate|]. cbn [map combine] in HF.
      inversion HF as [|pa tp l l' Hpa Hrest]; subst. destruct Hpa as [_ Hty]. cbn [fst snd] in Hty.
      cbn [List.length] in Hl. injection Hl as Hl.
      cbn [flat_map] in HM. cbn [map snd live_go].
      destruct sk.
      + rewrite Hty in HM. cbn [app] in HM. apply (IH xs l' ps Hl Hrest HM).
        intros x' id t Hin. apply Hx. cbn [map snd live_go]. exact Hin.
      + destruct Hty as (id & Hty & Hlab). rewrite Hty in HM. cbn [app mapM] in HM.
        apply bind_ok in HM as (y & Hy & HM). apply bind_ok in HM as (ys & Hys & HM).
        inversion HM; subst. cbn [map]. f_equal.
        * eapply (Hx x id y); [left; reflexivity|exact Hlab|exact Hy].
        * apply (IH xs l' ys Hl Hrest Hys). intros x' id' t Hin. apply Hx. right. exact Hin.
  Qed.

  Lemma tup_elems fuel : forall (xs : list src) (es : list N) l,
    Forall2 (lab L) es (map (cs args) xs) ->
    mapM (F fuel) es = Ok l ->
    (forall x id t, In x xs -> L id = Some (cs args x) -> F fuel id = Ok t -> erase_tpath t = nt false x) ->
    map erase_tpath l = map (nt false) xs.
  Proof.
    induction xs as [|x xs IH]; intros es l HF HM Hx.
    - inversion HF; subst. cbn [mapM] in HM. inversion HM; subst. reflexivity.
    - cbn [map] in HF. inversion HF as [|e c es' cs' He Hrest]; subst.
      cbn [mapM] in HM. apply bind_ok in HM as (y & Hy & HM). apply bind_ok in HM as (ys & Hys & HM).
      inversion HM; subst. cbn [map]. f_equal.
      + eapply (Hx x e y); [left; reflexivity|exact He|exact Hy].
      + apply (IH es' ys Hrest Hys). intros x' id t Hin. apply Hx. right; exact Hin.
  Qed.

  (** the core: resolving the id labelled with the closed instance of a source type [c] of
      the fragment, under the parameters of the instantiation, gives - up to the ids stored in
      [Param] nodes - the normalised path of [c] *)
  Lemma resolve_src : forall n c,
    (src_size c <= n)%nat -> no_cow_cow c = true ->
    (forall c', In c' (components_fuel n defs c) -> is_param c' = false -> notlive c') ->
    (forall c', In c' (components_fuel n defs c) ->
                match c' with SBox (SParam _) | SCow (SParam _) => False | _ => True end) ->
    (forall i nm, In i (src_params_fuel n defs c) -> nth_error (sd_params sd) i <> Some (nm, true)) ->
    forall fuel id isf orig t,
    (forall i, c = SParam i ->
               orig = None \/ exists nm, nth_error (sd_params sd) i = Some (nm, false) /\ orig = Some nm) ->
    L id = Some (cs args c) ->
    resolve_rec r s fuel id isf parents orig = Ok t ->
    erase_tpath t = nt isf c.
  Proof.
    induction n as [|n IH]; intros c Hsz Hfr Hnl Hwr Hsk fuel id isf orig t Horig Hl Hres.
    { destruct c; cbn [src_size] in Hsz; lia. }
    destruct fuel as [|fuel]; [discriminate|].
    rewrite resolve_rec_S in Hres. rewrite components_S in Hnl, Hwr. rewrite src_params_S in Hsk.
    (* recursion on a direct component *)
    assert (Hsub : forall x, (src_size x <= n)%nat -> no_cow_cow x = true ->
              (forall c', In c' (components_fuel n defs x) -> In c' (components_fuel (S n) defs c)) ->
              (forall i, In i (src_params_fuel n defs x) -> In i (src_params_fuel (S n) defs c)) ->
              x <> SParam 0 \/ True ->
              forall id' t', (forall i, x = SParam i -> True) ->
              L id' = Some (cs args x) -> F fuel id' = Ok t' -> erase_tpath t' = nt false x).
    { intros x Hx1 Hx2 Hx3 Hx4 _ id' t' _ Hl' Hr'.
      apply (IH x Hx1 Hx2) with (fuel := fuel) (id := id') (orig := None).
      - intros c' Hc'. apply Hnl. rewrite <- components_S. apply Hx3. exact Hc'.
      - intros c' Hc'. apply Hwr. rewrite <- components_S. apply Hx3. exact Hc'.
      - intros i nm Hi. apply Hsk. rewrite <- src_params_S. apply Hx4. exact Hi.
      - intros i _. left; reflexivity.
      - exact Hl'.
      - exact Hr'. }
    assert (Hself : is_param c = false -> find_parent parents id orig = None).
    { intros Hp. eapply no_parent; [exact Hl|]. apply Hnl; [left; reflexivity|exact Hp]. }
    destruct c as [i|d' xs|x|x|len x|xs|p|x|x|x|a b|a b|x|x|x|st lsb].
    - (* SParam *)
      clear Hself. unfold cs in Hl. cbn [subst_src] in Hl.
      destruct (nth_error args i) as [a|] eqn:Ea.
      2:{ rewrite (nth_overflow args) in Hl by (apply nth_error_None; exact Ea).
          cbn [canon] in Hl. destruct (entry _ _ Hl) as (t0 & _ & []). }
      rewrite (nth_error_nth args i _ Ea) in Hl. rewrite (Hcanon a (nth_error_In _ _ Ea)) in Hl.
      destruct (nth_error (sd_params sd) i) as [[nm sk]|] eqn:Ep.
      2:{ apply nth_error_None in Ep. assert (i < List.length args)%nat by (apply nth_error_Some; congruence). lia. }
      destruct sk. { exfalso. apply (Hsk i nm); [left; reflexivity|exact Ep]. }
      destruct (Hpar' i nm a Ep Ea) as (p & Hp & Hidx & Horg & HLp).
      assert (Hid : tpi_id p = id) by (eapply L_inj; eauto).
      assert (Hpred : (N.eqb (tpi_id p) id &&
                       match orig with None => true | Some o => String.eqb (tpi_orig p) o end) = true).
      { rewrite Hid, N.eqb_refl. destruct (Horig i eq_refl) as [->|(nm' & Hnm' & ->)]; [reflexivity|].
        rewrite Ep in Hnm'. inversion Hnm'; subst nm'. rewrite Horg, String.eqb_refl. reflexivity. }
      destruct (find_exists (fun tp => N.eqb (tpi_id tp) id &&
                                match orig with None => true | Some o => String.eqb (tpi_orig tp) o end)
                            parents p Hp Hpred) as (q & Hq). unfold find_parent in Hres. rewrite Hq in Hres.
      inversion Hres; subst t. apply find_some in Hq as [Hqin Hqp].
      apply andb_prop in Hqp as [Hqid _]. apply N.eqb_eq in Hqid.
      destruct (Hpar q Hqin) as (j & nj & a' & Hj1 & Hj2 & Hj3 & _ & Hj5).
      rewrite Hqid, Hl in Hj5. inversion Hj5; subst a'.
      assert (j = i) by (eapply Hdist; eauto). subst j.
      cbn [erase_tpath]. unfold erase_tpi. rewrite Hj3. reflexivity.
    - (* SApp *)
      rewrite (Hself eq_refl) in Hres. rewrite cs_app in Hl.
      destruct (entry _ _ Hl) as (t0 & Hr0 & sd' & Hsd' & Hpath & Hlen' & Hps & Hbody).
      rewrite (resolve_type_entry _ _ Hr0) in Hres. cbn [bind] in Hres.
      assert (Hin' : In sd' defs) by (eapply nth_error_In; eauto).
      pose proof (Hdefs sd' Hin') as Hok. unfold def_okb in Hok.
      apply andb_prop in Hok as [Hok Hok4]. apply andb_prop in Hok as [Hok Hok3].
      apply andb_prop in Hok as [Hok1 Hok2].
      destruct (sd_path sd') as [|pa [|pb pl]] eqn:Epath; try discriminate Hok2.
      assert (Hcow : cow_step r t0 = Ok t0).
      { rewrite cow_step_eq, Hpath, is_cow_last by discriminate.
        apply negb_true_iff in Hok4. rewrite Hok4. reflexivity. }
      rewrite Hcow in Hres. cbn [bind] in Hres.
      apply bind_ok in Hres as (ps & Hmps & Hres).
      assert (Hcv : resolve_def r s fuel isf parents t0 ps =
                    type_path_maybe_with_substitutes s (t_path t0) ps).
      { unfold resolve_def. cbv zeta in Hbody. destruct (sd_body sd').
        - destruct Hbody as (fl & -> & _). reflexivity.
        - destruct Hbody as (vl & -> & _). reflexivity. }
      rewrite Hcv in Hres. unfold type_path_maybe_with_substitutes, for_path_with_params in Hres.
      rewrite Hpath in Hres.
      destruct (subs_get (s_subs s) (pa :: pb :: pl)); [discriminate Hok1|].
      unfold from_type_def_path in Hres. rewrite Hok3 in Hres. cbn [bind] in Hres.
      inversion Hres; subst t. cbn [erase_tpath].
      unfold nt. rewrite (src_tpath_app _ _ _ _ _ _ _ Hsd'), Epath. f_equal.
      rewrite map_length in Hlen'. rewrite param_ids_eq in Hmps.
      apply (app_params fuel (sd_params sd') xs (t_params t0) ps Hlen' Hps Hmps).
      intros x id' t' Hx Hl' Hr'.
      assert (Hxin : In x xs) by (eapply live_go_incl; eauto).
      cbn [no_cow_cow] in Hfr. rewrite forallb_forall in Hfr.
      rewrite src_size_app in Hsz. pose proof (sizes_In _ _ Hxin).
      apply (Hsub x) with (id' := id') (t' := t'); auto; try lia.
      + intros c' Hc'. rewrite components_S. right. apply in_flat_map. exists x.
        rewrite (live_args_eq _ _ _ _ Hsd'). auto.
      + intros i Hi. rewrite src_params_S. apply in_flat_map. exists x.
        rewrite (live_args_eq _ _ _ _ Hsd'). auto.
    - (* SVec *)
      rewrite (Hself eq_refl) in Hres. unfold cs in Hl. cbn [subst_src canon] in Hl.
      destruct (entry _ _ Hl) as (t0 & Hr0 & e & Hb & He).
      destruct (builtin_not_cow _ _ Hb) as (Hc & Hp & Hd).
      rewrite (resolve_type_entry _ _ Hr0) in Hres. cbn [bind] in Hres. rewrite Hc in Hres. cbn [bind] in Hres.
      rewrite Hp in Hres. cbn [mapM bind] in Hres. unfold resolve_def in Hres. rewrite Hd in Hres.
      apply bind_ok in Hres as (i & Hi & Hres). inversion Hres; subst t. cbn [erase_tpath]. unfold nt.
      cbn [src_tpath]. f_equal. cbn [src_size] in Hsz. cbn [no_cow_cow] in Hfr.
      apply (Hsub x) with (id' := e) (t' := i); auto; try lia.
      intros c' Hc'. rewrite components_S. right. exact Hc'.
    - (* SVecDeque *)
      rewrite (Hself eq_refl) in Hres. unfold cs in Hl. cbn [subst_src canon] in Hl.
      destruct (entry _ _ Hl) as (t0 & Hr0 & e & Hb & He).
      destruct (builtin_not_cow _ _ Hb) as (Hc & Hp & Hd).
      rewrite (resolve_type_entry _ _ Hr0) in Hres. cbn [bind] in Hres. rewrite Hc in Hres. cbn [bind] in Hres.
      rewrite Hp in Hres. cbn [mapM bind] in Hres. unfold resolve_def in Hres. rewrite Hd in Hres.
      apply bind_ok in Hres as (i & Hi & Hres). inversion Hres; subst t. cbn [erase_tpath]. unfold nt.
      cbn [src_tpath]. f_equal. cbn [src_size] in Hsz. cbn [no_cow_cow] in Hfr.
      apply (Hsub x) with (id' := e) (t' := i); auto; try lia.
      intros c' Hc'. rewrite components_S. right. exact Hc'.
    - (* SArray *)
      rewrite (Hself eq_refl) in Hres. unfold cs in Hl. cbn [subst_src canon] in Hl.
      destruct (entry _ _ Hl) as (t0 & Hr0 & e & Hb & He).
      destruct (builtin_not_cow _ _ Hb) as (Hc & Hp & Hd).
      rewrite (resolve_type_entry _ _ Hr0) in Hres. cbn [bind] in Hres. rewrite Hc in Hres. cbn [bind] in Hres.
      rewrite Hp in Hres. cbn [mapM bind] in Hres. unfold resolve_def in Hres. rewrite Hd in Hres.
      apply bind_ok in Hres as (i & Hi & Hres). inversion Hres; subst t. cbn [erase_tpath]. unfold nt.
      cbn [src_tpath]. f_equal. cbn [src_size] in Hsz. cbn [no_cow_cow] in Hfr.
      apply (Hsub x) with (id' := e) (t' := i); auto; try lia.
      intros c' Hc'. rewrite components_S. right. exact Hc'.
    - (* STup *)
      rewrite (Hself eq_refl) in Hres. rewrite cs_tup in Hl.
      destruct (entry _ _ Hl) as (t0 & Hr0 & es & Hb & Hes).
      destruct (builtin_not_cow _ _ Hb) as (Hc & Hp & Hd).
      rewrite (resolve_type_entry _ _ Hr0) in Hres. cbn [bind] in Hres. rewrite Hc in Hres. cbn [bind] in Hres.
      rewrite Hp in Hres. cbn [mapM bind] in Hres. unfold resolve_def in Hres. rewrite Hd in Hres.
      apply bind_ok in Hres as (l & Hml & Hres). inversion Hres; subst t. cbn [erase_tpath]. unfold nt.
      rewrite src_tpath_tup. f_equal.
      apply (tup_elems fuel xs es l Hes Hml).
      intros x id' t' Hxin Hl' Hr'.
      cbn [no_cow_cow] in Hfr. rewrite forallb_forall in Hfr.
      rewrite src_size_tup in Hsz. pose proof (sizes_In _ _ Hxin).
      apply (Hsub x) with (id' := id') (t' := t'); auto; try lia.
      + intros c' Hc'. rewrite components_S. right. apply in_flat_map. exists x. auto.
      + intros i Hi. rewrite src_params_S. apply in_flat_map. exists x. auto.
    - (* SPrimT *)
      rewrite (Hself eq_refl) in Hres. unfold cs in Hl. cbn [subst_src canon] in Hl.
      destruct (entry _ _ Hl) as (t0 & Hr0 & Hb).
      destruct (builtin_not_cow _ _ Hb) as (Hc & Hp & Hd).
      rewrite (resolve_type_entry _ _ Hr0) in Hres. cbn [bind] in Hres. rewrite Hc in Hres. cbn [bind] in Hres.
      rewrite Hp in Hres. cbn [mapM bind] in Hres. unfold resolve_def in Hres. rewrite Hd in Hres.
      inversion Hres; subst t. reflexivity.
    - (* SCompactT *)
      rewrite (Hself eq_refl) in Hres. unfold cs in Hl. cbn [subst_src canon] in Hl.
      destruct (entry _ _ Hl) as (t0 & Hr0 & e & Hb & He).
      destruct (builtin_not_cow _ _ Hb) as (Hc & Hp & Hd).
      rewrite (resolve_type_entry _ _ Hr0) in Hres. cbn [bind] in Hres. rewrite Hc in Hres. cbn [bind] in Hres.
      rewrite Hp in Hres. cbn [mapM bind] in Hres. unfold resolve_def in Hres. rewrite Hd in Hres.
      apply bind_ok in Hres as (i & Hi & Hres). destruct (s_compact s) as [cp|] eqn:Ecp; [|discriminate].
      inversion Hres; subst t. cbn [erase_tpath]. unfold nt.
      cbn [src_tpath]. rewrite Ecp. cbn [opt_toks]. f_equal. cbn [src_size] in Hsz. cbn [no_cow_cow] in Hfr.
      apply (Hsub x) with (id' := e) (t' := i); auto; try lia.
      intros c' Hc'. rewrite components_S. right. exact Hc'.
    - (* SBox: transparent, the same id *)
      clear Hself Hsub. rewrite <- resolve_rec_S in Hres.
      cbn [src_size] in Hsz. cbn [no_cow_cow] in Hfr.
      unfold nt. cbn [src_tpath].
      apply (IH x) with (fuel := S fuel) (id := id) (orig := orig); auto; try lia.
      + intros c' Hc'. apply Hnl. right. exact Hc'.
      + intros c' Hc'. apply Hwr. right. exact Hc'.
      + intros i -> . exfalso. apply (Hwr (SBox (SParam i))). left; reflexivity.
    - (* SOpt *)
      rewrite <- resolve_rec_S in Hres. unfold cs in Hl. cbn [subst_src canon] in Hl. fold (cs args x) in Hl.
      destruct (entry _ _ Hl) as (t0 & Hr0 & e & He & Hpath & Hps & Hd).
      destruct (resolve_prelude fuel id isf orig t0 "Option" (abs_path ["core"; "option"; "Option"]) t
                  (Hself eq_refl) Hr0 Hpath ltac:(cbn; tauto) ltac:(rewrite Hd; reflexivity) eq_refl Hres)
        as (ps & Hmps & ->).
      rewrite param_ids_eq, Hps in Hmps. cbn [flat_map tp_ty app] in Hmps.
      cbn [erase_tpath]. unfold nt. cbn [src_tpath]. f_equal.
      apply (tup_elems fuel [x] [e] ps); [constructor; [exact He|constructor]|exact Hmps|].
      intros x' id' t' [<-|[]] Hl' Hr'. cbn [src_size] in Hsz. cbn [no_cow_cow] in Hfr.
      apply (Hsub x) with (id' := id') (t' := t'); auto; try lia.
      intros c' Hc'. rewrite components_S. right. exact Hc'.
    - (* SRes *)
      rewrite <- resolve_rec_S in Hres. unfold cs in Hl. cbn [subst_src canon] in Hl.
      fold (cs args a) in Hl. fold (cs args b) in Hl.
      destruct (entry _ _ Hl) as (t0 & Hr0 & ix & iy & Hix & Hiy & Hpath & Hps & Hd).
      destruct (resolve_prelude fuel id isf orig t0 "Result" (abs_path ["core"; "result"; "Result"]) t
                  (Hself eq_refl) Hr0 Hpath ltac:(cbn; tauto) ltac:(rewrite Hd; reflexivity) eq_refl Hres)
        as (ps & Hmps & ->).
      rewrite param_ids_eq, Hps in Hmps. cbn [flat_map tp_ty app] in Hmps.
      cbn [erase_tpath]. unfold nt. cbn [src_tpath]. f_equal.
      apply (tup_elems fuel [a; b] [ix; iy] ps);
        [constructor; [exact Hix|constructor; [exact Hiy|constructor]]|exact Hmps|].
      cbn [src_size] in Hsz. cbn [no_cow_cow] in Hfr. apply andb_prop in Hfr as [Hfa Hfb].
      intros x' id' t' [<-|[<-|[]]] Hl' Hr'.
      + apply (Hsub a) with (id' := id') (t' := t'); auto; try lia.
        * intros c' Hc'. rewrite components_S. right. apply in_or_app. left. exact Hc'.
        * intros i Hi. rewrite src_params_S. apply in_or_app. left. exact Hi.
      + apply (Hsub b) with (id' := id') (t' := t'); auto; try lia.
        * intros c' Hc'. rewrite components_S. right. apply in_or_app. right. exact Hc'.
        * intros i Hi. rewrite src_params_S. apply in_or_app. right. exact Hi.
    - (* SBTreeMap *)
      rewrite <- resolve_rec_S in Hres. unfold cs in Hl. cbn [subst_src canon] in Hl.
      fold (cs args a) in Hl. fold (cs args b) in Hl.
      destruct (entry _ _ Hl) as (t0 & Hr0 & ix & iy & iseq & Hix & Hiy & _ & Hpath & Hps & Hd).
      destruct (resolve_prelude fuel id isf orig t0 "BTreeMap"
                  (alloc_tokens (s_alloc s) ++ abs_path ["collections"; "BTreeMap"]) t
                  (Hself eq_refl) Hr0 Hpath ltac:(cbn; tauto) ltac:(rewrite Hd; reflexivity) eq_refl Hres)
        as (ps & Hmps & ->).
      rewrite param_ids_eq, Hps in Hmps. cbn [flat_map tp_ty app] in Hmps.
      cbn [erase_tpath]. unfold nt. cbn [src_tpath]. f_equal.
      apply (tup_elems fuel [a; b] [ix; iy] ps);
        [constructor; [exact Hix|constructor; [exact Hiy|constructor]]|exact Hmps|].
      cbn [src_size] in Hsz. cbn [no_cow_cow] in Hfr. apply andb_prop in Hfr as [Hfa Hfb].
      intros x' id' t' [<-|[<-|[]]] Hl' Hr'.
      + apply (Hsub a) with (id' := id') (t' := t'); auto; try lia.
        * intros c' Hc'. rewrite components_S. right. apply in_or_app. left. exact Hc'.
        * intros i Hi. rewrite src_params_S. apply in_or_app. left. exact Hi.
      + apply (Hsub b) with (id' := id') (t' := t'); auto; try lia.
        * intros c' Hc'. rewrite components_S. right. apply in_or_app. right. exact Hc'.
        * intros i Hi. rewrite src_params_S. apply in_or_app. right. exact Hi.
    - (* SBTreeSet *)
      rewrite <- resolve_rec_S in Hres. unfold cs in Hl. cbn [subst_src canon] in Hl. fold (cs args x) in Hl.
      destruct (entry _ _ Hl) as (t0 & Hr0 & e & iseq & He & _ & Hpath & Hps & Hd).
      destruct (resolve_prelude fuel id isf orig t0 "BTreeSet"
                  (alloc_tokens (s_alloc s) ++ abs_path ["collections"; "BTreeSet"]) t
                  (Hself eq_refl) Hr0 Hpath ltac:(cbn; tauto) ltac:(rewrite Hd; reflexivity) eq_refl Hres)
        as (ps & Hmps & ->).
      rewrite param_ids_eq, Hps in Hmps. cbn [flat_map tp_ty app] in Hmps.
      cbn [erase_tpath]. unfold nt. cbn [src_tpath]. f_equal.
      apply (tup_elems fuel [x] [e] ps); [constructor; [exact He|constructor]|exact Hmps|].
      intros x' id' t' [<-|[]] Hl' Hr'. cbn [src_size] in Hsz. cbn [no_cow_cow] in Hfr.
      apply (Hsub x) with (id' := id') (t' := t'); auto; try lia.
      intros c' Hc'. rewrite components_S. right. exact Hc'.
    - (* SCow: looked through once; its argument is neither a parameter nor a Cow *)
      clear Hsub. rewrite (Hself eq_refl) in Hres. unfold cs in Hl. cbn [subst_src canon] in Hl. fold (cs args x) in Hl.
      destruct (entry _ _ Hl) as (t0 & Hr0 & e & He & Hpath & Hps & Hd).
      rewrite (resolve_type_entry _ _ Hr0) in Hres. cbn [bind] in Hres.
      rewrite cow_step_eq, Hpath, Hps in Hres. cbn [path_ident last is_cow String.eqb Ascii.eqb Bool.eqb tp_ty] in Hres.
      destruct (entry _ _ He) as (t1 & Hr1 & Hent1).
      rewrite (resolve_type_entry _ _ Hr1) in Hres. cbn [bind] in Hres.
      cbn [src_size] in Hsz. cbn [no_cow_cow] in Hfr. apply andb_prop in Hfr as [Hfc Hfx].
      assert (Hxin : In x (components_fuel n defs x)) by (apply components_self; lia).
      assert (Hxp : is_param x = false).
      { destruct x; try reflexivity. exfalso. apply (Hwr (SCow (SParam i))). left; reflexivity. }
      assert (Hub : match unbox x with SCow _ | SParam _ => False | _ => True end).
      { destruct (unbox x) eqn:Eu; try exact I; try discriminate Hfc.
        destruct (unbox_param defs i x n ltac:(lia) Eu) as [->|Hin]; [discriminate Hxp|].
        apply (Hwr (SBox (SParam i))). right. exact Hin. }
      assert (Hx : resolve_rec r s (S fuel) e isf parents None = Ok t).
      { rewrite resolve_rec_S.
        rewrite (no_parent e x None He (Hnl x (or_intror Hxin) Hxp)).
        rewrite (resolve_type_entry _ _ Hr1). cbn [bind].
        rewrite (entry_not_cow _ _ Hent1 (cs_not_cow args x Hub)). cbn [bind]. exact Hres. }
      unfold nt. cbn [src_tpath].
      apply (IH x) with (fuel := S fuel) (id := e) (orig := None); auto; try lia.
      + intros c' Hc'. apply Hnl. right. exact Hc'.
      + intros c' Hc'. apply Hwr. right. exact Hc'.
    - (* SRange *)
      rewrite <- resolve_rec_S in Hres. unfold cs in Hl. cbn [subst_src canon] in Hl. fold (cs args x) in Hl.
      destruct (entry _ _ Hl) as (t0 & Hr0 & e & He & Hpath & Hps & Hd).
      destruct (resolve_prelude fuel id isf orig t0 "Range" (abs_path ["core"; "ops"; "Range"]) t
                  (Hself eq_refl) Hr0 Hpath ltac:(cbn; tauto) ltac:(rewrite Hd; reflexivity) eq_refl Hres)
        as (ps & Hmps & ->).
      rewrite param_ids_eq, Hps in Hmps. cbn [flat_map tp_ty app] in Hmps.
      cbn [erase_tpath]. unfold nt. cbn [src_tpath]. f_equal.
      apply (tup_elems fuel [x] [e] ps); [constructor; [exact He|constructor]|exact Hmps|].
      intros x' id' t' [<-|[]] Hl' Hr'. cbn [src_size] in Hsz. cbn [no_cow_cow] in Hfr.
      apply (Hsub x) with (id' := id') (t' := t'); auto; try lia.
      intros c' Hc'. rewrite components_S. right. exact Hc'.
    - (* SBitVec: store primitive, order marker as the settings resolve it *)
      rewrite (Hself eq_refl) in Hres. unfold cs in Hl. cbn [subst_src canon] in Hl.
      destruct (entry _ _ Hl) as (t0 & Hr0 & ist & io & ot & Hb & Hist & Hio & Hrot & Hom).
      destruct (builtin_not_cow _ _ Hb) as (Hc & Hp & Hd).
      rewrite (resolve_type_entry _ _ Hr0) in Hres. cbn [bind] in Hres. rewrite Hc in Hres. cbn [bind] in Hres.
      rewrite Hp in Hres. cbn [mapM bind] in Hres. unfold resolve_def in Hres. rewrite Hd in Hres.
      destruct (s_bits s) as [bp|] eqn:Eb; [|discriminate].
      apply bind_ok in Hres as (o & Ho & Hres). apply bind_ok in Hres as (st' & Hst & Hres).
      inversion Hres; subst t. destruct fuel as [|fuel]; [discriminate|].
      rewrite (resolve_order fuel io lsb ot o Hio Hrot Hom Ho).
      assert (Hfp : find_parent parents ist None = None).
      { apply (no_parent ist (SPrimT st) None); [exact Hist|]. apply Hnl; [right; left; reflexivity|reflexivity]. }
      rewrite (resolve_prim fuel ist false None st st' Hfp Hist Hst).
      cbn [erase_tpath]. rewrite (otp_erase lsb). unfold nt. cbn [src_tpath]. rewrite Eb. reflexivity.
  Qed.
End Core.

(** ** from the boolean hypotheses of C05's quantifier to the facts the core uses *)
Fixpoint own_params_go (i : N) (l : list tparam) : list tparam_ir :=
  match l with
  | [] => []
  | p :: l' =>
      match tp_ty p with
      | Some id => mk_tpi id (tp_name p) i :: own_params_go (i + 1)%N l'
      | None => own_params_go (i + 1)%N l'
      end
  end.

Lemma params_from_scale_info_go ps : params_from_scale_info ps = own_params_go 0%N ps.
Proof. reflexivity. Qed.

Definition liveL (xs : list src) (ps : list (string * bool)) : list src :=
  flat_map (fun ap : src * (string * bool) => if snd (snd ap) then [] else [fst ap]) (combine xs ps).

Fixpoint nodupb (l : list src) : bool :=
  match l with [] => true | x :: l' => negb (existsb (src_eqb x) l') && nodupb l' end.

Fixpoint src_list_eqb (p q : list src) : bool :=
  match p, q with
  | [], [] => true
  | u :: p', v :: q' => src_eqb u v && src_list_eqb p' q'
  | _, _ => false
  end.

Lemma src_eqb_refl_n : forall n c, (src_size c <= n)%nat -> src_eqb c c = true.
Proof.
  induction n as [|n IH]; intros c Hs; [destruct c; cbn [src_size] in Hs; lia|].
  assert (Hl : forall l, (sizes l <= n)%nat -> src_list_eqb l l = true).
  { induction l as [|x l IHl]; intros Hl; [reflexivity|]. cbn [sizes] in Hl. cbn [src_list_eqb].
    rewrite IH by lia. rewrite IHl by lia. reflexivity. }
  destruct c; cbn [src_size] in Hs.
  - cbn [src_eqb]. apply Nat.eqb_refl.
  - change (src_eqb (SApp d args) (SApp d args)) with (Nat.eqb d d && src_list_eqb args args).
    rewrite Nat.eqb_refl. apply Hl. change (S (sizes args) <= S n)%nat in Hs. lia.
  - cbn [src_eqb]. apply IH. lia.
  - cbn [src_eqb]. apply IH. lia.
  - cbn [src_eqb]. rewrite N.eqb_refl. apply IH. lia.
  - change (src_eqb (STup ts) (STup ts)) with (src_list_eqb ts ts).
    apply Hl. change (S (sizes ts) <= S n)%nat in Hs. lia.
  - cbn [src_eqb]. destruct p; reflexivity.
  - cbn [src_eqb]. apply IH. lia.
  - cbn [src_eqb]. apply IH. lia.
  - cbn [src_eqb]. apply IH. lia.
  - cbn [src_eqb]. rewrite !IH by lia. reflexivity.
  - cbn [src_eqb]. rewrite !IH by lia. reflexivity.
  - cbn [src_eqb]. apply IH. lia.
  - cbn [src_eqb]. apply IH. lia.
  - cbn [src_eqb]. apply IH. lia.
  - cbn [src_eqb]. destruct store, lsb; reflexivity.
Qed.

Lemma src_eqb_refl c : src_eqb c c = true.
Proof. apply (src_eqb_refl_n (src_size c)). lia. Qed.

Lemma existsb_src_In x l : In x l -> existsb (src_eqb x) l = true.
Proof. intros H. apply existsb_exists. exists x. split; [exact H|apply src_eqb_refl]. Qed.

Lemma liveL_In : forall xs ps j nj a,
  nth_error ps j = Some (nj, false) -> nth_error xs j = Some a -> In a (liveL xs ps).
Proof.
  induction xs as [|x xs IH]; intros ps j nj a Hp Hx; [destruct j; discriminate|].
  destruct ps as [|[n0 sk0] ps]; [destruct j; discriminate|].
  unfold liveL. cbn [combine flat_map fst snd]. fold (liveL xs ps).
  destruct j as [|j]; cbn [nth_error] in Hp, Hx.
  - inversion Hp; inversion Hx; subst. left; reflexivity.
  - apply in_or_app. right. eapply IH; eauto.
Qed.

Lemma liveL_In_inv : forall xs ps a,
  In a (liveL xs ps) -> exists j nj, nth_error ps j = Some (nj, false) /\ nth_error xs j = Some a.
Proof.
  induction xs as [|x xs IH]; intros ps a H; [destruct H|].
  destruct ps as [|[n0 sk0] ps]; [destruct H|].
  unfold liveL in H. cbn [combine flat_map fst snd] in H. fold (liveL xs ps) in H.
  apply in_app_or in H as [H|H].
  - destruct sk0; [destruct H|]. destruct H as [->|[]]. exists 0%nat, n0. split; reflexivity.
  - destruct (IH _ _ H) as (j & nj & H1 & H2). exists (S j), nj. split; assumption.
Qed.

Lemma nodup_dist : forall xs ps, nodupb (liveL xs ps) = true ->
  forall i j ni nj a,
  nth_error ps i = Some (ni, false) -> nth_error xs i = Some a ->
  nth_error ps j = Some (nj, false) -> nth_error xs j = Some a -> i = j.
Proof.
  induction xs as [|x xs IH]; intros ps Hn i j ni nj a Hpi Hxi Hpj Hxj; [destruct i; discriminate|].
  destruct ps as [|[n0 sk0] ps]; [destruct i; discriminate|].
  unfold liveL in Hn. cbn [combine flat_map fst snd] in Hn. fold (liveL xs ps) in Hn.
  assert (Htail : nodupb (liveL xs ps) = true).
  { destruct sk0; [exact Hn|]. cbn [app nodupb] in Hn. apply andb_prop in Hn as [_ Hn]. exact Hn. }
  destruct i as [|i], j as [|j]; cbn [nth_error] in *.
  - reflexivity.
  - exfalso. inversion Hpi; inversion Hxi; subst. cbn [app nodupb] in Hn.
    apply andb_prop in Hn as [Hn _]. apply negb_true_iff in Hn.
    rewrite (existsb_src_In _ _ (liveL_In _ _ _ _ _ Hpj Hxj)) in Hn. discriminate.
  - exfalso. inversion Hpj; inversion Hxj; subst. cbn [app nodupb] in Hn.
    apply andb_prop in Hn as [Hn _]. apply negb_true_iff in Hn.
    rewrite (existsb_src_In _ _ (liveL_In _ _ _ _ _ Hpi Hxi)) in Hn. discriminate.
  - f_equal. eapply IH; eauto.
Qed.

Lemma cf_inv defs d args :
  instantiation_cf defs d args = true ->
  skipped_unused defs d = true /\
  nodupb (liveL (map canon args) (sd_params d)) = true /\
  forall ft, In ft (def_field_types d) ->
    wrapper_on_param defs ft = false /\
    forall c, In c (components defs ft) -> is_param c = false ->
              forall a, In a (liveL (map canon args) (sd_params d)) -> canon (subst_src args c) <> a.
Proof.
  unfold instantiation_cf. intros H. apply andb_prop in H as [H1 H]. apply andb_prop in H as [H2 H3].
  split; [exact H1|]. split; [exact H2|].
  intros ft Hft. rewrite forallb_forall in H3. specialize (H3 ft Hft).
  apply andb_prop in H3 as [H3 H4]. apply negb_true_iff in H3. split; [exact H3|].
  intros c Hc Hp a Ha E. rewrite forallb_forall in H4. specialize (H4 c Hc). rewrite Hp in H4.
  cbn [orb] in H4. apply negb_true_iff in H4.
  change (existsb (src_eqb (canon (subst_src args c))) (liveL (map canon args) (sd_params d)) = false) in H4.
  rewrite E in H4. rewrite (existsb_src_In _ _ Ha) in H4. discriminate.
Qed.

Lemma map_id_In {A} (f : A -> A) : forall l, map f l = l -> forall a, In a l -> f a = a.
Proof.
  induction l as [|x l IH]; intros H a Ha; [destruct Ha|]. cbn [map] in H. injection H as H1 H2.
  destruct Ha as [<-|Ha]; [exact H1|]. apply IH; assumption.
Qed.

(** ** the declared parameters of the entry of an instantiation *)
Lemma parents_spec L : forall (pl : list (string * bool)) (xs : list src) (tps : list tparam) k,
  List.length xs = List.length pl ->
  Forall2 (param_of L) (combine pl xs) tps ->
  (forall p, In p (own_params_go (N.of_nat k) tps) ->
     exists i nm a, nth_error pl i = Some (nm, false) /\ nth_error xs i = Some a /\
                    tpi_idx p = N.of_nat (k + i) /\ tpi_orig p = nm /\ L (tpi_id p) = Some a) /\
  (forall i nm a, nth_error pl i = Some (nm, false) -> nth_error xs i = Some a ->
     exists p, In p (own_params_go (N.of_nat k) tps) /\ tpi_idx p = N.of_nat (k + i) /\
               tpi_orig p = nm /\ L (tpi_id p) = Some a) /\
  map tpi_idx (own_params_go (N.of_nat k) tps) =
  map N.of_nat (flat_map (fun ip : nat * (string * bool) => if snd (snd ip) then [] else [fst ip])
                         (combine (seq k (List.length pl)) pl)).
Proof.
  induction pl as [|[nm sk] pl IH]; intros xs tps k Hl HF.
  - destruct xs; [|discriminate]. inversion HF; subst. cbn [own_params_go].
    split; [intros p []|]. split; [intros i nm a H; destruct i; discriminate|reflexivity].
  - destruct xs as [|x xs]; [discriminate|]. cbn [combine] in HF.
    inversion HF as [|pa tp l l' Hpa Hrest]; subst. destruct Hpa as [Hnm Hty]. cbn [fst snd] in Hnm, Hty.
    cbn [List.length] in Hl. injection Hl as Hl.
    assert (Ek : (N.of_nat k + 1)%N = N.of_nat (S k)) by lia.
    destruct (IH xs l' (S k) Hl Hrest) as (IH1 & IH2 & IH3).
    cbn [own_params_go List.length seq combine flat_map fst snd]. rewrite Ek.
    destruct sk.
    + rewrite Hty. cbn [app]. split; [|split].
      * intros p Hp. destruct (IH1 p Hp) as (i & nm' & a & H1 & H2 & H3 & H4 & H5).
        exists (S i), nm', a. cbn [nth_error]. repeat split; auto. rewrite H3. f_equal. lia.
      * intros i nm' a Hi Ha. destruct i as [|i]; [discriminate|]. cbn [nth_error] in Hi, Ha.
        destruct (IH2 i nm' a Hi Ha) as (p & H1 & H2 & H3 & H4). exists p. repeat split; auto.
        rewrite H2. f_equal. lia.
      * exact IH3.
    + destruct Hty as (id & Hty & Hlab). rewrite Hty. cbn [app map tpi_idx]. split; [|split].
      * intros p [<-|Hp].
        -- exists 0%nat, nm, x. cbn [nth_error tpi_idx tpi_orig tpi_id]. repeat split; auto; try (f_equal; lia).
        -- destruct (IH1 p Hp) as (i & nm' & a & H1 & H2 & H3 & H4 & H5).
           exists (S i), nm', a. cbn [nth_error]. repeat split; auto. rewrite H3. f_equal. lia.
      * intros i nm' a Hi Ha. destruct i as [|i]; cbn [nth_error] in Hi, Ha.
        -- inversion Hi; inversion Ha; subst. eexists. split; [left; reflexivity|].
           cbn [tpi_idx tpi_orig tpi_id]. repeat split; auto; try (f_equal; lia).
        -- destruct (IH2 i nm' a Hi Ha) as (p & H1 & H2 & H3 & H4). exists p. split; [right; exact H1|].
           repeat split; auto. rewrite H2. f_equal. lia.
      * f_equal. exact IH3.
Qed.

(** ** fields of the IR, one by one *)
Lemma cck_fields r s fl P u k u' :
  create_composite_ir_kind r s fl P u = Ok (k, u') ->
  Forall2 (fun f fi => field_ir_of r s P f = Ok fi) fl (ckind_fields k).
Proof.
  unfold create_composite_ir_kind. intros H.
  destruct fl as [|f0 fl0]; [inversion H; subst; constructor|].
  destruct (negb (all_named (f0 :: fl0) || all_unnamed (f0 :: fl0))); [discriminate|].
  destruct (all_named (f0 :: fl0)).
  - apply bind_ok in H as (l & Hl & H). inversion H; subst. cbn [ckind_fields].
    apply mapM_ok_Forall2 in Hl. clear H. induction Hl as [|f x fl' l' Hx Hl IH]; cbn [map]; constructor; [|exact IH].
    apply bind_ok in Hx as (nm & _ & Hx). apply bind_ok in Hx as (fi & Hfi & Hx). inversion Hx; subst. exact Hfi.
  - apply bind_ok in H as (l & Hl & H). inversion H; subst. cbn [ckind_fields].
    apply mapM_ok_Forall2 in Hl. exact Hl.
Qed.

Lemma Forall2_app_flat {A B C D} (R : C -> D -> Prop) (f : A -> list C) (g : B -> list D) :
  forall la lb, Forall2 (fun a b => Forall2 R (f a) (g b)) la lb -> Forall2 R (flat_map f la) (flat_map g lb).
Proof.
  induction 1 as [|a b la lb Hab Hl IH]; cbn [flat_map]; [constructor|]. apply Forall2_app; assumption.
Qed.

Lemma variants_fields r s P : forall vl u l u',
  variants_ir r s P vl u = Ok (l, u') ->
  Forall2 (fun v x => Forall2 (fun f fi => field_ir_of r s P f = Ok fi) (v_fields v) (ckind_fields (ci_kind (snd x)))) vl l.
Proof.
  induction vl as [|v vl IH]; intros u l u' H.
  - cbn in H. inversion H; subst. constructor.
  - rewrite variants_ir_cons in H. apply bind_ok in H as (vn & _ & H).
    apply bind_ok in H as ([k u1] & Hk & H). apply bind_ok in H as ([l' u2] & Hrest & H).
    cbn [fst snd] in *. inversion H; subst. constructor.
    + cbn [snd ci_kind]. eapply cck_fields; eauto.
    + eapply IH; eauto.
Qed.

Lemma Forall2_trans_In {A B C} (R1 : A -> B -> Prop) (R2 : B -> C -> Prop) (R3 : A -> C -> Prop) :
  forall la lb lc, Forall2 R1 la lb -> Forall2 R2 lb lc ->
  (forall a b c, In a la -> R1 a b -> R2 b c -> R3 a c) -> Forall2 R3 la lc.
Proof.
  intros la lb lc H1. revert lc. induction H1 as [|a b la lb Hab Hl IH]; intros lc H2 H.
  - inversion H2; subst. constructor.
  - inversion H2 as [|b' c lb' lc' Hbc Hl2]; subst. constructor.
    + eapply H; eauto. left; reflexivity.
    + apply IH; [exact Hl2|]. intros a' b' c' Ha'. apply H. right; exact Ha'.
Qed.

Lemma is_compact_erase t : is_compact (erase_tpath t) = is_compact t.
Proof. destruct t; reflexivity. Qed.

Lemma nth_map_fst (pl : list (string * bool)) i nm sk d :
  nth_error pl i = Some (nm, sk) -> nth i (map fst pl) d = nm.
Proof.
  revert i. induction pl as [|[n0 s0] pl IH]; intros i H; [destruct i; discriminate|].
  destruct i as [|i]; cbn [nth_error map nth fst] in *; [inversion H; reflexivity|apply IH; exact H].
Qed.

Section Main.
  Variable defs : list sdef.
  Variable L : N -> option src.
  Variable r : registry.
  Variable s : settings.
  Variable otp : bool -> tpath.
  Hypothesis HR : RegistryOf defs L r.
  Hypothesis Hdefs : forall sd, In sd defs -> def_okb s sd = true.
  Hypothesis Hprel : prelude_okb s = true.
  Hypothesis Hord : order_resolves s otp.

  Variable d : nat.
  Variable sd : sdef.
  Variable args : list src.
  Hypothesis Hsd : nth_error defs d = Some sd.
  Hypothesis Hcf : instantiation_cf defs sd args = true.
  Hypothesis Hcan : map canon args = args.
  Hypothesis Hfrag : forallb (fun f => no_cow_cow (sf_ty f)) (def_sfields sd) = true.
  Hypothesis Hcompact : compact_fields_okb defs sd args = true.
  Hypothesis Hbox : box_names_okb defs sd = true.

  Variable t : ty.
  Hypothesis Hent : entry_of defs L r (SApp d args) t.

  Let parents := params_from_scale_info (t_params t).
  Let pnames := map fst (sd_params sd).

  Lemma ent_inv :
    t_path t = sd_path sd /\ List.length args = List.length (sd_params sd) /\
    Forall2 (param_of L) (combine (sd_params sd) args) (t_params t) /\
    match sd_body sd with
    | SBStruct fs => exists fl, t_def t = TDComposite fl /\ Forall2 (field_of defs L pnames args) fs fl
    | SBEnum vs =>
        exists vl, t_def t = TDVariant vl /\
        Forall2 (fun (v : string * N * list sfield) (vr : variant) =>
                   v_name vr = fst (fst v) /\ v_index vr = snd (fst v) /\
                   Forall2 (field_of defs L pnames args) (snd v) (v_fields vr)) vs vl
    end.
  Proof.
    cbn [entry_of] in Hent. destruct Hent as (sd' & Hsd' & H1 & H2 & H3 & H4).
    rewrite Hsd in Hsd'. inversion Hsd'; subst sd'. auto.
  Qed.

  Lemma parents_facts :
    (forall p, In p parents ->
       exists i nm a, nth_error (sd_params sd) i = Some (nm, false) /\ nth_error args i = Some a /\
                      tpi_idx p = N.of_nat i /\ tpi_orig p = nm /\ L (tpi_id p) = Some a) /\
    (forall i nm a, nth_error (sd_params sd) i = Some (nm, false) -> nth_error args i = Some a ->
       exists p, In p parents /\ tpi_idx p = N.of_nat i /\ tpi_orig p = nm /\ L (tpi_id p) = Some a) /\
    map tpi_idx parents = map N.of_nat (generics_of sd).
  Proof.
    destruct ent_inv as (_ & Hl & Hps & _).
    destruct (parents_spec L (sd_params sd) args (t_params t) 0 Hl Hps) as (H1 & H2 & H3).
    unfold parents. rewrite params_from_scale_info_go. exact (conj H1 (conj H2 H3)).
  Qed.

  Lemma args_dist : forall i j ni nj a,
    nth_error (sd_params sd) i = Some (ni, false) -> nth_error args i = Some a ->
    nth_error (sd_params sd) j = Some (nj, false) -> nth_error args j = Some a -> i = j.
  Proof.
    destruct (cf_inv _ _ _ Hcf) as (_ & Hn & _). rewrite Hcan in Hn. apply nodup_dist. exact Hn.
  Qed.

  (** one field *)
  Lemma field_skeleton sf f fi :
    In sf (def_sfields sd) -> field_of defs L pnames args sf f ->
    field_ir_of r s parents f = Ok fi ->
    erase_fi fi = normal_field defs s otp sf.
  Proof.
    intros Hin (Hname & Hlab & Htn) Hfi.
    destruct parents_facts as (Hp1 & Hp2 & _). destruct ent_inv as (_ & Hlen & _ & _).
    destruct (cf_inv _ _ _ Hcf) as (Hsku & _ & Hcomp). rewrite Hcan in Hcomp.
    assert (Hft : In (sf_ty sf) (def_field_types sd)).
    { unfold def_field_types. unfold def_sfields in Hin. destruct (sd_body sd) as [fs|vs].
      - apply in_map. exact Hin.
      - apply in_flat_map in Hin as (v & Hv & Hin). apply in_flat_map. exists v. split; [exact Hv|apply in_map; exact Hin]. }
    destruct (Hcomp _ Hft) as (Hwrap & Hnl).
    rewrite forallb_forall in Hfrag. pose proof (Hfrag sf Hin) as Hff1. cbv beta in Hff1.
    (* the hypotheses of the core for the field type *)
    assert (Hnl' : forall c', In c' (components_fuel (src_size (sf_ty sf)) defs (sf_ty sf)) ->
                   is_param c' = false -> notlive sd args c').
    { intros c' Hc' Hp a (i & nm & Hi1 & Hi2). apply (Hnl c' Hc' Hp). eapply liveL_In; eauto. }
    assert (Hwr' : forall c', In c' (components_fuel (src_size (sf_ty sf)) defs (sf_ty sf)) ->
                   match c' with SBox (SParam _) | SCow (SParam _) => False | _ => True end).
    { intros c' Hc'.
      assert (E : (match c' with SBox (SParam _) | SCow (SParam _) => true | _ => false end) = false).
      { destruct (match c' with SBox (SParam _) | SCow (SParam _) => true | _ => false end) eqn:Em; [|reflexivity].
        unfold wrapper_on_param in Hwrap. rewrite <- Hwrap. symmetry. apply existsb_exists.
        exists c'. split; [exact Hc'|exact Em]. }
      destruct c' as [| | | | | | | |[]| | | | |[]| |]; try exact I; discriminate E. }
    assert (Hsk' : forall i nm, In i (src_params_fuel (src_size (sf_ty sf)) defs (sf_ty sf)) ->
                   nth_error (sd_params sd) i <> Some (nm, true)).
    { intros i nm Hi E. unfold skipped_unused in Hsku. rewrite forallb_forall in Hsku.
      assert (Hi' : In i (flat_map (src_params defs) (def_field_types sd))).
      { apply in_flat_map. exists (sf_ty sf). split; [exact Hft|exact Hi]. }
      specialize (Hsku i Hi'). rewrite E in Hsku. discriminate. }
    assert (Hcanon : forall a, In a args -> canon a = a) by (apply map_id_In; exact Hcan).
    unfold field_ir_of, resolve_field_type_path in Hfi. apply bind_ok in Hfi as (p & Hp & Hfi).
    inversion Hfi; subst fi. unfold erase_fi, normal_field. cbn [fi_path fi_compact fi_boxed].
    assert (Hboxed : is_boxed_gen f = has_box (sf_ty sf) && sf_type_name sf).
    { unfold is_boxed_gen. rewrite Htn. unfold box_names_okb in Hbox. rewrite forallb_forall in Hbox.
      specialize (Hbox sf Hin). cbv zeta in Hbox. apply andb_prop in Hbox as [Hbox Harc].
      apply andb_prop in Hbox as [Hbox Hrc]. apply eqb_prop in Hbox. apply negb_true_iff in Hrc, Harc.
      fold pnames in Hbox, Hrc, Harc.
      destruct (sf_type_name sf);
        [rewrite Hbox, Hrc, Harc, !orb_false_r, andb_true_r; reflexivity|rewrite andb_false_r; reflexivity]. }
    rewrite Hboxed.
    destruct (sf_compact_attr sf) eqn:Eca.
    - (* #[codec(compact)]: the field's id is Compact<closed field type> *)
      destruct (fuel0 r) as [|fuel] eqn:Ef; [discriminate|].
      rewrite resolve_rec_S in Hp.
      assert (Hnone : find_parent parents (f_ty f) (f_type_name f) = None).
      { unfold find_parent. destruct (find _ parents) as [q|] eqn:Eq; [|reflexivity]. exfalso.
        apply find_some in Eq as [Hqin Hq]. apply andb_prop in Hq as [Hq1 Hq2]. apply N.eqb_eq in Hq1.
        destruct (Hp1 q Hqin) as (j & nj & a & Hj1 & Hj2 & _ & Hj4 & Hj5).
        rewrite Hq1, Hlab in Hj5. inversion Hj5 as [Ea].
        unfold compact_fields_okb in Hcompact. rewrite forallb_forall in Hcompact.
        specialize (Hcompact sf Hin). rewrite Eca in Hcompact. cbn [negb orb] in Hcompact.
        rewrite forallb_forall in Hcompact.
        assert (Hc : In (a, (nj, false)) (combine args (sd_params sd))).
        { clear - Hj1 Hj2. revert j Hj1 Hj2. generalize (sd_params sd). induction args as [|x xs IH]; intros pl j H1 H2;
            [destruct j; discriminate|]. destruct pl as [|y pl]; [destruct j; discriminate|].
          destruct j; cbn [nth_error combine] in *; [inversion H1; inversion H2; left; reflexivity|right; eapply IH; eauto]. }
        specialize (Hcompact _ Hc). cbn [fst snd orb] in Hcompact.
        rewrite Ea, src_eqb_refl in Hcompact. cbn [negb orb] in Hcompact.
        apply andb_prop in Hcompact as [Htn1 Htn2]. rewrite Htn1 in Htn. rewrite Htn in Hq2.
        apply negb_true_iff in Htn2. rewrite Hj4 in Hq2. fold pnames in Htn2. congruence. }
      rewrite Hnone in Hp.
      destruct (entry defs L r HR _ _ Hlab) as (t0 & Hr0 & e & Hb & He).
      destruct (builtin_not_cow r _ _ Hb) as (Hc & Hpi & Hd).
      rewrite (resolve_type_entry r _ _ Hr0) in Hp. cbn [bind] in Hp. rewrite Hc in Hp. cbn [bind] in Hp.
      rewrite Hpi in Hp. cbn [mapM bind] in Hp. unfold resolve_def in Hp. rewrite Hd in Hp.
      apply bind_ok in Hp as (i & Hi & Hp). destruct (s_compact s) as [cp|] eqn:Ecp; [|discriminate].
      inversion Hp; subst p. cbn [erase_tpath src_tpath is_compact]. rewrite Ecp. cbn [opt_toks].
      f_equal. f_equal.
      apply (resolve_src defs L r s otp HR Hdefs Hprel Hord sd args parents Hlen Hcanon Hp1 Hp2 args_dist
                (src_size (sf_ty sf)) (sf_ty sf) (le_n _) Hff1 Hnl' Hwr' Hsk' fuel e false None i);
        [intros i0 _; left; reflexivity|exact He|exact Hi].
    - (* the field's id is the closed field type *)
      assert (Ht : erase_tpath p = src_tpath defs s otp true (sf_ty sf)).
      { apply (resolve_src defs L r s otp HR Hdefs Hprel Hord sd args parents Hlen Hcanon Hp1 Hp2 args_dist
                  (src_size (sf_ty sf)) (sf_ty sf) (le_n _) Hff1 Hnl' Hwr' Hsk' (fuel0 r) (f_ty f) true
                  (f_type_name f) p); [|exact Hlab|exact Hp].
        intros i Ei. rewrite Htn. destruct (sf_type_name sf); [right|left; reflexivity].
        destruct (nth_error (sd_params sd) i) as [[nm sk]|] eqn:En.
        - destruct sk.
          + exfalso. apply (Hsk' i nm); [rewrite Ei; destruct (src_size (SParam i)) eqn:Es; [discriminate Es|left; reflexivity]|exact En].
          + exists nm. split; [reflexivity|]. rewrite Ei. cbn [render]. unfold pnames.
            rewrite (nth_map_fst _ _ _ _ _ En). reflexivity.
        - exfalso. rewrite Ei in Hlab. unfold lab in Hlab. cbv zeta in Hlab. cbn [subst_src] in Hlab.
          rewrite nth_overflow in Hlab by (apply nth_error_None in En; lia).
          cbn [canon] in Hlab. destruct (entry defs L r HR _ _ Hlab) as (t0 & _ & []). }
      rewrite Ht, <- (is_compact_erase p), Ht. reflexivity.
  Qed.

  (** C05_skeleton_is_source (fragment): parameters and fields of the IR of an instantiation *)
  Theorem skeleton_is_source flat ir :
    create_type_ir r s t flat = Ok (Some ir) ->
    map tpi_idx (ti_params ir) = map N.of_nat (generics_of sd) /\
    Forall2 (fun sf fi => erase_fi fi = normal_field defs s otp sf)
            (def_sfields sd) (kind_fields (ti_kind ir)).
  Proof.
    intros Hc. destruct parents_facts as (_ & _ & Hidx).
    pose proof Hc as Hc'. rewrite create_type_ir_eq in Hc'.
    destruct (negb (is_composite_or_variant (t_def t))); [discriminate|]. cbv zeta in Hc'.
    destruct (path_ident (t_path t)) as [nm|]; [|discriminate].
    apply bind_ok in Hc' as (name & _ & Hc').
    apply bind_ok in Hc' as ([[kind cdac] unused] & Hk & Hc').
    apply bind_ok in Hc' as (dd & _ & Hc'). inversion Hc'; subst ir; clear Hc'. cbn [ti_params ti_kind].
    split; [exact Hidx|].
    destruct ent_inv as (_ & _ & _ & Hbody).
    assert (Hfs : forall fs fl lf, (forall sf, In sf fs -> In sf (def_sfields sd)) ->
              Forall2 (field_of defs L pnames args) fs fl ->
              Forall2 (fun f fi => field_ir_of r s parents f = Ok fi) fl lf ->
              Forall2 (fun sf fi => erase_fi fi = normal_field defs s otp sf) fs lf).
    { intros fs fl lf Hin H1 H2.
      eapply (Forall2_trans_In _ _ _ fs fl lf H1 H2). intros a b c Ha Hab Hbc.
      eapply field_skeleton; eauto. }
    unfold def_sfields in *. destruct (sd_body sd) as [fs|vs].
    - destruct Hbody as (fl & Hdef & Hfl). rewrite Hdef in Hk.
      apply bind_ok in Hk as ([k u] & Hcc & Hk). cbn [fst snd] in Hk. inversion Hk; subst.
      cbn [kind_fields ci_kind]. apply cck_fields in Hcc.
      apply (Hfs fs fl _ (fun sf H => H) Hfl Hcc).
    - destruct Hbody as (vl & Hdef & Hvl). rewrite Hdef in Hk.
      apply bind_ok in Hk as ([l u] & Hcc & Hk). cbn [fst snd] in Hk. inversion Hk; subst.
      cbn [kind_fields]. apply variants_fields in Hcc.
      apply (Forall2_app_flat _ (fun v : string * N * list sfield => snd v)
                              (fun x : N * composite_ir => ckind_fields (ci_kind (snd x)))).
      eapply (Forall2_trans_In _ _ _ vs vl l Hvl Hcc). intros v vr x Hv (_ & _ & Hvf) Hx.
      apply (Hfs (snd v) (v_fields vr) _); [|exact Hvf|exact Hx].
      intros sf Hsf. apply in_flat_map. exists v. split; assumption.
  Qed.
End Main.

(** ** all instantiations of one definition have the same skeleton (parameters and fields) *)
Lemma Forall2_common {A B C} (R : A -> B -> Prop) (R' : A -> C -> Prop) (Q : B -> C -> Prop) :
  (forall a b c, R a b -> R' a c -> Q b c) ->
  forall la lb lc, Forall2 R la lb -> Forall2 R' la lc -> Forall2 Q lb lc.
Proof.
  intros H la lb lc H1. revert lc. induction H1 as [|a b la lb Hab Hl IH]; intros lc H2.
  - inversion H2; subst. constructor.
  - inversion H2; subst. constructor; [eapply H; eauto|apply IH; assumption].
Qed.

Theorem one_item defs L r s (otp : bool -> tpath) :
  RegistryOf defs L r -> (forall sd, In sd defs -> def_okb s sd = true) ->
  prelude_okb s = true -> order_resolves s otp ->
  forall d sd, nth_error defs d = Some sd ->
  forallb (fun f => no_cow_cow (sf_ty f)) (def_sfields sd) = true -> box_names_okb defs sd = true ->
  forall args1 args2 t1 t2 flat1 flat2 ir1 ir2,
  instantiation_cf defs sd args1 = true -> map canon args1 = args1 -> compact_fields_okb defs sd args1 = true ->
  instantiation_cf defs sd args2 = true -> map canon args2 = args2 -> compact_fields_okb defs sd args2 = true ->
  entry_of defs L r (SApp d args1) t1 -> entry_of defs L r (SApp d args2) t2 ->
  create_type_ir r s t1 flat1 = Ok (Some ir1) -> create_type_ir r s t2 flat2 = Ok (Some ir2) ->
  map tpi_idx (ti_params ir1) = map tpi_idx (ti_params ir2) /\
  Forall2 (fun f1 f2 => erase_fi f1 = erase_fi f2) (kind_fields (ti_kind ir1)) (kind_fields (ti_kind ir2)).
Proof.
  intros HR Hdefs Hprel Hord d sd Hsd Hfrag Hbox args1 args2 t1 t2 flat1 flat2 ir1 ir2
         Hcf1 Hcan1 Hco1 Hcf2 Hcan2 Hco2 He1 He2 Hc1 Hc2.
  destruct (skeleton_is_source defs L r s otp HR Hdefs Hprel Hord d sd args1 Hsd Hcf1 Hcan1 Hfrag Hco1 Hbox t1 He1 flat1 ir1 Hc1)
    as (Hp1 & Hf1).
  destruct (skeleton_is_source defs L r s otp HR Hdefs Hprel Hord d sd args2 Hsd Hcf2 Hcan2 Hfrag Hco2 Hbox t2 He2 flat2 ir2 Hc2)
    as (Hp2 & Hf2).
  split; [congruence|].
  apply (Forall2_common (fun sf fi => erase_fi fi = normal_field defs s otp sf)
                        (fun sf fi => erase_fi fi = normal_field defs s otp sf)
                        (fun f1 f2 => erase_fi f1 = erase_fi f2)) with (la := def_sfields sd);
    [|exact Hf1|exact Hf2].
  intros a b c H1 H2. congruence.
Qed.

Lemma order_resolvesb_sound s : order_resolvesb s = true -> order_resolves s (order_tp_of s).
Proof.
  unfold order_resolvesb, order_resolves, order_tp_of. intros H lsb. apply andb_prop in H as [H1 H2].
  destruct lsb.
  - destruct (type_path_maybe_with_substitutes s (order_path_of true) []); try discriminate H1. reflexivity.
  - destruct (type_path_maybe_with_substitutes s (order_path_of false) []); try discriminate H2. reflexivity.
Qed.

(** ** a concrete program on which every hypothesis holds: [a::Foo<T> { x: T, y: Box<Vec<T>> }]
    (one compact-attribute field [n: u32]) instantiated at [u16] and at [bool] *)
Definition ex5_defs : list sdef :=
  [mk_sdef ["a"; "Foo"] [("T", false); ("U", true)]
           (SBStruct [mk_sfield (Some "x") (SParam 0) false true;
                      mk_sfield (Some "y") (SBox (SVec (SParam 0))) false true;
                      mk_sfield (Some "n") (SPrimT PU32) true true])].
Definition ex5_fld (n : string) (ty : N) (tn : string) : field := mk_field (Some n) ty (Some tn) [].
Definition ex5_foo (a v c : N) : ty :=
  mk_ty ["a"; "Foo"] [mk_tparam "T" (Some a); mk_tparam "U" None]
        (TDComposite [ex5_fld "x" a "T"; ex5_fld "y" v "Box<Vec<T>>"; ex5_fld "n" c "u32"]) [].
Definition ex5_reg : registry :=
  [(0, ex5_foo 1 2 3); (1, mk_ty [] [] (TDPrimitive PU16) []); (2, mk_ty [] [] (TDSequence 1) []);
   (3, mk_ty [] [] (TDCompact 4) []); (4, mk_ty [] [] (TDPrimitive PU32) []);
   (5, ex5_foo 6 7 3); (6, mk_ty [] [] (TDPrimitive PBool) []); (7, mk_ty [] [] (TDSequence 6) [])]%N.
Definition ex5_labels : list (option src) :=
  [Some (SApp 0 [SPrimT PU16; SPrimT PStr]); Some (SPrimT PU16); Some (SVec (SPrimT PU16));
   Some (SCompactT (SPrimT PU32)); Some (SPrimT PU32);
   Some (SApp 0 [SPrimT PBool; SPrimT PStr]); Some (SPrimT PBool); Some (SVec (SPrimT PBool))].
Definition ex5_L : N -> option src := label_at ex5_labels.
Definition ex5_s : settings :=
  mk_settings "root" false dreg_empty [] None None (Some [":"; ":"; "codec"; ":"; ":"; "Compact"]) true AStd.

Lemma ex5_registry_ofb : registry_ofb ex5_defs ex5_labels ex5_reg = true.
Proof. vm_compute. reflexivity. Qed.

Lemma ex5_RegistryOf : RegistryOf ex5_defs ex5_L ex5_reg.
Proof.
  split; [|split].
  - intros id c H. unfold ex5_L, label_at in H.
    destruct (N.to_nat id) as [|[|[|[|[|[|[|[|n]]]]]]]] eqn:E;
      apply (f_equal N.of_nat) in E; rewrite N2Nat.id in E; subst id;
      cbn in H; try discriminate; try (destruct n; discriminate H); injection H as Hc; subst c;
      (eexists; split; [reflexivity|]).
    + exists (mk_sdef ["a"; "Foo"] [("T", false); ("U", true)]
           (SBStruct [mk_sfield (Some "x") (SParam 0) false true;
                      mk_sfield (Some "y") (SBox (SVec (SParam 0))) false true;
                      mk_sfield (Some "n") (SPrimT PU32) true true])).
      repeat split.
      * repeat constructor. exists 1%N. split; reflexivity.
      * eexists. split; [reflexivity|]. repeat constructor.
    + repeat split.
    + exists 1%N. repeat split.
    + exists 4%N. repeat split.
    + repeat split.
    + exists (mk_sdef ["a"; "Foo"] [("T", false); ("U", true)]
           (SBStruct [mk_sfield (Some "x") (SParam 0) false true;
                      mk_sfield (Some "y") (SBox (SVec (SParam 0))) false true;
                      mk_sfield (Some "n") (SPrimT PU32) true true])).
      repeat split.
      * repeat constructor. exists 6%N. split; reflexivity.
      * eexists. split; [reflexivity|]. repeat constructor.
    + repeat split.
    + exists 6%N. repeat split.
  - intros id t H H0. exfalso. unfold ex5_L, label_at in H0. unfold resolve in H.
    destruct (N.to_nat id) as [|[|[|[|[|[|[|[|n]]]]]]]]; cbn in H, H0; try discriminate.
    destruct n; discriminate.
  - intros i j c Hi Hj. unfold ex5_L, label_at in Hi, Hj. apply N2Nat.inj.
    destruct (N.to_nat i) as [|[|[|[|[|[|[|[|n]]]]]]]]; cbn in Hi; try (destruct n; discriminate Hi);
      destruct (N.to_nat j) as [|[|[|[|[|[|[|[|m]]]]]]]]; cbn in Hj; try (destruct m; discriminate Hj);
      congruence.
Qed.

Definition ex5_sd : sdef := nth 0 ex5_defs (mk_sdef [] [] (SBStruct [])).
Definition ex5_otp : bool -> tpath := order_tp_of ex5_s.

Lemma ex5_settings_ok : prelude_okb ex5_s = true /\ order_resolves ex5_s ex5_otp /\ render_okb ex5_s ex5_defs = true.
Proof.
  split; [vm_compute; reflexivity|]. split; [apply order_resolvesb_sound; vm_compute; reflexivity|vm_compute; reflexivity].
Qed.

Lemma ex5_hypotheses :
  (forall sd, In sd ex5_defs -> def_okb ex5_s sd = true) /\
  nth_error ex5_defs 0 = Some ex5_sd /\
  forallb (fun f => no_cow_cow (sf_ty f)) (def_sfields ex5_sd) = true /\ box_names_okb ex5_defs ex5_sd = true /\
  instantiation_cf ex5_defs ex5_sd [SPrimT PU16; SPrimT PStr] = true /\
  instantiation_cf ex5_defs ex5_sd [SPrimT PBool; SPrimT PStr] = true /\
  compact_fields_okb ex5_defs ex5_sd [SPrimT PU16; SPrimT PStr] = true /\
  compact_fields_okb ex5_defs ex5_sd [SPrimT PBool; SPrimT PStr] = true /\
  (exists ir, create_type_ir ex5_reg ex5_s (ex5_foo 1 2 3) flat0 = Ok (Some ir) /\
              map erase_fi (kind_fields (ti_kind ir)) = map (normal_field ex5_defs ex5_s ex5_otp) (def_sfields ex5_sd) /\
              (* the reading as parsed types: the source field types *)
              map (fun f => let p := tpath_pty ["std"] (fi_path f) in
                            if fi_boxed f then abs_p (["std"] ++ ["boxed"; "Box"]) [p] else p)
                  (kind_fields (ti_kind ir)) =
              map (field_pty ex5_defs "root" ["std"] (["codec"; "Compact"], true) ([], false) (fun _ => PBad))
                  (def_sfields ex5_sd)) /\
  (exists ir, create_type_ir ex5_reg ex5_s (ex5_foo 6 7 3) flat0 = Ok (Some ir)).
Proof.
  split.
  { intros sd [<-|[]]. vm_compute. reflexivity. }
  repeat split; try (vm_compute; reflexivity).
  - eexists. split; [vm_compute; reflexivity|]. split; vm_compute; reflexivity.
  - eexists. vm_compute. reflexivity.
Qed.
