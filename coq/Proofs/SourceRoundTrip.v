(** C05: every instantiation's skeleton is the normalised source definition (fragment). *)
From Coq Require Import List NArith String Bool Lia Arith.
From V Require Import Base.Util Base.Strings Base.Result Model.Registry Model.Settings Model.Subst
  Model.TypePath Model.Derives Model.Generate Model.WellFormed Model.Shape Model.Program
  Checkers.Parse Checkers.Sem
  Proofs.GenProofs Proofs.ResolveTotal Proofs.GenTotal Proofs.ClosedProofs.
Import ListNotations.
Open Scope string_scope. Open Scope list_scope.

(** ** the local list fixpoints of Model/Program.v as named functions *)
Fixpoint live_go (l : list src) (sk : list bool) : list src :=
  match l, sk with
  | x :: l', false :: sk' => x :: live_go l' sk'
  | _ :: l', true :: sk' => live_go l' sk'
  | x :: l', [] => x :: live_go l' []
  | [], _ => []
  end.

Fixpoint sizes (l : list src) : nat :=
  match l with [] => O | x :: l' => (src_size x + sizes l')%nat end.

Lemma live_args_eq defs d sd xs :
  nth_error defs d = Some sd -> live_args defs d xs = live_go xs (map snd (sd_params sd)).
Proof.
  intros H. unfold live_args. rewrite H. generalize (map snd (sd_params sd)).
  induction xs as [|x xs IH]; intros sk; [destruct sk; reflexivity|].
  destruct sk as [|[|] sk]; cbn; rewrite ?IH; reflexivity.
Qed.

Lemma live_go_incl : forall xs sk x, In x (live_go xs sk) -> In x xs.
Proof.
  induction xs as [|y xs IH]; intros sk x H; [destruct sk; destruct H|].
  destruct sk as [|[|] sk]; cbn [live_go] in H.
  - destruct H as [E|H]; [left; exact E|right; eapply IH; eauto].
  - right; eapply IH; eauto.
  - destruct H as [E|H]; [left; exact E|right; eapply IH; eauto].
Qed.

Lemma src_size_app d xs : src_size (SApp d xs) = S (sizes xs).
Proof. reflexivity. Qed.
Lemma src_size_tup xs : src_size (STup xs) = S (sizes xs).
Proof. reflexivity. Qed.
Lemma sizes_In x xs : In x xs -> (src_size x <= sizes xs)%nat.
Proof.
  induction xs as [|y xs IH]; intros H; [destruct H|]. cbn [sizes].
  destruct H as [->|H]; [lia|]. specialize (IH H). lia.
Qed.

Section G.
  Variable args : list src.
  Definition cs (x : src) : src := canon (subst_src args x).

  Lemma cs_app d xs : cs (SApp d xs) = SApp d (map cs xs).
  Proof.
    unfold cs. cbn [subst_src canon]. f_equal.
    induction xs as [|x xs IH]; [reflexivity|]. cbn [map]. rewrite <- IH. reflexivity.
  Qed.
  Lemma cs_tup xs : cs (STup xs) = STup (map cs xs).
  Proof.
    unfold cs. cbn [subst_src canon]. f_equal.
    induction xs as [|x xs IH]; [reflexivity|]. cbn [map]. rewrite <- IH. reflexivity.
  Qed.
End G.

Lemma src_tpath_app defs s otp isf d sd xs :
  nth_error defs d = Some sd ->
  src_tpath defs s otp isf (SApp d xs) =
  TPath (rel_path (s_root s :: sd_path sd))
        (map (src_tpath defs s otp false) (live_go xs (map snd (sd_params sd)))).
Proof.
  intros H. cbn [src_tpath]. rewrite H. f_equal. generalize (map snd (sd_params sd)).
  induction xs as [|x xs IH]; intros sk; [destruct sk; reflexivity|].
  destruct sk as [|[|] sk]; cbn [live_go map]; rewrite ?IH; reflexivity.
Qed.

Lemma src_tpath_tup defs s otp isf xs :
  src_tpath defs s otp isf (STup xs) = TTuple (map (src_tpath defs s otp false) xs).
Proof.
  reflexivity.
Qed.

Lemma components_S n defs t :
  components_fuel (S n) defs t =
  t :: match t with
       | SApp d xs => flat_map (components_fuel n defs) (live_args defs d xs)
       | STup ts => flat_map (components_fuel n defs) ts
       | SVec x | SVecDeque x | SArray _ x | SCompactT x | SBox x | SOpt x | SBTreeSet x | SCow x | SRange x =>
           components_fuel n defs x
       | SRes a b | SBTreeMap a b => components_fuel n defs a ++ components_fuel n defs b
       | SBitVec st _ => [SPrimT st]
       | _ => []
       end.
Proof. reflexivity. Qed.

Lemma src_params_S n defs t :
  src_params_fuel (S n) defs t =
  match t with
  | SParam i => [i]
  | SApp d args => flat_map (src_params_fuel n defs) (live_args defs d args)
  | STup ts => flat_map (src_params_fuel n defs) ts
  | SVec t | SVecDeque t | SArray _ t | SCompactT t | SBox t | SOpt t | SBTreeSet t | SCow t | SRange t =>
      src_params_fuel n defs t
  | SRes a b | SBTreeMap a b => src_params_fuel n defs a ++ src_params_fuel n defs b
  | SPrimT _ | SBitVec _ _ => []
  end.
Proof. reflexivity. Qed.

Lemma find_parent_none parents id orig :
  (forall p, In p parents -> tpi_id p <> id) -> find_parent parents id orig = None.
Proof.
  intros H. unfold find_parent.
  destruct (find _ parents) as [q|] eqn:E; [|reflexivity].
  apply find_some in E as [Hin Hq]. apply andb_prop in Hq as [Hq _]. apply N.eqb_eq in Hq.
  exfalso. exact (H q Hin Hq).
Qed.

Lemma find_exists {A} (f : A -> bool) l x : In x l -> f x = true -> exists y, find f l = Some y.
Proof.
  induction l as [|a l IH]; intros Hin Hf; [contradiction|]. cbn [find].
  destruct (f a) eqn:E; [eauto|]. destruct Hin as [->|Hin]; [congruence|auto].
Qed.

Lemma is_cow_last p : p <> [] -> is_cow (path_ident p) = String.eqb (last p "") "Cow".
Proof. destruct p; [congruence|reflexivity]. Qed.

Lemma param_ids_eq t :
  param_ids t = flat_map (fun p => match tp_ty p with Some i => [i] | None => [] end) (t_params t).
Proof. reflexivity. Qed.

Section Core.
  Variable defs : list sdef.
  Variable L : N -> option src.
  Variable r : registry.
  Variable s : settings.
  Variable otp : bool -> tpath.
  Hypothesis HR : RegistryOf defs L r.
  Hypothesis Hdefs : forall sd, In sd defs -> def_okb s sd = true.

  (** the instantiation whose entry is being turned into an item *)
  Variable sd : sdef.
  Variable args : list src.
  Variable parents : list tparam_ir.
  Hypothesis Hlen : List.length args = List.length (sd_params sd).
  Hypothesis Hcanon : forall a, In a args -> canon a = a.

  Definition live (a : src) : Prop :=
    exists i nm, nth_error (sd_params sd) i = Some (nm, false) /\ nth_error args i = Some a.

  Hypothesis Hpar : forall p, In p parents ->
    exists i nm a, nth_error (sd_params sd) i = Some (nm, false) /\ nth_error args i = Some a /\
                   tpi_idx p = N.of_nat i /\ tpi_orig p = nm /\ L (tpi_id p) = Some a.
  Hypothesis Hpar' : forall i nm a,
    nth_error (sd_params sd) i = Some (nm, false) -> nth_error args i = Some a ->
    exists p, In p parents /\ tpi_idx p = N.of_nat i /\ tpi_orig p = nm /\ L (tpi_id p) = Some a.
  Hypothesis Hdist : forall i j ni nj a,
    nth_error (sd_params sd) i = Some (ni, false) -> nth_error args i = Some a ->
    nth_error (sd_params sd) j = Some (nj, false) -> nth_error args j = Some a -> i = j.

  Definition notlive (c : src) : Prop := forall a, live a -> cs args c <> a.

  Let F (fuel : nat) (id : N) : result tpath := resolve_rec r s fuel id false parents None.
  Let nt := src_tpath defs s otp.

  Lemma no_parent id c orig :
    L id = Some (cs args c) -> notlive c -> find_parent parents id orig = None.
  Proof.
    intros Hl Hn. apply find_parent_none. intros p Hp E.
    destruct (Hpar p Hp) as (i & nm & a & H1 & H2 & _ & _ & H5).
    rewrite E, Hl in H5. inversion H5 as [H6]. apply (Hn a); [exists i, nm; auto|exact H6].
  Qed.

  Lemma entry id c : L id = Some c -> exists t, resolve r id = Some t /\ entry_of defs L r c t.
  Proof. destruct HR as (H & _ & _). apply H. Qed.

  Lemma L_inj i j c : L i = Some c -> L j = Some c -> i = j.
  Proof. destruct HR as (_ & _ & H). apply H. Qed.

  Lemma resolve_type_entry id t : resolve r id = Some t -> resolve_type r id = Ok t.
  Proof. unfold resolve_type. intros ->. reflexivity. Qed.

  Lemma builtin_not_cow t d : builtin t d -> cow_step r t = Ok t /\ param_ids t = [] /\ t_def t = d.
  Proof.
    intros (Hp & Hps & Hd). rewrite cow_step_eq, Hp. cbn [path_ident is_cow].
    rewrite param_ids_eq, Hps. auto.
  Qed.

  (** resolved parameters of an application, position by position *)
  Lemma app_params fuel : forall (pl : list (string * bool)) (xs : list src) (tps : list tparam) ps,
    List.length xs = List.length pl ->
    Forall2 (param_of L) (combine pl (map (cs args) xs)) tps ->
    mapM (F fuel) (flat_map (fun p => match tp_ty p with Some i => [i] | None => [] end) tps) = Ok ps ->
    (forall x id t, In x (live_go xs (map snd pl)) -> L id = Some (cs args x) -> F fuel id = Ok t ->
                    erase_tpath t = nt false x) ->
    map erase_tpath ps = map (nt false) (live_go xs (map snd pl)).
  Proof.
    induction pl as [|[nm sk] pl IH]; intros xs tps ps Hl HF HM Hx.
    - destruct xs; [|discriminate]. cbn [map combine] in HF. inversion HF; subst.
      cbn [flat_map mapM] in HM. inversion HM; subst. reflexivity.
    - destruct xs as [|x xs]; [discriminate|]. cbn [map combine] in HF.
      inversion HF as [|pa tp l l' Hpa Hrest]; subst. destruct Hpa as [_ Hty]. cbn [fst snd] in Hty.
      cbn [List.length] in Hl. injection Hl as Hl.
      cbn [flat_map] in HM. cbn [map snd live_go].
      destruct sk.
      + rewrite Hty in HM. cbn [app] in HM. apply (IH xs l' ps Hl Hrest HM).
        intros x' id t Hin. apply Hx. cbn [map snd live_go]. exact Hin.
      + destruct Hty as (id & Hty & Hlab). rewrite Hty in HM. cbn [app mapM] in HM.
        apply bind_ok in HM as (y & Hy & HM). apply bind_ok in HM as (ys & Hys & HM).
        inversion HM; subst. cbn [map]. f_equal.
        * eapply (Hx x id y); [left; reflexivity|exact Hlab|exact Hy].
        * apply (IH xs l' ys Hl Hrest Hys). intros x' id' t Hin. apply Hx. right. exact Hin.
  Qed.

  Lemma tup_elems fuel : forall (xs : list src) (es : list N) l,
    Forall2 (lab L) es (map (cs args) xs) ->
    mapM (F fuel) es = Ok l ->
    (forall x id t, In x xs -> L id = Some (cs args x) -> F fuel id = Ok t -> erase_tpath t = nt false x) ->
    map erase_tpath l = map (nt false) xs.
  Proof.
    induction xs as [|x xs IH]; intros es l HF HM Hx.
    - inversion HF; subst. cbn [mapM] in HM. inversion HM; subst. reflexivity.
    - cbn [map] in HF. inversion HF as [|e c es' cs' He Hrest]; subst.
      cbn [mapM] in HM. apply bind_ok in HM as (y & Hy & HM). apply bind_ok in HM as (ys & Hys & HM).
      inversion HM; subst. cbn [map]. f_equal.
      + eapply (Hx x e y); [left; reflexivity|exact He|exact Hy].
      + apply (IH es' ys Hrest Hys). intros x' id t Hin. apply Hx. right; exact Hin.
  Qed.

  (** the core: resolving the id labelled with the closed instance of a source type [c] of
      the fragment, under the parameters of the instantiation, gives - up to the ids stored in
      [Param] nodes - the normalised path of [c] *)
  Lemma resolve_src : forall n c,
    (src_size c <= n)%nat -> src_fragment c = true ->
    (forall c', In c' (components_fuel n defs c) -> is_param c' = false -> notlive c') ->
    (forall c', In c' (components_fuel n defs c) -> match c' with SBox (SParam _) => False | _ => True end) ->
    (forall i nm, In i (src_params_fuel n defs c) -> nth_error (sd_params sd) i <> Some (nm, true)) ->
    forall fuel id isf orig t,
    (forall i, c = SParam i ->
               orig = None \/ exists nm, nth_error (sd_params sd) i = Some (nm, false) /\ orig = Some nm) ->
    L id = Some (cs args c) ->
    resolve_rec r s fuel id isf parents orig = Ok t ->
    erase_tpath t = nt isf c.
  Proof.
    induction n as [|n IH]; intros c Hsz Hfr Hnl Hwr Hsk fuel id isf orig t Horig Hl Hres.
    { destruct c; cbn [src_size] in Hsz; lia. }
    destruct fuel as [|fuel]; [discriminate|].
    rewrite resolve_rec_S in Hres. rewrite components_S in Hnl, Hwr. rewrite src_params_S in Hsk.
    (* recursion on a direct component *)
    assert (Hsub : forall x, (src_size x <= n)%nat -> src_fragment x = true ->
              (forall c', In c' (components_fuel n defs x) -> In c' (components_fuel (S n) defs c)) ->
              (forall i, In i (src_params_fuel n defs x) -> In i (src_params_fuel (S n) defs c)) ->
              x <> SParam 0 \/ True ->
              forall id' t', (forall i, x = SParam i -> True) ->
              L id' = Some (cs args x) -> F fuel id' = Ok t' -> erase_tpath t' = nt false x).
    { intros x Hx1 Hx2 Hx3 Hx4 _ id' t' _ Hl' Hr'.
      apply (IH x Hx1 Hx2) with (fuel := fuel) (id := id') (orig := None).
      - intros c' Hc'. apply Hnl. rewrite <- components_S. apply Hx3. exact Hc'.
      - intros c' Hc'. apply Hwr. rewrite <- components_S. apply Hx3. exact Hc'.
      - intros i nm Hi. apply Hsk. rewrite <- src_params_S. apply Hx4. exact Hi.
      - intros i _. left; reflexivity.
      - exact Hl'.
      - exact Hr'. }
    assert (Hself : is_param c = false -> find_parent parents id orig = None).
    { intros Hp. eapply no_parent; [exact Hl|]. apply Hnl; [left; reflexivity|exact Hp]. }
    destruct c as [i|d' xs|x|x|len x|xs|p|x|x|x|a b|a b|x|x|x|st lsb]; try discriminate Hfr.
    - (* SParam *)
      clear Hself. unfold cs in Hl. cbn [subst_src] in Hl.
      destruct (nth_error args i) as [a|] eqn:Ea.
      2:{ rewrite (nth_overflow args) in Hl by (apply nth_error_None; exact Ea).
          cbn [canon] in Hl. destruct (entry _ _ Hl) as (t0 & _ & []). }
      rewrite (nth_error_nth args i _ Ea) in Hl. rewrite (Hcanon a (nth_error_In _ _ Ea)) in Hl.
      destruct (nth_error (sd_params sd) i) as [[nm sk]|] eqn:Ep.
      2:{ apply nth_error_None in Ep. assert (i < List.length args)%nat by (apply nth_error_Some; congruence). lia. }
      destruct sk. { exfalso. apply (Hsk i nm); [left; reflexivity|exact Ep]. }
      destruct (Hpar' i nm a Ep Ea) as (p & Hp & Hidx & Horg & HLp).
      assert (Hid : tpi_id p = id) by (eapply L_inj; eauto).
      assert (Hpred : (N.eqb (tpi_id p) id &&
                       match orig with None => true | Some o => String.eqb (tpi_orig p) o end) = true).
      { rewrite Hid, N.eqb_refl. destruct (Horig i eq_refl) as [->|(nm' & Hnm' & ->)]; [reflexivity|].
        rewrite Ep in Hnm'. inversion Hnm'; subst nm'. rewrite Horg, String.eqb_refl. reflexivity. }
      destruct (find_exists (fun tp => N.eqb (tpi_id tp) id &&
                                match orig with None => true | Some o => String.eqb (tpi_orig tp) o end)
                            parents p Hp Hpred) as (q & Hq). unfold find_parent in Hres. rewrite Hq in Hres.
      inversion Hres; subst t. apply find_some in Hq as [Hqin Hqp].
      apply andb_prop in Hqp as [Hqid _]. apply N.eqb_eq in Hqid.
      destruct (Hpar q Hqin) as (j & nj & a' & Hj1 & Hj2 & Hj3 & _ & Hj5).
      rewrite Hqid, Hl in Hj5. inversion Hj5; subst a'.
      assert (j = i) by (eapply Hdist; eauto). subst j.
      cbn [erase_tpath]. unfold erase_tpi. rewrite Hj3. reflexivity.
    - (* SApp *)
      rewrite (Hself eq_refl) in Hres. rewrite cs_app in Hl.
      destruct (entry _ _ Hl) as (t0 & Hr0 & sd' & Hsd' & Hpath & Hlen' & Hps & Hbody).
      rewrite (resolve_type_entry _ _ Hr0) in Hres. cbn [bind] in Hres.
      assert (Hin' : In sd' defs) by (eapply nth_error_In; eauto).
      pose proof (Hdefs sd' Hin') as Hok. unfold def_okb in Hok.
      apply andb_prop in Hok as [Hok Hok4]. apply andb_prop in Hok as [Hok Hok3].
      apply andb_prop in Hok as [Hok1 Hok2].
      destruct (sd_path sd') as [|pa [|pb pl]] eqn:Epath; try discriminate Hok2.
      assert (Hcow : cow_step r t0 = Ok t0).
      { rewrite cow_step_eq, Hpath, is_cow_last by discriminate.
        apply negb_true_iff in Hok4. rewrite Hok4. reflexivity. }
      rewrite Hcow in Hres. cbn [bind] in Hres.
      apply bind_ok in Hres as (ps & Hmps & Hres).
      assert (Hcv : resolve_def r s fuel isf parents t0 ps =
                    type_path_maybe_with_substitutes s (t_path t0) ps).
      { unfold resolve_def. cbv zeta in Hbody. destruct (sd_body sd').
        - destruct Hbody as (fl & -> & _). reflexivity.
        - destruct Hbody as (vl & -> & _). reflexivity. }
      rewrite Hcv in Hres. unfold type_path_maybe_with_substitutes, for_path_with_params in Hres.
      rewrite Hpath in Hres.
      destruct (subs_get (s_subs s) (pa :: pb :: pl)); [discriminate Hok1|].
      unfold from_type_def_path in Hres. rewrite Hok3 in Hres. cbn [bind] in Hres.
      inversion Hres; subst t. cbn [erase_tpath].
      unfold nt. rewrite (src_tpath_app _ _ _ _ _ _ _ Hsd'), Epath. f_equal.
      rewrite map_length in Hlen'. rewrite param_ids_eq in Hmps.
      apply (app_params fuel (sd_params sd') xs (t_params t0) ps Hlen' Hps Hmps).
      intros x id' t' Hx Hl' Hr'.
      assert (Hxin : In x xs) by (eapply live_go_incl; eauto).
      cbn [src_fragment] in Hfr. rewrite forallb_forall in Hfr.
      rewrite src_size_app in Hsz. pose proof (sizes_In _ _ Hxin).
      apply (Hsub x) with (id' := id') (t' := t'); auto; try lia.
      + intros c' Hc'. rewrite components_S. right. apply in_flat_map. exists x.
        rewrite (live_args_eq _ _ _ _ Hsd'). auto.
      + intros i Hi. rewrite src_params_S. apply in_flat_map. exists x.
        rewrite (live_args_eq _ _ _ _ Hsd'). auto.
    - (* SVec *)
      rewrite (Hself eq_refl) in Hres. unfold cs in Hl. cbn [subst_src canon] in Hl.
      destruct (entry _ _ Hl) as (t0 & Hr0 & e & Hb & He).
      destruct (builtin_not_cow _ _ Hb) as (Hc & Hp & Hd).
      rewrite (resolve_type_entry _ _ Hr0) in Hres. cbn [bind] in Hres. rewrite Hc in Hres. cbn [bind] in Hres.
      rewrite Hp in Hres. cbn [mapM bind] in Hres. unfold resolve_def in Hres. rewrite Hd in Hres.
      apply bind_ok in Hres as (i & Hi & Hres). inversion Hres; subst t. cbn [erase_tpath]. unfold nt.
      cbn [src_tpath]. f_equal. cbn [src_size] in Hsz. cbn [src_fragment] in Hfr.
      apply (Hsub x) with (id' := e) (t' := i); auto; try lia.
      intros c' Hc'. rewrite components_S. right. exact Hc'.
    - (* SVecDeque *)
      rewrite (Hself eq_refl) in Hres. unfold cs in Hl. cbn [subst_src canon] in Hl.
      destruct (entry _ _ Hl) as (t0 & Hr0 & e & Hb & He).
      destruct (builtin_not_cow _ _ Hb) as (Hc & Hp & Hd).
      rewrite (resolve_type_entry _ _ Hr0) in Hres. cbn [bind] in Hres. rewrite Hc in Hres. cbn [bind] in Hres.
      rewrite Hp in Hres. cbn [mapM bind] in Hres. unfold resolve_def in Hres. rewrite Hd in Hres.
      apply bind_ok in Hres as (i & Hi & Hres). inversion Hres; subst t. cbn [erase_tpath]. unfold nt.
      cbn [src_tpath]. f_equal. cbn [src_size] in Hsz. cbn [src_fragment] in Hfr.
      apply (Hsub x) with (id' := e) (t' := i); auto; try lia.
      intros c' Hc'. rewrite components_S. right. exact Hc'.
    - (* SArray *)
      rewrite (Hself eq_refl) in Hres. unfold cs in Hl. cbn [subst_src canon] in Hl.
      destruct (entry _ _ Hl) as (t0 & Hr0 & e & Hb & He).
      destruct (builtin_not_cow _ _ Hb) as (Hc & Hp & Hd).
      rewrite (resolve_type_entry _ _ Hr0) in Hres. cbn [bind] in Hres. rewrite Hc in Hres. cbn [bind] in Hres.
      rewrite Hp in Hres. cbn [mapM bind] in Hres. unfold resolve_def in Hres. rewrite Hd in Hres.
      apply bind_ok in Hres as (i & Hi & Hres). inversion Hres; subst t. cbn [erase_tpath]. unfold nt.
      cbn [src_tpath]. f_equal. cbn [src_size] in Hsz. cbn [src_fragment] in Hfr.
      apply (Hsub x) with (id' := e) (t' := i); auto; try lia.
      intros c' Hc'. rewrite components_S. right. exact Hc'.
    - (* STup *)
      rewrite (Hself eq_refl) in Hres. rewrite cs_tup in Hl.
      destruct (entry _ _ Hl) as (t0 & Hr0 & es & Hb & Hes).
      destruct (builtin_not_cow _ _ Hb) as (Hc & Hp & Hd).
      rewrite (resolve_type_entry _ _ Hr0) in Hres. cbn [bind] in Hres. rewrite Hc in Hres. cbn [bind] in Hres.
      rewrite Hp in Hres. cbn [mapM bind] in Hres. unfold resolve_def in Hres. rewrite Hd in Hres.
      apply bind_ok in Hres as (l & Hml & Hres). inversion Hres; subst t. cbn [erase_tpath]. unfold nt.
      rewrite src_tpath_tup. f_equal.
      apply (tup_elems fuel xs es l Hes Hml).
      intros x id' t' Hxin Hl' Hr'.
      cbn [src_fragment] in Hfr. rewrite forallb_forall in Hfr.
      rewrite src_size_tup in Hsz. pose proof (sizes_In _ _ Hxin).
      apply (Hsub x) with (id' := id') (t' := t'); auto; try lia.
      + intros c' Hc'. rewrite components_S. right. apply in_flat_map. exists x. auto.
      + intros i Hi. rewrite src_params_S. apply in_flat_map. exists x. auto.
    - (* SPrimT *)
      rewrite (Hself eq_refl) in Hres. unfold cs in Hl. cbn [subst_src canon] in Hl.
      destruct (entry _ _ Hl) as (t0 & Hr0 & Hb).
      destruct (builtin_not_cow _ _ Hb) as (Hc & Hp & Hd).
      rewrite (resolve_type_entry _ _ Hr0) in Hres. cbn [bind] in Hres. rewrite Hc in Hres. cbn [bind] in Hres.
      rewrite Hp in Hres. cbn [mapM bind] in Hres. unfold resolve_def in Hres. rewrite Hd in Hres.
      inversion Hres; subst t. reflexivity.
    - (* SCompactT *)
      rewrite (Hself eq_refl) in Hres. unfold cs in Hl. cbn [subst_src canon] in Hl.
      destruct (entry _ _ Hl) as (t0 & Hr0 & e & Hb & He).
      destruct (builtin_not_cow _ _ Hb) as (Hc & Hp & Hd).
      rewrite (resolve_type_entry _ _ Hr0) in Hres. cbn [bind] in Hres. rewrite Hc in Hres. cbn [bind] in Hres.
      rewrite Hp in Hres. cbn [mapM bind] in Hres. unfold resolve_def in Hres. rewrite Hd in Hres.
      apply bind_ok in Hres as (i & Hi & Hres). destruct (s_compact s) as [cp|] eqn:Ecp; [|discriminate].
      inversion Hres; subst t. cbn [erase_tpath]. unfold nt.
      cbn [src_tpath]. rewrite Ecp. cbn [opt_toks]. f_equal. cbn [src_size] in Hsz. cbn [src_fragment] in Hfr.
      apply (Hsub x) with (id' := e) (t' := i); auto; try lia.
      intros c' Hc'. rewrite components_S. right. exact Hc'.
    - (* SBox: transparent, the same id *)
      clear Hself Hsub. rewrite <- resolve_rec_S in Hres.
      cbn [src_size] in Hsz. cbn [src_fragment] in Hfr.
      unfold nt. cbn [src_tpath].
      apply (IH x) with (fuel := S fuel) (id := id) (orig := orig); auto; try lia.
      + intros c' Hc'. apply Hnl. right. exact Hc'.
      + intros c' Hc'. apply Hwr. right. exact Hc'.
      + intros i -> . exfalso. apply (Hwr (SBox (SParam i))). left; reflexivity.
  Qed.
End Core.
