(** C02: a stronger node invariant of [resolve_rec] (argument counts of rooted paths, origin
    of the compact / bits wrapper paths) and, from it, [C02_arity_consistent]: under
    [skeleton_consistent] the number of generic arguments at every path rooted at the types
    module equals the number of parameters the item found there declares. *)
From Coq Require Import List NArith String Ascii Bool Lia Arith Sorted.
From V Require Import Base.Strings Base.Result Model.Registry Model.Settings Model.Subst
  Model.TypePath Model.Derives Model.Generate Model.Emit Model.Equal Model.WellFormed Model.Shape
  Proofs.GenProofs Proofs.StringOrder Proofs.ResolveTotal Proofs.GenTotal Proofs.ClosedProofs
  Proofs.FidelityBase Proofs.FidelityGen.
Import ListNotations.
Open Scope nat_scope. Open Scope string_scope. Open Scope list_scope.

Definition all_nodes (P : tpath -> Prop) (t : tpath) : Prop := forall x, In x (subpaths t) -> P x.

Section Inv.
  Variable r : registry.
  Variable s : settings.
  Hypothesis Hfresh : Proofs.ClosedProofs.root_fresh s.

  (** the entry a rooted path was printed for, with the number of its (non-skipped) parameters *)
  Definition item_entry2 (p : list string) (n : nat) : Prop :=
    exists id t, resolve r id = Some t /\ t_path t = p /\
                 is_composite_or_variant (t_def t) = true /\
                 subs_get (s_subs s) p = None /\ (exists a b l, p = a :: b :: l) /\
                 n = List.length (param_ids t).

  Definition node_inv (x : tpath) : Prop :=
    match x with
    | TPath ptoks params =>
        hd_error ptoks = Some (s_root s) ->
        exists p, ptoks = rel_path (s_root s :: p) /\ item_entry2 p (List.length params)
    | TCompact _ _ c => s_compact s = Some c
    | TBitVec _ _ b => s_bits s = Some b
    | _ => True
    end.

  Definition inv (t : tpath) : Prop := all_nodes node_inv t.

  Lemma inv_TPath ptoks params :
    node_inv (TPath ptoks params) -> (forall y, In y params -> inv y) -> inv (TPath ptoks params).
  Proof.
    intros Hself Hch x Hin. cbn [subpaths] in Hin. destruct Hin as [<-|Hin]; [exact Hself|].
    apply in_flat_map in Hin as (y & Hy & Hin). exact (Hch y Hy x Hin).
  Qed.

  Lemma inv_top (t : tpath) rest :
    subpaths t = t :: rest -> node_inv t -> (forall x, In x rest -> node_inv x) -> inv t.
  Proof. intros E Ht Hr x Hin. rewrite E in Hin. destruct Hin as [<-|Hin]; auto. Qed.

  Lemma maybe_subst_inv id t params x :
    resolve r id = Some t -> is_composite_or_variant (t_def t) = true ->
    (forall y, In y params -> inv y) -> List.length params = List.length (param_ids t) ->
    type_path_maybe_with_substitutes s (t_path t) params = Ok x -> inv x.
  Proof.
    destruct Hfresh as (Hcolon & Halloc & Hsubs).
    intros Hr Hcv Hps Hlen. unfold type_path_maybe_with_substitutes, for_path_with_params.
    destruct (subs_get (s_subs s) (t_path t)) as [sub|] eqn:Esub.
    - destruct (subs_get_In _ _ _ Esub) as (k & Hk). pose proof (Hsubs _ _ Hk) as Hhead.
      destruct (su_map sub) as [|m].
      + intros E. inversion E; subst. apply inv_TPath; [|exact Hps].
        cbn [node_inv]. rewrite print_spath_head. intros Hh. contradiction.
      + match goal with
        | |- match ?sel with [] => _ | _ => _ end = _ -> _ => destruct sel as [|y0 sel']
        end.
        * intros E. inversion E; subst. apply inv_TPath; [|intros y []].
          cbn [node_inv]. rewrite print_spath_head. intros Hh. contradiction.
        * intros E. apply bind_ok in E as (repl & _ & E). inversion E; subst.
          apply inv_TPath; [|intros y []].
          cbn [node_inv]. rewrite print_spath_head, replace_spath_head. intros Hh. contradiction.
    - intros E. apply bind_ok in E as (toks & Ht & E). inversion E; subst.
      apply inv_TPath; [|exact Hps]. cbn [node_inv]. intros Hh.
      unfold from_type_def_path in Ht. destruct (t_path t) as [|a [|b l]] eqn:Ep; [discriminate| |].
      + destruct (assoc_str (prelude_table (alloc_tokens (s_alloc s))) a) as [toks'|] eqn:Ea; [|discriminate].
        inversion Ht; subst. exfalso. exact (prelude_head _ _ _ _ Hcolon Halloc Ea Hh).
      + destruct (forallb path_seg_okb (a :: b :: l)); [|discriminate]. inversion Ht; subst.
        exists (a :: b :: l). split; [reflexivity|]. exists id, t.
        split; [exact Hr|]. split; [exact Ep|]. split; [exact Hcv|]. split; [exact Esub|].
        split; [eauto|exact Hlen].
  Qed.

  Lemma resolve_rec_inv : forall fuel id is_field parents orig t,
    resolve_rec r s fuel id is_field parents orig = Ok t -> inv t.
  Proof.
    induction fuel as [|fuel IH]; intros id is_field parents orig t H; [discriminate|].
    rewrite resolve_rec_S in H.
    destruct (find_parent parents id orig) as [p|].
    { inversion H; subst. intros x [<-|[]]. exact I. }
    apply bind_ok in H as (t0 & Ht0 & H). apply bind_ok in H as (t1 & Hcs & H).
    apply bind_ok in H as (params & Hps & H).
    unfold resolve_type in Ht0. destruct (resolve r id) as [t0'|] eqn:Er; [|discriminate].
    inversion Ht0; subst t0'. destruct (cow_step_entry _ _ _ _ Er Hcs) as (id' & Hr1).
    assert (Hparams : forall y, In y params -> inv y).
    { intros y Hy. destruct (mapM_ok_In _ _ _ _ Hps Hy) as (c & _ & Hc). eapply IH; eauto. }
    pose proof (mapM_ok_length _ _ _ Hps) as Hlen.
    unfold resolve_def in H.
    destruct (t_def t1) as [fs|vs|e|len e|es|p|e|store order] eqn:Ed.
    - eapply maybe_subst_inv; eauto. rewrite Ed. reflexivity.
    - eapply maybe_subst_inv; eauto. rewrite Ed. reflexivity.
    - apply bind_ok in H as (i & Hi & H). inversion H; subst.
      apply (inv_top (TVec i) (subpaths i)); [reflexivity|exact I|]. eapply IH; eauto.
    - apply bind_ok in H as (i & Hi & H). inversion H; subst.
      apply (inv_top (TArray len i) (subpaths i)); [reflexivity|exact I|]. eapply IH; eauto.
    - apply bind_ok in H as (l & Hl & H). inversion H; subst.
      apply (inv_top (TTuple l) (flat_map subpaths l)); [reflexivity|exact I|].
      intros x Hin. apply in_flat_map in Hin as (y & Hy & Hin).
      destruct (mapM_ok_In _ _ _ _ Hl Hy) as (c & _ & Hc). exact (IH _ _ _ _ _ Hc x Hin).
    - inversion H; subst. intros x [<-|[]]. exact I.
    - apply bind_ok in H as (i & Hi & H). destruct (s_compact s) as [c|] eqn:Ec; [|discriminate].
      inversion H; subst.
      apply (inv_top (TCompact i is_field c) (subpaths i)); [reflexivity|exact Ec|]. eapply IH; eauto.
    - destruct (s_bits s) as [b|] eqn:Eb; [|discriminate].
      apply bind_ok in H as (o & Ho & H). apply bind_ok in H as (st & Hst & H). inversion H; subst.
      apply (inv_top (TBitVec o st b) (subpaths o ++ subpaths st)); [reflexivity|exact Eb|].
      intros x Hin. apply in_app_or in Hin as [Hin|Hin].
      + exact (IH _ _ _ _ _ Ho x Hin).
      + exact (IH _ _ _ _ _ Hst x Hin).
  Qed.

  Lemma field_ir_of_inv params f fi : field_ir_of r s params f = Ok fi -> inv (fi_path fi).
  Proof.
    unfold field_ir_of, resolve_field_type_path. intros H. apply bind_ok in H as (p & Hp & H).
    inversion H; subst. cbn [fi_path]. eapply resolve_rec_inv; eauto.
  Qed.

  Lemma cck_inv fs params unused k u :
    create_composite_ir_kind r s fs params unused = Ok (k, u) ->
    forall f, In f (ckind_fields k) -> inv (fi_path f).
  Proof.
    unfold create_composite_ir_kind. intros H f Hf.
    destruct fs as [|f0 fs0]; [inversion H; subst; destruct Hf|].
    destruct (negb (all_named (f0 :: fs0) || all_unnamed (f0 :: fs0))); [discriminate|].
    destruct (all_named (f0 :: fs0)).
    - apply bind_ok in H as (l & Hl & H). inversion H; subst. cbn [ckind_fields] in Hf.
      apply in_map_iff in Hf as (x & <- & Hx). destruct (mapM_ok_In _ _ _ _ Hl Hx) as (f1 & _ & Hf1).
      apply bind_ok in Hf1 as (nm & _ & Hf1). apply bind_ok in Hf1 as (fi & Hfi & Hf1).
      inversion Hf1; subst. cbn [snd]. eapply field_ir_of_inv; eauto.
    - apply bind_ok in H as (l & Hl & H). inversion H; subst. cbn [ckind_fields] in Hf.
      destruct (mapM_ok_In _ _ _ _ Hl Hf) as (f1 & _ & Hf1). eapply field_ir_of_inv; eauto.
  Qed.

  Lemma variants_ir_inv params : forall vs unused l u,
    variants_ir r s params vs unused = Ok (l, u) ->
    forall f, In f (flat_map (fun v => ckind_fields (ci_kind (snd v))) l) -> inv (fi_path f).
  Proof.
    induction vs as [|v vs IH]; intros unused l u H f Hf.
    - cbn in H. inversion H; subst. destruct Hf.
    - rewrite variants_ir_cons in H. apply bind_ok in H as (vn & _ & H).
      apply bind_ok in H as ([k u1] & Hk & H). apply bind_ok in H as ([l' u'] & Hrest & H).
      cbn [fst snd] in *. inversion H; subst. cbn [flat_map snd ci_kind] in Hf.
      apply in_app_or in Hf as [Hf|Hf]; [eapply cck_inv; eauto|eapply IH; eauto].
  Qed.

  Lemma create_type_ir_inv t flat ir :
    create_type_ir r s t flat = Ok (Some ir) ->
    forall f, In f (kind_fields (ti_kind ir)) -> inv (fi_path f).
  Proof.
    intros H. rewrite create_type_ir_eq in H.
    destruct (negb (is_composite_or_variant (t_def t))); [discriminate|]. cbv zeta in H.
    destruct (path_ident (t_path t)) as [nm|]; [|discriminate].
    apply bind_ok in H as (name & _ & H).
    apply bind_ok in H as ([[kind cdac] unused] & Hk & H).
    apply bind_ok in H as (d & _ & H). inversion H; subst; clear H. cbn [ti_kind].
    destruct (t_def t) as [fs|vs| | | | | | ]; try discriminate.
    - apply bind_ok in Hk as ([k u] & Hc & Hk). cbn [fst snd] in Hk. inversion Hk; subst.
      cbn [kind_fields ci_kind]. eapply cck_inv; eauto.
    - apply bind_ok in Hk as ([l u] & Hc & Hk). cbn [fst snd] in Hk. inversion Hk; subst.
      cbn [kind_fields]. eapply variants_ir_inv; eauto.
  Qed.
End Inv.

Lemma abs_path_inj' : forall a b, abs_path a = abs_path b -> a = b.
Proof.
  induction a as [|x a IH]; destruct b as [|y b]; cbn [abs_path flat_map app]; intros H;
    try discriminate; [reflexivity|].
  injection H as Hx H. f_equal; [exact Hx|apply IH; exact H].
Qed.

Lemma rel_path_inj' a b : rel_path a = rel_path b -> a = b.
Proof.
  destruct a as [|x a], b as [|y b]; cbn [rel_path]; intros H; try discriminate; [reflexivity|].
  injection H as Hx H. f_equal; [exact Hx|apply abs_path_inj'; exact H].
Qed.

(** ** C02_arity_consistent *)
Theorem arity_consistent r s teq m :
  skeleton_consistent r s -> Proofs.ClosedProofs.root_fresh s -> generate r s teq = Ok m ->
  forall p0 id ir, items_get m p0 = Some (id, ir) ->
  forall f, In f (kind_fields (ti_kind ir)) ->
  forall ptoks params, In (TPath ptoks params) (subpaths (fi_path f)) ->
  forall q id' ir', ptoks = rel_path (s_root s :: q) -> items_get m q = Some (id', ir') ->
  List.length params = List.length (ti_params ir').
Proof.
  intros Hsk Hfresh Hg p0 id ir Hm f Hf ptoks params Hin q id' ir' Eq Gq.
  destruct (generate_items_come_from_entries _ _ _ _ _ _ _ Hg Hm) as (t & flat & _ & _ & _ & _ & Hc).
  pose proof (create_type_ir_inv r s Hfresh _ _ _ Hc f Hf _ Hin) as Hnode. cbn [node_inv] in Hnode.
  destruct Hnode as (p & Ep & idX & X & HrX & HpX & Hcv & Hsub & (a & b & l & Hshape) & Hlen).
  { rewrite Eq. reflexivity. }
  rewrite Eq in Ep. apply rel_path_inj' in Ep. injection Ep as Ep. subst p.
  destruct (ResolveTotal.resolve_In _ _ _ HrX) as (i & HinX).
  assert (Hel : item_eligible s X = true).
  { unfold item_eligible. rewrite Hcv, HpX. unfold subs_contains. rewrite Hsub, Hshape.
    cbn [negb andb namespace removelast]. destruct l; reflexivity. }
  destruct (generate_lookup _ _ _ _ Hg i X HinX Hel) as (id0 & X0 & ir0 & flat0' & Hfirst & _ & Hc0 & Hget0).
  rewrite HpX, Gq in Hget0. inversion Hget0; subst id0 ir0.
  pose proof (Hsk i X id' X0 HinX Hel Hfirst) as Esk.
  rewrite (skeleton_of _ _ _ _ _ Hc0) in Esk. unfold skeleton in Esk.
  destruct (create_type_ir r s X flat0) as [[irX|]| |] eqn:EcX; try discriminate.
  inversion Esk as [Eer]. apply (f_equal (@List.length tparam_ir)) in Eer. rewrite !map_length in Eer.
  destruct (create_type_ir_unused _ _ _ _ _ EcX) as [EpX _].
  rewrite Hlen, param_ids_params, map_length, <- EpX. exact Eer.
Qed.
