(** The formatter preserves the token structure of a text (C13: the formatted
    description reads in lockstep exactly like the unformatted one): it
    inserts whitespace only directly before / after one of { } ( ) < > , --
    all punctuation tokens -- so no word is split or joined.  For every input
    and every small/big decision oracle. *)
From Coq Require Import List NArith ZArith Bool Lia.
From Coq Require Import String.
From V Require Import Base.Util Base.Result Model.Registry Model.Format Model.Describe
  Model.DescribeSpec Proofs.FormatProofs.
Import ListNotations.
Open Scope N_scope.

Definition cfl (st : cstate) : list ctok := cflush (fst st) (snd st).

Lemma is_ws_cspace c : is_ws c = is_cspace c.
Proof. reflexivity. Qed.

Lemma crun_app a b st : crun (a ++ b) st = crun b (crun a st).
Proof. unfold crun. apply fold_left_app. Qed.

Lemma crun_ws_fl l : forall st, forallb is_ws l = true -> cfl (crun l st) = cfl st.
Proof.
  induction l as [|c l IH]; intros st H; [reflexivity|].
  cbn [forallb] in H. apply andb_prop in H as [Hc H].
  change (crun (c :: l) st) with (crun l (cstep st c)). rewrite IH by exact H.
  unfold cstep. rewrite <- is_ws_cspace, Hc. reflexivity.
Qed.

Lemma crun_ws_closed l : forall acc, forallb is_ws l = true -> crun l ([], acc) = ([], acc).
Proof.
  induction l as [|c l IH]; intros acc H; [reflexivity|].
  cbn [forallb] in H. apply andb_prop in H as [Hc H].
  change (crun (c :: l) ([], acc)) with (crun l (cstep ([], acc) c)).
  unfold cstep. rewrite <- is_ws_cspace, Hc. cbn [fst snd cflush]. apply IH; exact H.
Qed.

Lemma cpunct_not_space ch : is_cpunct ch = true -> is_cspace ch = false.
Proof.
  unfold is_cpunct. cbn [existsb]. intros H.
  repeat (apply orb_prop in H as [H|H]; [apply N.eqb_eq in H; subst ch; reflexivity|]).
  discriminate.
Qed.

Lemma cstep_punct st ch : is_cpunct ch = true -> cstep st ch = ([], CP ch :: cfl st).
Proof.
  intros H. unfold cstep. rewrite (cpunct_not_space ch H), H. reflexivity.
Qed.

Lemma crun_chunk ch chunk st :
  is_cpunct ch = true -> chunk_ok ch chunk -> crun chunk st = cstep st ch.
Proof.
  intros Hp (pre & post & -> & Hpre & Hpost).
  rewrite crun_app. change (crun (ch :: post) ?s) with (crun post (cstep s ch)).
  rewrite !(cstep_punct _ ch Hp), (crun_ws_fl pre st Hpre).
  apply crun_ws_closed; exact Hpost.
Qed.

Section WithOracle.
  Variable O : Type.
  Variable decide : O -> N -> N -> list N -> bool * O.

  Lemma step_chunk_cases st o ch rest :
    fst (fst (step O decide st o ch rest)) = [ch] \/ is_cpunct ch = true.
  Proof.
    destruct (is_cpunct ch) eqn:Hp; [right; reflexivity|left].
    unfold is_cpunct in Hp. cbn [existsb] in Hp.
    repeat (apply orb_false_iff in Hp as [? Hp]).
    unfold step, c_lbrace, c_rbrace, c_comma, c_lparen, c_rparen, c_langle, c_rangle.
    repeat match goal with H : (ch =? _) = false |- _ => rewrite H; clear H end.
    reflexivity.
  Qed.

  Theorem crun_format : forall input st o ts,
    crun (format_from O decide st o input) ts = crun input ts.
  Proof.
    induction input as [|ch rest IH]; intros st o ts; cbn [format_from]; [reflexivity|].
    pose proof (step_chunk O decide st o ch rest) as Hc.
    pose proof (step_chunk_cases st o ch rest) as Hcases.
    destruct (step O decide st o ch rest) as [[chunk st'] o']. cbn [fst] in Hc, Hcases.
    rewrite crun_app. change (crun (ch :: rest) ts) with (crun rest (cstep ts ch)).
    rewrite IH. f_equal.
    destruct Hcases as [->|Hp]; [reflexivity|]. apply crun_chunk; assumption.
  Qed.

  Theorem format_with_ctokens o input :
    ctokens (format_with O decide o input) = ctokens input.
  Proof. unfold ctokens, format_with. rewrite crun_format. reflexivity. Qed.
End WithOracle.

Theorem format_impl_ctokens input : ctokens (format_impl input) = ctokens input.
Proof. apply format_with_ctokens. Qed.

Theorem describe_format_ctokens (r : registry) (id : N) (s : string) (l : list N) :
  describe r id = Ok s -> describe_fmt r id = Ok l -> ctokens l = ctokens (utf8_decode s).
Proof.
  intros E F. unfold describe_fmt in F. rewrite E in F. cbn [bind] in F.
  injection F as <-. exact (format_impl_ctokens (utf8_decode s)).
Qed.
