(** C02 (emit-parses): concrete instances.  The registries of [Model/ExamplesTG.v], and a list of
    hand-built items covering every struct / enum form the printer has. *)
From Coq Require Import List NArith String Bool.
From V Require Import Base.Util Base.Strings Base.Result Model.Registry Model.Settings Model.Subst
  Model.TypePath Model.Derives Model.Generate Model.Emit Model.Equal Model.ExamplesTG
  Checkers.Parse Checkers.Sem Model.Unparse Model.UnparseClosed Model.Shape Proofs.ShapeBool
  Proofs.ParseTy Proofs.ParseItem Proofs.ParseMod Proofs.ParseClosed.
Import ListNotations.
Open Scope string_scope. Open Scope list_scope.

(** the reader on the printed module equals the tree computed from the IR (by evaluation) *)
Definition emit_parses_on (r : registry) (s : settings) (teq : N -> N -> result bool) : bool :=
  match generate r s teq with
  | Ok m =>
      match emit_module s m with
      | Ok toks =>
          items_plain s m &&
          match parse_module toks with
          | Some pm => closedb (s_root s) pm &&
                       match pm, pmod_of_items s m with
                       | PMod n u ms is, PMod n' u' ms' is' =>
                           String.eqb n n' && String.eqb u u' &&
                           Nat.eqb (List.length ms) (List.length ms') &&
                           list_eqb String.eqb (map pi_name is) (map pi_name is')
                       end
          | None => false
          end
      | _ => false
      end
  | _ => false
  end.

Example ex_emit_parses_eval :
  emit_parses_on ex_reg ex_set ex_teq = true /\
  emit_parses_on ex_reg1 ex_set (types_equal ex_reg1) = true.
Proof. split; vm_compute; reflexivity. Qed.

Example ex_emit_parses_tree :
  match generate ex_reg ex_set ex_teq with
  | Ok m =>
      match emit_module ex_set m with
      | Ok toks => parse_module toks = Some (pmod_of_items ex_set m)
      | _ => False
      end
  | _ => False
  end.
Proof. vm_compute. reflexivity. Qed.

(** the same instance through the theorem *)
Example ex_emit_parses_by_theorem :
  forall m toks, generate ex_reg ex_set ex_teq = Ok m -> emit_module ex_set m = Ok toks ->
  parse_module toks = Some (pmod_of_items ex_set m).
Proof.
  intros m toks G E. apply emit_parses; [exact E|].
  assert (Hm : exists m0, generate ex_reg ex_set ex_teq = Ok m0 /\ items_plain ex_set m0 = true)
    by (eexists; split; vm_compute; reflexivity).
  destruct Hm as (m0 & G0 & P). rewrite G0 in G. injection G as <-. exact P.
Qed.

(** nested types *)
Definition ex_alloc : tokens := [":"; ":"; "alloc"].
Definition ex_T0 := mk_tpi 0%N "T" 0%N.
Definition ex_T1 := mk_tpi 1%N "U" 1%N.
Definition ex_T2 := mk_tpi 2%N "V" 2%N.
Definition ex_ty1 := TVec (TTuple [TPrim PU8; TArray 3%N (TParam ex_T0)]).
Definition ex_ty2 :=
  TPath (rel_path ["root"; "a"; "Foo"])
        [ex_ty1; TPrim PStr;
         TCompact (TPrim PU32) false [":"; ":"; "parity"; ":"; ":"; "Compact"];
         TBitVec (TPath ["Lsb0"] []) (TPrim PU8) ["bitvec"; ":"; ":"; "BitVec"]; TTuple []].

Example ex_type_parses :
  tp_plain ex_ty2 = true /\
  exists toks, tp_tokens ex_alloc ex_ty2 = Ok toks /\
    parse_type toks = Some (ir_pty ex_alloc ex_ty2) /\
    parse_ty (S (List.length (toks ++ [">"; "x"]))) (toks ++ [">"; "x"]) =
      Some (ir_pty ex_alloc ex_ty2, [">"; "x"]).
Proof.
  split; [reflexivity|]. eexists. split; [vm_compute; reflexivity|]. split; vm_compute; reflexivity.
Qed.

(** every item form *)
Definition ex_d0 : derives :=
  mk_derives [("Debug", ["Debug"]);
              ("Clone", [":"; ":"; "core"; ":"; ":"; "clone"; ":"; ":"; "Clone"])]
             [("x", ["#"; "["; "serde"; "("; "rename"; "="; """a"""; ")"; "]"])].
Definition ex_fb := mk_fi (TPrim PU8) false true.
Definition ex_fc := mk_fi (TCompact (TPrim PU32) true []) true false.
Definition ex_fp := mk_fi (TParam ex_T0) false false.
Definition ex_irs : list type_ir :=
  [ mk_ti [] [] ex_d0 true (KStruct (mk_ci "U0" CNoFields ["d"]));
    mk_ti [ex_T0] [ex_T0] ex_d0 true (KStruct (mk_ci "U1" CNoFields []));
    mk_ti [ex_T0; ex_T1] [ex_T0; ex_T1] derives_empty true (KStruct (mk_ci "U2" CNoFields []));
    mk_ti [ex_T0; ex_T1; ex_T2] [ex_T1; ex_T2] ex_d0 true
          (KStruct (mk_ci "N" (CNamed [("a", ex_fb); ("b", ex_fc); ("c", ex_fp)]) ["x"; "y"]));
    mk_ti [ex_T0; ex_T1] [ex_T1] ex_d0 false
          (KStruct (mk_ci "N" (CNamed [("a", ex_fb); ("b", ex_fc); ("c", ex_fp)]) ["x"; "y"]));
    mk_ti [ex_T0; ex_T1] [ex_T1] ex_d0 true (KStruct (mk_ci "Tu" (CUnnamed [ex_fb; ex_fc; ex_fp]) []));
    mk_ti [ex_T0] [] ex_d0 true (KStruct (mk_ci "Tu" (CUnnamed [ex_fb; ex_fc; ex_fp]) []));
    mk_ti [] [] ex_d0 true (KStruct (mk_ci "Tu" (CUnnamed []) []));
    mk_ti [] [] ex_d0 true (KStruct (mk_ci "Tu" (CNamed []) []));
    mk_ti [ex_T0; ex_T1; ex_T2] [ex_T1; ex_T2] ex_d0 true
          (KEnum "E" ["doc"] [(0%N, mk_ci "A" CNoFields ["da"]);
                              (5%N, mk_ci "B" (CNamed [("a", ex_fb); ("b", ex_fc)]) []);
                              (7%N, mk_ci "C" (CUnnamed [ex_fp; ex_fc]) [])]);
    mk_ti [ex_T0] [ex_T0] ex_d0 false (KEnum "E" ["doc"] []);
    mk_ti [] [] ex_d0 false (KEnum "E" ["doc"] []) ].

Definition item_roundtrip (rest : tokens) (ir : type_ir) : bool :=
  match type_ir_tokens ex_set ir with
  | Ok toks =>
      ir_plain ex_set ir &&
      match parse_item (S (List.length (toks ++ rest))) (toks ++ rest), parse_one_item toks with
      | Some (it, r), Some it' =>
          list_eqb String.eqb r rest &&
          String.eqb (pi_name it) (pi_name (item_of_ir ex_set ir)) &&
          Bool.eqb (pi_semi it) (pi_semi (item_of_ir ex_set ir)) &&
          Nat.eqb (List.length (pi_attrs it)) (List.length (pi_attrs (item_of_ir ex_set ir))) &&
          Nat.eqb (List.length (body_fields (pi_body it)))
                  (List.length (body_fields (pi_body (item_of_ir ex_set ir)))) &&
          Nat.eqb (List.length (pi_variants it)) (List.length (pi_variants (item_of_ir ex_set ir))) &&
          String.eqb (pi_name it') (pi_name it)
      | _, _ => false
      end
  | _ => false
  end.

Example ex_items_roundtrip :
  forallb (fun rest => forallb (item_roundtrip rest) ex_irs) [[]; ["}"]; ["pub"; "struct"]] = true.
Proof. vm_compute. reflexivity. Qed.

(** the same by the theorem: the full parsed item equals [item_of_ir] *)
Example ex_items_by_theorem :
  forall ir, In ir ex_irs -> forall toks, type_ir_tokens ex_set ir = Ok toks ->
  parse_one_item toks = Some (item_of_ir ex_set ir).
Proof.
  intros ir Hin toks H.
  assert (Hp : ir_plain ex_set ir = true).
  { cbn [In ex_irs] in Hin.
    repeat (destruct Hin as [<-|Hin]; [vm_compute; reflexivity|]). destruct Hin. }
  unfold parse_one_item.
  pose proof (item_parses ex_set ir toks H Hp (S (List.length toks)) [] (le_n _) (fun _ _ => eq_refl)) as HP.
  rewrite app_nil_r in HP. rewrite HP. reflexivity.
Qed.

(** the hypotheses of [C02_closedb_emitted] are satisfiable: the chain on [ex_reg1] *)
Example ex_closedb_emitted :
  exists m toks pm,
    generate ex_reg1 ex_set (types_equal ex_reg1) = Ok m /\ emit_module ex_set m = Ok toks /\
    parse_module toks = Some pm /\ closedb (s_root ex_set) pm = true.
Proof.
  assert (H : exists m toks,
             generate ex_reg1 ex_set (types_equal ex_reg1) = Ok m /\ emit_module ex_set m = Ok toks /\
             items_plain ex_set m = true /\ prefix_freeb (map fst m) = true).
  { eexists. eexists. split; [vm_compute; reflexivity|]. split; [vm_compute; reflexivity|].
    split; vm_compute; reflexivity. }
  destruct H as (m & toks & G & E & P & F). exists m, toks.
  destruct (emitted_closed ex_reg1 ex_set (types_equal ex_reg1) m toks) as (pm & HP & HC);
    try assumption.
  - split; [discriminate|]. split; [discriminate|]. intros k sub [].
  - reflexivity.
  - split; [intros c Hc; inversion Hc; reflexivity|intros b Hb; discriminate Hb].
  - apply skeleton_consistentb_sound. vm_compute. reflexivity.
  - apply prefix_freeb_sound. exact F.
  - exists pm. repeat split; assumption.
Qed.
