(** Renumbering a registry (C17): positions, lookup, permutation of the entries,
    id consistency, uniqueness of item paths; completeness of the generation loop. *)
From Coq Require Import List NArith String Bool Lia Permutation.
From V Require Import Base.Strings Base.Result Model.Registry Model.Settings Model.Subst Model.TypePath Model.Derives Model.Generate Model.Emit Model.Equal Model.Renumber Proofs.GenProofs.
Import ListNotations.

(** ** Part A: positions *)
Lemma seqN_length n : List.length (seqN n) = n.
Proof. unfold seqN. rewrite map_length, seq_length. reflexivity. Qed.

Lemma in_seqN n i : In i (seqN n) <-> (i < N.of_nat n)%N.
Proof.
  unfold seqN. rewrite in_map_iff. split.
  - intros (k & Hk & Hin). apply in_seq in Hin. lia.
  - intros H. exists (N.to_nat i). split; [apply N2Nat.id|]. apply in_seq. lia.
Qed.

Lemma nth_error_seqN n i : (i < n)%nat -> nth_error (seqN n) i = Some (N.of_nat i).
Proof.
  intros H. unfold seqN. apply map_nth_error.
  rewrite (nth_error_nth' (seq 0 n) 0%nat) by (rewrite seq_length; exact H).
  rewrite seq_nth by exact H. reflexivity.
Qed.

Lemma inv_on_pi pi n i :
  renumbering (N.of_nat n) pi -> (i < N.of_nat n)%N -> inv_on pi n (pi i) = i.
Proof.
  intros (Hinj & _ & _) Hi. unfold inv_on.
  destruct (find (fun i0 => N.eqb (pi i0) (pi i)) (seqN n)) as [x|] eqn:F.
  - apply find_some in F as [_ F]. apply N.eqb_eq in F. apply Hinj; exact F.
  - apply in_seqN in Hi. pose proof (find_none _ _ F i Hi) as Hn. cbn beta in Hn.
    rewrite N.eqb_refl in Hn. discriminate.
Qed.

Lemma pi_inv_on pi n j :
  renumbering (N.of_nat n) pi -> (j < N.of_nat n)%N ->
  pi (inv_on pi n j) = j /\ (inv_on pi n j < N.of_nat n)%N.
Proof.
  intros Hpi Hj. pose proof Hpi as (Hinj & Hrng & Hsur).
  destruct (Hsur j Hj) as (i & Hi). subst j.
  apply Hrng in Hj. rewrite inv_on_pi by assumption. split; [reflexivity|exact Hj].
Qed.

Lemma renumber_length pi r : List.length (renumber pi r) = List.length r.
Proof. unfold renumber. rewrite map_length. apply seqN_length. Qed.

(** ** Part B: lookup and order *)
Lemma nth_error_renumber pi r i e :
  renumbering (N.of_nat (List.length r)) pi ->
  nth_error r (N.to_nat i) = Some e ->
  nth_error (renumber pi r) (N.to_nat (pi i)) = Some (rename_entry pi e).
Proof.
  intros Hpi He. pose proof Hpi as (Hinj & Hrng & Hsur).
  assert (Hi : (i < N.of_nat (List.length r))%N).
  { assert (Hlt : (N.to_nat i < List.length r)%nat) by (apply nth_error_Some; congruence). lia. }
  pose proof (proj1 (Hrng i) Hi) as Hpi_i.
  unfold renumber.
  rewrite (map_nth_error _ (N.to_nat (pi i)) (seqN (List.length r)) (d := pi i)).
  - rewrite inv_on_pi by assumption. rewrite (nth_error_nth _ _ dummy_entry He). reflexivity.
  - rewrite nth_error_seqN by lia. rewrite N2Nat.id. reflexivity.
Qed.

Lemma resolve_renumber pi r :
  renumbering (N.of_nat (List.length r)) pi ->
  forall id, resolve (renumber pi r) (pi id) = option_map (rename_ty pi) (resolve r id).
Proof.
  intros Hpi id. pose proof Hpi as (Hinj & Hrng & Hsur). unfold resolve.
  destruct (nth_error r (N.to_nat id)) as [[i0 t]|] eqn:E.
  - rewrite (nth_error_renumber pi r id (i0, t) Hpi E). reflexivity.
  - apply nth_error_None in E.
    assert (Hn : ~ (id < N.of_nat (List.length r))%N) by lia.
    assert (Hn' : ~ (pi id < N.of_nat (List.length r))%N).
    { intros Hc. apply Hn. apply Hrng. exact Hc. }
    assert (E' : nth_error (renumber pi r) (N.to_nat (pi id)) = None).
    { apply nth_error_None. rewrite renumber_length. lia. }
    rewrite E'. reflexivity.
Qed.

Lemma NoDup_map_inj_on {A B} (f : A -> B) (l : list A) :
  (forall x y, In x l -> In y l -> f x = f y -> x = y) -> NoDup l -> NoDup (map f l).
Proof.
  induction l as [|a l IH]; intros Hinj Hnd; cbn [map]; [constructor|].
  inversion Hnd as [|a' l' Hnotin Hnd']; subst. constructor.
  - intros Hin. apply in_map_iff in Hin as (x & Hx & Hin).
    assert (x = a) by (apply Hinj; [right; exact Hin|left; reflexivity|exact Hx]).
    subst x. contradiction.
  - apply IH; [|exact Hnd']. intros x y Hx Hy. apply Hinj; right; assumption.
Qed.

Lemma seqN_NoDup n : NoDup (seqN n).
Proof.
  unfold seqN. apply NoDup_map_inj_on; [|apply seq_NoDup].
  intros x y _ _ H. apply Nat2N.inj; exact H.
Qed.

Lemma inv_on_seqN_perm pi n :
  renumbering (N.of_nat n) pi -> Permutation (map (inv_on pi n) (seqN n)) (seqN n).
Proof.
  intros Hpi. apply NoDup_Permutation_bis.
  - apply NoDup_map_inj_on; [|apply seqN_NoDup].
    intros x y Hx Hy H. apply in_seqN in Hx, Hy.
    destruct (pi_inv_on pi n x Hpi Hx) as [Hx' _].
    destruct (pi_inv_on pi n y Hpi Hy) as [Hy' _]. congruence.
  - rewrite map_length. apply le_n.
  - intros x Hx. apply in_map_iff in Hx as (j & Hj & Hin). subst x.
    apply in_seqN in Hin. apply in_seqN. apply (pi_inv_on pi n j Hpi Hin).
Qed.

Lemma map_nth_seqN {A} (l : list A) (d : A) :
  map (fun i => nth (N.to_nat i) l d) (seqN (List.length l)) = l.
Proof.
  apply (nth_ext _ _ d d).
  - rewrite map_length. apply seqN_length.
  - intros k Hk. rewrite map_length, seqN_length in Hk.
    apply nth_error_nth.
    rewrite (map_nth_error _ k (seqN (List.length l)) (d := N.of_nat k)) by (apply nth_error_seqN; exact Hk).
    rewrite Nat2N.id. reflexivity.
Qed.

Lemma renumber_perm pi r :
  renumbering (N.of_nat (List.length r)) pi ->
  Permutation (renumber pi r) (map (rename_entry pi) r).
Proof.
  intros Hpi.
  assert (E : renumber pi r =
              map (rename_entry pi)
                  (map (fun i => nth (N.to_nat i) r dummy_entry)
                       (map (inv_on pi (List.length r)) (seqN (List.length r))))).
  { unfold renumber. rewrite !map_map. reflexivity. }
  rewrite E. apply Permutation_map.
  eapply Permutation_trans; [apply Permutation_map, inv_on_seqN_perm; exact Hpi|].
  rewrite map_nth_seqN. apply Permutation_refl.
Qed.

Lemma in_renumber pi r e' :
  renumbering (N.of_nat (List.length r)) pi ->
  (In e' (renumber pi r) <-> exists e, In e r /\ e' = rename_entry pi e).
Proof.
  intros Hpi. pose proof (renumber_perm pi r Hpi) as P. split.
  - intros Hin. apply (Permutation_in _ P) in Hin.
    apply in_map_iff in Hin as (e & He & Hin). exists e. split; [exact Hin|symmetry; exact He].
  - intros (e & Hin & He). subst e'. apply (Permutation_in _ (Permutation_sym P)).
    apply in_map. exact Hin.
Qed.

Lemma ids_consistent_from_iff : forall (l : registry) (k : N),
  (fix go (i : N) (l : registry) : bool :=
     match l with [] => true | (id, _) :: l' => N.eqb id i && go (i + 1)%N l' end) k l = true <->
  (forall i e, nth_error l i = Some e -> fst e = (k + N.of_nat i)%N).
Proof.
  induction l as [|[id t] l IH]; intros k.
  - split; [|reflexivity]. intros _ i e H. destruct i; discriminate.
  - rewrite andb_true_iff, N.eqb_eq, IH. split.
    + intros [Hid Hrest] i e H. destruct i as [|i].
      * cbn [nth_error] in H. inversion H; subst. cbn [fst]. lia.
      * cbn [nth_error] in H. rewrite (Hrest i e H). lia.
    + intros H. split.
      * specialize (H 0%nat (id, t) eq_refl). cbn [fst] in H. lia.
      * intros i e Hi. rewrite (H (S i) e Hi). lia.
Qed.

Lemma ids_consistent_iff (r : registry) :
  ids_consistent r = true <-> (forall i e, nth_error r i = Some e -> fst e = N.of_nat i).
Proof. unfold ids_consistent. rewrite ids_consistent_from_iff. reflexivity. Qed.

Lemma renumber_ids_consistent pi r :
  renumbering (N.of_nat (List.length r)) pi ->
  ids_consistent r = true -> ids_consistent (renumber pi r) = true.
Proof.
  intros Hpi Hc. rewrite ids_consistent_iff in Hc. apply ids_consistent_iff.
  intros j e' Hj.
  assert (Hlt : (j < List.length r)%nat).
  { rewrite <- (renumber_length pi r). apply nth_error_Some. congruence. }
  assert (HjN : (N.of_nat j < N.of_nat (List.length r))%N) by lia.
  destruct (pi_inv_on pi (List.length r) (N.of_nat j) Hpi HjN) as [Hp Hr].
  unfold renumber in Hj.
  rewrite (map_nth_error _ j (seqN (List.length r)) (d := N.of_nat j)) in Hj
    by (apply nth_error_seqN; exact Hlt).
  inversion Hj; subst e'; clear Hj. unfold rename_entry. cbn [fst].
  set (i0 := inv_on pi (List.length r) (N.of_nat j)) in *.
  assert (Hnth : nth_error r (N.to_nat i0) = Some (nth (N.to_nat i0) r dummy_entry)).
  { apply nth_error_nth'. lia. }
  rewrite (Hc _ _ Hnth). rewrite N2Nat.id. exact Hp.
Qed.

(** injectivity of the renaming *)
Lemma map_inj {A B} (f : A -> B) :
  (forall x y, f x = f y -> x = y) -> forall l1 l2, map f l1 = map f l2 -> l1 = l2.
Proof.
  intros Hinj. induction l1 as [|a l1 IH]; intros [|b l2] H; cbn [map] in H; try discriminate.
  - reflexivity.
  - inversion H as [[Hab Hl]]. f_equal; [apply Hinj; exact Hab|apply IH; exact Hl].
Qed.

Section RenameInj.
  Variable pi : N -> N.
  Hypothesis Hinj : forall i j, pi i = pi j -> i = j.

  Lemma rename_field_inj f1 f2 : rename_field pi f1 = rename_field pi f2 -> f1 = f2.
  Proof.
    destruct f1 as [n1 t1 tn1 d1], f2 as [n2 t2 tn2 d2]. unfold rename_field.
    cbn [f_name f_ty f_type_name f_docs]. intros H. inversion H as [[Hn Ht Htn Hd]].
    apply Hinj in Ht. subst. reflexivity.
  Qed.

  Lemma rename_variant_inj v1 v2 : rename_variant pi v1 = rename_variant pi v2 -> v1 = v2.
  Proof.
    destruct v1 as [n1 fs1 i1 d1], v2 as [n2 fs2 i2 d2]. unfold rename_variant.
    cbn [v_name v_fields v_index v_docs]. intros H. inversion H as [[Hn Hf Hi Hd]].
    apply (map_inj _ rename_field_inj) in Hf. subst. reflexivity.
  Qed.

  Lemma rename_def_inj d1 d2 : rename_def pi d1 = rename_def pi d2 -> d1 = d2.
  Proof.
    destruct d1, d2; cbn [rename_def]; intros H; try discriminate; inversion H; subst.
    - f_equal. eapply map_inj; [exact rename_field_inj|assumption].
    - f_equal. eapply map_inj; [exact rename_variant_inj|assumption].
    - f_equal. apply Hinj; assumption.
    - f_equal. apply Hinj; assumption.
    - f_equal. eapply map_inj; [exact Hinj|assumption].
    - reflexivity.
    - f_equal. apply Hinj; assumption.
    - f_equal; apply Hinj; assumption.
  Qed.

  Lemma rename_tparam_inj p1 p2 : rename_tparam pi p1 = rename_tparam pi p2 -> p1 = p2.
  Proof.
    destruct p1 as [n1 [t1|]], p2 as [n2 [t2|]]; unfold rename_tparam;
      cbn [tp_name tp_ty option_map]; intros H; inversion H; subst; try reflexivity.
    f_equal. f_equal. apply Hinj; assumption.
  Qed.

  Lemma rename_ty_inj t1 t2 : rename_ty pi t1 = rename_ty pi t2 -> t1 = t2.
  Proof.
    destruct t1 as [p1 ps1 d1 dc1], t2 as [p2 ps2 d2 dc2]. unfold rename_ty.
    cbn [t_path t_params t_def t_docs]. intros H. inversion H as [[Hp Hps Hd Hdc]].
    apply (map_inj _ rename_tparam_inj) in Hps. apply rename_def_inj in Hd. subst. reflexivity.
  Qed.

  Lemma rename_entry_inj e1 e2 : rename_entry pi e1 = rename_entry pi e2 -> e1 = e2.
  Proof.
    destruct e1 as [i1 t1], e2 as [i2 t2]. unfold rename_entry. cbn [fst snd].
    intros H. apply pair_equal_spec in H as [Hi Ht]. apply Hinj in Hi. apply rename_ty_inj in Ht.
    subst. reflexivity.
  Qed.
End RenameInj.

Lemma is_composite_or_variant_rename pi d :
  is_composite_or_variant (rename_def pi d) = is_composite_or_variant d.
Proof. destruct d; reflexivity. Qed.

Lemma item_entry_rename pi s t : item_entry s (rename_ty pi t) = item_entry s t.
Proof.
  unfold item_entry, rename_ty. cbn [t_path t_def].
  rewrite is_composite_or_variant_rename. reflexivity.
Qed.

Lemma unique_item_paths_renumber pi r s :
  renumbering (N.of_nat (List.length r)) pi ->
  unique_item_paths r s -> unique_item_paths (renumber pi r) s.
Proof.
  intros Hpi Hu e1' e2' H1 H2 Hi1 Hi2 Hp.
  apply (in_renumber pi r e1' Hpi) in H1 as (e1 & Hin1 & He1).
  apply (in_renumber pi r e2' Hpi) in H2 as (e2 & Hin2 & He2).
  subst e1' e2'. unfold rename_entry in Hi1, Hi2, Hp. cbn [snd] in Hi1, Hi2, Hp.
  rewrite item_entry_rename in Hi1, Hi2.
  unfold rename_ty in Hp. cbn [t_path] in Hp.
  rewrite (Hu e1 e2 Hin1 Hin2 Hi1 Hi2 Hp). reflexivity.
Qed.

(** ** Part C: completeness of the generation loop *)
Lemma gen_loop_complete r s teq flat : forall l acc m,
  gen_loop r s teq flat l acc = Ok m ->
  forall id t ir, In (id, t) l -> eligible s t = true ->
    create_type_ir r s t flat = Ok (Some ir) ->
    exists v, items_get m (t_path t) = Some v.
Proof.
  induction l as [|[id0 t0] l IH]; intros acc m H id t ir Hin He Hc.
  - destruct Hin.
  - rewrite gen_loop_cons in H. destruct Hin as [Heq|Hin].
    + inversion Heq; subst id0 t0. unfold eligible in He.
      apply andb_true_iff in He as [He1 He2]. apply negb_true_iff in He1. rewrite He1 in H.
      destruct (namespace (t_path t)) as [|n0 ns]; [discriminate|].
      rewrite Hc in H. cbn [bind] in H.
      destruct (forallb ident_lexb (n0 :: ns)); [|discriminate].
      destruct (items_get acc (t_path t)) as [[other ir']|] eqn:G.
      * destruct (teq id other) as [[|]|e|msg]; cbn [bind] in H; try discriminate.
        exists (other, ir'). eapply gen_loop_keeps; eauto.
      * exists (id, ir). eapply gen_loop_keeps; [exact H|].
        rewrite items_get_insert_absent by assumption. rewrite path_eqb_refl. reflexivity.
    + destruct (subs_contains (s_subs s) (t_path t0)); [eapply IH; eauto|].
      destruct (namespace (t_path t0)) as [|n0 ns]; [eapply IH; eauto|].
      destruct (create_type_ir r s t0 flat) as [[ir0|]|e|msg]; cbn [bind] in H; try discriminate;
        [|eapply IH; eauto].
      destruct (forallb ident_lexb (n0 :: ns)); [|discriminate].
      destruct (items_get acc (t_path t0)) as [[other ir']|] eqn:G.
      * destruct (teq id0 other) as [[|]|e|msg]; cbn [bind] in H; try discriminate.
        eapply IH; eauto.
      * eapply IH; eauto.
Qed.

Lemma generate_complete r s teq m flat id t ir :
  generate r s teq = Ok m -> flatten (s_dreg s) r = Ok flat ->
  In (id, t) r -> eligible s t = true ->
  create_type_ir r s t flat = Ok (Some ir) ->
  exists v, items_get m (t_path t) = Some v.
Proof.
  unfold generate. intros H Hf Hin He Hc.
  apply bind_ok in H as (u & _ & H). apply bind_ok in H as (flat' & Hf' & H).
  assert (flat' = flat) by congruence. subst flat'.
  eapply gen_loop_complete; eauto.
Qed.

Lemma item_entry_eligible s t :
  item_entry s t = true <-> eligible s t = true /\ is_composite_or_variant (t_def t) = true.
Proof. unfold item_entry, eligible. apply andb_true_iff. Qed.

Lemma create_type_ir_some_composite r s t flat ir :
  create_type_ir r s t flat = Ok (Some ir) -> is_composite_or_variant (t_def t) = true.
Proof.
  unfold create_type_ir. destruct (is_composite_or_variant (t_def t)); cbn [negb]; intros H.
  - reflexivity.
  - discriminate.
Qed.
