(** Proofs about the shape-directed codec of Model/Codec.v:
    - [decode_encode]: whatever [decode sh] accepts re-encodes with [encode sh] to exactly
      the bytes consumed (induction over the shape);
    - [codec_depends_on_shape] and the depth monotonicity [decode_refines] /
      [shape_reg_refines]: a result obtained at depth n (no [SCut] was hit) is the result
      at every greater depth;
    - [C01_decode*]: the byte-level sentence of C01 from [Faithful];
    - [C18_payload*]: the byte-level sentence of C18 from [C18_faithful] / [C18_item_body]. *)
From Coq Require Import List NArith String Bool Lia.
From V Require Import Base.Util Base.Strings Base.Result Model.Registry Model.Settings Model.Subst
  Model.TypePath Model.Derives Model.Generate Model.Shape Model.Codec
  Proofs.FidelityBase Proofs.Fidelity Proofs.FidelityGen.
Import ListNotations.
Open Scope list_scope.

(** ** structural induction on the nested inductive [shape] *)
Section ShapeInd.
  Variable Q : shape -> Prop.
  Hypothesis H_prim : forall p, Q (SPrim p).
  Hypothesis H_compact : forall a, Q a -> Q (SCompact a).
  Hypothesis H_seq : forall a, Q a -> Q (SSeq a).
  Hypothesis H_arr : forall n a, Q a -> Q (SArr n a).
  Hypothesis H_tuple : forall l, Forall Q l -> Q (STuple l).
  Hypothesis H_bits : forall a b, Q a -> Q b -> Q (SBits a b).
  Hypothesis H_struct : forall fs, Forall (fun f : fshape => Q (snd f)) fs -> Q (SStruct fs).
  Hypothesis H_enum :
    forall vs, Forall (fun v : string * N * list fshape =>
                         Forall (fun f : fshape => Q (snd f)) (snd v)) vs -> Q (SEnum vs).
  Hypothesis H_opaque : forall h l, Forall Q l -> Q (SOpaque h l).
  Hypothesis H_cut : Q SCut.

  Fixpoint shape_ind' (sh : shape) : Q sh :=
    let go_l :=
      fix go (l : list shape) : Forall Q l :=
        match l with
        | [] => Forall_nil _
        | x :: l' => Forall_cons x (shape_ind' x) (go l')
        end in
    let go_f :=
      fix go (l : list fshape) : Forall (fun f : fshape => Q (snd f)) l :=
        match l with
        | [] => Forall_nil _
        | f :: l' =>
            Forall_cons f
              (match f as f0 return Q (snd f0) with (_, a) => shape_ind' a end) (go l')
        end in
    match sh with
    | SPrim p => H_prim p
    | SCompact a => H_compact a (shape_ind' a)
    | SSeq a => H_seq a (shape_ind' a)
    | SArr n a => H_arr n a (shape_ind' a)
    | STuple l => H_tuple l (go_l l)
    | SBits a b => H_bits a b (shape_ind' a) (shape_ind' b)
    | SStruct fs => H_struct fs (go_f fs)
    | SEnum vs =>
        H_enum vs
          ((fix go (l : list (string * N * list fshape)) :
              Forall (fun v : string * N * list fshape =>
                        Forall (fun f : fshape => Q (snd f)) (snd v)) l :=
              match l with
              | [] => Forall_nil _
              | v :: l' =>
                  Forall_cons v
                    (match v as v0
                           return Forall (fun f : fshape => Q (snd f)) (snd v0)
                     with (_, fs) => go_f fs end) (go l')
              end) vs)
    | SOpaque h l => H_opaque h l (go_l l)
    | SCut => H_cut
    end.
End ShapeInd.

(** ** list helpers *)
Lemma Forall2_map_same {A B C} (R : B -> C -> Prop) (f : A -> B) (g : A -> C) l :
  Forall (fun x => R (f x) (g x)) l -> Forall2 R (map f l) (map g l).
Proof. induction 1; cbn [map]; constructor; auto. Qed.

Lemma Forall2_map_rel {A B} (R : A -> A -> Prop) (S : B -> B -> Prop) (f : A -> B) l :
  Forall (fun x => forall y, R x y -> S (f x) (f y)) l ->
  forall l', Forall2 R l l' -> Forall2 S (map f l) (map f l').
Proof.
  induction 1 as [|x l Hx _ IH]; intros l' H2; inversion H2; subst; cbn [map]; constructor; auto.
Qed.

Lemma Forall2_eq_from {A} (C : A -> bool) (R : A -> A -> Prop) l :
  Forall (fun x => forall y, C x = true -> R x y -> x = y) l ->
  forall l', forallb C l = true -> Forall2 R l l' -> l = l'.
Proof.
  induction 1 as [|x l Hx _ IH]; intros l' Hc H2; inversion H2; subst; [reflexivity|].
  cbn [forallb] in Hc. apply andb_prop in Hc as [Hc1 Hc2]. f_equal; auto.
Qed.

Lemma assoc_idx_map_some {A B C} (k : A -> N) (F : A -> B) (G : A -> C) i : forall l d,
  assoc_idx i (map (fun v => (k v, F v)) l) = Some d ->
  exists v, In v l /\ d = F v /\ assoc_idx i (map (fun v => (k v, G v)) l) = Some (G v).
Proof.
  induction l as [|x l IH]; cbn [map assoc_idx]; intros d H; [discriminate|].
  destruct (N.eqb (k x) i).
  - inversion H; subst. exists x. split; [left; reflexivity|]. split; reflexivity.
  - destruct (IH d H) as (v & Hin & Hd & Hg). exists v. split; [right; exact Hin|]. split; assumption.
Qed.

Lemma assoc_idx_rel {A} (R : A -> A -> Prop) i : forall l l',
  Forall2 (fun x y : N * A => fst x = fst y /\ R (snd x) (snd y)) l l' ->
  forall d, assoc_idx i l = Some d -> exists d', assoc_idx i l' = Some d' /\ R d d'.
Proof.
  induction 1 as [|[j a] [j' a'] l l' [Hj Ha] _ IH]; cbn [assoc_idx]; intros d H; [discriminate|].
  cbn [fst snd] in Hj, Ha. subst j'. destruct (N.eqb j i).
  - inversion H; subst. exists a'. split; [reflexivity|exact Ha].
  - exact (IH d H).
Qed.

Lemma assoc_idx_nodup {A B} (k : A -> N) (F : A -> B) : forall l v,
  In v l -> NoDup (map k l) -> assoc_idx (k v) (map (fun w => (k w, F w)) l) = Some (F v).
Proof.
  induction l as [|x l IH]; intros v Hin Hnd; [contradiction|].
  cbn [map assoc_idx]. cbn [map] in Hnd. inversion Hnd as [|? ? Hnot Hnd']; subst.
  destruct Hin as [->|Hin]; [rewrite N.eqb_refl; reflexivity|].
  destruct (N.eqb (k x) (k v)) eqn:E; [|exact (IH v Hin Hnd')].
  apply N.eqb_eq in E. exfalso. apply Hnot. rewrite E. apply in_map. exact Hin.
Qed.

Section CodecProofs.
  Context {pv bv ov : Type}.
  Notation val := (val pv bv ov).
  Notation prims := (prims pv bv ov).

  (** ** generic combinators: round trip *)
  Lemma rt_none {A} (e : enc A) : rt (fun _ => None) e.
  Proof. intros b v rest H. discriminate. Qed.

  Lemma rt_dmap {A B} (f : A -> B) (d : dec A) (e : enc A) (e' : enc B) :
    rt d e -> (forall x, e' (f x) = e x) -> rt (dmap f d) e'.
  Proof.
    intros Hrt He b v rest H. unfold dmap in H.
    destruct (d b) as [[x r]|] eqn:Ed; [|discriminate]. inversion H; subst.
    rewrite He. exact (Hrt _ _ _ Ed).
  Qed.

  Lemma rt_dec_all : forall (ds : list (dec val)) (es : list (enc val)),
    Forall2 rt ds es -> rt (dec_all ds) (enc_all es).
  Proof.
    induction 1 as [|d e ds es Hde _ IH]; intros b v rest H; cbn [dec_all] in H.
    - inversion H; subst. exists []. split; reflexivity.
    - destruct (d b) as [[x r]|] eqn:Ed; [|discriminate].
      destruct (dec_all ds r) as [[xs r']|] eqn:Eds; [|discriminate]. inversion H; subst.
      destruct (Hde _ _ _ Ed) as (bx & Hx & Hbx). destruct (IH _ _ _ Eds) as (bs & Hs & Hbs).
      exists (bx ++ bs). cbn [enc_all]. rewrite Hx, Hs. split; [reflexivity|].
      rewrite <- app_assoc, Hbs. exact Hbx.
  Qed.

  Lemma rt_dec_rep (d : dec val) (e : enc val) : rt d e ->
    forall n b vs rest, dec_rep d n b = Some (vs, rest) ->
      exists bs, enc_rep e vs = Some bs /\ bs ++ rest = b /\ List.length vs = n.
  Proof.
    intros Hde. induction n as [|n IH]; intros b vs rest H; cbn [dec_rep] in H.
    - inversion H; subst. exists []. repeat split; reflexivity.
    - destruct (d b) as [[x r]|] eqn:Ed; [|discriminate].
      destruct (dec_rep d n r) as [[xs r']|] eqn:Eds; [|discriminate]. inversion H; subst.
      destruct (Hde _ _ _ Ed) as (bx & Hx & Hbx). destruct (IH _ _ _ Eds) as (bs & Hs & Hbs & Hl).
      exists (bx ++ bs). cbn [enc_rep List.length]. rewrite Hx, Hs. split; [reflexivity|].
      split; [|rewrite Hl; reflexivity]. rewrite <- app_assoc, Hbs. exact Hbx.
  Qed.

  (** ** generic combinators: the converse direction *)
  Lemma tr_none {A} (d : dec A) : tr (fun _ => None) d.
  Proof. intros v bs rest H. discriminate. Qed.

  Lemma tr_enc_all : forall (es : list (enc val)) (ds : list (dec val)),
    Forall2 tr es ds -> tr (enc_all es) (dec_all ds).
  Proof.
    induction 1 as [|e d es ds Hed _ IH]; intros vs bs rest H.
    - destruct vs as [|v vs]; [|discriminate]. cbn [enc_all] in H. inversion H; subst. reflexivity.
    - destruct vs as [|v vs]; [discriminate|]. cbn [enc_all] in H.
      destruct (e v) as [x|] eqn:Ex; [|discriminate].
      destruct (enc_all es vs) as [y|] eqn:Ey; [|discriminate]. inversion H; subst.
      cbn [dec_all]. rewrite <- app_assoc, (Hed _ _ _ Ex), (IH _ _ _ Ey). reflexivity.
  Qed.

  Lemma tr_enc_rep (e : enc val) (d : dec val) : tr e d ->
    forall vs bs rest, enc_rep e vs = Some bs ->
      dec_rep d (List.length vs) (bs ++ rest) = Some (vs, rest).
  Proof.
    intros Hed. induction vs as [|v vs IH]; intros bs rest H; cbn [enc_rep] in H.
    - inversion H; subst. reflexivity.
    - destruct (e v) as [x|] eqn:Ex; [|discriminate].
      destruct (enc_rep e vs) as [y|] eqn:Ey; [|discriminate]. inversion H; subst.
      cbn [List.length dec_rep]. rewrite <- app_assoc, (Hed _ _ _ Ex), (IH _ _ eq_refl). reflexivity.
  Qed.

  (** ** generic combinators: monotonicity *)
  Lemma dec_le_refl {A} (d : dec A) : dec_le d d.
  Proof. intros b x H. exact H. Qed.

  Lemma dec_le_none {A} (d : dec A) : dec_le (fun _ => None) d.
  Proof. intros b x H. discriminate. Qed.

  Lemma dec_le_dmap {A B} (f : A -> B) (d d' : dec A) : dec_le d d' -> dec_le (dmap f d) (dmap f d').
  Proof.
    intros Hle b x H. unfold dmap in *. destruct (d b) as [[y r]|] eqn:Ed; [|discriminate].
    rewrite (Hle _ _ Ed). exact H.
  Qed.

  Lemma dec_le_dec_all : forall (ds ds' : list (dec val)),
    Forall2 dec_le ds ds' -> dec_le (dec_all ds) (dec_all ds').
  Proof.
    induction 1 as [|d d' ds ds' Hd _ IH]; intros b x H; cbn [dec_all] in *; [exact H|].
    destruct (d b) as [[y r]|] eqn:Ed; [|discriminate]. rewrite (Hd _ _ Ed).
    destruct (dec_all ds r) as [[ys r']|] eqn:Eds; [|discriminate]. rewrite (IH _ _ Eds). exact H.
  Qed.

  Lemma dec_le_dec_rep (d d' : dec val) : dec_le d d' -> forall n, dec_le (dec_rep d n) (dec_rep d' n).
  Proof.
    intros Hd. induction n as [|n IH]; intros b x H; cbn [dec_rep] in *; [exact H|].
    destruct (d b) as [[y r]|] eqn:Ed; [|discriminate]. rewrite (Hd _ _ Ed).
    destruct (dec_rep d n r) as [[ys r']|] eqn:Eds; [|discriminate]. rewrite (IH _ _ Eds). exact H.
  Qed.

  Section WithPrims.
    Variable P : prims.

    (** unfolding equations (all by computation) *)
    Lemma decode_c_struct fs :
      decode_c P false (SStruct fs) =
      dmap VStruct (dec_all (map (fun f => decode_c P false (snd f)) fs)).
    Proof. reflexivity. Qed.

    Lemma decode_struct_fields fs : decode P (SStruct fs) = dmap VStruct (decode_fields P fs).
    Proof. reflexivity. Qed.

    Lemma encode_struct_fields fs vals :
      encode P (SStruct fs) (VStruct vals) = encode_fields P fs vals.
    Proof. reflexivity. Qed.

    Lemma decode_enum vs i r :
      decode P (SEnum vs) (i :: r) =
      match assoc_idx i (map (fun v => (snd (fst v), decode_fields P (snd v))) vs) with
      | Some d => dmap (VEnum i) d r
      | None => None
      end.
    Proof. reflexivity. Qed.

    Lemma encode_enum vs i xs :
      encode P (SEnum vs) (VEnum i xs) =
      match assoc_idx i (map (fun v => (snd (fst v), encode_fields P (snd v))) vs) with
      | Some e => match e xs with Some y => Some (i :: y) | None => None end
      | None => None
      end.
    Proof. reflexivity. Qed.

    (** ** re-encoding gives back the bytes consumed *)
    Theorem decode_encode_c :
      prims_ok P -> forall sh c, rt (decode_c P c sh) (encode_c P c sh).
    Proof.
      intros OK. induction sh as [p|a IH|a IH|n a IH|l IH|st or _ _|fs IH|vs IH|h l IH|]
                                   using shape_ind'; intros c.
      - (* SPrim *)
        destruct c; cbn [decode_c encode_c].
        + eapply rt_dmap; [exact (ok_compact _ _ _ P OK p)|reflexivity].
        + eapply rt_dmap; [exact (ok_prim _ _ _ P OK p)|reflexivity].
      - (* SCompact *)
        destruct c; cbn [decode_c encode_c]; [apply rt_none|exact (IH true)].
      - (* SSeq *)
        destruct c; cbn [decode_c encode_c]; [apply rt_none|].
        intros b v rest H. destruct (ldec P b) as [[n r]|] eqn:El; [|discriminate].
        unfold dmap in H.
        destruct (dec_rep (decode_c P false a) (N.to_nat n) r) as [[vs r']|] eqn:Er; [|discriminate].
        inversion H; subst.
        destruct (ok_len _ _ _ P OK _ _ _ El) as (bl & Hl & Hbl).
        destruct (rt_dec_rep _ _ (IH false) _ _ _ _ Er) as (bs & Hs & Hbs & Hlen).
        rewrite Hlen, N2Nat.id, Hl, Hs. exists (bl ++ bs). split; [reflexivity|].
        rewrite <- app_assoc, Hbs. exact Hbl.
      - (* SArr *)
        destruct c; cbn [decode_c encode_c]; [apply rt_none|].
        intros b v rest H. unfold dmap in H.
        destruct (dec_rep (decode_c P false a) (N.to_nat n) b) as [[vs r']|] eqn:Er; [|discriminate].
        inversion H; subst.
        destruct (rt_dec_rep _ _ (IH false) _ _ _ _ Er) as (bs & Hs & Hbs & Hlen).
        rewrite Hlen, N2Nat.id, N.eqb_refl, Hs. exists bs. split; [reflexivity|exact Hbs].
      - (* STuple *)
        destruct c; cbn [decode_c encode_c].
        { destruct l as [|a l]; [|apply rt_none]. intros b v rest H. inversion H; subst.
          exists []. split; reflexivity. }
        eapply rt_dmap; [|reflexivity]. apply rt_dec_all. apply Forall2_map_same.
        eapply Forall_impl; [|exact IH]. intros a Ha. exact (Ha false).
      - (* SBits *)
        destruct c; cbn [decode_c encode_c]; [apply rt_none|].
        destruct (cutfree st && cutfree or); [|apply rt_none].
        eapply rt_dmap; [exact (ok_bits _ _ _ P OK st or)|reflexivity].
      - (* SStruct *)
        destruct c; cbn [decode_c encode_c].
        + destruct fs as [|[[nm bx] a] [|f2 fs]]; try apply rt_none.
          inversion IH as [|? ? Ha _]; subst. cbn [snd] in Ha.
          intros b v rest H. unfold dmap in H.
          destruct (decode_c P true a b) as [[x r]|] eqn:Ed; [|discriminate]. inversion H; subst.
          exact (Ha true _ _ _ Ed).
        + eapply rt_dmap; [|reflexivity]. apply rt_dec_all. apply Forall2_map_same.
          eapply Forall_impl; [|exact IH]. intros f Hf. exact (Hf false).
      - (* SEnum *)
        destruct c; cbn [decode_c encode_c]; [apply rt_none|].
        intros b v rest H. destruct b as [|i r]; [discriminate|].
        match type of H with
        | match assoc_idx i ?L with _ => _ end = _ => destruct (assoc_idx i L) as [d|] eqn:Ea
        end; [|discriminate].
        apply (assoc_idx_map_some (fun v : string * N * list fshape => snd (fst v)) _
                 (fun v : string * N * list fshape =>
                    enc_all (map (fun f : fshape => encode_c P false (snd f)) (snd v)))) in Ea.
        destruct Ea as (w & Hin & Hd & He). subst d. unfold dmap in H.
        match type of H with
        | match ?D r with _ => _ end = _ => destruct (D r) as [[xs r']|] eqn:Ed
        end; [|discriminate].
        inversion H; subst. cbn beta iota.
        match goal with
        | |- context [assoc_idx i ?L] =>
            replace (assoc_idx i L)
              with (Some (enc_all (map (fun f : fshape => encode_c P false (snd f)) (snd w))))
              by (symmetry; exact He)
        end.
        rewrite Forall_forall in IH. specialize (IH w Hin).
        assert (Hrt : rt (dec_all (map (fun f : fshape => decode_c P false (snd f)) (snd w)))
                         (enc_all (map (fun f : fshape => encode_c P false (snd f)) (snd w)))).
        { apply rt_dec_all. apply Forall2_map_same. eapply Forall_impl; [|exact IH].
          intros f Hf. exact (Hf false). }
        destruct (Hrt _ _ _ Ed) as (bs & Hs & Hbs). rewrite Hs.
        exists (i :: bs). split; [reflexivity|]. cbn [app]. rewrite Hbs. reflexivity.
      - (* SOpaque *)
        cbn [decode_c encode_c].
        apply (ok_opaque _ _ _ P OK). apply Forall2_map_same.
        eapply Forall_impl; [|exact IH]. intros a Ha. exact (Ha false).
      - (* SCut *)
        cbn [decode_c encode_c]. apply rt_none.
    Qed.

    Theorem decode_encode :
      prims_ok P -> forall sh b v rest,
        decode P sh b = Some (v, rest) -> exists e, encode P sh v = Some e /\ e ++ rest = b.
    Proof. intros OK sh. exact (decode_encode_c OK sh false). Qed.

    Corollary decode_encode_all :
      prims_ok P -> forall sh b v, decode P sh b = Some (v, []) -> encode P sh v = Some b.
    Proof.
      intros OK sh b v H. destruct (decode_encode OK _ _ _ _ H) as (e & He & Hb).
      rewrite app_nil_r in Hb. subst e. exact He.
    Qed.

    (** ** the converse: what the encoder of a shape produces, followed by anything, decodes
        with the decoder of the same shape to the value encoded and hands the rest back *)
    Theorem encode_decode_c :
      prims_rev P -> forall sh c, tr (encode_c P c sh) (decode_c P c sh).
    Proof.
      intros REV. induction sh as [p|a IH|a IH|n a IH|l IH|st or _ _|fs IH|vs IH|h l IH|]
                                    using shape_ind'; intros c.
      - (* SPrim *)
        destruct c; cbn [decode_c encode_c]; intros v bs rest H; destruct v; try discriminate;
          unfold dmap.
        + rewrite (rev_compact _ _ _ P REV p _ _ rest H). reflexivity.
        + rewrite (rev_prim _ _ _ P REV p _ _ rest H). reflexivity.
      - (* SCompact *)
        destruct c; cbn [decode_c encode_c]; [apply tr_none|exact (IH true)].
      - (* SSeq *)
        destruct c; cbn [decode_c encode_c]; [apply tr_none|].
        intros v bs rest H. destruct v as [x|l0|l0|l0|i l0|x|x]; try discriminate.
        destruct (lenc P (N.of_nat (List.length l0))) as [x|] eqn:Ex; [|discriminate].
        destruct (enc_rep (encode_c P false a) l0) as [y|] eqn:Ey; [|discriminate].
        inversion H; subst. rewrite <- app_assoc.
        rewrite (rev_len _ _ _ P REV _ _ (y ++ rest) Ex). unfold dmap. rewrite Nat2N.id.
        rewrite (tr_enc_rep _ _ (IH false) _ _ rest Ey). reflexivity.
      - (* SArr *)
        destruct c; cbn [decode_c encode_c]; [apply tr_none|].
        intros v bs rest H. destruct v as [x|l0|l0|l0|i l0|x|x]; try discriminate.
        destruct (N.eqb_spec (N.of_nat (List.length l0)) n) as [En|En]; [|discriminate].
        subst n. unfold dmap. rewrite Nat2N.id.
        rewrite (tr_enc_rep _ _ (IH false) _ _ rest H). reflexivity.
      - (* STuple *)
        destruct c; cbn [decode_c encode_c].
        { destruct l as [|a l]; [|apply tr_none]. intros v bs rest H.
          destruct v as [x|l0|l0|l0|i l0|x|x]; try discriminate.
          destruct l0; [|discriminate]. inversion H; subst. reflexivity. }
        intros v bs rest H. destruct v as [x|l0|l0|l0|i l0|x|x]; try discriminate.
        unfold dmap.
        assert (T : tr (enc_all (map (encode_c P false) l)) (dec_all (map (decode_c P false) l))).
        { apply tr_enc_all. apply Forall2_map_same. eapply Forall_impl; [|exact IH].
          intros a Ha. exact (Ha false). }
        rewrite (T _ _ rest H). reflexivity.
      - (* SBits *)
        destruct c; cbn [decode_c encode_c]; [apply tr_none|].
        destruct (cutfree st && cutfree or); [|apply tr_none].
        intros v bs rest H. destruct v as [x|l0|l0|l0|i l0|x|x]; try discriminate.
        unfold dmap. rewrite (rev_bits _ _ _ P REV st or _ _ rest H). reflexivity.
      - (* SStruct *)
        destruct c; cbn [decode_c encode_c].
        + destruct fs as [|[[nm bx] a] [|f2 fs]]; try apply tr_none.
          inversion IH as [|? ? Ha _]; subst. cbn [snd] in Ha.
          intros v bs rest H. destruct v as [x|l0|l0|l0|i l0|x|x]; try discriminate.
          destruct l0 as [|x [|x2 l0]]; try discriminate.
          unfold dmap. rewrite (Ha true _ _ rest H). reflexivity.
        + intros v bs rest H. destruct v as [x|l0|l0|l0|i l0|x|x]; try discriminate.
          change (dmap VStruct (dec_all (map (fun f : fshape => decode_c P false (snd f)) fs))
                       (bs ++ rest) = Some (VStruct l0, rest)).
          unfold dmap.
          assert (T : tr (enc_all (map (fun f : fshape => encode_c P false (snd f)) fs))
                         (dec_all (map (fun f : fshape => decode_c P false (snd f)) fs))).
          { apply tr_enc_all. apply Forall2_map_same. eapply Forall_impl; [|exact IH].
            intros f Hf. exact (Hf false). }
          rewrite (T _ _ rest H). reflexivity.
      - (* SEnum *)
        destruct c; cbn [decode_c encode_c]; [apply tr_none|].
        intros v bs rest H. destruct v as [x|l0|l0|l0|i l0|x|x]; try discriminate.
        match type of H with
        | match assoc_idx i ?L with _ => _ end = _ => destruct (assoc_idx i L) as [e|] eqn:Ea
        end; [|discriminate].
        apply (assoc_idx_map_some (fun v : string * N * list fshape => snd (fst v)) _
                 (fun v : string * N * list fshape =>
                    dec_all (map (fun f : fshape => decode_c P false (snd f)) (snd v)))) in Ea.
        destruct Ea as (w & Hin & He & Hd). subst e.
        match type of H with
        | match ?E l0 with _ => _ end = _ => destruct (E l0) as [y|] eqn:Ey
        end; [|discriminate].
        inversion H; subst. cbn [app].
        match goal with
        | |- context [assoc_idx i ?L] =>
            replace (assoc_idx i L)
              with (Some (dec_all (map (fun f : fshape => decode_c P false (snd f)) (snd w))))
              by (symmetry; exact Hd)
        end.
        rewrite Forall_forall in IH. specialize (IH w Hin).
        assert (T : tr (enc_all (map (fun f : fshape => encode_c P false (snd f)) (snd w)))
                       (dec_all (map (fun f : fshape => decode_c P false (snd f)) (snd w)))).
        { apply tr_enc_all. apply Forall2_map_same. eapply Forall_impl; [|exact IH].
          intros f Hf. exact (Hf false). }
        unfold dmap. rewrite (T _ _ rest Ey). reflexivity.
      - (* SOpaque *)
        cbn [decode_c encode_c].
        apply (rev_opaque _ _ _ P REV). apply Forall2_map_same.
        eapply Forall_impl; [|exact IH]. intros a Ha. exact (Ha false).
      - (* SCut *)
        cbn [decode_c encode_c]. apply tr_none.
    Qed.

    Theorem encode_decode :
      prims_rev P -> forall sh v bs rest,
        encode P sh v = Some bs -> decode P sh (bs ++ rest) = Some (v, rest).
    Proof. intros REV sh. exact (encode_decode_c REV sh false). Qed.

    (** ** the codec depends on the shape only *)
    Theorem codec_depends_on_shape :
      forall sh1 sh2, sh1 = sh2 -> decode P sh1 = decode P sh2 /\ encode P sh1 = encode P sh2.
    Proof. intros sh1 sh2 ->. split; reflexivity. Qed.

    (** ** a completely unfolded shape refines only to itself *)
    Lemma cutfree_refines : forall a a', cutfree a = true -> refines a a' -> a = a'.
    Proof.
      assert (Hfs : forall fs : list fshape,
                 Forall (fun f : fshape =>
                           forall a', cutfree (snd f) = true -> refines (snd f) a' -> snd f = a') fs ->
                 forall fs', forallb (fun f : fshape => cutfree (snd f)) fs = true ->
                             Forall2 (fun f f' : fshape => fst f = fst f' /\ refines (snd f) (snd f')) fs fs' ->
                             fs = fs').
      { intros fs IH fs' Hc H2.
        apply (Forall2_eq_from (fun f : fshape => cutfree (snd f))
                 (fun f f' : fshape => fst f = fst f' /\ refines (snd f) (snd f')) fs);
          [|exact Hc|exact H2].
        eapply Forall_impl; [|exact IH]. intros [x a] Hf [y a'] Hcf [Hxy Hr]. cbn [fst snd] in *.
        subst y. f_equal. exact (Hf _ Hcf Hr). }
      induction a as [p|a IH|a IH|n a IH|l IH|st or IHs IHo|fs IH|vs IH|h l IH|]
                       using shape_ind'; intros a' Hc Hr; inversion Hr; subst; cbn [cutfree] in Hc;
        try discriminate; try reflexivity.
      - f_equal. auto.
      - f_equal. auto.
      - f_equal. auto.
      - f_equal. eapply (Forall2_eq_from cutfree refines); eauto.
      - apply andb_prop in Hc as [Hc1 Hc2]. f_equal; auto.
      - f_equal. eapply Hfs; eauto.
      - f_equal.
        apply (Forall2_eq_from
                 (fun v : string * N * list fshape => forallb (fun f : fshape => cutfree (snd f)) (snd v))
                 (fun v v' : string * N * list fshape =>
                    fst v = fst v' /\
                    Forall2 (fun f f' : fshape => fst f = fst f' /\ refines (snd f) (snd f'))
                            (snd v) (snd v')) vs); [|exact Hc|eassumption].
        eapply Forall_impl; [|exact IH]. intros [x fs] Hf [y fs'] Hcf [Hxy H2]. cbn [fst snd] in *.
        subst y. f_equal. eapply Hfs; eauto.
      - f_equal. eapply (Forall2_eq_from cutfree refines); eauto.
    Qed.

    (** ** monotonicity: unfolding [SCut] leaves further never changes a result *)
    Theorem decode_refines_c :
      prims_mono P -> forall sh sh' c, refines sh sh' -> dec_le (decode_c P c sh) (decode_c P c sh').
    Proof.
      intros MONO.
      assert (Hfs : forall fs : list fshape,
                 Forall (fun f : fshape =>
                           forall sh' c, refines (snd f) sh' ->
                                         dec_le (decode_c P c (snd f)) (decode_c P c sh')) fs ->
                 forall fs',
                   Forall2 (fun f f' : fshape => fst f = fst f' /\ refines (snd f) (snd f')) fs fs' ->
                   dec_le (dec_all (map (fun f : fshape => decode_c P false (snd f)) fs))
                          (dec_all (map (fun f : fshape => decode_c P false (snd f)) fs'))).
      { intros fs IH fs' H2. apply dec_le_dec_all.
        revert fs' H2. induction IH as [|f fs Hf _ IH']; intros fs' H2; inversion H2; subst;
          cbn [map]; constructor; [|auto].
        match goal with H : _ /\ _ |- _ => destruct H as [_ Hr] end. exact (Hf _ false Hr). }
      induction sh as [p|a IH|a IH|n a IH|l IH|st or _ _|fs IH|vs IH|h l IH|]
                       using shape_ind'; intros sh' c Hr; inversion Hr; subst;
        try (destruct c; cbn [decode_c]; apply dec_le_none).
      - apply dec_le_refl.
      - destruct c; cbn [decode_c]; [apply dec_le_none|]. apply IH; assumption.
      - destruct c; cbn [decode_c]; [apply dec_le_none|].
        intros b x H. destruct (ldec P b) as [[n r]|]; [|discriminate].
        revert H. apply dec_le_dmap. apply dec_le_dec_rep. apply IH. assumption.
      - destruct c; cbn [decode_c]; [apply dec_le_none|].
        apply dec_le_dmap. apply dec_le_dec_rep. apply IH. assumption.
      - destruct c; cbn [decode_c].
        { match goal with H : Forall2 refines l _ |- _ => destruct H end;
            [apply dec_le_refl|apply dec_le_none]. }
        apply dec_le_dmap. apply dec_le_dec_all.
        eapply (Forall2_map_rel refines); [|eassumption].
        eapply Forall_impl; [|exact IH]. intros a Ha y Hy. exact (Ha y false Hy).
      - destruct c; cbn [decode_c]; [apply dec_le_none|].
        destruct (cutfree st && cutfree or) eqn:Ec; [|apply dec_le_none].
        apply andb_prop in Ec as [Ec1 Ec2].
        rewrite <- (cutfree_refines _ _ Ec1 ltac:(eassumption)).
        rewrite <- (cutfree_refines _ _ Ec2 ltac:(eassumption)).
        rewrite Ec1, Ec2. apply dec_le_refl.
      - destruct c; cbn [decode_c].
        + match goal with H : Forall2 _ fs _ |- _ => rename H into H2 end.
          destruct fs as [|[[nm bx] a] [|f2 fs]]; try apply dec_le_none.
          inversion H2 as [|? [[nm' bx'] a'] ? ? [_ Ha] H2']; subst. inversion H2'; subst.
          inversion IH as [|? ? Hq _]; subst. cbn [snd] in *.
          apply dec_le_dmap. exact (Hq _ true Ha).
        + apply dec_le_dmap. apply Hfs; assumption.
      - destruct c; cbn [decode_c]; [apply dec_le_none|].
        match goal with H : Forall2 _ vs _ |- _ => rename H into H2 end.
        intros b x H. destruct b as [|i r]; [discriminate|].
        match type of H with
        | match assoc_idx i ?L with _ => _ end = _ => destruct (assoc_idx i L) as [d|] eqn:Ea
        end; [|discriminate].
        eapply (assoc_idx_rel dec_le) in Ea as (d' & Ea' & Hd); [rewrite Ea'|].
        { revert H. apply dec_le_dmap. exact Hd. }
        clear - IH H2 Hfs. revert vs' H2.
        induction IH as [|v vs Hv _ IH']; intros vs' H2; inversion H2; subst; cbn [map];
          constructor; [|auto].
        match goal with H : _ /\ _ |- _ => destruct H as [Hn Hf] end. cbn [fst snd].
        split; [f_equal; exact Hn|]. apply Hfs; assumption.
      - cbn [decode_c]. apply MONO.
        eapply (Forall2_map_rel refines); [|eassumption].
        eapply Forall_impl; [|exact IH]. intros a Ha y Hy. exact (Ha y false Hy).
    Qed.

    Theorem decode_refines :
      prims_mono P -> forall sh sh' b x,
        refines sh sh' -> decode P sh b = Some x -> decode P sh' b = Some x.
    Proof. intros MONO sh sh' b x Hr. exact (decode_refines_c MONO sh sh' false Hr b x). Qed.
  End WithPrims.
End CodecProofs.

(** ** the registry reading at depth n refines to the reading at depth n + k *)
Lemma refines_opaque_nil h : refines (SOpaque h []) (SOpaque h []).
Proof. constructor. constructor. Qed.

Lemma named_shape_refines s p args args' body body' :
  Forall2 refines args args' -> refines body body' ->
  refines (named_shape s p args body) (named_shape s p args' body').
Proof.
  intros Ha Hb. unfold named_shape. destruct (subs_get (s_subs s) p) as [sub|].
  - destruct (su_map sub); constructor; [exact Ha|constructor].
  - destruct p as [|x [|y p]]; [constructor| |exact Hb].
    destruct (assoc_str _ x); constructor. exact Ha.
Qed.

Theorem shape_reg_refines r s : forall n k id,
  refines (shape_reg r s n id) (shape_reg r s (n + k) id).
Proof.
  induction n as [|n IH]; intros k id; [constructor|].
  cbn [Nat.add shape_reg]. destruct (entry_body r id) as [t|]; [|constructor].
  assert (Hl : forall l, Forall2 refines (map (shape_reg r s n) l) (map (shape_reg r s (n + k)) l)).
  { intros l. apply Forall2_map_same. apply Forall_forall. intros x _. apply IH. }
  assert (Hf : forall fs : list field,
             Forall2 (fun f f' : fshape => fst f = fst f' /\ refines (snd f) (snd f'))
                     (map (fun f => (f_name f, is_boxed_gen f, shape_reg r s n (f_ty f))) fs)
                     (map (fun f => (f_name f, is_boxed_gen f, shape_reg r s (n + k) (f_ty f))) fs)).
  { intros fs. apply Forall2_map_same. apply Forall_forall. intros x _. cbn [fst snd].
    split; [reflexivity|apply IH]. }
  destruct (t_def t) as [fs|vs|e|len e|es|p|e|st or].
  - apply named_shape_refines; [apply Hl|]. constructor. apply Hf.
  - apply named_shape_refines; [apply Hl|]. constructor.
    apply Forall2_map_same. apply Forall_forall. intros v _. cbn [fst snd].
    split; [reflexivity|apply Hf].
  - constructor. apply IH.
  - constructor. apply IH.
  - constructor. apply Hl.
  - constructor.
  - constructor. apply IH.
  - constructor; apply IH.
Qed.

(** ** C01: the byte-level sentence *)
Section C01.
  Context {pv bv ov : Type}.
  Variable P : prims pv bv ov.

  (** every byte string that decodes with the registry type decodes with the generated
      type to the same value and remainder, and re-encodes to the bytes consumed *)
  Theorem faithful_decode r s m :
    prims_ok P -> Faithful r s m ->
    forall id t n b v rest,
      resolve_type_path r s id = Ok t ->
      decode P (shape_reg r s n id) b = Some (v, rest) ->
      decode P (shape_rust m s n t) b = Some (v, rest) /\
      exists e, encode P (shape_rust m s n t) v = Some e /\ e ++ rest = b.
  Proof.
    intros OK F id t n b v rest Ht Hd. rewrite (F n id t Ht).
    split; [exact Hd|]. exact (decode_encode P OK _ _ _ _ Hd).
  Qed.

  Theorem generate_decode_rest r s teq m :
    prims_ok P -> skeleton_consistent r s -> root_fresh s -> generate r s teq = Ok m ->
    forall id t n b v rest,
      resolve_type_path r s id = Ok t ->
      decode P (shape_reg r s n id) b = Some (v, rest) ->
      decode P (shape_rust m s n t) b = Some (v, rest) /\
      exists e, encode P (shape_rust m s n t) v = Some e /\ e ++ rest = b.
  Proof.
    intros OK Hs Hr Hg. apply faithful_decode; [exact OK|]. exact (generate_faithful r s teq m Hs Hr Hg).
  Qed.

  Theorem generate_decode r s teq m :
    prims_ok P -> skeleton_consistent r s -> root_fresh s -> generate r s teq = Ok m ->
    forall id t n b v,
      resolve_type_path r s id = Ok t ->
      decode P (shape_reg r s n id) b = Some (v, []) ->
      decode P (shape_rust m s n t) b = Some (v, []) /\
      encode P (shape_rust m s n t) v = Some b.
  Proof.
    intros OK Hs Hr Hg id t n b v Ht Hd.
    destruct (generate_decode_rest r s teq m OK Hs Hr Hg id t n b v [] Ht Hd) as (H1 & e & He & Hb).
    split; [exact H1|]. rewrite app_nil_r in Hb. subst e. exact He.
  Qed.

  (** ... and a result obtained at depth n is the result at every greater depth, on both
      sides: "valid encoding of the registry type" does not depend on the depth chosen *)
  Theorem generate_decode_deeper r s teq m :
    prims_ok P -> prims_mono P ->
    skeleton_consistent r s -> root_fresh s -> generate r s teq = Ok m ->
    forall id t n k b v rest,
      resolve_type_path r s id = Ok t ->
      decode P (shape_reg r s n id) b = Some (v, rest) ->
      decode P (shape_reg r s (n + k) id) b = Some (v, rest) /\
      decode P (shape_rust m s (n + k) t) b = Some (v, rest) /\
      exists e, encode P (shape_rust m s (n + k) t) v = Some e /\ e ++ rest = b.
  Proof.
    intros OK MONO Hs Hr Hg id t n k b v rest Ht Hd.
    assert (Hd' : decode P (shape_reg r s (n + k) id) b = Some (v, rest)).
    { exact (decode_refines P MONO _ _ _ _ (shape_reg_refines r s n k id) Hd). }
    split; [exact Hd'|]. exact (generate_decode_rest r s teq m OK Hs Hr Hg id t (n + k) b v rest Ht Hd').
  Qed.
  (** the other reading of "valid encoding": whatever the registry reading ENCODES (to depth
      n) is decoded by the generated type, completely and to the value encoded, and the
      generated type encodes that value to the same bytes *)
  Theorem generate_encode r s teq m :
    prims_rev P -> skeleton_consistent r s -> root_fresh s -> generate r s teq = Ok m ->
    forall id t n b v,
      resolve_type_path r s id = Ok t ->
      encode P (shape_reg r s n id) v = Some b ->
      decode P (shape_rust m s n t) b = Some (v, []) /\
      encode P (shape_rust m s n t) v = Some b.
  Proof.
    intros REV Hs Hr Hg id t n b v Ht He.
    rewrite (generate_faithful r s teq m Hs Hr Hg n id t Ht). split; [|exact He].
    pose proof (encode_decode P REV _ _ _ [] He) as H. rewrite app_nil_r in H. exact H.
  Qed.
End C01.

(** ** C18: the standalone struct encodes to the variant's payload *)
Section C18.
  Context {pv bv ov : Type}.
  Variable P : prims pv bv ov.

  (** on shapes: the enum codec at the index of a variant is the index byte followed by the
      struct codec of that variant's field list *)
  Lemma enum_payload (vs : list (string * N * list fshape)) nm i fs :
    In (nm, i, fs) vs -> NoDup (map (fun v => snd (fst v)) vs) ->
    (forall vals,
        encode P (SEnum vs) (VEnum i vals) =
        match encode P (SStruct fs) (VStruct vals) with
        | Some e => Some (i :: e)
        | None => None
        end) /\
    (forall b,
        decode P (SEnum vs) (i :: b) =
        match decode P (SStruct fs) b with
        | Some (VStruct vals, rest) => Some (VEnum i vals, rest)
        | _ => None
        end).
  Proof.
    intros Hin Hnd. split.
    - intros vals. rewrite encode_enum, encode_struct_fields.
      pose proof (assoc_idx_nodup (fun v : string * N * list fshape => snd (fst v))
                    (fun v => encode_fields P (snd v)) vs (nm, i, fs) Hin Hnd) as E.
      cbn [fst snd] in E. rewrite E. reflexivity.
    - intros b. rewrite decode_enum, decode_struct_fields.
      pose proof (assoc_idx_nodup (fun v : string * N * list fshape => snd (fst v))
                    (fun v => decode_fields P (snd v)) vs (nm, i, fs) Hin Hnd) as E.
      cbn [fst snd] in E. rewrite E. unfold dmap. destruct (decode_fields P fs b) as [[l r]|]; reflexivity.
  Qed.

  Theorem standalone_payload r s teq m :
    skeleton_consistent r s -> root_fresh s -> generate r s teq = Ok m ->
    forall t flat ir vs v k u name docs n,
      params_from_scale_info (t_params t) = [] ->
      create_type_ir r s t flat = Ok (Some ir) ->
      t_def t = TDVariant vs -> In v vs -> NoDup (map v_index vs) ->
      create_composite_ir_kind r s (v_fields v) [] [] = Ok (k, u) ->
      let enum_sh := item_shape m s n ir [] in
      let struct_sh := item_shape m s n (upcast_composite s (mk_ci name k docs)) [] in
      struct_sh = SStruct (map (field_shape_reg r s n) (v_fields v)) /\
      (forall vals,
          encode P enum_sh (VEnum (v_index v) vals) =
          match encode P struct_sh (VStruct vals) with
          | Some e => Some (v_index v :: e)
          | None => None
          end) /\
      (forall b,
          decode P enum_sh (v_index v :: b) =
          match decode P struct_sh b with
          | Some (VStruct vals, rest) => Some (VEnum (v_index v) vals, rest)
          | _ => None
          end).
  Proof.
    intros Hs Hr Hg t flat ir vs v k u name docs n Hp Hir Hdef Hin Hnd Hk enum_sh struct_sh.
    assert (He : enum_sh =
                 SEnum (map (fun v => (v_name v, v_index v, map (field_shape_reg r s n) (v_fields v))) vs)).
    { pose proof (param_free_item_body r s teq m Hs Hr Hg t flat ir n Hp Hir) as H.
      rewrite Hdef in H. exact H. }
    assert (Hst : struct_sh = SStruct (map (field_shape_reg r s n) (v_fields v))).
    { exact (standalone_faithful r s teq m Hs Hr Hg (v_fields v) k u name docs n Hk). }
    split; [exact Hst|]. rewrite He, Hst.
    apply (enum_payload _ (v_name v)).
    - apply (in_map (fun v => (v_name v, v_index v, map (field_shape_reg r s n) (v_fields v)))).
      exact Hin.
    - rewrite map_map. cbn [fst snd]. exact Hnd.
  Qed.
  (** the registry reading of an item-eligible (not substituted, namespaced, not Cow) enum
      entry, one level unfolded *)
  Lemma shape_reg_eligible_enum r s id X vs n :
    resolve r id = Some X -> item_eligible s X = true ->
    path_ident (t_path X) <> Some "Cow"%string -> t_def X = TDVariant vs ->
    shape_reg r s (S n) id =
    SEnum (map (fun v => (v_name v, v_index v, map (field_shape_reg r s n) (v_fields v))) vs).
  Proof.
    intros Hres He Hcow Hdef. cbn [shape_reg]. unfold entry_body. rewrite Hres.
    rewrite cow_case_if, (is_cow_false _ Hcow), Hdef.
    unfold item_eligible in He. apply andb_prop in He as [He Hns]. apply andb_prop in He as [_ Hsub].
    apply negb_true_iff in Hsub. unfold subs_contains in Hsub. unfold named_shape.
    destruct (t_path X) as [|a0 [|a1 pl]]; try discriminate Hns.
    destruct (subs_get (s_subs s) (a0 :: a1 :: pl)); [discriminate|]. reflexivity.
  Qed.

  (** the same for the type AS NAMED by the generator for an enum id (generic or not): the
      generated enum, read in the module with the arguments it was named with, encodes the
      variant as the index byte followed by what the standalone struct (built from the
      variant's field list with no parent parameters) encodes *)
  Theorem standalone_payload_named r s teq m :
    skeleton_consistent r s -> root_fresh s -> generate r s teq = Ok m ->
    forall id X t vs v k u name docs n,
      resolve r id = Some X -> item_eligible s X = true ->
      path_ident (t_path X) <> Some "Cow"%string ->
      resolve_type_path r s id = Ok t ->
      t_def X = TDVariant vs -> In v vs -> NoDup (map v_index vs) ->
      create_composite_ir_kind r s (v_fields v) [] [] = Ok (k, u) ->
      let enum_sh := shape_rust m s (S n) t in
      let struct_sh := item_shape m s n (upcast_composite s (mk_ci name k docs)) [] in
      (forall vals,
          encode P enum_sh (VEnum (v_index v) vals) =
          match encode P struct_sh (VStruct vals) with
          | Some e => Some (v_index v :: e)
          | None => None
          end) /\
      (forall b,
          decode P enum_sh (v_index v :: b) =
          match decode P struct_sh b with
          | Some (VStruct vals, rest) => Some (VEnum (v_index v) vals, rest)
          | _ => None
          end).
  Proof.
    intros Hs Hr Hg id X t vs v k u name docs n Hres He Hcow Ht Hdef Hin Hnd Hk enum_sh struct_sh.
    assert (Hen : enum_sh =
                  SEnum (map (fun v => (v_name v, v_index v, map (field_shape_reg r s n) (v_fields v))) vs)).
    { unfold enum_sh. rewrite (generate_faithful r s teq m Hs Hr Hg (S n) id t Ht).
      exact (shape_reg_eligible_enum r s id X vs n Hres He Hcow Hdef). }
    assert (Hst : struct_sh = SStruct (map (field_shape_reg r s n) (v_fields v))).
    { exact (standalone_faithful r s teq m Hs Hr Hg (v_fields v) k u name docs n Hk). }
    rewrite Hen, Hst. apply (enum_payload _ (v_name v)).
    - apply (in_map (fun v => (v_name v, v_index v, map (field_shape_reg r s n) (v_fields v)))).
      exact Hin.
    - rewrite map_map. cbn [fst snd]. exact Hnd.
  Qed.

  (** struct entries: the standalone struct built from the field list of a parameter-free
      struct has the codec of the struct's own item *)
  Theorem standalone_struct_codec r s teq m :
    skeleton_consistent r s -> root_fresh s -> generate r s teq = Ok m ->
    forall t flat ir fs k u name docs n,
      params_from_scale_info (t_params t) = [] ->
      create_type_ir r s t flat = Ok (Some ir) ->
      t_def t = TDComposite fs ->
      create_composite_ir_kind r s fs [] [] = Ok (k, u) ->
      let struct_sh := item_shape m s n (upcast_composite s (mk_ci name k docs)) [] in
      decode P (item_shape m s n ir []) = decode P struct_sh /\
      encode P (item_shape m s n ir []) = encode P struct_sh.
  Proof.
    intros Hs Hr Hg t flat ir fs k u name docs n Hp Hir Hdef Hk struct_sh.
    apply codec_depends_on_shape.
    pose proof (param_free_item_body r s teq m Hs Hr Hg t flat ir n Hp Hir) as H.
    rewrite Hdef in H. rewrite H. symmetry.
    exact (standalone_faithful r s teq m Hs Hr Hg fs k u name docs n Hk).
  Qed.
End C18.
