(** Totality of generation on the class [generable] (C10_total): the IR of
    every entry is built, the recursive-derive flattening terminates, the
    generation loop ends in [Ok] or the duplicate-path error, emission of an
    [Ok] result succeeds, and [types_equal] terminates on closed registries. *)
From Coq Require Import List NArith String Ascii Bool Lia Arith.
From V Require Import Base.Strings Base.Result Model.Registry Model.Settings Model.Subst
  Model.TypePath Model.Derives Model.Generate Model.Emit Model.Equal Model.WellFormed
  Proofs.GenProofs Proofs.ResolveTotal.
From V Require Import Proofs.SynKey.
Import ListNotations.
Open Scope string_scope. Open Scope list_scope.

(** ** [create_type_ir] with the variant loop named *)
Definition variants_ir (r : registry) (s : settings) (params : list tparam_ir)
  : list variant -> list tparam_ir -> result (list (N * composite_ir) * list tparam_ir) :=
  fix go (l : list variant) (unused : list tparam_ir) :=
    match l with
    | [] => Ok ([], unused)
    | v :: l' =>
        let* vn := parse_ident (v_name v) in
        let* ku := create_composite_ir_kind r s (v_fields v) params unused in
        let* rest := go l' (snd ku) in
        Ok ((v_index v, mk_ci vn (fst ku) (docs_from_scale_info s (v_docs v))) :: fst rest,
            snd rest)
    end.

Lemma variants_ir_cons r s params v l unused :
  variants_ir r s params (v :: l) unused =
  let* vn := parse_ident (v_name v) in
  let* ku := create_composite_ir_kind r s (v_fields v) params unused in
  let* rest := variants_ir r s params l (snd ku) in
  Ok ((v_index v, mk_ci vn (fst ku) (docs_from_scale_info s (v_docs v))) :: fst rest, snd rest).
Proof. reflexivity. Qed.

Lemma create_type_ir_eq r s t flat :
  create_type_ir r s t flat =
  if negb (is_composite_or_variant (t_def t)) then Ok None
  else
    let params := params_from_scale_info (t_params t) in
    match path_ident (t_path t) with
    | None => Panic "Structs and enums should have a name"
    | Some nm =>
      let* name := parse_ident nm in
      let docs := docs_from_scale_info s (t_docs t) in
      let* kcu :=
        match t_def t with
        | TDComposite fs =>
            let* ku := create_composite_ir_kind r s fs params params in
            Ok (KStruct (mk_ci name (fst ku) docs), could_derive_as_compact (fst ku), snd ku)
        | TDVariant vs =>
            let* vu := variants_ir r s params vs params in
            Ok (KEnum name docs (fst vu), false, snd vu)
        | _ => Panic "unreachable"
        end in
      let '(kind, cdac, unused) := kcu in
      let* d := resolve_derives_for_type flat t in
      let d := if cdac then add_as_compact s d else d in
      Ok (Some (mk_ti params unused d (s_codec s) kind))
    end.
Proof. reflexivity. Qed.

Lemma last_In {A} (d : A) : forall p, p <> [] -> In (last p d) p.
Proof.
  induction p as [|a p IH]; intros Hp; [congruence|].
  destruct p as [|b p']; [left; reflexivity|].
  change (last (a :: b :: p') d) with (last (b :: p') d). right. apply IH. discriminate.
Qed.

Lemma syn_key_ok p : p <> [] -> forallb ident_okb p = true -> syn_type_path_key p = Ok (path_key p).
Proof. exact (syn_key_wf p). Qed.

Lemma In_resolve (r : registry) i t : In (i, t) r -> exists id, resolve r id = Some t.
Proof.
  intros H. apply In_nth_error in H as (k & Hk). exists (N.of_nat k).
  unfold resolve. rewrite Nat2N.id, Hk. reflexivity.
Qed.

Lemma ids_consistent_In r id t : ids_consistent r = true -> In (id, t) r -> resolve r id = Some t.
Proof.
  unfold ids_consistent. intros Hc Hin.
  assert (G : forall (l : registry) (i : N),
    (fix go (i : N) (l : registry) : bool :=
       match l with [] => true | (id, _) :: l' => N.eqb id i && go (i + 1)%N l' end) i l = true ->
    In (id, t) l -> exists k, id = (i + N.of_nat k)%N /\ nth_error l k = Some (id, t)).
  { induction l as [|[id0 t0] l IH]; intros i Hgo H; [destruct H|].
    apply andb_prop in Hgo as [E Hgo]. apply N.eqb_eq in E. destruct H as [H|H].
    - inversion H; subst. exists 0%nat. split; [lia|reflexivity].
    - destruct (IH _ Hgo H) as (k & Hk & Hn). exists (S k). split; [lia|exact Hn]. }
  destruct (G r 0%N Hc Hin) as (k & Hk & Hn). unfold resolve.
  replace (N.to_nat id) with k by lia. rewrite Hn. reflexivity.
Qed.

(** ** visited sets: duplicate free lists of valid ids *)
Definition good (r : registry) (vis : list N) : Prop := NoDup vis /\ forall x, In x vis -> in_reg r x.

Lemma good_length r vis : good r vis -> List.length vis <= List.length r.
Proof.
  intros [Hnd Hin]. replace (List.length r) with (List.length (reg_ids r)).
  - apply NoDup_incl_length; [exact Hnd|]. intros x Hx. apply in_reg_ids. auto.
  - unfold reg_ids. rewrite map_length, seq_length. reflexivity.
Qed.

Lemma good_cons r vis x : good r vis -> in_reg r x -> mem_N x vis = false -> good r (x :: vis).
Proof.
  intros [Hnd Hin] Hx Hm. split.
  - constructor; [|exact Hnd]. intros H. apply mem_N_In in H. congruence.
  - intros y [<-|Hy]; auto.
Qed.

Lemma good_nil r : good r [].
Proof. split; [constructor|intros x []]. Qed.

(** ** [collect_type_ids] terminates on closed registries *)
Definition collect_list (f : N -> list N -> result (list N)) : list N -> list N -> result (list N) :=
  fix go (l : list N) (vis : list N) :=
    match l with
    | [] => Ok vis
    | c :: l' => let* vis' := f c vis in go l' vis'
    end.

Lemma collect_ids_S fuel' r id visited :
  collect_ids (S fuel') r id visited =
  if mem_N id visited then Ok visited
  else match resolve r id with
       | None => Panic "Should contain this id, if Registry not corrupted"
       | Some t => collect_list (collect_ids fuel' r) (collect_children t) (id :: visited)
       end.
Proof. reflexivity. Qed.

Lemma collect_children_incl t c : In c (collect_children t) -> In c (param_ids t ++ def_ids (t_def t)).
Proof.
  unfold collect_children. intros H. apply in_app_or in H. apply in_or_app.
  destruct H as [H|H]; [left; exact H|right]. destruct (t_def t); try exact H. destruct H.
Qed.

Lemma collect_ids_total r (Hcl : closed r) : forall fuel id vis,
  good r vis -> in_reg r id -> List.length r + 1 <= fuel + List.length vis ->
  exists vis', collect_ids fuel r id vis = Ok vis' /\ good r vis' /\
               List.length vis <= List.length vis'.
Proof.
  induction fuel as [|fuel IH]; intros id vis Hg Hid Hlen.
  - pose proof (good_length _ _ Hg). lia.
  - rewrite collect_ids_S. destruct (mem_N id vis) eqn:Em; [exists vis; auto|].
    destruct (resolve_in_reg _ _ Hid) as (t & Ht). rewrite Ht.
    assert (Hch : forall c, In c (collect_children t) -> in_reg r c).
    { intros c Hc. eapply Hcl; [exact Ht|]. apply collect_children_incl; exact Hc. }
    pose proof (good_cons _ _ _ Hg Hid Em) as Hg1.
    assert (Hlen1 : List.length r + 1 <= fuel + List.length (id :: vis)) by (cbn [List.length]; lia).
    assert (Hle1 : List.length vis <= List.length (id :: vis)) by (cbn [List.length]; lia).
    revert Hch Hg1 Hlen1 Hle1. generalize (id :: vis) as vis1. generalize (collect_children t) as l.
    induction l as [|c l IHl]; intros vis1 Hch Hg1 Hlen1 Hle1; cbn [collect_list].
    + exists vis1. auto.
    + destruct (IH c vis1 Hg1 (Hch c (or_introl eq_refl)) Hlen1) as (vis2 & H2 & Hg2 & Hle2).
      rewrite H2. cbn [bind]. apply IHl.
      * intros c' Hc'. apply Hch. right; exact Hc'.
      * exact Hg2.
      * lia.
      * lia.
Qed.

Lemma collect_type_ids_total r id : closed r -> in_reg r id -> exists ids, collect_type_ids r id = Ok ids.
Proof.
  intros Hcl Hid. unfold collect_type_ids.
  destruct (collect_ids_total r Hcl (S (List.length r)) id [] (good_nil r) Hid) as (v & Hv & _).
  { cbn [List.length]. lia. }
  eauto.
Qed.

(** ** [flatten_recursive_derives] *)
Definition flatten_go (dr : derives_registry) (r : registry)
  : list (N * option string) -> list (N * derives) -> result (list (N * derives)) :=
  fix go (l : list (N * option string)) (acc : list (N * derives)) :=
    match l with
    | [] => Ok acc
    | (id, None) :: l' => go l' acc
    | (id, Some k) :: l' =>
        match kmap_get (dr_recursive dr) k with
        | None => go l' acc
        | Some d =>
            let* ids := collect_type_ids r id in
            go l' (acc ++ map (fun i => (i, d)) ids)
        end
    end.

Definition flatten_key (e : N * ty) : result (N * option string) :=
  let '(id, t) := e in
  match t_path t with
  | [] => Ok (id, None)
  | p => let* k := syn_type_path_key p in Ok (id, Some k)
  end.

Lemma flatten_eq dr r :
  flatten dr r =
  match dr_recursive dr with
  | [] => Ok (mk_flat (dr_default dr) (flat_of_specific (dr_specific dr)))
  | _ =>
    let* keys := mapM flatten_key r in
    let key_of (id : N) : option string :=
      match find (fun e => N.eqb (fst e) id) keys with Some (_, k) => k | None => None end in
    let* acc := flatten_go dr r keys [] in
    let spec :=
      fold_left (fun m '(id, d) =>
                   match key_of id with
                   | Some k => smap_extend m k d
                   | None => m
                   end) acc (flat_of_specific (dr_specific dr)) in
    Ok (mk_flat (dr_default dr) spec)
  end.
Proof. reflexivity. Qed.

Lemma flatten_total dr r :
  ids_consistent r = true -> closed r -> entries_ok flat_entryb r ->
  exists flat, flatten dr r = Ok flat.
Proof.
  intros Hids Hcl Hfl. rewrite flatten_eq. destruct (dr_recursive dr) as [|x0 rec] eqn:Erec; [eauto|].
  destruct (mapM_total flatten_key (fun x => in_reg r (fst x)) r) as (keys & Hkeys & Pkeys).
  { intros [id t] Hin. pose proof (ids_consistent_In _ _ _ Hids Hin) as Hr.
    pose proof (Hfl _ _ Hr) as Hf. unfold flat_entryb in Hf. unfold flatten_key.
    destruct (t_path t) as [|a p'] eqn:Ep.
    - eexists; split; [reflexivity|]. cbn [fst]. eapply resolve_some_in_reg; eauto.
    - rewrite (syn_key_ok (a :: p')) by (congruence || exact Hf). cbn [bind].
      eexists; split; [reflexivity|]. cbn [fst]. eapply resolve_some_in_reg; eauto. }
  rewrite Hkeys. cbn [bind].
  assert (Hgo : forall l acc, Forall (fun x => in_reg r (fst x)) l ->
            exists acc', flatten_go dr r l acc = Ok acc').
  { induction l as [|[id [k|]] l IH]; intros acc Hl; cbn [flatten_go].
    - eauto.
    - inversion Hl as [|x l0 Hx Hl']; subst. cbn [fst] in Hx.
      destruct (kmap_get (dr_recursive dr) k); [|apply IH; exact Hl'].
      destruct (collect_type_ids_total r id Hcl Hx) as (ids & Hids'). rewrite Hids'. cbn [bind].
      apply IH; exact Hl'.
    - inversion Hl; subst. apply IH; assumption. }
  destruct (Hgo keys [] Pkeys) as (acc & Hacc). rewrite Hacc. cbn [bind]. eauto.
Qed.

(** ** IR construction is total *)
Section GenTotal.
  Variable r : registry.
  Variable s : settings.
  Variable rank : N -> nat.
  Hypothesis Hgen : generable r s rank.

  Let Hres : resolvable r s rank := proj1 (proj2 Hgen).

  Lemma field_ir_of_total params f :
    in_reg r (f_ty f) ->
    exists fi, field_ir_of r s params f = Ok fi /\ tokenizable (fi_path fi) = true.
  Proof.
    intros Hin. unfold field_ir_of, resolve_field_type_path.
    destruct (resolve_rec_tokenizable r s rank Hres (fuel0 r) (f_ty f) true params (f_type_name f) Hin)
      as (t & Ht & Hn).
    { pose proof Hres as (_ & (_ & Hb) & _). pose proof (Hb _ Hin). unfold fuel0. lia. }
    rewrite Ht. cbn [bind]. eexists; split; [reflexivity|exact Hn].
  Qed.

  Lemma cck_total fs params unused :
    fields_okb fs = true -> (forall f, In f fs -> in_reg r (f_ty f)) ->
    exists k u, create_composite_ir_kind r s fs params unused = Ok (k, u) /\
                forall f, In f (ckind_fields k) -> tokenizable (fi_path f) = true.
  Proof.
    intros Hok Hin. destruct fs as [|f0 fs0].
    { exists CNoFields, unused. split; [reflexivity|intros f []]. }
    unfold create_composite_ir_kind. remember (f0 :: fs0) as fs eqn:Efs. clear Efs.
    unfold fields_okb in Hok. apply andb_prop in Hok as [Hna Hnm]. rewrite Hna. cbn [negb].
    unfold field_names_okb in Hnm. rewrite forallb_forall in Hnm.
    destruct (all_named fs) eqn:En.
    - unfold all_named in En. rewrite forallb_forall in En.
      destruct (mapM_total (fun f => let* id := parse_ident (match f_name f with Some n => n | None => "" end) in
                                     let* fi := field_ir_of r s params f in Ok (id, fi))
                           (fun x => tokenizable (fi_path (snd x)) = true) fs) as (l & Hl & Pl).
      { intros f Hf. specialize (En _ Hf). specialize (Hnm _ Hf).
        destruct (f_name f) as [n|]; [|discriminate]. unfold parse_ident. rewrite Hnm. cbn [bind].
        destruct (field_ir_of_total params f (Hin _ Hf)) as (fi & Hfi & Pfi). rewrite Hfi. cbn [bind].
        eexists; split; [reflexivity|exact Pfi]. }
      rewrite Hl. cbn [bind]. eexists; eexists; split; [reflexivity|].
      intros f Hf. cbn [ckind_fields] in Hf. apply in_map_iff in Hf as (x & <- & Hx).
      rewrite Forall_forall in Pl. auto.
    - destruct (mapM_total (field_ir_of r s params) (fun x => tokenizable (fi_path x) = true) fs) as (l & Hl & Pl).
      { intros f Hf. apply field_ir_of_total. auto. }
      rewrite Hl. cbn [bind]. eexists; eexists; split; [reflexivity|].
      intros f Hf. cbn [ckind_fields] in Hf. rewrite Forall_forall in Pl. auto.
  Qed.

  Lemma variants_ir_total params : forall vs unused,
    (forall v, In v vs -> ident_okb (v_name v) = true /\ fields_okb (v_fields v) = true /\
                          forall f, In f (v_fields v) -> in_reg r (f_ty f)) ->
    exists l u, variants_ir r s params vs unused = Ok (l, u) /\
                forall f, In f (flat_map (fun v => ckind_fields (ci_kind (snd v))) l) ->
                          tokenizable (fi_path f) = true.
  Proof.
    induction vs as [|v vs IH]; intros unused Hvs.
    - exists [], unused. split; [reflexivity|intros f []].
    - rewrite variants_ir_cons. destruct (Hvs v (or_introl eq_refl)) as (Hn & Hf & Hin).
      unfold parse_ident. rewrite Hn. cbn [bind].
      destruct (cck_total (v_fields v) params unused Hf Hin) as (k & u & Hk & Pk).
      rewrite Hk. cbn [bind fst snd].
      destruct (IH u) as (l & u' & Hl & Pl). { intros v' Hv'. apply Hvs. right; exact Hv'. }
      rewrite Hl. cbn [bind fst snd]. eexists; eexists; split; [reflexivity|].
      intros f Hfi. cbn [flat_map snd ci_kind] in Hfi. apply in_app_or in Hfi as [Hfi|Hfi]; auto.
  Qed.

  Lemma create_type_ir_total id t flat :
    resolve r id = Some t ->
    exists o, create_type_ir r s t flat = Ok o /\ forall ir, o = Some ir -> ir_tokenizable ir.
  Proof.
    intros Hr. pose proof Hgen as (_ & _ & Hitem & _). pose proof Hres as (Hcl & _).
    pose proof (Hitem _ _ Hr) as Hi. unfold item_entryb in Hi.
    rewrite create_type_ir_eq.
    destruct (is_composite_or_variant (t_def t)) eqn:Ecv; cbn [negb];
      [|exists None; split; [reflexivity|discriminate]].
    assert (Hp : t_path t <> [] /\ forallb ident_okb (t_path t) = true /\ def_fields_okb (t_def t) = true).
    { destruct (t_def t); try discriminate Ecv; apply andb_prop in Hi as [Hi1 Hi2];
        (destruct (t_path t); [discriminate|]); (split; [discriminate|split; assumption]). }
    destruct Hp as (Hne & Hid & Hdf).
    assert (Hpi : path_ident (t_path t) = Some (last (t_path t) "")).
    { unfold path_ident. destruct (t_path t); [congruence|reflexivity]. }
    rewrite Hpi. unfold parse_ident at 1.
    assert (Hl : ident_okb (last (t_path t) "") = true).
    { rewrite forallb_forall in Hid. apply Hid. apply last_In. exact Hne. }
    rewrite Hl. cbn [bind].
    assert (Hd : exists d, resolve_derives_for_type flat t = Ok d).
    { unfold resolve_derives_for_type. rewrite (syn_key_ok _ Hne Hid). cbn [bind]. eauto. }
    destruct Hd as (d & Hd).
    assert (Hids : forall c, In c (def_ids (t_def t)) -> in_reg r c).
    { intros c Hc. eapply Hcl; [exact Hr|]. apply in_or_app; right; exact Hc. }
    destruct (t_def t) as [fs|vs| | | | | | ] eqn:Ed; try discriminate Ecv.
    - cbn [def_fields_okb] in Hdf.
      destruct (cck_total fs (params_from_scale_info (t_params t)) (params_from_scale_info (t_params t)) Hdf)
        as (k & u & Hk & Pk).
      { intros f Hf. apply Hids. cbn [def_ids]. apply in_map. exact Hf. }
      rewrite Hk. cbn [bind fst snd]. rewrite Hd. cbn [bind].
      eexists; split; [reflexivity|]. intros ir Hir. inversion Hir; subst.
      unfold ir_tokenizable. cbn [ti_kind kind_fields ci_kind]. exact Pk.
    - cbn [def_fields_okb] in Hdf. rewrite forallb_forall in Hdf.
      destruct (variants_ir_total (params_from_scale_info (t_params t)) vs (params_from_scale_info (t_params t)))
        as (l & u & Hl' & Pl).
      { intros v Hv. specialize (Hdf _ Hv). apply andb_prop in Hdf as [H1 H2].
        split; [exact H1|]. split; [exact H2|].
        intros f Hf. apply Hids. cbn [def_ids]. apply in_flat_map. exists v. split; [exact Hv|].
        apply in_map. exact Hf. }
      rewrite Hl'. cbn [bind fst snd]. rewrite Hd. cbn [bind].
      eexists; split; [reflexivity|]. intros ir Hir. inversion Hir; subst.
      unfold ir_tokenizable. cbn [ti_kind kind_fields]. exact Pl.
  Qed.

  (** ** the generation loop *)
  Variable teq : N -> N -> result bool.
  Hypothesis Hteq : forall a b, in_reg r a -> in_reg r b -> exists x, teq a b = Ok x.

  Definition items_good (m : items) : Prop :=
    forall p id ir, In (p, (id, ir)) m -> in_reg r id /\ ir_tokenizable ir.

  Lemma items_get_In : forall (m : items) p v, items_get m p = Some v -> exists k, In (k, v) m.
  Proof.
    induction m as [|[k v'] m IH]; intros p v H; cbn [items_get] in H; [discriminate|].
    destruct (path_eqb k p).
    - inversion H; subst. exists k. left; reflexivity.
    - destruct (IH _ _ H) as (k' & Hk'). exists k'. right; exact Hk'.
  Qed.

  Lemma items_insert_In : forall (m : items) p v x,
    In x (items_insert m p v) -> x = (p, v) \/ In x m.
  Proof.
    induction m as [|[k v'] m IH]; intros p v x H; cbn [items_insert] in H.
    - destruct H as [<-|[]]. left; reflexivity.
    - destruct (path_compare p k).
      + right; exact H.
      + destruct H as [<-|H]; [left; reflexivity|right; exact H].
      + destruct H as [<-|H]; [right; left; reflexivity|].
        destruct (IH _ _ _ H) as [->|H']; [left; reflexivity|right; right; exact H'].
  Qed.

  Lemma gen_loop_total flat : forall l acc,
    (forall e, In e l -> In e r) -> items_good acc ->
    (exists m, gen_loop r s teq flat l acc = Ok m /\ items_good m) \/
    (exists p, gen_loop r s teq flat l acc = Err (EDuplicatePath p)).
  Proof.
    pose proof Hgen as (Hids & _).
    induction l as [|[id t] l IH]; intros acc Hl Hacc.
    - left. exists acc. split; [reflexivity|exact Hacc].
    - rewrite gen_loop_cons.
      assert (Hl' : forall e, In e l -> In e r) by (intros e He; apply Hl; right; exact He).
      pose proof (ids_consistent_In _ _ _ Hids (Hl _ (or_introl eq_refl))) as Hr.
      destruct (subs_contains (s_subs s) (t_path t)); [apply IH; assumption|].
      destruct (namespace (t_path t)) as [|n0 ns] eqn:Ens; [apply IH; assumption|].
      destruct (create_type_ir_total id t flat Hr) as (o & Ho & Po). rewrite Ho. cbn [bind].
      destruct o as [ir|]; [|apply IH; assumption].
      assert (Hlex : forallb ident_lexb (n0 :: ns) = true).
      { pose proof Hgen as (_ & _ & Hitem & _). pose proof (Hitem _ _ Hr) as Hi. unfold item_entryb in Hi.
        assert (Hcv : is_composite_or_variant (t_def t) = true).
        { rewrite create_type_ir_eq in Ho. destruct (is_composite_or_variant (t_def t)); [reflexivity|].
          cbn [negb] in Ho. discriminate. }
        assert (Hid : forallb ident_okb (t_path t) = true).
        { destruct (t_def t); try discriminate Hcv; apply andb_prop in Hi as [Hi1 _];
            (destruct (t_path t); [discriminate|exact Hi1]). }
        rewrite <- Ens. unfold namespace. rewrite forallb_forall in *. intros x Hx.
        apply ident_okb_lexb. apply Hid.
        assert (Hne : t_path t <> []). { intros E. rewrite E in Ens. discriminate. }
        rewrite (app_removelast_last "" Hne). apply in_or_app. left; exact Hx. }
      rewrite Hlex.
      destruct (items_get acc (t_path t)) as [[other ir']|] eqn:G.
      + destruct (items_get_In _ _ _ G) as (k & Hk). destruct (Hacc _ _ _ Hk) as (Hother & _).
        destruct (Hteq id other (resolve_some_in_reg _ _ _ Hr) Hother) as (b & Hb).
        rewrite Hb. cbn [bind]. destruct b; [apply IH; assumption|right; eauto].
      + apply IH; [assumption|].
        intros p id' ir'' Hin. apply items_insert_In in Hin as [E|Hin]; [|eapply Hacc; eauto].
        inversion E; subst. split; [eapply resolve_some_in_reg; eauto|apply Po; reflexivity].
  Qed.

  Theorem generate_total :
    (exists m, generate r s teq = Ok m /\ items_good m) \/
    (exists p, generate r s teq = Err (EDuplicatePath p)).
  Proof.
    unfold generate. pose proof Hgen as (Hids & _ & _ & Hfl). pose proof Hres as (Hcl & _).
    rewrite sanity_pass_spec. apply first_bad_none_iff in Hids. rewrite Hids. cbn [bind].
    destruct (flatten_total (s_dreg s) r) as (flat & Hflat); try assumption.
    { apply first_bad_none_iff. exact Hids. }
    rewrite Hflat. cbn [bind]. apply gen_loop_total; [auto|]. intros p id ir [].
  Qed.
End GenTotal.

(** ** emission of an [Ok] result never fails *)
Section EmitTotal.
  Variable s : settings.

  Lemma field_tokens_total f : tokenizable (fi_path f) = true -> exists t, field_tokens s f = Ok t.
  Proof.
    intros H. unfold field_tokens. cbv zeta.
    destruct (tp_tokens_ok (alloc_tokens (s_alloc s)) _ H) as (t & Ht). rewrite Ht. cbn [bind].
    destruct (fi_emit_boxed f); eauto.
  Qed.

  Lemma struct_field_tokens_total k ph codec :
    (forall f, In f (ckind_fields k) -> tokenizable (fi_path f) = true) ->
    exists t, struct_field_tokens s k ph codec = Ok t.
  Proof.
    intros H. destruct k as [|fs|fs]; cbn [struct_field_tokens].
    - destruct ph; eauto.
    - destruct (mapM_total (fun '(name, f) =>
                              let* t := field_tokens s f in
                              Ok (compact_attr_of codec f ++ ["pub"; name; ":"] ++ t ++ [","]))
                           (fun _ => True) fs) as (l & Hl & _).
      { intros [name f] Hin. destruct (field_tokens_total f) as (t & Ht).
        { apply H. cbn [ckind_fields]. apply in_map_iff. exists (name, f). split; [reflexivity|exact Hin]. }
        rewrite Ht. cbn [bind]. eauto. }
      rewrite Hl. cbn [bind]. eauto.
    - destruct (mapM_total (fun f =>
                              let* t := field_tokens s f in
                              Ok (compact_attr_of codec f ++ ["pub"] ++ t ++ [","]))
                           (fun _ => True) fs) as (l & Hl & _).
      { intros f Hin. destruct (field_tokens_total f) as (t & Ht); [apply H; exact Hin|].
        rewrite Ht. cbn [bind]. eauto. }
      rewrite Hl. cbn [bind]. eauto.
  Qed.

  Lemma enum_field_tokens_total k codec :
    (forall f, In f (ckind_fields k) -> tokenizable (fi_path f) = true) ->
    exists t, enum_field_tokens s k codec = Ok t.
  Proof.
    intros H. destruct k as [|fs|fs]; cbn [enum_field_tokens].
    - eauto.
    - destruct (mapM_total (fun '(name, f) =>
                              let* t := field_tokens s f in
                              Ok (compact_attr_of codec f ++ [name; ":"] ++ t ++ [","]))
                           (fun _ => True) fs) as (l & Hl & _).
      { intros [name f] Hin. destruct (field_tokens_total f) as (t & Ht).
        { apply H. cbn [ckind_fields]. apply in_map_iff. exists (name, f). split; [reflexivity|exact Hin]. }
        rewrite Ht. cbn [bind]. eauto. }
      rewrite Hl. cbn [bind]. eauto.
    - destruct (mapM_total (fun f =>
                              let* t := field_tokens s f in
                              Ok (compact_attr_of codec f ++ t ++ [","]))
                           (fun _ => True) fs) as (l & Hl & _).
      { intros f Hin. destruct (field_tokens_total f) as (t & Ht); [apply H; exact Hin|].
        rewrite Ht. cbn [bind]. eauto. }
      rewrite Hl. cbn [bind]. eauto.
  Qed.

  Lemma type_ir_tokens_total ir : ir_tokenizable ir -> exists t, type_ir_tokens s ir = Ok t.
  Proof.
    unfold ir_tokenizable, type_ir_tokens. intros H. destruct (ti_kind ir) as [c|name docs vs].
    - cbn [kind_fields] in H.
      destruct (struct_field_tokens_total (ci_kind c) (phantom_tokens (ti_unused ir)) (ti_codec ir) H)
        as (t & Ht).
      rewrite Ht. cbn [bind]. eauto.
    - cbn [kind_fields] in H.
      destruct (mapM_total (fun '(idx, c) =>
                              let* fields := enum_field_tokens s (ci_kind c) (ti_codec ir) in
                              Ok ((if ti_codec ir then codec_index idx else []) ++
                                  doc_tokens (ci_docs c) ++ [ci_name c] ++ fields ++ [","]))
                           (fun _ => True) vs) as (l & Hl & _).
      { intros [idx c] Hin. destruct (enum_field_tokens_total (ci_kind c) (ti_codec ir)) as (t & Ht).
        { intros f Hf. apply H. apply in_flat_map. exists (idx, c). split; [exact Hin|exact Hf]. }
        rewrite Ht. cbn [bind]. eauto. }
      rewrite Hl. cbn [bind]. eauto.
  Qed.

  Lemma module_tokens_S fuel' name es :
    module_tokens s (S fuel') name es =
    let* mods := mapM (fun h => module_tokens s fuel' h (under h es)) (child_names es) in
    let* tys := mapM (fun e => type_ir_tokens s (snd (snd e))) (here es) in
    Ok (["pub"; "mod"; name; "{"; "use"; "super"; ":"; ":"; s_root s; ";"] ++
        List.concat mods ++ List.concat tys ++ ["}"]).
  Proof. reflexivity. Qed.

  Lemma insert_str_In x : forall l h, In h (insert_str x l) -> h = x \/ In h l.
  Proof.
    induction l as [|y l IH]; intros h H; cbn [insert_str] in H.
    - destruct H as [<-|[]]. left; reflexivity.
    - destruct (String.compare x y).
      + right; exact H.
      + destruct H as [<-|H]; [left; reflexivity|right; exact H].
      + destruct H as [<-|H]; [right; left; reflexivity|].
        destruct (IH _ H) as [->|H']; [left; reflexivity|right; right; exact H'].
  Qed.

  Lemma child_names_In : forall (es : list entry) h,
    In h (child_names es) -> exists e a tl, In e es /\ fst e = h :: a :: tl.
  Proof.
    unfold child_names. induction es as [|e es IH]; intros h H; cbn [fold_right] in H; [destruct H|].
    destruct (fst e) as [|h' [|a tl]] eqn:E.
    - destruct (IH _ H) as (e' & a' & tl' & Hin & He). exists e', a', tl'. split; [right; exact Hin|exact He].
    - destruct (IH _ H) as (e' & a' & tl' & Hin & He). exists e', a', tl'. split; [right; exact Hin|exact He].
    - apply insert_str_In in H as [->|H].
      + exists e, a, tl. split; [left; reflexivity|exact E].
      + destruct (IH _ H) as (e' & a' & tl' & Hin & He). exists e', a', tl'. split; [right; exact Hin|exact He].
  Qed.

  Lemma under_In h (es : list entry) e' :
    In e' (under h es) -> exists e h', In e es /\ fst e = h' :: fst e' /\ snd e' = snd e.
  Proof.
    unfold under. intros H. apply in_flat_map in H as (e & Hin & H).
    destruct (fst e) as [|h' [|a tl]] eqn:E; try (destruct H; fail).
    destruct (String.eqb h h'); [|destruct H]. destruct H as [<-|[]].
    exists e, h'. split; [exact Hin|]. split; [exact E|reflexivity].
  Qed.

  Lemma module_tokens_total : forall fuel name (es : list entry),
    0 < fuel -> (forall e, In e es -> List.length (fst e) < fuel) ->
    (forall e, In e es -> ir_tokenizable (snd (snd e))) ->
    exists toks, module_tokens s fuel name es = Ok toks.
  Proof.
    induction fuel as [|fuel IH]; intros name es Hpos Hlen Hir; [lia|].
    rewrite module_tokens_S.
    destruct (mapM_total (fun h => module_tokens s fuel h (under h es)) (fun _ => True) (child_names es))
      as (mods & Hmods & _).
    { intros h Hh. destruct (child_names_In _ _ Hh) as (e & a & tl & Hin & He).
      pose proof (Hlen _ Hin) as Hl. rewrite He in Hl. cbn [List.length] in Hl.
      destruct (IH h (under h es)) as (toks & Ht).
      - lia.
      - intros e' He'. destruct (under_In _ _ _ He') as (e0 & h' & Hin0 & Hf & _).
        pose proof (Hlen _ Hin0) as Hl0. rewrite Hf in Hl0. cbn [List.length] in Hl0. lia.
      - intros e' He'. destruct (under_In _ _ _ He') as (e0 & h' & Hin0 & _ & Hs).
        rewrite Hs. apply Hir. exact Hin0.
      - eauto. }
    rewrite Hmods. cbn [bind].
    match goal with
    | |- context [mapM ?f (here es)] =>
        destruct (mapM_total f (fun _ => True) (here es)) as (tys & Htys & _)
    end.
    { intros e He. unfold here in He. apply filter_In in He as [He _].
      destruct (type_ir_tokens_total _ (Hir _ He)) as (t & Ht). eauto. }
    rewrite Htys. cbn [bind]. eauto.
  Qed.

  Lemma max_depth_le : forall (m : items) e, In e m -> List.length (fst e) <= max_depth m.
  Proof.
    unfold max_depth. induction m as [|x m IH]; intros e H; [destruct H|]. cbn [fold_right].
    destruct H as [<-|H]; [lia|]. specialize (IH _ H). lia.
  Qed.

  Lemma emit_module_total (m : items) :
    (forall p id ir, In (p, (id, ir)) m -> ir_tokenizable ir) -> exists toks, emit_module s m = Ok toks.
  Proof.
    intros H. unfold emit_module. apply module_tokens_total.
    - lia.
    - intros e He. apply in_map_iff in He as (x & <- & Hx). cbn [fst].
      pose proof (max_depth_le _ _ Hx). lia.
    - intros e He. apply in_map_iff in He as ([p [id ir]] & <- & Hx). cbn [fst snd]. eapply H; eauto.
  Qed.
End EmitTotal.

(** ** [types_equal] terminates on closed registries: every descent adds a
    fresh id to the visited set of the left type *)
Definition compare_fields_with (recurse : N -> N -> vstate -> result (bool * vstate))
  (ap' bp' : glist) (fa fb : field) (st : vstate) : result (bool * vstate) :=
  if negb (opt_str_eqb (f_name fa) (f_name fb)) then Ok (false, st)
  else
    let skipped_or_wrapped :=
      match index_for_type_id ap' (f_ty fa), index_for_type_id bp' (f_ty fb) with
      | Some _, Some _ => false
      | _, _ => true
      end in
    match f_type_name fa, f_type_name fb with
    | Some na, Some nb =>
        if skipped_or_wrapped then recurse (f_ty fa) (f_ty fb) st
        else Ok (opt_nat_eqb (index_for_type_name ap' na) (index_for_type_name bp' nb), st)
    | _, _ => recurse (f_ty fa) (f_ty fb) st
    end.

Definition fields_equal_with (recurse : N -> N -> vstate -> result (bool * vstate))
  (ap' bp' : glist) (fa fb : list field) (st : vstate) : result (bool * vstate) :=
  if negb (Nat.eqb (List.length fa) (List.length fb)) then Ok (false, st)
  else all2 (compare_fields_with recurse ap' bp') fa fb st.

Definition teq_def (recurse : N -> N -> vstate -> result (bool * vstate))
  (ap' bp' : glist) (ta tb : ty) (st : vstate) : result (bool * vstate) :=
  match t_def ta, t_def tb with
  | TDComposite fa, TDComposite fb => fields_equal_with recurse ap' bp' fa fb st
  | TDVariant va, TDVariant vb =>
      if negb (Nat.eqb (List.length va) (List.length vb)) then Ok (false, st)
      else all2 (fun x y st =>
                   if String.eqb (v_name x) (v_name y) && N.eqb (v_index x) (v_index y)
                   then fields_equal_with recurse ap' bp' (v_fields x) (v_fields y) st
                   else Ok (false, st)) va vb st
  | TDSequence x, TDSequence y => recurse x y st
  | TDArray la x, TDArray lb y =>
      if N.eqb la lb then recurse x y st else Ok (false, st)
  | TDTuple xs, TDTuple ys =>
      if negb (Nat.eqb (List.length xs) (List.length ys)) then Ok (false, st)
      else all2 recurse xs ys st
  | TDPrimitive p, TDPrimitive q => Ok (prim_eqb p q, st)
  | TDCompact x, TDCompact y => recurse x y st
  | TDBitSeq sa oa, TDBitSeq sb ob =>
      let* o := recurse oa ob st in
      let* s' := recurse sa sb (snd o) in
      Ok (fst o && fst s', snd s')
  | _, _ => Ok (false, st)
  end.

Lemma teq_S r fuel' a ap b bp st :
  teq r (S fuel') a ap b bp st =
  if N.eqb a b then Ok (true, st)
  else
    let seen_a := mem_N a (fst st) in
    let seen_b := mem_N b (snd st) in
    let st := ((if seen_a then fst st else a :: fst st),
               (if seen_b then snd st else b :: snd st)) in
    if negb (Bool.eqb seen_a seen_b) then Ok (false, st)
    else if seen_a && seen_b then Ok (true, st)
    else
      let a_idx := index_for_type_id ap a in
      let b_idx := index_for_type_id bp b in
      match resolve r a, resolve r b with
      | None, _ => Panic "type a should exist in registry"
      | _, None => Panic "type b should exist in registry"
      | Some ta, Some tb =>
        if opt_nat_eqb a_idx b_idx then Ok (true, st)
        else if negb (path_eqb (t_path ta) (t_path tb)) then Ok (false, st)
        else if negb (Nat.eqb (List.length (param_ids ta)) (List.length (param_ids tb))) then Ok (false, st)
        else
          teq_def (fun x y st => teq r fuel' x (glist_extend ap (t_params ta)) y
                                     (glist_extend bp (t_params tb)) st)
                  (glist_extend ap (t_params ta)) (glist_extend bp (t_params tb)) ta tb st
      end.
Proof. reflexivity. Qed.

Section TeqTotal.
  Variable r : registry.
  Hypothesis Hcl : closed r.

  Definition vgood (st : vstate) : Prop := good r (fst st) /\ good r (snd st).

  (** a state transformer that succeeds, keeps the invariant and only grows the left set *)
  Definition tspec (fuel : nat) (f : vstate -> result (bool * vstate)) : Prop :=
    forall st, vgood st -> List.length r + 1 <= fuel + List.length (fst st) ->
    exists res, f st = Ok res /\ vgood (snd res) /\ List.length (fst st) <= List.length (fst (snd res)).

  Lemma tspec_ret fuel b : tspec fuel (fun st => Ok (b, st)).
  Proof. intros st Hg Hl. exists (b, st). auto. Qed.

  Lemma all2_spec {A} fuel (Q : A -> Prop) f :
    (forall x y, Q x -> Q y -> tspec fuel (f x y)) ->
    forall la lb, Forall Q la -> Forall Q lb -> tspec fuel (all2 f la lb).
  Proof.
    intros Hf. induction la as [|x la IH]; intros lb Hla Hlb st Hg Hl.
    - exists (true, st). destruct lb; auto.
    - destruct lb as [|y lb]; [exists (true, st); auto|].
      inversion Hla as [|x0 l0 Qx Hla']; subst. inversion Hlb as [|y0 l1 Qy Hlb']; subst.
      cbn [all2]. destruct (Hf x y Qx Qy st Hg Hl) as (res & Hres & Hg' & Hle).
      rewrite Hres. cbn [bind]. destruct (fst res).
      + destruct (IH lb Hla' Hlb' (snd res) Hg') as (res2 & Hres2 & Hg2 & Hle2); [lia|].
        exists res2. split; [exact Hres2|]. split; [exact Hg2|lia].
      + exists (false, snd res). auto.
  Qed.

  Definition rspec (fuel : nat) (recurse : N -> N -> vstate -> result (bool * vstate)) : Prop :=
    forall x y, in_reg r x -> in_reg r y -> tspec fuel (recurse x y).

  Definition field_in (f : field) : Prop := in_reg r (f_ty f).

  Lemma compare_fields_spec fuel recurse ap' bp' fa fb :
    rspec fuel recurse -> field_in fa -> field_in fb ->
    tspec fuel (compare_fields_with recurse ap' bp' fa fb).
  Proof.
    intros Hr Ha Hb. unfold compare_fields_with.
    destruct (negb (opt_str_eqb (f_name fa) (f_name fb))); [apply tspec_ret|]. cbv zeta.
    destruct (f_type_name fa) as [na|]; [|apply Hr; assumption].
    destruct (f_type_name fb) as [nb|]; [|apply Hr; assumption].
    destruct (match index_for_type_id ap' (f_ty fa), index_for_type_id bp' (f_ty fb) with
              | Some _, Some _ => false
              | _, _ => true
              end); [apply Hr; assumption|apply tspec_ret].
  Qed.

  Lemma fields_equal_spec fuel recurse ap' bp' fa fb :
    rspec fuel recurse -> Forall field_in fa -> Forall field_in fb ->
    tspec fuel (fields_equal_with recurse ap' bp' fa fb).
  Proof.
    intros Hr Ha Hb. unfold fields_equal_with.
    destruct (negb (Nat.eqb (List.length fa) (List.length fb))); [apply tspec_ret|].
    apply (all2_spec fuel field_in); [|exact Ha|exact Hb].
    intros x y Hx Hy. apply compare_fields_spec; assumption.
  Qed.

  Lemma def_ids_in id t : resolve r id = Some t -> forall c, In c (def_ids (t_def t)) -> in_reg r c.
  Proof. intros Ht c Hc. eapply Hcl; [exact Ht|]. apply in_or_app; right; exact Hc. Qed.

  Lemma teq_def_spec fuel recurse ap' bp' a b ta tb :
    rspec fuel recurse -> resolve r a = Some ta -> resolve r b = Some tb ->
    tspec fuel (teq_def recurse ap' bp' ta tb).
  Proof.
    intros Hr Ha Hb. pose proof (def_ids_in _ _ Ha) as Ia. pose proof (def_ids_in _ _ Hb) as Ib.
    unfold teq_def.
    destruct (t_def ta) as [fa|va|x|la x|xs|p|x|sa oa]; destruct (t_def tb) as [fb|vb|y|lb y|ys|q|y|sb ob];
      try apply tspec_ret; cbn [def_ids] in Ia, Ib.
    - apply fields_equal_spec; [exact Hr| |]; apply Forall_forall; intros f Hf; unfold field_in;
        [apply Ia|apply Ib]; apply in_map; exact Hf.
    - destruct (negb (Nat.eqb (List.length va) (List.length vb))); [apply tspec_ret|].
      apply (all2_spec fuel (fun v => Forall field_in (v_fields v))).
      + intros v w Hv Hw. destruct (String.eqb (v_name v) (v_name w) && N.eqb (v_index v) (v_index w)); [|apply tspec_ret].
        apply fields_equal_spec; assumption.
      + apply Forall_forall. intros v Hv. apply Forall_forall. intros f Hf. apply Ia.
        apply in_flat_map. exists v. split; [exact Hv|apply in_map; exact Hf].
      + apply Forall_forall. intros v Hv. apply Forall_forall. intros f Hf. apply Ib.
        apply in_flat_map. exists v. split; [exact Hv|apply in_map; exact Hf].
    - apply Hr; [apply Ia|apply Ib]; left; reflexivity.
    - destruct (N.eqb la lb); [|apply tspec_ret]. apply Hr; [apply Ia|apply Ib]; left; reflexivity.
    - destruct (negb (Nat.eqb (List.length xs) (List.length ys))); [apply tspec_ret|].
      apply (all2_spec fuel (in_reg r)); [exact Hr| |]; apply Forall_forall; auto.
    - apply Hr; [apply Ia|apply Ib]; left; reflexivity.
    - intros st Hg Hl.
      destruct (Hr oa ob (Ia _ (or_intror (or_introl eq_refl))) (Ib _ (or_intror (or_introl eq_refl))) st Hg Hl)
        as (o & Ho & Hgo & Hlo).
      rewrite Ho. cbn [bind].
      destruct (Hr sa sb (Ia _ (or_introl eq_refl)) (Ib _ (or_introl eq_refl)) (snd o) Hgo) as (s' & Hs & Hgs & Hls);
        [lia|].
      rewrite Hs. cbn [bind]. eexists; split; [reflexivity|]. cbn [snd fst]. split; [exact Hgs|lia].
  Qed.

  Lemma teq_total : forall fuel a ap b bp, in_reg r a -> in_reg r b -> tspec fuel (teq r fuel a ap b bp).
  Proof.
    induction fuel as [|fuel IH]; intros a ap b bp Ha Hb st Hg Hl.
    - destruct Hg as [Hg _]. pose proof (good_length _ _ Hg). lia.
    - rewrite teq_S. destruct (N.eqb a b); [exists (true, st); auto|]. cbv zeta.
      destruct Hg as [Hga Hgb].
      destruct (mem_N a (fst st)) eqn:Ea; destruct (mem_N b (snd st)) eqn:Eb; cbn [negb Bool.eqb andb].
      + eexists; split; [reflexivity|]. cbn [fst snd]. split; [split; assumption|lia].
      + eexists; split; [reflexivity|]. cbn [fst snd]. split; [|lia].
        split; [assumption|apply good_cons; assumption].
      + eexists; split; [reflexivity|]. cbn [fst snd]. split; [|cbn [List.length]; lia].
        split; [apply good_cons; assumption|assumption].
      + destruct (resolve_in_reg _ _ Ha) as (ta & Hta). destruct (resolve_in_reg _ _ Hb) as (tb & Htb).
        rewrite Hta, Htb.
        assert (Hg1 : vgood (a :: fst st, b :: snd st)).
        { split; cbn [fst snd]; apply good_cons; assumption. }
        destruct (opt_nat_eqb (index_for_type_id ap a) (index_for_type_id bp b)).
        { eexists; split; [reflexivity|]. cbn [fst snd]. split; [exact Hg1|cbn [List.length]; lia]. }
        destruct (negb (path_eqb (t_path ta) (t_path tb))).
        { eexists; split; [reflexivity|]. cbn [fst snd]. split; [exact Hg1|cbn [List.length]; lia]. }
        destruct (negb (Nat.eqb (List.length (param_ids ta)) (List.length (param_ids tb)))).
        { eexists; split; [reflexivity|]. cbn [fst snd]. split; [exact Hg1|cbn [List.length]; lia]. }
        destruct (teq_def_spec fuel
                    (fun x y st0 => teq r fuel x (glist_extend ap (t_params ta)) y
                                        (glist_extend bp (t_params tb)) st0)
                    (glist_extend ap (t_params ta)) (glist_extend bp (t_params tb)) a b ta tb)
          with (st := (a :: fst st, b :: snd st)) as (res & Hres & Hgr & Hlr); try assumption.
        * intros x y Hx Hy. apply IH; assumption.
        * cbn [fst List.length]. lia.
        * exists res. split; [exact Hres|]. split; [exact Hgr|]. cbn [fst List.length] in Hlr. lia.
  Qed.

  Theorem types_equal_total a b : in_reg r a -> in_reg r b -> exists x, types_equal r a b = Ok x.
  Proof.
    intros Ha Hb. unfold types_equal, types_equal_res.
    destruct (teq_total (S (S (List.length r))) a glist_empty b glist_empty Ha Hb ([], []))
      as (res & Hres & _).
    - split; apply good_nil.
    - cbn [fst List.length]. lia.
    - rewrite Hres. cbn [bind]. eauto.
  Qed.
End TeqTotal.

(** ** C10_total *)
Theorem generate_total_types_equal r s rank :
  generable r s rank ->
  (exists m, generate r s (types_equal r) = Ok m /\ exists toks, emit_module s m = Ok toks) \/
  (exists p, generate r s (types_equal r) = Err (EDuplicatePath p)).
Proof.
  intros Hgen.
  destruct (generate_total r s rank Hgen (types_equal r)) as [(m & Hm & Hgood)|Hdup].
  - intros a b. apply types_equal_total. exact (proj1 (proj1 (proj2 Hgen))).
  - left. exists m. split; [exact Hm|]. apply emit_module_total.
    intros p id ir Hin. exact (proj2 (Hgood _ _ _ Hin)).
  - right. exact Hdup.
Qed.

Theorem generate_total_wf r s :
  wf_regb r = true -> supportedb r s = true ->
  (exists m, generate r s (types_equal r) = Ok m /\ exists toks, emit_module s m = Ok toks) \/
  (exists p, generate r s (types_equal r) = Err (EDuplicatePath p)).
Proof.
  intros Hw Hs. destruct (wf_generable r s Hw Hs) as (rank & Hgen).
  exact (generate_total_types_equal r s rank Hgen).
Qed.

Theorem resolve_total_wf r s :
  wf_regb r = true -> supportedb r s = true ->
  forall id, in_reg r id -> forall parents orig is_field,
  exists t, resolve_rec r s (fuel0 r) id is_field parents orig = Ok t /\
            exists toks, tp_tokens (alloc_tokens (s_alloc s)) t = Ok toks.
Proof.
  intros Hw Hs. destruct (wf_generable r s Hw Hs) as (rank & Hgen).
  exact (resolve_total r s rank (proj1 (proj2 Hgen))).
Qed.

Theorem create_type_ir_total_tokenizable r s rank :
  generable r s rank -> forall id t flat, resolve r id = Some t ->
  exists o, create_type_ir r s t flat = Ok o /\ forall ir, o = Some ir -> ir_tokenizable ir.
Proof. intros Hgen id t flat. apply (create_type_ir_total r s rank Hgen). Qed.

Lemma ir_tokenizable_no256 ir : ir_tokenizable ir -> ir_no256 ir.
Proof. intros H f Hf. apply tokenizable_no256. exact (H f Hf). Qed.

Theorem create_type_ir_total_pinned r s rank :
  generable r s rank -> forall id t flat, resolve r id = Some t ->
  exists o, create_type_ir r s t flat = Ok o /\ forall ir, o = Some ir -> ir_no256 ir.
Proof.
  intros Hgen id t flat Hr.
  destruct (create_type_ir_total r s rank Hgen id t flat Hr) as (o & Ho & Hk).
  exists o. split; [exact Ho|]. intros ir Hir. apply ir_tokenizable_no256. exact (Hk ir Hir).
Qed.

(** ** single fault: mixed named / unnamed fields *)
Lemma fault_mixed_struct r s t flat fs nm :
  t_def t = TDComposite fs -> path_ident (t_path t) = Some nm -> ident_okb nm = true ->
  all_named fs || all_unnamed fs = false ->
  create_type_ir r s t flat = Err EInvalidFields.
Proof.
  intros Hd Hp Hn Hm. rewrite create_type_ir_eq, Hd. cbn [is_composite_or_variant negb].
  rewrite Hp. unfold parse_ident. rewrite Hn. cbn [bind]. unfold create_composite_ir_kind.
  destruct fs as [|f fs]; [discriminate Hm|]. rewrite Hm. reflexivity.
Qed.

Lemma variants_ir_mixed r s params v vs2 : forall vs1 unused l1 u1,
  variants_ir r s params vs1 unused = Ok (l1, u1) ->
  ident_okb (v_name v) = true -> all_named (v_fields v) || all_unnamed (v_fields v) = false ->
  variants_ir r s params (vs1 ++ v :: vs2) unused = Err EInvalidFields.
Proof.
  induction vs1 as [|w vs1 IH]; intros unused l1 u1 H1 Hn Hm.
  - cbn [app]. rewrite variants_ir_cons. unfold parse_ident. rewrite Hn. cbn [bind].
    unfold create_composite_ir_kind. destruct (v_fields v) as [|f fs]; [discriminate Hm|].
    rewrite Hm. reflexivity.
  - cbn [app]. rewrite variants_ir_cons in H1 |- *.
    apply bind_ok in H1 as (vn & Hvn & H1). apply bind_ok in H1 as (ku & Hku & H1).
    apply bind_ok in H1 as ([l' u'] & Hrest & H1).
    rewrite Hvn. cbn [bind]. rewrite Hku. cbn [bind].
    rewrite (IH _ _ _ Hrest Hn Hm). reflexivity.
Qed.

Lemma fault_mixed_variant r s t flat vs1 v vs2 nm l1 u1 :
  t_def t = TDVariant (vs1 ++ v :: vs2) -> path_ident (t_path t) = Some nm -> ident_okb nm = true ->
  variants_ir r s (params_from_scale_info (t_params t)) vs1 (params_from_scale_info (t_params t))
    = Ok (l1, u1) ->
  ident_okb (v_name v) = true -> all_named (v_fields v) || all_unnamed (v_fields v) = false ->
  create_type_ir r s t flat = Err EInvalidFields.
Proof.
  intros Hd Hp Hn H1 Hv Hm. rewrite create_type_ir_eq, Hd. cbn [is_composite_or_variant negb].
  rewrite Hp. unfold parse_ident at 1. rewrite Hn. cbn [bind].
  rewrite (variants_ir_mixed r s _ v vs2 vs1 _ l1 u1 H1 Hv Hm). reflexivity.
Qed.
