(** Totality of generation on the class [generable] (C10_total): the IR of
    every entry is built, the recursive-derive flattening terminates, the
    generation loop ends in [Ok] or the duplicate-path error, emission of an
    [Ok] result succeeds, and [types_equal] terminates on closed registries. *)
From Coq Require Import List NArith String Ascii Bool Lia Arith.
From V Require Import Base.Strings Base.Result Model.Registry Model.Settings Model.Subst
  Model.TypePath Model.Derives Model.Generate Model.Emit Model.Equal Model.WellFormed
  Proofs.GenProofs Proofs.ResolveTotal.
Import ListNotations.
Open Scope string_scope. Open Scope list_scope.

(** ** [create_type_ir] with the variant loop named *)
Definition variants_ir (r : registry) (s : settings) (params : list tparam_ir)
  : list variant -> list tparam_ir -> result (list (N * composite_ir) * list tparam_ir) :=
  fix go (l : list variant) (unused : list tparam_ir) :=
    match l with
    | [] => Ok ([], unused)
    | v :: l' =>
        let* vn := parse_ident (v_name v) in
        let* ku := create_composite_ir_kind r s (v_fields v) params unused in
        let* rest := go l' (snd ku) in
        Ok ((v_index v, mk_ci vn (fst ku) (docs_from_scale_info s (v_docs v))) :: fst rest,
            snd rest)
    end.

Lemma variants_ir_cons r s params v l unused :
  variants_ir r s params (v :: l) unused =
  let* vn := parse_ident (v_name v) in
  let* ku := create_composite_ir_kind r s (v_fields v) params unused in
  let* rest := variants_ir r s params l (snd ku) in
  Ok ((v_index v, mk_ci vn (fst ku) (docs_from_scale_info s (v_docs v))) :: fst rest, snd rest).
Proof. reflexivity. Qed.

Lemma create_type_ir_eq r s t flat :
  create_type_ir r s t flat =
  if negb (is_composite_or_variant (t_def t)) then Ok None
  else
    let params := params_from_scale_info (t_params t) in
    match path_ident (t_path t) with
    | None => Panic "Structs and enums should have a name"
    | Some nm =>
      let* name := parse_ident nm in
      let docs := docs_from_scale_info s (t_docs t) in
      let* kcu :=
        match t_def t with
        | TDComposite fs =>
            let* ku := create_composite_ir_kind r s fs params params in
            Ok (KStruct (mk_ci name (fst ku) docs), could_derive_as_compact (fst ku), snd ku)
        | TDVariant vs =>
            let* vu := variants_ir r s params vs params in
            Ok (KEnum name docs (fst vu), false, snd vu)
        | _ => Panic "unreachable"
        end in
      let '(kind, cdac, unused) := kcu in
      let* d := resolve_derives_for_type flat t in
      let d := if cdac then add_as_compact s d else d in
      Ok (Some (mk_ti params unused d (s_codec s) kind))
    end.
Proof. reflexivity. Qed.

Lemma last_In {A} (d : A) : forall p, p <> [] -> In (last p d) p.
Proof.
  induction p as [|a p IH]; intros Hp; [congruence|].
  destruct p as [|b p']; [left; reflexivity|].
  change (last (a :: b :: p') d) with (last (b :: p') d). right. apply IH. discriminate.
Qed.

Lemma syn_key_ok p : p <> [] -> forallb ident_okb p = true -> syn_type_path_key p = Ok (path_key p).
Proof.
  intros Hp H. destruct p as [|a p']; [congruence|]. unfold syn_type_path_key. rewrite H. reflexivity.
Qed.

Lemma In_resolve (r : registry) i t : In (i, t) r -> exists id, resolve r id = Some t.
Proof.
  intros H. apply In_nth_error in H as (k & Hk). exists (N.of_nat k).
  unfold resolve. rewrite Nat2N.id, Hk. reflexivity.
Qed.

Lemma ids_consistent_In r id t : ids_consistent r = true -> In (id, t) r -> resolve r id = Some t.
Proof.
  unfold ids_consistent. intros Hc Hin.
  assert (G : forall (l : registry) (i : N),
    (fix go (i : N) (l : registry) : bool :=
       match l with [] => true | (id, _) :: l' => N.eqb id i && go (i + 1)%N l' end) i l = true ->
    In (id, t) l -> exists k, id = (i + N.of_nat k)%N /\ nth_error l k = Some (id, t)).
  { induction l as [|[id0 t0] l IH]; intros i Hgo H; [destruct H|].
    apply andb_prop in Hgo as [E Hgo]. apply N.eqb_eq in E. destruct H as [H|H].
    - inversion H; subst. exists 0%nat. split; [lia|reflexivity].
    - destruct (IH _ Hgo H) as (k & Hk & Hn). exists (S k). split; [lia|exact Hn]. }
  destruct (G r 0%N Hc Hin) as (k & Hk & Hn). unfold resolve.
  replace (N.to_nat id) with k by lia. rewrite Hn. reflexivity.
Qed.

(** ** visited sets: duplicate free lists of valid ids *)
Definition good (r : registry) (vis : list N) : Prop := NoDup vis /\ forall x, In x vis -> in_reg r x.

Lemma good_length r vis : good r vis -> List.length vis <= List.length r.
Proof.
  intros [Hnd Hin]. replace (List.length r) with (List.length (reg_ids r)).
  - apply NoDup_incl_length; [exact Hnd|]. intros x Hx. apply in_reg_ids. auto.
  - unfold reg_ids. rewrite map_length, seq_length. reflexivity.
Qed.

Lemma good_cons r vis x : good r vis -> in_reg r x -> mem_N x vis = false -> good r (x :: vis).
Proof.
  intros [Hnd Hin] Hx Hm. split.
  - constructor; [|exact Hnd]. intros H. apply mem_N_In in H. congruence.
  - intros y [<-|Hy]; auto.
Qed.

Lemma good_nil r : good r [].
Proof. split; [constructor|intros x []]. Qed.

(** ** [collect_type_ids] terminates on closed registries *)
Definition collect_list (f : N -> list N -> result (list N)) : list N -> list N -> result (list N) :=
  fix go (l : list N) (vis : list N) :=
    match l with
    | [] => Ok vis
    | c :: l' => let* vis' := f c vis in go l' vis'
    end.

Lemma collect_ids_S fuel' r id visited :
  collect_ids (S fuel') r id visited =
  if mem_N id visited then Ok visited
  else match resolve r id with
       | None => Panic "Should contain this id, if Registry not corrupted"
       | Some t => collect_list (collect_ids fuel' r) (collect_children t) (id :: visited)
       end.
Proof. reflexivity. Qed.

Lemma collect_children_incl t c : In c (collect_children t) -> In c (param_ids t ++ def_ids (t_def t)).
Proof.
  unfold collect_children. intros H. apply in_app_or in H. apply in_or_app.
  destruct H as [H|H]; [left; exact H|right]. destruct (t_def t); try exact H. destruct H.
Qed.

Lemma collect_ids_total r (Hcl : closed r) : forall fuel id vis,
  good r vis -> in_reg r id -> List.length r + 1 <= fuel + List.length vis ->
  exists vis', collect_ids fuel r id vis = Ok vis' /\ good r vis' /\
               List.length vis <= List.length vis'.
Proof.
  induction fuel as [|fuel IH]; intros id vis Hg Hid Hlen.
  - pose proof (good_length _ _ Hg). lia.
  - rewrite collect_ids_S. destruct (mem_N id vis) eqn:Em; [exists vis; auto|].
    destruct (resolve_in_reg _ _ Hid) as (t & Ht). rewrite Ht.
    assert (Hch : forall c, In c (collect_children t) -> in_reg r c).
    { intros c Hc. eapply Hcl; [exact Ht|]. apply collect_children_incl; exact Hc. }
    pose proof (good_cons _ _ _ Hg Hid Em) as Hg1.
    assert (Hlen1 : List.length r + 1 <= fuel + List.length (id :: vis)) by (cbn [List.length]; lia).
    assert (Hle1 : List.length vis <= List.length (id :: vis)) by (cbn [List.length]; lia).
    revert Hch Hg1 Hlen1 Hle1. generalize (id :: vis) as vis1. generalize (collect_children t) as l.
    induction l as [|c l IHl]; intros vis1 Hch Hg1 Hlen1 Hle1; cbn [collect_list].
    + exists vis1. auto.
    + destruct (IH c vis1 Hg1 (Hch c (or_introl eq_refl)) Hlen1) as (vis2 & H2 & Hg2 & Hle2).
      rewrite H2. cbn [bind]. apply IHl.
      * intros c' Hc'. apply Hch. right; exact Hc'.
      * exact Hg2.
      * lia.
      * lia.
Qed.

Lemma collect_type_ids_total r id : closed r -> in_reg r id -> exists ids, collect_type_ids r id = Ok ids.
Proof.
  intros Hcl Hid. unfold collect_type_ids.
  destruct (collect_ids_total r Hcl (S (List.length r)) id [] (good_nil r) Hid) as (v & Hv & _).
  { cbn [List.length]. lia. }
  eauto.
Qed.

(** ** [flatten_recursive_derives] *)
Definition flatten_go (dr : derives_registry) (r : registry)
  : list (N * option string) -> list (N * derives) -> result (list (N * derives)) :=
  fix go (l : list (N * option string)) (acc : list (N * derives)) :=
    match l with
    | [] => Ok acc
    | (id, None) :: l' => go l' acc
    | (id, Some k) :: l' =>
        match kmap_get (dr_recursive dr) k with
        | None => go l' acc
        | Some d =>
            let* ids := collect_type_ids r id in
            go l' (acc ++ map (fun i => (i, d)) ids)
        end
    end.

Definition flatten_key (e : N * ty) : result (N * option string) :=
  let '(id, t) := e in
  match t_path t with
  | [] => Ok (id, None)
  | p => let* k := syn_type_path_key p in Ok (id, Some k)
  end.

Lemma flatten_eq dr r :
  flatten dr r =
  match dr_recursive dr with
  | [] => Ok (mk_flat (dr_default dr) (flat_of_specific (dr_specific dr)))
  | _ =>
    let* keys := mapM flatten_key r in
    let key_of (id : N) : option string :=
      match find (fun e => N.eqb (fst e) id) keys with Some (_, k) => k | None => None end in
    let* acc := flatten_go dr r keys [] in
    let spec :=
      fold_left (fun m '(id, d) =>
                   match key_of id with
                   | Some k => smap_extend m k d
                   | None => m
                   end) acc (flat_of_specific (dr_specific dr)) in
    Ok (mk_flat (dr_default dr) spec)
  end.
Proof. reflexivity. Qed.

Lemma flatten_total dr r :
  ids_consistent r = true -> closed r -> entries_ok flat_entryb r ->
  exists flat, flatten dr r = Ok flat.
Proof.
  intros Hids Hcl Hfl. rewrite flatten_eq. destruct (dr_recursive dr) as [|x0 rec] eqn:Erec; [eauto|].
  destruct (mapM_total flatten_key (fun x => in_reg r (fst x)) r) as (keys & Hkeys & Pkeys).
  { intros [id t] Hin. pose proof (ids_consistent_In _ _ _ Hids Hin) as Hr.
    pose proof (Hfl _ _ Hr) as Hf. unfold flat_entryb in Hf. unfold flatten_key.
    destruct (t_path t) as [|a p'] eqn:Ep.
    - eexists; split; [reflexivity|]. cbn [fst]. eapply resolve_some_in_reg; eauto.
    - rewrite (syn_key_ok (a :: p')) by (congruence || exact Hf). cbn [bind].
      eexists; split; [reflexivity|]. cbn [fst]. eapply resolve_some_in_reg; eauto. }
  rewrite Hkeys. cbn [bind].
  assert (Hgo : forall l acc, Forall (fun x => in_reg r (fst x)) l ->
            exists acc', flatten_go dr r l acc = Ok acc').
  { induction l as [|[id [k|]] l IH]; intros acc Hl; cbn [flatten_go].
    - eauto.
    - inversion Hl as [|x l0 Hx Hl']; subst. cbn [fst] in Hx.
      destruct (kmap_get (dr_recursive dr) k); [|apply IH; exact Hl'].
      destruct (collect_type_ids_total r id Hcl Hx) as (ids & Hids'). rewrite Hids'. cbn [bind].
      apply IH; exact Hl'.
    - inversion Hl; subst. apply IH; assumption. }
  destruct (Hgo keys [] Pkeys) as (acc & Hacc). rewrite Hacc. cbn [bind]. eauto.
Qed.

(** ** IR construction is total *)
Section GenTotal.
  Variable r : registry.
  Variable s : settings.
  Variable rank : N -> nat.
  Hypothesis Hgen : generable r s rank.

  Let Hres : resolvable r s rank := proj1 (proj2 Hgen).

  Lemma field_ir_of_total params f :
    in_reg r (f_ty f) ->
    exists fi, field_ir_of r s params f = Ok fi /\ no256 (fi_path fi) = true.
  Proof.
    intros Hin. unfold field_ir_of, resolve_field_type_path.
    destruct (resolve_rec_total r s rank Hres (fuel0 r) (f_ty f) true params (f_type_name f) Hin)
      as (t & Ht & Hn).
    { pose proof Hres as (_ & (_ & Hb) & _). pose proof (Hb _ Hin). unfold fuel0. lia. }
    rewrite Ht. cbn [bind]. eexists; split; [reflexivity|exact Hn].
  Qed.

  Lemma cck_total fs params unused :
    fields_okb fs = true -> (forall f, In f fs -> in_reg r (f_ty f)) ->
    exists k u, create_composite_ir_kind r s fs params unused = Ok (k, u) /\
                forall f, In f (ckind_fields k) -> no256 (fi_path f) = true.
  Proof.
    intros Hok Hin. destruct fs as [|f0 fs0].
    { exists CNoFields, unused. split; [reflexivity|intros f []]. }
    unfold create_composite_ir_kind. remember (f0 :: fs0) as fs eqn:Efs. clear Efs.
    unfold fields_okb in Hok. apply andb_prop in Hok as [Hna Hnm]. rewrite Hna. cbn [negb].
    unfold field_names_okb in Hnm. rewrite forallb_forall in Hnm.
    destruct (all_named fs) eqn:En.
    - unfold all_named in En. rewrite forallb_forall in En.
      destruct (mapM_total (fun f => let* id := parse_ident (match f_name f with Some n => n | None => "" end) in
                                     let* fi := field_ir_of r s params f in Ok (id, fi))
                           (fun x => no256 (fi_path (snd x)) = true) fs) as (l & Hl & Pl).
      { intros f Hf. specialize (En _ Hf). specialize (Hnm _ Hf).
        destruct (f_name f) as [n|]; [|discriminate]. unfold parse_ident. rewrite Hnm. cbn [bind].
        destruct (field_ir_of_total params f (Hin _ Hf)) as (fi & Hfi & Pfi). rewrite Hfi. cbn [bind].
        eexists; split; [reflexivity|exact Pfi]. }
      rewrite Hl. cbn [bind]. eexists; eexists; split; [reflexivity|].
      intros f Hf. cbn [ckind_fields] in Hf. apply in_map_iff in Hf as (x & <- & Hx).
      rewrite Forall_forall in Pl. auto.
    - destruct (mapM_total (field_ir_of r s params) (fun x => no256 (fi_path x) = true) fs) as (l & Hl & Pl).
      { intros f Hf. apply field_ir_of_total. auto. }
      rewrite Hl. cbn [bind]. eexists; eexists; split; [reflexivity|].
      intros f Hf. cbn [ckind_fields] in Hf. rewrite Forall_forall in Pl. auto.
  Qed.

  Lemma variants_ir_total params : forall vs unused,
    (forall v, In v vs -> ident_okb (v_name v) = true /\ fields_okb (v_fields v) = true /\
                          forall f, In f (v_fields v) -> in_reg r (f_ty f)) ->
    exists l u, variants_ir r s params vs unused = Ok (l, u) /\
                forall f, In f (flat_map (fun v => ckind_fields (ci_kind (snd v))) l) ->
                          no256 (fi_path f) = true.
  Proof.
    induction vs as [|v vs IH]; intros unused Hvs.
    - exists [], unused. split; [reflexivity|intros f []].
    - rewrite variants_ir_cons. destruct (Hvs v (or_introl eq_refl)) as (Hn & Hf & Hin).
      unfold parse_ident. rewrite Hn. cbn [bind].
      destruct (cck_total (v_fields v) params unused Hf Hin) as (k & u & Hk & Pk).
      rewrite Hk. cbn [bind fst snd].
      destruct (IH u) as (l & u' & Hl & Pl). { intros v' Hv'. apply Hvs. right; exact Hv'. }
      rewrite Hl. cbn [bind fst snd]. eexists; eexists; split; [reflexivity|].
      intros f Hfi. cbn [flat_map snd ci_kind] in Hfi. apply in_app_or in Hfi as [Hfi|Hfi]; auto.
  Qed.

  Lemma create_type_ir_total id t flat :
    resolve r id = Some t ->
    exists o, create_type_ir r s t flat = Ok o /\ forall ir, o = Some ir -> ir_no256 ir.
  Proof.
    intros Hr. pose proof Hgen as (_ & _ & Hitem & _). pose proof Hres as (Hcl & _).
    pose proof (Hitem _ _ Hr) as Hi. unfold item_entryb in Hi.
    rewrite create_type_ir_eq.
    destruct (is_composite_or_variant (t_def t)) eqn:Ecv; cbn [negb];
      [|exists None; split; [reflexivity|discriminate]].
    assert (Hp : t_path t <> [] /\ forallb ident_okb (t_path t) = true /\ def_fields_okb (t_def t) = true).
    { destruct (t_def t); try discriminate Ecv; apply andb_prop in Hi as [Hi1 Hi2];
        (destruct (t_path t); [discriminate|]); (split; [discriminate|split; assumption]). }
    destruct Hp as (Hne & Hid & Hdf).
    assert (Hpi : path_ident (t_path t) = Some (last (t_path t) "")).
    { unfold path_ident. destruct (t_path t); [congruence|reflexivity]. }
    rewrite Hpi. unfold parse_ident at 1.
    assert (Hl : ident_okb (last (t_path t) "") = true).
    { rewrite forallb_forall in Hid. apply Hid. apply last_In. exact Hne. }
    rewrite Hl. cbn [bind].
    assert (Hd : exists d, resolve_derives_for_type flat t = Ok d).
    { unfold resolve_derives_for_type. rewrite (syn_key_ok _ Hne Hid). cbn [bind]. eauto. }
    destruct Hd as (d & Hd).
    assert (Hids : forall c, In c (def_ids (t_def t)) -> in_reg r c).
    { intros c Hc. eapply Hcl; [exact Hr|]. apply in_or_app; right; exact Hc. }
    destruct (t_def t) as [fs|vs| | | | | | ] eqn:Ed; try discriminate Ecv.
    - cbn [def_fields_okb] in Hdf.
      destruct (cck_total fs (params_from_scale_info (t_params t)) (params_from_scale_info (t_params t)) Hdf)
        as (k & u & Hk & Pk).
      { intros f Hf. apply Hids. cbn [def_ids]. apply in_map. exact Hf. }
      rewrite Hk. cbn [bind fst snd]. rewrite Hd. cbn [bind].
      eexists; split; [reflexivity|]. intros ir Hir. inversion Hir; subst.
      unfold ir_no256. cbn [ti_kind kind_fields ci_kind]. exact Pk.
    - cbn [def_fields_okb] in Hdf. rewrite forallb_forall in Hdf.
      destruct (variants_ir_total (params_from_scale_info (t_params t)) vs (params_from_scale_info (t_params t)))
        as (l & u & Hl' & Pl).
      { intros v Hv. specialize (Hdf _ Hv). apply andb_prop in Hdf as [H1 H2].
        split; [exact H1|]. split; [exact H2|].
        intros f Hf. apply Hids. cbn [def_ids]. apply in_flat_map. exists v. split; [exact Hv|].
        apply in_map. exact Hf. }
      rewrite Hl'. cbn [bind fst snd]. rewrite Hd. cbn [bind].
      eexists; split; [reflexivity|]. intros ir Hir. inversion Hir; subst.
      unfold ir_no256. cbn [ti_kind kind_fields]. exact Pl.
  Qed.

  (** ** the generation loop *)
  Variable teq : N -> N -> result bool.
  Hypothesis Hteq : forall a b, in_reg r a -> in_reg r b -> exists x, teq a b = Ok x.

  Definition items_good (m : items) : Prop :=
    forall p id ir, In (p, (id, ir)) m -> in_reg r id /\ ir_no256 ir.

  Lemma items_get_In : forall (m : items) p v, items_get m p = Some v -> exists k, In (k, v) m.
  Proof.
    induction m as [|[k v'] m IH]; intros p v H; cbn [items_get] in H; [discriminate|].
    destruct (path_eqb k p).
    - inversion H; subst. exists k. left; reflexivity.
    - destruct (IH _ _ H) as (k' & Hk'). exists k'. right; exact Hk'.
  Qed.

  Lemma items_insert_In : forall (m : items) p v x,
    In x (items_insert m p v) -> x = (p, v) \/ In x m.
  Proof.
    induction m as [|[k v'] m IH]; intros p v x H; cbn [items_insert] in H.
    - destruct H as [<-|[]]. left; reflexivity.
    - destruct (path_compare p k).
      + right; exact H.
      + destruct H as [<-|H]; [left; reflexivity|right; exact H].
      + destruct H as [<-|H]; [right; left; reflexivity|].
        destruct (IH _ _ _ H) as [->|H']; [left; reflexivity|right; right; exact H'].
  Qed.

  Lemma gen_loop_total flat : forall l acc,
    (forall e, In e l -> In e r) -> items_good acc ->
    (exists m, gen_loop r s teq flat l acc = Ok m /\ items_good m) \/
    (exists p, gen_loop r s teq flat l acc = Err (EDuplicatePath p)).
  Proof.
    pose proof Hgen as (Hids & _).
    induction l as [|[id t] l IH]; intros acc Hl Hacc.
    - left. exists acc. split; [reflexivity|exact Hacc].
    - rewrite gen_loop_cons.
      assert (Hl' : forall e, In e l -> In e r) by (intros e He; apply Hl; right; exact He).
      pose proof (ids_consistent_In _ _ _ Hids (Hl _ (or_introl eq_refl))) as Hr.
      destruct (subs_contains (s_subs s) (t_path t)); [apply IH; assumption|].
      destruct (namespace (t_path t)) as [|n0 ns] eqn:Ens; [apply IH; assumption|].
      destruct (create_type_ir_total id t flat Hr) as (o & Ho & Po). rewrite Ho. cbn [bind].
      destruct o as [ir|]; [|apply IH; assumption].
      assert (Hlex : forallb ident_lexb (n0 :: ns) = true).
      { pose proof Hgen as (_ & _ & Hitem & _). pose proof (Hitem _ _ Hr) as Hi. unfold item_entryb in Hi.
        assert (Hcv : is_composite_or_variant (t_def t) = true).
        { rewrite create_type_ir_eq in Ho. destruct (is_composite_or_variant (t_def t)); [reflexivity|].
          cbn [negb] in Ho. discriminate. }
        assert (Hid : forallb ident_okb (t_path t) = true).
        { destruct (t_def t); try discriminate Hcv; apply andb_prop in Hi as [Hi1 _];
            (destruct (t_path t); [discriminate|exact Hi1]). }
        rewrite <- Ens. unfold namespace. rewrite forallb_forall in *. intros x Hx.
        apply ident_okb_lexb. apply Hid.
        assert (Hne : t_path t <> []). { intros E. rewrite E in Ens. discriminate. }
        rewrite (app_removelast_last "" Hne). apply in_or_app. left; exact Hx. }
      rewrite Hlex.
      destruct (items_get acc (t_path t)) as [[other ir']|] eqn:G.
      + destruct (items_get_In _ _ _ G) as (k & Hk). destruct (Hacc _ _ _ Hk) as (Hother & _).
        destruct (Hteq id other (resolve_some_in_reg _ _ _ Hr) Hother) as (b & Hb).
        rewrite Hb. cbn [bind]. destruct b; [apply IH; assumption|right; eauto].
      + apply IH; [assumption|].
        intros p id' ir'' Hin. apply items_insert_In in Hin as [E|Hin]; [|eapply Hacc; eauto].
        inversion E; subst. split; [eapply resolve_some_in_reg; eauto|apply Po; reflexivity].
  Qed.

  Theorem generate_total :
    (exists m, generate r s teq = Ok m /\ items_good m) \/
    (exists p, generate r s teq = Err (EDuplicatePath p)).
  Proof.
    unfold generate. pose proof Hgen as (Hids & _ & _ & Hfl). pose proof Hres as (Hcl & _).
    rewrite sanity_pass_spec. apply first_bad_none_iff in Hids. rewrite Hids. cbn [bind].
    destruct (flatten_total (s_dreg s) r) as (flat & Hflat); try assumption.
    { apply first_bad_none_iff. exact Hids. }
    rewrite Hflat. cbn [bind]. apply gen_loop_total; [auto|]. intros p id ir [].
  Qed.
End GenTotal.
