(** C13_lockstep: the text of the model, read by the tokenizer, is the atom
    sequence of the independently written description tree of the registry
    (Model/DescribeSpec.v) -- for every registry whose identifiers are words
    and whose paths sit on structs/enums only, and every id on which the
    description succeeds. *)
From Coq Require Import List NArith String Bool Ascii Lia DecimalString DecimalPos DecimalN.
From V Require Import Base.Util Base.Result Base.Strings Model.Registry Model.Format
  Model.Describe Model.DescribeSpec Proofs.DescribeProofs Proofs.DescribeExpand.
Import ListNotations.
Open Scope string_scope.

(** ** the tokenizer as a state machine *)
Definition tstate := (list ascii * list tok)%type.

Definition tstep (st : tstate) (c : ascii) : tstate :=
  if is_space c then ([], flush (fst st) (snd st))
  else if is_punct c then ([], P c :: flush (fst st) (snd st))
  else (c :: fst st, snd st).

Fixpoint run (s : string) (st : tstate) : tstate :=
  match s with
  | EmptyString => st
  | String c s' => run s' (tstep st c)
  end.

Definition fl (st : tstate) : list tok := flush (fst st) (snd st).

Lemma tokens_from_run s : forall w acc, tokens_from s w acc = rev (fl (run s (w, acc))).
Proof.
  induction s as [|c s IH]; intros w acc; cbn [tokens_from run]; [reflexivity|].
  unfold tstep. cbn [fst snd]. destruct (is_space c); [apply IH|].
  destruct (is_punct c); apply IH.
Qed.

Lemma run_app a : forall b st, run (a ++ b) st = run b (run a st).
Proof. induction a as [|c a IH]; intros b st; cbn; [reflexivity|apply IH]. Qed.

Definition is_sep (c : ascii) : bool := is_space c || is_punct c.

Definition sep_start (b : string) : Prop :=
  match b with EmptyString => True | String c _ => is_sep c = true end.

Lemma tstep_sep st c : is_sep c = true -> tstep st c = tstep ([], fl st) c.
Proof.
  unfold is_sep, tstep, fl. cbn [fst snd]. intros H.
  destruct (is_space c); [reflexivity|]. destruct (is_punct c); [reflexivity|discriminate].
Qed.

Lemma run_sep b st : sep_start b -> fl (run b st) = fl (run b ([], fl st)).
Proof.
  destruct b as [|c b]; cbn [sep_start run]; intros H.
  - reflexivity.
  - rewrite (tstep_sep st c H). reflexivity.
Qed.

(** [TT s l]: read from a fresh word, [s] yields the tokens [l] (a trailing
    word still pending); [TC s l]: the same and [s] ends with a separator *)
Definition TT (s : string) (l : list tok) : Prop :=
  forall acc, fl (run s ([], acc)) = (rev l ++ acc)%list.
Definition TC (s : string) (l : list tok) : Prop :=
  forall acc, run s ([], acc) = ([], (rev l ++ acc)%list).

Lemma TC_TT s l : TC s l -> TT s l.
Proof. intros H acc. rewrite H. reflexivity. Qed.

Lemma TT_nil : TT "" [].
Proof. intros acc. reflexivity. Qed.

Lemma TC_app a la b lb : TC a la -> TC b lb -> TC (a ++ b) (la ++ lb).
Proof.
  intros Ha Hb acc. rewrite run_app, Ha, Hb, rev_app_distr, app_assoc. reflexivity.
Qed.

Lemma TC_TT_app a la b lb : TC a la -> TT b lb -> TT (a ++ b) (la ++ lb).
Proof.
  intros Ha Hb acc. rewrite run_app, Ha, Hb, rev_app_distr, app_assoc. reflexivity.
Qed.

Lemma TT_app a la b lb : TT a la -> sep_start b -> TT b lb -> TT (a ++ b) (la ++ lb).
Proof.
  intros Ha Hs Hb acc. rewrite run_app, (run_sep b _ Hs), Ha, Hb, rev_app_distr, app_assoc.
  reflexivity.
Qed.

Lemma TT_tokens s l : TT s l -> tokens s = l.
Proof.
  intros H. unfold tokens. rewrite tokens_from_run, H, app_nil_r. apply rev_involutive.
Qed.

Lemma TT_nonempty s l : TT s l -> l <> [] -> s <> "".
Proof.
  intros H Hl ->. specialize (H []). cbn in H. destruct l; [congruence|].
  symmetry in H. apply app_eq_nil in H as [H _]. cbn in H. apply app_eq_nil in H as [_ H]. discriminate.
Qed.

(** *** words *)
Definition word_char (c : ascii) : bool := negb (is_punct c || is_space c).

Fixpoint chars (s : string) : list ascii :=
  match s with EmptyString => [] | String c s' => c :: chars s' end.

Lemma run_word s : forall w acc,
  all_chars word_char s = true -> run s (w, acc) = ((rev (chars s) ++ w)%list, acc).
Proof.
  induction s as [|c s IH]; intros w acc H; cbn [run chars rev]; [reflexivity|].
  cbn [all_chars] in H. apply andb_prop in H as [Hc H].
  unfold word_char in Hc. apply negb_true_iff, orb_false_iff in Hc as [Hp Hs].
  unfold tstep. rewrite Hs, Hp. cbn [fst snd]. rewrite IH by exact H.
  rewrite <- app_assoc. reflexivity.
Qed.

Lemma rev_string_rev l : forall s0, fold_left (fun s c => String c s) (rev l) s0
                                    = fold_right String s0 l.
Proof.
  induction l as [|c l IH]; intros s0; cbn; [reflexivity|].
  rewrite fold_left_app. cbn. rewrite IH. reflexivity.
Qed.

Lemma chars_string s : fold_right String "" (chars s) = s.
Proof. induction s as [|c s IH]; cbn; [reflexivity|]. rewrite IH. reflexivity. Qed.

Lemma TT_word s : word_okb s = true -> TT s [W s].
Proof.
  unfold word_okb. intros H. apply andb_prop in H as [Hne H].
  intros acc. rewrite (run_word s [] acc) by exact H. unfold fl. cbn [fst snd].
  rewrite app_nil_r. unfold flush.
  destruct (rev (chars s)) as [|a l] eqn:E.
  - destruct s; [discriminate|]. cbn in E. apply app_eq_nil in E as [_ E]. discriminate.
  - rewrite <- E. unfold rev_string. rewrite rev_string_rev, chars_string. reflexivity.
Qed.

(** *** decimal numbers are words *)
Lemma string_of_uint_word u : all_chars word_char (NilEmpty.string_of_uint u) = true.
Proof. induction u; cbn; auto. Qed.

Lemma N_to_string_word n : word_okb (N_to_string n) = true.
Proof.
  unfold word_okb, N_to_string. apply andb_true_intro. split.
  - assert (N.to_uint n <> Decimal.Nil) as Hn.
    { destruct n; cbn; [discriminate|apply Unsigned.to_uint_nonnil]. }
    destruct (N.to_uint n); try congruence; reflexivity.
  - apply string_of_uint_word.
Qed.

(** *** the literal punctuation of description.rs *)
Ltac lit := intros acc; reflexivity.
Lemma TC_vec : TC "Vec<" [W "Vec"; P "<"%char]. Proof. lit. Qed.
Lemma TC_compact : TC "Compact<" [W "Compact"; P "<"%char]. Proof. lit. Qed.
Lemma TC_box : TC "Box<" [W "Box"; P "<"%char]. Proof. lit. Qed.
Lemma TC_struct : TC "struct " [W "struct"]. Proof. lit. Qed.
Lemma TC_enum : TC "enum " [W "enum"]. Proof. lit. Qed.
Lemma TC_bits : TC "BitSequence(" [W "BitSequence"; P "("%char]. Proof. lit. Qed.
Lemma TC_lparen : TC "(" [P "("%char]. Proof. lit. Qed.
Lemma TC_lbrace : TC "{" [P "{"%char]. Proof. lit. Qed.
Lemma TC_lbrack : TC "[" [P "["%char]. Proof. lit. Qed.
Lemma TC_langle : TC "<" [P "<"%char]. Proof. lit. Qed.
Lemma TC_comma : TC "," [P ","%char]. Proof. lit. Qed.
Lemma TC_comma_sp : TC ", " [P ","%char]. Proof. lit. Qed.
Lemma TC_semi : TC ";" [P ";"%char]. Proof. lit. Qed.
Lemma TC_semi_sp : TC "; " [P ";"%char]. Proof. lit. Qed.
Lemma TC_colon_sp : TC ": " [P ":"%char]. Proof. lit. Qed.
Lemma TC_rangle : TC ">" [P ">"%char]. Proof. lit. Qed.
Lemma TC_rparen : TC ")" [P ")"%char]. Proof. lit. Qed.
Lemma TC_rbrace : TC "}" [P "}"%char]. Proof. lit. Qed.
Lemma TC_rbrack : TC "]" [P "]"%char]. Proof. lit. Qed.
Lemma TC_comma_rparen : TC ",)" [P ","%char; P ")"%char]. Proof. lit. Qed.
Lemma TC_unit : TC "()" [P "("%char; P ")"%char]. Proof. lit. Qed.

Lemma TT_wrap o lo cl lc J lJ :
  TC o lo -> TC cl lc -> sep_start cl -> TT J lJ -> TT (o ++ J ++ cl) (lo ++ lJ ++ lc).
Proof.
  intros Ho Hc Hs HJ. apply TC_TT_app; [exact Ho|]. apply TT_app; [exact HJ|exact Hs|].
  apply TC_TT; exact Hc.
Qed.

Lemma TT_join ds ls : Forall2 TT ds ls -> TT (join "," ds) (sep_by comma ls).
Proof.
  unfold join. induction 1 as [|d l ds ls Hd H IH]; [apply TT_nil|].
  cbn [concat sep_by]. destruct H as [|d2 l2 ds' ls' H2 H'].
  - exact Hd.
  - apply TT_app; [exact Hd|reflexivity|]. apply TC_TT_app; [apply TC_comma|exact IH].
Qed.

Lemma TT_tuple ds ls : Forall2 TT ds ls -> TT (tuple_text ds) (tuple_atoms ls).
Proof.
  intros H. unfold tuple_text, tuple_atoms.
  assert (G : TT ("(" ++ join "," ds ++ ")") (paren (sep_by comma ls))).
  { apply (TT_wrap "(" [P "("%char] ")" [P ")"%char]);
      [apply TC_lparen|apply TC_rparen|reflexivity|apply TT_join; exact H]. }
  destruct H as [|d l ds' ls' Hd H']; [exact G|].
  destruct H' as [|d2 l2 ds'' ls'' H2 H'']; [|exact G].
  unfold paren, comma. rewrite <- app_assoc.
  apply (TT_wrap "(" [P "("%char] ",)" [P ","%char; P ")"%char]);
    [apply TC_lparen|apply TC_comma_rparen|reflexivity|exact Hd].
Qed.

Lemma TT_prim p : TT (prim_name p) [W (prim_word p)].
Proof. destruct p; lit. Qed.

Lemma join_nil_inv d ds : join "," (d :: ds) = "" -> d = "".
Proof.
  intros H. apply infix_empty. rewrite <- H. apply infix_join. left; reflexivity.
Qed.

(** ** names *)
Lemma is_named_has_path t : is_named t = has_path t.
Proof. unfold is_named, has_path, path_ident. destruct (t_path t); reflexivity. Qed.

Lemma path_ident_rev p i : path_ident p = Some i -> exists l, rev p = i :: l.
Proof.
  unfold path_ident. destruct p as [|x p]; [discriminate|]. intros H.
  injection H as <-. exists (rev (removelast (x :: p))).
  rewrite <- rev_unit. f_equal.
  exact (@app_removelast_last string (x :: p) "" ltac:(discriminate)).
Qed.

Section Names.
  Variable r : registry.
  Hypothesis Hwords : words_okb r = true.

  Lemma words_ok_ty id t :
    resolve r id = Some t ->
    match rev (t_path t) with [] => true | i :: _ => word_okb i end = true /\
    match t_def t with
    | TDComposite fs => fields_words_okb fs
    | TDVariant vs => forallb (fun v => word_okb (v_name v) && fields_words_okb (v_fields v)) vs
    | _ => true
    end = true.
  Proof.
    intros Hr. destruct (resolve_in r id t Hr) as [x Hx].
    unfold words_okb in Hwords. rewrite forallb_forall in Hwords. specialize (Hwords _ Hx).
    cbn [snd] in Hwords. apply andb_prop in Hwords. exact Hwords.
  Qed.

  Lemma mapM_opt_map {A} (f : A -> result string) (g : A -> option (list tok)) l names :
    (forall x nm, In x l -> f x = Ok nm -> exists a, g x = Some a /\ TT nm a /\ a <> []) ->
    mapM f l = Ok names ->
    exists ls, opt_map g l = Some ls /\ Forall2 TT names ls /\ Forall (fun a => a <> []) ls.
  Proof.
    revert names. induction l as [|x l IH]; intros names Hf H; cbn [mapM] in H.
    - inversion H; subst. exists []. repeat split; constructor.
    - apply bind_ok in H as (nm & E1 & H). apply bind_ok in H as (nms & E2 & H).
      inversion H; subst names.
      destruct (Hf x nm (or_introl eq_refl) E1) as (a & Ga & Ta & Na).
      destruct (IH nms (fun y n Hy => Hf y n (or_intror Hy)) E2) as (ls & Gl & Tl & Nl).
      exists (a :: ls). cbn [opt_map]. fold (opt_map g). rewrite Ga, Gl.
      repeat split; constructor; assumption.
  Qed.

  Lemma tuple_atoms_nonempty ls : tuple_atoms ls <> [].
  Proof. unfold tuple_atoms, paren. destruct ls as [|a [|b ls]]; discriminate. Qed.

  Lemma item_name_atoms (of_id : N -> result string) (g : N -> option (list tok)) t nm :
    (forall c s, of_id c = Ok s -> exists a, g c = Some a /\ TT s a /\ a <> []) ->
    match rev (t_path t) with [] => true | i :: _ => word_okb i end = true ->
    match path_ident (t_path t) with
    | None => Ok "_"
    | Some ident =>
        let* ps := mapM (fun p => match tp_ty p with None => Ok "_" | Some i => of_id i end)
                        (t_params t) in
        let s := join "," ps in
        if String.eqb s "" then Ok ident else Ok (ident ++ "<" ++ s ++ ">")
    end = Ok nm ->
    exists a,
      match rev (t_path t) with
      | [] => Some [W "_"]
      | ident :: _ =>
          match t_params t with
          | [] => Some [W ident]
          | ps => option_map (fun args => W ident :: angle (sep_by comma args))
                    (opt_map (fun p => match tp_ty p with
                                       | None => Some [W "_"]
                                       | Some i => g i
                                       end) ps)
          end
      end = Some a /\ TT nm a /\ a <> [].
  Proof.
    intros Hof Hw H.
    destruct (path_ident (t_path t)) as [ident|] eqn:Ep.
    - destruct (path_ident_rev _ _ Ep) as [pl Hrev]. rewrite Hrev in *.
      apply bind_ok in H as (ps & Eps & H). cbn zeta in H.
      destruct (mapM_opt_map
                  (fun p => match tp_ty p with None => Ok "_" | Some i => of_id i end)
                  (fun p => match tp_ty p with None => Some [W "_"] | Some i => g i end)
                  (t_params t) ps) as (ls & Gl & Tl & Nl); [|exact Eps|].
      { intros p nm' _ Hp. destruct (tp_ty p) as [i|]; [apply Hof; exact Hp|].
        inversion Hp; subst nm'. exists [W "_"]. split; [reflexivity|].
        split; [intros acc; reflexivity|discriminate]. }
      destruct (t_params t) as [|p0 ps0] eqn:Eparams.
      + cbn [mapM] in Eps. inversion Eps; subst ps. cbn in H. injection H as Hn; subst nm.
        exists [W ident]. split; [reflexivity|]. split; [apply TT_word; exact Hw|discriminate].
      + rewrite Gl. cbn [option_map].
        destruct Tl as [|n0 a0 ns ls' T0 Tl'].
        { cbn [opt_map] in Gl. fold (opt_map (fun p => match tp_ty p with
                                               | None => Some [W "_"] | Some i => g i end)) in Gl.
          destruct (match tp_ty p0 with None => Some [W "_"] | Some i => g i end); [|discriminate].
          destruct (opt_map _ ps0); discriminate. }
        destruct (String.eqb_spec (join "," (n0 :: ns)) "") as [Ej|_].
        * exfalso. apply join_nil_inv in Ej. subst n0. inversion Nl; subst.
          eapply (TT_nonempty "" a0); eauto.
        * injection H as Hn; subst nm. eexists. split; [reflexivity|]. split; [|discriminate].
          apply (TT_app ident [W ident]); [apply TT_word; exact Hw|reflexivity|].
          apply (TT_wrap "<" [P "<"%char] ">" [P ">"%char] (join "," (n0 :: ns))
                         (sep_by comma (a0 :: ls')));
            [apply TC_langle|apply TC_rangle|reflexivity|].
          apply TT_join. constructor; assumption.
    - unfold path_ident in Ep. destruct (t_path t) as [|x l]; [|discriminate]. cbn [rev].
      injection H as Hn; subst nm. exists [W "_"]. split; [reflexivity|].
      split; [intros acc; reflexivity|discriminate].
  Qed.

  Lemma tname_atoms : forall nf id t nm,
    resolve r id = Some t -> tname r nf t = Ok nm ->
    exists a, name_atoms r nf id = Some a /\ TT nm a /\ a <> [].
  Proof.
    induction nf as [|f IH]; intros id t nm Hr H; cbn [tname] in H; [discriminate|].
    cbn [name_atoms]. rewrite Hr.
    assert (Hof : forall c s,
              match resolve r c with Some t' => tname r f t' | None => Panic unwrap_none end = Ok s ->
              exists a, name_atoms r f c = Some a /\ TT s a /\ a <> []).
    { intros c s Hc. destruct (resolve r c) as [t'|] eqn:Ec; [|discriminate]. eapply IH; eassumption. }
    destruct (words_ok_ty id t Hr) as [Hw _].
    destruct (t_def t) as [fs|vs|e|len e|ts|p|e|store order] eqn:Ed.
    - exact (item_name_atoms _ (name_atoms r f) t nm Hof Hw H).
    - exact (item_name_atoms _ (name_atoms r f) t nm Hof Hw H).
    - apply bind_ok in H as (i & Ei & H). injection H as Hn; subst nm.
      destruct (Hof e i Ei) as (a & Ga & Ta & Na). rewrite Ga. cbn [option_map].
      eexists. split; [reflexivity|]. split; [|discriminate].
      apply (TT_wrap "Vec<" [W "Vec"; P "<"%char] ">" [P ">"%char]);
        [apply TC_vec|apply TC_rangle|reflexivity|exact Ta].
    - apply bind_ok in H as (i & Ei & H). injection H as Hn; subst nm.
      destruct (Hof e i Ei) as (a & Ga & Ta & Na). rewrite Ga. cbn [option_map].
      eexists. split; [reflexivity|]. split; [|discriminate].
      apply (TC_TT_app "[" [P "["%char]); [apply TC_lbrack|].
      apply TT_app; [exact Ta|reflexivity|].
      apply (TC_TT_app ";" [P ";"%char]); [apply TC_semi|].
      apply (TT_app _ [W (N_to_string len)] "]" [P "]"%char]);
        [apply TT_word, N_to_string_word|reflexivity|apply TC_TT, TC_rbrack].
    - apply bind_ok in H as (ds & Eds & H). injection H as Hn; subst nm.
      destruct (mapM_opt_map _ (name_atoms r f) _ _ (fun c s _ Hc => Hof c s Hc) Eds)
        as (ls & Gl & Tl & Nl).
      rewrite Gl. cbn [option_map]. eexists. split; [reflexivity|].
      split; [apply TT_tuple; exact Tl|apply tuple_atoms_nonempty].
    - injection H as Hn; subst nm. eexists. split; [reflexivity|]. split; [apply TT_prim|discriminate].
    - apply bind_ok in H as (i & Ei & H). injection H as Hn; subst nm.
      destruct (Hof e i Ei) as (a & Ga & Ta & Na). rewrite Ga. cbn [option_map].
      eexists. split; [reflexivity|]. split; [|discriminate].
      apply (TT_wrap "Compact<" [W "Compact"; P "<"%char] ">" [P ">"%char]);
        [apply TC_compact|apply TC_rangle|reflexivity|exact Ta].
    - injection H as Hn; subst nm. eexists. split; [reflexivity|].
      split; [intros acc; reflexivity|discriminate].
  Qed.
End Names.
