(** C13_lockstep: the text of the model, read by the tokenizer, is the atom
    sequence of the independently written description tree of the registry
    (Model/DescribeSpec.v) -- for every registry whose identifiers are words
    and whose paths sit on structs/enums only, and every id on which the
    description succeeds. *)
From Coq Require Import List NArith String Bool Ascii Lia DecimalString DecimalPos DecimalN.
From V Require Import Base.Util Base.Result Base.Strings Model.Registry Model.Format
  Model.Describe Model.DescribeSpec Proofs.DescribeProofs Proofs.DescribeExpand.
Import ListNotations.
Open Scope string_scope.

(** ** the tokenizer as a state machine *)
Definition tstate := (list ascii * list tok)%type.

Definition tstep (st : tstate) (c : ascii) : tstate :=
  if is_space c then ([], flush (fst st) (snd st))
  else if is_punct c then ([], P c :: flush (fst st) (snd st))
  else (c :: fst st, snd st).

Fixpoint run (s : string) (st : tstate) : tstate :=
  match s with
  | EmptyString => st
  | String c s' => run s' (tstep st c)
  end.

Definition fl (st : tstate) : list tok := flush (fst st) (snd st).

Lemma tokens_from_run s : forall w acc, tokens_from s w acc = rev (fl (run s (w, acc))).
Proof.
  induction s as [|c s IH]; intros w acc; cbn [tokens_from run]; [reflexivity|].
  unfold tstep. cbn [fst snd]. destruct (is_space c); [apply IH|].
  destruct (is_punct c); apply IH.
Qed.

Lemma run_app a : forall b st, run (a ++ b) st = run b (run a st).
Proof. induction a as [|c a IH]; intros b st; cbn; [reflexivity|apply IH]. Qed.

Definition is_sep (c : ascii) : bool := is_space c || is_punct c.

Definition sep_start (b : string) : Prop :=
  match b with EmptyString => True | String c _ => is_sep c = true end.

Lemma tstep_sep st c : is_sep c = true -> tstep st c = tstep ([], fl st) c.
Proof.
  unfold is_sep, tstep, fl. cbn [fst snd]. intros H.
  destruct (is_space c); [reflexivity|]. destruct (is_punct c); [reflexivity|discriminate].
Qed.

Lemma run_sep b st : sep_start b -> fl (run b st) = fl (run b ([], fl st)).
Proof.
  destruct b as [|c b]; cbn [sep_start run]; intros H.
  - reflexivity.
  - rewrite (tstep_sep st c H). reflexivity.
Qed.

(** [TT s l]: read from a fresh word, [s] yields the tokens [l] (a trailing
    word still pending); [TC s l]: the same and [s] ends with a separator *)
Definition TT (s : string) (l : list tok) : Prop :=
  forall acc, fl (run s ([], acc)) = (rev l ++ acc)%list.
Definition TC (s : string) (l : list tok) : Prop :=
  forall acc, run s ([], acc) = ([], (rev l ++ acc)%list).

Lemma TC_TT s l : TC s l -> TT s l.
Proof. intros H acc. rewrite H. reflexivity. Qed.

Lemma TT_nil : TT "" [].
Proof. intros acc. reflexivity. Qed.

Lemma TC_app a la b lb : TC a la -> TC b lb -> TC (a ++ b) (la ++ lb).
Proof.
  intros Ha Hb acc. rewrite run_app, Ha, Hb, rev_app_distr, app_assoc. reflexivity.
Qed.

Lemma TC_TT_app a la b lb : TC a la -> TT b lb -> TT (a ++ b) (la ++ lb).
Proof.
  intros Ha Hb acc. rewrite run_app, Ha, Hb, rev_app_distr, app_assoc. reflexivity.
Qed.

Lemma TT_app a la b lb : TT a la -> sep_start b -> TT b lb -> TT (a ++ b) (la ++ lb).
Proof.
  intros Ha Hs Hb acc. rewrite run_app, (run_sep b _ Hs), Ha, Hb, rev_app_distr, app_assoc.
  reflexivity.
Qed.

Lemma TT_tokens s l : TT s l -> tokens s = l.
Proof.
  intros H. unfold tokens. rewrite tokens_from_run, H, app_nil_r. apply rev_involutive.
Qed.

Lemma TT_nonempty s l : TT s l -> l <> [] -> s <> "".
Proof.
  intros H Hl ->. specialize (H []). cbn in H. destruct l; [congruence|].
  symmetry in H. apply app_eq_nil in H as [H _]. cbn in H. apply app_eq_nil in H as [_ H]. discriminate.
Qed.

(** *** words *)
Definition word_char (c : ascii) : bool := negb (is_punct c || is_space c).

Fixpoint chars (s : string) : list ascii :=
  match s with EmptyString => [] | String c s' => c :: chars s' end.

Lemma run_word s : forall w acc,
  all_chars word_char s = true -> run s (w, acc) = ((rev (chars s) ++ w)%list, acc).
Proof.
  induction s as [|c s IH]; intros w acc H; cbn [run chars rev]; [reflexivity|].
  cbn [all_chars] in H. apply andb_prop in H as [Hc H].
  unfold word_char in Hc. apply negb_true_iff, orb_false_iff in Hc as [Hp Hs].
  unfold tstep. rewrite Hs, Hp. cbn [fst snd]. rewrite IH by exact H.
  rewrite <- app_assoc. reflexivity.
Qed.

Lemma rev_string_rev l : forall s0, fold_left (fun s c => String c s) (rev l) s0
                                    = fold_right String s0 l.
Proof.
  induction l as [|c l IH]; intros s0; cbn; [reflexivity|].
  rewrite fold_left_app. cbn. rewrite IH. reflexivity.
Qed.

Lemma chars_string s : fold_right String "" (chars s) = s.
Proof. induction s as [|c s IH]; cbn; [reflexivity|]. rewrite IH. reflexivity. Qed.

Lemma TT_word s : word_okb s = true -> TT s [W s].
Proof.
  unfold word_okb. intros H. apply andb_prop in H as [Hne H].
  intros acc. rewrite (run_word s [] acc) by exact H. unfold fl. cbn [fst snd].
  rewrite app_nil_r. unfold flush.
  destruct (rev (chars s)) as [|a l] eqn:E.
  - destruct s; [discriminate|]. cbn in E. apply app_eq_nil in E as [_ E]. discriminate.
  - rewrite <- E. unfold rev_string. rewrite rev_string_rev, chars_string. reflexivity.
Qed.

(** *** decimal numbers are words *)
Lemma string_of_uint_word u : all_chars word_char (NilEmpty.string_of_uint u) = true.
Proof. induction u; cbn; auto. Qed.

Lemma N_to_string_word n : word_okb (N_to_string n) = true.
Proof.
  unfold word_okb, N_to_string. apply andb_true_intro. split.
  - assert (N.to_uint n <> Decimal.Nil) as Hn.
    { destruct n; cbn; [discriminate|apply Unsigned.to_uint_nonnil]. }
    destruct (N.to_uint n); try congruence; reflexivity.
  - apply string_of_uint_word.
Qed.

(** *** the literal punctuation of description.rs *)
Ltac lit := intros acc; reflexivity.
Lemma TC_vec : TC "Vec<" [W "Vec"; P "<"%char]. Proof. lit. Qed.
Lemma TC_compact : TC "Compact<" [W "Compact"; P "<"%char]. Proof. lit. Qed.
Lemma TC_box : TC "Box<" [W "Box"; P "<"%char]. Proof. lit. Qed.
Lemma TC_struct : TC "struct " [W "struct"]. Proof. lit. Qed.
Lemma TC_enum : TC "enum " [W "enum"]. Proof. lit. Qed.
Lemma TC_bits : TC "BitSequence(" [W "BitSequence"; P "("%char]. Proof. lit. Qed.
Lemma TC_lparen : TC "(" [P "("%char]. Proof. lit. Qed.
Lemma TC_lbrace : TC "{" [P "{"%char]. Proof. lit. Qed.
Lemma TC_lbrack : TC "[" [P "["%char]. Proof. lit. Qed.
Lemma TC_langle : TC "<" [P "<"%char]. Proof. lit. Qed.
Lemma TC_comma : TC "," [P ","%char]. Proof. lit. Qed.
Lemma TC_comma_sp : TC ", " [P ","%char]. Proof. lit. Qed.
Lemma TC_semi : TC ";" [P ";"%char]. Proof. lit. Qed.
Lemma TC_semi_sp : TC "; " [P ";"%char]. Proof. lit. Qed.
Lemma TC_colon_sp : TC ": " [P ":"%char]. Proof. lit. Qed.
Lemma TC_rangle : TC ">" [P ">"%char]. Proof. lit. Qed.
Lemma TC_rparen : TC ")" [P ")"%char]. Proof. lit. Qed.
Lemma TC_rbrace : TC "}" [P "}"%char]. Proof. lit. Qed.
Lemma TC_rbrack : TC "]" [P "]"%char]. Proof. lit. Qed.
Lemma TC_comma_rparen : TC ",)" [P ","%char; P ")"%char]. Proof. lit. Qed.
Lemma TC_unit : TC "()" [P "("%char; P ")"%char]. Proof. lit. Qed.

Lemma TT_wrap o lo cl lc J lJ :
  TC o lo -> TC cl lc -> sep_start cl -> TT J lJ -> TT (o ++ J ++ cl) (lo ++ lJ ++ lc).
Proof.
  intros Ho Hc Hs HJ. apply TC_TT_app; [exact Ho|]. apply TT_app; [exact HJ|exact Hs|].
  apply TC_TT; exact Hc.
Qed.

Lemma TT_join ds ls : Forall2 TT ds ls -> TT (join "," ds) (sep_by comma ls).
Proof.
  unfold join. induction 1 as [|d l ds ls Hd H IH]; [apply TT_nil|].
  cbn [concat sep_by]. destruct H as [|d2 l2 ds' ls' H2 H'].
  - exact Hd.
  - apply TT_app; [exact Hd|reflexivity|]. apply TC_TT_app; [apply TC_comma|exact IH].
Qed.

Lemma TT_tuple ds ls : Forall2 TT ds ls -> TT (tuple_text ds) (tuple_atoms ls).
Proof.
  intros H. unfold tuple_text, tuple_atoms.
  assert (G : TT ("(" ++ join "," ds ++ ")") (paren (sep_by comma ls))).
  { apply (TT_wrap "(" [P "("%char] ")" [P ")"%char]);
      [apply TC_lparen|apply TC_rparen|reflexivity|apply TT_join; exact H]. }
  destruct H as [|d l ds' ls' Hd H']; [exact G|].
  destruct H' as [|d2 l2 ds'' ls'' H2 H'']; [|exact G].
  unfold paren, comma. rewrite <- app_assoc.
  apply (TT_wrap "(" [P "("%char] ",)" [P ","%char; P ")"%char]);
    [apply TC_lparen|apply TC_comma_rparen|reflexivity|exact Hd].
Qed.

Lemma TT_prim p : TT (prim_name p) [W (prim_word p)].
Proof. destruct p; lit. Qed.

Lemma join_nil_inv d ds : join "," (d :: ds) = "" -> d = "".
Proof.
  intros H. apply infix_empty. rewrite <- H. apply infix_join. left; reflexivity.
Qed.

(** ** names *)
Lemma is_named_has_path t : is_named t = has_path t.
Proof. unfold is_named, has_path, path_ident. destruct (t_path t); reflexivity. Qed.

Lemma path_ident_rev p i : path_ident p = Some i -> exists l, rev p = i :: l.
Proof.
  unfold path_ident. destruct p as [|x p]; [discriminate|]. intros H.
  injection H as <-. exists (rev (removelast (x :: p))).
  rewrite <- rev_unit. f_equal.
  exact (@app_removelast_last string (x :: p) "" ltac:(discriminate)).
Qed.

Section Names.
  Variable r : registry.
  Hypothesis Hwords : words_okb r = true.

  Lemma words_ok_ty id t :
    resolve r id = Some t ->
    match rev (t_path t) with [] => true | i :: _ => word_okb i end = true /\
    match t_def t with
    | TDComposite fs => fields_words_okb fs
    | TDVariant vs => forallb (fun v => word_okb (v_name v) && fields_words_okb (v_fields v)) vs
    | _ => true
    end = true.
  Proof.
    intros Hr. destruct (resolve_in r id t Hr) as [x Hx].
    unfold words_okb in Hwords. rewrite forallb_forall in Hwords. specialize (Hwords _ Hx).
    cbn [snd] in Hwords. apply andb_prop in Hwords. exact Hwords.
  Qed.

  Lemma mapM_opt_map {A} (f : A -> result string) (g : A -> option (list tok)) l names :
    (forall x nm, In x l -> f x = Ok nm -> exists a, g x = Some a /\ TT nm a /\ a <> []) ->
    mapM f l = Ok names ->
    exists ls, opt_map g l = Some ls /\ Forall2 TT names ls /\ Forall (fun a => a <> []) ls.
  Proof.
    revert names. induction l as [|x l IH]; intros names Hf H; cbn [mapM] in H.
    - inversion H; subst. exists []. repeat split; constructor.
    - apply bind_ok in H as (nm & E1 & H). apply bind_ok in H as (nms & E2 & H).
      inversion H; subst names.
      destruct (Hf x nm (or_introl eq_refl) E1) as (a & Ga & Ta & Na).
      destruct (IH nms (fun y n Hy => Hf y n (or_intror Hy)) E2) as (ls & Gl & Tl & Nl).
      exists (a :: ls). cbn [opt_map]. fold (opt_map g). rewrite Ga, Gl.
      repeat split; constructor; assumption.
  Qed.

  Lemma tuple_atoms_nonempty ls : tuple_atoms ls <> [].
  Proof. unfold tuple_atoms, paren. destruct ls as [|a [|b ls]]; discriminate. Qed.

  Lemma item_name_atoms (of_id : N -> result string) (g : N -> option (list tok)) t nm :
    (forall c s, of_id c = Ok s -> exists a, g c = Some a /\ TT s a /\ a <> []) ->
    match rev (t_path t) with [] => true | i :: _ => word_okb i end = true ->
    match path_ident (t_path t) with
    | None => Ok "_"
    | Some ident =>
        let* ps := mapM (fun p => match tp_ty p with None => Ok "_" | Some i => of_id i end)
                        (t_params t) in
        let s := join "," ps in
        if String.eqb s "" then Ok ident else Ok (ident ++ "<" ++ s ++ ">")
    end = Ok nm ->
    exists a,
      match rev (t_path t) with
      | [] => Some [W "_"]
      | ident :: _ =>
          match t_params t with
          | [] => Some [W ident]
          | ps => option_map (fun args => W ident :: angle (sep_by comma args))
                    (opt_map (fun p => match tp_ty p with
                                       | None => Some [W "_"]
                                       | Some i => g i
                                       end) ps)
          end
      end = Some a /\ TT nm a /\ a <> [].
  Proof.
    intros Hof Hw H.
    destruct (path_ident (t_path t)) as [ident|] eqn:Ep.
    - destruct (path_ident_rev _ _ Ep) as [pl Hrev]. rewrite Hrev in *.
      apply bind_ok in H as (ps & Eps & H). cbn zeta in H.
      destruct (mapM_opt_map
                  (fun p => match tp_ty p with None => Ok "_" | Some i => of_id i end)
                  (fun p => match tp_ty p with None => Some [W "_"] | Some i => g i end)
                  (t_params t) ps) as (ls & Gl & Tl & Nl); [|exact Eps|].
      { intros p nm' _ Hp. destruct (tp_ty p) as [i|]; [apply Hof; exact Hp|].
        inversion Hp; subst nm'. exists [W "_"]. split; [reflexivity|].
        split; [intros acc; reflexivity|discriminate]. }
      destruct (t_params t) as [|p0 ps0] eqn:Eparams.
      + cbn [mapM] in Eps. inversion Eps; subst ps. cbn in H. injection H as Hn; subst nm.
        exists [W ident]. split; [reflexivity|]. split; [apply TT_word; exact Hw|discriminate].
      + rewrite Gl. cbn [option_map].
        destruct Tl as [|n0 a0 ns ls' T0 Tl'].
        { cbn [opt_map] in Gl. fold (opt_map (fun p => match tp_ty p with
                                               | None => Some [W "_"] | Some i => g i end)) in Gl.
          destruct (match tp_ty p0 with None => Some [W "_"] | Some i => g i end); [|discriminate].
          destruct (opt_map _ ps0); discriminate. }
        destruct (String.eqb_spec (join "," (n0 :: ns)) "") as [Ej|_].
        * exfalso. apply join_nil_inv in Ej. subst n0. inversion Nl; subst.
          eapply (TT_nonempty "" a0); eauto.
        * injection H as Hn; subst nm. eexists. split; [reflexivity|]. split; [|discriminate].
          apply (TT_app ident [W ident]); [apply TT_word; exact Hw|reflexivity|].
          apply (TT_wrap "<" [P "<"%char] ">" [P ">"%char] (join "," (n0 :: ns))
                         (sep_by comma (a0 :: ls')));
            [apply TC_langle|apply TC_rangle|reflexivity|].
          apply TT_join. constructor; assumption.
    - unfold path_ident in Ep. destruct (t_path t) as [|x l]; [|discriminate]. cbn [rev].
      injection H as Hn; subst nm. exists [W "_"]. split; [reflexivity|].
      split; [intros acc; reflexivity|discriminate].
  Qed.

  Lemma tname_atoms : forall nf id t nm,
    resolve r id = Some t -> tname r nf t = Ok nm ->
    exists a, name_atoms r nf id = Some a /\ TT nm a /\ a <> [].
  Proof.
    induction nf as [|f IH]; intros id t nm Hr H; cbn [tname] in H; [discriminate|].
    cbn [name_atoms]. rewrite Hr.
    assert (Hof : forall c s,
              match resolve r c with Some t' => tname r f t' | None => Panic unwrap_none end = Ok s ->
              exists a, name_atoms r f c = Some a /\ TT s a /\ a <> []).
    { intros c s Hc. destruct (resolve r c) as [t'|] eqn:Ec; [|discriminate]. eapply IH; eassumption. }
    destruct (words_ok_ty id t Hr) as [Hw _].
    destruct (t_def t) as [fs|vs|e|len e|ts|p|e|store order] eqn:Ed.
    - exact (item_name_atoms _ (name_atoms r f) t nm Hof Hw H).
    - exact (item_name_atoms _ (name_atoms r f) t nm Hof Hw H).
    - apply bind_ok in H as (i & Ei & H). injection H as Hn; subst nm.
      destruct (Hof e i Ei) as (a & Ga & Ta & Na). rewrite Ga. cbn [option_map].
      eexists. split; [reflexivity|]. split; [|discriminate].
      apply (TT_wrap "Vec<" [W "Vec"; P "<"%char] ">" [P ">"%char]);
        [apply TC_vec|apply TC_rangle|reflexivity|exact Ta].
    - apply bind_ok in H as (i & Ei & H). injection H as Hn; subst nm.
      destruct (Hof e i Ei) as (a & Ga & Ta & Na). rewrite Ga. cbn [option_map].
      eexists. split; [reflexivity|]. split; [|discriminate].
      apply (TC_TT_app "[" [P "["%char]); [apply TC_lbrack|].
      apply TT_app; [exact Ta|reflexivity|].
      apply (TC_TT_app ";" [P ";"%char]); [apply TC_semi|].
      apply (TT_app _ [W (N_to_string len)] "]" [P "]"%char]);
        [apply TT_word, N_to_string_word|reflexivity|apply TC_TT, TC_rbrack].
    - apply bind_ok in H as (ds & Eds & H). injection H as Hn; subst nm.
      destruct (mapM_opt_map _ (name_atoms r f) _ _ (fun c s _ Hc => Hof c s Hc) Eds)
        as (ls & Gl & Tl & Nl).
      rewrite Gl. cbn [option_map]. eexists. split; [reflexivity|].
      split; [apply TT_tuple; exact Tl|apply tuple_atoms_nonempty].
    - injection H as Hn; subst nm. eexists. split; [reflexivity|]. split; [apply TT_prim|discriminate].
    - apply bind_ok in H as (i & Ei & H). injection H as Hn; subst nm.
      destruct (Hof e i Ei) as (a & Ga & Ta & Na). rewrite Ga. cbn [option_map].
      eexists. split; [reflexivity|]. split; [|discriminate].
      apply (TT_wrap "Compact<" [W "Compact"; P "<"%char] ">" [P ">"%char]);
        [apply TC_compact|apply TC_rangle|reflexivity|exact Ta].
    - injection H as Hn; subst nm. eexists. split; [reflexivity|].
      split; [intros acc; reflexivity|discriminate].
  Qed.
End Names.

Lemma TT_eq s l l' : TT s l -> l = l' -> TT s l'.
Proof. intros H <-. exact H. Qed.

Ltac list_eq :=
  cbn; unfold paren, angle, brace, comma; rewrite <- ?app_assoc; cbn; rewrite <- ?app_assoc; reflexivity.

(** ** the simulation: model cache ~ reader state *)
Section Sim.
  Variable r : registry.
  Hypothesis Hwords : words_okb r = true.
  Hypothesis Hitems : paths_only_on_items r = true.
  Variable nf : nat.

  (** the reader's "started" list = the ids with a path in the cache; its
      completed subtrees = the cached texts of path-less ids *)
  Definition srel (c : cache) (st : sstate) : Prop :=
    (forall j t, resolve r j = Some t -> has_path t = true ->
       existsb (N.eqb j) (fst st) = cache_mem c j) /\
    (forall j t, resolve r j = Some t -> has_path t = false ->
       match cache_get c j with
       | Some (CDone s) =>
           exists tr, find_tree (snd st) j = Some tr /\ TT s (atoms tr) /\ atoms tr <> []
       | _ => find_tree (snd st) j = None
       end).

  Definition sim (rec : cache -> N -> result (string * cache))
                 (visit : sstate -> N -> option (dtree * sstate)) : Prop :=
    forall c ch s c' st, srel c st -> rec c ch = Ok (s, c') ->
      exists tr st', visit st ch = Some (tr, st') /\ TT s (atoms tr) /\ atoms tr <> [] /\ srel c' st'.

  Lemma srel_put_rec c st id t :
    srel c st -> resolve r id = Some t ->
    (has_path t = false -> find_tree (snd st) id = None) ->
    srel (cache_put c id CRec) (if has_path t then id :: fst st else fst st, snd st).
  Proof.
    intros [S1 S2] Hr Hnone. split; cbn [fst snd].
    - intros j tj Hj Hp. rewrite cache_mem_put. rewrite <- (S1 j tj Hj Hp).
      destruct (has_path t) eqn:Ht.
      + cbn [existsb]. rewrite (N.eqb_sym j id). reflexivity.
      + destruct (N.eqb_spec id j) as [->|_]; [|reflexivity].
        rewrite Hr in Hj. inversion Hj; subst tj. congruence.
    - intros j tj Hj Hp. rewrite cache_get_put.
      destruct (N.eqb_spec id j) as [->|_].
      + rewrite Hr in Hj. inversion Hj; subst tj. apply Hnone; exact Hp.
      + apply (S2 j tj Hj Hp).
  Qed.

  Lemma srel_put_done c st id s tr :
    srel c st -> cache_mem c id = true -> TT s (atoms tr) -> atoms tr <> [] ->
    srel (cache_put c id (CDone s)) (fst st, (id, tr) :: snd st).
  Proof.
    intros [S1 S2] Hm Ht Hn. split; cbn [fst snd].
    - intros j tj Hj Hp. rewrite cache_mem_put, (S1 j tj Hj Hp).
      destruct (N.eqb_spec id j) as [<-|_]; [rewrite Hm|]; reflexivity.
    - intros j tj Hj Hp. rewrite cache_get_put. cbn [find_tree].
      destruct (N.eqb id j); [eauto|]. apply (S2 j tj Hj Hp).
  Qed.

  Lemma items_ty id t :
    resolve r id = Some t -> has_path t = true -> is_composite_or_variant (t_def t) = true.
  Proof.
    intros Hr Hp. destruct (resolve_in r id t Hr) as [x Hx].
    unfold paths_only_on_items in Hitems. rewrite forallb_forall in Hitems.
    specialize (Hitems _ Hx). cbn [snd] in Hitems. unfold has_path in Hp.
    destruct (t_path t); [discriminate|exact Hitems].
  Qed.

  Section Policy.
    Variable rec : cache -> N -> result (string * cache).
    Variable visit : sstate -> N -> option (dtree * sstate).
    Hypothesis Hsim : sim rec visit.

    Lemma list_sim : forall ts c ds c' st,
      srel c st -> mapS rec c ts = Ok (ds, c') ->
      exists trs st', visit_list visit st ts = Some (trs, st')
                      /\ Forall2 TT ds (map atoms trs) /\ srel c' st'.
    Proof.
      induction ts as [|x ts IH]; intros c ds c' st Hs H; cbn [mapS] in H.
      - injection H as <- <-. exists [], st. repeat split; [constructor|apply Hs|apply Hs].
      - apply bind_ok in H as ([d c1] & E1 & H). apply bind_ok in H as ([ds' c2] & E2 & H).
        injection H as <- <-.
        destruct (Hsim _ _ _ _ _ Hs E1) as (tr & st1 & V1 & T1 & _ & S1).
        destruct (IH _ _ _ _ S1 E2) as (trs & st2 & V2 & T2 & S2).
        exists (tr :: trs), st2. cbn [visit_list]. rewrite V1, V2.
        split; [reflexivity|]. split; [constructor; assumption|exact S2].
    Qed.

    Definition fview (fs : list field) (trs : list dtree) :=
      map (fun '(f, t) => (f_name f, is_boxed f, t)) (combine fs trs).

    Lemma field_atoms_nonempty x : atoms (snd x) <> [] -> field_atoms atoms x <> [].
    Proof.
      destruct x as [[n b] t]. cbn [snd field_atoms]. intros H.
      destruct n; [discriminate|]. destruct b; [discriminate|exact H].
    Qed.

    Lemma fields_map_sim : forall fs c ds c' st,
      fields_words_okb fs = true ->
      srel c st -> mapS (field_desc rec) c fs = Ok (ds, c') ->
      exists trs st', visit_list visit st (map f_ty fs) = Some (trs, st')
                      /\ srel c' st' /\ List.length trs = List.length fs
                      /\ Forall2 TT ds (map (field_atoms atoms) (fview fs trs))
                      /\ Forall (fun a => a <> []) (map (field_atoms atoms) (fview fs trs)).
    Proof.
      induction fs as [|x fs IH]; intros c ds c' st Hw Hs H; cbn [mapS] in H.
      - injection H as <- <-. exists [], st. repeat split; try constructor; apply Hs.
      - cbn [fields_words_okb forallb] in Hw. apply andb_prop in Hw as [Hwx Hw].
        apply bind_ok in H as ([d c1] & E1 & H). apply bind_ok in H as ([ds' c2] & E2 & H).
        injection H as <- <-.
        unfold field_desc in E1. apply bind_ok in E1 as ([d0 c1'] & E0 & E1).
        injection E1 as <- <-.
        destruct (Hsim _ _ _ _ _ Hs E0) as (tr & st1 & V1 & T1 & N1 & S1).
        destruct (IH _ _ _ _ Hw S1 E2) as (trs & st2 & V2 & S2 & L2 & T2 & N2).
        exists (tr :: trs), st2. cbn [map visit_list]. rewrite V1, V2.
        split; [reflexivity|]. split; [exact S2|]. split; [cbn; lia|].
        unfold fview. cbn [combine map]. fold (fview fs trs).
        assert (Tb : TT (if is_boxed x then "Box<" ++ d0 ++ ">" else d0)
                        (if is_boxed x then W "Box" :: angle (atoms tr) else atoms tr)).
        { destruct (is_boxed x); [|exact T1].
          apply (TT_wrap "Box<" [W "Box"; P "<"%char] ">" [P ">"%char] d0 (atoms tr));
            [apply TC_box|apply TC_rangle|reflexivity|exact T1]. }
        split; [constructor; [|exact T2]|constructor; [|exact N2]].
        + cbn [field_atoms]. destruct (f_name x) as [n|]; [|exact Tb].
          eapply TT_eq.
          * apply (TT_app n [W n]); [apply TT_word; exact Hwx|reflexivity|].
            apply (TC_TT_app ": " [P ":"%char]); [apply TC_colon_sp|exact Tb].
          * reflexivity.
        + apply field_atoms_nonempty. exact N1.
    Qed.

    Lemma fields_sim c fs s c' st :
      fields_words_okb fs = true -> srel c st -> fields_desc rec c fs = Ok (s, c') ->
      exists xs st', visit_fields visit st fs = Some (xs, st')
                     /\ TT s (fields_atoms atoms xs) /\ srel c' st' /\ sep_start s
                     /\ (fs = [] -> xs = []) /\ (fs <> [] -> xs <> [] /\ s <> "()").
    Proof.
      intros Hw Hs H. unfold fields_desc in H. unfold visit_fields.
      destruct fs as [|f0 fs0] eqn:Efs.
      - injection H as <- <-. exists [], st. cbn.
        split; [reflexivity|]. split; [apply TC_TT, TC_unit|]. split; [exact Hs|].
        split; [reflexivity|]. split; [reflexivity|congruence].
      - rewrite <- Efs in *.
        assert (Hne : fs <> []) by (rewrite Efs; discriminate).
        pose proof (all_named_unnamed_excl fs Hne) as Hex.
        assert (Hcore : forall ds c1, mapS (field_desc rec) c fs = Ok (ds, c1) ->
                  exists trs st', visit_list visit st (map f_ty fs) = Some (trs, st')
                    /\ srel c1 st' /\ fview fs trs <> []
                    /\ (exists f1 t1 rest, fview fs trs = (f_name f1, is_boxed f1, t1) :: rest
                                           /\ In f1 fs)
                    /\ TT (join "," ds) (sep_by comma (map (field_atoms atoms) (fview fs trs)))
                    /\ join "," ds <> "").
        { intros ds c1 E.
          destruct (fields_map_sim fs c ds c1 st Hw Hs E) as (trs & st1 & V & S1 & L & T & Nn).
          exists trs, st1. split; [exact V|]. split; [exact S1|].
          rewrite Efs in *. destruct trs as [|t0 trs0]; [cbn in L; lia|].
          unfold fview in *. cbn [combine map] in *.
          split; [discriminate|]. split; [exists f0, t0; eexists; split; [reflexivity|left; reflexivity]|].
          split; [apply TT_join; exact T|].
          inversion T as [|d0 a0 ds0 ls0 Td0 Tds0]; subst. intros Hj.
          apply join_nil_inv in Hj. subst d0. inversion Nn; subst.
          eapply (TT_nonempty "" _ Td0); eauto. }
        destruct (all_named fs) eqn:Ean, (all_unnamed fs) eqn:Eau; cbn in Hex; try discriminate;
          cbn [andb negb orb] in *; try discriminate.
        + apply bind_ok in H as ([ds c1] & E & H). injection H as <- <-.
          destruct (Hcore _ _ E) as (trs & st1 & V & S1 & Nx & (f1 & t1 & rest & Ex & Hin) & TJ & NJ).
          rewrite V. eexists _, st1. split; [reflexivity|].
          fold (fview fs trs). rewrite Ex in *.
          assert (exists n, f_name f1 = Some n) as [n En].
          { unfold all_named in Ean. rewrite forallb_forall in Ean. specialize (Ean _ Hin).
            destruct (f_name f1); [eauto|discriminate]. }
          split.
          { unfold fields_atoms. rewrite En in TJ |- *.
            apply (TT_wrap "{" [P "{"%char] "}" [P "}"%char] (join "," ds));
              [apply TC_lbrace|apply TC_rbrace|reflexivity|exact TJ]. }
          split; [exact S1|]. split; [reflexivity|]. split; [congruence|].
          intros _. split; [discriminate|cbn; discriminate].
        + apply bind_ok in H as ([ds c1] & E & H). injection H as <- <-.
          destruct (Hcore _ _ E) as (trs & st1 & V & S1 & Nx & (f1 & t1 & rest & Ex & Hin) & TJ & NJ).
          rewrite V. eexists _, st1. split; [reflexivity|].
          fold (fview fs trs). rewrite Ex in *.
          assert (f_name f1 = None) as En.
          { unfold all_unnamed in Eau. rewrite forallb_forall in Eau. specialize (Eau _ Hin).
            destruct (f_name f1); [discriminate|reflexivity]. }
          split.
          { unfold fields_atoms. rewrite En in TJ |- *.
            apply (TT_wrap "(" [P "("%char] ")" [P ")"%char] (join "," ds));
              [apply TC_lparen|apply TC_rparen|reflexivity|exact TJ]. }
          split; [exact S1|]. split; [reflexivity|]. split; [congruence|].
          intros _. split; [discriminate|]. intros Hu. apply paren_unit in Hu. contradiction.
    Qed.
  
    Definition vatoms (v : string * list (option string * bool * dtree)) : list tok :=
      W (fst v) :: match snd v with [] => [] | fs => fields_atoms atoms fs end.

    Lemma variants_sim : forall vs c ds c' st,
      forallb (fun v => word_okb (v_name v) && fields_words_okb (v_fields v)) vs = true ->
      srel c st -> mapS (variant_desc rec) c vs = Ok (ds, c') ->
      exists xs st', visit_variants visit st vs = Some (xs, st') /\ srel c' st'
                     /\ Forall2 TT ds (map vatoms xs).
    Proof.
      induction vs as [|v vs IH]; intros c ds c' st Hw Hs H; cbn [mapS] in H.
      - injection H as <- <-. exists [], st. repeat split; try constructor; apply Hs.
      - cbn [forallb] in Hw. apply andb_prop in Hw as [Hwv Hw]. apply andb_prop in Hwv as [Hwn Hwf].
        apply bind_ok in H as ([d c1] & E1 & H). apply bind_ok in H as ([ds' c2] & E2 & H).
        injection H as <- <-.
        unfold variant_desc in E1. apply bind_ok in E1 as ([fsd c1'] & Ef & E1).
        injection E1 as <- <-.
        destruct (fields_sim c (v_fields v) fsd c1' st Hwf Hs Ef)
          as (xs & st1 & V1 & T1 & S1 & Sep & Hnil & Hcons).
        destruct (IH _ _ _ _ Hw S1 E2) as (xss & st2 & V2 & S2 & T2).
        exists ((v_name v, xs) :: xss), st2. cbn [visit_variants]. rewrite V1, V2.
        split; [reflexivity|]. split; [exact S2|]. cbn [map]. constructor; [|exact T2].
        unfold vatoms. cbn [fst snd].
        destruct (v_fields v) as [|f0 fs0] eqn:Efs.
        + rewrite (Hnil eq_refl). cbn in Ef. injection Ef as <- <-. cbn.
          apply TT_word; exact Hwn.
        + destruct (Hcons ltac:(discriminate)) as [Hx Hu].
          destruct (String.eqb_spec fsd "()") as [?|_]; [contradiction|].
          destruct xs as [|x0 xs0]; [congruence|].
          eapply TT_eq.
          * apply (TT_app (v_name v) [W (v_name v)]); [apply TT_word; exact Hwn|exact Sep|exact T1].
          * reflexivity.
    Qed.
  End Policy.

  (** *** [Transformer::resolve] against the reader, by induction on the fuel *)
  Lemma spec_sim : forall f, sim (dresolve r nf f) (spec_tree r nf f).
  Proof.
    induction f as [|f IH]; intros c id s c' st Hs H; cbn [dresolve] in H; [discriminate|].
    destruct (resolve r id) as [t|] eqn:Hr; [|discriminate].
    cbn [spec_tree]. rewrite Hr.
    pose proof (is_named_has_path t) as Hnp.
    destruct Hs as [S1 S2]. pose proof (conj S1 S2) as Hs.
    (* by name *)
    assert (Hby : is_named t = true -> cache_mem c id = true ->
              (let* n := tname r nf t in Ok (n, c)) = Ok (s, c') ->
              exists tr st', (if has_path t && existsb (N.eqb id) (fst st)
                              then option_map (fun n => (DRef n, st)) (name_atoms r nf id)
                              else None (A := dtree * sstate)) = Some (tr, st')
                             /\ TT s (atoms tr) /\ atoms tr <> [] /\ srel c' st').
    { intros Hn Hm E. apply bind_ok in E as (nm & En & E). injection E as <- <-.
      rewrite Hnp in Hn. rewrite Hn, (S1 id t Hr Hn), Hm. cbn [andb].
      destruct (tname_atoms r Hwords nf id t nm Hr En) as (a & Ga & Ta & Na).
      rewrite Ga. cbn [option_map]. exists (DRef a), st. repeat split; assumption. }
    (* expansion *)
    assert (Hexp :
      (has_path t = true -> cache_mem c id = false) ->
      (has_path t = false -> find_tree (snd st) id = None) ->
      (let* (d, c1) := ty_desc (tname r nf) (dresolve r nf f) (cache_put c id CRec) t in
       Ok (d, cache_put c1 id (CDone d))) = Ok (s, c') ->
      exists tr st', spec_tree r nf (S f) st id = Some (tr, st')
                     /\ TT s (atoms tr) /\ atoms tr <> [] /\ srel c' st').
    { intros Hfresh Hnone E.
      apply bind_ok in E as ([d c1] & E & E'). injection E' as Ed Ec. subst d c'.
      unfold ty_desc in E. apply bind_ok in E as (nm & Enm & E).
      apply bind_ok in E as ([body c2] & Eb & E). injection E as Es Ec. subst c2.
      set (c0 := cache_put c id CRec) in *.
      set (st0 := (if has_path t then id :: fst st else fst st, snd st)).
      assert (Hs0 : srel c0 st0) by (apply srel_put_rec; assumption).
      (* the cache only grows along the children *)
      assert (Hext : ext c0 c1).
      { destruct (typedef_desc_chain _ _ _ _ _ Eb) as (trc & C & _ & _).
        destruct (chain_inv r nf _ (dresolve_inv r nf f) _ _ _ C) as (X & _). exact X. }
      assert (Hmem1 : cache_mem c1 id = true).
      { apply Hext. unfold c0. rewrite cache_mem_put, N.eqb_refl. reflexivity. }
      (* the name *)
      assert (Hname : exists a,
                (if has_path t then name_atoms r nf id else Some []) = Some a /\ TT nm a).
      { rewrite Hnp in Enm. destruct (has_path t).
        - destruct (tname_atoms r Hwords nf id t nm Hr Enm) as (a & Ga & Ta & _). eauto.
        - injection Enm as <-. exists []. split; [reflexivity|apply TT_nil]. }
      destruct Hname as (a & Ga & Ta).
      destruct (words_ok_ty r Hwords id t Hr) as [_ Hwd].
      (* the reader takes the expansion branch *)
      cbn [spec_tree]. rewrite Hr.
      assert (Hbr : has_path t && existsb (N.eqb id) (fst st) = false).
      { destruct (has_path t) eqn:Hp; [|reflexivity].
        rewrite (S1 id t Hr Hp), (Hfresh eq_refl). reflexivity. }
      rewrite Hbr.
      assert (Hft : (if has_path t then None else find_tree (snd st) id) = None).
      { destruct (has_path t); [reflexivity|apply Hnone; reflexivity]. }
      rewrite Hft. fold st0. rewrite Ga.
      (* finish: from the tree of the definition to the cached entry *)
      assert (Hfin : forall tr st1,
                srel c1 st1 -> TT s (atoms tr) -> atoms tr <> [] ->
                exists tr' st', (let '(tr0, (started', done')) := (tr, st1) in
                                 Some (tr0, (started', (id, tr0) :: done'))) = Some (tr', st')
                                /\ TT s (atoms tr') /\ atoms tr' <> []
                                /\ srel (cache_put c1 id (CDone s)) st').
      { intros tr [started' done'] Hs1 Tt Nt. eexists _, _. split; [reflexivity|].
        split; [exact Tt|]. split; [exact Nt|].
        apply (srel_put_done c1 (started', done') id s tr Hs1 Hmem1 Tt Nt). }
      (* a definition that is not a struct/enum has no path: no prefix, no name *)
      assert (Hplain : is_composite_or_variant (t_def t) = false -> nm = "" /\ a = []).
      { intros Hd. destruct (has_path t) eqn:Hp.
        - rewrite (items_ty id t Hr Hp) in Hd. discriminate.
        - rewrite Hnp in Enm. injection Enm as <-. injection Ga as <-. split; reflexivity. }
      destruct (t_def t) as [fs|vs|e|len e|ts|p|e|store order] eqn:Ed;
        cbn [typedef_desc def_prefix is_composite_or_variant] in *.
      - destruct (fields_sim _ _ (IH) c0 fs body c1 st0 Hwd Hs0 Eb)
          as (xs & st1 & V & Tb & Hs1 & Sep & _ & _).
        rewrite V. cbn [option_map].
        apply Hfin; [exact Hs1| |discriminate].
        rewrite <- Es. eapply TT_eq.
        + apply (TC_TT_app "struct " [W "struct"]); [apply TC_struct|].
          apply (TT_app nm a body); [exact Ta|exact Sep|exact Tb].
        + reflexivity.
      - apply bind_ok in Eb as ([ds c2] & Ev & Eb). injection Eb as Eb Ec. subst c2.
        destruct (variants_sim _ _ (IH) vs c0 ds c1 st0 Hwd Hs0 Ev) as (xs & st1 & V & Hs1 & Tv).
        rewrite V. cbn [option_map].
        apply Hfin; [exact Hs1| |discriminate].
        rewrite <- Es, <- Eb. eapply TT_eq.
        + apply (TC_TT_app "enum " [W "enum"]); [apply TC_enum|].
          apply (TT_app nm a); [exact Ta|reflexivity|].
          apply (TT_wrap "{" [P "{"%char] "}" [P "}"%char] (join "," ds));
            [apply TC_lbrace|apply TC_rbrace|reflexivity|apply TT_join; exact Tv].
        + reflexivity.
      - destruct (Hplain eq_refl) as [-> ->].
        apply bind_ok in Eb as ([x c2] & Ex & Eb). injection Eb as Eb Ec. subst c2.
        destruct (IH _ _ _ _ _ Hs0 Ex) as (tx & st1 & V & Tx & Nx & Hs1).
        rewrite V. cbn [option_map].
        apply Hfin; [exact Hs1| |discriminate].
        rewrite <- Es, <- Eb. cbn [append]. eapply TT_eq.
        + apply (TT_wrap "Vec<" [W "Vec"; P "<"%char] ">" [P ">"%char] x (atoms tx));
            [apply TC_vec|apply TC_rangle|reflexivity|exact Tx].
        + reflexivity.
      - destruct (Hplain eq_refl) as [-> ->].
        apply bind_ok in Eb as ([x c2] & Ex & Eb). injection Eb as Eb Ec. subst c2.
        destruct (IH _ _ _ _ _ Hs0 Ex) as (tx & st1 & V & Tx & Nx & Hs1).
        rewrite V. cbn [option_map].
        apply Hfin; [exact Hs1| |discriminate].
        rewrite <- Es, <- Eb. cbn [append]. eapply TT_eq.
        + apply (TC_TT_app "[" [P "["%char]); [apply TC_lbrack|].
          apply (TT_app x (atoms tx)); [exact Tx|reflexivity|].
          apply (TC_TT_app "; " [P ";"%char]); [apply TC_semi_sp|].
          apply (TT_app _ [W (N_to_string len)] "]" [P "]"%char]);
            [apply TT_word, N_to_string_word|reflexivity|apply TC_TT, TC_rbrack].
        + list_eq.
      - destruct (Hplain eq_refl) as [-> ->].
        apply bind_ok in Eb as ([ds c2] & Ex & Eb). injection Eb as Eb Ec. subst c2.
        destruct (list_sim _ _ (IH) ts c0 ds c1 st0 Hs0 Ex) as (trs & st1 & V & Tl & Hs1).
        rewrite V. cbn [option_map].
        apply Hfin; [exact Hs1| |apply tuple_atoms_nonempty].
        rewrite <- Es, <- Eb. cbn [append atoms]. apply TT_tuple. exact Tl.
      - destruct (Hplain eq_refl) as [-> ->].
        injection Eb as Eb Ec. subst c1.
        apply Hfin; [exact Hs0| |discriminate].
        rewrite <- Es, <- Eb. cbn [append atoms]. apply TT_prim.
      - destruct (Hplain eq_refl) as [-> ->].
        apply bind_ok in Eb as ([x c2] & Ex & Eb). injection Eb as Eb Ec. subst c2.
        destruct (IH _ _ _ _ _ Hs0 Ex) as (tx & st1 & V & Tx & Nx & Hs1).
        rewrite V. cbn [option_map].
        apply Hfin; [exact Hs1| |discriminate].
        rewrite <- Es, <- Eb. cbn [append]. eapply TT_eq.
        + apply (TT_wrap "Compact<" [W "Compact"; P "<"%char] ">" [P ">"%char] x (atoms tx));
            [apply TC_compact|apply TC_rangle|reflexivity|exact Tx].
        + reflexivity.
      - destruct (Hplain eq_refl) as [-> ->].
        apply bind_ok in Eb as ([o c2] & Eo & Eb). apply bind_ok in Eb as ([s2 c3] & Est & Eb).
        injection Eb as Eb Ec. subst c3.
        destruct (IH _ _ _ _ _ Hs0 Eo) as (to & st1 & Vo & To & No & Hs1).
        destruct (IH _ _ _ _ _ Hs1 Est) as (ts2 & st2 & Vs & Ts & Ns & Hs2).
        rewrite Vo, Vs.
        apply Hfin; [exact Hs2| |discriminate].
        rewrite <- Es, <- Eb. cbn [append]. eapply TT_eq.
        + apply (TC_TT_app "BitSequence(" [W "BitSequence"; P "("%char]); [apply TC_bits|].
          apply (TT_app o (atoms to)); [exact To|reflexivity|].
          apply (TC_TT_app ", " [P ","%char]); [apply TC_comma_sp|].
          apply (TT_app s2 (atoms ts2) ")" [P ")"%char]); [exact Ts|reflexivity|apply TC_TT, TC_rparen].
        + list_eq. }
    (* dispatch on the cache entry *)
    destruct (cache_get c id) as [[|s0]|] eqn:Eg.
    - assert (Hm : cache_mem c id = true) by (unfold cache_mem; rewrite Eg; reflexivity).
      destruct (is_named t) eqn:Hn.
      + destruct (Hby eq_refl Hm H) as (tr & st' & E & R).
        rewrite <- Hnp in E |- *. cbn [andb] in *.
        destruct (existsb (N.eqb id) (fst st)); [|discriminate].
        exists tr, st'. split; [exact E|exact R].
      + cbn [spec_tree] in Hexp. rewrite Hr in Hexp. apply Hexp; [congruence| |exact H].
        intros Hp. specialize (S2 id t Hr Hp). rewrite Eg in S2. exact S2.
    - assert (Hm : cache_mem c id = true) by (unfold cache_mem; rewrite Eg; reflexivity).
      destruct (is_named t) eqn:Hn.
      + destruct (Hby eq_refl Hm H) as (tr & st' & E & R).
        rewrite <- Hnp in E |- *. cbn [andb] in *.
        destruct (existsb (N.eqb id) (fst st)); [|discriminate].
        exists tr, st'. split; [exact E|exact R].
      + injection H as <- <-. rewrite <- Hnp. cbn [andb].
        assert (Hp : has_path t = false) by congruence.
        specialize (S2 id t Hr Hp). rewrite Eg in S2. destruct S2 as (tr & Ft & Tt & Nt).
        rewrite Ft. exists tr, st. split; [reflexivity|]. split; [exact Tt|]. split; [exact Nt|exact Hs].
    - cbn [spec_tree] in Hexp. rewrite Hr in Hexp. apply Hexp; [| |exact H].
      + intros _. unfold cache_mem. rewrite Eg. reflexivity.
      + intros Hp. specialize (S2 id t Hr Hp). rewrite Eg in S2. exact S2.
  Qed.
End Sim.

(** ** C13_lockstep *)
Theorem describe_lockstep r id s :
  words_okb r = true -> paths_only_on_items r = true ->
  describe r id = Ok s ->
  exists tr st,
    spec_tree r (name_fuel r) (desc_fuel r) ([], []) id = Some (tr, st) /\ tokens s = atoms tr.
Proof.
  intros Hw Hi H. unfold describe, describe_with in H.
  apply bind_ok in H as ([d c'] & E & H). injection H as <-.
  assert (S0 : srel r [] ([], [])).
  { split; intros j t _ _; reflexivity. }
  destruct (spec_sim r Hw Hi (name_fuel r) (desc_fuel r) [] id d c' ([], []) S0 E)
    as (tr & st & V & T & _ & _).
  exists tr, st. split; [exact V|apply TT_tokens; exact T].
Qed.

(** non-vacuity: the cyclic example registry is in the class, and the reading
    of its description *)
Example ex_lockstep_hyps :
  words_okb ex_registry = true /\ paths_only_on_items ex_registry = true.
Proof. vm_compute. split; reflexivity. Qed.

Example ex_lockstep_tokens :
  option_map (fun x => atoms (fst x))
    (spec_tree ex_registry (name_fuel ex_registry) (desc_fuel ex_registry) ([], []) 0)
  = Some (tokens "struct A{b: Vec<struct B{a: Box<enum Option<A>{None,Some(A)}>,t: (Vec<B>,Vec<B>),k: [Compact<u32>; 3]}>}").
Proof. vm_compute. reflexivity. Qed.
