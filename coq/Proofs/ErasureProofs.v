(** C09, token level frames of the two boolean switches (docs, codec).

    1. generic list lemma: if [on] is [off] with governed groups inserted ([ins_rel]) and [off]
       does not contain the contiguous tokens  # [ kw , then erasing the groups of [on] gives
       exactly [off];
    2. the alignment itself, unconditionally, through item emission, the module tree and
       generation (all outcomes: the same error / panic on both sides);
    3. the end-to-end erasure theorems. *)
From Coq Require Import List NArith String Bool Ascii Lia.
From V Require Import Base.Util Base.Strings Base.Result Model.Registry Model.Settings Model.Subst
  Model.TypePath Model.Derives Model.Generate Model.Emit Model.Equal Model.Switches Model.Inputs
  Model.Erasure
  Proofs.GenProofs Proofs.TpMap Proofs.EmitMap Proofs.FramesIR Proofs.FramesGen Proofs.Frames
  Proofs.FrameRel.
Import ListNotations.
Open Scope string_scope. Open Scope list_scope.

(** * 1. the generic eraser *)
Section Eraser.
  Variable grp : tokens -> nat.
  Variable kw : string.
  Variable G : tokens -> Prop.
  (** the recogniser finds every group of [G] (whatever follows it) ... *)
  Hypothesis G_len : forall g rest, G g -> grp (g ++ rest) = List.length g.
  Hypothesis G_head : forall g, G g -> exists tl, g = "#" :: tl.
  (** ... and whatever it finds starts with  # [ kw *)
  Hypothesis grp_sound : forall l n, grp l = S n -> exists tl, l = "#" :: "[" :: kw :: tl.
  Hypothesis kw_not_hash : kw <> "#".

  Lemma erase_skip a rest :
    erase_from grp (List.length a) (a ++ rest) = erase_from grp 0%nat rest.
  Proof.
    induction a as [|t a IH]; [reflexivity|]. cbn [List.length app erase_from]. exact IH.
  Qed.

  Lemma erase_group g rest : G g -> erase_from grp 0%nat (g ++ rest) = erase_from grp 0%nat rest.
  Proof.
    intros Hg. pose proof (G_len g rest Hg) as Hl.
    destruct (G_head g Hg) as (tl & ->).
    cbn [app] in *. cbn [erase_from]. rewrite Hl. cbn [List.length]. apply erase_skip.
  Qed.

  Definition blocks_ok (bs : list block) : Prop := forall g, In (BGrp g) bs -> G g.

  Lemma blocks_ok_tail b bs : blocks_ok (b :: bs) -> blocks_ok bs.
  Proof. intros H g Hg. apply H. right. exact Hg. Qed.

  (** a token other than [#] at the head of the on-list is a kept token *)
  Lemma on_of_head bs x rest :
    blocks_ok bs -> on_of bs = x :: rest -> x <> "#" ->
    exists bs', bs = BKeep x :: bs' /\ on_of bs' = rest.
  Proof.
    intros Hok E Hx. destruct bs as [|[t|g] bs]; [discriminate E| |].
    - cbn in E. inversion E; subst. exists bs. split; reflexivity.
    - exfalso. destruct (G_head g (Hok g (or_introl eq_refl))) as (tl & ->).
      cbn in E. inversion E; subst. apply Hx. reflexivity.
  Qed.

  Lemma has_open_tail a l : has_open kw (a :: l) = false -> has_open kw l = false.
  Proof. cbn [has_open]. intros H. apply orb_false_iff in H. tauto. Qed.

  Theorem erase_blocks bs :
    blocks_ok bs -> has_open kw (off_of bs) = false ->
    erase_from grp 0%nat (on_of bs) = off_of bs.
  Proof.
    induction bs as [|[t|g] bs IH]; intros Hok Hno; [reflexivity| |].
    - change (on_of (BKeep t :: bs)) with (t :: on_of bs).
      change (off_of (BKeep t :: bs)) with (t :: off_of bs) in *.
      cbn [erase_from].
      destruct (grp (t :: on_of bs)) as [|n] eqn:Eg.
      + f_equal. apply IH; [eapply blocks_ok_tail; eauto|eapply has_open_tail; eauto].
      + exfalso. destruct (grp_sound _ _ Eg) as (tl & E). inversion E as [[Et Eon]].
        pose proof (blocks_ok_tail _ _ Hok) as Hok'.
        destruct (on_of_head bs "[" (kw :: tl) Hok' Eon) as (bs1 & -> & Eon1); [discriminate|].
        pose proof (blocks_ok_tail _ _ Hok') as Hok1.
        destruct (on_of_head bs1 kw tl Hok1 Eon1 kw_not_hash) as (bs2 & -> & _).
        subst t. cbn in Hno. unfold tok in Hno. rewrite !String.eqb_refl in Hno. discriminate Hno.
    - change (on_of (BGrp g :: bs)) with (g ++ on_of bs).
      change (off_of (BGrp g :: bs)) with (off_of bs) in *.
      rewrite erase_group by (apply Hok; left; reflexivity).
      apply IH; [eapply blocks_ok_tail; eauto|exact Hno].
  Qed.

  Lemma on_of_app a b : on_of (a ++ b) = on_of a ++ on_of b.
  Proof. unfold on_of. apply flat_map_app. Qed.
  Lemma off_of_app a b : off_of (a ++ b) = off_of a ++ off_of b.
  Proof. unfold off_of. apply flat_map_app. Qed.

  Lemma ins_rel_blocks on off :
    ins_rel G on off -> exists bs, blocks_ok bs /\ on = on_of bs /\ off = off_of bs.
  Proof.
    induction 1 as [l|g Hg|x1 x2 y1 y2 _ (b1 & O1 & E1 & F1) _ (b2 & O2 & E2 & F2)].
    - exists (map BKeep l). split; [|split].
      + intros g Hg. apply in_map_iff in Hg as (t & E & _). discriminate E.
      + induction l as [|t l IH]; [reflexivity|]. cbn [map]. change (t :: l = t :: on_of (map BKeep l)).
        f_equal. exact IH.
      + induction l as [|t l IH]; [reflexivity|]. cbn [map]. change (t :: l = t :: off_of (map BKeep l)).
        f_equal. exact IH.
    - exists [BGrp g]. split; [|split].
      + intros g' [E|[]]. inversion E; subst. exact Hg.
      + cbn. rewrite app_nil_r. reflexivity.
      + reflexivity.
    - exists (b1 ++ b2). split; [|split].
      + intros g Hg. apply in_app_or in Hg as [Hg|Hg]; [apply O1|apply O2]; exact Hg.
      + rewrite on_of_app, E1, E2. reflexivity.
      + rewrite off_of_app, F1, F2. reflexivity.
  Qed.

  Theorem erase_ins_rel on off :
    ins_rel G on off -> has_open kw off = false -> erase_from grp 0%nat on = off.
  Proof.
    intros H Hno. destruct (ins_rel_blocks on off H) as (bs & Hok & -> & ->).
    apply erase_blocks; assumption.
  Qed.
End Eraser.

Lemma has_open_no_word kw l : ~ In kw l -> has_open kw l = false.
Proof.
  induction l as [|a l IH]; intros Hn; [reflexivity|].
  cbn [has_open]. rewrite IH by (intros H; apply Hn; right; exact H).
  rewrite orb_false_r.
  destruct l as [|b [|c l']]; rewrite ?andb_false_r; try reflexivity.
  destruct (tok kw c) eqn:E; [|rewrite !andb_false_r; reflexivity].
  exfalso. unfold tok in E. apply String.eqb_eq in E. subst c. apply Hn. right. right. left. reflexivity.
Qed.

(** [ins_rel G] is reflexive and closed under concatenation *)
Lemma ins_refl (G : tokens -> Prop) l : ins_rel G l l.
Proof. apply ins_same. Qed.
Lemma ins_app' (G : tokens -> Prop) x1 x2 y1 y2 : ins_rel G x1 x2 -> ins_rel G y1 y2 -> ins_rel G (x1 ++ y1) (x2 ++ y2).
Proof. apply ins_app. Qed.
Lemma ins_cons (G : tokens -> Prop) x l1 l2 : ins_rel G l1 l2 -> ins_rel G (x :: l1) (x :: l2).
Proof. intros H. change (ins_rel G ([x] ++ l1) ([x] ++ l2)). apply ins_app; [apply ins_same|exact H]. Qed.
Lemma ins_grp_l (G : tokens -> Prop) g l1 l2 : G g -> ins_rel G l1 l2 -> ins_rel G (g ++ l1) l2.
Proof. intros Hg H. change l2 with ([] ++ l2). apply ins_app; [apply ins_grp; exact Hg|exact H]. Qed.
Lemma ins_concat (G : tokens -> Prop) l1 l2 : Forall2 (ins_rel G) l1 l2 -> ins_rel G (List.concat l1) (List.concat l2).
Proof. induction 1; cbn [List.concat]; [apply ins_same|apply ins_app; assumption]. Qed.

Ltac itok :=
  repeat first [ assumption | apply ins_same | apply ins_app | apply ins_cons ].

(** * 2. the recognisers *)
Lemma matchb3 a b c pat l :
  matchb (tok a :: tok b :: tok c :: pat) l = true -> exists tl, l = a :: b :: c :: tl.
Proof.
  destruct l as [|x [|y [|z tl]]]; cbn [matchb]; intros H;
    rewrite ?andb_false_r in H; try discriminate H.
  apply andb_true_iff in H as [Hx H]. apply andb_true_iff in H as [Hy H].
  apply andb_true_iff in H as [Hz _]. unfold tok in *.
  apply String.eqb_eq in Hx, Hy, Hz. subst. eauto.
Qed.

Lemma is_str_lit_lit d : is_str_lit (lit_string d) = true.
Proof. reflexivity. Qed.

Lemma doc_grp_len g rest : doc_group g -> group_len [pat_doc] (g ++ rest) = List.length g.
Proof. intros (d & ->). reflexivity. Qed.
Lemma doc_grp_head g : doc_group g -> exists tl, g = "#" :: tl.
Proof. intros (d & ->). eexists; reflexivity. Qed.
Lemma doc_grp_sound l n : group_len [pat_doc] l = S n -> exists tl, l = "#" :: "[" :: "doc" :: tl.
Proof.
  cbn [group_len]. destruct (matchb pat_doc l) eqn:E; [|discriminate].
  intros _. exact (matchb3 _ _ _ _ _ E).
Qed.

Definition codec_pats : list pattern := [pat_codec_compact; pat_codec_skip; pat_codec_index].

Lemma codec_grp_len g rest : codec_group g -> group_len codec_pats (g ++ rest) = List.length g.
Proof. intros [->|[->|(i & ->)]]; reflexivity. Qed.
Lemma codec_grp_head g : codec_group g -> exists tl, g = "#" :: tl.
Proof. intros [->|[->|(i & ->)]]; eexists; reflexivity. Qed.
Lemma codec_grp_sound l n : group_len codec_pats l = S n -> exists tl, l = "#" :: "[" :: "codec" :: tl.
Proof.
  unfold codec_pats. cbn [group_len].
  destruct (matchb pat_codec_compact l) eqn:E1; [intros _; exact (matchb3 _ _ _ _ _ E1)|].
  destruct (matchb pat_codec_skip l) eqn:E2; [intros _; exact (matchb3 _ _ _ _ _ E2)|].
  destruct (matchb pat_codec_index l) eqn:E3; [intros _; exact (matchb3 _ _ _ _ _ E3)|].
  discriminate.
Qed.

(** the two list-level theorems *)
Theorem erase_doc_ins_rel on off :
  ins_rel doc_group on off -> has_open "doc" off = false -> erase_doc_attrs on = off.
Proof.
  apply (erase_ins_rel (group_len [pat_doc]) "doc" doc_group doc_grp_len doc_grp_head doc_grp_sound).
  discriminate.
Qed.

Theorem erase_codec_ins_rel on off :
  ins_rel codec_group on off -> has_open "codec" off = false -> erase_codec_attrs on = off.
Proof.
  apply (erase_ins_rel (group_len codec_pats) "codec" codec_group
                       codec_grp_len codec_grp_head codec_grp_sound).
  discriminate.
Qed.

(** * 3. alignment of the emitted tokens *)
Lemma mapM_rel_map {A A' B B'} (Q : B -> B' -> Prop) (f : A -> result B) (g : A' -> result B')
      (h : A -> A') l :
  (forall x, In x l -> res_rel Q (f x) (g (h x))) ->
  res_rel (Forall2 Q) (mapM f l) (mapM g (map h l)).
Proof.
  intros H. apply mapM_rel. induction l as [|x l IH]; [constructor|].
  cbn [map]. constructor; [apply H; left; reflexivity|].
  apply IH. intros y Hy. apply H. right. exact Hy.
Qed.

Lemma res_rel_refl {A} (R : A -> A -> Prop) (x : result A) : (forall a, R a a) -> res_rel R x x.
Proof. intros H. destruct x; cbn [res_rel]; auto. Qed.

(** ** docs *)
Lemma ins_doc_tokens docs : ins_rel doc_group (doc_tokens docs) [].
Proof.
  unfold doc_tokens. induction docs as [|d docs IH]; [apply ins_same|].
  cbn [flat_map]. apply ins_grp_l; [exists d; reflexivity|exact IH].
Qed.

Lemma ins_doc_tokens_app docs l1 l2 :
  ins_rel doc_group l1 l2 -> ins_rel doc_group (doc_tokens docs ++ l1) (doc_tokens [] ++ l2).
Proof. intros H. apply ins_app; [apply ins_doc_tokens|exact H]. Qed.

Theorem docs_align_item s ir :
  res_rel (ins_rel doc_group) (type_ir_tokens s ir) (type_ir_tokens s (strip_docs_ir ir)).
Proof.
  destruct ir as [ps un dv cd k]. unfold type_ir_tokens, strip_docs_ir.
  cbn [ti_params ti_unused ti_derives ti_codec ti_kind].
  destruct k as [c|name docs vs]; cbn [strip_docs_kind].
  - cbn [strip_docs_ci ci_kind ci_name ci_docs].
    destruct (struct_field_tokens s (ci_kind c) (phantom_tokens un) cd) as [fields|e|m];
      cbn [bind res_rel]; try reflexivity.
    apply ins_app; [apply ins_same|]. apply ins_doc_tokens_app. apply ins_same.
  - eapply bind_rel.
    + apply (mapM_rel_map (ins_rel doc_group)
               (fun '(idx, c) =>
                  let* fields := enum_field_tokens s (ci_kind c) cd in
                  Ok ((if cd then codec_index idx else []) ++
                      doc_tokens (ci_docs c) ++ [ci_name c] ++ fields ++ [","]))
               (fun '(idx, c) =>
                  let* fields := enum_field_tokens s (ci_kind c) cd in
                  Ok ((if cd then codec_index idx else []) ++
                      doc_tokens (ci_docs c) ++ [ci_name c] ++ fields ++ [","]))
               (fun x => (fst x, strip_docs_ci (snd x)))).
      intros [idx c] _. cbn [fst snd strip_docs_ci ci_kind ci_name ci_docs].
      destruct (enum_field_tokens s (ci_kind c) cd) as [fields|e|m]; cbn [bind res_rel]; try reflexivity.
      apply ins_app; [apply ins_same|]. apply ins_doc_tokens_app. apply ins_same.
    + intros l l' Hl. cbn [res_rel]. pose proof (ins_concat _ _ _ Hl) as Hc.
      apply ins_app; [apply ins_same|]. apply ins_doc_tokens_app.
      apply ins_app; [apply ins_same|]. apply ins_app; [apply ins_same|].
      apply ins_app; [apply ins_same|]. apply ins_app; [exact Hc|apply ins_same].
Qed.

(** ** codec *)
Lemma ins_compact_attr_of f : ins_rel codec_group (compact_attr_of true f) (compact_attr_of false f).
Proof.
  unfold compact_attr_of. rewrite andb_false_r, andb_true_r.
  destruct (fi_compact f); [apply ins_grp; left; reflexivity|apply ins_same].
Qed.

Lemma ins_codec_skip : ins_rel codec_group codec_skip [].
Proof. apply ins_grp. right; left; reflexivity. Qed.

Lemma ins_codec_index i : ins_rel codec_group (codec_index i) [].
Proof. apply ins_grp. right; right. exists i. reflexivity. Qed.

Lemma codec_align_struct_fields s k ph :
  res_rel (ins_rel codec_group) (struct_field_tokens s k ph true) (struct_field_tokens s k ph false).
Proof.
  destruct k as [|fs|fs]; unfold struct_field_tokens.
  - destruct ph; cbn [res_rel]; apply ins_same.
  - eapply bind_rel.
    + apply mapM_rel. apply Forall2_same. intros [n f] _.
      destruct (field_tokens s f) as [t|e|m]; cbn [bind res_rel]; try reflexivity.
      apply ins_app; [apply ins_compact_attr_of|apply ins_same].
    + intros l l' Hl. cbn [res_rel]. pose proof (ins_concat _ _ _ Hl) as Hc.
      apply ins_app; [apply ins_same|]. apply ins_app; [exact Hc|].
      apply ins_app; [|apply ins_same].
      destruct ph as [p|]; [|apply ins_same].
      apply ins_app; [apply ins_codec_skip|apply ins_same].
  - eapply bind_rel.
    + apply mapM_rel. apply Forall2_same. intros f _.
      destruct (field_tokens s f) as [t|e|m]; cbn [bind res_rel]; try reflexivity.
      apply ins_app; [apply ins_compact_attr_of|apply ins_same].
    + intros l l' Hl. cbn [res_rel]. pose proof (ins_concat _ _ _ Hl) as Hc.
      apply ins_app; [apply ins_same|]. apply ins_app; [exact Hc|].
      apply ins_app; [|apply ins_same].
      destruct ph as [p|]; [|apply ins_same].
      apply ins_app; [apply ins_codec_skip|apply ins_same].
Qed.

Lemma codec_align_enum_fields s k :
  res_rel (ins_rel codec_group) (enum_field_tokens s k true) (enum_field_tokens s k false).
Proof.
  destruct k as [|fs|fs]; unfold enum_field_tokens.
  - cbn [res_rel]; apply ins_same.
  - eapply bind_rel.
    + apply mapM_rel. apply Forall2_same. intros [n f] _.
      destruct (field_tokens s f) as [t|e|m]; cbn [bind res_rel]; try reflexivity.
      apply ins_app; [apply ins_compact_attr_of|apply ins_same].
    + intros l l' Hl. cbn [res_rel]. pose proof (ins_concat _ _ _ Hl) as Hc.
      apply ins_app; [apply ins_same|]. apply ins_app; [exact Hc|apply ins_same].
  - eapply bind_rel.
    + apply mapM_rel. apply Forall2_same. intros f _.
      destruct (field_tokens s f) as [t|e|m]; cbn [bind res_rel]; try reflexivity.
      apply ins_app; [apply ins_compact_attr_of|apply ins_same].
    + intros l l' Hl. cbn [res_rel]. pose proof (ins_concat _ _ _ Hl) as Hc.
      apply ins_app; [apply ins_same|]. apply ins_app; [exact Hc|apply ins_same].
Qed.

Theorem codec_align_item s ir :
  res_rel (ins_rel codec_group)
          (type_ir_tokens s (set_codec_ir true ir)) (type_ir_tokens s (set_codec_ir false ir)).
Proof.
  destruct ir as [ps un dv cd k]. unfold type_ir_tokens, set_codec_ir.
  cbn [ti_params ti_unused ti_derives ti_codec ti_kind].
  destruct k as [c|name docs vs].
  - eapply bind_rel; [apply codec_align_struct_fields|].
    intros f f' Hf. cbn [res_rel].
    apply ins_app; [apply ins_same|]. apply ins_app; [apply ins_same|].
    apply ins_app; [apply ins_same|]. apply ins_app; [apply ins_same|].
    apply ins_app; [exact Hf|apply ins_same].
  - eapply bind_rel.
    + apply mapM_rel. apply Forall2_same. intros [idx c] _.
      eapply bind_rel; [apply codec_align_enum_fields|].
      intros f f' Hf. cbn [res_rel].
      apply ins_app; [apply ins_codec_index|].
      apply ins_app; [apply ins_same|]. apply ins_app; [apply ins_same|].
      apply ins_app; [exact Hf|apply ins_same].
    + intros l l' Hl. cbn [res_rel]. pose proof (ins_concat _ _ _ Hl) as Hc.
      apply ins_app; [apply ins_same|]. apply ins_app; [apply ins_same|].
      apply ins_app; [apply ins_same|]. apply ins_app; [apply ins_same|].
      apply ins_app; [apply ins_same|]. apply ins_app; [exact Hc|apply ins_same].
Qed.

(** ** the module tree, for two item transformations [f1], [f2] whose item tokens align *)
Section ModuleAlign.
  Variable G : tokens -> Prop.
  Variable s : settings.
  Variable f1 f2 : type_ir -> type_ir.
  Hypothesis f_align : forall ir,
    res_rel (ins_rel G) (type_ir_tokens s (f1 ir)) (type_ir_tokens s (f2 ir)).

  Theorem emit_module_align (m : items) :
    res_rel (ins_rel G) (emit_module s (map_items f1 m)) (emit_module s (map_items f2 m)).
  Proof.
    unfold emit_module. rewrite !em_max_depth_map_items.
    apply (module_tokens_rel (ins_rel G) (ins_refl G) (ins_app' G) s s eq_refl).
    unfold map_items. induction m as [|e m IH]; cbn [map]; constructor; [|exact IH].
    split; cbn [fst snd]; [reflexivity|apply f_align].
  Qed.
End ModuleAlign.

Lemma map_items_id (m : items) : map_items (fun ir => ir) m = m.
Proof.
  unfold map_items. induction m as [|[p [id ir]] m IH]; [reflexivity|].
  cbn [map fst snd]. rewrite IH. reflexivity.
Qed.

Lemma map_items_map_items f g (m : items) :
  map_items g (map_items f m) = map_items (fun ir => g (f ir)) m.
Proof. unfold map_items. rewrite map_map. apply map_ext. intros e. reflexivity. Qed.

(** * 4. generation followed by emission *)
Lemma emit_module_set_docs b s m : emit_module (set_docs b s) m = emit_module s m.
Proof. reflexivity. Qed.
Lemma emit_module_set_codec b s m : emit_module (set_codec b s) m = emit_module s m.
Proof. reflexivity. Qed.

Lemma set_docs_true_id s : s_docs s = true -> set_docs true s = s.
Proof. destruct s. cbn. intros ->. reflexivity. Qed.
Lemma set_codec_true_id s : s_codec s = true -> set_codec true s = s.
Proof. destruct s. cbn. intros ->. reflexivity. Qed.

Lemma word_free_inputs_not_in kw r s : word_free_inputs kw r s = true -> ~ In kw (gen_inputs r s).
Proof.
  unfold word_free_inputs. intros H Hin. apply negb_true_iff in H.
  rewrite (In_existsb kw _ Hin) in H. discriminate H.
Qed.

(** ** docs *)
Theorem docs_align_emit s (m : items) :
  res_rel (ins_rel doc_group) (emit_module s m) (emit_module s (map_items strip_docs_ir m)).
Proof.
  rewrite <- (map_items_id m) at 1.
  apply (emit_module_align doc_group s (fun ir => ir) strip_docs_ir). apply docs_align_item.
Qed.

Theorem docs_align r s teq :
  res_rel (ins_rel doc_group) (gen_emit r (set_docs true s) teq) (gen_emit r (set_docs false s) teq).
Proof.
  unfold gen_emit.
  change (generate r (set_docs false s) teq) with (generate r (set_docs false (set_docs true s)) teq).
  rewrite C09_docs_orthogonal_ir.
  destruct (generate r (set_docs true s) teq) as [m|e|msg]; cbn [rmap bind res_rel]; try reflexivity.
  rewrite !emit_module_set_docs. apply docs_align_emit.
Qed.

(** a-posteriori form: the hypothesis is on the docs-off OUTPUT only *)
Theorem docs_erasure_output r s teq toks_on toks_off :
  gen_emit r (set_docs true s) teq = Ok toks_on ->
  gen_emit r (set_docs false s) teq = Ok toks_off ->
  has_open "doc" toks_off = false ->
  erase_doc_attrs toks_on = toks_off.
Proof.
  intros Hon Hoff Hno. pose proof (docs_align r s teq) as H. rewrite Hon, Hoff in H.
  cbn [res_rel] in H. apply erase_doc_ins_rel; assumption.
Qed.

Theorem docs_off_no_open r s teq toks_off :
  ~ In "doc" (gen_inputs r s) ->
  gen_emit r (set_docs false s) teq = Ok toks_off -> has_open "doc" toks_off = false.
Proof.
  intros Hn Hoff. apply has_open_no_word.
  apply (docs_off_no_doc r (set_docs false s) teq toks_off eq_refl Hoff). exact Hn.
Qed.

Theorem docs_erasure r s teq :
  ~ In "doc" (gen_inputs r s) ->
  gen_emit r (set_docs false s) teq = rmap erase_doc_attrs (gen_emit r (set_docs true s) teq).
Proof.
  intros Hn. pose proof (docs_align r s teq) as H.
  destruct (gen_emit r (set_docs true s) teq) as [on|e|msg] eqn:Eon,
           (gen_emit r (set_docs false s) teq) as [off|e'|msg'] eqn:Eoff;
    cbn [res_rel rmap bind] in *; try contradiction; try (subst; reflexivity).
  f_equal. symmetry. apply erase_doc_ins_rel; [exact H|].
  eapply docs_off_no_open; eauto.
Qed.

Theorem docs_erasure_emit r s teq m_on :
  ~ In "doc" (gen_inputs r s) ->
  generate r (set_docs true s) teq = Ok m_on ->
  emit_module (set_docs false s) (map_items strip_docs_ir m_on) =
  rmap erase_doc_attrs (emit_module (set_docs true s) m_on).
Proof.
  intros Hn Hg. pose proof (docs_erasure r s teq Hn) as E. unfold gen_emit in E.
  change (generate r (set_docs false s) teq) with (generate r (set_docs false (set_docs true s)) teq) in E.
  rewrite C09_docs_orthogonal_ir, Hg in E. cbn [rmap bind] in E. exact E.
Qed.

Theorem docs_erasure_item s ir toks_off :
  type_ir_tokens s (strip_docs_ir ir) = Ok toks_off -> has_open "doc" toks_off = false ->
  exists toks_on, type_ir_tokens s ir = Ok toks_on /\ erase_doc_attrs toks_on = toks_off.
Proof.
  intros Hoff Hno. pose proof (docs_align_item s ir) as H. rewrite Hoff in H.
  destruct (type_ir_tokens s ir) as [on|e|msg]; cbn [res_rel] in H; try contradiction.
  exists on. split; [reflexivity|]. apply erase_doc_ins_rel; assumption.
Qed.

(** the pinned form: [s_on] has docs on, [s_off] differs from it in [s_docs] only *)
Theorem docs_erasure_pinned r s_on teq :
  s_docs s_on = true -> word_free_inputs "doc" r s_on = true ->
  generate r (set_docs false s_on) teq = rmap (map_items strip_docs_ir) (generate r s_on teq) /\
  (forall m_on, generate r s_on teq = Ok m_on ->
     emit_module (set_docs false s_on) (map_items strip_docs_ir m_on) =
     rmap erase_doc_attrs (emit_module s_on m_on)) /\
  gen_emit r (set_docs false s_on) teq = rmap erase_doc_attrs (gen_emit r s_on teq) /\
  (forall toks_off, gen_emit r (set_docs false s_on) teq = Ok toks_off ->
     has_open "doc" toks_off = false).
Proof.
  intros Hd Hw. apply word_free_inputs_not_in in Hw.
  pose proof (set_docs_true_id s_on Hd) as Eid.
  split; [apply C09_docs_orthogonal_ir|]. split; [|split].
  - intros m_on Hg. rewrite <- Eid in Hg. pose proof (docs_erasure_emit r s_on teq m_on Hw Hg) as E.
    rewrite Eid in E. exact E.
  - pose proof (docs_erasure r s_on teq Hw) as E. rewrite Eid in E. exact E.
  - intros toks_off Hoff. eapply docs_off_no_open; eauto.
Qed.

(** ** codec *)
Theorem codec_align_emit s (m : items) :
  res_rel (ins_rel codec_group) (emit_module s (map_items (set_codec_ir true) m))
          (emit_module s (map_items (set_codec_ir false) m)).
Proof. apply (emit_module_align codec_group s). apply codec_align_item. Qed.

Theorem codec_align r s teq :
  res_rel (ins_rel codec_group) (gen_emit r (set_codec true s) teq) (gen_emit r (set_codec false s) teq).
Proof.
  unfold gen_emit. rewrite !C09_codec_orthogonal_ir.
  destruct (generate r s teq) as [m|e|msg]; cbn [rmap bind res_rel]; try reflexivity.
  rewrite !emit_module_set_codec. apply codec_align_emit.
Qed.

Theorem codec_erasure_output r s teq toks_on toks_off :
  gen_emit r (set_codec true s) teq = Ok toks_on ->
  gen_emit r (set_codec false s) teq = Ok toks_off ->
  has_open "codec" toks_off = false ->
  erase_codec_attrs toks_on = toks_off.
Proof.
  intros Hon Hoff Hno. pose proof (codec_align r s teq) as H. rewrite Hon, Hoff in H.
  cbn [res_rel] in H. apply erase_codec_ins_rel; assumption.
Qed.

Theorem codec_off_no_open r s teq toks_off :
  ~ In "codec" (gen_inputs r s) ->
  gen_emit r (set_codec false s) teq = Ok toks_off -> has_open "codec" toks_off = false.
Proof.
  intros Hn Hoff. apply has_open_no_word.
  apply (codec_off_no_codec r (set_codec false s) teq toks_off eq_refl Hoff). exact Hn.
Qed.

Theorem codec_erasure r s teq :
  ~ In "codec" (gen_inputs r s) ->
  gen_emit r (set_codec false s) teq = rmap erase_codec_attrs (gen_emit r (set_codec true s) teq).
Proof.
  intros Hn. pose proof (codec_align r s teq) as H.
  destruct (gen_emit r (set_codec true s) teq) as [on|e|msg] eqn:Eon,
           (gen_emit r (set_codec false s) teq) as [off|e'|msg'] eqn:Eoff;
    cbn [res_rel rmap bind] in *; try contradiction; try (subst; reflexivity).
  f_equal. symmetry. apply erase_codec_ins_rel; [exact H|].
  eapply codec_off_no_open; eauto.
Qed.

Theorem codec_erasure_emit r s teq m_on :
  ~ In "codec" (gen_inputs r s) ->
  generate r (set_codec true s) teq = Ok m_on ->
  emit_module (set_codec false s) (map_items (set_codec_ir false) m_on) =
  rmap erase_codec_attrs (emit_module (set_codec true s) m_on).
Proof.
  intros Hn Hg. pose proof (codec_erasure r s teq Hn) as E. unfold gen_emit in E.
  change (generate r (set_codec false s) teq)
    with (generate r (set_codec false (set_codec true s)) teq) in E.
  rewrite (C09_codec_orthogonal_ir r (set_codec true s) false), Hg in E. cbn [rmap bind] in E. exact E.
Qed.

Theorem codec_erasure_item s ir toks_off :
  type_ir_tokens s (set_codec_ir false ir) = Ok toks_off -> has_open "codec" toks_off = false ->
  exists toks_on, type_ir_tokens s (set_codec_ir true ir) = Ok toks_on /\
                  erase_codec_attrs toks_on = toks_off.
Proof.
  intros Hoff Hno. pose proof (codec_align_item s ir) as H. rewrite Hoff in H.
  destruct (type_ir_tokens s (set_codec_ir true ir)) as [on|e|msg]; cbn [res_rel] in H; try contradiction.
  exists on. split; [reflexivity|]. apply erase_codec_ins_rel; assumption.
Qed.

Theorem codec_erasure_pinned r s_on teq :
  s_codec s_on = true -> word_free_inputs "codec" r s_on = true ->
  generate r (set_codec false s_on) teq =
    rmap (map_items (set_codec_ir false)) (generate r s_on teq) /\
  (forall m_on, generate r s_on teq = Ok m_on ->
     emit_module (set_codec false s_on) (map_items (set_codec_ir false) m_on) =
     rmap erase_codec_attrs (emit_module s_on m_on)) /\
  gen_emit r (set_codec false s_on) teq = rmap erase_codec_attrs (gen_emit r s_on teq) /\
  (forall toks_off, gen_emit r (set_codec false s_on) teq = Ok toks_off ->
     has_open "codec" toks_off = false).
Proof.
  intros Hd Hw. apply word_free_inputs_not_in in Hw.
  pose proof (set_codec_true_id s_on Hd) as Eid.
  split; [apply C09_codec_orthogonal_ir|]. split; [|split].
  - intros m_on Hg. rewrite <- Eid in Hg. pose proof (codec_erasure_emit r s_on teq m_on Hw Hg) as E.
    rewrite Eid in E. exact E.
  - pose proof (codec_erasure r s_on teq Hw) as E. rewrite Eid in E. exact E.
  - intros toks_off Hoff. eapply codec_off_no_open; eauto.
Qed.

(** what an alignment means *)
Theorem ins_rel_blocks_doc on off :
  ins_rel doc_group on off ->
  exists bs, (forall g, In (BGrp g) bs -> doc_group g) /\ on = on_of bs /\ off = off_of bs.
Proof. apply ins_rel_blocks. Qed.
Theorem ins_rel_blocks_codec on off :
  ins_rel codec_group on off ->
  exists bs, (forall g, In (BGrp g) bs -> codec_group g) /\ on = on_of bs /\ off = off_of bs.
Proof. apply ins_rel_blocks. Qed.
