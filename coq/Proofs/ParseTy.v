(** C02 (emit-parses), part 1: the type-expression reader [parse_ty] of
    [Checkers/Parse.v] reads the tokens printed by [tp_tokens] back into [ir_pty]. *)
From Coq Require Import List NArith String Ascii Bool Lia Arith.
From V Require Import Base.Util Base.Strings Base.Result Model.Registry Model.Settings Model.Subst
  Model.TypePath Model.Derives Model.Generate Model.Emit Model.WellFormed Checkers.Parse
  Model.Unparse Proofs.TpMap Proofs.ParseEq.
Import ListNotations.
Open Scope nat_scope. Open Scope string_scope. Open Scope list_scope.

(** ** tokens *)
Lemma is_punct_neq x y : is_punct x = false -> is_punct y = true -> teq x y = false.
Proof.
  intros Hx Hy. unfold teq. destruct (String.eqb x y) eqn:E; [|reflexivity].
  apply String.eqb_eq in E. subst y. congruence.
Qed.

Lemma ident_tok_punct x : ident_tok x = true -> is_punct x = false.
Proof. unfold ident_tok. intros H. apply andb_prop in H as [H _]. apply negb_true_iff in H. exact H. Qed.

Lemma ident_tok_pub x : ident_tok x = true -> teq x "pub" = false.
Proof. unfold ident_tok. intros H. apply andb_prop in H as [_ H]. apply negb_true_iff in H. exact H. Qed.

Lemma is_punct_bracket x : is_punct x = false -> is_open x = false /\ is_close x = false.
Proof.
  intros H. unfold is_open, is_close.
  rewrite !(is_punct_neq x _ H) by reflexivity. split; reflexivity.
Qed.


(** the first token of a type expression *)
Definition ty_head (h : string) : bool := ident_tok h || teq h "[" || teq h "(" || teq h ":".
Definition starts_ty (toks : tokens) : Prop :=
  match toks with h :: _ => ty_head h = true | [] => False end.

Lemma ty_head_neq h y :
  ty_head h = true -> is_punct y = true -> teq y "[" = false -> teq y "(" = false ->
  teq y ":" = false -> teq h y = false.
Proof.
  unfold ty_head. intros H Hy H1 H2 H3.
  destruct (teq h y) eqn:E; [|reflexivity]. apply String.eqb_eq in E. subst y.
  rewrite H1, H2, H3, !orb_false_r in H. apply ident_tok_punct in H. congruence.
Qed.

Lemma ty_head_pub h : ty_head h = true -> teq h "pub" = false.
Proof.
  unfold ty_head. intros H.
  destruct (teq h "pub") eqn:E; [|reflexivity]. apply String.eqb_eq in E. subst h.
  vm_compute in H. discriminate H.
Qed.

Lemma ty_stop_lt rest : ty_stop rest = true -> hd_is "<" rest = false.
Proof.
  destruct rest as [|t r]; cbn [ty_stop hd_is]; [reflexivity|]. intros H.
  apply andb_prop in H as [H _]. apply negb_true_iff in H. exact H.
Qed.

Lemma ty_stop_cc rest : ty_stop rest = true -> starts_cc rest = false.
Proof.
  unfold starts_cc. destruct rest as [|t r]; cbn [ty_stop hd_is]; [reflexivity|]. intros H.
  apply andb_prop in H as [_ H]. apply negb_true_iff in H. rewrite H. reflexivity.
Qed.

(** ** paths *)
Definition nopunct (x : string) : Prop := is_punct x = false.
Definition pre_toks (pre : list string) : tokens := flat_map (fun s => [s; ":"; ":"]) pre.
Definition print_path (l : bool) (segs : list string) : tokens :=
  if l then abs_path segs else rel_path segs.
Definition seg0 (y : string) : string * list pty := (y, []).

Lemma abs_path_snoc pre x : abs_path (pre ++ [x]) = ":" :: ":" :: pre_toks pre ++ [x].
Proof.
  induction pre as [|y pre IH]; [reflexivity|].
  cbn [app abs_path flat_map pre_toks] in *. unfold abs_path in IH. rewrite IH. reflexivity.
Qed.

Lemma print_path_snoc l pre x :
  print_path l (pre ++ [x]) = (if l then [":"; ":"] else []) ++ pre_toks pre ++ [x].
Proof.
  destruct l; cbn [print_path app]; [apply abs_path_snoc|].
  destruct pre as [|y pre]; [reflexivity|].
  cbn [app rel_path pre_toks flat_map]. fold (abs_path (pre ++ [x])). rewrite abs_path_snoc. reflexivity.
Qed.

Lemma parse_segs_last f lead id rest acc :
  nopunct id -> ty_stop rest = true ->
  parse_segs (S f) lead (id :: rest) acc = Some (PPath lead (rev ((id, []) :: acc)), rest).
Proof.
  intros Hid Hr. rewrite parse_segs_S by exact Hid.
  rewrite (ty_stop_lt _ Hr), after_args_S, (ty_stop_cc _ Hr). reflexivity.
Qed.

Lemma parse_segs_chain lead x tail : forall pre acc f,
  Forall nopunct pre -> List.length pre < f ->
  parse_segs f lead (pre_toks pre ++ x :: tail) acc =
  parse_segs (f - List.length pre) lead (x :: tail) (rev (map seg0 pre) ++ acc).
Proof.
  induction pre as [|y pre IH]; intros acc f Hp Hf.
  - cbn [pre_toks flat_map app List.length map rev]. rewrite Nat.sub_0_r. reflexivity.
  - inversion Hp as [|y' pre' Hy Hp']; subst.
    destruct f as [|f1]; [cbn [List.length] in Hf; lia|].
    cbn [pre_toks flat_map app]. rewrite parse_segs_S by exact Hy.
    cbn [hd_is]. replace (teq ":" "<") with false by reflexivity.
    rewrite after_args_S. unfold starts_cc. cbn [hd_is tl].
    replace (teq ":" ":") with true by reflexivity. cbn [andb].
    fold (pre_toks pre). rewrite IH; [|exact Hp'|cbn [List.length] in Hf; lia].
    cbn [List.length map rev Nat.sub]. rewrite <- app_assoc. reflexivity.
Qed.

Lemma parse_ty_rel f pre x tail :
  Forall nopunct (pre ++ [x]) ->
  parse_ty (S f) (pre_toks pre ++ x :: tail) = parse_segs f false (pre_toks pre ++ x :: tail) [].
Proof.
  intros H. destruct pre as [|y pre]; cbn [pre_toks flat_map app] in *;
    inversion H; subst; apply parse_ty_ident; assumption.
Qed.

(** ** what the induction carries for each printed type *)
Definition parses (f : nat) (toks : tokens) (p : pty) : Prop :=
  forall rest, ty_stop rest = true -> parse_ty f (toks ++ rest) = Some (p, rest).

Record good_ty (toks : tokens) (p : pty) : Prop := mk_good {
  gt_parses : forall f, List.length toks < f -> parses f toks p;
  gt_starts : starts_ty toks;
  gt_bal : bal 0 toks = true }.

Definition elem_ok (f : nat) (e : tokens) (p : pty) : Prop := parses f e p /\ starts_ty e.

Lemma good_elems f es ps :
  Forall2 good_ty es ps -> Forall (fun e => List.length e < f) es -> Forall2 (elem_ok f) es ps.
Proof.
  induction 1 as [|e p es ps H H2 IH]; intros HF; [constructor|].
  inversion HF; subst. constructor; [|apply IH; assumption].
  split; [apply (gt_parses _ _ H); assumption|apply (gt_starts _ _ H)].
Qed.

Lemma starts_ty_cons e : starts_ty e -> exists h e', e = h :: e' /\ ty_head h = true.
Proof. destruct e as [|h e']; cbn [starts_ty]; [tauto|]. intros H. eauto. Qed.

Lemma ty_stop_comma r : ty_stop ("," :: r) = true. Proof. reflexivity. Qed.
Lemma ty_stop_gt r : ty_stop (">" :: r) = true. Proof. reflexivity. Qed.
Lemma ty_stop_rparen r : ty_stop (")" :: r) = true. Proof. reflexivity. Qed.
Lemma ty_stop_semi r : ty_stop (";" :: r) = true. Proof. reflexivity. Qed.

Lemma sep_by_cons2 sep (x y : tokens) l : sep_by sep (x :: y :: l) = x ++ sep ++ sep_by sep (y :: l).
Proof. reflexivity. Qed.

(** ** the argument loop: [e1 , e2 , .. en >] *)
Lemma args_loop_ok fuel' lead id acc rest : forall es ps,
  Forall2 (elem_ok fuel') es ps -> es <> [] ->
  forall k a, List.length es <= k ->
  args_loop fuel' lead id acc k (sep_by [","] es ++ ">" :: rest) a =
  after_args fuel' lead id acc (rev a ++ ps) rest.
Proof.
  induction 1 as [|e p es ps [Hp Hs] H2 IH]; intros Hne k a Hk; [congruence|].
  destruct k as [|k]; [cbn [List.length] in Hk; lia|].
  apply starts_ty_cons in Hs as (h & e' & -> & Hh).
  assert (Hgt : teq h ">" = false) by (apply ty_head_neq; [exact Hh|reflexivity..]).
  destruct es as [|e2 es].
  - inversion H2; subst. cbn [sep_by].
    rewrite args_loop_S. cbn [app hd_is]. rewrite Hgt.
    change (h :: e' ++ ">" :: rest) with ((h :: e') ++ ">" :: rest).
    rewrite (Hp _ (ty_stop_gt rest)). cbn [rev]. reflexivity.
  - rewrite sep_by_cons2. rewrite <- !app_assoc. rewrite args_loop_S. cbn [app hd_is]. rewrite Hgt.
    change (h :: e' ++ "," :: sep_by [","] (e2 :: es) ++ ">" :: rest)
      with ((h :: e') ++ "," :: sep_by [","] (e2 :: es) ++ ">" :: rest).
    rewrite (Hp _ (ty_stop_comma _)).
    rewrite IH; [|discriminate|cbn [List.length] in *; lia].
    cbn [rev]. rewrite <- app_assoc. reflexivity.
Qed.

(** ** the tuple loops: [e1 , .. en , )] and [e1 , .. en )] *)
Lemma tup_loop_ok fuel' rest : forall es ps,
  Forall2 (elem_ok fuel') es ps ->
  forall k acc, List.length es < k ->
  tup_loop fuel' k (flat_map (fun e => e ++ [","]) es ++ ")" :: rest) acc =
  Some (PTuple (rev acc ++ ps), rest).
Proof.
  induction 1 as [|e p es ps [Hp Hs] H2 IH]; intros k acc Hk.
  - destruct k as [|k]; [cbn [List.length] in Hk; lia|].
    rewrite tup_loop_S. cbn [flat_map app hd_is tl].
    replace (teq ")" ")") with true by reflexivity. rewrite app_nil_r. reflexivity.
  - destruct k as [|k]; [cbn [List.length] in Hk; lia|].
    apply starts_ty_cons in Hs as (h & e' & -> & Hh).
    assert (Hgt : teq h ")" = false) by (apply ty_head_neq; [exact Hh|reflexivity..]).
    cbn [flat_map]. rewrite <- !app_assoc. rewrite tup_loop_S. cbn [app hd_is]. rewrite Hgt.
    change (h :: e' ++ "," :: flat_map (fun e => e ++ [","]) es ++ ")" :: rest)
      with ((h :: e') ++ "," :: flat_map (fun e => e ++ [","]) es ++ ")" :: rest).
    rewrite (Hp _ (ty_stop_comma _)).
    rewrite IH by (cbn [List.length] in Hk; lia).
    cbn [rev]. rewrite <- app_assoc. reflexivity.
Qed.

Lemma tup_loop_sep_ok fuel' rest : forall es ps,
  Forall2 (elem_ok fuel') es ps -> es <> [] ->
  forall k acc, List.length es <= k ->
  tup_loop fuel' k (sep_by [","] es ++ ")" :: rest) acc = Some (PTuple (rev acc ++ ps), rest).
Proof.
  induction 1 as [|e p es ps [Hp Hs] H2 IH]; intros Hne k acc Hk; [congruence|].
  destruct k as [|k]; [cbn [List.length] in Hk; lia|].
  apply starts_ty_cons in Hs as (h & e' & -> & Hh).
  assert (Hgt : teq h ")" = false) by (apply ty_head_neq; [exact Hh|reflexivity..]).
  destruct es as [|e2 es].
  - inversion H2; subst. cbn [sep_by].
    rewrite tup_loop_S. cbn [app hd_is]. rewrite Hgt.
    change (h :: e' ++ ")" :: rest) with ((h :: e') ++ ")" :: rest).
    rewrite (Hp _ (ty_stop_rparen rest)). cbn [rev]. reflexivity.
  - rewrite sep_by_cons2. rewrite <- !app_assoc. rewrite tup_loop_S. cbn [app hd_is]. rewrite Hgt.
    change (h :: e' ++ "," :: sep_by [","] (e2 :: es) ++ ")" :: rest)
      with ((h :: e') ++ "," :: sep_by [","] (e2 :: es) ++ ")" :: rest).
    rewrite (Hp _ (ty_stop_comma _)).
    rewrite IH; [|discriminate|cbn [List.length] in *; lia].
    cbn [rev]. rewrite <- app_assoc. reflexivity.
Qed.

(** ** balance *)
Lemma bal_app : forall a k d b, bal k a = true -> bal (k + d) (a ++ b) = bal d b.
Proof.
  induction a as [|x a IH]; intros k d b H; cbn [bal app] in *.
  - apply Nat.eqb_eq in H. subst k. reflexivity.
  - destruct (is_close x).
    + destruct k as [|k']; [discriminate|]. cbn [Nat.add]. apply IH. exact H.
    + destruct (is_open x).
      * change (S (k + d)) with (S k + d). apply IH. exact H.
      * apply IH. exact H.
Qed.

Lemma bal0_app a d b : bal 0 a = true -> bal d (a ++ b) = bal d b.
Proof. intros H. apply (bal_app a 0 d b H). Qed.

Definition plain_tok (x : string) : Prop := is_open x = false /\ is_close x = false.

Lemma bal_cons_plain x d b : plain_tok x -> bal d (x :: b) = bal d b.
Proof. intros [Ho Hc]. cbn [bal]. rewrite Hc, Ho. reflexivity. Qed.

Lemma bal_skip a d b : Forall plain_tok a -> bal d (a ++ b) = bal d b.
Proof.
  induction 1 as [|x a Hx Ha IH]; [reflexivity|]. cbn [app]. rewrite bal_cons_plain by exact Hx. exact IH.
Qed.

Lemma bal_wrap d o c a b :
  is_close o = false -> is_open o = true -> is_close c = true -> bal 0 a = true ->
  bal d (o :: a ++ c :: b) = bal d b.
Proof.
  intros H1 H2 H3 Ha. cbn [bal]. rewrite H1, H2.
  pose proof (bal_app a 0 (S d) (c :: b) Ha) as E. cbn [Nat.add] in E. rewrite E. cbn [bal]. rewrite H3. reflexivity.
Qed.

Lemma nopunct_plain x : nopunct x -> plain_tok x.
Proof. intros H. apply is_punct_bracket. exact H. Qed.

Lemma plain_colon : plain_tok ":". Proof. split; reflexivity. Qed.
Lemma plain_comma : plain_tok ",". Proof. split; reflexivity. Qed.
Lemma plain_lt : plain_tok "<". Proof. split; reflexivity. Qed.
Lemma plain_gt : plain_tok ">". Proof. split; reflexivity. Qed.
Lemma plain_semi : plain_tok ";". Proof. split; reflexivity. Qed.

Lemma abs_path_plain segs : Forall nopunct segs -> Forall plain_tok (abs_path segs).
Proof.
  induction 1 as [|x l Hx Hl IH]; [constructor|].
  cbn [abs_path flat_map app]. constructor; [apply plain_colon|]. constructor; [apply plain_colon|].
  constructor; [apply nopunct_plain; exact Hx|exact IH].
Qed.

Lemma print_path_plain l segs : Forall nopunct segs -> Forall plain_tok (print_path l segs).
Proof.
  intros H. destruct l; cbn [print_path]; [apply abs_path_plain; exact H|].
  destruct H as [|x l Hx Hl]; [constructor|]. cbn [rel_path]. constructor.
  - apply nopunct_plain; exact Hx.
  - apply (abs_path_plain l Hl).
Qed.

Lemma bal_sep_by d b : forall es,
  Forall (fun e => bal 0 e = true) es -> bal d (sep_by [","] es ++ b) = bal d b.
Proof.
  induction 1 as [|e es He Hes IH]; [reflexivity|].
  destruct es as [|e2 es].
  - cbn [sep_by]. apply bal0_app. exact He.
  - rewrite sep_by_cons2, <- !app_assoc. rewrite bal0_app by exact He.
    cbn [app]. rewrite bal_cons_plain by apply plain_comma. exact IH.
Qed.

Lemma bal_flat_commas d b : forall es,
  Forall (fun e => bal 0 e = true) es ->
  bal d (flat_map (fun e => e ++ [","]) es ++ b) = bal d b.
Proof.
  induction 1 as [|e es He Hes IH]; [reflexivity|].
  cbn [flat_map]. rewrite <- !app_assoc. rewrite bal0_app by exact He.
  cbn [app]. rewrite bal_cons_plain by apply plain_comma. exact IH.
Qed.

(** ** lengths *)
Lemma length_pre_toks pre : List.length (pre_toks pre) = 3 * List.length pre.
Proof.
  induction pre as [|y pre IH]; [reflexivity|].
  cbn [pre_toks flat_map app List.length]. fold (pre_toks pre). rewrite IH. lia.
Qed.

Lemma sep_by_len_elem sep : forall es (e : tokens), In e es -> List.length e <= List.length (sep_by sep es).
Proof.
  induction es as [|x es IH]; intros e Hin; [destruct Hin|].
  destruct es as [|y es].
  - destruct Hin as [->|[]]. cbn [sep_by]. lia.
  - rewrite sep_by_cons2, !app_length. destruct Hin as [->|Hin]; [lia|].
    specialize (IH e Hin). lia.
Qed.

Lemma sep_by_len_count : forall es : list tokens,
  Forall (fun e => e <> []) es -> List.length es <= List.length (sep_by [","] es).
Proof.
  induction 1 as [|x es Hx Hes IH]; [cbn; lia|].
  destruct es as [|y es].
  - cbn [sep_by List.length]. destruct x; [congruence|cbn [List.length]; lia].
  - rewrite sep_by_cons2, !app_length.
    cbn [List.length] in *.
    unfold tokens in *. lia.
Qed.

Lemma flat_commas_len_elem : forall es (e : tokens), In e es ->
  List.length e < List.length (flat_map (fun e => e ++ [","]) es).
Proof.
  induction es as [|x es IH]; intros e Hin; [destruct Hin|].
  cbn [flat_map]. rewrite !app_length. cbn [List.length]. destruct Hin as [->|Hin]; [lia|].
  specialize (IH e Hin). lia.
Qed.

Lemma flat_commas_len_count : forall es : list tokens,
  List.length es <= List.length (flat_map (fun e => e ++ [","]) es).
Proof.
  induction es as [|x es IH]; [cbn; lia|].
  cbn [flat_map]. rewrite !app_length. cbn [List.length]. lia.
Qed.

Lemma good_nonempty es ps : Forall2 good_ty es ps -> Forall (fun e => e <> []) es.
Proof.
  induction 1 as [|e p es ps H H2 IH]; constructor; [|exact IH].
  destruct (starts_ty_cons _ (gt_starts _ _ H)) as (h & e' & -> & _). discriminate.
Qed.

Lemma good_bal es ps : Forall2 good_ty es ps -> Forall (fun e => bal 0 e = true) es.
Proof. induction 1 as [|e p es ps H H2 IH]; constructor; [apply (gt_bal _ _ H)|exact IH]. Qed.

(** ** a path with generic arguments *)
Definition args_toks (es : list tokens) : tokens :=
  match es with [] => [] | _ => ["<"] ++ sep_by [","] es ++ [">"] end.

Definition identP (y : string) : Prop := ident_tok y = true.

Lemma ident_nopunct l : Forall identP l -> Forall nopunct l.
Proof. apply Forall_impl. intros a H. apply ident_tok_punct. exact H. Qed.

Lemma mk_ppath_snoc l segs tail args pre x :
  segs ++ tail = pre ++ [x] ->
  mk_ppath (Some (l, segs)) tail args = PPath l (map seg0 pre ++ [(x, args)]).
Proof.
  intros H. unfold mk_ppath. rewrite H, rev_app_distr. cbn [rev app]. rewrite rev_involutive.
  reflexivity.
Qed.

Lemma path_good l pre x es ps :
  Forall identP (pre ++ [x]) -> Forall2 good_ty es ps ->
  good_ty (print_path l (pre ++ [x]) ++ args_toks es) (PPath l (map seg0 pre ++ [(x, ps)])).
Proof.
  intros Hid Hes. pose proof (ident_nopunct _ Hid) as Hnp.
  assert (Hx : nopunct x).
  { apply Forall_app in Hnp as [_ Hx]. inversion Hx; assumption. }
  assert (Hpre : Forall nopunct pre) by (apply Forall_app in Hnp as [Hp _]; exact Hp).
  split.
  - intros f Hf rest Hr.
    destruct f as [|f0]; [lia|].
    rewrite print_path_snoc in *. rewrite !app_length, length_pre_toks in Hf. cbn [List.length] in Hf.
    assert (E : (((if l then [":"; ":"] else []) ++ pre_toks pre ++ [x]) ++ args_toks es) ++ rest =
                (if l then [":"; ":"] else []) ++ pre_toks pre ++ x :: (args_toks es ++ rest)).
    { rewrite <- !app_assoc. reflexivity. }
    rewrite E. clear E.
    assert (E2 : parse_ty (S f0) ((if l then [":"; ":"] else []) ++ pre_toks pre ++ x :: args_toks es ++ rest) =
                 parse_segs f0 l (pre_toks pre ++ x :: args_toks es ++ rest) []).
    { destruct l; cbn [app]; [apply parse_ty_abs|apply parse_ty_rel; exact Hnp]. }
    rewrite E2. clear E2.
    rewrite parse_segs_chain by (try exact Hpre; lia).
    destruct (f0 - List.length pre) as [|f2] eqn:Ef; [lia|].
    rewrite app_nil_r.
    destruct Hes as [|e p es ps He Hes].
    + cbn [args_toks app]. rewrite parse_segs_last by assumption.
      cbn [rev]. rewrite rev_involutive. reflexivity.
    + assert (Hall : Forall2 good_ty (e :: es) (p :: ps)) by (constructor; assumption).
      assert (HL : List.length (args_toks (e :: es)) = S (S (List.length (sep_by [","] (e :: es))))).
      { cbn [args_toks]. rewrite !app_length. cbn [List.length]. lia. }
      rewrite HL in Hf.
      cbn [args_toks]. cbn [app]. rewrite <- app_assoc. cbn [app].
      rewrite parse_segs_S by exact Hx. cbn [hd_is tl].
      replace (teq "<" "<") with true by reflexivity.
      rewrite args_loop_ok with (ps := p :: ps).
      * rewrite after_args_S, (ty_stop_cc _ Hr). cbn [rev app]. rewrite rev_involutive. reflexivity.
      * apply good_elems; [exact Hall|]. apply Forall_forall. intros e0 Hin.
        pose proof (sep_by_len_elem [","] _ _ Hin). lia.
      * discriminate.
      * pose proof (sep_by_len_count _ (good_nonempty _ _ Hall)). lia.
  - rewrite print_path_snoc. destruct l; cbn [app starts_ty]; [reflexivity|].
    destruct pre as [|y pre]; cbn [pre_toks flat_map app starts_ty] in *;
      inversion Hid as [|z zs Hz Hzs]; subst; unfold ty_head; unfold identP in Hz; rewrite Hz; reflexivity.
  - rewrite bal_skip by (apply print_path_plain; exact Hnp).
    destruct Hes as [|e p es ps He Hes]; [reflexivity|].
    cbn [args_toks app]. rewrite bal_cons_plain by apply plain_lt.
    rewrite bal_sep_by by (apply (good_bal (e :: es) (p :: ps)); constructor; assumption).
    reflexivity.
Qed.

(** ** plain paths *)
Lemma abs_segs_spec : forall n t, List.length t <= n ->
  forall l, abs_segs t = Some l -> t = abs_path l /\ Forall identP l.
Proof.
  induction n as [|n IH]; intros t Hn l H.
  - destruct t; [|cbn [List.length] in Hn; lia]. cbn [abs_segs] in H. inversion H; subst.
    split; [reflexivity|constructor].
  - destruct t as [|a [|b [|x r]]]; cbn [abs_segs] in H; try discriminate.
    + inversion H; subst. split; [reflexivity|constructor].
    + destruct (teq a ":" && teq b ":" && ident_tok x) eqn:C; [|discriminate].
      apply andb_prop in C as [C Cx]. apply andb_prop in C as [Ca Cb].
      apply String.eqb_eq in Ca, Cb. subst a b.
      destruct (abs_segs r) as [l'|] eqn:E; [|discriminate]. inversion H; subst.
      destruct (IH r) with (l := l') as [-> Hl]; [cbn [List.length] in Hn; lia|exact E|].
      split; [reflexivity|constructor; assumption].
Qed.

Lemma path_segs_spec t l segs :
  path_segs t = Some (l, segs) -> t = print_path l segs /\ segs <> [] /\ Forall identP segs.
Proof.
  unfold path_segs. destruct t as [|x r]; [discriminate|].
  destruct (teq x ":") eqn:Ex.
  - destruct (abs_segs (x :: r)) as [l'|] eqn:E; [|discriminate]. intros H. inversion H; subst.
    destruct (abs_segs_spec _ _ (le_n _) _ E) as [Et Hl]. split; [exact Et|]. split; [|exact Hl].
    intros ->. discriminate Et.
  - destruct (ident_tok x) eqn:Ix; [|discriminate].
    destruct (abs_segs r) as [l'|] eqn:E; [|discriminate]. intros H. inversion H; subst.
    destruct (abs_segs_spec _ _ (le_n _) _ E) as [-> Hl].
    split; [reflexivity|]. split; [discriminate|]. constructor; assumption.
Qed.

Lemma abs_path_app a b : abs_path (a ++ b) = abs_path a ++ abs_path b.
Proof. unfold abs_path. apply flat_map_app. Qed.

Lemma alloc_segs_spec a l segs :
  alloc_segs a = Some (l, segs) ->
  Forall identP segs /\
  forall tail, tail <> [] -> a ++ abs_path tail = print_path l (segs ++ tail).
Proof.
  unfold alloc_segs. destruct a as [|x r].
  - intros H. inversion H; subst. split; [constructor|]. intros tail _. reflexivity.
  - intros H. apply path_segs_spec in H as (Ea & Hne & Hid). split; [exact Hid|].
    intros tail _. rewrite Ea. destruct l; cbn [print_path].
    + symmetry. apply abs_path_app.
    + destruct segs as [|y segs]; [congruence|]. cbn [rel_path app].
      fold (abs_path segs). fold (abs_path (segs ++ tail)). rewrite abs_path_app. reflexivity.
Qed.

Lemma plain_path_good ptoks l segs es ps :
  path_segs ptoks = Some (l, segs) -> Forall2 good_ty es ps ->
  good_ty (ptoks ++ args_toks es) (mk_ppath (Some (l, segs)) [] ps).
Proof.
  intros H Hes. apply path_segs_spec in H as (-> & Hne & Hid).
  destruct (exists_last Hne) as (pre & x & ->).
  rewrite (mk_ppath_snoc l _ [] ps pre x) by apply app_nil_r.
  apply path_good; assumption.
Qed.

Lemma alloc_path_good alloc l segs a b es ps :
  alloc_segs alloc = Some (l, segs) -> identP a -> identP b -> Forall2 good_ty es ps ->
  good_ty (alloc ++ abs_path [a; b] ++ args_toks es) (mk_ppath (Some (l, segs)) [a; b] ps).
Proof.
  intros H Ha Hb Hes. apply alloc_segs_spec in H as (Hid & Hp).
  rewrite app_assoc, Hp by discriminate.
  rewrite (mk_ppath_snoc l segs [a; b] ps (segs ++ [a]) b) by (rewrite <- app_assoc; reflexivity).
  replace (segs ++ [a; b]) with ((segs ++ [a]) ++ [b]) by (rewrite <- app_assoc; reflexivity).
  apply path_good; [|exact Hes].
  apply Forall_app. split; [|constructor; [exact Hb|constructor]].
  apply Forall_app. split; [exact Hid|constructor; [exact Ha|constructor]].
Qed.

Lemma core3_good a b c :
  identP a -> identP b -> identP c ->
  good_ty (abs_path [a; b; c]) (PPath true [(a, []); (b, []); (c, [])]).
Proof.
  intros Ha Hb Hc.
  pose proof (path_good true [a; b] c [] [] ) as H. cbn [args_toks] in H. rewrite app_nil_r in H.
  apply H; [|constructor]. repeat (constructor; try assumption).
Qed.

Lemma param_good p : good_ty [tpi_name p] (param_pty p).
Proof.
  pose proof (path_good false [] (tpi_name p) [] []) as H. cbn [args_toks] in H. rewrite app_nil_r in H.
  apply H; [|constructor]. constructor; [reflexivity|constructor].
Qed.

(** ** brackets never have two characters *)
Lemma long_plain s : 2 <= String.length s -> plain_tok s.
Proof.
  destruct s as [|c [|c' s']]; cbn [String.length]; try lia. intros _.
  unfold plain_tok, is_open, is_close, teq. cbn [String.eqb].
  repeat match goal with |- context [Ascii.eqb ?a ?b] => destruct (Ascii.eqb a b) end;
    split; reflexivity.
Qed.

Lemma str_length_append a b : String.length (a ++ b) = String.length a + String.length b.
Proof. induction a as [|c a IH]; [reflexivity|]. cbn [String.append String.length]. rewrite IH. reflexivity. Qed.

Lemma usize_plain n : plain_tok (String.append (N_to_string n) "usize").
Proof. apply long_plain. rewrite str_length_append. cbn [String.length]. lia. Qed.

(** ** the round trip for type expressions *)
Section Types.
  Variable alloc : tokens.
  Hypothesis Halloc : alloc_okb alloc = true.

  Lemma good_list : forall params es,
    Forall (fun t => forall toks, tp_plain t = true -> tp_tokens alloc t = Ok toks ->
                                  good_ty toks (ir_pty alloc t)) params ->
    forallb tp_plain params = true -> mapM (tp_tokens alloc) params = Ok es ->
    Forall2 good_ty es (map (ir_pty alloc) params).
  Proof.
    induction params as [|t params IH]; intros es HF Hp Hm.
    - cbn [mapM] in Hm. inversion Hm; subst. constructor.
    - rewrite mapM_cons in Hm. apply bind_ok in Hm as (y & Hy & Hm).
      apply bind_ok in Hm as (ys & Hys & Hm). inversion Hm; subst.
      cbn [forallb] in Hp. apply andb_prop in Hp as [Hp1 Hp2].
      inversion HF as [|t' l' Ht Hl]; subst. cbn [map]. constructor.
      + apply Ht; assumption.
      + apply IH; assumption.
  Qed.

  Theorem tp_good : forall t toks,
    tp_plain t = true -> tp_tokens alloc t = Ok toks -> good_ty toks (ir_pty alloc t).
  Proof.
    destruct (alloc_segs alloc) as [[al asegs]|] eqn:Ea;
      [|unfold alloc_okb in Halloc; rewrite Ea in Halloc; discriminate].
    induction t as [p|ptoks ps IH|o IH|n o IH|es IH|p|i f c IH|o st b IHo IHst] using tpath_ind';
      intros toks Hp Ht.
    - cbn [tp_tokens] in Ht. inversion Ht; subst. apply param_good.
    - rewrite tp_tokens_TPath in Ht. apply bind_ok in Ht as (es & Hes & Ht).
      cbn [tp_plain] in Hp. apply andb_prop in Hp as [Hpp Hps].
      unfold plain_path in Hpp. destruct (path_segs ptoks) as [[l segs]|] eqn:Eseg; [|discriminate].
      pose proof (good_list _ _ IH Hps Hes) as Hgood.
      cbn [ir_pty]. rewrite Eseg.
      assert (Et : toks = ptoks ++ args_toks es).
      { destruct es; inversion Ht; subst; [symmetry; apply app_nil_r|reflexivity]. }
      rewrite Et. apply plain_path_good; assumption.
    - rewrite tp_tokens_TVec in Ht. apply bind_ok in Ht as (e & He & Ht). inversion Ht; subst.
      cbn [tp_plain] in Hp. cbn [ir_pty]. rewrite Ea.
      apply (alloc_path_good alloc al asegs "vec" "Vec" [e] [ir_pty alloc o]);
        [exact Ea|reflexivity|reflexivity|].
      constructor; [apply IH; assumption|constructor].
    - rewrite tp_tokens_TArray in Ht. apply bind_ok in Ht as (e & He & Ht). inversion Ht; subst.
      cbn [tp_plain] in Hp. specialize (IH e Hp He). cbn [ir_pty].
      split.
      + intros f Hf rest Hr. destruct f as [|f0]; [lia|].
        cbn [app]. rewrite <- app_assoc. cbn [app].
        rewrite parse_ty_array.
        rewrite (gt_parses _ _ IH f0); [reflexivity| |reflexivity].
        cbn [List.length app] in Hf. rewrite app_length in Hf. cbn [List.length] in Hf. lia.
      + reflexivity.
      + cbn [app].
        replace (e ++ [";"; String.append (N_to_string n) "usize"; "]"])
          with ((e ++ [";"; String.append (N_to_string n) "usize"]) ++ "]" :: [])
          by (rewrite <- app_assoc; reflexivity).
        apply bal_wrap; try reflexivity.
        rewrite bal0_app by apply (gt_bal _ _ IH).
        rewrite !bal_cons_plain; [reflexivity|apply usize_plain|apply plain_semi].
    - rewrite tp_tokens_TTuple in Ht. apply bind_ok in Ht as (ts & Hts & Ht). inversion Ht; subst.
      cbn [tp_plain] in Hp. pose proof (good_list _ _ IH Hp Hts) as Hgood.
      change (ir_pty alloc (TTuple es)) with (PTuple (map (ir_pty alloc) es)).
      split.
      + intros f Hf rest Hr. destruct f as [|f0]; [lia|].
        cbn [app] in *. rewrite <- app_assoc. cbn [app]. rewrite parse_ty_tuple.
        cbn [List.length] in Hf. rewrite app_length in Hf. cbn [List.length] in Hf.
        rewrite tup_loop_ok with (ps := map (ir_pty alloc) es).
        * reflexivity.
        * apply good_elems; [exact Hgood|]. apply Forall_forall. intros e0 Hin.
          pose proof (flat_commas_len_elem _ _ Hin). unfold tokens in *. lia.
        * pose proof (flat_commas_len_count ts). unfold tokens in *. lia.
      + reflexivity.
      + cbn [app]. apply bal_wrap; try reflexivity.
        rewrite <- (app_nil_r (flat_map _ ts)). rewrite bal_flat_commas; [reflexivity|].
        apply (good_bal _ _ Hgood).
    - cbn [tp_tokens] in Ht. cbn [ir_pty].
      destruct p; cbn [prim_tokens] in Ht; try discriminate; inversion Ht; subst;
        try (cbn [prim_ident]; apply core3_good; reflexivity).
      rewrite Ea.
      pose proof (alloc_path_good alloc al asegs "string" "String" [] [] Ea eq_refl eq_refl (Forall2_nil _)) as H.
      cbn [args_toks] in H. rewrite app_nil_r in H. exact H.
    - rewrite tp_tokens_TCompact in Ht. apply bind_ok in Ht as (e & He & Ht).
      cbn [tp_plain] in Hp. apply andb_prop in Hp as [Hpc Hpi].
      specialize (IH e Hpi He). cbn [ir_pty].
      destruct f.
      + destruct (tuple_or_array i); cbn [andb] in Ht; [discriminate|]. inversion Ht; subst. exact IH.
      + cbn [andb orb] in Ht, Hpc. inversion Ht; subst.
        unfold plain_path in Hpc. destruct (path_segs c) as [[l segs]|] eqn:Eseg; [|discriminate].
        apply (plain_path_good c l segs [e] [ir_pty alloc i] Eseg).
        constructor; [exact IH|constructor].
    - rewrite tp_tokens_TBitVec in Ht. apply bind_ok in Ht as (x & Hx & Ht).
      apply bind_ok in Ht as (y & Hy & Ht). inversion Ht; subst.
      cbn [tp_plain] in Hp. apply andb_prop in Hp as [Hp Hpst]. apply andb_prop in Hp as [Hpb Hpo].
      cbn [ir_pty].
      unfold plain_path in Hpb. destruct (path_segs b) as [[l segs]|] eqn:Eseg; [|discriminate].
      pose proof (plain_path_good b l segs [y; x] [ir_pty alloc st; ir_pty alloc o] Eseg) as H.
      cbn [args_toks sep_by] in H. rewrite <- !app_assoc in H. apply H.
      constructor; [apply IHst; assumption|]. constructor; [apply IHo; assumption|constructor].
  Qed.

  (** the statement with the fuel the entry points use *)
  Theorem type_parses : forall t toks,
    tp_plain t = true -> tp_tokens alloc t = Ok toks ->
    forall rest, ty_stop rest = true ->
    forall fuel, List.length toks < fuel ->
    parse_ty fuel (toks ++ rest) = Some (ir_pty alloc t, rest).
  Proof.
    intros t toks Hp Ht rest Hr fuel Hf.
    apply (gt_parses _ _ (tp_good t toks Hp Ht) fuel Hf rest Hr).
  Qed.

  Corollary parse_type_emitted : forall t toks,
    tp_plain t = true -> tp_tokens alloc t = Ok toks -> parse_type toks = Some (ir_pty alloc t).
  Proof.
    intros t toks Hp Ht. unfold parse_type.
    pose proof (type_parses t toks Hp Ht [] eq_refl (S (List.length toks)) (le_n _)) as H.
    rewrite app_nil_r in H. rewrite H. reflexivity.
  Qed.
End Types.
