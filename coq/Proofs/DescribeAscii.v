(** C13: the bridge between the byte tokenizer [tokens] and the code-point tokenizer
    [ctokens]; descriptions of ASCII registries are ASCII; the FORMATTED description reads in
    lockstep with the spec tree. *)
From Coq Require Import String Ascii List Arith NArith Bool Lia DecimalString.
From V Require Import Base.Util Base.Result Base.Strings Model.Registry Model.Format Model.Describe
  Model.DescribeSpec Model.AsciiSpec Model.Equal Model.DedupSpec Proofs.FormatProofs Proofs.DescribeProofs
  Proofs.DescribeLockstep Proofs.DescribeFormatTokens.
Import ListNotations.
Open Scope string_scope. Open Scope list_scope.

(** ** 1. [utf8_decode] is the identity on ASCII bytes *)
Lemma utf8_decode_bytes_ascii : forall l fuel,
  (List.length l < fuel)%nat -> Forall (fun b => (b < 128)%N) l -> utf8_decode_bytes fuel l = l.
Proof.
  induction l as [|b l IH]; intros fuel Hf Hl; destruct fuel as [|fuel]; cbn [List.length] in Hf; try lia.
  - reflexivity.
  - cbn [utf8_decode_bytes]. inversion Hl as [|? ? Hb Hl']; subst.
    apply N.ltb_lt in Hb. rewrite Hb. f_equal. apply IH; [lia|exact Hl'].
Qed.

Lemma asciib_bytes s : asciib s = true -> Forall (fun b => (b < 128)%N) (bytes_of_string s).
Proof.
  induction s as [|c s IH]; cbn [asciib all_chars bytes_of_string]; intros H; [constructor|].
  apply andb_prop in H as [Hc H]. constructor; [apply N.ltb_lt; exact Hc|apply IH; exact H].
Qed.

Theorem utf8_decode_ascii s : asciib s = true -> utf8_decode s = bytes_of_string s.
Proof.
  intros H. unfold utf8_decode. apply utf8_decode_bytes_ascii; [lia|apply asciib_bytes; exact H].
Qed.

(** ** 2. the two tokenizers agree on the bytes of ANY text *)
Lemma N_of_ascii_inj a b : N_of_ascii a = N_of_ascii b -> a = b.
Proof. intros H. rewrite <- (ascii_N_embedding a), <- (ascii_N_embedding b), H. reflexivity. Qed.

Lemma ascii_eqb_N a b : Ascii.eqb a b = N.eqb (N_of_ascii a) (N_of_ascii b).
Proof.
  destruct (Ascii.eqb_spec a b) as [->|Hne].
  - symmetry. apply N.eqb_refl.
  - symmetry. apply N.eqb_neq. intros H. apply Hne, N_of_ascii_inj, H.
Qed.

Lemma is_cspace_byte c : is_cspace (N_of_ascii c) = is_space c.
Proof. unfold is_cspace, is_space. rewrite !ascii_eqb_N. reflexivity. Qed.

Lemma is_cpunct_byte c : is_cpunct (N_of_ascii c) = is_punct c.
Proof. unfold is_cpunct, is_punct. cbn [existsb]. rewrite !ascii_eqb_N. reflexivity. Qed.

Lemma bytes_rev_string_acc w : forall s0,
  bytes_of_string (fold_left (fun s c => String c s) w s0) =
  rev (map N_of_ascii w) ++ bytes_of_string s0.
Proof.
  induction w as [|c w IH]; intros s0; cbn [fold_left map rev]; [reflexivity|].
  rewrite IH. cbn [bytes_of_string]. rewrite <- app_assoc. reflexivity.
Qed.

Lemma bytes_rev_string w : bytes_of_string (rev_string w) = rev (map N_of_ascii w).
Proof. unfold rev_string. rewrite bytes_rev_string_acc. cbn [bytes_of_string]. apply app_nil_r. Qed.

Lemma cflush_bytes w acc :
  cflush (map N_of_ascii w) (map ctok_of_tok acc) = map ctok_of_tok (flush w acc).
Proof.
  destruct w as [|c w]; [reflexivity|]. unfold cflush, flush. cbn [map ctok_of_tok].
  rewrite bytes_rev_string. reflexivity.
Qed.

Lemma tokens_from_bytes : forall s w acc,
  (let st := crun (bytes_of_string s) (map N_of_ascii w, map ctok_of_tok acc) in
   rev (cflush (fst st) (snd st))) = map ctok_of_tok (tokens_from s w acc).
Proof.
  induction s as [|c s IH]; intros w acc; cbn [bytes_of_string tokens_from].
  - cbn [crun fold_left fst snd]. rewrite cflush_bytes, map_rev. reflexivity.
  - change (crun (N_of_ascii c :: bytes_of_string s) ?st) with (crun (bytes_of_string s) (cstep st (N_of_ascii c))).
    unfold cstep. rewrite is_cspace_byte, is_cpunct_byte. cbn [fst snd].
    destruct (is_space c).
    + rewrite cflush_bytes. exact (IH [] (flush w acc)).
    + destruct (is_punct c).
      * rewrite cflush_bytes. exact (IH [] (P c :: flush w acc)).
      * exact (IH (c :: w) acc).
Qed.

Theorem tokenizers_agree s : ctokens (bytes_of_string s) = map ctok_of_tok (tokens s).
Proof. unfold ctokens, tokens. exact (tokens_from_bytes s [] []). Qed.

Lemma bytes_of_string_inj a : forall b, bytes_of_string a = bytes_of_string b -> a = b.
Proof.
  induction a as [|c a IH]; destruct b as [|d b]; cbn [bytes_of_string]; intros H; try discriminate.
  - reflexivity.
  - inversion H as [[Hc Hr]]. apply N_of_ascii_inj in Hc. subst d. f_equal. apply IH; exact Hr.
Qed.

(** nothing is lost by the translation of tokens *)
Lemma ctok_of_tok_inj a b : ctok_of_tok a = ctok_of_tok b -> a = b.
Proof.
  destruct a as [x|x], b as [y|y]; cbn [ctok_of_tok]; intros H; try discriminate; inversion H as [E].
  - f_equal. apply bytes_of_string_inj; exact E.
  - f_equal. apply N_of_ascii_inj; exact E.
Qed.

Lemma map_ctok_of_tok_inj a : forall b, map ctok_of_tok a = map ctok_of_tok b -> a = b.
Proof.
  induction a as [|x a IH]; destruct b as [|y b]; cbn [map]; intros H; try discriminate; [reflexivity|].
  inversion H as [[Hx Hr]]. apply ctok_of_tok_inj in Hx. subst y. f_equal. apply IH; exact Hr.
Qed.

Theorem ascii_bridge s :
  asciib s = true ->
  utf8_decode s = bytes_of_string s /\ ctokens (utf8_decode s) = map ctok_of_tok (tokens s).
Proof.
  intros H. rewrite (utf8_decode_ascii s H). split; [reflexivity|apply tokenizers_agree].
Qed.

(** ** 3. the description of an ASCII registry is ASCII *)
Lemma asciib_app a b : asciib (a ++ b) = asciib a && asciib b.
Proof.
  unfold asciib. induction a as [|c a IH]; cbn [String.append all_chars]; [reflexivity|].
  rewrite IH. apply andb_assoc.
Qed.

Lemma asciib_join sep ds :
  asciib sep = true -> Forall (fun d => asciib d = true) ds -> asciib (join sep ds) = true.
Proof.
  intros Hs H. unfold join. induction H as [|d ds Hd H IH]; [reflexivity|].
  cbn [String.concat]. destruct ds as [|d' ds]; [exact Hd|].
  rewrite !asciib_app, Hd, Hs. exact IH.
Qed.

Lemma asciib_prim p : asciib (prim_name p) = true.
Proof. destruct p; reflexivity. Qed.

Lemma asciib_uint u : asciib (NilEmpty.string_of_uint u) = true.
Proof. induction u; cbn; auto. Qed.

Lemma asciib_N n : asciib (N_to_string n) = true.
Proof. apply asciib_uint. Qed.

Lemma asciib_tuple ds : Forall (fun d => asciib d = true) ds -> asciib (tuple_text ds) = true.
Proof.
  intros H. unfold tuple_text.
  assert (G : asciib ("(" ++ join "," ds ++ ")") = true).
  { rewrite !asciib_app, (asciib_join "," ds eq_refl H). reflexivity. }
  destruct ds as [|d [|d' ds]]; try exact G.
  inversion H; subst. rewrite !asciib_app. cbn [andb]. rewrite H2. reflexivity.
Qed.

Lemma asciib_cons c s : asciib (String c s) = ascii_charb c && asciib s.
Proof. reflexivity. Qed.

Ltac asc := repeat (rewrite ?asciib_app, ?asciib_cons, ?asciib_N, ?asciib_prim);
            repeat match goal with H : asciib _ = true |- _ => rewrite H end; reflexivity.

Lemma mapM_Forall {A B} (f : A -> result B) (Q : B -> Prop) : forall l ys,
  (forall x y, In x l -> f x = Ok y -> Q y) -> mapM f l = Ok ys -> Forall Q ys.
Proof.
  induction l as [|x l IH]; intros ys Hf H; cbn [mapM] in H.
  - inversion H; constructor.
  - apply bind_ok in H as (y & Ey & H). apply bind_ok in H as (ys' & Eys & H). inversion H; subst.
    constructor; [eapply Hf; [left; reflexivity|exact Ey]|].
    apply IH; [|exact Eys]. intros x' y' Hin. apply Hf. right; exact Hin.
Qed.

Definition ty_ascii (t : ty) : Prop :=
  forallb asciib (t_path t) = true /\
  match t_def t with
  | TDComposite fs => fields_asciib fs = true
  | TDVariant vs => forallb (fun v => asciib (v_name v) && fields_asciib (v_fields v)) vs = true
  | _ => True
  end.

Lemma ascii_reg_resolve r id t : ascii_regb r = true -> resolve r id = Some t -> ty_ascii t.
Proof.
  unfold ascii_regb, resolve. intros H E.
  destruct (nth_error r (N.to_nat id)) as [[i t']|] eqn:En; [|discriminate]. inversion E; subst t'.
  apply nth_error_In in En. rewrite forallb_forall in H. specialize (H _ En). cbn [snd] in H.
  apply andb_prop in H as [H1 H2]. split; [exact H1|].
  destruct (t_def t); try exact I; exact H2.
Qed.

Lemma last_In {A} (l : list A) d : l <> [] -> In (last l d) l.
Proof.
  induction l as [|x l IH]; intros H; [congruence|]. destruct l as [|y l]; [left; reflexivity|].
  right. apply IH. discriminate.
Qed.

Lemma ident_ascii t i : ty_ascii t -> path_ident (t_path t) = Some i -> asciib i = true.
Proof.
  intros [H _] E. unfold path_ident in E. rewrite forallb_forall in H.
  destruct (t_path t) as [|x p]; [discriminate|].
  assert (Ei : i = last (x :: p) "") by congruence. rewrite Ei. apply H. apply last_In. discriminate.
Qed.

Section Ascii.
  Variable r : registry.
  Hypothesis Hr : ascii_regb r = true.

  Lemma tname_ascii : forall fuel t s, ty_ascii t -> tname r fuel t = Ok s -> asciib s = true.
  Proof.
    induction fuel as [|f IH]; intros t s Ht H; [discriminate|]. cbn [tname] in H.
    assert (Hid : forall i s', match resolve r i with None => Panic unwrap_none | Some t' => tname r f t' end = Ok s' ->
                               asciib s' = true).
    { intros i s' E. destruct (resolve r i) as [t'|] eqn:Er; [|discriminate].
      eapply IH; [eapply ascii_reg_resolve; eassumption|exact E]. }
    destruct (t_def t) as [fs|vs|e|len e|ts|p|e|store order] eqn:Ed.
    - destruct (path_ident (t_path t)) as [ident|] eqn:Ei; [|inversion H; reflexivity].
      apply bind_ok in H as (ps & Eps & H).
      pose proof (ident_ascii _ _ Ht Ei) as Hident.
      assert (Hps : Forall (fun d => asciib d = true) ps).
      { eapply mapM_Forall; [|exact Eps]. intros x y _ E. cbn beta in E.
        destruct (tp_ty x) as [i|]; [eapply Hid; exact E|inversion E; reflexivity]. }
      pose proof (asciib_join "," ps eq_refl Hps) as Hj.
      destruct (String.eqb (join "," ps) ""); inversion H; subst; asc.
    - destruct (path_ident (t_path t)) as [ident|] eqn:Ei; [|inversion H; reflexivity].
      apply bind_ok in H as (ps & Eps & H).
      pose proof (ident_ascii _ _ Ht Ei) as Hident.
      assert (Hps : Forall (fun d => asciib d = true) ps).
      { eapply mapM_Forall; [|exact Eps]. intros x y _ E. cbn beta in E.
        destruct (tp_ty x) as [i|]; [eapply Hid; exact E|inversion E; reflexivity]. }
      pose proof (asciib_join "," ps eq_refl Hps) as Hj.
      destruct (String.eqb (join "," ps) ""); inversion H; subst; asc.
    - apply bind_ok in H as (i & Ei & H). apply Hid in Ei. inversion H; subst. asc.
    - apply bind_ok in H as (i & Ei & H). apply Hid in Ei. inversion H; subst. asc.
    - apply bind_ok in H as (ds & Eds & H). inversion H; subst. apply asciib_tuple.
      eapply mapM_Forall; [|exact Eds]. intros x y _ E. eapply Hid; exact E.
    - inversion H; subst. apply asciib_prim.
    - apply bind_ok in H as (i & Ei & H). apply Hid in Ei. inversion H; subst. asc.
    - inversion H; reflexivity.
  Qed.

  Definition cache_ascii (c : cache) : Prop :=
    Forall (fun e : N * centry => match snd e with CDone s => asciib s = true | CRec => True end) c.

  Lemma cache_get_ascii c id s : cache_ascii c -> cache_get c id = Some (CDone s) -> asciib s = true.
  Proof.
    induction c as [|[k v] c IH]; cbn [cache_get]; intros Hc H; [discriminate|].
    inversion Hc as [|? ? Hv Hc']; subst. destruct (N.eqb k id).
    - inversion H; subst v. exact Hv.
    - apply IH; assumption.
  Qed.

  (** a state-threading call keeps the cache ASCII and returns an ASCII text *)
  Definition call_ascii {A} (f : cache -> A -> result (string * cache)) (x : A) : Prop :=
    forall c s c', cache_ascii c -> f c x = Ok (s, c') -> asciib s = true /\ cache_ascii c'.

  Lemma mapS_ascii {A} (f : cache -> A -> result (string * cache)) : forall l c ds c',
    (forall x, In x l -> call_ascii f x) -> cache_ascii c -> mapS f c l = Ok (ds, c') ->
    Forall (fun d => asciib d = true) ds /\ cache_ascii c'.
  Proof.
    induction l as [|x l IH]; intros c ds c' Hf Hc H; cbn [mapS] in H.
    - inversion H; subst. split; [constructor|exact Hc].
    - apply bind_ok in H as ([d c1] & E1 & H). apply bind_ok in H as ([ds' c2] & E2 & H).
      inversion H; subst ds c'. clear H.
      destruct (Hf x (or_introl eq_refl) _ _ _ Hc E1) as [Hd Hc1].
      destruct (IH _ _ _ (fun y Hy => Hf y (or_intror Hy)) Hc1 E2) as [Hds Hc2].
      split; [constructor; assumption|exact Hc2].
  Qed.

  Section Policy.
    Variable rec : cache -> N -> result (string * cache).
    Hypothesis Hrec : forall id, call_ascii rec id.

    Lemma field_desc_ascii f :
      match f_name f with Some n => asciib n = true | None => True end -> call_ascii (field_desc rec) f.
    Proof.
      intros Hn c s c' Hc H. unfold field_desc in H.
      apply bind_ok in H as ([d c1] & E & H). destruct (Hrec _ _ _ _ Hc E) as [Hd Hc1].
      inversion H; subst. split; [|exact Hc1].
      destruct (f_name f) as [n|], (is_boxed f); asc.
    Qed.

    Lemma fields_desc_ascii fs : fields_asciib fs = true -> call_ascii (fields_desc rec) fs.
    Proof.
      intros Hfs c s c' Hc H. unfold fields_desc in H.
      assert (Hall : forall f, In f fs -> call_ascii (field_desc rec) f).
      { intros f Hf. apply field_desc_ascii. unfold fields_asciib in Hfs.
        rewrite forallb_forall in Hfs. specialize (Hfs f Hf). destruct (f_name f); [exact Hfs|exact I]. }
      destruct fs as [|f0 fs0]; [inversion H; subst; split; [reflexivity|exact Hc]|].
      set (fs := f0 :: fs0) in *.
      destruct (all_named fs && negb (all_unnamed fs)).
      - apply bind_ok in H as ([ds c1] & E & H). inversion H; subst.
        destruct (mapS_ascii _ _ _ _ _ Hall Hc E) as [Hds Hc1]. split; [|exact Hc1].
        pose proof (asciib_join "," ds eq_refl Hds) as Hj. asc.
      - destruct (negb (all_named fs) && all_unnamed fs); [|discriminate].
        apply bind_ok in H as ([ds c1] & E & H). inversion H; subst.
        destruct (mapS_ascii _ _ _ _ _ Hall Hc E) as [Hds Hc1]. split; [|exact Hc1].
        pose proof (asciib_join "," ds eq_refl Hds) as Hj. asc.
    Qed.

    Lemma variant_desc_ascii v :
      asciib (v_name v) = true -> fields_asciib (v_fields v) = true -> call_ascii (variant_desc rec) v.
    Proof.
      intros Hn Hfs c s c' Hc H. unfold variant_desc in H.
      apply bind_ok in H as ([fsd c1] & E & H). destruct (fields_desc_ascii _ Hfs _ _ _ Hc E) as [Hd Hc1].
      inversion H; subst. split; [|exact Hc1]. destruct (String.eqb fsd "()"); asc.
    Qed.

    Lemma typedef_desc_ascii t : ty_ascii t -> call_ascii (typedef_desc rec) (t_def t).
    Proof.
      intros [_ Ht] c s c' Hc H.
      destruct (t_def t) as [fs|vs|e|len e|ts|p|e|store order]; cbn [typedef_desc] in H.
      - eapply fields_desc_ascii; eassumption.
      - apply bind_ok in H as ([ds c1] & E & H). inversion H; subst.
        assert (Hall : forall v, In v vs -> call_ascii (variant_desc rec) v).
        { intros v Hv. rewrite forallb_forall in Ht. specialize (Ht v Hv).
          apply andb_prop in Ht as [H1 H2]. apply variant_desc_ascii; assumption. }
        destruct (mapS_ascii _ _ _ _ _ Hall Hc E) as [Hds Hc1]. split; [|exact Hc1].
        pose proof (asciib_join "," ds eq_refl Hds) as Hj. asc.
      - apply bind_ok in H as ([d c1] & E & H). destruct (Hrec _ _ _ _ Hc E) as [Hd Hc1].
        inversion H; subst. split; [asc|exact Hc1].
      - apply bind_ok in H as ([d c1] & E & H). destruct (Hrec _ _ _ _ Hc E) as [Hd Hc1].
        inversion H; subst. split; [asc|exact Hc1].
      - apply bind_ok in H as ([ds c1] & E & H). inversion H; subst.
        destruct (mapS_ascii rec ts _ _ _ (fun x _ => Hrec x) Hc E) as [Hds Hc1].
        split; [apply asciib_tuple; exact Hds|exact Hc1].
      - inversion H; subst. split; [apply asciib_prim|exact Hc].
      - apply bind_ok in H as ([d c1] & E & H). destruct (Hrec _ _ _ _ Hc E) as [Hd Hc1].
        inversion H; subst. split; [asc|exact Hc1].
      - apply bind_ok in H as ([o c1] & E1 & H). apply bind_ok in H as ([st c2] & E2 & H).
        destruct (Hrec _ _ _ _ Hc E1) as [Ho Hc1]. destruct (Hrec _ _ _ _ Hc1 E2) as [Hst Hc2].
        inversion H; subst. split; [asc|exact Hc2].
    Qed.

    Lemma ty_desc_ascii nf t : ty_ascii t -> call_ascii (ty_desc (tname r nf) rec) t.
    Proof.
      intros Ht c s c' Hc H. unfold ty_desc in H.
      apply bind_ok in H as (nm & En & H). apply bind_ok in H as ([d c1] & E & H).
      destruct (typedef_desc_ascii t Ht _ _ _ Hc E) as [Hd Hc1]. inversion H; subst. split; [|exact Hc1].
      assert (Hnm : asciib nm = true).
      { destruct (is_named t); [eapply tname_ascii; eassumption|inversion En; reflexivity]. }
      assert (Hp : asciib (def_prefix (t_def t)) = true) by (destruct (t_def t); reflexivity).
      asc.
    Qed.
  End Policy.

  Lemma dresolve_ascii nf : forall fuel id, call_ascii (dresolve r nf fuel) id.
  Proof.
    induction fuel as [|f IH]; intros id c s c' Hc H; [discriminate|]. cbn [dresolve] in H.
    destruct (resolve r id) as [t|] eqn:Er; [|discriminate].
    pose proof (ascii_reg_resolve _ _ _ Hr Er) as Ht.
    assert (Hname : (let* n := tname r nf t in Ok (n, c)) = Ok (s, c') -> asciib s = true /\ cache_ascii c').
    { intros E. apply bind_ok in E as (n & En & E). inversion E; subst.
      split; [eapply tname_ascii; eassumption|exact Hc]. }
    assert (Hexp : (let* (d, c1) := ty_desc (tname r nf) (dresolve r nf f) (cache_put c id CRec) t in
                    Ok (d, cache_put c1 id (CDone d))) = Ok (s, c') -> asciib s = true /\ cache_ascii c').
    { intros E. apply bind_ok in E as ([d c1] & Ed & E). inversion E; subst.
      assert (Hc0 : cache_ascii (cache_put c id CRec)) by (constructor; [exact I|exact Hc]).
      destruct (ty_desc_ascii _ IH nf t Ht _ _ _ Hc0 Ed) as [Hd Hc1].
      split; [exact Hd|constructor; [exact Hd|exact Hc1]]. }
    destruct (cache_get c id) as [[|s0]|] eqn:Eg.
    - destruct (is_named t); auto.
    - destruct (is_named t); [auto|]. inversion H; subst.
      split; [eapply cache_get_ascii; eassumption|exact Hc].
    - auto.
  Qed.

  Theorem describe_ascii id s : describe r id = Ok s -> asciib s = true.
  Proof.
    unfold describe, describe_with. intros H. apply bind_ok in H as ([d c'] & E & H). inversion H; subst.
    eapply dresolve_ascii; [|exact E]. constructor.
  Qed.
End Ascii.

(** ** 4. the FORMATTED description of an ASCII registry in lockstep with the spec tree *)
Theorem describe_formatted_lockstep r id s l :
  words_okb r = true -> paths_only_on_items r = true -> ascii_regb r = true ->
  describe r id = Ok s -> describe_fmt r id = Ok l ->
  exists tr st,
    spec_tree r (name_fuel r) (desc_fuel r) ([], []) id = Some (tr, st) /\
    ctokens l = map ctok_of_tok (atoms tr).
Proof.
  intros Hw Hi Ha E F.
  destruct (describe_lockstep r id s Hw Hi E) as (tr & st & V & T).
  exists tr, st. split; [exact V|].
  rewrite (describe_format_ctokens r id s l E F).
  destruct (ascii_bridge s (describe_ascii r Ha id s E)) as [_ B]. rewrite B, T. reflexivity.
Qed.

(** ** non-vacuity *)
Example formatted_lockstep_hyps :
  words_okb dedup_example_reg && paths_only_on_items dedup_example_reg && ascii_regb dedup_example_reg
  && is_ok (describe_fmt dedup_example_reg 0) = true.
Proof. vm_compute. reflexivity. Qed.

Example formatted_lockstep_tokens :
  rmap ctokens (describe_fmt dedup_example_reg 0) =
  Ok (map ctok_of_tok [W "struct"; W "Foo"; P "("%char; W "u8"; P ")"%char]).
Proof. vm_compute. reflexivity. Qed.

(** outside ASCII the code points differ from the bytes: "e-acute" = C3 A9 decodes to U+00E9 *)
Example utf8_decode_non_ascii :
  utf8_decode (String "195"%char (String "169"%char "")) = [233%N] /\
  bytes_of_string (String "195"%char (String "169"%char "")) = [195%N; 169%N].
Proof. vm_compute. split; reflexivity. Qed.
