(** C17, restriction half, clause "example validity for retained ids is unchanged": the typing
    relation of C12 ([has_type] / its decision procedure [has_typeb], Model/ExampleValue.v) under
    a renumbering of the registry and under cutting the registry after a prefix.

    - RENUMBERING: [has_typeb (renumber pi r) (pi id) v = has_typeb r id v] (an equation).
    - PREFIX: a value typed by a prefix [r1] at [id] is typed by [r1 ++ r2] at [id].
    - RESTRICTION ([restrict pi k r = firstn k (renumber pi r)]): a value that the restricted
      registry types at the retained id [pi id] is typed by the full registry at [id].
    The converse direction (typed by the full registry => typed by the restricted one) needs the
    restricted registry to be closed and a fuel bound; it is evaluated per case at run time
    ([typed_alike] of Corr/RunC17.v) and not proved here. *)
From Coq Require Import List NArith ZArith Bool String Lia.
From V Require Import Base.Util Model.Registry Model.RngWords Model.ExampleValue Model.Renumber
  Proofs.RenumberPerm Proofs.ExampleValueProofs.
Import ListNotations.

(** ** prefix *)
Section Prefix.
  Variable r1 r2 : registry.
  Let r := r1 ++ r2.

  Lemma lookup_app1 id t : lookup r1 id = Some t -> lookup r id = Some t.
  Proof.
    unfold lookup, r. intros H.
    destruct (id <? N.of_nat (List.length r1))%N eqn:E; [|discriminate].
    apply N.ltb_lt in E.
    assert (E' : (id <? N.of_nat (List.length (r1 ++ r2)))%N = true).
    { apply N.ltb_lt. rewrite app_length. lia. }
    rewrite E'. unfold resolve in *.
    destruct (nth_error r1 (N.to_nat id)) as [[i0 t0]|] eqn:En; [|discriminate].
    rewrite nth_error_app1 by (apply nth_error_Some; congruence). rewrite En. exact H.
  Qed.

  Lemma has_type_fuel_prefix : forall (f1 f : nat) id v,
    (f1 <= f)%nat -> has_type_fuel f1 r1 id v = true -> has_type_fuel f r id v = true.
  Proof.
    induction f1 as [|f1 IH]; intros f id v Hle H; [discriminate|].
    destruct f as [|f]; [lia|]. cbn [has_type_fuel] in *.
    destruct (lookup r1 id) as [t|] eqn:E; [|discriminate].
    rewrite (lookup_app1 _ _ E).
    eapply ty_typedb_mono; [|exact H]. intros id' v'. apply IH. lia.
  Qed.

  Theorem has_typeb_prefix id v : has_typeb r1 id v = true -> has_typeb r id v = true.
  Proof.
    unfold has_typeb. apply has_type_fuel_prefix.
    unfold r. rewrite app_length. nia.
  Qed.
End Prefix.

(** ** renumbering *)
Section Renumber.
  Variable pi : N -> N.
  Variable r : registry.
  Hypothesis Hpi : renumbering (N.of_nat (List.length r)) pi.
  Let r' := renumber pi r.

  Lemma lookup_renumber id : lookup r' (pi id) = option_map (rename_ty pi) (lookup r id).
  Proof.
    unfold lookup, r'. rewrite renumber_length.
    destruct Hpi as (_ & Hrng & _).
    destruct (id <? N.of_nat (List.length r))%N eqn:E.
    - apply N.ltb_lt in E. apply Hrng in E. apply N.ltb_lt in E. rewrite E.
      apply (resolve_renumber pi r Hpi).
    - assert (E' : (pi id <? N.of_nat (List.length r))%N = false).
      { apply N.ltb_ge. apply N.ltb_ge in E. destruct (N.lt_ge_cases (pi id) (N.of_nat (List.length r))) as [Hc|Hc]; [|exact Hc].
        apply Hrng in Hc. lia. }
      rewrite E'. reflexivity.
  Qed.

  Section Judgement.
    Variable T T' : N -> value -> bool.
    Hypothesis HT : forall i v, T' (pi i) v = T i v.

    Lemma fields_typedb_rename fs c :
      fields_typedb T' (map (rename_field pi) fs) c = fields_typedb T fs c.
    Proof.
      destruct c as [l|l]; cbn [fields_typedb].
      - revert l. induction fs as [|f fs IH]; destruct l as [|nv l]; cbn [map forallb2]; try reflexivity.
        cbn [rename_field f_name f_ty]. rewrite HT, IH. reflexivity.
      - revert l. induction fs as [|f fs IH]; destruct l as [|v l]; cbn [map forallb2]; try reflexivity.
        cbn [rename_field f_name f_ty]. rewrite HT, IH. reflexivity.
    Qed.

    Lemma forallb_T e l : forallb (T' (pi e)) l = forallb (T e) l.
    Proof. induction l as [|v l IH]; cbn [forallb]; [reflexivity|]. rewrite HT, IH. reflexivity. Qed.

    Lemma forallb2_T ts l : forallb2 T' (map pi ts) l = forallb2 T ts l.
    Proof.
      revert l. induction ts as [|t ts IH]; destruct l as [|v l]; cbn [map forallb2]; try reflexivity.
      rewrite HT, IH. reflexivity.
    Qed.

    Lemma ty_typedb_rename t v : ty_typedb T' (rename_ty pi t) v = ty_typedb T t v.
    Proof.
      unfold ty_typedb. cbn [rename_ty t_def].
      destruct (t_def t) as [fs|vs|e|len e|ts|p|e|st o]; cbn [rename_def].
      - destruct v; try reflexivity. apply fields_typedb_rename.
      - destruct v as [|name c| |]; try reflexivity.
        induction vs as [|var vs IH]; cbn [map existsb]; [reflexivity|].
        cbn [rename_variant v_name v_fields]. rewrite fields_typedb_rename, IH. reflexivity.
      - destruct v as [[l|l]| | |]; try reflexivity. apply forallb_T.
      - destruct v as [[l|l]| | |]; try reflexivity. rewrite forallb_T. reflexivity.
      - destruct v as [[l|l]| | |]; try reflexivity. apply forallb2_T.
      - reflexivity.
      - apply HT.
      - reflexivity.
    Qed.
  End Judgement.

  Lemma has_type_fuel_renumber : forall f id v,
    has_type_fuel f r' (pi id) v = has_type_fuel f r id v.
  Proof.
    induction f as [|f IH]; intros id v; [reflexivity|].
    cbn [has_type_fuel]. rewrite lookup_renumber.
    destruct (lookup r id) as [t|]; cbn [option_map]; [|reflexivity].
    apply ty_typedb_rename. exact IH.
  Qed.

  Theorem has_typeb_renumber id v : has_typeb r' (pi id) v = has_typeb r id v.
  Proof.
    unfold has_typeb, r'. rewrite renumber_length. apply has_type_fuel_renumber.
  Qed.
End Renumber.

(** ** restriction *)
Theorem has_typeb_restriction pi k r id v :
  renumbering (N.of_nat (List.length r)) pi ->
  has_typeb (restrict pi k r) (pi id) v = true -> has_typeb r id v = true.
Proof.
  intros Hpi H. unfold restrict in H.
  pose proof (has_typeb_prefix (firstn k (renumber pi r)) (skipn k (renumber pi r)) (pi id) v H) as H'.
  rewrite firstn_skipn in H'. rewrite (has_typeb_renumber pi r Hpi) in H'. exact H'.
Qed.

(** with the relation of C12 as conclusion *)
Theorem has_type_restriction pi k r id v :
  renumbering (N.of_nat (List.length r)) pi ->
  has_typeb (restrict pi k r) (pi id) v = true -> has_type r id v.
Proof.
  intros Hpi H. eapply has_type_fuel_sound. eapply has_typeb_restriction; eassumption.
Qed.

Theorem has_type_restriction_both pi k r id v :
  renumbering (N.of_nat (List.length r)) pi ->
  has_typeb (restrict pi k r) (pi id) v = true -> has_typeb r id v = true /\ has_type r id v.
Proof.
  intros Hpi H. split; [eapply has_typeb_restriction|eapply has_type_restriction]; eassumption.
Qed.

(** the example generated for a retained id from the restricted registry is an instance of the
    type in the FULL registry (C12_typed transported along the restriction) *)
Theorem example_restriction_typed pi k r id ws v :
  renumbering (N.of_nat (List.length r)) pi ->
  example_value (restrict pi k r) (pi id) ws = XOk v -> has_type r id v.
Proof.
  intros Hpi H. eapply has_type_restriction; [exact Hpi|].
  eapply example_value_typedb. exact H.
Qed.
