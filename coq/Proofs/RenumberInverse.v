(** C17: the inverse of a renumbering.  For a CLOSED registry with ids = positions the renumbered
    registry can be renumbered back: [renumber (inv_renumbering pi n) (renumber pi r) = r].  So every
    one-directional transfer statement along [renumber pi] is an equivalence on such registries; in
    particular "generation is [Ok] iff it is [Ok] on the renumbered registry" under the equivalence
    hypothesis of Proofs/GenerateOkTransfer.v. *)
From Coq Require Import List NArith String Bool Lia.
From V Require Import Base.Strings Base.Result Model.Registry Model.Settings Model.Subst
  Model.TypePath Model.Derives Model.Generate Model.Emit Model.Equal Model.Shape Model.WellFormed
  Model.DedupSpec Model.Renumber Model.DedupPerm
  Proofs.GenProofs Proofs.ResolveTotal Proofs.RenumberPerm Proofs.TeqEquivariance Proofs.DedupPerm
  Proofs.GenerateOkTransfer.
Import ListNotations.
Open Scope list_scope.

(** the inverse on [0, n), the identity elsewhere *)
Definition inv_renumbering (pi : N -> N) (n : nat) (j : N) : N :=
  if N.ltb j (N.of_nat n) then inv_on pi n j else j.

Lemma inv_renumbering_pi pi n i :
  renumbering (N.of_nat n) pi -> (i < N.of_nat n)%N -> inv_renumbering pi n (pi i) = i.
Proof.
  intros Hpi Hi. unfold inv_renumbering. pose proof Hpi as (_ & Hrng & _).
  assert (E : N.ltb (pi i) (N.of_nat n) = true) by (apply N.ltb_lt; apply (proj1 (Hrng i)); exact Hi).
  rewrite E. apply inv_on_pi; assumption.
Qed.

Lemma inv_renumbering_is_renumbering pi n :
  renumbering (N.of_nat n) pi -> renumbering (N.of_nat n) (inv_renumbering pi n).
Proof.
  intros Hpi. pose proof Hpi as (Hinj & Hrng & Hsur).
  assert (Hin : forall j, (j < N.of_nat n)%N ->
            inv_renumbering pi n j = inv_on pi n j /\ pi (inv_on pi n j) = j /\ (inv_on pi n j < N.of_nat n)%N).
  { intros j Hj. unfold inv_renumbering. rewrite (proj2 (N.ltb_lt _ _) Hj).
    split; [reflexivity|]. apply pi_inv_on; assumption. }
  assert (Hout : forall j, ~ (j < N.of_nat n)%N -> inv_renumbering pi n j = j).
  { intros j Hj. unfold inv_renumbering. destruct (N.ltb j (N.of_nat n)) eqn:E; [|reflexivity].
    apply N.ltb_lt in E. contradiction. }
  split; [|split].
  - intros i j E.
    destruct (N.lt_ge_cases i (N.of_nat n)) as [Hi|Hi]; destruct (N.lt_ge_cases j (N.of_nat n)) as [Hj|Hj].
    + destruct (Hin i Hi) as (E1 & P1 & _). destruct (Hin j Hj) as (E2 & P2 & _). congruence.
    + destruct (Hin i Hi) as (E1 & _ & L1). rewrite (Hout j) in E by lia. lia.
    + destruct (Hin j Hj) as (E2 & _ & L2). rewrite (Hout i) in E by lia. lia.
    + rewrite (Hout i), (Hout j) in E by lia. exact E.
  - intros j. split.
    + intros Hj. destruct (Hin j Hj) as (E & _ & L). rewrite E. exact L.
    + intros Hj. destruct (N.lt_ge_cases j (N.of_nat n)) as [H|H]; [exact H|].
      rewrite (Hout j) in Hj by lia. exact Hj.
  - intros i Hi. exists (pi i). apply inv_renumbering_pi; assumption.
Qed.

(** ** renaming: extensionality on the ids that occur, composition *)
Lemma map_ext_in' {A B} (f g : A -> B) l : (forall x, In x l -> f x = g x) -> map f l = map g l.
Proof. apply map_ext_in. Qed.

Lemma rename_field_roundtrip f g fl :
  g (f (f_ty fl)) = f_ty fl -> rename_field g (rename_field f fl) = fl.
Proof. destruct fl as [n t tn d]. unfold rename_field. cbn [f_name f_ty f_type_name f_docs]. intros ->. reflexivity. Qed.

Lemma rename_ty_roundtrip f g t :
  (forall x, In x (param_ids t ++ def_ids (t_def t)) -> g (f x) = x) ->
  rename_ty g (rename_ty f t) = t.
Proof.
  intros H. destruct t as [p ps d docs]. unfold rename_ty. cbn [t_path t_params t_def t_docs] in *.
  f_equal.
  - assert (Hps : forall q i, In q ps -> tp_ty q = Some i -> g (f i) = i).
    { intros q i Hq Hi. apply H. apply in_or_app. left. unfold param_ids. cbn [t_params].
      apply in_flat_map. exists q. split; [exact Hq|]. rewrite Hi. left; reflexivity. }
    clear H. induction ps as [|q ps IH]; [reflexivity|]. cbn [map]. f_equal.
    + destruct q as [nm [i|]]; unfold rename_tparam; cbn [tp_name tp_ty option_map]; [|reflexivity].
      rewrite (Hps (mk_tparam nm (Some i)) i (or_introl eq_refl) eq_refl). reflexivity.
    + apply IH. intros q' i Hq'. apply Hps. right; exact Hq'.
  - assert (Hd : forall x, In x (def_ids d) -> g (f x) = x).
    { intros x Hx. apply H. apply in_or_app. right. exact Hx. }
    clear H. destruct d as [fs|vs|e|len e|ts|pr|e|st o]; cbn [rename_def def_ids] in *.
    + f_equal. rewrite map_map. rewrite <- (map_id fs) at 2. apply map_ext_in. intros fl Hfl.
      apply rename_field_roundtrip. apply Hd. apply in_map. exact Hfl.
    + f_equal. rewrite map_map. rewrite <- (map_id vs) at 2. apply map_ext_in. intros v Hv.
      destruct v as [vn vfs vi vd]. unfold rename_variant. cbn [v_name v_fields v_index v_docs]. f_equal.
      rewrite map_map. rewrite <- (map_id vfs) at 2. apply map_ext_in. intros fl Hfl.
      apply rename_field_roundtrip. apply Hd. apply in_flat_map.
      exists (mk_variant vn vfs vi vd). split; [exact Hv|]. cbn [v_fields]. apply in_map. exact Hfl.
    + f_equal. apply Hd. left; reflexivity.
    + f_equal. apply Hd. left; reflexivity.
    + f_equal. rewrite map_map. rewrite <- (map_id ts) at 2. apply map_ext_in. intros x Hx. apply Hd. exact Hx.
    + reflexivity.
    + f_equal. apply Hd. left; reflexivity.
    + f_equal; apply Hd; [left; reflexivity|right; left; reflexivity].
Qed.

Theorem renumber_inverse pi r :
  renumbering (N.of_nat (List.length r)) pi -> ids_consistent r = true -> closed r ->
  renumber (inv_renumbering pi (List.length r)) (renumber pi r) = r.
Proof.
  intros Hpi Hc Hcl. set (n := List.length r). set (pi' := inv_renumbering pi n).
  pose proof (inv_renumbering_is_renumbering pi n Hpi) as Hpi'.
  assert (Hpi'r : renumbering (N.of_nat (List.length (renumber pi r))) pi') by (rewrite renumber_length; exact Hpi').
  apply nth_ext with (d := dummy_entry) (d' := dummy_entry).
  - rewrite !renumber_length. reflexivity.
  - intros k Hk. rewrite !renumber_length in Hk. fold n in Hk.
    destruct (nth_error r k) as [e|] eqn:Ek; [|apply nth_error_None in Ek; unfold n in Hk; lia].
    assert (Ek' : nth_error r (N.to_nat (N.of_nat k)) = Some e) by (rewrite Nat2N.id; exact Ek).
    pose proof (nth_error_renumber pi r (N.of_nat k) e Hpi Ek') as E1.
    pose proof (nth_error_renumber pi' (renumber pi r) (pi (N.of_nat k)) _ Hpi'r E1) as E2.
    assert (Hkn : (N.of_nat k < N.of_nat n)%N) by lia.
    unfold pi' in E2 at 2. rewrite (inv_renumbering_pi pi n _ Hpi Hkn) in E2. rewrite Nat2N.id in E2.
    rewrite (nth_error_nth _ _ dummy_entry E2), (nth_error_nth _ _ dummy_entry Ek).
    (* the entry renamed there and back *)
    destruct e as [i t]. unfold rename_entry. cbn [fst snd].
    pose proof (proj1 (ids_consistent_iff r) Hc _ _ Ek) as Hi. cbn [fst] in Hi. subst i.
    f_equal.
    + apply inv_renumbering_pi; assumption.
    + apply rename_ty_roundtrip. intros x Hx. apply inv_renumbering_pi; [exact Hpi|].
      assert (Hr : resolve r (N.of_nat k) = Some t) by (unfold resolve; rewrite Nat2N.id, Ek; reflexivity).
      exact (Hcl _ _ _ Hr Hx).
Qed.

(** ** "[Ok] iff [Ok]" on closed registries *)
Theorem generate_ok_iff_renumber pi r s :
  renumbering (N.of_nat (List.length r)) pi -> ids_consistent r = true -> closed r ->
  teq_equiv_on_families r ->
  ((exists m, generate r s (types_equal r) = Ok m) <->
   (exists m', generate (renumber pi r) s (types_equal (renumber pi r)) = Ok m')).
Proof.
  intros Hpi Hc Hcl Heq. split.
  - intros (m & G). eapply generate_ok_transfer; eassumption.
  - intros (m' & G').
    pose proof (inv_renumbering_is_renumbering pi (List.length r) Hpi) as Hpi'.
    assert (Hpi'r : renumbering (N.of_nat (List.length (renumber pi r))) (inv_renumbering pi (List.length r)))
      by (rewrite renumber_length; exact Hpi').
    destruct (generate_ok_transfer _ _ s m' Hpi'r (teq_equiv_renumber pi r Hpi Heq) G') as (m & G).
    rewrite (renumber_inverse pi r Hpi Hc Hcl) in G. eauto.
Qed.
