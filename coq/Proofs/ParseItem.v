(** C02 (emit-parses), part 2: [parse_item] of [Checkers/Parse.v] reads the tokens
    printed by [type_ir_tokens] back into [item_of_ir]. *)
From Coq Require Import List NArith String Ascii Bool Lia Arith DecimalString.
From V Require Import Base.Util Base.Strings Base.Result Model.Registry Model.Settings Model.Subst
  Model.TypePath Model.Derives Model.Generate Model.Emit Model.WellFormed Checkers.Parse
  Model.Unparse Proofs.TpMap Proofs.ParseEq Proofs.ParseTy.
Import ListNotations.
Open Scope nat_scope. Open Scope string_scope. Open Scope list_scope.

(** ** groups *)
Lemma until_close_bal : forall inner d c rest,
  bal d inner = true -> is_close c = true ->
  until_close d (inner ++ c :: rest) = Some (inner, rest).
Proof.
  induction inner as [|x inner IH]; intros d c rest H Hc; cbn [app until_close bal] in *.
  - rewrite Hc. apply Nat.eqb_eq in H. subst d. reflexivity.
  - destruct (is_close x).
    + destruct d as [|d']; [discriminate|]. rewrite (IH _ _ _ H Hc). reflexivity.
    + destruct (is_open x); rewrite (IH _ _ _ H Hc); reflexivity.
Qed.

(** ** attributes *)
Definition wrap_attr (i : tokens) : tokens := "#" :: "[" :: i ++ ["]"].
Definition attrs_tokens (l : list tokens) : tokens := flat_map wrap_attr l.
Definition attr_stop (X : tokens) : Prop := (hd_is "#" X && hd_is "[" (tl X)) = false.
Definition all_bal (A : list tokens) : Prop := Forall (fun i => bal 0 i = true) A.

Lemma attr_stop_hd h X : teq h "#" = false -> attr_stop (h :: X).
Proof. intros H. unfold attr_stop. cbn [hd_is]. rewrite H. reflexivity. Qed.

Lemma attr_stop_nil : attr_stop []. Proof. reflexivity. Qed.

Lemma parse_attrs_stop f X : attr_stop X -> parse_attrs f X = ([], X).
Proof. intros H. destruct f; [reflexivity|]. rewrite parse_attrs_S, H. reflexivity. Qed.

Lemma attrs_tokens_cons i A : attrs_tokens (i :: A) = "#" :: "[" :: i ++ "]" :: attrs_tokens A.
Proof. unfold attrs_tokens. cbn [flat_map wrap_attr app]. rewrite <- app_assoc. reflexivity. Qed.

Lemma attrs_tokens_app A B : attrs_tokens (A ++ B) = attrs_tokens A ++ attrs_tokens B.
Proof. apply flat_map_app. Qed.

Lemma parse_attrs_app : forall A f X,
  all_bal A -> List.length A < f -> attr_stop X ->
  parse_attrs f (attrs_tokens A ++ X) = (A, X).
Proof.
  induction A as [|i A IH]; intros f X HA Hf HX.
  - apply parse_attrs_stop. exact HX.
  - destruct f as [|f']; [cbn [List.length] in Hf; lia|].
    inversion HA as [|i' A' Hi HA']; subst.
    rewrite attrs_tokens_cons. cbn [app]. rewrite <- app_assoc. cbn [app].
    rewrite parse_attrs_S. cbn [hd_is tl].
    replace (teq "#" "#" && teq "[" "[") with true by reflexivity.
    rewrite (until_close_bal i 0 "]" _ Hi eq_refl).
    rewrite IH; [reflexivity|exact HA'|cbn [List.length] in Hf; lia|exact HX].
Qed.

Lemma bal_attrs d b : forall A, all_bal A -> bal d (attrs_tokens A ++ b) = bal d b.
Proof.
  induction 1 as [|i A Hi HA IH]; [reflexivity|].
  rewrite attrs_tokens_cons. cbn [app]. rewrite <- app_assoc. cbn [app].
  rewrite bal_cons_plain by (split; reflexivity).
  rewrite bal_wrap; [exact IH|reflexivity|reflexivity|reflexivity|exact Hi].
Qed.

(** *** the attribute lists the printer writes *)
Lemma uint_plain u : plain_tok (NilEmpty.string_of_uint u).
Proof. destruct u; split; reflexivity. Qed.

Lemma N_to_string_plain n : plain_tok (N_to_string n).
Proof. apply uint_plain. Qed.

Lemma lit_string_plain d : plain_tok (lit_string d).
Proof.
  apply long_plain. unfold lit_string. cbn [String.length]. rewrite str_length_append.
  cbn [String.length]. lia.
Qed.

Lemma doc_tokens_attrs docs : doc_tokens docs = attrs_tokens (doc_attrs docs).
Proof.
  unfold doc_tokens, doc_attrs, attrs_tokens. induction docs as [|d docs IH]; [reflexivity|].
  cbn [flat_map map]. rewrite IH. reflexivity.
Qed.

Lemma doc_attrs_bal docs : all_bal (doc_attrs docs).
Proof.
  unfold doc_attrs. induction docs as [|d docs IH]; constructor; [|exact IH].
  rewrite !bal_cons_plain; [reflexivity|apply lit_string_plain|split; reflexivity|split; reflexivity].
Qed.

Lemma compact_attr_attrs codec f :
  compact_attr_of codec f = attrs_tokens (compact_attrs codec f).
Proof. unfold compact_attr_of, compact_attrs. destruct (fi_compact f && codec); reflexivity. Qed.

Lemma compact_attrs_bal codec f : all_bal (compact_attrs codec f).
Proof.
  unfold compact_attrs. destruct (fi_compact f && codec); [|constructor].
  constructor; [reflexivity|constructor].
Qed.

Lemma compact_attrs_len codec f : List.length (compact_attrs codec f) <= 1.
Proof. unfold compact_attrs. destruct (fi_compact f && codec); cbn [List.length]; lia. Qed.

Lemma skip_attrs_tokens (codec : bool) :
  (if codec then codec_skip else []) = attrs_tokens (skip_attrs codec).
Proof. destruct codec; reflexivity. Qed.

Lemma skip_attrs_bal codec : all_bal (skip_attrs codec).
Proof. destruct codec; [|constructor]. constructor; [reflexivity|constructor]. Qed.

Lemma skip_attrs_len codec : List.length (skip_attrs codec) <= 1.
Proof. destruct codec; cbn [skip_attrs List.length]; lia. Qed.

Lemma index_attrs_tokens (codec : bool) i :
  (if codec then codec_index i else []) = attrs_tokens (index_attrs codec i).
Proof. destruct codec; reflexivity. Qed.

Lemma index_attrs_bal codec i : all_bal (index_attrs codec i).
Proof.
  destruct codec; [|constructor]. constructor; [|constructor].
  rewrite bal_cons_plain by (split; reflexivity).
  change ["("; "index"; "="; N_to_string i; ")"] with ("(" :: ["index"; "="; N_to_string i] ++ ")" :: []).
  apply bal_wrap; try reflexivity.
  rewrite !bal_cons_plain; [reflexivity|apply N_to_string_plain|split; reflexivity|split; reflexivity].
Qed.

(** *** derives *)
Lemma derive_go_eq ds :
  (fix go (l : list kt) := match l with
                           | [] => []
                           | [x] => snd x
                           | x :: l' => snd x ++ [","] ++ go l'
                           end) ds = derive_list_tokens ds.
Proof.
  induction ds as [|x ds IH]; [reflexivity|]. destruct ds as [|y ds]; [reflexivity|].
  change (derive_list_tokens (x :: y :: ds)) with (snd x ++ [","] ++ derive_list_tokens (y :: ds)).
  rewrite <- IH. reflexivity.
Qed.

Lemma bal_derive_list d b : forall ds,
  Forall (fun x : kt => bal 0 (snd x) = true) ds ->
  bal d (derive_list_tokens ds ++ b) = bal d b.
Proof.
  induction 1 as [|x ds Hx Hds IH]; [reflexivity|]. destruct ds as [|y ds].
  - cbn [derive_list_tokens]. apply bal0_app. exact Hx.
  - change (derive_list_tokens (x :: y :: ds)) with (snd x ++ [","] ++ derive_list_tokens (y :: ds)).
    rewrite <- !app_assoc. rewrite bal0_app by exact Hx. cbn [app].
    rewrite bal_cons_plain by apply plain_comma. exact IH.
Qed.

Lemma attr_okb_spec a :
  attr_okb a = true -> a = wrap_attr (attr_inner a) /\ bal 0 (attr_inner a) = true.
Proof.
  unfold attr_okb, attr_inner, balanced. destruct a as [|h [|b r]]; try discriminate. intros H.
  apply andb_prop in H as [H Hb]. apply andb_prop in H as [H Hl]. apply andb_prop in H as [H1 H2].
  apply String.eqb_eq in H1, H2. subst h b. split; [|exact Hb].
  destruct (rev r) as [|l r'] eqn:Er; [discriminate|]. apply String.eqb_eq in Hl. subst l.
  assert (E : r = rev r' ++ ["]"]).
  { rewrite <- (rev_involutive r), Er. reflexivity. }
  rewrite E at 1. rewrite E, removelast_last. reflexivity.
Qed.

Lemma user_attrs_tokens : forall ats : list kt,
  forallb (fun x => attr_okb (snd x)) ats = true ->
  flat_map snd ats = attrs_tokens (map (fun x => attr_inner (snd x)) ats) /\
  all_bal (map (fun x => attr_inner (snd x)) ats).
Proof.
  induction ats as [|x ats IH]; intros H; [split; [reflexivity|constructor]|].
  cbn [forallb] in H. apply andb_prop in H as [Hx H]. destruct (IH H) as [E B].
  apply attr_okb_spec in Hx as [Ex Bx]. split.
  - cbn [flat_map map]. unfold attrs_tokens in *. cbn [flat_map]. rewrite <- E, <- Ex. reflexivity.
  - cbn [map]. constructor; assumption.
Qed.

Lemma derives_tokens_attrs d :
  derives_okb d = true ->
  derives_tokens d = attrs_tokens (derives_attrs d) /\ all_bal (derives_attrs d).
Proof.
  unfold derives_okb, derives_tokens, derives_attrs. intros H. apply andb_prop in H as [Hd Ha].
  destruct (user_attrs_tokens _ Ha) as [Ea Ba]. rewrite Ea, derive_go_eq.
  destruct (sort_dedup (d_derives d)) as [|x ds] eqn:Eds.
  - split; [reflexivity|exact Ba].
  - split.
    + rewrite attrs_tokens_app. f_equal. unfold attrs_tokens. cbn [flat_map wrap_attr app].
      rewrite app_nil_r, <- !app_assoc. reflexivity.
    + apply Forall_app. split; [|exact Ba]. constructor; [|constructor].
      cbn [app]. rewrite bal_cons_plain by (split; reflexivity).
      apply bal_wrap; try reflexivity.
      rewrite <- (app_nil_r (derive_list_tokens _)). rewrite bal_derive_list; [reflexivity|].
      apply Forall_forall. intros y Hy. rewrite forallb_forall in Hd. apply (Hd y Hy).
Qed.

Lemma attrs_len A : List.length A <= List.length (attrs_tokens A).
Proof.
  induction A as [|i A IH]; [cbn; lia|]. rewrite attrs_tokens_cons. cbn [List.length].
  rewrite app_length. cbn [List.length]. lia.
Qed.

(** ** fields *)
Definition drop_comma (rest : tokens) : tokens := if hd_is "," rest then tl rest else rest.

Definition field_rest (fuel' : nat) (named : bool) (attrs : list tokens) (pb : bool)
           (name : option string) (r : tokens) : option (list pfield) :=
  match parse_ty (S fuel') r with
  | Some (t, rest) =>
      let rest := match rest with "," :: rest' => rest' | _ => rest end in
      match rest, parse_fields fuel' named rest with
      | _, Some fs => Some (mk_pfield attrs pb name t :: fs)
      | _, None => None
      end
  | None => None
  end.

Definition fields_dispatch (fuel' : nat) (named : bool) (attrs : list tokens) (pb : bool)
           (r : tokens) : option (list pfield) :=
  if named then
    match r with
    | name :: ":" :: r' => field_rest fuel' named attrs pb (Some name) r'
    | _ => None
    end
  else field_rest fuel' named attrs pb None r.

Lemma parse_fields_ne fuel' named inner :
  inner <> [] ->
  parse_fields (S fuel') named inner =
  let '(attrs, r) := parse_attrs (S fuel') inner in
  let '(pb, r) := strip_pub r in fields_dispatch fuel' named attrs pb r.
Proof. destruct inner; [congruence|]. intros _. reflexivity. Qed.

Lemma parse_fields_eq fuel' named inner A r0 pb r1 :
  inner <> [] -> parse_attrs (S fuel') inner = (A, r0) -> strip_pub r0 = (pb, r1) ->
  parse_fields (S fuel') named inner = fields_dispatch fuel' named A pb r1.
Proof. intros Hne H1 H2. rewrite parse_fields_ne by exact Hne. rewrite H1, H2. reflexivity. Qed.

Lemma parse_fields_nil f named : 0 < f -> parse_fields f named [] = Some [].
Proof. destruct f; [lia|reflexivity]. Qed.

Lemma field_rest_eq fuel' named attrs pb name r t rest :
  parse_ty (S fuel') r = Some (t, rest) ->
  field_rest fuel' named attrs pb name r =
  match parse_fields fuel' named (drop_comma rest) with
  | Some fs => Some (mk_pfield attrs pb name t :: fs)
  | None => None
  end.
Proof.
  intros H. unfold field_rest, drop_comma. rewrite H.
  destruct rest as [|x r2]; [reflexivity|]. dlit2 x.
Qed.

Lemma app_ne {T : Type} (a b : list T) : b <> [] -> a ++ b <> [].
Proof. destruct a; [trivial|discriminate]. Qed.

(** one field followed by [more] *)
Lemma parse_fields_step f' (named : bool) A (pub : bool) name t p (comma : bool) more :
  all_bal A -> List.length A <= f' -> good_ty t p -> List.length t <= f' ->
  (if named then exists n, name = Some n /\ identP n else name = None) ->
  (comma = true \/ more = []) ->
  parse_fields (S f') named
    (attrs_tokens A ++ (if pub then ["pub"] else []) ++
     (match name with Some n => [n; ":"] | None => [] end) ++ t ++
     (if comma then [","] else []) ++ more) =
  match parse_fields f' named more with
  | Some fs => Some (mk_pfield A pub name p :: fs)
  | None => None
  end.
Proof.
  intros HA HlA Hg Hlt Hname Hcomma.
  destruct (starts_ty_cons _ (gt_starts _ _ Hg)) as (h & t' & Et & Hh).
  assert (Hty : parse_ty (S f') (t ++ (if comma then [","] else []) ++ more) =
                Some (p, (if comma then [","] else []) ++ more)).
  { apply (gt_parses _ _ Hg); [lia|].
    destruct comma; [reflexivity|]. destruct Hcomma as [C| ->]; [discriminate|reflexivity]. }
  assert (Hdrop : drop_comma ((if comma then [","] else []) ++ more) = more).
  { destruct comma; [reflexivity|]. destruct Hcomma as [C| ->]; [discriminate|reflexivity]. }
  assert (Hh1 : teq h "#" = false) by (apply ty_head_neq; [exact Hh|reflexivity..]).
  pose proof (ty_head_pub _ Hh) as Hh2.
  destruct named.
  - destruct Hname as (n & -> & Hn).
    pose proof (ident_tok_punct _ Hn) as Hn1. pose proof (ident_tok_pub _ Hn) as Hn2.
    assert (Hn3 : teq n "#" = false) by (apply is_punct_neq; [exact Hn1|reflexivity]).
    destruct pub; cbn [app].
    + rewrite (parse_fields_eq f' true _ A ("pub" :: n :: ":" :: t ++ (if comma then [","] else []) ++ more)
                 true (n :: ":" :: t ++ (if comma then [","] else []) ++ more)).
      * cbn [fields_dispatch]. rewrite (field_rest_eq _ _ _ _ _ _ _ _ Hty), Hdrop. reflexivity.
      * apply app_ne. discriminate.
      * apply parse_attrs_app; [exact HA|lia|apply attr_stop_hd; reflexivity].
      * reflexivity.
    + rewrite (parse_fields_eq f' true _ A (n :: ":" :: t ++ (if comma then [","] else []) ++ more)
                 false (n :: ":" :: t ++ (if comma then [","] else []) ++ more)).
      * cbn [fields_dispatch]. rewrite (field_rest_eq _ _ _ _ _ _ _ _ Hty), Hdrop. reflexivity.
      * apply app_ne. discriminate.
      * apply parse_attrs_app; [exact HA|lia|apply attr_stop_hd; exact Hn3].
      * rewrite strip_pub_S. cbn [hd_is]. rewrite Hn2. reflexivity.
  - subst name. cbn [app] in *. subst t.
    destruct pub; cbn [app].
    + rewrite (parse_fields_eq f' false _ A ("pub" :: (h :: t') ++ (if comma then [","] else []) ++ more)
                 true ((h :: t') ++ (if comma then [","] else []) ++ more)).
      * cbn [fields_dispatch]. rewrite (field_rest_eq _ _ _ _ _ _ _ _ Hty), Hdrop. reflexivity.
      * apply app_ne. discriminate.
      * apply parse_attrs_app; [exact HA|lia|apply attr_stop_hd; reflexivity].
      * reflexivity.
    + rewrite (parse_fields_eq f' false _ A ((h :: t') ++ (if comma then [","] else []) ++ more)
                 false ((h :: t') ++ (if comma then [","] else []) ++ more)).
      * cbn [fields_dispatch]. rewrite (field_rest_eq _ _ _ _ _ _ _ _ Hty), Hdrop. reflexivity.
      * apply app_ne. discriminate.
      * apply parse_attrs_app; [exact HA|lia|cbn [app]; apply attr_stop_hd; exact Hh1].
      * rewrite strip_pub_S. cbn [app hd_is]. rewrite Hh2. reflexivity.
Qed.

(** ** tuples without a trailing comma, the [PhantomData] marker *)
Lemma tuple_sep_good es ps :
  Forall2 good_ty es ps -> es <> [] -> good_ty ("(" :: sep_by [","] es ++ [")"]) (PTuple ps).
Proof.
  intros Hes Hne. split.
  - intros f Hf rest Hr. destruct f as [|f0]; [lia|].
    cbn [app]. rewrite <- app_assoc. cbn [app]. rewrite parse_ty_tuple.
    cbn [List.length] in Hf. rewrite app_length in Hf. cbn [List.length] in Hf.
    rewrite tup_loop_sep_ok with (ps := ps).
    + reflexivity.
    + apply good_elems; [exact Hes|]. apply Forall_forall. intros e0 Hin.
      pose proof (sep_by_len_elem [","] _ _ Hin). unfold tokens in *. lia.
    + exact Hne.
    + pose proof (sep_by_len_count _ (good_nonempty _ _ Hes)). unfold tokens in *. lia.
  - reflexivity.
  - apply bal_wrap; try reflexivity.
    rewrite <- (app_nil_r (sep_by _ _)). rewrite bal_sep_by; [reflexivity|]. apply (good_bal _ _ Hes).
Qed.

Lemma params_good ps : Forall2 good_ty (map (fun p => [tpi_name p]) ps) (map param_pty ps).
Proof. induction ps as [|p ps IH]; cbn [map]; constructor; [apply param_good|exact IH]. Qed.

Lemma phantom_good unused :
  match phantom_tokens unused, phantom_pty unused with
  | Some ph, Some p => good_ty ph p
  | None, None => True
  | _, _ => False
  end.
Proof.
  destruct unused as [|p [|q l]]; cbn [phantom_tokens phantom_pty].
  - exact I.
  - apply (path_good true ["core"; "marker"] "PhantomData" [[tpi_name p]] [param_pty p]).
    + repeat constructor.
    + constructor; [apply param_good|constructor].
  - set (S := sep_by [","] (map (fun p0 => [tpi_name p0]) (p :: q :: l))).
    assert (E : abs_path ["core"; "marker"; "PhantomData"] ++ ["<"; "("] ++ S ++ [")"; ">"] =
                print_path true (["core"; "marker"] ++ ["PhantomData"]) ++ args_toks ["(" :: S ++ [")"]]).
    { cbn [args_toks sep_by print_path app]. rewrite <- app_assoc. reflexivity. }
    rewrite E.
    apply (path_good true ["core"; "marker"] "PhantomData" ["(" :: S ++ [")"]]
                     [PTuple (map param_pty (p :: q :: l))]).
    + repeat constructor.
    + constructor; [|constructor]. apply tuple_sep_good; [apply params_good|discriminate].
Qed.

Lemma good_len t p : good_ty t p -> 1 <= List.length t.
Proof.
  intros G. destruct (starts_ty_cons _ (gt_starts _ _ G)) as (h & t' & -> & _). cbn [List.length]. lia.
Qed.

(** a last field without a trailing comma *)
Lemma last_field_parse (named : bool) A name t p :
  all_bal A -> List.length A <= 1 -> good_ty t p ->
  (if named then exists n, name = Some n /\ identP n else name = None) ->
  forall (pub : bool) f,
  List.length (attrs_tokens A ++ (if pub then ["pub"] else []) ++
               (match name with Some n => [n; ":"] | None => [] end) ++ t) < f ->
  parse_fields f named (attrs_tokens A ++ (if pub then ["pub"] else []) ++
                        (match name with Some n => [n; ":"] | None => [] end) ++ t) =
  Some [mk_pfield A pub name p].
Proof.
  intros HA HlA G Hname pub f Hf. pose proof (good_len _ _ G) as Hl.
  rewrite !app_length in Hf. destruct f as [|f']; [lia|].
  replace (attrs_tokens A ++ (if pub then ["pub"] else []) ++
           (match name with Some n => [n; ":"] | None => [] end) ++ t)
    with (attrs_tokens A ++ (if pub then ["pub"] else []) ++
          (match name with Some n => [n; ":"] | None => [] end) ++ t ++
          (if false then [","] else []) ++ [])
    by (cbn [app]; rewrite app_nil_r; reflexivity).
  rewrite (parse_fields_step f' named A pub name t p false []); try assumption.
  - rewrite parse_fields_nil; [reflexivity|]. lia.
  - lia.
  - lia.
  - right; reflexivity.
Qed.

Lemma bal_field d b A (pub : bool) name t p :
  all_bal A -> good_ty t p -> (forall n, name = Some n -> nopunct n) ->
  forall tl, bal d (attrs_tokens A ++ (if pub then ["pub"] else []) ++
             (match name with Some n => [n; ":"] | None => [] end) ++ t ++ tl ++ b) = bal d (tl ++ b).
Proof.
  intros HA G Hn tl. rewrite bal_attrs by exact HA.
  assert (E1 : forall X, bal d ((if pub then ["pub"] else []) ++ X) = bal d X).
  { intros X. destruct pub; [|reflexivity]. cbn [app]. apply bal_cons_plain. split; reflexivity. }
  rewrite E1.
  assert (E2 : forall X, bal d ((match name with Some n => [n; ":"] | None => [] end) ++ X) = bal d X).
  { intros X. destruct name as [n|]; [|reflexivity]. cbn [app].
    rewrite !bal_cons_plain; [reflexivity|apply plain_colon|apply nopunct_plain, Hn; reflexivity]. }
  rewrite E2. apply bal0_app. apply (gt_bal _ _ G).
Qed.

Lemma parse_body_group fuel (named : bool) inner fields rest :
  bal 0 inner = true -> parse_fields fuel named inner = Some fields ->
  parse_body fuel ((if named then "{" else "(") :: inner ++ (if named then "}" else ")") :: rest) =
  Some ((if named then BNamed fields else BTuple fields), rest).
Proof.
  intros Hb Hp. destruct named; unfold parse_body.
  - rewrite (until_close_bal inner 0 "}" rest Hb eq_refl), Hp. reflexivity.
  - rewrite (until_close_bal inner 0 ")" rest Hb eq_refl), Hp. reflexivity.
Qed.

Section Items.
  Variable s : settings.
  Let alloc := alloc_tokens (s_alloc s).
  Hypothesis Halloc : alloc_okb alloc = true.

  Lemma field_good f t :
    field_plain f = true -> field_tokens s f = Ok t -> good_ty t (field_pty s f).
  Proof.
    unfold field_plain, field_tokens, field_pty. intros Hp H.
    apply bind_ok in H as (t0 & Ht0 & H).
    pose proof (tp_good alloc Halloc _ _ Hp Ht0) as G.
    destruct (fi_emit_boxed f); inversion H; subst; [|exact G].
    destruct (alloc_segs alloc) as [[al asegs]|] eqn:Ea;
      [|unfold alloc_okb in Halloc; rewrite Ea in Halloc; discriminate].
    fold alloc. rewrite Ea.
    apply (alloc_path_good alloc al asegs "boxed" "Box" [t0] [ir_pty alloc (fi_path f)] Ea eq_refl eq_refl).
    constructor; [exact G|constructor].
  Qed.

  (** *** a list of fields, each followed by a comma; named fields are pairs, unnamed ones bare *)
  Section FieldList.
    Context {X : Type}.
    Variable nm : X -> string.
    Variable fld : X -> field_ir.
    Variables pub named codec : bool.

    Definition one_field_toks (x : X) (t : tokens) : tokens :=
      attrs_tokens (compact_attrs codec (fld x)) ++ (if pub then ["pub"] else []) ++
      (if named then [nm x; ":"] else []) ++ t ++ [","].
    Definition one_pfield (x : X) : pfield :=
      mk_pfield (compact_attrs codec (fld x)) pub (if named then Some (nm x) else None)
                (field_pty s (fld x)).
    Definition emitted (x : X) (y : tokens) : Prop :=
      exists t, field_tokens s (fld x) = Ok t /\ y = one_field_toks x t.
    Definition x_plain (x : X) : Prop :=
      (named = true -> identP (nm x)) /\ field_plain (fld x) = true.

    Lemma fields_parse : forall xs l,
      Forall2 emitted xs l -> Forall x_plain xs ->
      forall tailtoks tailfs,
        (forall f', List.length tailtoks < f' -> parse_fields f' named tailtoks = Some tailfs) ->
        forall f, List.length (List.concat l ++ tailtoks) < f ->
        parse_fields f named (List.concat l ++ tailtoks) = Some (map one_pfield xs ++ tailfs).
    Proof.
      induction 1 as [|x y xs l Hxy Hrest IH]; intros Hp tt tf Htail f Hf.
      - cbn [List.concat app map]. apply Htail. exact Hf.
      - destruct Hxy as (t & Ht & ->). inversion Hp as [|x' xs' Hx Hxs]; subst.
        destruct Hx as [Hn Hpl]. pose proof (field_good _ _ Hpl Ht) as G.
        pose proof (good_len _ _ G) as Hlt. pose proof (compact_attrs_len codec (fld x)) as HlA.
        cbn [List.concat] in *. unfold one_field_toks in *. rewrite <- !app_assoc in *.
        rewrite !app_length in Hf. cbn [List.length] in Hf.
        destruct f as [|f']; [lia|].
        replace (if named then [nm x; ":"] else [])
          with (match (if named then Some (nm x) else None) with Some n => [n; ":"] | None => [] end)
          by (destruct named; reflexivity).
        change ([","] ++ List.concat l ++ tt) with ((if true then [","] else []) ++ List.concat l ++ tt).
        rewrite (parse_fields_step f' named _ pub _ t (field_pty s (fld x)) true (List.concat l ++ tt)).
        + rewrite (IH Hxs tt tf Htail f') by (rewrite app_length; lia). reflexivity.
        + apply compact_attrs_bal.
        + lia.
        + exact G.
        + lia.
        + destruct named; [|reflexivity]. exists (nm x). split; [reflexivity|]. apply Hn. reflexivity.
        + left. reflexivity.
    Qed.

    Lemma fields_bal : forall xs l,
      Forall2 emitted xs l -> Forall x_plain xs ->
      forall d b, bal d (List.concat l ++ b) = bal d b.
    Proof.
      induction 1 as [|x y xs l Hxy Hrest IH]; intros Hp d b; [reflexivity|].
      destruct Hxy as (t & Ht & ->). inversion Hp as [|x' xs' Hx Hxs]; subst.
      destruct Hx as [Hn Hpl]. pose proof (field_good _ _ Hpl Ht) as G.
      cbn [List.concat]. unfold one_field_toks. rewrite <- !app_assoc.
      replace (if named then [nm x; ":"] else [])
        with (match (if named then Some (nm x) else None) with Some n => [n; ":"] | None => [] end)
        by (destruct named; reflexivity).
      rewrite (bal_field d (List.concat l ++ b) _ pub _ t _ (compact_attrs_bal _ _) G).
      - cbn [app]. rewrite bal_cons_plain by apply plain_comma. apply IH. exact Hxs.
      - intros n E. destruct named; [|discriminate]. inversion E; subst.
        apply ident_tok_punct. apply Hn. reflexivity.
    Qed.
  End FieldList.
End Items.

Lemma Forall2_imp {A B : Type} (R1 R2 : A -> B -> Prop) l l' :
  (forall a b, R1 a b -> R2 a b) -> Forall2 R1 l l' -> Forall2 R2 l l'.
Proof. intros H. induction 1; constructor; auto. Qed.

(** ** struct and variant bodies *)
Section Bodies.
  Variable s : settings.
  Let alloc := alloc_tokens (s_alloc s).
  Hypothesis Halloc : alloc_okb alloc = true.

  Definition marker_toks (named codec : bool) (unused : list tparam_ir) : tokens :=
    match phantom_tokens unused with
    | Some ph => (if codec then codec_skip else []) ++ ["pub"] ++
                 (if named then ["__ignore"; ":"] else []) ++ ph
    | None => []
    end.

  Lemma marker_ok (named codec : bool) unused :
    (forall f', List.length (marker_toks named codec unused) < f' ->
                parse_fields f' named (marker_toks named codec unused) =
                Some (marker_fields codec (if named then Some "__ignore" else None) unused)) /\
    bal 0 (marker_toks named codec unused) = true.
  Proof.
    unfold marker_toks, marker_fields. pose proof (phantom_good unused) as G.
    destruct (phantom_tokens unused) as [ph|], (phantom_pty unused) as [p|]; try contradiction.
    - rewrite skip_attrs_tokens.
      replace (if named then ["__ignore"; ":"] else [])
        with (match (if named then Some "__ignore" else None) with Some n => [n; ":"] | None => [] end)
        by (destruct named; reflexivity).
      split.
      + intros f' Hf.
        assert (Hname : if named then exists n, (if named then Some "__ignore" else None) = Some n /\ identP n
                        else (if named then Some "__ignore" else None) = None).
        { destruct named; [|reflexivity]. exists "__ignore". split; reflexivity. }
        apply (last_field_parse named (skip_attrs codec) _ ph p (skip_attrs_bal codec)
                                (skip_attrs_len codec) G Hname true f' Hf).
      + pose proof (bal_field 0 [] (skip_attrs codec) true (if named then Some "__ignore" else None)
                              ph p (skip_attrs_bal codec) G) as B.
        specialize (B ltac:(intros n E; destruct named; inversion E; subst; reflexivity) []).
        cbn [app] in B. rewrite app_nil_r in B. exact B.
    - split; [|reflexivity]. intros f' Hf. apply parse_fields_nil. cbn [List.length] in Hf. lia.
  Qed.

  Section Group.
    Context {X : Type}.
    Variable nm : X -> string.
    Variable fld : X -> field_ir.
    Variables named codec : bool.

    Lemma struct_group xs l unused :
      Forall2 (emitted s nm fld true named codec) xs l -> Forall (x_plain nm fld named) xs ->
      forall fuel rest, List.length (List.concat l ++ marker_toks named codec unused) < fuel ->
      parse_body fuel ((if named then "{" else "(") :: (List.concat l ++ marker_toks named codec unused) ++
                       (if named then "}" else ")") :: rest) =
      Some ((if named then BNamed else BTuple)
              (map (one_pfield s nm fld true named codec) xs ++
               marker_fields codec (if named then Some "__ignore" else None) unused), rest).
    Proof.
      intros HF HP fuel rest Hf. destruct (marker_ok named codec unused) as [Hm Hb].
      rewrite (parse_body_group fuel named _
                 (map (one_pfield s nm fld true named codec) xs ++
                  marker_fields codec (if named then Some "__ignore" else None) unused) rest).
      - destruct named; reflexivity.
      - rewrite (fields_bal s Halloc nm fld true named codec xs l HF HP). exact Hb.
      - apply (fields_parse s Halloc nm fld true named codec xs l HF HP _ _ Hm). exact Hf.
    Qed.

    Lemma enum_group xs l :
      Forall2 (emitted s nm fld false named codec) xs l -> Forall (x_plain nm fld named) xs ->
      (forall fuel rest, List.length (List.concat l) < fuel ->
       parse_body fuel ((if named then "{" else "(") :: List.concat l ++
                        (if named then "}" else ")") :: rest) =
       Some ((if named then BNamed else BTuple) (map (one_pfield s nm fld false named codec) xs), rest)) /\
      bal 0 ((if named then "{" else "(") :: List.concat l ++ [if named then "}" else ")"]) = true.
    Proof.
      intros HF HP. split.
      - intros fuel rest Hf.
        rewrite (parse_body_group fuel named _ (map (one_pfield s nm fld false named codec) xs) rest).
        + destruct named; reflexivity.
        + rewrite <- (app_nil_r (List.concat l)).
          rewrite (fields_bal s Halloc nm fld false named codec xs l HF HP). reflexivity.
        + pose proof (fields_parse s Halloc nm fld false named codec xs l HF HP [] []) as H.
          rewrite !app_nil_r in H. apply H; [|exact Hf].
          intros f' Hf'. apply parse_fields_nil. lia.
      - destruct named; (apply bal_wrap; try reflexivity; rewrite <- (app_nil_r (List.concat l));
          rewrite (fields_bal s Halloc nm fld false _ codec xs l HF HP); reflexivity).
    Qed.
  End Group.

  (** the printer's field lists in the generic form *)
  Lemma named_emitted (pub codec : bool) fs l :
    mapM (fun '(name, f) =>
            let* t := field_tokens s f in
            Ok (compact_attr_of codec f ++ (if pub then ["pub"] else []) ++ [name; ":"] ++ t ++ [","])) fs = Ok l ->
    Forall2 (emitted s fst snd pub true codec) fs l.
  Proof.
    intros H. apply mapM_ok_Forall2 in H. eapply Forall2_imp; [|exact H].
    intros [name f] y Hy. cbn beta iota in Hy. apply bind_ok in Hy as (t & Ht & Hy). inversion Hy; subst.
    exists t. split; [exact Ht|]. unfold one_field_toks. cbn [fst snd]. rewrite compact_attr_attrs. reflexivity.
  Qed.

  Lemma unnamed_emitted (pub codec : bool) fs l :
    mapM (fun f =>
            let* t := field_tokens s f in
            Ok (compact_attr_of codec f ++ (if pub then ["pub"] else []) ++ t ++ [","])) fs = Ok l ->
    Forall2 (emitted s (fun _ => "") (fun f => f) pub false codec) fs l.
  Proof.
    intros H. apply mapM_ok_Forall2 in H. eapply Forall2_imp; [|exact H].
    intros f y Hy. cbn beta in Hy. apply bind_ok in Hy as (t & Ht & Hy). inversion Hy; subst.
    exists t. split; [exact Ht|]. unfold one_field_toks. rewrite compact_attr_attrs. reflexivity.
  Qed.

  Lemma named_plain fs :
    forallb (fun nf : string * field_ir => ident_tok (fst nf) && field_plain (snd nf)) fs = true ->
    Forall (x_plain (@fst string field_ir) (@snd string field_ir) true) fs.
  Proof.
    intros H. apply Forall_forall. intros x Hx. rewrite forallb_forall in H. specialize (H x Hx).
    apply andb_prop in H as [H1 H2]. split; [intros _; exact H1|exact H2].
  Qed.

  Lemma unnamed_plain fs :
    forallb field_plain fs = true ->
    Forall (x_plain (fun _ : field_ir => "") (fun f => f) false) fs.
  Proof.
    intros H. apply Forall_forall. intros x Hx. rewrite forallb_forall in H. specialize (H x Hx).
    split; [discriminate|exact H].
  Qed.
End Bodies.

(** ** items *)
Definition item_gen (fuel : nat) (r' : tokens) : option (list string * tokens) :=
  match r' with
  | "<" :: g => parse_generics fuel g []
  | _ => Some ([], r')
  end.

Lemma item_gen_S fuel r' :
  item_gen fuel r' = if hd_is "<" r' then parse_generics fuel (tl r') [] else Some ([], r').
Proof. unfold item_gen. destruct r' as [|t r]; [reflexivity|]. dlit2 t. Qed.

Lemma parse_item_struct fuel toks A name r' :
  parse_attrs fuel toks = (A, "pub" :: "struct" :: name :: r') ->
  parse_item fuel toks =
  match item_gen fuel r' with
  | None => None
  | Some (gs, r2) => struct_finish A name gs (parse_body fuel r2)
  end.
Proof. intros H. unfold parse_item. rewrite H. reflexivity. Qed.

Lemma parse_item_enum fuel toks A name r' :
  parse_attrs fuel toks = (A, "pub" :: "enum" :: name :: r') ->
  parse_item fuel toks =
  match item_gen fuel r' with
  | None => None
  | Some (gs, r2) =>
      match r2 with
      | "{" :: r3 =>
          match until_close 0 r3 with
          | Some (inner, rest) =>
              match parse_variants fuel inner with
              | Some vs => Some (mk_pitem A true name gs BUnit vs false, rest)
              | None => None
              end
          | None => None
          end
      | _ => None
      end
  end.
Proof. intros H. unfold parse_item. rewrite H. reflexivity. Qed.

Lemma tpi_name_eq p : tpi_name p = String "_" (N_to_string (tpi_idx p)).
Proof. reflexivity. Qed.

Lemma parse_generics_comma f s0 rest acc :
  parse_generics (S f) (String "_" s0 :: "," :: rest) acc = parse_generics f rest (String "_" s0 :: acc).
Proof. reflexivity. Qed.

Lemma parse_generics_last f s0 rest acc :
  parse_generics (S f) (String "_" s0 :: ">" :: rest) acc = Some (rev (String "_" s0 :: acc), rest).
Proof. reflexivity. Qed.

Lemma parse_generics_ok rest : forall ps acc f,
  ps <> [] -> List.length ps <= f ->
  parse_generics f (sep_by [","] (map (fun p => [tpi_name p]) ps) ++ ">" :: rest) acc =
  Some (rev acc ++ map tpi_name ps, rest).
Proof.
  induction ps as [|p ps IH]; intros acc f Hne Hf; [congruence|].
  destruct f as [|f']; [cbn [List.length] in Hf; lia|].
  destruct ps as [|q ps].
  - cbn [map sep_by app]. rewrite tpi_name_eq, parse_generics_last. reflexivity.
  - change (map (fun p0 => [tpi_name p0]) (p :: q :: ps))
      with ([tpi_name p] :: [tpi_name q] :: map (fun p0 => [tpi_name p0]) ps).
    rewrite sep_by_cons2.
    change ([tpi_name q] :: map (fun p0 => [tpi_name p0]) ps)
      with (map (fun p0 => [tpi_name p0]) (q :: ps)).
    cbn [app]. rewrite (tpi_name_eq p), parse_generics_comma, <- (tpi_name_eq p).
    rewrite IH; [|discriminate|cbn [List.length] in *; lia].
    change (map tpi_name (p :: q :: ps)) with (tpi_name p :: map tpi_name (q :: ps)).
    cbn [rev]. rewrite <- app_assoc. reflexivity.
Qed.

Lemma type_params_gen fuel ps X :
  List.length (type_params_tokens ps) < fuel -> hd_is "<" X = false ->
  item_gen fuel (type_params_tokens ps ++ X) = Some (map tpi_name ps, X).
Proof.
  intros Hf HX. rewrite item_gen_S. unfold type_params_tokens in *. destruct ps as [|p ps].
  - cbn [app map]. rewrite HX. reflexivity.
  - cbn [app hd_is tl]. replace (teq "<" "<") with true by reflexivity.
    rewrite <- app_assoc. cbn [app]. rewrite parse_generics_ok; [reflexivity|discriminate|].
    cbn [app List.length] in Hf. rewrite app_length in Hf.
    pose proof (sep_by_len_count (map (fun p0 => [tpi_name p0]) (p :: ps))) as HL.
    rewrite map_length in HL. unfold tokens in *.
    assert (HN : Forall (fun e : list string => e <> []) (map (fun p0 => [tpi_name p0]) (p :: ps))).
    { apply Forall_forall. intros e He. apply in_map_iff in He as (p0 & <- & _). discriminate. }
    specialize (HL HN). lia.
Qed.

Lemma parse_variants_ne f' inner :
  inner <> [] ->
  parse_variants (S f') inner =
  let '(attrs, r) := parse_attrs (S f') inner in
  match r with
  | name :: r' =>
      match parse_body (S f') r' with
      | Some (b, "," :: rest) =>
          match parse_variants f' rest with
          | Some vs => Some (mk_pvariant attrs name b :: vs)
          | None => None
          end
      | Some (b, []) => Some [mk_pvariant attrs name b]
      | _ => None
      end
  | [] => None
  end.
Proof. destruct inner; [congruence|]. intros _. reflexivity. Qed.

Lemma parse_variants_nil f : 0 < f -> parse_variants f [] = Some [].
Proof. destruct f; [lia|reflexivity]. Qed.

Lemma parse_variants_step f' A name b btoks more :
  all_bal A -> List.length A <= f' -> nopunct name ->
  parse_body (S f') (btoks ++ "," :: more) = Some (b, "," :: more) ->
  parse_variants (S f') (attrs_tokens A ++ name :: btoks ++ "," :: more) =
  match parse_variants f' more with
  | Some vs => Some (mk_pvariant A name b :: vs)
  | None => None
  end.
Proof.
  intros HA HlA Hn Hb. rewrite parse_variants_ne by (apply app_ne; discriminate).
  rewrite parse_attrs_app; [|exact HA|lia|apply attr_stop_hd, is_punct_neq; [exact Hn|reflexivity]].
  cbv beta iota. rewrite Hb. reflexivity.
Qed.

Section ItemThm.
  Variable s : settings.
  Let alloc := alloc_tokens (s_alloc s).
  Hypothesis Halloc : alloc_okb alloc = true.

  Definition semi_of (k : ckind) : tokens :=
    match k with CNoFields | CUnnamed _ => [";"] | CNamed _ => [] end.
  Definition semi_flag (k : ckind) : bool := match k with CNamed _ => false | _ => true end.

  Lemma marker_named_eq (codec : bool) unused :
    match phantom_tokens unused with
    | Some ph => (if codec then codec_skip else []) ++ ["pub"; "__ignore"; ":"] ++ ph
    | None => []
    end = marker_toks true codec unused.
  Proof. unfold marker_toks. destruct (phantom_tokens unused); reflexivity. Qed.

  Lemma marker_unnamed_eq (codec : bool) unused :
    match phantom_tokens unused with
    | Some ph => (if codec then codec_skip else []) ++ ["pub"] ++ ph
    | None => []
    end = marker_toks false codec unused.
  Proof. unfold marker_toks. destruct (phantom_tokens unused); reflexivity. Qed.

  Lemma struct_tail k unused codec ftoks :
    struct_field_tokens s k (phantom_tokens unused) codec = Ok ftoks -> ckind_plain k = true ->
    forall fuel rest A name gs,
      List.length ftoks < fuel -> (semi_flag k = false -> hd_is ";" rest = false) ->
      hd_is "<" (ftoks ++ semi_of k ++ rest) = false /\
      struct_finish A name gs (parse_body fuel (ftoks ++ semi_of k ++ rest)) =
      Some (mk_pitem A false name gs (struct_body s k unused codec) [] (semi_flag k), rest).
  Proof.
    intros H Hp fuel rest A name gs Hf Hsemi. destruct k as [|fs|fs]; cbn [struct_field_tokens] in H.
    - pose proof (phantom_good unused) as G. unfold struct_body.
      destruct (phantom_tokens unused) as [ph|] eqn:Eph, (phantom_pty unused) as [p|] eqn:Ep;
        try contradiction; inversion H; subst; cbn [semi_of semi_flag].
      + split; [reflexivity|].
        replace (("(" :: "pub" :: ph ++ [")"]) ++ [";"] ++ rest)
          with ("(" :: ("pub" :: ph) ++ ")" :: ";" :: rest)
          by (cbn [app]; rewrite <- app_assoc; reflexivity).
        rewrite (parse_body_group fuel false ("pub" :: ph) [mk_pfield [] true None p] (";" :: rest)).
        * rewrite struct_finish_S. reflexivity.
        * rewrite bal_cons_plain by (split; reflexivity). apply (gt_bal _ _ G).
        * apply (last_field_parse false [] None ph p (Forall_nil _) (Nat.le_0_l _) G eq_refl true fuel).
          cbn [attrs_tokens flat_map app List.length] in *. rewrite app_length in Hf.
          cbn [List.length] in Hf. lia.
      + split; reflexivity.
    - apply bind_ok in H as (l & Hl & H). inversion H; subst. clear H.
      apply (named_emitted s true codec) in Hl. cbn [ckind_plain] in Hp.
      rewrite marker_named_eq in *. cbn [semi_of semi_flag app] in *.
      assert (E : (List.concat l ++ marker_toks true codec unused ++ ["}"]) ++ rest =
                  (List.concat l ++ marker_toks true codec unused) ++ "}" :: rest).
      { rewrite <- !app_assoc. reflexivity. }
      rewrite E. split; [reflexivity|].
      pose proof (struct_group s Halloc fst snd true codec fs l unused Hl (named_plain _ Hp) fuel rest) as HG.
      cbv beta iota in HG. rewrite HG.
      + rewrite struct_finish_S, (Hsemi eq_refl). reflexivity.
      + cbn [List.length] in Hf. rewrite !app_length in *. cbn [List.length] in Hf. lia.
    - apply bind_ok in H as (l & Hl & H). inversion H; subst. clear H.
      apply (unnamed_emitted s true codec) in Hl. cbn [ckind_plain] in Hp.
      rewrite marker_unnamed_eq in *. cbn [semi_of semi_flag app] in *.
      assert (E : (List.concat l ++ marker_toks false codec unused ++ [")"]) ++ ";" :: rest =
                  (List.concat l ++ marker_toks false codec unused) ++ ")" :: ";" :: rest).
      { rewrite <- !app_assoc. reflexivity. }
      rewrite E. split; [reflexivity|].
      pose proof (struct_group s Halloc (fun _ => "") (fun f => f) false codec fs l unused Hl
                               (unnamed_plain _ Hp) fuel (";" :: rest)) as HG.
      cbv beta iota in HG. rewrite HG.
      + rewrite struct_finish_S. reflexivity.
      + cbn [List.length] in Hf. rewrite !app_length in *. cbn [List.length] in Hf. lia.
  Qed.

  Lemma enum_fields_ok k codec ftoks :
    enum_field_tokens s k codec = Ok ftoks -> ckind_plain k = true ->
    (forall fuel more, List.length ftoks < fuel ->
       parse_body fuel (ftoks ++ "," :: more) = Some (variant_body s k codec, "," :: more)) /\
    bal 0 ftoks = true.
  Proof.
    intros H Hp. destruct k as [|fs|fs]; cbn [enum_field_tokens] in H.
    - inversion H; subst. split; [intros; reflexivity|reflexivity].
    - apply bind_ok in H as (l & Hl & H). inversion H; subst. clear H.
      apply (named_emitted s false codec) in Hl. cbn [ckind_plain] in Hp.
      destruct (enum_group s Halloc fst snd true codec fs l Hl (named_plain _ Hp)) as [HG HB].
      cbv beta iota in HG, HB. split; [|exact HB].
      intros fuel more Hf. cbn [app]. rewrite <- app_assoc. cbn [app]. rewrite HG; [reflexivity|].
      cbn [app List.length] in Hf. rewrite app_length in Hf. lia.
    - apply bind_ok in H as (l & Hl & H). inversion H; subst. clear H.
      apply (unnamed_emitted s false codec) in Hl. cbn [ckind_plain] in Hp.
      destruct (enum_group s Halloc (fun _ => "") (fun f => f) false codec fs l Hl (unnamed_plain _ Hp))
        as [HG HB].
      cbv beta iota in HG, HB. split; [|exact HB].
      intros fuel more Hf. cbn [app]. rewrite <- app_assoc. cbn [app]. rewrite HG; [reflexivity|].
      cbn [app List.length] in Hf. rewrite app_length in Hf. lia.
  Qed.

  (** *** variants *)
  Definition vattrs (codec : bool) (ic : N * composite_ir) : list tokens :=
    index_attrs codec (fst ic) ++ doc_attrs (ci_docs (snd ic)).

  Definition vemitted (codec : bool) (ic : N * composite_ir) (y : tokens) : Prop :=
    exists ftoks, enum_field_tokens s (ci_kind (snd ic)) codec = Ok ftoks /\
                  y = attrs_tokens (vattrs codec ic) ++ ci_name (snd ic) :: ftoks ++ [","].

  Lemma variants_emitted (codec : bool) vs l :
    mapM (fun '(idx, c) =>
            let* fields := enum_field_tokens s (ci_kind c) codec in
            Ok ((if codec then codec_index idx else []) ++
                doc_tokens (ci_docs c) ++ [ci_name c] ++ fields ++ [","])) vs = Ok l ->
    Forall2 (vemitted codec) vs l.
  Proof.
    intros H. apply mapM_ok_Forall2 in H. eapply Forall2_imp; [|exact H].
    intros [idx c] y Hy. cbn beta iota in Hy. apply bind_ok in Hy as (ft & Hft & Hy). inversion Hy; subst.
    exists ft. split; [exact Hft|]. unfold vattrs. cbn [fst snd].
    rewrite attrs_tokens_app, <- index_attrs_tokens, <- doc_tokens_attrs, <- !app_assoc. reflexivity.
  Qed.

  Lemma vattrs_bal codec ic : all_bal (vattrs codec ic).
  Proof. apply Forall_app. split; [apply index_attrs_bal|apply doc_attrs_bal]. Qed.

  Lemma variants_parse codec : forall vs l,
    Forall2 (vemitted codec) vs l -> Forall (fun ic => composite_plain (snd ic) = true) vs ->
    forall tt tv,
      (forall f', List.length tt < f' -> parse_variants f' tt = Some tv) ->
      forall f, List.length (List.concat l ++ tt) < f ->
      parse_variants f (List.concat l ++ tt) = Some (map (variant_of s codec) vs ++ tv).
  Proof.
    induction 1 as [|ic y vs l Hy Hrest IH]; intros HP tt tv Htail f Hf.
    - cbn [List.concat app map]. apply Htail. exact Hf.
    - destruct Hy as (ft & Hft & ->). inversion HP as [|ic' vs' Hic Hvs]; subst.
      unfold composite_plain in Hic. apply andb_prop in Hic as [Hname Hk].
      destruct (enum_fields_ok _ _ _ Hft Hk) as [Hbody _].
      pose proof (attrs_len (vattrs codec ic)) as HlA.
      cbn [List.concat] in *. rewrite <- !app_assoc in *. cbn [app] in *. rewrite <- !app_assoc in *.
      cbn [app] in *.
      rewrite !app_length in Hf. cbn [List.length] in Hf. rewrite !app_length in Hf.
      cbn [List.length] in Hf.
      destruct f as [|f']; [lia|].
      rewrite (parse_variants_step f' (vattrs codec ic) (ci_name (snd ic))
                 (variant_body s (ci_kind (snd ic)) codec) ft (List.concat l ++ tt)).
      + rewrite (IH Hvs tt tv Htail f') by (unfold tokens in *; lia). reflexivity.
      + apply vattrs_bal.
      + lia.
      + apply ident_tok_punct. exact Hname.
      + apply Hbody. lia.
  Qed.

  Lemma variants_bal codec : forall vs l,
    Forall2 (vemitted codec) vs l -> Forall (fun ic => composite_plain (snd ic) = true) vs ->
    forall d b, bal d (List.concat l ++ b) = bal d b.
  Proof.
    induction 1 as [|ic y vs l Hy Hrest IH]; intros HP d b; [reflexivity|].
    destruct Hy as (ft & Hft & ->). inversion HP as [|ic' vs' Hic Hvs]; subst.
    unfold composite_plain in Hic. apply andb_prop in Hic as [Hname Hk].
    destruct (enum_fields_ok _ _ _ Hft Hk) as [_ Hbal].
    cbn [List.concat]. rewrite <- !app_assoc. rewrite bal_attrs by apply vattrs_bal.
    cbn [app]. rewrite bal_cons_plain by (apply nopunct_plain, ident_tok_punct; exact Hname).
    rewrite <- !app_assoc. rewrite bal0_app by exact Hbal.
    cbn [app]. rewrite bal_cons_plain by apply plain_comma. apply IH. exact Hvs.
  Qed.

  Definition ignore_toks (unused : list tparam_ir) : tokens :=
    match phantom_tokens unused with
    | Some ph => ["__Ignore"; "("] ++ ph ++ [")"; ","]
    | None => []
    end.

  Lemma ignore_ok unused :
    (forall f', List.length (ignore_toks unused) < f' ->
                parse_variants f' (ignore_toks unused) = Some (ignore_variants unused)) /\
    bal 0 (ignore_toks unused) = true.
  Proof.
    unfold ignore_toks, ignore_variants. pose proof (phantom_good unused) as G.
    destruct (phantom_tokens unused) as [ph|], (phantom_pty unused) as [p|]; try contradiction.
    - split.
      + intros f' Hf. cbn [app List.length] in Hf. rewrite app_length in Hf. cbn [List.length] in Hf.
        destruct f' as [|f'']; [lia|].
        replace (["__Ignore"; "("] ++ ph ++ [")"; ","])
          with (attrs_tokens [] ++ "__Ignore" :: ("(" :: ph ++ [")"]) ++ "," :: [])
          by (cbn [attrs_tokens flat_map app]; rewrite <- app_assoc; reflexivity).
        rewrite (parse_variants_step f'' [] "__Ignore" (BTuple [mk_pfield [] false None p])).
        * rewrite parse_variants_nil by lia. reflexivity.
        * constructor.
        * cbn [List.length]. lia.
        * reflexivity.
        * cbn [app]. rewrite <- app_assoc. cbn [app].
          apply (parse_body_group (S f'') false ph [mk_pfield [] false None p] ["," ]).
          -- apply (gt_bal _ _ G).
          -- apply (last_field_parse false [] None ph p (Forall_nil _) (Nat.le_0_l _) G eq_refl false (S f'')).
             cbn [attrs_tokens flat_map app]. lia.
      + cbn [app]. rewrite bal_cons_plain by (split; reflexivity).
        replace (ph ++ [")"; ","]) with (ph ++ ")" :: [","]) by reflexivity.
        rewrite bal_wrap; [reflexivity|reflexivity|reflexivity|reflexivity|apply (gt_bal _ _ G)].
    - split; [|reflexivity]. intros f' Hf. apply parse_variants_nil. cbn [List.length] in Hf. lia.
  Qed.
End ItemThm.

(** ** the round trip for items *)
Section ItemMain.
  Variable s : settings.

  Theorem item_parses ir toks :
    type_ir_tokens s ir = Ok toks -> ir_plain s ir = true ->
    forall fuel rest, List.length toks < fuel ->
    (pi_is_enum (item_of_ir s ir) = false -> pi_semi (item_of_ir s ir) = false ->
     hd_is ";" rest = false) ->
    parse_item fuel (toks ++ rest) = Some (item_of_ir s ir, rest).
  Proof.
    intros H Hp fuel rest Hf Hrest. unfold ir_plain in Hp.
    apply andb_prop in Hp as [Hp Hk]. apply andb_prop in Hp as [Ha Hd].
    destruct (derives_tokens_attrs _ Hd) as [Ed Bd].
    unfold type_ir_tokens in H. unfold item_of_ir in *.
    destruct (ti_kind ir) as [c|name docs vs].
    - apply bind_ok in H as (ft & Hft & H). inversion H; subst. clear H.
      unfold composite_plain in Hk. apply andb_prop in Hk as [Hname Hck].
      change (match ci_kind c with CNoFields | CUnnamed _ => [";"] | CNamed _ => [] end)
        with (semi_of (ci_kind c)) in *.
      set (A := derives_attrs (ti_derives ir) ++ doc_attrs (ci_docs c)) in *.
      assert (EA : (derives_tokens (ti_derives ir) ++ doc_tokens (ci_docs c) ++
                    "pub" :: "struct" :: ci_name c :: type_params_tokens (ti_params ir) ++
                    ft ++ semi_of (ci_kind c)) ++ rest =
                   attrs_tokens A ++ "pub" :: "struct" :: ci_name c ::
                   type_params_tokens (ti_params ir) ++ ft ++ semi_of (ci_kind c) ++ rest).
      { unfold A. rewrite attrs_tokens_app, <- Ed, <- doc_tokens_attrs, <- !app_assoc.
        cbn [app]. rewrite <- !app_assoc. reflexivity. }
      assert (HLA : List.length (attrs_tokens A) =
                    List.length (derives_tokens (ti_derives ir)) + List.length (doc_tokens (ci_docs c))).
      { unfold A. rewrite attrs_tokens_app, <- Ed, <- doc_tokens_attrs, app_length. reflexivity. }
      pose proof (attrs_len A) as HlA.
      rewrite !app_length in Hf. cbn [List.length app] in Hf. rewrite ?app_length in Hf.
      cbn [List.length] in Hf. rewrite ?app_length in Hf. cbn [List.length] in Hf.
      destruct (struct_tail s Ha (ci_kind c) (ti_unused ir) (ti_codec ir) ft Hft Hck fuel rest A
                            (ci_name c) (map tpi_name (ti_params ir))) as [Hlt Hfin].
      { lia. }
      { intros E. apply Hrest; [reflexivity|]. cbn [pi_semi]. exact E. }
      rewrite EA.
      rewrite (parse_item_struct fuel _ A (ci_name c)
                 (type_params_tokens (ti_params ir) ++ ft ++ semi_of (ci_kind c) ++ rest)).
      + rewrite type_params_gen; [|lia|exact Hlt]. exact Hfin.
      + apply parse_attrs_app; [|lia|apply attr_stop_hd; reflexivity].
        apply Forall_app. split; [exact Bd|apply doc_attrs_bal].
    - apply bind_ok in H as (l & Hl & H). inversion H; subst. clear H.
      apply andb_prop in Hk as [Hname Hvs].
      apply variants_emitted in Hl.
      assert (HP : Forall (fun ic : N * composite_ir => composite_plain (snd ic) = true) vs).
      { apply Forall_forall. intros x Hx. rewrite forallb_forall in Hvs. apply (Hvs x Hx). }
      assert (Eig : match phantom_tokens (ti_unused ir) with
                    | Some ph => "__Ignore" :: "(" :: ph ++ [")"; ","]
                    | None => []
                    end = ignore_toks (ti_unused ir)) by reflexivity.
      rewrite Eig in *. clear Eig.
      set (A := derives_attrs (ti_derives ir) ++ doc_attrs docs) in *.
      set (inner := List.concat l ++ ignore_toks (ti_unused ir)).
      assert (EA : (derives_tokens (ti_derives ir) ++ doc_tokens docs ++
                    "pub" :: "enum" :: name :: type_params_tokens (ti_params ir) ++
                    "{" :: List.concat l ++ ignore_toks (ti_unused ir) ++ ["}"]) ++ rest =
                   attrs_tokens A ++ "pub" :: "enum" :: name ::
                   type_params_tokens (ti_params ir) ++ "{" :: inner ++ "}" :: rest).
      { unfold A, inner. rewrite attrs_tokens_app, <- Ed, <- doc_tokens_attrs.
        repeat (first [rewrite <- !app_assoc | progress (cbn [app])]). reflexivity. }
      assert (HLA : List.length (attrs_tokens A) =
                    List.length (derives_tokens (ti_derives ir)) + List.length (doc_tokens docs)).
      { unfold A. rewrite attrs_tokens_app, <- Ed, <- doc_tokens_attrs, app_length. reflexivity. }
      pose proof (attrs_len A) as HlA.
      rewrite !app_length in Hf. cbn [List.length app] in Hf. rewrite ?app_length in Hf.
      cbn [List.length] in Hf. rewrite ?app_length in Hf. cbn [List.length] in Hf.
      destruct (ignore_ok (ti_unused ir)) as [Hig Hib].
      rewrite EA.
      rewrite (parse_item_enum fuel _ A name
                 (type_params_tokens (ti_params ir) ++ "{" :: inner ++ "}" :: rest)).
      + rewrite type_params_gen; [|lia|reflexivity]. cbv beta iota.
        rewrite (until_close_bal inner 0 "}" rest).
        * unfold inner.
          rewrite (variants_parse s Ha (ti_codec ir) vs l Hl HP _ _ Hig fuel); [reflexivity|].
          rewrite app_length. unfold tokens in *. lia.
        * unfold inner. rewrite (variants_bal s Ha (ti_codec ir) vs l Hl HP). exact Hib.
        * reflexivity.
      + apply parse_attrs_app; [|lia|apply attr_stop_hd; reflexivity].
        apply Forall_app. split; [exact Bd|apply doc_attrs_bal].
  Qed.

  (** the item starts with an attribute or with [pub struct] / [pub enum] *)
  Lemma item_head ir toks :
    type_ir_tokens s ir = Ok toks -> derives_okb (ti_derives ir) = true ->
    forall rest, exists tl,
      toks ++ rest = "#" :: "[" :: tl \/ toks ++ rest = "pub" :: "struct" :: tl \/
      toks ++ rest = "pub" :: "enum" :: tl.
  Proof.
    intros H Hd rest. destruct (derives_tokens_attrs _ Hd) as [Ed _].
    unfold type_ir_tokens in H. destruct (ti_kind ir) as [c|name docs vs].
    - apply bind_ok in H as (ft & _ & H). inversion H; subst. clear H.
      rewrite Ed, doc_tokens_attrs, app_assoc, <- attrs_tokens_app.
      destruct (derives_attrs (ti_derives ir) ++ doc_attrs (ci_docs c)) as [|i A].
      + eexists. right. left. cbn [attrs_tokens flat_map app]. reflexivity.
      + eexists. left. rewrite attrs_tokens_cons. cbn [app]. reflexivity.
    - apply bind_ok in H as (l & _ & H). inversion H; subst. clear H.
      rewrite Ed, doc_tokens_attrs, app_assoc, <- attrs_tokens_app.
      destruct (derives_attrs (ti_derives ir) ++ doc_attrs docs) as [|i A].
      + eexists. right. right. cbn [attrs_tokens flat_map app]. reflexivity.
      + eexists. left. rewrite attrs_tokens_cons. cbn [app]. reflexivity.
  Qed.
End ItemMain.
