(** The fuel of the typing checker [has_typeb] (Model/ExampleValue.v: one unit per value level or
    compact step, [value_depth v * S (length r)] in all) is enough whenever ANY fuel is: between two
    value levels a successful check follows a chain of compact entries that cannot revisit an id
    (the step is deterministic, so a revisit would loop for ever), hence has at most [length r]
    steps.  Consequence for C17: the converse typing direction of the restriction can be stated
    with the checker itself, whose fuel depends on the size of the registry. *)
From Coq Require Import List NArith ZArith Bool String Lia Arith.
From V Require Import Base.Util Model.Registry Model.RngWords Model.ExampleValue Model.Renumber
  Model.WellFormed Proofs.RenumberPerm Proofs.ExampleValueProofs Proofs.ExampleRestrict
  Proofs.ExampleRestrictValue.
Import ListNotations.
Open Scope nat_scope.

(** ** immediate sub-values *)
Definition cvalues (c : composite value) : list value :=
  match c with CNamed l => map snd l | CUnnamed l => l end.
Definition children (v : value) : list value :=
  match v with VComposite c | VVariant _ c => cvalues c | _ => [] end.

Lemma depth_child v v' : In v' (children v) -> value_depth v' < value_depth v.
Proof.
  destruct v as [c|name c|p|bits]; cbn [children]; try (intros []);
    destruct c as [l|l]; cbn [cvalues]; intros H; cbn [value_depth]; apply Nat.lt_succ_r.
  - induction l as [|[n x] l IH]; [destruct H|]. cbn [map snd In] in H.
    destruct H as [<-|H]; [apply Nat.le_max_l|].
    etransitivity; [apply IH; exact H|apply Nat.le_max_r].
  - induction l as [|x l IH]; [destruct H|]. destruct H as [<-|H]; [apply Nat.le_max_l|].
    etransitivity; [apply IH; exact H|apply Nat.le_max_r].
  - induction l as [|[n x] l IH]; [destruct H|]. cbn [map snd In] in H.
    destruct H as [<-|H]; [apply Nat.le_max_l|].
    etransitivity; [apply IH; exact H|apply Nat.le_max_r].
  - induction l as [|x l IH]; [destruct H|]. destruct H as [<-|H]; [apply Nat.le_max_l|].
    etransitivity; [apply IH; exact H|apply Nat.le_max_r].
Qed.

Lemma forallb2_mono_in {A B} (p q : A -> B -> bool) la lb :
  (forall a b, In b lb -> p a b = true -> q a b = true) ->
  forallb2 p la lb = true -> forallb2 q la lb = true.
Proof.
  revert lb. induction la as [|a la IH]; destruct lb as [|b lb]; intros Hpq H; try exact H.
  cbn [forallb2] in *. apply andb_prop in H as [H1 H2].
  rewrite (Hpq a b (or_introl eq_refl) H1). cbn [andb]. apply IH; [|exact H2].
  intros a' b' Hb'. apply Hpq. right; exact Hb'.
Qed.

Lemma forallb_mono_in {A} (p q : A -> bool) l :
  (forall a, In a l -> p a = true -> q a = true) -> forallb p l = true -> forallb q l = true.
Proof.
  induction l as [|a l IH]; intros Hpq H; [reflexivity|]. cbn [forallb] in *.
  apply andb_prop in H as [H1 H2]. rewrite (Hpq a (or_introl eq_refl) H1). cbn [andb].
  apply IH; [|exact H2]. intros a' Ha'. apply Hpq. right; exact Ha'.
Qed.

Lemma fields_typedb_mono_sub (T T' : N -> value -> bool) fs c :
  (forall i v', In v' (cvalues c) -> T i v' = true -> T' i v' = true) ->
  fields_typedb T fs c = true -> fields_typedb T' fs c = true.
Proof.
  intros HT. destruct c as [l|l]; cbn [fields_typedb cvalues] in *; apply forallb2_mono_in.
  - intros f nv Hnv. destruct (f_name f); [|auto]. intros H. apply andb_prop in H as [H1 H2].
    rewrite H1. cbn [andb]. apply HT; [apply in_map; exact Hnv|exact H2].
  - intros f v Hv H. apply andb_prop in H as [H1 H2]. rewrite H1. cbn [andb]. apply HT; assumption.
Qed.

Lemma ty_typedb_mono_sub (T T' : N -> value -> bool) t v :
  (forall e, t_def t <> TDCompact e) ->
  (forall i v', In v' (children v) -> T i v' = true -> T' i v' = true) ->
  ty_typedb T t v = true -> ty_typedb T' t v = true.
Proof.
  intros Hnc HT. unfold ty_typedb. destruct (t_def t) as [fs|vs|e|len e|ts|p|e|st o].
  - destruct v; auto. apply fields_typedb_mono_sub. exact HT.
  - destruct v; auto. intros H. apply existsb_exists in H as (var & Hin & H).
    apply existsb_exists. exists var. split; [exact Hin|].
    apply andb_prop in H as [H1 H2]. rewrite H1. cbn [andb].
    eapply fields_typedb_mono_sub; [exact HT|exact H2].
  - destruct v as [[l|l]| | |]; auto. apply forallb_mono_in. intros a Ha. apply HT. exact Ha.
  - destruct v as [[l|l]| | |]; auto. intros H. apply andb_prop in H as [H1 H2].
    rewrite H1. cbn [andb]. eapply forallb_mono_in; [|exact H2]. intros a Ha. apply HT. exact Ha.
  - destruct v as [[l|l]| | |]; auto. apply forallb2_mono_in. intros a b Hb. apply HT. exact Hb.
  - auto.
  - exfalso. exact (Hnc e eq_refl).
  - auto.
Qed.

(** ** chains of compact entries *)
Section Chain.
  Variable r : registry.

  Definition cnext (id : N) : option N :=
    match lookup r id with
    | Some t => match t_def t with TDCompact e => Some e | _ => None end
    | None => None
    end.

  Fixpoint citer (j : nat) (id : N) : option N :=
    match j with
    | O => Some id
    | S j' => match cnext id with Some e => citer j' e | None => None end
    end.

  Definition obind (o : option N) (f : N -> option N) : option N :=
    match o with Some x => f x | None => None end.

  Lemma citer_add a b id : citer (a + b) id = obind (citer a id) (citer b).
  Proof.
    revert id. induction a as [|a IH]; intros id; [reflexivity|].
    cbn [plus citer]. destruct (cnext id) as [e|]; [apply IH|reflexivity].
  Qed.

  Lemma citer_prefix j a id x : citer j id = Some x -> a <= j -> exists y, citer a id = Some y.
  Proof.
    intros H Hle. replace j with (a + (j - a)) in H by lia. rewrite citer_add in H.
    destruct (citer a id) as [y|]; [eauto|discriminate].
  Qed.

  Lemma citer_next j a id x y :
    citer j id = Some x -> a < j -> citer a id = Some y -> exists e, cnext y = Some e.
  Proof.
    intros H Hlt Ha. destruct (citer_prefix j (a + 1) id x H ltac:(lia)) as (z & Hz).
    rewrite citer_add, Ha in Hz. cbn [obind citer] in Hz.
    destruct (cnext y) as [e|]; [eauto|discriminate].
  Qed.

  Lemma cnext_lookup y e : cnext y = Some e -> exists t, lookup r y = Some t.
  Proof. unfold cnext. destruct (lookup r y) as [t|]; [eauto|discriminate]. Qed.

  (** a chain that ends in a non-compact entry is shorter than the registry *)
  Lemma chain_bound j id x t :
    citer j id = Some x -> lookup r x = Some t -> cnext x = None -> j < List.length r.
  Proof.
    intros Hj Hx Hend.
    set (L := map (fun a => citer a id) (seq 0 (S j))).
    assert (Hnd : NoDup L).
    { apply NoDup_map_inj_on; [|apply seq_NoDup].
      assert (Hlt : forall a b, a < b -> b <= j -> citer a id = citer b id -> False).
      { intros a b Hab Hbj E.
        destruct (citer_prefix j a id x Hj ltac:(lia)) as (ya & Hya).
        assert (Hc : citer (a + (j - b)) id = Some x).
        { rewrite citer_add, E, <- citer_add. replace (b + (j - b)) with j by lia. exact Hj. }
        destruct (citer_next j (a + (j - b)) id x x Hj ltac:(lia) Hc) as (e & He). congruence. }
      intros a b Ha Hb E. apply in_seq in Ha, Hb.
      destruct (Nat.lt_trichotomy a b) as [Hab|[Hab|Hab]]; [|exact Hab|].
      - exfalso. apply (Hlt a b Hab); [lia|exact E].
      - exfalso. apply (Hlt b a Hab); [lia|symmetry; exact E]. }
    assert (Hincl : incl L (map Some (reg_ids r))).
    { intros o Ho. unfold L in Ho. apply in_map_iff in Ho as (a & <- & Ha). apply in_seq in Ha.
      destruct (citer_prefix j a id x Hj ltac:(lia)) as (y & Hy). rewrite Hy. apply in_map.
      destruct (Nat.eq_dec a j) as [->|Hne].
      - rewrite Hj in Hy. inversion Hy; subst. eapply lookup_in_ids; exact Hx.
      - destruct (citer_next j a id x y Hj ltac:(lia) Hy) as (e & He).
        destruct (cnext_lookup _ _ He) as (ty & Hty). eapply lookup_in_ids; exact Hty. }
    pose proof (NoDup_incl_length Hnd Hincl) as Hlen.
    unfold L, reg_ids in Hlen. rewrite !map_length, !seq_length in Hlen. lia.
  Qed.

  (** a successful check = a chain of compact steps, then a check at a non-compact entry *)
  Lemma has_type_fuel_decomp : forall F id v,
    has_type_fuel F r id v = true ->
    exists j x t, j < F /\ citer j id = Some x /\ lookup r x = Some t /\
                  (forall e, t_def t <> TDCompact e) /\
                  ty_typedb (has_type_fuel (F - S j) r) t v = true.
  Proof.
    induction F as [|F IH]; intros id v H; [discriminate|].
    cbn [has_type_fuel] in H. destruct (lookup r id) as [t|] eqn:E; [|discriminate].
    destruct (t_def t) as [fs|vs|e|len e|ts|p|e|st o] eqn:Ed;
      try (exists 0, id, t; split; [lia|]; split; [reflexivity|]; split; [exact E|];
           split; [intros e0; rewrite Ed; discriminate|];
           replace (S F - 1) with F by lia; exact H).
    unfold ty_typedb in H. rewrite Ed in H.
    destruct (IH e v H) as (j & x & t' & Hj & Hc & Hx & Hnc & Hty).
    exists (S j), x, t'. split; [lia|]. split.
    - cbn [citer]. unfold cnext. rewrite E, Ed. exact Hc.
    - split; [exact Hx|]. split; [exact Hnc|]. replace (S F - S (S j)) with (F - S j) by lia. exact Hty.
  Qed.

  Lemma chain_typed : forall j id x t G v,
    citer j id = Some x -> lookup r x = Some t ->
    ty_typedb (has_type_fuel G r) t v = true -> has_type_fuel (j + S G) r id v = true.
  Proof.
    induction j as [|j IH]; intros id x t G v Hc Hx Hty.
    - inversion Hc; subst. cbn [plus has_type_fuel]. rewrite Hx. exact Hty.
    - cbn [citer] in Hc. unfold cnext in Hc.
      destruct (lookup r id) as [t0|] eqn:E0; [|discriminate].
      destruct (t_def t0) as [ | | | | | |e| ] eqn:Ed; try discriminate.
      cbn [plus has_type_fuel]. rewrite E0. unfold ty_typedb. rewrite Ed.
      eapply IH; eassumption.
  Qed.

  Lemma noncompact_cnext x t : lookup r x = Some t -> (forall e, t_def t <> TDCompact e) -> cnext x = None.
  Proof.
    intros Hx Hnc. unfold cnext. rewrite Hx. destruct (t_def t) as [ | | | | | |e| ]; try reflexivity.
    exfalso. exact (Hnc e eq_refl).
  Qed.

  Theorem has_type_fuel_enough : forall F id v,
    has_type_fuel F r id v = true -> has_typeb r id v = true.
  Proof.
    unfold has_typeb.
    assert (Hd : forall d v, value_depth v <= d -> forall F id,
              has_type_fuel F r id v = true ->
              has_type_fuel (value_depth v * S (List.length r)) r id v = true).
    { induction d as [|d IH]; intros v Hv F id H.
      - pose proof (value_depth_pos v). lia.
      - destruct (has_type_fuel_decomp F id v H) as (j & x & t & Hj & Hc & Hx & Hnc & Hty).
        pose proof (chain_bound j id x t Hc Hx (noncompact_cnext x t Hx Hnc)) as Hjn.
        pose proof (value_depth_pos v) as Hpos.
        assert (Hty' : ty_typedb (has_type_fuel ((value_depth v - 1) * S (List.length r)) r) t v = true).
        { eapply ty_typedb_mono_sub; [exact Hnc| |exact Hty].
          intros i v' Hv' Hi. pose proof (depth_child v v' Hv') as Hlt.
          eapply has_type_fuel_mono; [|eapply (IH v'); [lia|exact Hi]]. nia. }
        eapply has_type_fuel_mono; [|eapply chain_typed; [exact Hc|exact Hx|exact Hty']]. nia. }
    intros F id v H. eapply Hd; [apply le_n|exact H].
  Qed.
End Chain.

(** ** C17: the converse typing direction of the restriction, with the checkers themselves *)
Theorem has_typeb_restriction_converse pi k r id v :
  renumbering (N.of_nat (List.length r)) pi -> closed (restrict pi k r) ->
  in_reg (restrict pi k r) (pi id) ->
  has_typeb r id v = true ->
  has_typeb (restrict pi k r) (pi id) v = true /\ has_type (restrict pi k r) (pi id) v.
Proof.
  intros Hpi Hcl Hin H. unfold has_typeb in H.
  rewrite <- (has_type_fuel_restriction pi k r Hpi Hcl _ id v Hin) in H.
  split; [eapply has_type_fuel_enough; exact H|eapply has_type_fuel_sound; exact H].
Qed.

(** on a closed restricted registry the two verdicts are equal *)
Theorem has_typeb_restriction_eq pi k r id v :
  renumbering (N.of_nat (List.length r)) pi -> closed (restrict pi k r) ->
  in_reg (restrict pi k r) (pi id) ->
  has_typeb (restrict pi k r) (pi id) v = has_typeb r id v.
Proof.
  intros Hpi Hcl Hin.
  destruct (has_typeb r id v) eqn:E.
  - apply (has_typeb_restriction_converse pi k r id v Hpi Hcl Hin E).
  - destruct (has_typeb (restrict pi k r) (pi id) v) eqn:E'; [|reflexivity].
    pose proof (has_typeb_restriction pi k r id v Hpi E'). congruence.
Qed.

(** the hypotheses of the converse direction / of [example_restriction_same_outcome] are
    satisfiable: [ex_reg] restricted to what is reachable from a::c::E<u8> (5 of 8 entries) *)
From V Require Import Model.ExamplesTG Model.ExamplesFam Proofs.ExamplesC17 Proofs.ResolveTotal.

Example restriction_closed_satisfiable :
  exists pi k r id,
    renumbering (N.of_nat (List.length r)) pi /\ closed (restrict pi k r) /\
    in_reg (restrict pi k r) (pi id) /\ (List.length (restrict pi k r) < List.length r)%nat /\ pi id <> id.
Proof.
  exists ex_pi_keep, ex_keep_k, ex_reg, 4%N.
  split; [exact ex_pi_keep_renumbering|].
  split; [apply closed_reg_closed; vm_compute; reflexivity|].
  split; [unfold in_reg; vm_compute; reflexivity|].
  split; [vm_compute; repeat constructor|vm_compute; discriminate].
Qed.
